/-
C12 helper lemmas, part 3: `topBitmapPairs` / `topLoop` for explicitly requested ids.
Core Lean only.
-/
import PV.C12.Lemmas2
namespace PV.C12
open List

theorem CacheInv.of_none {c : Cache} {cnt : Nat → Nat} (h : c.kind = .none) : CacheInv c cnt :=
  fun hk => absurd h hk

/-- What `topBitmapPairs(ids)` yields per requested id under `CacheInv`. -/
def idPair (s : Store) (id : Nat) : Option (Nat × Nat) :=
  if s.count id > 0 then some (id, s.count id) else none

theorem idPairs_spec (ids : List Nat) (f : Frag) (hk : f.cache.kind ≠ .none)
    (h : CacheInv f.cache f.store.count) :
    (f.idPairs ids).1 = ids.filterMap (idPair f.store) ∧
    (∀ k, eget (f.idPairs ids).2.entries k = eget f.cache.entries k) ∧
    (f.idPairs ids).2.kind = f.cache.kind := by
  induction ids generalizing f with
  | nil => exact ⟨rfl, fun _ => rfl, rfl⟩
  | cons id rest ih =>
    have hg := get_val f.cache id hk
    have hge := get_entries f.cache id
    have hgk := get_kind f.cache id
    let f1 : Frag := { f with cache := (f.cache.get id).2 }
    have hk1 : f1.cache.kind ≠ .none := by show (f.cache.get id).2.kind ≠ _; rw [hgk]; exact hk
    have h1 : CacheInv f1.cache f1.store.count := by
      show CacheInv (f.cache.get id).2 f.store.count
      exact h.of_same hgk hge
    obtain ⟨ih1, ih2, ih3⟩ := ih f1 hk1 h1
    have hstore : f1.store = f.store := rfl
    unfold Frag.idPairs
    simp only
    have e1 : ({ f with cache := (f.cache.get id).2 } : Frag) = f1 := rfl
    rw [e1]
    refine ⟨?_, ?_, ?_⟩
    · simp only [List.filterMap_cons, idPair]
      rw [hg]
      by_cases hz : eget f.cache.entries id > 0
      · have hne : eget f.cache.entries id ≠ 0 := Nat.pos_iff_ne_zero.mp hz
        have := h hk id hne
        simp only [hz, if_true]
        rw [← this]
        simp only [hz, if_true]
        rw [ih1, hstore]
      · simp only [hz, if_false]
        by_cases hc : f.store.count id > 0
        · simp only [hc, if_true]; rw [ih1, hstore]
        · simp only [hc, if_false]; rw [ih1, hstore]
    · intro k
      have : eget (f1.idPairs rest).2.entries k = eget f.cache.entries k := by
        rw [ih2 k]; exact hge k
      split
      · exact this
      · split <;> exact this
    · have : (f1.idPairs rest).2.kind = f.cache.kind := by rw [ih3]; exact hgk
      split
      · exact this
      · split <;> exact this

/-- The per-candidate decision of `fragment.top` when nothing is truncated (N = 0). -/
def keepPair (s : Store) (o : TopOpt) (p : Nat × Nat) : Option (Nat × Nat) :=
  if p.2 = 0 then none
  else if p.2 < o.minThr then none
  else
    let count := match o.src with
      | none => p.2
      | some src => s.countIn p.1 src
    if count = 0 then none else if count < o.minThr then none else some (p.1, count)

theorem topLoop_zero (s : Store) (o : TopOpt) (pairs res : List (Nat × Nat)) :
    topLoop s o 0 pairs res = res ++ pairs.filterMap (keepPair s o) := by
  induction pairs generalizing res with
  | nil => simp [topLoop]
  | cons p rest ih =>
    obtain ⟨row, cnt⟩ := p
    unfold topLoop
    simp only [List.filterMap_cons, keepPair]
    by_cases h0 : cnt = 0
    · simp only [h0, if_true]; exact ih res
    · simp only [h0, if_false]
      by_cases h1 : cnt < o.minThr
      · simp only [h1, if_true]; exact ih res
      · simp only [h1, if_false, true_or, if_true]
        cases hs : o.src with
        | none =>
          simp only [h0, if_false, h1]
          have : ¬ (0 > 0 ∧ (res ++ [(row, cnt)]).length = 0 ∧ (none : Option (List Nat)).isNone = true) := by
            intro h; exact absurd h.1 (Nat.lt_irrefl 0)
          simp only [this, if_false]
          rw [ih]; simp
        | some src =>
          simp only
          by_cases h2 : s.countIn row src = 0
          · simp only [h2, if_true]; exact ih res
          · simp only [h2, if_false]
            by_cases h3 : s.countIn row src < o.minThr
            · simp only [h3, if_true]; exact ih res
            · simp only [h3, if_false]
              have : ¬ (0 > 0 ∧ (res ++ [(row, s.countIn row src)]).length = 0 ∧ (some src : Option (List Nat)).isNone = true) := by
                intro h; exact absurd h.1 (Nat.lt_irrefl 0)
              simp only [this, if_false]
              rw [ih]; simp

theorem keep_idPair_eq (s : Store) (o : TopOpt) (ids : List Nat) :
    (ids.filterMap (idPair s)).filterMap (keepPair s o) =
      (ids.map (fun r => (r, Spec.trueCount s r o.src))).filter (fun p => Spec.qualifies o.minThr p.2) := by
  induction ids with
  | nil => rfl
  | cons id rest ih =>
    simp only [List.filterMap_cons, List.map_cons, List.filter_cons, idPair]
    by_cases hc : s.count id > 0
    · simp only [hc, if_true, List.filterMap_cons, keepPair]
      have hne : ¬ s.count id = 0 := Nat.pos_iff_ne_zero.mp hc
      simp only [hne, if_false]
      cases hs : o.src with
      | none =>
        simp only [Spec.trueCount, Spec.qualifies]
        by_cases h1 : s.count id < o.minThr
        · have : ¬ (s.count id ≥ o.minThr) := Nat.not_le.mpr h1
          simp [h1, this, hs] at ih ⊢; exact ih
        · have h1' : s.count id ≥ o.minThr := Nat.le_of_not_lt h1
          have h2 : s.count id ≥ 1 := hc
          simp [h1, hne, h1', h2, hs] at ih ⊢; exact ih
      | some src =>
        simp only [Spec.trueCount, Spec.qualifies]
        have hle := countIn_le_count s id src
        by_cases h1 : s.count id < o.minThr
        · have : ¬ (s.countIn id src ≥ o.minThr) := by omega
          simp [h1, this, hs] at ih ⊢; exact ih
        · simp only [h1, if_false]
          by_cases h2 : s.countIn id src = 0
          · simp [h2, hs] at ih ⊢; exact ih
          · by_cases h3 : s.countIn id src < o.minThr
            · have : ¬ (s.countIn id src ≥ o.minThr) := Nat.not_le.mpr h3
              simp [h2, h3, this, hs] at ih ⊢; exact ih
            · have h3' : s.countIn id src ≥ o.minThr := Nat.le_of_not_lt h3
              have h4 : s.countIn id src ≥ 1 := Nat.pos_of_ne_zero h2
              simp [h2, h3, h3', h4, hs] at ih ⊢; exact ih
    · simp only [hc, if_false]
      have hz : s.count id = 0 := by omega
      have : Spec.qualifies o.minThr (Spec.trueCount s id o.src) = false := by
        unfold Spec.trueCount Spec.qualifies
        cases o.src with
        | none => simp [hz]
        | some src =>
          have hle := countIn_le_count s id src
          have : s.countIn id src = 0 := by omega
          simp [this]
      simp only [this]
      exact ih

/-! ### the cache kind never changes -/

theorem foldl_bulkAdd_kind (order : List Nat) (g : Nat → Nat) (c : Cache) :
    (order.foldl (fun c r => c.bulkAdd r (g r)) c).kind = c.kind := by
  induction order generalizing c with
  | nil => rfl
  | cons r rest ih => rw [List.foldl_cons, ih, bulkAdd_kind]

theorem rowOrder_kind (c : Cache) (rows : List Nat) : (c.rowOrder rows).2.kind = c.kind := by
  unfold Cache.rowOrder
  split
  · split <;> rfl
  · rfl

theorem setBit_kind (f : Frag) (r c : Nat) : (f.setBit r c).2.cache.kind = f.cache.kind := by
  unfold Frag.setBit
  split
  · rfl
  · simp only; split
    · exact add_kind _ _ _
    · rfl

theorem clearBit_kind (f : Frag) (r c : Nat) : (f.clearBit r c).2.cache.kind = f.cache.kind := by
  unfold Frag.clearBit
  split
  · rfl
  · simp only; split
    · exact add_kind _ _ _
    · rfl

theorem setRow_kind (f : Frag) (r : Nat) (cols : List Nat) : (f.setRow r cols).cache.kind = f.cache.kind := by
  unfold Frag.setRow
  simp only
  split
  · exact bulkAdd_kind _ _ _
  · rfl

theorem importBits_kind (f : Frag) (bits : List (Nat × Nat)) (clear : Bool) :
    (f.importBits bits clear).cache.kind = f.cache.kind := by
  unfold Frag.importBits
  simp only
  generalize (if clear = true then f.store.clearMany bits else f.store.setMany bits) = s'
  split
  · rfl
  · simp only [recalculate_kind, foldl_bulkAdd_kind, rowOrder_kind]

theorem importRoaring_kind (f : Frag) (bits : List (Nat × Nat)) (clear : Bool) :
    (f.importRoaring bits clear).cache.kind = f.cache.kind := by
  unfold Frag.importRoaring
  simp only
  generalize (if clear = true then f.store.clearMany bits else f.store.setMany bits) = s'
  split
  · rfl
  · split
    · rfl
    · simp only [recalculate_kind, foldl_bulkAdd_kind, rowOrder_kind]

theorem reopen_kind (f : Frag) : f.reopen.cache.kind = f.cache.kind := by
  unfold Frag.reopen
  split
  · rfl
  · simp only [invalidate_kind, foldl_bulkAdd_kind]
    rfl

theorem openCacheWith_kind (f : Frag) (ids : List Nat) : (f.openCacheWith ids).cache.kind = f.cache.kind := by
  unfold Frag.openCacheWith
  split
  · rfl
  · simp only [invalidate_kind, foldl_bulkAdd_kind]
    rfl

theorem transfer_kind (dst src : Frag) : (dst.transfer src).cache.kind = dst.cache.kind := by
  unfold Frag.transfer
  simp only
  split
  · rfl
  · exact openCacheWith_kind _ _

theorem idPairs_kind (ids : List Nat) (f : Frag) : (f.idPairs ids).2.kind = f.cache.kind := by
  induction ids generalizing f with
  | nil => rfl
  | cons id rest ih =>
    unfold Frag.idPairs
    simp only
    have := ih { f with cache := (f.cache.get id).2 }
    simp only [get_kind] at this
    split
    · exact this
    · split <;> exact this

theorem cacheTop_kind (c : Cache) : c.top.2.kind = c.kind := by
  unfold Cache.top
  split
  · rfl
  · simp only
    split <;> simp only [popHint_kind]
  · rfl

theorem top_kind (f : Frag) (o : TopOpt) : (f.top o).2.cache.kind = f.cache.kind := by
  unfold Frag.top Frag.topBitmapPairs
  simp only
  split
  · rfl
  · split
    · simp only [cacheTop_kind, invalidate_kind]
    · simp only [idPairs_kind]

end PV.C12
