/-
C12 model: the count caches of cache.go, the fragment's cache updates on every write path
(fragment.go) and `fragment.top` / `topBitmapPairs`.  Core Lean only.

  rankCache  Add / BulkAdd / Get / Invalidate / Recalculate / Top / IDs        cache.go
  lruCache   Add / BulkAdd / Get / Top / IDs  (lru.Cache: recency list)         cache.go, lru/lru.go
  nopCache                                                                      cache.go
  fragment   setBit clearBit setRow clearRow importPositions importRoaring
             RecalculateCache openCache(flushCache ; reopen) top topBitmapPairs fragment.go

The model follows the code AFTER the two repairs made for this property
  * importRoaring recounts every changed row (was: cache.Get(row)+delta),
  * rankCache.Add / BulkAdd delete the row's entry when the new count is below the threshold
    (was: ignore the call and keep the older count);
`Legacy.*` keeps the two old behaviours for the witness theorems in Props.lean.

Three things the Go code leaves to the runtime are explicit here:
  * the 10 second throttle of rankCache.invalidate: `throttled` is set by the caller before every
    operation (adversarial boolean) and set to true by every recalculation,
  * the order of equal counts after `sort.Sort` over a map iteration (rankCache.recalculate,
    lruCache.Top) and the iteration order of the rowSet map (importPositions / importRoaring):
    they are taken from a queue of *hints* (the orders observed on the real code); a hint is used
    only after it has been validated against the model's own state, otherwise the cache is marked
    `bad`.  Theorems quantify over every hint queue.
uint64 counts are Nat (no wrap-around: a count is at most 2^20).
-/
namespace PV.C12

/-! ### id ↦ count association lists (a Go map; for the LRU also the recency list) -/

abbrev Entries := List (Nat × Nat)

def eget : Entries → Nat → Nat
  | [], _ => 0
  | (k', v) :: rest, k => if k' = k then v else eget rest k

def ehas (m : Entries) (k : Nat) : Bool := m.any (fun p => p.1 == k)

def edel (m : Entries) (k : Nat) : Entries := m.filter (fun p => p.1 != k)

/-- `m[k] = v`; for the LRU list: move-to-front (or push-front) with the new value. -/
def eset (m : Entries) (k v : Nat) : Entries := (k, v) :: edel m k

def ekeys (m : Entries) : List Nat := m.map (·.1)

/-- ids ascending (cache.IDs(), and printing). -/
def insertAsc (x : Nat) : List Nat → List Nat
  | [] => [x]
  | y :: ys => if x ≤ y then x :: y :: ys else y :: insertAsc x ys

def sortAsc (l : List Nat) : List Nat := l.foldr insertAsc []

/-- canonical order of pairs: count descending, id ascending. -/
def pairBefore (a b : Nat × Nat) : Bool := a.2 > b.2 || (a.2 == b.2 && a.1 ≤ b.1)

def insertPair (x : Nat × Nat) : List (Nat × Nat) → List (Nat × Nat)
  | [] => [x]
  | y :: ys => if pairBefore x y then x :: y :: ys else y :: insertPair x ys

def sortPairs (l : List (Nat × Nat)) : List (Nat × Nat) := l.foldr insertPair []

def canonOrder (m : Entries) : List Nat := (sortPairs m).map (·.1)

/-! ### hints -/

inductive HintTag | recalc | top | adds
deriving DecidableEq, Repr

abbrev Hint := HintTag × List Nat

def nonIncr (m : Entries) : List Nat → Bool
  | [] => true
  | [_] => true
  | a :: b :: rest => decide (eget m a ≥ eget m b) && nonIncr m (b :: rest)

def nodupB : List Nat → Bool
  | [] => true
  | x :: xs => !xs.contains x && nodupB xs

/-- `o` lists every key of `m` exactly once, counts non-increasing: a possible result of
`sort.Sort(bitmapPairs)` over the map. -/
def validOrder (m : Entries) (o : List Nat) : Bool :=
  nodupB o && o.all (ehas m) && m.all (fun p => o.contains p.1) && nonIncr m o

/-- Complete an observed prefix (e.g. the truncated rankings) with the remaining keys in
canonical order. -/
def completeOrder (m : Entries) (h : List Nat) : List Nat :=
  h ++ canonOrder (m.filter (fun p => !h.contains p.1))

/-! ### the caches -/

inductive Kind | ranked | lru | none
deriving DecidableEq, Repr

structure Cache where
  kind : Kind
  size : Nat                          -- maxEntries (CacheSize)
  entries : Entries := []             -- ranked: `entries`; lru: recency list, most recent first
  rankings : List (Nat × Nat) := []   -- ranked only
  thr : Nat := 0                      -- thresholdValue
  throttled : Bool := false           -- time.Since(updateTime) < 10 s
  hints : List Hint := []
  bad : Bool := false
deriving Repr

def Cache.new (k : Kind) (size : Nat) : Cache := { kind := k, size := size }

/-- Pop the next hint if it carries the expected tag. -/
def Cache.popHint (c : Cache) (t : HintTag) : Option (List Nat) × Cache :=
  match c.hints with
  | [] => (none, c)
  | (t', ids) :: rest =>
    if t' = t then (some ids, { c with hints := rest }) else (none, { c with bad := true })

/-- `rankCache.recalculate` with the sorted order of all entries given. -/
def Cache.recalcWith (c : Cache) (full : List Nat) : Cache :=
  let rk := full.map (fun id => (id, eget c.entries id))
  if rk.length > c.size then
    let removed := rk.drop c.size
    let thr := match removed with
      | [] => 0
      | p :: _ => p.2
    let entries :=
      if c.entries.length > 11 * c.size / 10 then removed.foldl (fun e p => edel e p.1) c.entries
      else c.entries
    { c with rankings := rk.take c.size, thr := thr, entries := entries, throttled := true }
  else
    { c with rankings := rk, thr := 1, throttled := true }

def Cache.recalc (c : Cache) : Cache :=
  let (h, c) := c.popHint .recalc
  let full := completeOrder c.entries (h.getD [])
  if validOrder c.entries full then c.recalcWith full else { c with bad := true }

def Cache.invalidate (c : Cache) : Cache :=
  match c.kind with
  | .ranked => if c.throttled then c else c.recalc
  | _ => c

def Cache.recalculate (c : Cache) : Cache :=
  match c.kind with
  | .ranked => c.recalc
  | _ => c

/-- `lru.Cache.Add` + `lruCache.counts`. -/
def Cache.lruAdd (c : Cache) (id n : Nat) : Cache :=
  if ehas c.entries id then { c with entries := eset c.entries id n }
  else
    let e := (id, n) :: c.entries
    if c.size ≠ 0 ∧ e.length > c.size then { c with entries := e.dropLast }
    else { c with entries := e }

def Cache.add (c : Cache) (id n : Nat) : Cache :=
  match c.kind with
  | .ranked =>
    if n < c.thr ∧ n > 0 then { c with entries := edel c.entries id }
    else ({ c with entries := eset c.entries id n }).invalidate
  | .lru => c.lruAdd id n
  | .none => c

def Cache.bulkAdd (c : Cache) (id n : Nat) : Cache :=
  match c.kind with
  | .ranked =>
    if n < c.thr then { c with entries := edel c.entries id }
    else { c with entries := eset c.entries id n }
  | .lru => c.lruAdd id n
  | .none => c

/-- `Get`: the LRU moves the entry to the front. -/
def Cache.get (c : Cache) (id : Nat) : Nat × Cache :=
  match c.kind with
  | .ranked => (eget c.entries id, c)
  | .lru =>
    if ehas c.entries id then
      (eget c.entries id, { c with entries := eset c.entries id (eget c.entries id) })
    else (0, c)
  | .none => (0, c)

/-- `Top()`: the rankings of the last recalculation; for the LRU every cached count, sorted. -/
def Cache.top (c : Cache) : List (Nat × Nat) × Cache :=
  match c.kind with
  | .ranked => (c.rankings, c)
  | .lru =>
    let (h, c) := c.popHint .top
    let full := completeOrder c.entries (h.getD [])
    if validOrder c.entries full then (full.map (fun id => (id, eget c.entries id)), c)
    else ((sortPairs c.entries), { c with bad := true })
  | .none => ([], c)

def Cache.ids (c : Cache) : List Nat :=
  match c.kind with
  | .none => []
  | _ => sortAsc (ekeys c.entries)

/-! ### storage: the set of (row, column) bits of one fragment -/

abbrev Store := List (Nat × Nat)

def Store.has (s : Store) (r c : Nat) : Bool := s.contains (r, c)
def Store.set (s : Store) (r c : Nat) : Store := if s.contains (r, c) then s else (r, c) :: s
def Store.clear (s : Store) (r c : Nat) : Store := s.filter (fun p => p != (r, c))
def Store.clearRow (s : Store) (r : Nat) : Store := s.filter (fun p => p.1 != r)
/-- `storage.CountRange(row*ShardWidth, (row+1)*ShardWidth)`. -/
def Store.count (s : Store) (r : Nat) : Nat := (s.filter (fun p => p.1 == r)).length
/-- `src.intersectionCount(f.row(r))`. -/
def Store.countIn (s : Store) (r : Nat) (src : List Nat) : Nat :=
  (s.filter (fun p => p.1 == r && src.contains p.2)).length
def Store.setMany (s : Store) (bits : List (Nat × Nat)) : Store :=
  bits.foldl (fun s p => s.set p.1 p.2) s
def Store.clearMany (s : Store) (bits : List (Nat × Nat)) : Store :=
  bits.foldl (fun s p => s.clear p.1 p.2) s

structure Frag where
  store : Store := []
  cache : Cache
deriving Repr

def Frag.open (k : Kind) (size : Nat) : Frag := { cache := Cache.new k size }

def Frag.setBit (f : Frag) (r c : Nat) : Bool × Frag :=
  if f.store.has r c then (false, f)
  else
    let s := f.store.set r c
    let cache := if f.cache.kind ≠ .none then f.cache.add r (s.count r) else f.cache
    (true, { store := s, cache := cache })

def Frag.clearBit (f : Frag) (r c : Nat) : Bool × Frag :=
  if !f.store.has r c then (false, f)
  else
    let s := f.store.clear r c
    let cache := if f.cache.kind ≠ .none then f.cache.add r (s.count r) else f.cache
    (true, { store := s, cache := cache })

/-- `setRow`: replace the row by the given columns; BulkAdd of the recount, no invalidate. -/
def Frag.setRow (f : Frag) (r : Nat) (cols : List Nat) : Frag :=
  let s := (f.store.clearRow r).setMany (cols.map (fun c => (r, c)))
  let cache := if f.cache.kind ≠ .none then f.cache.bulkAdd r (s.count r) else f.cache
  { store := s, cache := cache }

def Frag.clearRow (f : Frag) (r : Nat) : Frag :=
  { store := f.store.clearRow r, cache := f.cache.add r 0 }

/-- rows of a batch in first-occurrence order (the model's own order when no hint is given). -/
def rowsOf (bits : List (Nat × Nat)) : List Nat :=
  bits.foldl (fun acc p => if acc.contains p.1 then acc else acc ++ [p.1]) []

def samePerm (a b : List Nat) : Bool :=
  nodupB a && a.length == b.length && a.all b.contains && b.all a.contains

/-- The order in which the Go loop `for rowID := range rowSet` visits `rows`. -/
def Cache.rowOrder (c : Cache) (rows : List Nat) : List Nat × Cache :=
  match c.hints with
  | (.adds, ids) :: rest =>
    if samePerm ids rows then (ids, { c with hints := rest }) else (rows, { c with hints := rest, bad := true })
  | _ => (rows, c)

/-- `importPositions` (bulkImport): storage first, then for every row of the batch a recount and
BulkAdd, then Recalculate. -/
def Frag.importBits (f : Frag) (bits : List (Nat × Nat)) (clear : Bool) : Frag :=
  let s := if clear then f.store.clearMany bits else f.store.setMany bits
  if f.cache.kind = .none then { store := s, cache := f.cache }
  else
    let (order, c) := f.cache.rowOrder (rowsOf bits)
    let c := order.foldl (fun c r => c.bulkAdd r (s.count r)) c
    { store := s, cache := c.recalculate }

/-- `importRoaring`: rows whose bit count changed get a recount and BulkAdd; Recalculate only if
some row changed. -/
def Frag.importRoaring (f : Frag) (bits : List (Nat × Nat)) (clear : Bool) : Frag :=
  let s := if clear then f.store.clearMany bits else f.store.setMany bits
  if f.cache.kind = .none then { store := s, cache := f.cache }
  else
    let changed := (rowsOf bits).filter (fun r => s.count r != f.store.count r)
    if changed.isEmpty then { store := s, cache := f.cache }
    else
      let (order, c) := f.cache.rowOrder changed
      let c := order.foldl (fun c r => c.bulkAdd r (s.count r)) c
      { store := s, cache := c.recalculate }

def Frag.recalculateCache (f : Frag) : Frag := { f with cache := f.cache.recalculate }

/-- Close (flushCache writes cache.IDs()) and Open (openCache: BulkAdd of a recount for every
persisted id, ascending, then Invalidate on the fresh cache). -/
def Frag.reopen (f : Frag) : Frag :=
  match f.cache.kind with
  | .none => f
  | _ =>
    let ids := f.cache.ids
    let c0 : Cache := { Cache.new f.cache.kind f.cache.size with hints := f.cache.hints, bad := f.cache.bad }
    let c := ids.foldl (fun c r => c.bulkAdd r (f.store.count r)) c0
    { f with cache := c.invalidate }

/-- `openCache` against the current storage for a list of persisted ids: a fresh cache of the
fragment's kind and size, BulkAdd of a recount per id (ascending), then Invalidate. -/
def Frag.openCacheWith (f : Frag) (ids : List Nat) : Frag :=
  match f.cache.kind with
  | .none => f
  | _ =>
    let c0 : Cache := { Cache.new f.cache.kind f.cache.size with hints := f.cache.hints, bad := f.cache.bad }
    let c := ids.foldl (fun c r => c.bulkAdd r (f.store.count r)) c0
    { f with cache := c.invalidate }

/-- Fragment hand-over (cluster resize): `src.WriteTo` (tar archive: the storage, then — unless the
source has no cache — the ids its cache holds) and `dst.ReadFrom`: the storage is replaced, and if
the archive has a cache entry the cache is rebuilt by `openCache` against the NEW storage. -/
def Frag.transfer (dst src : Frag) : Frag :=
  let d : Frag := { dst with store := src.store }
  match src.cache.kind with
  | .none => d                       -- no cache entry in the archive: the receiver's cache is untouched
  | _ => d.openCacheWith src.cache.ids

/-! ### top -/

structure TopOpt where
  n : Nat := 0
  src : Option (List Nat) := none
  ids : List Nat := []
  minThr : Nat := 0

/-- `topBitmapPairs` for explicit ids (cache kind ≠ none): cached count if non-zero, else the
row's count from storage if non-zero. Order is irrelevant to `top` for this path (N = 0). -/
def Frag.idPairs (f : Frag) : List Nat → List (Nat × Nat) × Cache
  | [] => ([], f.cache)
  | id :: rest =>
    let (n, c) := f.cache.get id
    let (ps, c') := ({ f with cache := c }).idPairs rest
    if n > 0 then ((id, n) :: ps, c')
    else if f.store.count id > 0 then ((id, f.store.count id) :: ps, c')
    else (ps, c')

def Frag.topBitmapPairs (f : Frag) (ids : List Nat) : List (Nat × Nat) × Frag :=
  if f.cache.kind = .none then ([], f)
  else if ids.isEmpty then
    let (ps, c) := f.cache.invalidate.top
    (ps, { f with cache := c })
  else
    let (ps, c) := f.idPairs ids
    (ps, { f with cache := c })

def minCount : List (Nat × Nat) → Nat
  | [] => 0
  | [p] => p.2
  | p :: rest => Nat.min p.2 (minCount rest)

/-- The loop of `fragment.top` over the candidate pairs; `res` is the heap seen as a bag
(`results.Pairs[0].Count` = its smallest count). `n = 0` means no truncation. -/
def topLoop (s : Store) (o : TopOpt) (n : Nat) : List (Nat × Nat) → List (Nat × Nat) → List (Nat × Nat)
  | [], res => res
  | (row, cnt) :: rest, res =>
    if cnt = 0 then topLoop s o n rest res
    else if cnt < o.minThr then topLoop s o n rest res
    else if n = 0 ∨ res.length < n then
      let count := match o.src with
        | none => cnt
        | some src => s.countIn row src
      if count = 0 then topLoop s o n rest res
      else if count < o.minThr then topLoop s o n rest res
      else
        let res := res ++ [(row, count)]
        if n > 0 ∧ res.length = n ∧ o.src.isNone then res
        else topLoop s o n rest res
    else
      let threshold := minCount res
      if threshold < o.minThr ∨ cnt < threshold then res
      else
        match o.src with
        | none => res            -- unreachable in Go (the loop has already left when Src is nil)
        | some src =>
          let count := s.countIn row src
          if count < threshold then topLoop s o n rest res
          else topLoop s o n rest (res ++ [(row, count)])

/-- `fragment.top`; the result is canonically ordered (count descending, id ascending): the heap
yields non-increasing counts, equal counts in an unspecified order. -/
def Frag.top (f : Frag) (o : TopOpt) : List (Nat × Nat) × Frag :=
  let (pairs, f') := f.topBitmapPairs o.ids
  let n := if o.ids.isEmpty then o.n else 0
  (sortPairs (topLoop f.store o n pairs []), f')

/-! ### the two behaviours that were repaired (kept for the witness theorems) -/
namespace Legacy

/-- rankCache.BulkAdd before the repair: a count below the threshold is ignored. -/
def bulkAdd (c : Cache) (id n : Nat) : Cache :=
  match c.kind with
  | .ranked => if n < c.thr then c else { c with entries := eset c.entries id n }
  | _ => c.bulkAdd id n

/-- rankCache.Add before the repair. -/
def add (c : Cache) (id n : Nat) : Cache :=
  match c.kind with
  | .ranked => if n < c.thr ∧ n > 0 then c else ({ c with entries := eset c.entries id n }).invalidate
  | _ => c.add id n

def clearBit (f : Frag) (r c : Nat) : Frag :=
  if !f.store.has r c then f
  else
    let s := f.store.clear r c
    { store := s, cache := if f.cache.kind ≠ .none then add f.cache r (s.count r) else f.cache }

/-- importRoaring before the repair: `BulkAdd(row, Get(row) + delta)` (set imports only; a clearing
import wrapped around in uint64). -/
def importRoaringSet (f : Frag) (bits : List (Nat × Nat)) : Frag :=
  let s := f.store.setMany bits
  if f.cache.kind = .none then { store := s, cache := f.cache }
  else
    let changed := (rowsOf bits).filter (fun r => s.count r != f.store.count r)
    if changed.isEmpty then { store := s, cache := f.cache }
    else
      let c := changed.foldl (fun c r =>
        let (old, c) := c.get r
        c.bulkAdd r (old + (s.count r - f.store.count r))) f.cache
      { store := s, cache := c.recalculate }

/-- Hand-over with the archive entries in the wrong order (cache before data): the receiver
recounts the transferred ids against its OLD storage, then the storage is replaced. -/
def transferCacheFirst (dst src : Frag) : Frag :=
  match src.cache.kind with
  | .none => { dst with store := src.store }
  | _ => { dst.openCacheWith src.cache.ids with store := src.store }

end Legacy

/-! ### executor: TopN over the shards of a field (executeTopN, executeTopNShards, Pairs.Add) -/

/-- `Pairs.Add`: `m[id] = count` for the accumulated pairs, `m[id] += count` for the new shard. -/
def pairsAdd (p other : List (Nat × Nat)) : Entries :=
  let m := p.foldl (fun m x => eset m x.1 x.2) ([] : Entries)
  other.foldl (fun m x => eset m x.1 (eget m x.1 + x.2)) m

/-- `executeTopNShards`: per shard `top` (threshold 0 becomes 1; the filter row is restricted to
the shard, so every fragment comes with its own part of it), results merged in arrival order
starting from nil, finally sorted by count (equal counts in unspecified order: canonical here). -/
def topNShards (o : TopOpt) : List (Frag × Option (List Nat)) → List (Nat × Nat) →
    List (Nat × Nat) × List Frag
  | [], acc => (sortPairs acc, [])
  | (f, src) :: fs, acc =>
    let o' := { o with src := src, minThr := if o.minThr = 0 then 1 else o.minThr }
    let (ps, f') := f.top o'
    let (res, fs') := topNShards o fs (pairsAdd acc ps)
    (res, f' :: fs')

/-- Is `pick` a possible value of `sorted[0:n]` for some order of the equal counts of `full`? -/
def validPick (full : List (Nat × Nat)) (n : Nat) (pick : List Nat) : Bool :=
  nodupB pick && pick.all (ehas full) && nonIncr full pick && pick.length == Nat.min n full.length &&
  full.all (fun p => pick.contains p.1 || pick.all (fun q => eget full q ≥ p.2))

/-- `executeTopN`: first pass, then (when no ids were given and something was found) a second pass
with the ids found, trimmed to n. `pick` is the observed trimmed id list (hint). -/
def topN (o : TopOpt) (fs : List Frag) (srcs : List (Option (List Nat))) (pick : Option (List Nat)) :
    List (Nat × Nat) × List Frag × Bool :=
  let (pairs, fs1) := topNShards o (fs.zip srcs) []
  if pairs.isEmpty ∨ !o.ids.isEmpty then (pairs, fs1, true)
  else
    let ids := sortAsc (pairs.map (·.1))
    let (trimmed, fs2) := topNShards { o with ids := ids } (fs1.zip srcs) []
    if o.n ≠ 0 ∧ o.n < trimmed.length then
      match pick with
      | some pk =>
        if validPick trimmed o.n pk then (sortPairs (pk.map (fun id => (id, eget trimmed id))), fs2, true)
        else (trimmed.take o.n, fs2, false)
      | none => (trimmed.take o.n, fs2, true)
    else (trimmed, fs2, true)

end PV.C12
