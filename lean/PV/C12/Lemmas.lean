/-
C12 helper lemmas: association lists, the cache-update relation `Upd`, frame lemmas of the store.
Core Lean only.
-/
import PV.C12.Model
import PV.C12.Spec
namespace PV.C12
open List

/-! ### association lists -/

theorem eget_edel_self (m : Entries) (k : Nat) : eget (edel m k) k = 0 := by
  induction m with
  | nil => rfl
  | cons p rest ih =>
    obtain ⟨k', v⟩ := p
    by_cases h : k' = k
    · subst h; simpa [edel, List.filter] using ih
    · have : ((k', v).1 != k) = true := by simp [h]
      simp only [edel, List.filter, this] at ih ⊢
      simp only [eget, h, if_false]; exact ih

theorem eget_edel_ne (m : Entries) (k k' : Nat) (h : k' ≠ k) : eget (edel m k) k' = eget m k' := by
  induction m with
  | nil => rfl
  | cons p rest ih =>
    obtain ⟨a, v⟩ := p
    by_cases ha : a = k
    · subst ha
      have h2 : ¬ a = k' := fun e => h e.symm
      simp only [edel, List.filter, bne_self_eq_false] at ih ⊢
      simp only [eget, h2, if_false]; exact ih
    · have : ((a, v).1 != k) = true := by simp [ha]
      simp only [edel, List.filter, this] at ih ⊢
      simp only [eget]; rw [ih]

theorem eget_eset_self (m : Entries) (k v : Nat) : eget (eset m k v) k = v := by
  simp [eset, eget]

theorem eget_eset_ne (m : Entries) (k v k' : Nat) (h : k' ≠ k) : eget (eset m k v) k' = eget m k' := by
  have h2 : ¬ k = k' := fun e => h e.symm
  simp only [eset, eget, h2, if_false]
  exact eget_edel_ne m k k' h

theorem eget_eset_same (m : Entries) (k k' : Nat) : eget (eset m k (eget m k)) k' = eget m k' := by
  by_cases h : k' = k
  · subst h; exact eget_eset_self m k' _
  · exact eget_eset_ne m k _ k' h

theorem eget_of_not_ehas (m : Entries) (k : Nat) (h : ehas m k = false) : eget m k = 0 := by
  induction m with
  | nil => rfl
  | cons p rest ih =>
    obtain ⟨a, v⟩ := p
    simp only [ehas, List.any_cons, Bool.or_eq_false_iff, beq_eq_false_iff_ne] at h
    have ha : ¬ a = k := h.1
    simp only [eget, ha, if_false]
    exact ih (by simpa [ehas] using h.2)

theorem eget_dropLast (m : Entries) (k : Nat) : eget m.dropLast k = eget m k ∨ eget m.dropLast k = 0 := by
  induction m with
  | nil => left; rfl
  | cons p rest ih =>
    obtain ⟨a, v⟩ := p
    cases rest with
    | nil => right; rfl
    | cons q rest' =>
      simp only [List.dropLast]
      by_cases ha : a = k
      · left; simp [eget, ha]
      · simp only [eget, ha, if_false]
        exact ih

/-! ### `Upd e' e id n`: `e'` is `e` with `id` set to `n`, except that entries may have been dropped -/

def Upd (e' e : Entries) (id n : Nat) : Prop :=
  ∀ k, (k = id → eget e' k = n ∨ eget e' k = 0) ∧ (k ≠ id → eget e' k = eget e k ∨ eget e' k = 0)

/-- Only dropped entries. -/
def Sub (e' e : Entries) : Prop := ∀ k, eget e' k = eget e k ∨ eget e' k = 0

theorem Sub.refl (e : Entries) : Sub e e := fun _ => Or.inl rfl

theorem Sub.trans {a b c : Entries} (h1 : Sub a b) (h2 : Sub b c) : Sub a c := by
  intro k
  rcases h1 k with h | h
  · rcases h2 k with h' | h'
    · left; rw [h, h']
    · right; rw [h, h']
  · right; exact h

theorem Upd.of_sub {e'' e' e : Entries} {id n : Nat} (h1 : Sub e'' e') (h2 : Upd e' e id n) : Upd e'' e id n := by
  intro k
  constructor
  · intro hk
    rcases h1 k with h | h
    · rcases (h2 k).1 hk with h' | h'
      · left; rw [h, h']
      · right; rw [h, h']
    · right; exact h
  · intro hk
    rcases h1 k with h | h
    · rcases (h2 k).2 hk with h' | h'
      · left; rw [h, h']
      · right; rw [h, h']
    · right; exact h

theorem upd_eset (e : Entries) (id n : Nat) : Upd (eset e id n) e id n := by
  intro k; constructor
  · intro h; left; subst h; exact eget_eset_self e k n
  · intro h; left; exact eget_eset_ne e id n k h

theorem upd_edel (e : Entries) (id n : Nat) : Upd (edel e id) e id n := by
  intro k; constructor
  · intro h; right; subst h; exact eget_edel_self e k
  · intro h; left; exact eget_edel_ne e id k h

theorem sub_edel (e : Entries) (id : Nat) : Sub (edel e id) e := by
  intro k
  by_cases h : k = id
  · right; subst h; exact eget_edel_self e k
  · left; exact eget_edel_ne e id k h

theorem sub_foldl_edel (l : List (Nat × Nat)) (e : Entries) :
    Sub (l.foldl (fun e p => edel e p.1) e) e := by
  induction l generalizing e with
  | nil => exact Sub.refl e
  | cons p rest ih => exact Sub.trans (ih (edel e p.1)) (sub_edel e p.1)

theorem sub_dropLast (e : Entries) : Sub e.dropLast e := fun k => eget_dropLast e k

/-! ### the cache operations only update / drop -/

theorem popHint_entries (c : Cache) (t : HintTag) : (c.popHint t).2.entries = c.entries := by
  unfold Cache.popHint
  split
  · rfl
  · split <;> rfl

theorem popHint_kind (c : Cache) (t : HintTag) : (c.popHint t).2.kind = c.kind := by
  unfold Cache.popHint
  split
  · rfl
  · split <;> rfl

theorem recalcWith_sub (c : Cache) (full : List Nat) : Sub (c.recalcWith full).entries c.entries := by
  unfold Cache.recalcWith
  simp only
  split
  · simp only
    split
    · exact sub_foldl_edel _ _
    · exact Sub.refl _
  · exact Sub.refl _

theorem recalcWith_kind (c : Cache) (full : List Nat) : (c.recalcWith full).kind = c.kind := by
  unfold Cache.recalcWith
  simp only
  split <;> rfl

theorem recalc_sub (c : Cache) : Sub c.recalc.entries c.entries := by
  unfold Cache.recalc
  simp only
  split
  · have := recalcWith_sub (c.popHint .recalc).2 (completeOrder (c.popHint .recalc).2.entries ((c.popHint .recalc).1.getD []))
    have e := popHint_entries c .recalc
    intro k
    rcases this k with h1 | h1
    · left; exact h1.trans (congrArg (fun m => eget m k) e)
    · right; exact h1
  · simp only [popHint_entries]; exact Sub.refl _

theorem recalc_kind (c : Cache) : c.recalc.kind = c.kind := by
  unfold Cache.recalc
  simp only
  split
  · rw [recalcWith_kind, popHint_kind]
  · simp only [popHint_kind]

theorem invalidate_sub (c : Cache) : Sub c.invalidate.entries c.entries := by
  unfold Cache.invalidate
  split
  · split
    · exact Sub.refl _
    · exact recalc_sub c
  · exact Sub.refl _

theorem invalidate_kind (c : Cache) : c.invalidate.kind = c.kind := by
  unfold Cache.invalidate
  split
  · split
    · rfl
    · exact recalc_kind c
  · rfl

theorem recalculate_sub (c : Cache) : Sub c.recalculate.entries c.entries := by
  unfold Cache.recalculate
  split
  · exact recalc_sub c
  · exact Sub.refl _

theorem recalculate_kind (c : Cache) : c.recalculate.kind = c.kind := by
  unfold Cache.recalculate
  split
  · exact recalc_kind c
  · rfl

theorem lruAdd_upd (c : Cache) (id n : Nat) : Upd (c.lruAdd id n).entries c.entries id n := by
  unfold Cache.lruAdd
  split
  · exact upd_eset _ _ _
  · simp only
    have hcons : Upd ((id, n) :: c.entries) c.entries id n := by
      intro k; constructor
      · intro h; left; subst h; simp [eget]
      · intro h; left
        have : ¬ id = k := fun e => h e.symm
        simp [eget, this]
    split
    · exact Upd.of_sub (sub_dropLast _) hcons
    · exact hcons

theorem lruAdd_kind (c : Cache) (id n : Nat) : (c.lruAdd id n).kind = c.kind := by
  unfold Cache.lruAdd
  split
  · rfl
  · simp only; split <;> rfl

theorem add_upd (c : Cache) (id n : Nat) (hk : c.kind ≠ .none) : Upd (c.add id n).entries c.entries id n := by
  unfold Cache.add
  split
  · split
    · exact upd_edel _ _ _
    · exact Upd.of_sub (invalidate_sub _) (upd_eset _ _ _)
  · exact lruAdd_upd c id n
  · rename_i h; exact absurd h hk

theorem add_kind (c : Cache) (id n : Nat) : (c.add id n).kind = c.kind := by
  unfold Cache.add
  split
  · split
    · rfl
    · rw [invalidate_kind]
  · rw [lruAdd_kind]
  · rfl

theorem bulkAdd_upd (c : Cache) (id n : Nat) (hk : c.kind ≠ .none) : Upd (c.bulkAdd id n).entries c.entries id n := by
  unfold Cache.bulkAdd
  split
  · split
    · exact upd_edel _ _ _
    · exact upd_eset _ _ _
  · exact lruAdd_upd c id n
  · rename_i h; exact absurd h hk

theorem bulkAdd_kind (c : Cache) (id n : Nat) : (c.bulkAdd id n).kind = c.kind := by
  unfold Cache.bulkAdd
  split
  · split <;> rfl
  · rw [lruAdd_kind]
  · rfl

theorem get_entries (c : Cache) (id k : Nat) : eget (c.get id).2.entries k = eget c.entries k := by
  unfold Cache.get
  split
  · rfl
  · split
    · exact eget_eset_same _ _ _
    · rfl
  · rfl

theorem get_kind (c : Cache) (id : Nat) : (c.get id).2.kind = c.kind := by
  unfold Cache.get
  split
  · rfl
  · split <;> rfl
  · rfl

theorem get_val (c : Cache) (id : Nat) (hk : c.kind ≠ .none) : (c.get id).1 = eget c.entries id := by
  unfold Cache.get
  split
  · rfl
  · split
    · rfl
    · rename_i h; exact (eget_of_not_ehas _ _ (by simpa using h)).symm
  · rename_i h; exact absurd h hk

end PV.C12
