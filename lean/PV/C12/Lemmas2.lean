/-
C12 helper lemmas, part 2: frame lemmas of the store, `CacheInv` and its preservation by every
write path of the fragment.  Core Lean only.
-/
import PV.C12.Lemmas
namespace PV.C12
open List

/-! ### store frames -/

theorem count_set_ne (s : Store) (r c r' : Nat) (h : r' ≠ r) : (s.set r c).count r' = s.count r' := by
  unfold Store.set
  split
  · rfl
  · have : ((r, c).1 == r') = false := by simp; exact fun e => h e.symm
    simp [Store.count, List.filter, this]

theorem count_clear_ne (s : Store) (r c r' : Nat) (h : r' ≠ r) : (s.clear r c).count r' = s.count r' := by
  unfold Store.clear Store.count
  rw [List.filter_filter]
  congr 1
  apply List.filter_congr
  intro p _
  by_cases hp : p.1 = r'
  · have : p ≠ (r, c) := by intro e; rw [e] at hp; exact h hp.symm
    simp [hp, this]
  · simp [hp]

theorem count_clearRow_ne (s : Store) (r r' : Nat) (h : r' ≠ r) : (s.clearRow r).count r' = s.count r' := by
  unfold Store.clearRow Store.count
  rw [List.filter_filter]
  congr 1
  apply List.filter_congr
  intro p _
  by_cases hp : p.1 = r'
  · simp [hp, h]
  · simp [hp]

theorem count_clearRow_self (s : Store) (r : Nat) : (s.clearRow r).count r = 0 := by
  unfold Store.clearRow Store.count
  rw [List.filter_filter]
  have : (s.filter (fun a => (a.1 == r) && (a.1 != r))) = [] := by
    apply List.filter_eq_nil_iff.mpr
    intro p _
    by_cases hp : p.1 = r <;> simp [hp]
  rw [this]; rfl

theorem count_setMany_notin (bits : List (Nat × Nat)) (s : Store) (r : Nat)
    (h : ∀ p ∈ bits, p.1 ≠ r) : (s.setMany bits).count r = s.count r := by
  induction bits generalizing s with
  | nil => rfl
  | cons p rest ih =>
    simp only [Store.setMany, List.foldl_cons]
    have := ih (s.set p.1 p.2) (fun q hq => h q (by simp [hq]))
    simp only [Store.setMany] at this
    rw [this]
    exact count_set_ne s p.1 p.2 r (fun e => h p (by simp) e.symm)

theorem count_clearMany_notin (bits : List (Nat × Nat)) (s : Store) (r : Nat)
    (h : ∀ p ∈ bits, p.1 ≠ r) : (s.clearMany bits).count r = s.count r := by
  induction bits generalizing s with
  | nil => rfl
  | cons p rest ih =>
    simp only [Store.clearMany, List.foldl_cons]
    have := ih (s.clear p.1 p.2) (fun q hq => h q (by simp [hq]))
    simp only [Store.clearMany] at this
    rw [this]
    exact count_clear_ne s p.1 p.2 r (fun e => h p (by simp) e.symm)

theorem rowsOf_aux (bits : List (Nat × Nat)) (acc : List Nat) :
    ∀ r, (r ∈ acc ∨ ∃ p ∈ bits, p.1 = r) →
      r ∈ bits.foldl (fun acc p => if acc.contains p.1 then acc else acc ++ [p.1]) acc := by
  induction bits generalizing acc with
  | nil =>
    intro r h
    rcases h with h | ⟨p, hp, _⟩
    · exact h
    · cases hp
  | cons q rest ih =>
    intro r h
    simp only [List.foldl_cons]
    apply ih
    rcases h with h | ⟨p, hp, hpr⟩
    · left; split
      · exact h
      · exact List.mem_append_left _ h
    · rcases List.mem_cons.mp hp with e | hp'
      · left; subst e; subst hpr
        split
        · rename_i hc; simpa using hc
        · simp
      · right; exact ⟨p, hp', hpr⟩

theorem mem_rowsOf (bits : List (Nat × Nat)) (p : Nat × Nat) (h : p ∈ bits) : p.1 ∈ rowsOf bits :=
  rowsOf_aux bits [] p.1 (Or.inr ⟨p, h, rfl⟩)

theorem countIn_le_count (s : Store) (r : Nat) (src : List Nat) : s.countIn r src ≤ s.count r := by
  unfold Store.countIn Store.count
  have : s.filter (fun p => p.1 == r && src.contains p.2) =
      (s.filter (fun p => p.1 == r)).filter (fun p => src.contains p.2) := by
    rw [List.filter_filter]
    apply List.filter_congr
    intro p _
    exact Bool.and_comm _ _
  rw [this]
  exact List.length_filter_le _ _

/-! ### the invariant -/

/-- A cached non-zero count is the true count. (A nopCache caches nothing.) -/
def CacheInv (c : Cache) (cnt : Nat → Nat) : Prop :=
  c.kind ≠ .none → ∀ id, eget c.entries id ≠ 0 → eget c.entries id = cnt id

theorem CacheInv.of_upd {c c' : Cache} {cnt cnt' : Nat → Nat} {r n : Nat}
    (h : CacheInv c cnt) (hk : c'.kind = c.kind) (hu : c.kind ≠ .none → Upd c'.entries c.entries r n)
    (hn : n = cnt' r) (hf : ∀ id, id ≠ r → cnt' id = cnt id) : CacheInv c' cnt' := by
  intro hk' id hne
  have hkc : c.kind ≠ .none := by rw [← hk]; exact hk'
  by_cases e : id = r
  · rcases ((hu hkc) id).1 e with h1 | h1
    · rw [h1, hn, e]
    · exact absurd h1 hne
  · rcases ((hu hkc) id).2 e with h1 | h1
    · rw [h1, hf id e]
      exact h hkc id (by rw [← h1]; exact hne)
    · exact absurd h1 hne

theorem CacheInv.of_sub {c c' : Cache} {cnt : Nat → Nat}
    (h : CacheInv c cnt) (hk : c'.kind = c.kind) (hs : Sub c'.entries c.entries) : CacheInv c' cnt := by
  intro hk' id hne
  have hkc : c.kind ≠ .none := by rw [← hk]; exact hk'
  rcases hs id with h1 | h1
  · rw [h1]; exact h hkc id (by rw [← h1]; exact hne)
  · exact absurd h1 hne

theorem CacheInv.of_same {c c' : Cache} {cnt : Nat → Nat}
    (h : CacheInv c cnt) (hk : c'.kind = c.kind) (he : ∀ k, eget c'.entries k = eget c.entries k) :
    CacheInv c' cnt :=
  h.of_sub hk (fun k => Or.inl (he k))

/-- `mix done cnt cnt'`: the rows already recounted carry the new count. -/
def mix (done : List Nat) (cnt cnt' : Nat → Nat) : Nat → Nat :=
  fun id => if id ∈ done then cnt' id else cnt id

theorem foldl_bulkAdd_inv (order : List Nat) (c : Cache) (done : List Nat) (cnt cnt' : Nat → Nat)
    (h : CacheInv c (mix done cnt cnt')) :
    CacheInv (order.foldl (fun c r => c.bulkAdd r (cnt' r)) c) (mix (order.reverse ++ done) cnt cnt') ∧
    (order.foldl (fun c r => c.bulkAdd r (cnt' r)) c).kind = c.kind := by
  induction order generalizing c done with
  | nil => simpa using h
  | cons r rest ih =>
    simp only [List.foldl_cons]
    have step : CacheInv (c.bulkAdd r (cnt' r)) (mix (r :: done) cnt cnt') := by
      apply h.of_upd (bulkAdd_kind c r _) (fun hk => bulkAdd_upd c r _ hk) (n := cnt' r)
      · simp [mix]
      · intro id hid
        simp [mix, hid]
    have := ih (c.bulkAdd r (cnt' r)) (r :: done) step
    constructor
    · have h1 := this.1
      have e : (r :: rest).reverse ++ done = rest.reverse ++ (r :: done) := by simp
      rw [e]; exact h1
    · rw [this.2, bulkAdd_kind]

theorem mix_eq_of_frame (order done : List Nat) (cnt cnt' : Nat → Nat)
    (hf : ∀ id, id ∉ order → cnt' id = cnt id) (hd : done = []) :
    ∀ id, mix (order.reverse ++ done) cnt cnt' id = cnt' id := by
  intro id
  subst hd
  simp only [mix, List.append_nil, List.mem_reverse]
  split
  · rfl
  · rename_i h; exact (hf id h).symm

theorem CacheInv.congr {c : Cache} {f g : Nat → Nat} (h : CacheInv c f) (e : ∀ id, f id = g id) : CacheInv c g := by
  intro hk id hne
  rw [← e id]; exact h hk id hne

end PV.C12
