/-
C12 specification: what TopN must report, stated on the stored bits only (no cache).
-/
import PV.C12.Model
namespace PV.C12.Spec
open PV.C12

/-- Number of columns set in row `r`, restricted to the filter row if one is given. -/
def trueCount (s : Store) (r : Nat) (src : Option (List Nat)) : Nat :=
  match src with
  | none => s.count r
  | some f => s.countIn r f

/-- Rows of the fragment, ascending, without duplicates. -/
def rows (s : Store) : List Nat :=
  sortAsc (s.foldl (fun acc p => if acc.contains p.1 then acc else p.1 :: acc) [])

/-- A row is reported only with a non-zero count that reaches the threshold. -/
def qualifies (thr n : Nat) : Bool := n ≥ 1 && n ≥ thr

/-- TopN for explicitly requested rows: exactly the requested rows that qualify, each with its
true count; canonical order (count descending, id ascending). -/
def topIds (s : Store) (ids : List Nat) (src : Option (List Nat)) (thr : Nat) : List (Nat × Nat) :=
  sortPairs ((ids.map (fun r => (r, trueCount s r src))).filter (fun p => qualifies thr p.2))

/-- Every qualifying row of the fragment with its true count, canonical order. -/
def allPairs (s : Store) (src : Option (List Nat)) (thr : Nat) : List (Nat × Nat) :=
  topIds s (rows s) src thr

/-- All reported counts are the true counts. -/
def countsExact (cnt : Nat → Nat) (res : List (Nat × Nat)) : Bool :=
  res.all (fun p => p.2 == cnt p.1)

/-- `res` is an answer TopN(n) may give on a cache that holds every non-empty row and was just
recalculated: distinct qualifying rows with exact counts, `min(n, #qualifying)` of them when no
filter is given (at least that many with a filter: the executor trims), and no row left out has a
larger count than a reported one. Order among equal counts is unspecified. -/
def validTop (truth : List (Nat × Nat)) (n : Nat) (exactLen : Bool) (res : List (Nat × Nat)) : Bool :=
  let want := if n = 0 then truth.length else Nat.min n truth.length
  nodupB (res.map (·.1)) &&
  res.all (fun p => truth.contains p) &&
  (if exactLen then res.length == want else decide (res.length ≥ want)) &&
  truth.all (fun p => res.contains p || res.all (fun q => q.2 ≥ p.2))

end PV.C12.Spec
