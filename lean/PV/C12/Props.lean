/-
C12 property theorems.  Core Lean only.

Property (properties.jsonl C12): for any history of writes through any path, every count TopN
reports for explicitly requested rows equals the number of columns set in that row, restricted to
the filter row if one is given; on a shard whose rows fit in a freshly recalculated cache TopN(n)
returns min(n, number of non-empty rows) rows with the largest counts, in non-increasing order,
with exact counts.

  CacheInv_*            every write path (and every read) keeps `CacheInv`: a cached non-zero count
                        is the true count — for all three cache kinds, any size, any throttle
                        pattern, any order of equal counts / of map iteration (hints)
  CacheInv_reachable    hence it holds after every history
  C12_ids               full strength: with explicit ids `fragment.top` returns exactly the
                        requested rows whose count (within the filter) is non-zero and reaches the
                        threshold, each with that count
  C12_ids_reachable     the same, stated over histories
  C12_fresh             TopN(n) on a freshly recalculated ranked cache that holds every non-empty row
  C12_*_witness         the two repaired behaviours (Legacy.*) and the recorded finding
-/
import PV.C12.Lemmas5
namespace PV.C12
open List

/-! ### CacheInv is kept by every operation -/

theorem CacheInv_open (k : Kind) (size : Nat) : CacheInv (Frag.open k size).cache (Frag.open k size).store.count := by
  intro _ id hne; exact absurd rfl hne

theorem CacheInv_setBit (f : Frag) (r c : Nat) (h : CacheInv f.cache f.store.count) :
    CacheInv (f.setBit r c).2.cache (f.setBit r c).2.store.count := by
  unfold Frag.setBit
  split
  · exact h
  · simp only
    by_cases hk : f.cache.kind = .none
    · have : ¬ f.cache.kind ≠ Kind.none := fun x => x hk
      rw [if_neg this]
      exact CacheInv.of_none hk
    · have hk' : f.cache.kind ≠ Kind.none := hk
      rw [if_pos hk']
      exact h.of_upd (add_kind _ _ _) (fun hk => add_upd _ _ _ hk) rfl
        (fun id hid => count_set_ne f.store r c id hid)

theorem CacheInv_clearBit (f : Frag) (r c : Nat) (h : CacheInv f.cache f.store.count) :
    CacheInv (f.clearBit r c).2.cache (f.clearBit r c).2.store.count := by
  unfold Frag.clearBit
  split
  · exact h
  · simp only
    by_cases hk : f.cache.kind = .none
    · have : ¬ f.cache.kind ≠ Kind.none := fun x => x hk
      rw [if_neg this]
      exact CacheInv.of_none hk
    · have hk' : f.cache.kind ≠ Kind.none := hk
      rw [if_pos hk']
      exact h.of_upd (add_kind _ _ _) (fun hk => add_upd _ _ _ hk) rfl
        (fun id hid => count_clear_ne f.store r c id hid)

theorem CacheInv_setRow (f : Frag) (r : Nat) (cols : List Nat) (h : CacheInv f.cache f.store.count) :
    CacheInv (f.setRow r cols).cache (f.setRow r cols).store.count := by
  unfold Frag.setRow
  simp only
  have frame : ∀ id, id ≠ r →
      ((f.store.clearRow r).setMany (cols.map (fun c => (r, c)))).count id = f.store.count id := by
    intro id hid
    rw [count_setMany_notin _ _ id (by
      intro p hp
      rcases List.mem_map.mp hp with ⟨c, _, rfl⟩
      exact fun e => hid e.symm)]
    exact count_clearRow_ne f.store r id hid
  by_cases hk : f.cache.kind = .none
  · have : ¬ f.cache.kind ≠ Kind.none := fun x => x hk
    rw [if_neg this]
    exact CacheInv.of_none hk
  · have hk' : f.cache.kind ≠ Kind.none := hk
    rw [if_pos hk']
    exact h.of_upd (bulkAdd_kind _ _ _) (fun hk => bulkAdd_upd _ _ _ hk) rfl frame

theorem CacheInv_clearRow (f : Frag) (r : Nat) (h : CacheInv f.cache f.store.count) :
    CacheInv (f.clearRow r).cache (f.clearRow r).store.count := by
  unfold Frag.clearRow
  simp only
  exact h.of_upd (add_kind _ _ _) (fun hk => add_upd _ _ _ hk) (count_clearRow_self f.store r).symm
    (fun id hid => count_clearRow_ne f.store r id hid)

theorem rowOrder_spec (c : Cache) (rows : List Nat) :
    (c.rowOrder rows).2.entries = c.entries ∧ (c.rowOrder rows).2.kind = c.kind ∧
    ∀ r ∈ rows, r ∈ (c.rowOrder rows).1 := by
  unfold Cache.rowOrder
  split
  · rename_i ids rest _
    split
    · rename_i hp
      refine ⟨rfl, rfl, ?_⟩
      intro r hr
      simp only [samePerm, Bool.and_eq_true] at hp
      have := List.all_eq_true.mp hp.2 r hr
      simpa using this
    · exact ⟨rfl, rfl, fun r hr => hr⟩
  · exact ⟨rfl, rfl, fun r hr => hr⟩

/-- The shared tail of importPositions / importRoaring: recount the rows in `order`, recalculate. -/
theorem CacheInv_recount (c : Cache) (order : List Nat) (cnt cnt' : Nat → Nat)
    (h : CacheInv c cnt) (frame : ∀ id, id ∉ order → cnt' id = cnt id) :
    CacheInv ((order.foldl (fun c r => c.bulkAdd r (cnt' r)) c).recalculate) cnt' := by
  have h0 : CacheInv c (mix [] cnt cnt') := h.congr (fun id => by simp [mix])
  obtain ⟨h1, h2⟩ := foldl_bulkAdd_inv order c [] cnt cnt' h0
  have h3 := h1.congr (mix_eq_of_frame order [] cnt cnt' frame rfl)
  exact h3.of_sub (recalculate_kind _) (recalculate_sub _)

theorem CacheInv_importBits (f : Frag) (bits : List (Nat × Nat)) (clear : Bool)
    (h : CacheInv f.cache f.store.count) :
    CacheInv (f.importBits bits clear).cache (f.importBits bits clear).store.count := by
  unfold Frag.importBits
  simp only
  generalize hs' : (if clear = true then f.store.clearMany bits else f.store.setMany bits) = s'
  have hfr : ∀ id, (∀ p ∈ bits, p.1 ≠ id) → s'.count id = f.store.count id := by
    intro id' hnot
    subst hs'
    cases clear with
    | true => exact count_clearMany_notin bits f.store id' hnot
    | false => exact count_setMany_notin bits f.store id' hnot
  split
  · rename_i hk; exact CacheInv.of_none hk
  · obtain ⟨he, hkd, hmem⟩ := rowOrder_spec f.cache (rowsOf bits)
    have hc : CacheInv (f.cache.rowOrder (rowsOf bits)).2 f.store.count :=
      h.of_same hkd (fun k => by rw [he])
    apply CacheInv_recount _ _ _ _ hc
    intro id hid
    exact hfr id (fun p hp e => hid (hmem _ (e ▸ mem_rowsOf bits p hp)))

theorem CacheInv_importRoaring (f : Frag) (bits : List (Nat × Nat)) (clear : Bool)
    (h : CacheInv f.cache f.store.count) :
    CacheInv (f.importRoaring bits clear).cache (f.importRoaring bits clear).store.count := by
  unfold Frag.importRoaring
  simp only
  generalize hs' : (if clear = true then f.store.clearMany bits else f.store.setMany bits) = s'
  -- rows the batch does not mention keep their count
  have hfr : ∀ id, (∀ p ∈ bits, p.1 ≠ id) → s'.count id = f.store.count id := by
    intro id' hnot
    subst hs'
    cases clear with
    | true => exact count_clearMany_notin bits f.store id' hnot
    | false => exact count_setMany_notin bits f.store id' hnot
  -- rows whose count did not change keep their count, whether or not the batch mentions them
  have frame : ∀ id, id ∉ (rowsOf bits).filter (fun r => s'.count r != f.store.count r) →
        s'.count id = f.store.count id := by
    intro id hid
    by_cases hm : id ∈ rowsOf bits
    · have : ¬ ((s'.count id != f.store.count id) = true) := fun hb => hid (List.mem_filter.mpr ⟨hm, hb⟩)
      simpa using this
    · exact hfr id (fun p hp e => hm (e ▸ mem_rowsOf bits p hp))
  split
  · rename_i hk; exact CacheInv.of_none hk
  · split
    · -- no row changed: the counts are the old counts
      rename_i hempty
      have hnil : (rowsOf bits).filter (fun r => s'.count r != f.store.count r) = [] :=
        List.isEmpty_iff.mp hempty
      apply h.congr
      intro id
      symm
      exact frame id (by rw [hnil]; simp)
    · obtain ⟨he, hkd, hmem⟩ := rowOrder_spec f.cache ((rowsOf bits).filter (fun r => s'.count r != f.store.count r))
      have hc : CacheInv (f.cache.rowOrder ((rowsOf bits).filter (fun r => s'.count r != f.store.count r))).2 f.store.count :=
        h.of_same hkd (fun k => by rw [he])
      apply CacheInv_recount _ _ _ _ hc
      intro id hid
      exact frame id (fun hm => hid (hmem _ hm))

theorem CacheInv_recalculateCache (f : Frag) (h : CacheInv f.cache f.store.count) :
    CacheInv f.recalculateCache.cache f.recalculateCache.store.count :=
  h.of_sub (recalculate_kind _) (recalculate_sub _)

theorem CacheInv_reopen (f : Frag) (_h : CacheInv f.cache f.store.count) :
    CacheInv f.reopen.cache f.reopen.store.count := by
  unfold Frag.reopen
  split
  · rename_i hk; exact CacheInv.of_none hk
  · simp only
    let c0 : Cache := { Cache.new f.cache.kind f.cache.size with hints := f.cache.hints, bad := f.cache.bad }
    have h0 : CacheInv c0 (mix [] f.store.count f.store.count) := by
      intro _ id hne; exact absurd rfl hne
    obtain ⟨h1, _⟩ := foldl_bulkAdd_inv f.cache.ids c0 [] f.store.count f.store.count h0
    have h2 : CacheInv (f.cache.ids.foldl (fun c r => c.bulkAdd r (f.store.count r)) c0) f.store.count :=
      h1.congr (fun id => by simp [mix])
    exact h2.of_sub (invalidate_kind _) (invalidate_sub _)

theorem CacheInv_openCacheWith (f : Frag) (ids : List Nat) :
    CacheInv (f.openCacheWith ids).cache (f.openCacheWith ids).store.count ∧ (f.openCacheWith ids).store = f.store := by
  unfold Frag.openCacheWith
  split
  · rename_i hk; exact ⟨CacheInv.of_none hk, rfl⟩
  · refine ⟨?_, rfl⟩
    simp only
    let c0 : Cache := { Cache.new f.cache.kind f.cache.size with hints := f.cache.hints, bad := f.cache.bad }
    have h0 : CacheInv c0 (mix [] f.store.count f.store.count) := by
      intro _ id hne; exact absurd rfl hne
    obtain ⟨h1, _⟩ := foldl_bulkAdd_inv ids c0 [] f.store.count f.store.count h0
    have h2 : CacheInv (ids.foldl (fun c r => c.bulkAdd r (f.store.count r)) c0) f.store.count :=
      h1.congr (fun id => by simp [mix])
    exact h2.of_sub (invalidate_kind _) (invalidate_sub _)

/-- Fragment hand-over (`WriteTo` on the source, `ReadFrom` on the receiver — any receiver: fresh
or holding other data, any cache kind and size): afterwards the receiver's cached counts are
counts of the TRANSFERRED storage. (A source without a cache sends no cache entry; then the
receiver must not have one either — fragments of one field share the cache type.) -/
theorem CacheInv_transfer (dst src : Frag) (h : src.cache.kind = .none → dst.cache.kind = .none) :
    CacheInv (dst.transfer src).cache (dst.transfer src).store.count ∧ (dst.transfer src).store = src.store := by
  unfold Frag.transfer
  simp only
  split
  · rename_i hk; exact ⟨CacheInv.of_none (h hk), rfl⟩
  · exact CacheInv_openCacheWith { dst with store := src.store } src.cache.ids

theorem top_cache (f : Frag) (o : TopOpt) (h : CacheInv f.cache f.store.count) :
    CacheInv (f.top o).2.cache (f.top o).2.store.count ∧ (f.top o).2.store = f.store := by
  unfold Frag.top Frag.topBitmapPairs
  simp only
  split
  · exact ⟨h, rfl⟩
  · rename_i hk
    split
    · -- no ids: Invalidate, then Top
      refine ⟨?_, rfl⟩
      simp only
      have h1 : CacheInv f.cache.invalidate f.store.count := h.of_sub (invalidate_kind _) (invalidate_sub _)
      have hsub : Sub f.cache.invalidate.top.2.entries f.cache.invalidate.entries ∧
          f.cache.invalidate.top.2.kind = f.cache.invalidate.kind := by
        unfold Cache.top
        split
        · exact ⟨Sub.refl _, rfl⟩
        · simp only
          split
          · refine ⟨?_, popHint_kind _ _⟩
            rw [popHint_entries]; exact Sub.refl _
          · refine ⟨?_, popHint_kind _ _⟩
            simp only [popHint_entries]; exact Sub.refl _
        · exact ⟨Sub.refl _, rfl⟩
      exact h1.of_sub hsub.2 hsub.1
    · refine ⟨?_, rfl⟩
      simp only
      obtain ⟨_, h2, h3⟩ := idPairs_spec o.ids f hk h
      exact h.of_same h3 h2

/-! ### histories -/

/-- One step of a fragment's life. `env` is what the Go runtime decides before an operation:
whether rankCache.invalidate is inside its throttle window, and the orders it will pick. -/
inductive Op
  | setBit (r c : Nat)
  | clearBit (r c : Nat)
  | setRow (r : Nat) (cols : List Nat)
  | clearRow (r : Nat)
  | importBits (bits : List (Nat × Nat)) (clear : Bool)
  | importRoaring (bits : List (Nat × Nat)) (clear : Bool)
  | recalculate
  | reopen
  | top (o : TopOpt)
  | transfer (src : Frag) (hsrc : src.cache.kind ≠ Kind.none)
  | env (throttled : Bool) (hints : List Hint)

def Frag.step (f : Frag) : Op → Frag
  | .setBit r c => (f.setBit r c).2
  | .clearBit r c => (f.clearBit r c).2
  | .setRow r cols => f.setRow r cols
  | .clearRow r => f.clearRow r
  | .importBits bits clear => f.importBits bits clear
  | .importRoaring bits clear => f.importRoaring bits clear
  | .recalculate => f.recalculateCache
  | .reopen => f.reopen
  | .top o => (f.top o).2
  | .transfer src _ => f.transfer src
  | .env t hs => { f with cache := { f.cache with throttled := t, hints := hs, bad := false } }

theorem step_kind (f : Frag) (op : Op) : (f.step op).cache.kind = f.cache.kind := by
  cases op with
  | setBit r c => exact setBit_kind f r c
  | clearBit r c => exact clearBit_kind f r c
  | setRow r cols => exact setRow_kind f r cols
  | clearRow r => exact add_kind _ _ _
  | importBits bits clear => exact importBits_kind f bits clear
  | importRoaring bits clear => exact importRoaring_kind f bits clear
  | recalculate => exact recalculate_kind _
  | reopen => exact reopen_kind f
  | top o => exact top_kind f o
  | transfer src _ => exact transfer_kind f src
  | env t hs => rfl

theorem CacheInv_step (f : Frag) (op : Op) (h : CacheInv f.cache f.store.count) :
    CacheInv (f.step op).cache (f.step op).store.count := by
  cases op with
  | setBit r c => exact CacheInv_setBit f r c h
  | clearBit r c => exact CacheInv_clearBit f r c h
  | setRow r cols => exact CacheInv_setRow f r cols h
  | clearRow r => exact CacheInv_clearRow f r h
  | importBits bits clear => exact CacheInv_importBits f bits clear h
  | importRoaring bits clear => exact CacheInv_importRoaring f bits clear h
  | recalculate => exact CacheInv_recalculateCache f h
  | reopen => exact CacheInv_reopen f h
  | top o =>
    have := top_cache f o h
    exact this.1
  | transfer src hsrc => exact (CacheInv_transfer f src (fun hk => absurd hk hsrc)).1
  | env t hs => exact h.of_same rfl (fun _ => rfl)

/-- After any history on a fragment opened with any cache kind and size. -/
theorem CacheInv_reachable (k : Kind) (size : Nat) (ops : List Op) :
    let f := ops.foldl Frag.step (Frag.open k size)
    CacheInv f.cache f.store.count := by
  simp only
  suffices H : ∀ f : Frag, CacheInv f.cache f.store.count →
      CacheInv (ops.foldl Frag.step f).cache (ops.foldl Frag.step f).store.count from
    H _ (CacheInv_open k size)
  induction ops with
  | nil => intro f h; exact h
  | cons op rest ih => intro f h; exact ih _ (CacheInv_step f op h)

/-! ### counts for explicitly requested rows -/

/-- C12, first sentence, full strength: for explicitly requested ids `fragment.top` reports exactly
the requested rows whose number of columns (within the filter row, if given) is non-zero and
reaches the threshold, each with exactly that number. -/
theorem C12_ids (f : Frag) (o : TopOpt) (h : CacheInv f.cache f.store.count)
    (hk : f.cache.kind ≠ .none) (hids : o.ids ≠ []) :
    (f.top o).1 = Spec.topIds f.store o.ids o.src o.minThr := by
  unfold Frag.top Frag.topBitmapPairs Spec.topIds
  have hne : o.ids.isEmpty = false := by
    cases hi : o.ids with
    | nil => exact absurd hi hids
    | cons _ _ => rfl
  have hkk : ¬ f.cache.kind = Kind.none := hk
  simp only [hkk, if_false, hne, Bool.false_eq_true]
  obtain ⟨h1, _, _⟩ := idPairs_spec o.ids f hk h
  rw [h1, topLoop_zero, List.nil_append, keep_idPair_eq]

/-- The same over histories: whatever was written through whatever path, with whatever cache. -/
theorem C12_ids_reachable (k : Kind) (size : Nat) (ops : List Op) (o : TopOpt)
    (hk : k ≠ .none) (hids : o.ids ≠ []) :
    let f := ops.foldl Frag.step (Frag.open k size)
    (f.top o).1 = Spec.topIds f.store o.ids o.src o.minThr := by
  simp only
  have hkind : ∀ (ops : List Op) (f : Frag), (ops.foldl Frag.step f).cache.kind = f.cache.kind := by
    intro ops
    induction ops with
    | nil => intro f; rfl
    | cons op rest ih => intro f; rw [List.foldl_cons, ih]; exact step_kind f op
  have hk' : (ops.foldl Frag.step (Frag.open k size)).cache.kind ≠ .none := by
    rw [hkind]; exact hk
  exact C12_ids _ o (CacheInv_reachable k size ops) hk' hids

/-! ### TopN(n) on a freshly recalculated cache that holds every non-empty row -/

/-- The loop of `fragment.top` (no ids, no filter row) over candidate pairs that list every cache
entry once in non-increasing order of count, when the cache holds every non-empty row. -/
theorem fresh_core (f : Frag) (n thr : Nat) (full rows : List Nat)
    (hkn : f.cache.kind ≠ .none)
    (hvalid : validOrder f.cache.entries full = true)
    (hinv : CacheInv f.cache f.store.count)
    (hcomplete : ∀ r, f.store.count r > 0 → eget f.cache.entries r = f.store.count r)
    (hrowsnd : rows.Nodup)
    (hrows : ∀ r, r ∈ rows ↔ (f.store.count r ≥ 1 ∧ f.store.count r ≥ thr)) :
    let res := sortPairs (topLoop f.store { n := n, minThr := thr } n
      (full.map (fun id => (id, eget f.cache.entries id))) [])
    (∀ p ∈ res, p.2 = f.store.count p.1 ∧ p.1 ∈ rows) ∧
    res.Pairwise (fun a b => a.2 ≥ b.2) ∧
    res.length = (if n = 0 then rows.length else Nat.min n rows.length) ∧
    (∀ r ∈ rows, r ∉ res.map (·.1) → ∀ p ∈ res, p.2 ≥ f.store.count r) := by
  intro res
  let o : TopOpt := { n := n, minThr := thr }
  let m := f.cache.entries
  -- unpack validOrder
  simp only [validOrder, Bool.and_eq_true] at hvalid
  obtain ⟨⟨⟨hnd, hall⟩, hcov⟩, hni⟩ := hvalid
  have hfullnd : full.Nodup := nodup_of_nodupB full hnd
  -- the candidates that pass, in ranking order
  let L : List (Nat × Nat) := (full.filter (passes m thr)).map (fun id => (id, eget m id))
  have hL : (full.map (fun id => (id, eget m id))).filterMap (keepPair f.store o) = L :=
    filterMap_keep_rankings f.store o rfl m full
  -- what the loop returns
  let T : List (Nat × Nat) := if n = 0 then L else L.take n
  have hT : topLoop f.store o n (full.map (fun id => (id, eget m id))) [] = T := by
    by_cases hn : n = 0
    · simp only [T, hn, if_true]
      rw [topLoop_zero, List.nil_append, hL]
    · simp only [T, hn, if_false]
      rw [topLoop_nosrc f.store o n rfl (Nat.pos_of_ne_zero hn) _ [] (Nat.pos_of_ne_zero hn), List.nil_append, hL]
  have hres : res = sortPairs T := by
    show sortPairs (topLoop f.store o n (full.map (fun id => (id, eget m id))) []) = _
    rw [hT]
  -- facts about members of L
  have hmemL : ∀ p ∈ L, p.1 ∈ full ∧ passes m thr p.1 = true ∧ p.2 = eget m p.1 := by
    intro p hp
    rcases List.mem_map.mp hp with ⟨id, hid, rfl⟩
    have := List.mem_filter.mp hid
    exact ⟨this.1, this.2, rfl⟩
  have hpass : ∀ id, passes m thr id = true → eget m id = f.store.count id ∧ f.store.count id ≥ 1 ∧ f.store.count id ≥ thr := by
    intro id hp
    simp only [passes, Bool.and_eq_true, bne_iff_ne, ne_eq, Bool.not_eq_true', decide_eq_false_iff_not, Nat.not_lt] at hp
    have e := hinv hkn id hp.1
    rw [← e]
    exact ⟨rfl, Nat.pos_of_ne_zero hp.1, hp.2⟩
  have hrowsL : ∀ r ∈ rows, (r, f.store.count r) ∈ L := by
    intro r hr
    have hq := (hrows r).mp hr
    have hc := hcomplete r hq.1
    have hne : eget m r ≠ 0 := by rw [hc]; exact Nat.pos_iff_ne_zero.mp hq.1
    obtain ⟨p, hp, hpr⟩ := mem_keys_of_ehas m r (ehas_of_eget_ne m r hne)
    have hfull : r ∈ full := by
      have := List.all_eq_true.mp hcov p hp
      rw [hpr] at this
      simpa using this
    have hps : passes m thr r = true := by
      simp only [passes, Bool.and_eq_true, bne_iff_ne, ne_eq, Bool.not_eq_true', decide_eq_false_iff_not, Nat.not_lt]
      exact ⟨hne, by rw [hc]; exact hq.2⟩
    have : (r, eget m r) ∈ L := List.mem_map.mpr ⟨r, List.mem_filter.mpr ⟨hfull, hps⟩, rfl⟩
    rw [hc] at this; exact this
  have hTsub : ∀ p ∈ T, p ∈ L := by
    intro p hp
    by_cases hn : n = 0
    · simp only [T, hn, if_true] at hp; exact hp
    · simp only [T, hn, if_false] at hp; exact List.mem_of_mem_take hp
  -- L is sorted by count and duplicate-free in its ids
  have hLsorted : L.Pairwise (fun a b => a.2 ≥ b.2) := by
    have h1 := nonIncr_pairwise m full hni
    have h2 : (full.filter (passes m thr)).Pairwise (fun a b => eget m a ≥ eget m b) := h1.filter _
    exact List.pairwise_map.mpr h2
  have hLlen : L.length = rows.length := by
    have hnd' : (full.filter (passes m thr)).Nodup := hfullnd.filter _
    have hperm : (full.filter (passes m thr)).Perm rows := by
      apply (List.perm_ext_iff_of_nodup hnd' hrowsnd).mpr
      intro r
      constructor
      · intro hr
        have := List.mem_filter.mp hr
        have hp := hpass r this.2
        exact (hrows r).mpr ⟨hp.2.1, hp.2.2⟩
      · intro hr
        have := hrowsL r hr
        rcases List.mem_map.mp this with ⟨id, hid, he⟩
        have : id = r := congrArg Prod.fst he
        rw [← this]; exact hid
    simp only [L, List.length_map]
    exact hperm.length_eq
  refine ⟨?_, ?_, ?_, ?_⟩
  · intro p hp
    rw [hres] at hp
    have hpL := hTsub p ((mem_sortPairs p T).mp hp)
    obtain ⟨_, hps, he⟩ := hmemL p hpL
    have := hpass p.1 hps
    exact ⟨by rw [he]; exact this.1, (hrows p.1).mpr ⟨this.2.1, this.2.2⟩⟩
  · rw [hres]; exact cntSorted_sortPairs T
  · rw [hres, length_sortPairs]
    by_cases hn : n = 0
    · simp only [T, hn, if_true]; exact hLlen
    · simp only [T, hn, if_false, List.length_take, hLlen]
  · intro r hr hnot p hp
    rw [hres] at hp hnot
    have hpT := (mem_sortPairs p T).mp hp
    have hrL := hrowsL r hr
    have hrT : (r, f.store.count r) ∉ T := by
      intro h
      apply hnot
      exact List.mem_map.mpr ⟨(r, f.store.count r), (mem_sortPairs _ T).mpr h, rfl⟩
    by_cases hn : n = 0
    · simp only [T, hn, if_true] at hrT; exact absurd hrL hrT
    · simp only [T, hn, if_false] at hrT hpT
      have hsplit : L = L.take n ++ L.drop n := (List.take_append_drop n L).symm
      have hrd : (r, f.store.count r) ∈ L.drop n := by
        rw [hsplit] at hrL
        rcases List.mem_append.mp hrL with h | h
        · exact absurd h hrT
        · exact h
      rw [hsplit] at hLsorted
      exact (List.pairwise_append.mp hLsorted).2.2 p hpT _ hrd

/-- C12, second sentence. The cache is ranked, was recalculated just now (`rankings` is a sorted
listing `full` of all entries, nothing cut off: the rows fit; the next invalidate is throttled) and
holds every non-empty row. `rows` is any duplicate-free enumeration of the rows whose count is
non-zero and reaches the threshold. Then TopN(n):
  * reports only such rows, each with its exact count,
  * in non-increasing order of count,
  * min(n, number of such rows) of them (all of them for n = 0),
  * and no row left out has a larger count than a reported one. -/
theorem C12_fresh (f : Frag) (n thr : Nat) (full rows : List Nat)
    (hkind : f.cache.kind = .ranked) (hthrot : f.cache.throttled = true)
    (hvalid : validOrder f.cache.entries full = true)
    (hrank : f.cache.rankings = full.map (fun id => (id, eget f.cache.entries id)))
    (hinv : CacheInv f.cache f.store.count)
    (hcomplete : ∀ r, f.store.count r > 0 → eget f.cache.entries r = f.store.count r)
    (hrowsnd : rows.Nodup)
    (hrows : ∀ r, r ∈ rows ↔ (f.store.count r ≥ 1 ∧ f.store.count r ≥ thr)) :
    let res := (f.top { n := n, minThr := thr }).1
    (∀ p ∈ res, p.2 = f.store.count p.1 ∧ p.1 ∈ rows) ∧
    res.Pairwise (fun a b => a.2 ≥ b.2) ∧
    res.length = (if n = 0 then rows.length else Nat.min n rows.length) ∧
    (∀ r ∈ rows, r ∉ res.map (·.1) → ∀ p ∈ res, p.2 ≥ f.store.count r) := by
  have hkn : f.cache.kind ≠ .none := by rw [hkind]; exact fun h => Kind.noConfusion h
  have hres : (f.top { n := n, minThr := thr }).1 =
      sortPairs (topLoop f.store { n := n, minThr := thr } n
        (full.map (fun id => (id, eget f.cache.entries id))) []) := by
    unfold Frag.top Frag.topBitmapPairs
    have hkk : ¬ f.cache.kind = Kind.none := hkn
    have hinvd : f.cache.invalidate = f.cache := by
      unfold Cache.invalidate; rw [hkind]; simp only [hthrot, if_true]
    have htop : f.cache.top = (f.cache.rankings, f.cache) := by
      unfold Cache.top; rw [hkind]
    have hoi : ({ n := n, minThr := thr } : TopOpt).ids.isEmpty = true := rfl
    simp only [hkk, if_false, hoi, if_true, hinvd, htop, hrank]
  intro res
  show _ ∧ _ ∧ _ ∧ _
  have := fresh_core f n thr full rows hkn hvalid hinv hcomplete hrowsnd hrows
  simp only at this
  rw [← hres] at this
  exact this

/-- The same for the LRU cache (`Top()` sorts all cached counts on every call; `full` is the order
it produced, `c'` the cache afterwards): nothing was evicted, every non-empty row is cached. -/
theorem C12_fresh_lru (f : Frag) (n thr : Nat) (full rows : List Nat) (c' : Cache)
    (hkind : f.cache.kind = .lru)
    (hvalid : validOrder f.cache.entries full = true)
    (htop : f.cache.top = (full.map (fun id => (id, eget f.cache.entries id)), c'))
    (hinv : CacheInv f.cache f.store.count)
    (hcomplete : ∀ r, f.store.count r > 0 → eget f.cache.entries r = f.store.count r)
    (hrowsnd : rows.Nodup)
    (hrows : ∀ r, r ∈ rows ↔ (f.store.count r ≥ 1 ∧ f.store.count r ≥ thr)) :
    let res := (f.top { n := n, minThr := thr }).1
    (∀ p ∈ res, p.2 = f.store.count p.1 ∧ p.1 ∈ rows) ∧
    res.Pairwise (fun a b => a.2 ≥ b.2) ∧
    res.length = (if n = 0 then rows.length else Nat.min n rows.length) ∧
    (∀ r ∈ rows, r ∉ res.map (·.1) → ∀ p ∈ res, p.2 ≥ f.store.count r) := by
  have hkn : f.cache.kind ≠ .none := by rw [hkind]; exact fun h => Kind.noConfusion h
  have hres : (f.top { n := n, minThr := thr }).1 =
      sortPairs (topLoop f.store { n := n, minThr := thr } n
        (full.map (fun id => (id, eget f.cache.entries id))) []) := by
    unfold Frag.top Frag.topBitmapPairs
    have hkk : ¬ f.cache.kind = Kind.none := hkn
    have hinvd : f.cache.invalidate = f.cache := by
      unfold Cache.invalidate; rw [hkind]
    have hoi : ({ n := n, minThr := thr } : TopOpt).ids.isEmpty = true := rfl
    simp only [hkk, if_false, hoi, if_true, hinvd, htop]
  intro res
  show _ ∧ _ ∧ _ ∧ _
  have := fresh_core f n thr full rows hkn hvalid hinv hcomplete hrowsnd hrows
  simp only at this
  rw [← hres] at this
  exact this

/-- The hypotheses of C12_fresh are met by a non-trivial state: two rows, cache of size 2, after an
import (which recalculates). -/
example :
    let f := (Frag.open .ranked 2).importBits [(1, 0), (1, 1), (2, 0)] false
    f.cache.kind = .ranked ∧ f.cache.throttled = true ∧ validOrder f.cache.entries [1, 2] = true ∧
    f.cache.rankings = [1, 2].map (fun id => (id, eget f.cache.entries id)) ∧
    f.store.count 1 = 2 ∧ f.store.count 2 = 1 ∧ (f.top { n := 1 }).1 = [(1, 2)] := by decide

/-- The hypotheses of C12_fresh_lru on a non-trivial state: LRU of size 3 holding three rows. -/
example :
    let f := (Frag.open .lru 3).importBits [(1, 0), (1, 1), (2, 0), (4, 0), (4, 1), (4, 2)] false
    f.cache.kind = .lru ∧ validOrder f.cache.entries [4, 1, 2] = true ∧
    f.cache.top.1 = [4, 1, 2].map (fun id => (id, eget f.cache.entries id)) ∧
    (f.top { n := 2 }).1 = [(4, 3), (1, 2)] := by decide

/-- C12_ids on a non-trivial state: LRU of size 1, row 2 evicted, then changed by a roaring import. -/
example :
    let f := ((((((Frag.open .lru 1).setBit 2 0).2.setBit 2 1).2.setBit 2 2).2.setBit 5 0).2).importRoaring [(2, 4)] false
    (f.top { ids := [2, 5] }).1 = [(2, 4), (5, 1)] := by decide

/-! ### witnesses: the two repaired behaviours, and the recorded finding -/

/-- importRoaring with `cache.Get(row)+delta` (before the fix): LRU of size 1, row 2 (3 bits) evicted
by row 5, one more bit imported into row 2: TopN(ids=[2]) reported 1, the true count is 4. -/
theorem C12_importRoaring_delta_witness :
    let f0 := (((((Frag.open .lru 1).setBit 2 0).2.setBit 2 1).2.setBit 2 2).2.setBit 5 0).2
    let f := Legacy.importRoaringSet f0 [(2, 4)]
    (f.top { ids := [2] }).1 = [(2, 1)] ∧ Spec.topIds f.store [2] none 0 = [(2, 4)] := by decide

/-- rankCache.Add ignoring a count below the threshold (before the fix): cache of size 1, rows 1
(5 bits) and 2 (4 bits) imported, two bits of row 1 cleared while invalidate is throttled:
TopN(ids=[1]) reported 4, the true count is 3. -/
theorem C12_rankAdd_stale_witness :
    let f0 := (Frag.open .ranked 1).importBits
      [(1, 0), (1, 1), (1, 2), (1, 3), (1, 4), (2, 0), (2, 1), (2, 2), (2, 3)] false
    let f := Legacy.clearBit (Legacy.clearBit f0 1 0) 1 1
    (f.top { ids := [1] }).1 = [(1, 4)] ∧ Spec.topIds f.store [1] none 0 = [(1, 3)] := by decide

/-- Known finding `topn-threshold-per-shard`: the executor applies TopN's threshold to each shard's
count before adding the shards up. Row 1 has one bit in each of two shards; TopN(ids=[1],
threshold=2) reports nothing although the row has 2 columns set. -/
theorem C12_threshold_per_shard_witness :
    let f0 := ((Frag.open .ranked 1).setBit 1 3).2
    let f1 := ((Frag.open .ranked 1).setBit 1 0).2
    (topN { ids := [1], minThr := 2 } [f0, f1] [none, none] none).1 = [] ∧
    f0.store.count 1 + f1.store.count 1 = 2 := by decide

/-- The hand-over with the archive entries swapped (cache before data): a fresh receiver recounts the
transferred ids against its empty storage, so TopN(n) finds nothing and TopN(ids) is only right
because it falls back to storage; a receiver holding an older copy reports the OLD count. The
modelled hand-over (data first) gives the true counts. -/
theorem C12_transfer_order_witness :
    let src := (Frag.open .ranked 2).importBits [(1, 0), (1, 1), (2, 0)] false
    let old := (Frag.open .ranked 2).importBits [(1, 5)] false
    ((Legacy.transferCacheFirst (Frag.open .ranked 2) src).top { n := 5 }).1 = [] ∧
    ((Legacy.transferCacheFirst old src).top { ids := [1] }).1 = [(1, 1)] ∧
    (((Frag.open .ranked 2).transfer src).top { n := 5 }).1 = [(1, 2), (2, 1)] ∧
    ((old.transfer src).top { ids := [1] }).1 = [(1, 2)] := by decide

end PV.C12
