/-
C12 helper lemmas, part 4: the canonical sort, and `topLoop` without a filter row (the heap path
of TopN(n)).  Core Lean only.
-/
import PV.C12.Lemmas3
namespace PV.C12
open List

/-! ### sortPairs is a sort -/

theorem mem_insertPair (x p : Nat × Nat) (l : List (Nat × Nat)) : p ∈ insertPair x l ↔ p = x ∨ p ∈ l := by
  induction l with
  | nil => simp [insertPair]
  | cons y ys ih =>
    unfold insertPair
    split
    · simp
    · simp only [List.mem_cons, ih]
      constructor
      · rintro (h | h | h)
        · right; left; exact h
        · left; exact h
        · right; right; exact h
      · rintro (h | h | h)
        · right; left; exact h
        · left; exact h
        · right; right; exact h

theorem mem_sortPairs (p : Nat × Nat) (l : List (Nat × Nat)) : p ∈ sortPairs l ↔ p ∈ l := by
  induction l with
  | nil => simp [sortPairs]
  | cons y ys ih =>
    have : sortPairs (y :: ys) = insertPair y (sortPairs ys) := rfl
    rw [this, mem_insertPair, ih]; simp

theorem length_insertPair (x : Nat × Nat) (l : List (Nat × Nat)) : (insertPair x l).length = l.length + 1 := by
  induction l with
  | nil => rfl
  | cons y ys ih =>
    unfold insertPair
    split
    · rfl
    · simp [ih]

theorem length_sortPairs (l : List (Nat × Nat)) : (sortPairs l).length = l.length := by
  induction l with
  | nil => rfl
  | cons y ys ih =>
    have : sortPairs (y :: ys) = insertPair y (sortPairs ys) := rfl
    rw [this, length_insertPair, ih]; rfl

/-- counts non-increasing along the list -/
def CntSorted (l : List (Nat × Nat)) : Prop := l.Pairwise (fun a b => a.2 ≥ b.2)

theorem cntSorted_insertPair (x : Nat × Nat) (l : List (Nat × Nat)) (h : CntSorted l) :
    CntSorted (insertPair x l) := by
  induction l with
  | nil => simp [insertPair, CntSorted]
  | cons y ys ih =>
    have hy : ∀ b ∈ ys, y.2 ≥ b.2 := (List.pairwise_cons.mp h).1
    have hys : CntSorted ys := (List.pairwise_cons.mp h).2
    unfold insertPair
    split
    · rename_i hb
      have hxy : x.2 ≥ y.2 := by
        simp only [pairBefore, Bool.or_eq_true, decide_eq_true_eq, Bool.and_eq_true, beq_iff_eq] at hb
        rcases hb with hb | hb
        · exact Nat.le_of_lt hb
        · exact Nat.le_of_eq hb.1.symm
      apply List.pairwise_cons.mpr
      refine ⟨?_, h⟩
      intro b hb'
      rcases List.mem_cons.mp hb' with e | hb''
      · rw [e]; exact hxy
      · exact Nat.le_trans (hy b hb'') hxy
    · rename_i hb
      have hyx : y.2 ≥ x.2 := by
        simp only [pairBefore, Bool.or_eq_true, decide_eq_true_eq, Bool.and_eq_true, beq_iff_eq] at hb
        exact Nat.le_of_not_lt (fun hlt => hb (Or.inl hlt))
      apply List.pairwise_cons.mpr
      refine ⟨?_, ih hys⟩
      intro b hb'
      rcases (mem_insertPair x b ys).mp hb' with e | hb''
      · rw [e]; exact hyx
      · exact hy b hb''

theorem cntSorted_sortPairs (l : List (Nat × Nat)) : CntSorted (sortPairs l) := by
  induction l with
  | nil => simp [sortPairs, CntSorted]
  | cons y ys ih => exact cntSorted_insertPair y _ ih

/-! ### TopN(n) without a filter row: the first n candidates that pass -/

theorem topLoop_nosrc (s : Store) (o : TopOpt) (n : Nat) (hs : o.src = none) (hn : n > 0)
    (pairs res : List (Nat × Nat)) (hlen : res.length < n) :
    topLoop s o n pairs res = (res ++ pairs.filterMap (keepPair s o)).take n := by
  induction pairs generalizing res with
  | nil =>
    simp only [topLoop, List.filterMap_nil, List.append_nil]
    exact (List.take_of_length_le (Nat.le_of_lt hlen)).symm
  | cons p rest ih =>
    obtain ⟨row, cnt⟩ := p
    unfold topLoop
    simp only [List.filterMap_cons, keepPair, hs]
    by_cases h0 : cnt = 0
    · simp only [h0, if_true]; exact ih res hlen
    · simp only [h0, if_false]
      by_cases h1 : cnt < o.minThr
      · simp only [h1, if_true]; exact ih res hlen
      · have hbr : n = 0 ∨ res.length < n := Or.inr hlen
        simp only [h1, if_false, hbr, if_true]
        by_cases hfull : (res ++ [(row, cnt)]).length = n
        · have hc : n > 0 ∧ (res ++ [(row, cnt)]).length = n ∧ (none : Option (List Nat)).isNone = true :=
            ⟨hn, hfull, rfl⟩
          simp only [hc, and_self, if_true]
          have e : res ++ (row, cnt) :: rest.filterMap (keepPair s o) =
              (res ++ [(row, cnt)]) ++ rest.filterMap (keepPair s o) := by simp
          have hk : (match (none : Option (List Nat)) with
              | none => cnt
              | some src => s.countIn row src) = cnt := rfl
          simp only [hs] at *
          rw [e, List.take_append_of_le_length (Nat.le_of_eq hfull.symm), List.take_of_length_le (Nat.le_of_eq hfull)]
        · have hc : ¬ (n > 0 ∧ (res ++ [(row, cnt)]).length = n ∧ (none : Option (List Nat)).isNone = true) :=
            fun h => hfull h.2.1
          simp only [hc, if_false]
          have hlen' : (res ++ [(row, cnt)]).length < n := by
            simp only [List.length_append, List.length_cons, List.length_nil] at hfull ⊢
            omega
          rw [ih _ hlen']
          simp

end PV.C12
