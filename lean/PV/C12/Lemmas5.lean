/-
C12 helper lemmas, part 5: a freshly recalculated rank cache that holds every non-empty row.
Core Lean only.
-/
import PV.C12.Lemmas4
namespace PV.C12
open List

theorem nodup_of_nodupB (l : List Nat) (h : nodupB l = true) : l.Nodup := by
  induction l with
  | nil => exact List.nodup_nil
  | cons x xs ih =>
    simp only [nodupB, Bool.and_eq_true, Bool.not_eq_true'] at h
    apply List.nodup_cons.mpr
    refine ⟨?_, ih h.2⟩
    intro hm
    have : xs.contains x = true := by simpa using hm
    rw [this] at h
    exact absurd h.1 (by simp)

theorem nonIncr_pairwise (m : Entries) (l : List Nat) (h : nonIncr m l = true) :
    l.Pairwise (fun a b => eget m a ≥ eget m b) := by
  induction l with
  | nil => exact List.Pairwise.nil
  | cons a rest ih =>
    cases rest with
    | nil => exact List.pairwise_singleton _ _
    | cons b rest' =>
      simp only [nonIncr, Bool.and_eq_true, decide_eq_true_eq] at h
      have hp := ih h.2
      apply List.pairwise_cons.mpr
      refine ⟨?_, hp⟩
      intro x hx
      rcases List.mem_cons.mp hx with e | hx'
      · rw [e]; exact h.1
      · exact Nat.le_trans ((List.pairwise_cons.mp hp).1 x hx') h.1

theorem ehas_of_eget_ne (m : Entries) (k : Nat) (h : eget m k ≠ 0) : ehas m k = true := by
  cases hh : ehas m k with
  | true => rfl
  | false => exact absurd (eget_of_not_ehas m k hh) h

theorem mem_keys_of_ehas (m : Entries) (k : Nat) (h : ehas m k = true) : ∃ p ∈ m, p.1 = k := by
  simp only [ehas, List.any_eq_true, beq_iff_eq] at h
  exact h

/-- Which cached ids pass `fragment.top`'s checks when no filter row is given. -/
def passes (m : Entries) (thr : Nat) (id : Nat) : Bool := eget m id != 0 && !decide (eget m id < thr)

theorem filterMap_keep_rankings (s : Store) (o : TopOpt) (hs : o.src = none) (m : Entries) (full : List Nat) :
    (full.map (fun id => (id, eget m id))).filterMap (keepPair s o) =
      (full.filter (passes m o.minThr)).map (fun id => (id, eget m id)) := by
  induction full with
  | nil => rfl
  | cons id rest ih =>
    simp only [List.map_cons, List.filterMap_cons, List.filter_cons, keepPair, passes, hs]
    by_cases h0 : eget m id = 0
    · simp [h0] at ih ⊢; exact ih
    · by_cases h1 : eget m id < o.minThr
      · simp [h0, h1] at ih ⊢; exact ih
      · simp [h0, h1] at ih ⊢; exact ih

end PV.C12
