/-
pm_c12: model driver for C12.  A case starts with
  open <ranked|lru|none> <size>          one stand-alone fragment (shard 0)
  srv  <ranked|lru|none> <size>          a field with shards 0 and 1 behind the executor
  pair <kindA> <sizeA> <kindB> <sizeB>   two stand-alone fragments 0 and 1 (addressed `sh <k> ...`) for hand-over:
       transfer <i> <j>                  fragment i WriteTo -> fragment j ReadFrom            -> ok
       row <k> <row>                     columns of the row on fragment k                    -> [cols]
Operation lines; every line may end in ` ~ <hints>` (written by the harness from what the real
code did, see Model.lean):  <shard>/r:<ids>  <shard>/t:<ids>  <shard>/a:<ids>  p:<ids>
  [sh <k>] set|clear t<0|1> <row> <col>             -> true|false (changed)
  [sh <k>] setrow t<b> <row> <cols>                 -> ok
  [sh <k>] clearrow t<b> <row>                      -> ok
  [sh <k>] import|importclear|roaring|roaringclear t<b> <row:col,...>   -> ok
  [sh <k>] recalc | reopen                          -> ok
  [sh <k>] cache                                    -> dump of the cache
  [sh <k>] top t<b> n=<n> thr=<k> ids=<csv|-> src=<csv|-|none>          -> pairs (fragment.top)
  gset <k> <col>                                    -> ok   (filter row g=0, srv only)
  topn t<b> n=<n> thr=<k> ids=<csv|-> src=<g|none>  -> pairs (PQL TopN through the executor)
`t<b>`: whether rankCache.invalidate is inside its 10 s throttle window when the operation starts.
Pairs are printed `id:count` in canonical order (count descending, id ascending), `-` when empty.
-/
import PV.Common.Proto
import PV.C12.Model
import PV.C12.Spec
open PV.Proto PV.C12

structure St where
  opened : Bool := false
  srv : Bool := false
  frags : List Frag := []
  filt : List (List Nat) := []

def showPairs (ps : List (Nat × Nat)) : String :=
  if ps.isEmpty then "-" else " ".intercalate (ps.map (fun p => s!"{p.1}:{p.2}"))

def parseKind : String → Option Kind
  | "ranked" => some .ranked
  | "lru" => some .lru
  | "none" => some .none
  | _ => none

def parseBits (s : String) : Option (List (Nat × Nat)) :=
  if s = "-" || s = "" then some [] else
  (s.splitOn ",").mapM (fun x => match x.splitOn ":" with
    | [r, c] => do pure (← r.toNat?, ← c.toNat?)
    | _ => none)

def parseIds (s : String) : Option (List Nat) :=
  if s = "-" || s = "" then some [] else (s.splitOn ",").mapM String.toNat?

/-- Split a line into operation words and hint words. -/
def splitHints (ws : List String) : List String × List String :=
  (ws.takeWhile (· ≠ "~"), (ws.dropWhile (· ≠ "~")).drop 1)

structure Hints where
  perShard : List (Nat × Hint) := []
  pick : Option (List Nat) := none
  ok : Bool := true

def parseHint (h : Hints) (w : String) : Hints :=
  match w.splitOn "/" with
  | [k, rest] =>
    match k.toNat?, rest.splitOn ":" with
    | some k, [tag, ids] =>
      match parseIds ids, tag with
      | some ids, "r" => { h with perShard := h.perShard ++ [(k, (.recalc, ids))] }
      | some ids, "t" => { h with perShard := h.perShard ++ [(k, (.top, ids))] }
      | some ids, "a" => { h with perShard := h.perShard ++ [(k, (.adds, ids))] }
      | _, _ => { h with ok := false }
    | _, _ => { h with ok := false }
  | [one] =>
    match one.splitOn ":" with
    | ["p", ids] => match parseIds ids with
      | some ids => { h with pick := some ids }
      | none => { h with ok := false }
    | _ => { h with ok := false }
  | _ => { h with ok := false }

def loadHints (fs : List Frag) (h : Hints) : List Frag :=
  (fs.zipIdx).map (fun (f, i) =>
    { f with cache := { f.cache with hints := (h.perShard.filter (·.1 = i)).map (·.2), bad := false } })

def setThrottle (b : Bool) (f : Frag) : Frag := { f with cache := { f.cache with throttled := b } }

/-- After an operation: all hints used, none rejected. -/
def hintsFine (fs : List Frag) : Bool := fs.all (fun f => f.cache.hints.isEmpty && !f.cache.bad)

def clearHints (fs : List Frag) : List Frag :=
  fs.map (fun f => { f with cache := { f.cache with hints := [], bad := false } })

def kv (w key : String) : Option String :=
  if w.startsWith (key ++ "=") then some (w.drop (key.length + 1)).toString else none

def parseTop (ws : List String) : Option (Bool × TopOpt × Bool) :=
  match ws with
  | [t, n, thr, ids, src] => do
    let tb ← (if t = "t1" then some true else if t = "t0" then some false else none)
    let n ← (← kv n "n").toNat?
    let thr ← (← kv thr "thr").toNat?
    let ids ← parseIds (← kv ids "ids")
    let srcS ← kv src "src"
    let src ← (if srcS = "none" then some none else if srcS = "g" then some (some []) else (parseIds srcS).map some)
    pure (tb, { n := n, src := src, ids := ids, minThr := thr }, srcS = "g")
  | _ => none

def dumpCache (c : Cache) : String :=
  let ent := (sortAsc (ekeys c.entries)).map (fun id => s!"{id}:{eget c.entries id}")
  match c.kind with
  | .ranked => s!"ranked \{{" ".intercalate ent}} rank=[{" ".intercalate (c.rankings.map (fun p => s!"{p.1}:{p.2}"))}] thr={c.thr}"
  | .lru => s!"lru \{{" ".intercalate ent}} len={c.entries.length}"
  | .none => "none"

/-- Does the cache hold the true count of every non-empty row, with nothing cut off? -/
def complete (f : Frag) : Bool :=
  (Spec.rows f.store).all (fun r => eget f.cache.entries r == f.store.count r) &&
  (f.cache.kind != .ranked || f.cache.rankings.length == f.cache.entries.length)

/-- One fragment-level operation. Returns the new fragment and the answer. -/
def fragOp (f : Frag) (ws : List String) : Option (Frag × Ans) :=
  let tflag (t : String) : Option Bool := if t = "t1" then some true else if t = "t0" then some false else none
  match ws with
  | ["set", t, r, c] => do
    let (ch, f') := (setThrottle (← tflag t) f).setBit (← r.toNat?) (← c.toNat?)
    pure (f', ans (showBool ch))
  | ["clear", t, r, c] => do
    let (ch, f') := (setThrottle (← tflag t) f).clearBit (← r.toNat?) (← c.toNat?)
    pure (f', ans (showBool ch))
  | ["setrow", t, r, cols] => do
    pure ((setThrottle (← tflag t) f).setRow (← r.toNat?) (← parseIds cols), ans "ok")
  | ["clearrow", t, r] => do
    pure ((setThrottle (← tflag t) f).clearRow (← r.toNat?), ans "ok")
  | ["import", t, bits] => do
    pure ((setThrottle (← tflag t) f).importBits (← parseBits bits) false, ans "ok")
  | ["importclear", t, bits] => do
    pure ((setThrottle (← tflag t) f).importBits (← parseBits bits) true, ans "ok")
  | ["roaring", t, bits] => do
    pure ((setThrottle (← tflag t) f).importRoaring (← parseBits bits) false, ans "ok")
  | ["roaringclear", t, bits] => do
    pure ((setThrottle (← tflag t) f).importRoaring (← parseBits bits) true, ans "ok")
  | ["recalc"] => some (f.recalculateCache, ans "ok")
  | ["reopen"] => some (f.reopen, ans "ok")
  | ["cache"] => some (f, ans (dumpCache f.cache))
  | "top" :: rest => do
    let (tb, o, _) ← parseTop rest
    let f0 := setThrottle tb f
    let (res, f') := f0.top o
    let m := showPairs res
    if f.cache.kind = .none then pure (f', ans m)
    else if !o.ids.isEmpty then
      pure (f', ans2 m (showPairs (Spec.topIds f.store o.ids o.src o.minThr)) "top-ids")
    else
      -- claim only on a cache that was just recalculated and holds every non-empty row
      let fresh := f.cache.kind = .lru || !tb
      if fresh && complete f' then
        let truth := Spec.allPairs f.store o.src o.minThr
        if Spec.validTop truth o.n o.src.isNone res then pure (f', ans m)
        else pure (f', ans2 m (showPairs (if o.n = 0 then truth else truth.take o.n)) "top-fresh")
      else pure (f', ans m)
  | _ => none

def replaceAt (l : List Frag) (i : Nat) (f : Frag) : List Frag :=
  (l.zipIdx).map (fun (x, j) => if j = i then f else x)

def step (st : St) (ws0 : List String) : St × Ans :=
  let bad := (st, ans "bad-op")
  let (ws, hw) := splitHints ws0
  let hints := hw.foldl parseHint {}
  if !hints.ok then (st, ans "bad-hint-syntax") else
  match ws with
  | ["open", k, sz] =>
    match parseKind k, sz.toNat? with
    | some k, some sz => ({ opened := true, srv := false, frags := [Frag.open k sz] }, ans "ok")
    | _, _ => bad
  | ["skip"] => (st, ans "skip")
  | ["pair", ka, sa, kb, sb] =>
    match parseKind ka, sa.toNat?, parseKind kb, sb.toNat? with
    | some ka, some sa, some kb, some sb =>
      ({ opened := true, srv := false, frags := [Frag.open ka sa, Frag.open kb sb], filt := [[], []] }, ans "ok")
    | _, _, _, _ => bad
  | ["srv", k, sz] =>
    match parseKind k, sz.toNat? with
    | some k, some sz =>
      ({ opened := true, srv := true, frags := [Frag.open k sz, Frag.open k sz], filt := [[], []] }, ans "ok")
    | _, _ => bad
  | _ =>
    if !st.opened then bad else
    let frags := loadHints st.frags hints
    match ws with
    | "sh" :: k :: rest =>
      match k.toNat? with
      | some k =>
        match frags[k]? with
        | some f =>
          match fragOp f rest with
          | some (f', a) =>
            let fs := replaceAt frags k f'
            if hintsFine fs then ({ st with frags := clearHints fs }, a)
            else ({ st with frags := clearHints fs }, ans "bad-hint")
          | none => bad
        | none => bad
      | none => bad
    | ["transfer", i, j] =>
      -- hand-over: fragment i's WriteTo, fragment j's ReadFrom
      match i.toNat?, j.toNat? with
      | some i, some j =>
        match frags[i]?, frags[j]? with
        | some src, some dst =>
          if i = j then bad else
          let fs := replaceAt frags j (dst.transfer src)
          if hintsFine fs then ({ st with frags := clearHints fs }, ans "ok")
          else ({ st with frags := clearHints fs }, ans "bad-hint")
        | _, _ => bad
      | _, _ => bad
    | ["row", k, r] =>
      match k.toNat?, r.toNat? with
      | some k, some r =>
        match frags[k]? with
        | some f => (st, ans (showNats (sortAsc ((f.store.filter (fun p => p.1 == r)).map (·.2)))))
        | none => bad
      | _, _ => bad
    | ["gset", k, c] =>
      match k.toNat?, c.toNat? with
      | some k, some c =>
        ({ st with filt := (st.filt.zipIdx).map (fun (l, j) => if j = k ∧ !l.contains c then c :: l else l) }, ans "ok")
      | _, _ => bad
    | "topn" :: rest =>
      match parseTop rest with
      | some (tb, o, useG) =>
        let fs0 := frags.map (setThrottle tb)
        let srcs : List (Option (List Nat)) := st.filt.map (fun l => if useG then some l else none)
        let (res, fs', pickOk) := topN o fs0 srcs hints.pick
        let st' := { st with frags := clearHints fs' }
        if !(hintsFine fs' && pickOk) then (st', ans "bad-hint") else
        let m := showPairs res
        if (frags.head?.map (·.cache.kind)) = some Kind.none then (st', ans m) else
        -- specification: every reported count is the number of columns set in that row over all
        -- shards (within the filter); with explicit ids every qualifying id is reported
        let srcOf (i : Nat) : Option (List Nat) := if useG then some (st.filt.getD i []) else none
        let total (r : Nat) : Nat :=
          ((st.frags.zipIdx).map (fun (f, i) => Spec.trueCount f.store r (srcOf i))).foldl (· + ·) 0
        let thr := if o.minThr = 0 then 1 else o.minThr
        if !o.ids.isEmpty then
          let want := sortPairs ((o.ids.map (fun r => (r, total r))).filter (fun p => Spec.qualifies thr p.2))
          (st', ans2 m (showPairs want) (if thr > 1 then "topn-threshold-per-shard" else "topn-ids"))
        else
          let want := res.map (fun p => (p.1, total p.1))
          (st', ans2 m (showPairs (sortPairs want)) (if thr > 1 then "topn-threshold-per-shard" else "topn-counts"))
      | none => bad
    | _ =>
      -- fragment-level line of an `open` case
      match frags with
      | [f] =>
        match fragOp f ws with
        | some (f', a) =>
          if hintsFine [f'] then ({ st with frags := clearHints [f'] }, a)
          else ({ st with frags := clearHints [f'] }, ans "bad-hint")
        | none => bad
      | _ => bad

def main : IO Unit := run ({} : St) step
