/-
pm_c06: model driver for C06.  Ops (one per line; `coll` = s|b selects the container collection on
the real side; container specs and hex as in PV/C04/Driver.lean):

  ub   <coll> <hex>                     Bitmap.UnmarshalBinary(hex), then the bitmap is used
  imp  <coll> <clear> <target-spec> <hex>   ImportRoaringBits(hex) into the bitmap target-spec describes
  iter <hex>                            newRoaringIterator + Next until the end
  iw   <clear> <target-spec> <hex>      API.ImportRoaring (the import worker) on an in-process server
  cm   <typ|-> <wire> <ie> <fe> <hex>   API.ClusterMessage(hex); the model works on the facts: first byte
                                        (`-` = empty body), protobuf decodes (1/0), index exists, field exists
  cmraw <hex> | pql <hex> | qr <hex>    arbitrary cluster message / PQL text / QueryResponse bytes:
                                        only "returns (value or error), no panic, no hang" is compared
Answers:
  ub:   `ok f=<flags> v=<ranges> ops=<ops>,<opN>` | `ok illformed` | `err:<class>`
        (`ok illformed`: the containers as loaded — before the op log is replayed — contradict their
        header; reported whatever the replay of the op log then does)
  imp:  `ok changed=<n> v=<ranges>` | `err:<class> v=<ranges of the unchanged target>`
  iter: `[key:type:n:len:fnv32a(values) ...] end=<eof|class>` | `err:<class>`
  iw:   `ok rows=[c0 c1 c2 c3] next=ok` | `err rows=[...] next=ok`
  cm:   `returns` | `err:<empty|unknown-type|decode|not-found>`
  cmraw/pql/qr: `nopanic`
`#spec`/`#tag`: `ub` on bytes whose containers contradict their header — the model (= the code)
accepts them, the specification wants them rejected: tag `illformed-container-accepted`.
-/
import PV.Common.Proto
import PV.C04.Driver
import PV.C06.Model
open PV.Proto PV.C04 PV.C04.Driver PV.C06

def contWords : Cont → List Nat
  | .array vs => vs
  | .bitmap bs => u16s bs
  | .run rs => rs.flatMap (fun r => [r.1, r.2])

def contLen : Cont → Nat
  | .array vs => vs.length
  | .bitmap _ => 1024
  | .run rs => rs.length

def showItem (it : Item) : String :=
  s!"{it.key}:{typLetter it.typ}:{it.n}:{contLen it.c}:{fnv32a ((contWords it.c).flatMap (leBytes 2))}"

def step (_u : Unit) (ws : List String) : Unit × Ans :=
  let bad := ((), ans "bad-op")
  match ws with
  | ["ub", _, hx] =>
    match parseHex? hx with
    | none => bad
    | some d =>
      -- Pilosa format: the containers are loaded before the op log is replayed; inconsistent
      -- ones are reported whatever the replay then does (error, or a kernel panic on the real side)
      let loadedBad := match loadPilosa d with
        | .ok (_, cs, _) => !entriesWf cs
        | _ => false
      if loadedBad then ((), ans2 "ok illformed" "err:ill-formed" "illformed-container-accepted")
      else
      match unmarshal d with
      | .err e => ((), ans ("err:" ++ e.name))
      | .panic s => ((), ans ("panic:" ++ s))
      | .ok (r, _) =>
        if entriesWf r.cs then ((), ans ("ok " ++ showDecodedCore false r))
        else ((), ans2 "ok illformed" "err:ill-formed" "illformed-container-accepted")
  | ["imp", _, cl, tsp, hx] =>
    match parseSpec? tsp, parseHex? hx with
    | some tes, some d =>
      let m := vmapOfEntries tes
      let (m', r) := importBitsSt m d (cl = "1")
      match r with
      | .ok ch => ((), ans (s!"ok changed={ch} v=" ++ showValues m'.values))
      | .err e => ((), ans2 ("err:" ++ e.name ++ " v=" ++ showValues m'.values)
                            ("err:" ++ e.name ++ " v=" ++ showValues m.values) "import-reject-unchanged")
      | .panic s => ((), ans ("panic:" ++ s))
    | _, _ => bad
  | ["iter", hx] =>
    match parseHex? hx with
    | none => bad
    | some d =>
      match iterate d with
      | .err e => ((), ans ("err:" ++ e.name))
      | .panic s => ((), ans ("panic:" ++ s))
      | .ok w =>
        let e := match w.err with
          | none => "eof"
          | some e => e.name
        ((), ans ("[" ++ " ".intercalate (w.items.map showItem) ++ "] end=" ++ e))
  | ["iw", cl, tsp, hx] =>
    match parseSpec? tsp, parseHex? hx with
    | some tes, some d =>
      let m := vmapOfEntries tes
      match importWorkerGuard d.length with
      | .panic s => ((), ans ("panic:" ++ s))
      | .err _ => ((), ans (s!"err rows={showNats (rowCounts m 4)} next=ok"))
      | .returns =>
        let (m', r) := importBitsSt m d (cl = "1")
        match r with
        | .ok _ => ((), ans (s!"ok rows={showNats (rowCounts m' 4)} next=ok"))
        | .err _ => ((), ans2 (s!"err rows={showNats (rowCounts m' 4)} next=ok")
                              (s!"err rows={showNats (rowCounts m 4)} next=ok") "import-reject-unchanged")
        | .panic s => ((), ans ("panic:" ++ s))
    | _, _ => bad
  | ["cm", t, wire, ie, fe, _] =>
    let typ := if t = "-" then some none else t.toNat?.map some
    match typ with
    | none => bad
    | some typ => ((), ans (clusterMessage typ (wire = "1") (ie = "1") (fe = "1")).show)
  | ["cmraw", _] => ((), ans "nopanic")
  | ["pql", _] => ((), ans "nopanic")
  | ["qr", _] => ((), ans "nopanic")
  | _ => bad

def main : IO Unit := run () step
