/-
C06 property theorems.  Core Lean only.

Property: any byte string supplied as an import payload (Pilosa or official roaring), as stored
bitmap data, as PQL text or as an internal cluster message is accepted or rejected with an
error; the process never panics outside a recovered request and never hangs; a rejected request
leaves stored data unchanged.

What is PROVED here, for ALL inputs: the roaring decoders (import iterators, ImportRoaringBits,
UnmarshalBinary incl. the op-log loop, both formats) never perform an out-of-bounds access —
`Res.panic` is the outcome of every slice/index/unchecked-view expression that leaves the buffer —
and they terminate (structural recursion; the op-log loop carries fuel = remaining bytes and
reaching fuel 0 with bytes left would be the outcome `panic "ops.fuel"`, which the theorem
excludes); a rejected import leaves the bitmap unchanged; the cluster-message guards extracted
from the source never dereference nil / index an empty body.
What is NOT proved (observed by the child-process harness only): memory exhaustion, the protobuf
codec, the handler bodies behind the guards, the PQL parser, and the behaviour of the container
kernels on a stored bitmap whose containers contradict their headers (see the finding below).
-/
import PV.C06.Total
import PV.C06.Model
import PV.C04.LemmasImport
namespace PV.C06
open PV.C04 PV.C06.Gen

/-! ### roaring decoders: no out-of-bounds access, for every input -/

/-- newRoaringIterator + Next until the end: no panic, whatever the bytes. -/
theorem C06_iterate_total (d : Bytes) (s : String) : iterate d ≠ .panic s :=
  iterate_NP d s

/-- ImportRoaringBits (either format, set or clear, any target): no panic. -/
theorem C06_import_total (m : VMap) (d : Bytes) (clear : Bool) (s : String) :
    importBits m d clear ≠ .panic s :=
  importBits_NP m d clear s

/-- UnmarshalBinary — Pilosa format incl. the op-log loop (replayed roaring ops included) and
the official format with and without runs: no panic and no `ops.fuel`, whatever the bytes. -/
theorem C06_unmarshal_total (d : Bytes) (s : String) : unmarshal d ≠ .panic s :=
  unmarshal_NP d s

/-- The op decoder alone, with the size bound that makes the op-log loop terminate. -/
theorem C06_op_total (buf : Bytes) :
    (∀ s, parseOp buf ≠ .panic s) ∧ ∀ op size, parseOp buf = .ok (op, size) → 13 ≤ size ∧ size ≤ buf.length :=
  parseOp_spec buf

/-! ### a rejected import leaves the bitmap unchanged -/

/-- `importBitsSt` returns the bitmap after the call together with the call's result. -/
theorem C06_reject_unchanged (m : VMap) (d : Bytes) (clear : Bool) (e : Err)
    (h : (importBitsSt m d clear).2 = .err e) : (importBitsSt m d clear).1 = m := by
  unfold importBitsSt at h ⊢
  cases hi : iterate d with
  | panic s => rfl
  | err e' => rfl
  | ok w =>
    rw [hi] at h
    simp only [] at h ⊢
    cases hv : walkVerdict w with
    | some e' => rfl
    | none => rw [hv] at h; simp at h

/-- An accepted import only ever hands consistent containers to the union / difference kernels. -/
theorem C06_import_accepts_only_consistent (m : VMap) (d : Bytes) (clear : Bool) (r : VMap × Nat)
    (h : importBits m d clear = .ok r) :
    ∃ w, iterate d = .ok w ∧ w.err = none ∧ ∀ it ∈ w.items, ItemOk it := by
  unfold importBits importBitsSt at h
  cases hi : iterate d with
  | panic s => rw [hi] at h; simp at h
  | err e => rw [hi] at h; simp at h
  | ok w =>
    rw [hi] at h
    simp only [] at h
    cases hv : walkVerdict w with
    | some e => rw [hv] at h; simp at h
    | none =>
      obtain ⟨h1, h2⟩ := walkVerdict_none w hv
      exact ⟨w, rfl, h1, h2⟩

/-- Regression witness for `fix: ImportRoaringBits validates the whole payload before changing
the bitmap`: the pre-fix loop (`importBitsStOld`) applied the containers in front of a malformed
one.  Payload: Pilosa format, two array containers, the second with an offset past the end. -/
theorem C06_old_import_partial_witness :
    let d : Bytes := [60, 48, 0, 0, 2, 0, 0, 0,
                      0, 0, 0, 0, 0, 0, 0, 0, 1, 0, 0, 0,   1, 0, 0, 0, 0, 0, 0, 0, 1, 0, 0, 0,
                      40, 0, 0, 0,   200, 0, 0, 0,   7, 0]
    (importBitsStOld [] d false).2 = .err .iterOffset ∧ (importBitsStOld [] d false).1 = [(0, [7])]
    ∧ (importBitsSt [] d false).2 = .err .iterOffset ∧ (importBitsSt [] d false).1 = [] := by
  decide

/-! ### stored data: containers that contradict their header (recorded finding)

Full-strength statement (NOT provable for the current code):
  theorem C06_unmarshal_rejects_inconsistent (d) (r) (d') :
      unmarshal d = .ok (r, d') → entriesWf r.cs = true
UnmarshalBinary checks that every container lies inside the buffer, not that its contents match
the header (cardinality, order): that would mean reading the whole memory-mapped file when a
fragment is opened.  The kernels trust the header, so a later operation on such a bitmap can
panic (Optimize / snapshot: index out of range in runToArray).  The import path does validate
(`C06_import_accepts_only_consistent`). -/

theorem C06_unmarshal_consistent_partial (d d' : Bytes) (r : Decoded)
    (h : unmarshal d = .ok (r, d')) (hw : entriesWf r.cs = true) :
    ∀ e ∈ r.cs, e.c.wf e.n = true :=
  fun e he => List.all_eq_true.mp hw e he

/-- Witness: a Pilosa-format file whose only container announces 3 array values and holds
`5, 1, 9` (not ascending) is accepted. -/
theorem C06_illformed_accepted_witness :
    let d : Bytes := [60, 48, 0, 0, 1, 0, 0, 0,  0, 0, 0, 0, 0, 0, 0, 0, 1, 0, 2, 0,  24, 0, 0, 0,  5, 0, 1, 0, 9, 0]
    (match unmarshal d with
     | .ok (r, _) => !entriesWf r.cs
     | _ => false) = true := by
  decide

/-! ### cluster messages and the import worker: guards extracted from the source -/

theorem runLookups_no_panic (ls : List Lookup) (h : ∀ l ∈ ls, l.nilChecked = true) (ie fe : Bool) (s : String) :
    runLookups ls ie fe ≠ .panic s := by
  induction ls with
  | nil => simp [runLookups]
  | cons l r ih =>
    simp only [runLookups]
    split
    · exact ih (fun x hx => h x (by simp [hx]))
    · rw [if_pos (h l (by simp))]; simp

/-- For every first byte (or none), every decode outcome and every holder state, the
cluster-message entry point returns; it does not index an empty body, panic on an unknown type
or dereference a missing index / field.  (The table is regenerated from the source on every
run; the three facts it must contain are decided here.) -/
theorem C06_dispatch (typ : Option Nat) (wireOk ie fe : Bool) (s : String) :
    clusterMessage typ wireOk ie fe ≠ .panic s := by
  have h1 : bodyLenChecked = true := by decide
  have h2 : unknownTypeChecked = true := by decide
  have h3 : ∀ p ∈ handlers, ∀ l ∈ p.2, l.nilChecked = true := by decide
  unfold clusterMessage
  cases typ with
  | none => simp [h1]
  | some t =>
    simp only []
    cases msgTypes.lookup t with
    | none => simp [h2]
    | some name =>
      simp only []
      split
      · simp
      · cases hl : handlers.lookup name with
        | none => simp
        | some ls =>
          simp only []
          apply runLookups_no_panic
          intro l hl'
          have hm : (name, ls) ∈ handlers := by
            have := List.lookup_eq_some_iff.mp hl
            obtain ⟨l1, l2, h, _⟩ := this
            rw [h]; simp
          exact h3 (name, ls) hm l hl'

/-- importWorker never slices a payload shorter than two bytes. -/
theorem C06_importWorker_guard (len : Nat) (s : String) : importWorkerGuard len ≠ .panic s := by
  have h : viewDataChecked = true := by decide
  unfold importWorkerGuard
  split
  · simp
  · split
    · simp [h]
    · simp

/-! ### PQL text: the recover filter of parser.Parse over the panic sites of the action machine

The PEG grammar and the action machine are modelled by C26 (lean/PV/C26); here the table of
panic sites of pql/ast.go and the filter of pql/parser.go are regenerated from the source. -/

/-- A message that starts with a filtered prefix is returned as an error. -/
theorem parseFilter_prefix (p : String) (hp : p ∈ pqlFilterPrefixes) (tail : List Char) (s : String) :
    parseFilter (.str (p.toList ++ tail)) ≠ .panic s := by
  have : (pqlFilterPrefixes.any fun q => q.toList.isPrefixOf (p.toList ++ tail)) = true := by
    apply List.any_eq_true.mpr
    exact ⟨p, hp, List.isPrefixOf_iff_prefix.mpr (List.prefix_append _ _)⟩
  simp only [parseFilter]
  rw [if_pos this]
  simp

/-- Every panic site of the action machine whose message starts with a named string constant
(duplicate argument, integer out of range, invalid string literal — whatever the current source
has) is one the filter converts into an error, whatever follows the constant in the message; and
a runtime error inside Execute is returned as an error too. -/
theorem C06_pql_named_panics_converted :
    (∀ site ∈ pqlPanicSites, site.2.1 = "const" →
      ∀ (tail : List Char) (s : String), parseFilter (.str (site.2.2.toList ++ tail)) ≠ .panic s)
    ∧ (∀ s, parseFilter .nonString ≠ .panic s) ∧ (∀ s, parseFilter .none ≠ .panic s) := by
  have hall : ∀ site ∈ pqlPanicSites, site.2.1 = "const" → site.2.2 ∈ pqlFilterPrefixes := by decide
  refine ⟨fun site hs hk tail s => parseFilter_prefix _ (hall site hs hk) tail s, ?_, ?_⟩
  · intro s
    have : pqlNonStringIsError = true := by decide
    simp [parseFilter, this]
  · intro s; simp [parseFilter]

/-- Full-strength statement (NOT proved here): `Parse` never re-panics, i.e. the remaining panic
sites of the action machine (kind `invariant`: "conditional of wrong length", "addField called
… while element is nil / field is not empty", "addVal / addIntVal called … when lastField is
empty") are unreachable for every action trace the grammar can emit.  That is a property of the
grammar together with the action machine (C26 models both; its `repanic` outcome is exactly
these sites) and is observed, not proved: no `pql` line of the malformed-text stream has ever
produced a panic.  Where PQL text reaches the server (the HTTP query endpoints) a re-panic would be
inside the handler's recovered request.  Proved: the filter does re-panic exactly those sites —
the excluded region is this finite list. -/
theorem C06_pql_filter_partial :
    ∀ site ∈ pqlPanicSites, site.2.1 = "invariant" →
      parseFilter (.str site.2.2.toList) = .panic "repanic" := by
  decide

/-! ### non-vacuity -/

/-- A payload that is rejected after its first container was walked (hypothesis of
`C06_reject_unchanged`). -/
example : (importBitsSt [(3, [1])] [60, 48, 0, 0, 2, 0, 0, 0,
      0, 0, 0, 0, 0, 0, 0, 0, 1, 0, 0, 0,   1, 0, 0, 0, 0, 0, 0, 0, 1, 0, 0, 0,
      40, 0, 0, 0,   200, 0, 0, 0,   7, 0] false).2 = .err .iterOffset := by decide

/-- An accepted payload (hypothesis of `C06_import_accepts_only_consistent`). -/
example : importBits [] [60, 48, 0, 0, 1, 0, 0, 0,  0, 0, 0, 0, 0, 0, 0, 0, 1, 0, 1, 0,  24, 0, 0, 0,  5, 0, 9, 0] false
    = .ok ([(0, [5, 9])], 2) := by decide

end PV.C06
