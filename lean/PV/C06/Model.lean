/-
C06 model beyond the roaring decoders (those are PV.C04.Model with checked indexing):

  * the cluster-message entry point (API.ClusterMessage → getMessage → serializer.Unmarshal →
    Server.receiveMessage) at the level of its guards, over the facts the translator
    harness/extract/c06dispatch regenerates from the source into PV.C06.Gen;
  * the payload prefix check of importWorker;
  * helpers for the drivers (well-formedness of decoded containers).

The protobuf wire codec (gogo/protobuf), the bodies of the message handlers behind the guards,
the PQL parser and the query-result decoder are NOT modelled here (C26/C27 model the latter two);
they are driven differentially in child processes by harness/cmd/c06.  Core Lean only.
-/
import PV.C04.Model
import PV.C06.Gen
namespace PV.C06
open PV.C04 PV.C06.Gen

inductive Out
  | returns                 -- the handler ran (its own result, nil or an error, is not modelled)
  | err (cls : String)
  | panic (site : String)
  deriving Repr, DecidableEq

def Out.show : Out → String
  | .returns => "returns"
  | .err c => "err:" ++ c
  | .panic s => "panic:" ++ s

/-- Does the object a lookup asks the holder for exist? (`ie`: the index, `fe`: the field in it.) -/
def lookupExists (kind : String) (ie fe : Bool) : Bool :=
  if kind = "index" then ie else ie && fe

/-- The holder lookups of one `receiveMessage` case, in order: a missing object is an error when
its result is nil-checked and a nil dereference otherwise. -/
def runLookups : List Lookup → Bool → Bool → Out
  | [], _, _ => .returns
  | l :: r, ie, fe =>
    if lookupExists l.kind ie fe then runLookups r ie fe
    else if l.nilChecked then .err "not-found"
    else .panic ("nil-" ++ l.var)

/-- API.ClusterMessage.  `typ`: the first body byte (`none`: empty body); `wireOk`: whether the
protobuf decoder accepts the rest. -/
def clusterMessage (typ : Option Nat) (wireOk ie fe : Bool) : Out :=
  match typ with
  | none => if bodyLenChecked then .err "empty" else .panic "body[0]"
  | some t =>
    match msgTypes.lookup t with
    | none => if unknownTypeChecked then .err "unknown-type" else .panic "getMessage"
    | some name =>
      if !wireOk then .err "decode"
      else
        match handlers.lookup name with
        | none => .returns
        | some ls => runLookups ls ie fe

/-- importWorker's checks in front of `viewData[0:2]`. -/
def importWorkerGuard (len : Nat) : Out :=
  if len = 0 then .err "no-data"
  else if len < 2 then (if viewDataChecked then .err "too-short" else .panic "viewData[0:2]")
  else .returns

/-- What `Execute` (the action machine of pql/ast.go run over the parse) ended with. -/
inductive PanicValue
  | none                      -- no panic
  | nonString                 -- a runtime error (nil map, failed type assertion, index)
  | str (msg : List Char)     -- panic(fmt.Sprintf(...))
  deriving Repr, DecidableEq

/-- The recover filter of `parser.Parse`: a non-string value and a string that starts with one of
the listed prefixes are returned as errors, any other string is re-panicked (inside the HTTP
handler's recovered request when the text came over the query endpoint). -/
def parseFilter : PanicValue → Out
  | .none => .returns
  | .nonString => if pqlNonStringIsError then .err "unexpected-parser-error" else .panic "repanic"
  | .str msg =>
    if pqlFilterPrefixes.any (fun p => p.toList.isPrefixOf msg) then .err "parse" else .panic "repanic"

/-- Every decoded container is consistent with its header. -/
def entriesWf (es : List Entry) : Bool := es.all (fun e => e.c.wf e.n)

/-- Row counts (16 containers per row) of a value-level fragment bitmap for rows `0..rows-1`. -/
def rowCounts (m : VMap) (rows : Nat) : List Nat :=
  (List.range rows).map (fun r => ((m.filter (fun kv => kv.1 / 16 = r)).map (·.2.length)).sum)

end PV.C06
