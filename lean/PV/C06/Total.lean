/-
Totality lemmas for C06: none of the roaring decoders of PV.C04.Model can reach `Res.panic`
(an out-of-bounds slice, index or unchecked view), for ANY input bytes.  Core Lean only.
-/
import PV.C04.Lemmas
namespace PV.C04

/-- No panic (no out-of-bounds access). -/
def NP {α : Type} (r : Res α) : Prop := ∀ s, r ≠ .panic s

theorem NP_ok {α : Type} (a : α) : NP (Res.ok a) := fun _ h => by cases h
theorem NP_pure {α : Type} (a : α) : NP (pure a : Res α) := fun _ h => by cases h
theorem NP_err {α : Type} (e : Err) : NP (Res.err e : Res α) := fun _ h => by cases h

theorem NP_bind {α β : Type} (r : Res α) (f : α → Res β) (h1 : NP r) (h2 : ∀ a, r = .ok a → NP (f a)) :
    NP (r >>= f) := by
  cases r with
  | ok a => exact h2 a rfl
  | err e => exact NP_err e
  | panic s => exact absurd rfl (h1 s)

theorem sub_ok (site : String) (d : Bytes) (lo hi : Nat) (h1 : lo ≤ hi) (h2 : hi ≤ d.length) :
    ∃ s, sub site d lo hi = .ok s ∧ s.length = hi - lo := by
  unfold sub
  rw [if_pos ⟨h1, h2⟩]
  exact ⟨_, rfl, by simp; omega⟩

theorem rd_ok (site : String) (d : Bytes) (off k : Nat) (h : off + k ≤ d.length) :
    ∃ v, rd site d off k = .ok v := by
  unfold rd
  obtain ⟨s, hs, _⟩ := sub_ok site d off (off + k) (by omega) h
  rw [hs]; exact ⟨_, rfl⟩

theorem view_ok (site : String) (d : Bytes) (off n : Nat) (h1 : off < d.length) (h2 : off + n ≤ d.length) :
    ∃ s, view site d off n = .ok s := by
  unfold view
  rw [if_pos ⟨h1, h2⟩]; exact ⟨_, rfl⟩

theorem at1_ok (site : String) (d : Bytes) (i : Nat) (h : i < d.length) : ∃ b, at1 site d i = .ok b :=
  at1_lt site d i h

theorem nextBody_NP (official : Bool) (d : Bytes) (key typ n off : Nat) :
    NP (nextBody official d key typ n off) := by
  unfold nextBody
  by_cases ht : typ = cRun
  · simp only [ht, ↓reduceIte]
    by_cases h1 : off + 2 > d.length
    · simp only [h1, ↓reduceIte]; exact NP_err _
    · simp only [h1, ↓reduceIte]
      obtain ⟨rc, hrc⟩ := rd_ok "iter.runCount" d off 2 (by omega)
      rw [hrc]
      simp only [Res.ok_bind, Res.pure_eq]
      by_cases h2 : off + 2 ≥ d.length ∨ off + 2 < 8
      · rw [if_pos h2]; exact NP_err _
      · rw [if_neg h2]
        obtain ⟨b, hb⟩ := at1_ok "iter.pointer" d (off + 2) (by omega)
        rw [hb]
        simp only [Res.ok_bind, cRun, cArray, cBitmap, Nat.reduceEqDiff, ↓reduceIte]
        by_cases h3 : off + 2 + rc * 4 > d.length
        · rw [if_pos h3]; exact NP_err _
        · rw [if_neg h3]
          obtain ⟨pl, hpl⟩ := view_ok "iter.runs" d (off + 2) (rc * 4) (by omega) (by omega)
          rw [hpl]; exact NP_ok _
  · simp only [ht, ↓reduceIte, Res.pure_eq, Res.ok_bind]
    by_cases h2 : off ≥ d.length ∨ off < 8
    · rw [if_pos h2]; exact NP_err _
    · rw [if_neg h2]
      obtain ⟨b, hb⟩ := at1_ok "iter.pointer" d off (by omega)
      rw [hb]
      simp only [Res.ok_bind]
      by_cases ha : typ = cArray
      · simp only [ha, ↓reduceIte]
        by_cases h3 : off + n * 2 > d.length
        · rw [if_pos h3]; exact NP_err _
        · rw [if_neg h3]
          obtain ⟨pl, hpl⟩ := view_ok "iter.array" d off (n * 2) (by omega) (by omega)
          rw [hpl]; exact NP_ok _
      · simp only [ha, ↓reduceIte]
        by_cases hb' : typ = cBitmap
        · simp only [hb', ↓reduceIte]
          by_cases h3 : off + bitmapBytes > d.length
          · rw [if_pos h3]; exact NP_err _
          · rw [if_neg h3]
            obtain ⟨pl, hpl⟩ := view_ok "iter.bitmap" d off bitmapBytes (by omega) (by omega)
            rw [hpl]; exact NP_ok _
        · simp only [hb', ↓reduceIte]; exact NP_err _

theorem pilosaWalk_NP (d : Bytes) (k : Nat) : ∀ (hdr offs : Bytes), 12 * k ≤ hdr.length → 4 * k ≤ offs.length →
    NP (pilosaWalk d k hdr offs) := by
  induction k with
  | zero => intro hdr offs _ _; exact NP_ok _
  | succ k ih =>
    intro hdr offs h1 h2
    unfold pilosaWalk
    obtain ⟨key, hkey⟩ := rd_ok "piter.key" hdr 0 8 (by omega)
    obtain ⟨t, ht⟩ := rd_ok "piter.typ" hdr 8 2 (by omega)
    obtain ⟨n1, hn1⟩ := rd_ok "piter.n" hdr 10 2 (by omega)
    obtain ⟨off, hoff⟩ := rd_ok "piter.off" offs 0 4 (by omega)
    rw [hkey, ht, hn1, hoff]
    simp only [Res.ok_bind]
    have hnb := nextBody_NP false d key (t % 256) (n1 + 1) off
    cases hb : nextBody false d key (t % 256) (n1 + 1) off with
    | panic s => exact absurd hb (hnb s)
    | err e => exact NP_ok _
    | ok r =>
      obtain ⟨it, nx⟩ := r
      simp only []
      obtain ⟨hdr', hh, hhl⟩ := sub_ok "piter.hdr.next" hdr 12 hdr.length (by omega) (Nat.le_refl _)
      obtain ⟨offs', ho, hol⟩ := sub_ok "piter.off.next" offs 4 offs.length (by omega) (Nat.le_refl _)
      rw [hh, ho]
      simp only [Res.ok_bind]
      apply NP_bind _ _ (ih hdr' offs' (by omega) (by omega))
      intro w _
      exact NP_ok _

/-- What `readOfficialHeader` guarantees about an accepted header. -/
structure OffHeaderOk (d : Bytes) (h : OffHeader) : Prop where
  pos : h.pos = h.header + 4 * h.size
  le : h.pos ≤ d.length
  lt : 0 < h.size → h.pos < d.length
  isRun : h.haveRuns = true → h.isRun.length = (h.size + 7) / 8
  size : h.size ≤ 65536

theorem readOfficialHeader_spec (d : Bytes) :
    NP (readOfficialHeader d) ∧ ∀ h, readOfficialHeader d = .ok h → OffHeaderOk d h := by
  unfold readOfficialHeader
  by_cases h8 : d.length < 8
  · simp only [h8, ↓reduceIte]
    exact ⟨NP_err _, fun h hh => by cases hh⟩
  · simp only [h8, ↓reduceIte]
    obtain ⟨cookie, hc⟩ := rd_ok "ohdr.cookie" d 0 4 (by omega)
    rw [hc]
    simp only [Res.ok_bind]
    by_cases c1 : cookie = cookieNoRun
    · simp only [c1, ↓reduceIte]
      obtain ⟨sz, hsz⟩ := rd_ok "ohdr.size" d 4 4 (by omega)
      rw [hsz]
      simp only [Res.ok_bind, Res.pure_eq]
      by_cases c3 : sz > 65536
      · rw [if_pos c3]; exact ⟨NP_err _, fun h hh => by cases hh⟩
      · rw [if_neg c3]
        by_cases c4 : 8 + 4 * sz > d.length ∨ (sz > 0 ∧ 8 + 4 * sz = d.length)
        · rw [if_pos c4]; exact ⟨NP_err _, fun h hh => by cases hh⟩
        · rw [if_neg c4]
          refine ⟨NP_ok _, fun h hh => ?_⟩
          simp only [Res.ok.injEq] at hh
          subst hh
          exact ⟨rfl, by simp only []; omega, fun hp => by simp only [] at *; omega, fun hf => by simp at hf,
            by simp only []; omega⟩
    · simp only [c1, ↓reduceIte]
      by_cases c2 : cookie % 65536 = cookieRun
      · simp only [c2, ↓reduceIte]
        by_cases c5 : 4 + (cookie / 65536 % 65536 + 1 + 7) / 8 > d.length
        · rw [if_pos c5]; exact ⟨NP_err _, fun h hh => by cases hh⟩
        · rw [if_neg c5]
          obtain ⟨bm, hbm, hbml⟩ := sub_ok "ohdr.isRun" d 4 (4 + (cookie / 65536 % 65536 + 1 + 7) / 8) (by omega) (by omega)
          rw [hbm]
          simp only [Res.ok_bind, Res.pure_eq]
          have hsz : cookie / 65536 % 65536 + 1 ≤ 65536 := by omega
          rw [if_neg (by omega)]
          by_cases c4 : 4 + (cookie / 65536 % 65536 + 1 + 7) / 8 + 4 * (cookie / 65536 % 65536 + 1) > d.length ∨
              (cookie / 65536 % 65536 + 1 > 0 ∧ 4 + (cookie / 65536 % 65536 + 1 + 7) / 8 + 4 * (cookie / 65536 % 65536 + 1) = d.length)
          · rw [if_pos c4]; exact ⟨NP_err _, fun h hh => by cases hh⟩
          · rw [if_neg c4]
            refine ⟨NP_ok _, fun h hh => ?_⟩
            simp only [Res.ok.injEq] at hh
            subst hh
            exact ⟨rfl, by simp only []; omega, fun _ => by simp only [] at *; omega,
              fun _ => by simp only []; omega, by simp only []; omega⟩
      · simp only [c2, ↓reduceIte]
        exact ⟨NP_err _, fun h hh => by cases hh⟩

theorem officialType_ok (d : Bytes) (h : OffHeader) (hh : OffHeaderOk d h) (i card : Nat) (hi : i < h.size) :
    ∃ t, officialType h i card = .ok t ∧ (t = cArray ∨ t = cBitmap ∨ t = cRun) := by
  unfold officialType
  by_cases hr : h.haveRuns = true
  · simp only [hr, ↓reduceIte]
    obtain ⟨b, hb⟩ := at1_ok "otyper.isRun" h.isRun (i / 8) (by rw [hh.isRun hr]; omega)
    rw [hb]
    simp only [Res.ok_bind, Res.pure_eq]
    split
    · exact ⟨_, rfl, Or.inr (Or.inr rfl)⟩
    · split
      · exact ⟨_, rfl, Or.inl rfl⟩
      · exact ⟨_, rfl, Or.inr (Or.inl rfl)⟩
  · simp only [hr, Bool.false_eq_true, ↓reduceIte, Res.pure_eq]
    split
    · exact ⟨_, rfl, Or.inl rfl⟩
    · exact ⟨_, rfl, Or.inr (Or.inl rfl)⟩

theorem officialWalk_NP (d : Bytes) (h : OffHeader) (hh : OffHeaderOk d h) (k : Nat) :
    ∀ (i : Nat) (hdr offs : Bytes) (cur : Nat), i + k = h.size → 4 * k ≤ hdr.length →
      (h.haveRuns = false → 4 * k ≤ offs.length) →
      NP (officialWalk d h k i hdr offs cur) := by
  induction k with
  | zero => intro i hdr offs cur _ _ _; exact NP_ok _
  | succ k ih =>
    intro i hdr offs cur hik h1 h2
    unfold officialWalk
    obtain ⟨key, hkey⟩ := rd_ok "oiter.key" hdr 0 2 (by omega)
    obtain ⟨n1, hn1⟩ := rd_ok "oiter.n" hdr 2 2 (by omega)
    obtain ⟨typ, htyp, _⟩ := officialType_ok d h hh i (n1 + 1) (by omega)
    rw [hkey, hn1]
    simp only [Res.ok_bind]
    rw [htyp]
    simp only [Res.ok_bind]
    obtain ⟨hdr', hhd, hhl⟩ := sub_ok "oiter.hdr.next" hdr 4 hdr.length (by omega) (Nat.le_refl _)
    by_cases hr : h.haveRuns = true
    · simp only [hr, ↓reduceIte, Res.pure_eq, Res.ok_bind]
      have hnb := nextBody_NP true d key typ (n1 + 1) cur
      cases hb : nextBody true d key typ (n1 + 1) cur with
      | panic s => exact absurd hb (hnb s)
      | err e => exact NP_ok _
      | ok r =>
        obtain ⟨it, nx⟩ := r
        simp only []
        rw [hhd]
        simp only [Res.ok_bind]
        apply NP_bind _ _ (ih (i + 1) hdr' offs nx (by omega) (by omega) (fun hf => by rw [hr] at hf; cases hf))
        intro w _
        exact NP_ok _
    · have hr' : h.haveRuns = false := by simpa using hr
      simp only [hr', Bool.false_eq_true, ↓reduceIte]
      obtain ⟨off, hoff⟩ := rd_ok "oiter.off" offs 0 4 (by have := h2 hr'; omega)
      rw [hoff]
      simp only [Res.ok_bind]
      have hnb := nextBody_NP true d key typ (n1 + 1) off
      cases hb : nextBody true d key typ (n1 + 1) off with
      | panic s => exact absurd hb (hnb s)
      | err e => exact NP_ok _
      | ok r =>
        obtain ⟨it, nx⟩ := r
        simp only []
        obtain ⟨offs', ho, hol⟩ := sub_ok "oiter.off.next" offs 4 offs.length (by have := h2 hr'; omega) (Nat.le_refl _)
        rw [hhd, ho]
        simp only [Res.ok_bind]
        apply NP_bind _ _ (ih (i + 1) hdr' offs' nx (by omega) (by omega) (fun _ => by have := h2 hr'; omega))
        intro w _
        exact NP_ok _

theorem iterate_NP (d : Bytes) : NP (iterate d) := by
  unfold iterate
  by_cases h8 : d.length < 8
  · simp only [h8, ↓reduceIte]; exact NP_err _
  · simp only [h8, ↓reduceIte]
    obtain ⟨magic, hm⟩ := rd_ok "iter.magic" d 0 2 (by omega)
    rw [hm]
    simp only [Res.ok_bind]
    by_cases c1 : magic = cookieRun ∨ magic = cookieNoRun
    · rw [if_pos c1]
      obtain ⟨hnp, hspec⟩ := readOfficialHeader_spec d
      cases hh : readOfficialHeader d with
      | panic s => exact absurd hh (hnp s)
      | err e => exact NP_err _
      | ok h =>
        have hok := hspec h hh
        simp only []
        by_cases hz : h.size = 0
        · rw [if_pos hz]; exact NP_ok _
        · rw [if_neg hz]
          obtain ⟨hdr, hhdr, hhl⟩ := sub_ok "oiter.headers" d h.header h.pos (by rw [hok.pos]; omega) hok.le
          rw [hhdr]
          simp only [Res.ok_bind]
          by_cases hr : h.haveRuns = true
          · simp only [hr, ↓reduceIte]
            exact officialWalk_NP d h hok h.size 0 hdr [] _ (by omega) (by rw [hhl, hok.pos]; omega)
              (fun hf => by rw [hr] at hf; cases hf)
          · have hr' : h.haveRuns = false := by simpa using hr
            simp only [hr', Bool.false_eq_true, ↓reduceIte]
            by_cases c2 : h.pos + h.size * 4 > d.length
            · rw [if_pos c2]; exact NP_err _
            · rw [if_neg c2]
              obtain ⟨offs, ho, hol⟩ := sub_ok "oiter.offsets" d h.pos (h.pos + h.size * 4) (by omega) (by omega)
              rw [ho]
              simp only [Res.ok_bind]
              exact officialWalk_NP d h hok h.size 0 hdr offs 0 (by omega) (by rw [hhl, hok.pos]; omega)
                (fun _ => by rw [hol]; omega)
    · rw [if_neg c1]
      by_cases c3 : magic = magicPilosa
      · rw [if_pos c3]
        obtain ⟨ver, hv⟩ := at1_ok "piter.version" d 2 (by omega)
        rw [hv]
        simp only [Res.ok_bind]
        by_cases c4 : ver ≠ 0
        · rw [if_pos c4]; exact NP_err _
        · rw [if_neg c4]
          obtain ⟨keys, hk⟩ := rd_ok "piter.keys" d 4 4 (by omega)
          rw [hk]
          simp only [Res.ok_bind]
          by_cases c5 : keys = 0
          · rw [if_pos c5]; exact NP_ok _
          · rw [if_neg c5]
            by_cases c6 : d.length < 8 + keys * 16
            · rw [if_pos c6]; exact NP_err _
            · rw [if_neg c6]
              obtain ⟨hdr, hhdr, hhl⟩ := sub_ok "piter.headers" d 8 (8 + keys * 12) (by omega) (by omega)
              obtain ⟨offs, ho, hol⟩ := sub_ok "piter.offsets" d (8 + keys * 12) (8 + keys * 16) (by omega) (by omega)
              rw [hhdr, ho]
              simp only [Res.ok_bind]
              exact pilosaWalk_NP d keys hdr offs (by omega) (by omega)
      · rw [if_neg c3]; exact NP_err _

theorem importBitsSt_NP (m : VMap) (d : Bytes) (clear : Bool) : NP (importBitsSt m d clear).2 := by
  unfold importBitsSt
  have := iterate_NP d
  cases h : iterate d with
  | panic s => exact absurd h (this s)
  | err e => exact NP_err _
  | ok w =>
    simp only []
    cases walkVerdict w with
    | some e => exact NP_err _
    | none => exact NP_ok _

theorem importBits_NP (m : VMap) (d : Bytes) (clear : Bool) : NP (importBits m d clear) := by
  have := importBitsSt_NP m d clear
  unfold importBits
  cases h : importBitsSt m d clear with
  | mk m' r =>
    rw [h] at this
    cases r with
    | ok ch => exact NP_ok _
    | err e => exact NP_err _
    | panic s => exact absurd rfl (this s)

/-- `op.UnmarshalBinary` never panics, and an accepted op has `13 ≤ size ≤ len`. -/
theorem parseOp_spec (buf : Bytes) :
    NP (parseOp buf) ∧ ∀ op size, parseOp buf = .ok (op, size) → 13 ≤ size ∧ size ≤ buf.length := by
  unfold parseOp
  by_cases h13 : buf.length < 13
  · simp only [h13, ↓reduceIte]; exact ⟨NP_err _, fun _ _ h => by cases h⟩
  · simp only [h13, ↓reduceIte]
    obtain ⟨typ, ht⟩ := at1_ok "op.typ" buf 0 (by omega)
    obtain ⟨value, hv⟩ := rd_ok "op.value" buf 1 8 (by omega)
    obtain ⟨h0, hh0, _⟩ := sub_ok "op.hash0" buf 0 9 (by omega) (by omega)
    obtain ⟨chk, hc⟩ := rd_ok "op.chk" buf 9 4 (by omega)
    rw [ht, hv, hh0, hc]
    simp only [Res.ok_bind, Res.pure_eq]
    by_cases t01 : typ = 0 ∨ typ = 1
    · rw [if_pos t01]
      split
      · exact ⟨NP_err _, fun _ _ h => by cases h⟩
      · refine ⟨NP_ok _, fun op size h => ?_⟩
        simp only [Res.ok.injEq, Prod.mk.injEq] at h
        omega
    · rw [if_neg t01]
      by_cases t23 : typ = 2 ∨ typ = 3
      · rw [if_pos t23]
        by_cases b1 : value > 2 ^ 59
        · rw [if_pos b1]; exact ⟨NP_err _, fun _ _ h => by cases h⟩
        · rw [if_neg b1]
          by_cases b2 : buf.length < 13 + value * 8
          · rw [if_pos b2]; exact ⟨NP_err _, fun _ _ h => by cases h⟩
          · rw [if_neg b2]
            obtain ⟨pl, hpl, _⟩ := sub_ok "op.batch" buf 13 (13 + value * 8) (by omega) (by omega)
            rw [hpl]
            simp only [Res.ok_bind]
            split
            · exact ⟨NP_err _, fun _ _ h => by cases h⟩
            · refine ⟨NP_ok _, fun op size h => ?_⟩
              simp only [Res.ok.injEq, Prod.mk.injEq] at h
              omega
      · rw [if_neg t23]
        by_cases t45 : typ = 4 ∨ typ = 5
        · rw [if_pos t45]
          by_cases b1 : value > buf.length ∨ buf.length < 17 + value
          · rw [if_pos b1]; exact ⟨NP_err _, fun _ _ h => by cases h⟩
          · rw [if_neg b1]
            obtain ⟨opN, hopn⟩ := rd_ok "op.opN" buf 13 4 (by omega)
            obtain ⟨ro, hro, _⟩ := sub_ok "op.roaring" buf 17 (17 + value) (by omega) (by omega)
            obtain ⟨hd, hhd, _⟩ := sub_ok "op.hash1" buf 13 (17 + value) (by omega) (by omega)
            rw [hopn, hro, hhd]
            simp only [Res.ok_bind]
            split
            · exact ⟨NP_err _, fun _ _ h => by cases h⟩
            · refine ⟨NP_ok _, fun op size h => ?_⟩
              simp only [Res.ok.injEq, Prod.mk.injEq] at h
              omega
        · rw [if_neg t45]; exact ⟨NP_err _, fun _ _ h => by cases h⟩

theorem opApply_NP (m : VMap) (op : Op) : NP (op.apply m) := by
  cases op with
  | add v => exact NP_ok _
  | remove v => exact NP_ok _
  | addBatch vs => exact NP_ok _
  | removeBatch vs => exact NP_ok _
  | addRoaring d n =>
    simp only [Op.apply]
    have := importBits_NP m d false
    cases h : importBits m d false with
    | ok r => exact NP_ok _
    | err e => exact NP_ok _
    | panic s => exact absurd h (this s)
  | removeRoaring d n =>
    simp only [Op.apply]
    have := importBits_NP m d true
    cases h : importBits m d true with
    | ok r => exact NP_ok _
    | err e => exact NP_ok _
    | panic s => exact absurd h (this s)

theorem opsLoop_NP (fuel : Nat) : ∀ (buf : Bytes) (m : VMap) (ops opN : Nat), buf.length ≤ fuel →
    NP (opsLoop fuel buf m ops opN) := by
  induction fuel with
  | zero =>
    intro buf m ops opN h
    unfold opsLoop
    rw [if_pos (by omega)]; exact NP_ok _
  | succ fuel ih =>
    intro buf m ops opN h
    unfold opsLoop
    by_cases h0 : buf.length = 0
    · rw [if_pos h0]; exact NP_ok _
    · rw [if_neg h0]
      obtain ⟨hnp, hspec⟩ := parseOp_spec buf
      cases hp : parseOp buf with
      | panic s => exact absurd hp (hnp s)
      | err e => exact NP_err _
      | ok r =>
        obtain ⟨op, size⟩ := r
        obtain ⟨hs1, hs2⟩ := hspec op size hp
        simp only [Res.ok_bind]
        apply NP_bind _ _ (opApply_NP m op)
        intro m' _
        obtain ⟨rest, hr, hrl⟩ := sub_ok "ops.next" buf size buf.length hs2 (Nat.le_refl _)
        rw [hr]
        simp only [Res.ok_bind]
        exact ih rest m' _ _ (by omega)

theorem pAttach_spec (d : Bytes) (typ n off : Nat) (hoff : off < d.length) :
    NP (pAttach d typ n off) ∧ ∀ c o, pAttach d typ n off = .ok (c, o) → o ≤ d.length := by
  unfold pAttach
  by_cases t3 : typ = cRun
  · simp only [t3, ↓reduceIte]
    by_cases c1 : off + 2 ≥ d.length
    · rw [if_pos c1]; exact ⟨NP_err _, fun _ _ h => by cases h⟩
    · rw [if_neg c1]
      obtain ⟨rc, hrc⟩ := rd_ok "pilosa.run.count" d off 2 (by omega)
      rw [hrc]
      simp only [Res.ok_bind]
      by_cases c2 : off + 2 + rc * 4 > d.length
      · rw [if_pos c2]; exact ⟨NP_err _, fun _ _ h => by cases h⟩
      · rw [if_neg c2]
        obtain ⟨pl, hpl⟩ := view_ok "pilosa.run.view" d (off + 2) (rc * 4) (by omega) (by omega)
        rw [hpl]
        refine ⟨NP_ok _, fun c o h => ?_⟩
        simp only [Res.ok_bind, Res.pure_eq, Res.ok.injEq, Prod.mk.injEq] at h
        omega
  · simp only [t3, ↓reduceIte]
    by_cases t1 : typ = cArray
    · simp only [t1, ↓reduceIte]
      by_cases c1 : off + n * 2 > d.length
      · rw [if_pos c1]; exact ⟨NP_err _, fun _ _ h => by cases h⟩
      · rw [if_neg c1]
        obtain ⟨pl, hpl⟩ := view_ok "pilosa.array.view" d off (n * 2) hoff (by omega)
        rw [hpl]
        refine ⟨NP_ok _, fun c o h => ?_⟩
        simp only [Res.ok_bind, Res.pure_eq, Res.ok.injEq, Prod.mk.injEq] at h
        omega
    · simp only [t1, ↓reduceIte]
      by_cases t2 : typ = cBitmap
      · simp only [t2, ↓reduceIte]
        by_cases c1 : off + bitmapBytes > d.length
        · rw [if_pos c1]; exact ⟨NP_err _, fun _ _ h => by cases h⟩
        · rw [if_neg c1]
          obtain ⟨pl, hpl⟩ := view_ok "pilosa.bitmap.view" d off bitmapBytes (by simp only [bitmapBytes] at *; omega) (by omega)
          rw [hpl]
          refine ⟨NP_ok _, fun c o h => ?_⟩
          simp only [Res.ok_bind, Res.pure_eq, Res.ok.injEq, Prod.mk.injEq] at h
          omega
      · simp only [t2, ↓reduceIte]; exact ⟨NP_err _, fun _ _ h => by cases h⟩

theorem putCVd_ne_nil (key typ n : Nat) (l : List Slot) : putCVd key typ n l ≠ [] := by
  cases l with
  | nil => simp [putCVd]
  | cons s r =>
    simp only [putCVd]
    split
    · simp
    · split <;> simp

theorem pHdrLoop_spec (k : Nat) : ∀ (buf : Bytes) (slots : List Slot), 12 * k ≤ buf.length →
    NP (pHdrLoop k buf slots) ∧
    ∀ r, pHdrLoop k buf slots = .ok r → (0 < k ∨ slots ≠ []) → r ≠ [] := by
  induction k with
  | zero =>
    intro buf slots _
    refine ⟨NP_ok _, fun r h hk => ?_⟩
    simp only [pHdrLoop, Res.pure_eq, Res.ok.injEq] at h
    subst h
    rcases hk with h | h
    · omega
    · simpa using h
  | succ k ih =>
    intro buf slots hl
    unfold pHdrLoop
    obtain ⟨key, hkey⟩ := rd_ok "pilosa.hdr.key" buf 0 8 (by omega)
    obtain ⟨t, ht⟩ := rd_ok "pilosa.hdr.typ" buf 8 2 (by omega)
    obtain ⟨n1, hn1⟩ := rd_ok "pilosa.hdr.n" buf 10 2 (by omega)
    rw [hkey, ht, hn1]
    simp only [Res.ok_bind]
    split
    · exact ⟨NP_err _, fun _ h => by cases h⟩
    · obtain ⟨rest, hr, hrl⟩ := sub_ok "pilosa.hdr.next" buf 12 buf.length (by omega) (Nat.le_refl _)
      rw [hr]
      simp only [Res.ok_bind]
      obtain ⟨i1, i2⟩ := ih rest (putCVd key (t % 256) (n1 + 1) slots) (by omega)
      exact ⟨i1, fun r h _ => i2 r h (Or.inr (putCVd_ne_nil _ _ _ _))⟩

theorem pOffLoop_spec (d : Bytes) (k : Nat) : ∀ (buf : Bytes) (done rem : List Slot) (oo : Nat),
    4 * k ≤ buf.length → oo ≤ d.length →
    NP (pOffLoop d k buf done rem oo) ∧
    ∀ slots o, pOffLoop d k buf done rem oo = .ok (slots, o) → o ≤ d.length := by
  induction k with
  | zero =>
    intro buf done rem oo _ ho
    refine ⟨NP_ok _, fun slots o h => ?_⟩
    simp only [pOffLoop, Res.pure_eq, Res.ok.injEq, Prod.mk.injEq] at h
    omega
  | succ k ih =>
    intro buf done rem oo hl ho
    unfold pOffLoop
    obtain ⟨off, hoff⟩ := rd_ok "pilosa.off" buf 0 4 (by omega)
    rw [hoff]
    simp only [Res.ok_bind]
    by_cases c1 : off ≥ d.length
    · rw [if_pos c1]; exact ⟨NP_err _, fun _ _ h => by cases h⟩
    · rw [if_neg c1]
      obtain ⟨rest, hr, hrl⟩ := sub_ok "pilosa.off.next" buf 4 buf.length (by omega) (Nat.le_refl _)
      cases rem with
      | nil =>
        simp only []
        rw [hr]
        simp only [Res.ok_bind]
        exact ih rest done [] oo (by omega) ho
      | cons s r =>
        simp only []
        obtain ⟨anp, ale⟩ := pAttach_spec d s.typ s.n off (by omega)
        cases ha : pAttach d s.typ s.n off with
        | panic x => exact absurd ha (anp x)
        | err e => exact ⟨NP_err _, fun _ _ h => by cases h⟩
        | ok co =>
          obtain ⟨c, o⟩ := co
          have hole := ale c o ha
          simp only [Res.ok_bind]
          rw [hr]
          simp only [Res.ok_bind]
          cases r with
          | nil => exact ih rest done [s.attach c] o (by omega) hole
          | cons s2 r2 => exact ih rest (s.attach c :: done) (s2 :: r2) o (by omega) hole

theorem loadPilosa_spec (d : Bytes) :
    NP (loadPilosa d) ∧ ∀ f cs oo, loadPilosa d = .ok (f, cs, oo) → oo ≤ d.length := by
  unfold loadPilosa
  by_cases h8 : d.length < 8
  · simp only [h8, ↓reduceIte]; exact ⟨NP_err _, fun _ _ _ h => by cases h⟩
  · simp only [h8, ↓reduceIte]
    obtain ⟨magic, hm⟩ := rd_ok "pilosa.magic" d 0 2 (by omega)
    obtain ⟨ver, hv⟩ := at1_ok "pilosa.version" d 2 (by omega)
    obtain ⟨flags, hf⟩ := at1_ok "pilosa.flags" d 3 (by omega)
    rw [hm, hv, hf]
    simp only [Res.ok_bind]
    split
    · exact ⟨NP_err _, fun _ _ _ h => by cases h⟩
    · split
      · exact ⟨NP_err _, fun _ _ _ h => by cases h⟩
      · obtain ⟨keyN, hk⟩ := rd_ok "pilosa.keyN" d 4 4 (by omega)
        rw [hk]
        simp only [Res.ok_bind]
        by_cases c1 : d.length < 8 + keyN * 12
        · rw [if_pos c1]; exact ⟨NP_err _, fun _ _ _ h => by cases h⟩
        · rw [if_neg c1]
          by_cases c2 : d.length < 8 + keyN * 16
          · rw [if_pos c2]; exact ⟨NP_err _, fun _ _ _ h => by cases h⟩
          · rw [if_neg c2]
            obtain ⟨hbuf, hh, hhl⟩ := sub_ok "pilosa.headers" d 8 d.length (by omega) (Nat.le_refl _)
            rw [hh]
            simp only [Res.ok_bind]
            obtain ⟨hnp, _⟩ := pHdrLoop_spec keyN hbuf [] (by omega)
            cases hp : pHdrLoop keyN hbuf [] with
            | panic s => exact absurd hp (hnp s)
            | err e => exact ⟨NP_err _, fun _ _ _ h => by cases h⟩
            | ok slots =>
              simp only [Res.ok_bind]
              obtain ⟨obuf, ho, hol⟩ := sub_ok "pilosa.offsets" d (8 + keyN * 12) d.length (by omega) (Nat.le_refl _)
              rw [ho]
              simp only [Res.ok_bind]
              obtain ⟨onp, ole⟩ := pOffLoop_spec d keyN obuf [] slots (8 + keyN * 12) (by omega) (by omega)
              cases hq : pOffLoop d keyN obuf [] slots (8 + keyN * 12) with
              | panic s => exact absurd hq (onp s)
              | err e => exact ⟨NP_err _, fun _ _ _ h => by cases h⟩
              | ok so =>
                obtain ⟨slots', oo⟩ := so
                have := ole slots' oo hq
                refine ⟨NP_ok _, fun f cs oo' h => ?_⟩
                simp only [Res.ok_bind, Res.pure_eq, Res.ok.injEq, Prod.mk.injEq] at h
                omega

theorem unmarshalPilosa_NP (d : Bytes) : NP (unmarshalPilosa d) := by
  unfold unmarshalPilosa
  obtain ⟨lnp, lle⟩ := loadPilosa_spec d
  apply NP_bind _ _ lnp
  intro r hr
  obtain ⟨flags, cs, oo⟩ := r
  have := lle flags cs oo hr
  simp only []
  obtain ⟨lbuf, hlb, hlbl⟩ := sub_ok "pilosa.ops" d oo d.length this (Nat.le_refl _)
  rw [hlb]
  simp only [Res.ok_bind]
  apply NP_bind _ _ (opsLoop_NP lbuf.length lbuf _ 0 0 (Nat.le_refl _))
  intro r _
  exact NP_ok _

theorem oHdrLoop_spec (d : Bytes) (h : OffHeader) (hh : OffHeaderOk d h) (k : Nat) :
    ∀ (i : Nat) (buf : Bytes) (slots : List Slot), i + k = h.size → 4 * k ≤ buf.length →
    NP (oHdrLoop h k i buf slots) ∧
    ∀ r, oHdrLoop h k i buf slots = .ok r → (0 < k ∨ slots ≠ []) → r ≠ [] := by
  induction k with
  | zero =>
    intro i buf slots _ _
    refine ⟨NP_ok _, fun r hr hk => ?_⟩
    simp only [oHdrLoop, Res.pure_eq, Res.ok.injEq] at hr
    subst hr
    rcases hk with h' | h'
    · omega
    · simpa using h'
  | succ k ih =>
    intro i buf slots hik hl
    unfold oHdrLoop
    obtain ⟨n1, hn1⟩ := rd_ok "official.hdr.n" buf 2 2 (by omega)
    obtain ⟨key, hkey⟩ := rd_ok "official.hdr.key" buf 0 2 (by omega)
    rw [hn1, hkey]
    simp only [Res.ok_bind]
    obtain ⟨typ, htyp, _⟩ := officialType_ok d h hh i (n1 + 1) (by omega)
    rw [htyp]
    simp only [Res.ok_bind]
    obtain ⟨rest, hr, hrl⟩ := sub_ok "official.hdr.next" buf 4 buf.length (by omega) (Nat.le_refl _)
    rw [hr]
    simp only [Res.ok_bind]
    obtain ⟨i1, i2⟩ := ih (i + 1) rest (putCVd key typ (n1 + 1) slots) (by omega) (by omega)
    exact ⟨i1, fun r hr' _ => i2 r hr' (Or.inr (putCVd_ne_nil _ _ _ _))⟩

theorem oOffAttach_NP (d : Bytes) (typ n off : Nat) (hoff : off < d.length) : NP (oOffAttach d typ n off) := by
  unfold oOffAttach
  split
  · split
    · exact NP_err _
    · obtain ⟨pl, hpl⟩ := view_ok "official.array.view" d off (n * 2) hoff (by omega)
      rw [hpl]; exact NP_ok _
  · split
    · split
      · exact NP_err _
      · obtain ⟨pl, hpl⟩ := view_ok "official.bitmap.view" d off bitmapBytes hoff (by omega)
        rw [hpl]; exact NP_ok _
    · exact NP_err _

theorem oOffLoop_NP (d : Bytes) (k : Nat) : ∀ (buf : Bytes) (done rem : List Slot),
    (0 < k → rem ≠ []) → NP (oOffLoop d k buf done rem) := by
  induction k with
  | zero => intro buf done rem _; exact NP_ok _
  | succ k ih =>
    intro buf done rem hrem
    unfold oOffLoop
    by_cases c0 : buf.length < 4
    · rw [if_pos c0]; exact NP_err _
    · rw [if_neg c0]
      obtain ⟨off, hoff⟩ := rd_ok "official.off" buf 0 4 (by omega)
      rw [hoff]
      simp only [Res.ok_bind]
      by_cases c1 : off ≥ d.length
      · rw [if_pos c1]; exact NP_err _
      · rw [if_neg c1]
        cases rem with
        | nil => exact absurd rfl (hrem (by omega))
        | cons s r =>
          simp only []
          obtain ⟨rest, hr, hrl⟩ := sub_ok "official.off.next" buf 4 buf.length (by omega) (Nat.le_refl _)
          apply NP_bind _ _ (oOffAttach_NP d s.typ s.n off (by omega))
          intro c _
          rw [hr]
          simp only [Res.ok_bind]
          cases r with
          | nil => exact ih rest done [s.attach c] (fun _ => by simp)
          | cons s2 r2 => exact ih rest (s.attach c :: done) (s2 :: r2) (fun _ => by simp)

theorem oRunAttach_NP (d : Bytes) (typ n pos : Nat) (hn : 0 < n) : NP (oRunAttach d typ n pos) := by
  unfold oRunAttach
  split
  · split
    · exact NP_err _
    · next c1 =>
      obtain ⟨rc, hrc⟩ := rd_ok "official.run.count" d pos 2 (by omega)
      rw [hrc]
      simp only [Res.ok_bind]
      split
      · exact NP_err _
      · obtain ⟨pl, hpl⟩ := view_ok "official.run.view" d (pos + 2) (rc * 4) (by omega) (by omega)
        rw [hpl]; exact NP_ok _
  · split
    · split
      · exact NP_err _
      · obtain ⟨pl, hpl⟩ := view_ok "official.array.view" d pos (n * 2) (by omega) (by omega)
        rw [hpl]; exact NP_ok _
    · split
      · split
        · exact NP_err _
        · obtain ⟨pl, hpl⟩ := view_ok "official.bitmap.view" d pos bitmapBytes (by simp only [bitmapBytes] at *; omega) (by omega)
          rw [hpl]; exact NP_ok _
      · exact NP_ok _

theorem putCVd_npos (key typ n : Nat) (hn : 0 < n) (l : List Slot) (hl : ∀ s ∈ l, 0 < s.n) :
    ∀ s ∈ putCVd key typ n l, 0 < s.n := by
  induction l with
  | nil => intro s hs; simp [putCVd] at hs; subst hs; exact hn
  | cons a r ih =>
    intro s hs
    simp only [putCVd] at hs
    split at hs
    · rcases List.mem_cons.mp hs with e | e
      · subst e; exact hn
      · exact hl s e
    · split at hs
      · rcases List.mem_cons.mp hs with e | e
        · subst e; exact hn
        · exact hl s (List.mem_cons_of_mem _ e)
      · rcases List.mem_cons.mp hs with e | e
        · subst e; exact hl _ (by simp)
        · exact ih (fun x hx => hl x (List.mem_cons_of_mem _ hx)) s e

theorem oHdrLoop_npos (h : OffHeader) (k : Nat) : ∀ (i : Nat) (buf : Bytes) (slots : List Slot),
    (∀ s ∈ slots, 0 < s.n) → ∀ r, oHdrLoop h k i buf slots = .ok r → ∀ s ∈ r, 0 < s.n := by
  induction k with
  | zero =>
    intro i buf slots hs r hr
    simp only [oHdrLoop, Res.pure_eq, Res.ok.injEq] at hr
    subst hr
    intro s hs'
    exact hs s (List.mem_reverse.mp hs')
  | succ k ih =>
    intro i buf slots hs r hr
    unfold oHdrLoop at hr
    cases h1 : rd "official.hdr.n" buf 2 2 with
    | ok n1 =>
      rw [h1] at hr
      cases h2 : rd "official.hdr.key" buf 0 2 with
      | ok key =>
        rw [h2] at hr
        simp only [Res.ok_bind] at hr
        cases h3 : officialType h i (n1 + 1) with
        | ok typ =>
          rw [h3] at hr
          simp only [Res.ok_bind] at hr
          cases h4 : sub "official.hdr.next" buf 4 buf.length with
          | ok rest =>
            rw [h4] at hr
            simp only [Res.ok_bind] at hr
            exact ih (i + 1) rest _ (putCVd_npos key typ (n1 + 1) (by omega) slots hs) r hr
          | err e => rw [h4] at hr; cases hr
          | panic e => rw [h4] at hr; cases hr
        | err e => rw [h3] at hr; cases hr
        | panic e => rw [h3] at hr; cases hr
      | err e => rw [h2] at hr; cases hr
      | panic e => rw [h2] at hr; cases hr
    | err e => rw [h1] at hr; cases hr
    | panic e => rw [h1] at hr; cases hr

theorem oRunLoop_NP (d : Bytes) (k : Nat) : ∀ (done rem : List Slot) (pos : Nat),
    (0 < k → rem ≠ []) → (∀ s ∈ rem, 0 < s.n) → NP (oRunLoop d k done rem pos) := by
  induction k with
  | zero => intro done rem pos _ _; exact NP_ok _
  | succ k ih =>
    intro done rem pos hrem hn
    unfold oRunLoop
    cases rem with
    | nil => exact absurd rfl (hrem (by omega))
    | cons s r =>
      simp only []
      apply NP_bind _ _ (oRunAttach_NP d s.typ s.n pos (hn s (by simp)))
      intro cp _
      obtain ⟨c, pos'⟩ := cp
      simp only []
      cases r with
      | nil =>
        apply ih
        · intro _; simp
        · intro x hx
          simp only [List.mem_cons, List.mem_nil_iff, or_false] at hx
          subst hx
          cases c with
          | none => exact hn s (by simp)
          | some c => exact hn s (by simp)
      | cons s2 r2 =>
        apply ih
        · intro _; simp
        · intro x hx; exact hn x (List.mem_cons_of_mem _ hx)

theorem unmarshalOfficial_NP (d : Bytes) : NP (unmarshalOfficial d) := by
  unfold unmarshalOfficial
  obtain ⟨hnp, hspec⟩ := readOfficialHeader_spec d
  apply NP_bind _ _ hnp
  intro h hh
  have hok := hspec h hh
  obtain ⟨hbuf, hb, hbl⟩ := sub_ok "official.headers" d h.header d.length (by have := hok.pos; have := hok.le; omega) (Nat.le_refl _)
  rw [hb]
  simp only [Res.ok_bind]
  obtain ⟨lnp, lne⟩ := oHdrLoop_spec d h hok h.size 0 hbuf [] (by omega) (by have := hok.pos; have := hok.le; omega)
  apply NP_bind _ _ lnp
  intro slots hslots
  have hne : 0 < h.size → slots ≠ [] := fun hp => lne slots hslots (Or.inl hp)
  have hnpos := oHdrLoop_npos h h.size 0 hbuf [] (by simp) slots hslots
  have hinner : NP (oAttachAll d h slots) := by
    unfold oAttachAll
    split
    · split
      · exact NP_err _
      · exact oRunLoop_NP d h.size [] slots _ hne hnpos
    · obtain ⟨obuf, ho, _⟩ := sub_ok "official.offsets" d h.pos d.length hok.le (Nat.le_refl _)
      rw [ho]
      simp only [Res.ok_bind]
      exact oOffLoop_NP d h.size obuf [] slots hne
  apply NP_bind _ _ hinner
  intro s _
  exact NP_ok _

theorem unmarshal_NP (d : Bytes) : NP (unmarshal d) := by
  unfold unmarshal
  by_cases h8 : d.length < 8
  · simp only [h8, ↓reduceIte]; exact NP_err _
  · simp only [h8, ↓reduceIte]
    obtain ⟨magic, hm⟩ := rd_ok "unmarshal.magic" d 0 2 (by omega)
    rw [hm]
    simp only [Res.ok_bind]
    split
    · apply NP_bind _ _ (unmarshalPilosa_NP d)
      intro r _; exact NP_ok _
    · apply NP_bind _ _ (unmarshalOfficial_NP d)
      intro r _; exact NP_ok _

end PV.C04
