/-
C15 model: per-shard evaluation of bitmap calls and the Row type, following executor.go / row.go
statement by statement (branch verif/a12: row.go after `fix: mergeSegmentIterator returns a segment of
the second row in the second position` and `fix: Row.Shift carries a bit shifted past the end of a
shard into the next shard's segment`).  Core Lean only.

  row.go       rowSegment ops (on roaring data)          -> set operations on duplicate-free column lists
               mergeSegmentIterator.next                 -> `zipSegs`
               Row.Merge/Intersect/Xor/Difference        -> `Row.merge/inter/xor/diff`  (maps over `zipSegs`)
               Row.Union(others...) (k-way by min shard)  -> `Row.unionK`
               Row.Shift (n rounds, carry into segment s+1) -> `Row.shift`
               Row.SetBit / createSegmentIfNotExists      -> `Row.setBit`
               Row.Count / Columns                        -> `Row.count` / `Row.columns`
  executor.go  executeBitmapCallShard and executeRowShard, executeRowBSIGroupShard (condition = opaque
               per-shard provider: the columns of the shard whose stored value satisfies the condition;
               C14 owns the BSI algorithms), executeUnion/Intersect/Difference/Xor/Not/ShiftShard
                                                          -> `evalShard`
               executeBitmapCall reduce (Merge)           -> `execute`
               executeCount (sum of per-shard counts)     -> `executeCount`
               executeSet/ClearBit/ClearRow/SetRow(Store) -> `St.set/clear/clearRow/store`
Columns are absolute column ids (uint64 -> Nat).  A fragment is the set of its (row, column) bits plus
the fact that it exists; a segment's roaring bitmap is a duplicate-free list of columns.
-/
namespace PV.C15

def ShardWidth : Nat := 1048576
/-- columns per roaring container -/
def ContainerWidth : Nat := 65536

/-! ### sets of columns as duplicate-free lists -/

def sAdd (c : Nat) (l : List Nat) : List Nat := if l.contains c then l else l ++ [c]
def sUnion (a b : List Nat) : List Nat := a ++ b.filter (fun c => !a.contains c)
def sInter (a b : List Nat) : List Nat := a.filter (fun c => b.contains c)
def sDiff (a b : List Nat) : List Nat := a.filter (fun c => !b.contains c)
def sXor (a b : List Nat) : List Nat := sDiff a b ++ sDiff b a

/-! ### Row -/

structure Seg where
  shard : Nat
  cols : List Nat
deriving Repr, DecidableEq

abbrev Row := List Seg

/-- `mergeSegmentIterator`: the sequence of (s0, s1) pairs `next()` returns. Fuel = total length. -/
def zipSegs : Nat → List Seg → List Seg → List (Option Seg × Option Seg)
  | 0, _, _ => []
  | _ + 1, [], [] => []
  | f + 1, [], s1 :: r1 => (none, some s1) :: zipSegs f [] r1
  | f + 1, s0 :: r0, [] => (some s0, none) :: zipSegs f r0 []
  | f + 1, s0 :: r0, s1 :: r1 =>
    if s0.shard < s1.shard then (some s0, none) :: zipSegs f r0 (s1 :: r1)
    else if s0.shard > s1.shard then (none, some s1) :: zipSegs f (s0 :: r0) r1
    else (some s0, some s1) :: zipSegs f r0 r1

def zipRows (a b : Row) : List (Option Seg × Option Seg) := zipSegs (a.length + b.length) a b

namespace Row

/-- `Row.Merge`. -/
def merge (r other : Row) : Row :=
  (zipRows r other).filterMap (fun
    | (none, some s1) => some s1
    | (some s0, none) => some s0
    | (some s0, some s1) => some ⟨s0.shard, sUnion s0.cols s1.cols⟩
    | (none, none) => none)

/-- `Row.Intersect`. -/
def inter (r other : Row) : Row :=
  (zipRows r other).filterMap (fun
    | (some s0, some s1) => some ⟨s0.shard, sInter s0.cols s1.cols⟩
    | _ => none)

/-- `Row.Xor`. -/
def xor (r other : Row) : Row :=
  (zipRows r other).filterMap (fun
    | (some s0, none) => some s0
    | (none, some s1) => some s1
    | (some s0, some s1) => some ⟨s0.shard, sXor s0.cols s1.cols⟩
    | (none, none) => none)

/-- `Row.Difference`. -/
def diff (r other : Row) : Row :=
  (zipRows r other).filterMap (fun
    | (none, _) => none
    | (some s0, none) => some s0
    | (some s0, some s1) => some ⟨s0.shard, sDiff s0.cols s1.cols⟩)

/-- lowest head shard of the non-empty segment lists (`shard := segments[0][0].shard; for ... if <`). -/
def minShard : List (List Seg) → Option Nat
  | [] => none
  | [] :: ls => minShard ls
  | (s :: _) :: ls => match minShard ls with
      | none => some s.shard
      | some m => some (if m < s.shard then m else s.shard)

/-- the head of a segment list if it belongs to shard `sh` (`toProcess`) -/
def headIf (sh : Nat) : List Seg → Option Seg
  | s :: _ => if s.shard = sh then some s else none
  | [] => none

/-- the segment list without its head of shard `sh` (`segs = segs[1:]`) -/
def dropIf (sh : Nat) : List Seg → List Seg
  | s :: t => if s.shard = sh then t else s :: t
  | [] => []

def nonEmpty (l : List Seg) : Bool := !l.isEmpty

/-- the union of the segments sharing the lowest shard (`toProcess[0].Union(toProcess[1:]...)`) -/
def unionSegs (sh : Nat) : List Seg → Seg
  | [] => ⟨sh, []⟩
  | s :: rest => ⟨s.shard, rest.foldl (fun acc o => sUnion acc o.cols) s.cols⟩

/-- `Row.Union(others...)`: k-way walk by lowest shard; the segments sharing it are unioned. -/
def unionLoop : Nat → List (List Seg) → List Seg
  | 0, _ => []
  | f + 1, lists =>
    match minShard (lists.filter nonEmpty) with
    | none => []
    | some sh =>
      unionSegs sh ((lists.filter nonEmpty).filterMap (headIf sh)) ::
        unionLoop f ((lists.filter nonEmpty).map (dropIf sh))

def unionK (r : Row) (others : List Row) : Row :=
  unionLoop ((r :: others).map List.length).sum (r :: others)

/-- `Row.Union(other)` with one argument (what the executor's Union uses). -/
def union (r other : Row) : Row := unionK r [other]

/-- `Row.SetBit` = `createSegmentIfNotExists(i / ShardWidth).SetBit(i)`. -/
def setBit (c : Nat) : Row → Row
  | [] => [⟨c / ShardWidth, [c]⟩]
  | sg :: rest =>
    if sg.shard = c / ShardWidth then ⟨sg.shard, sAdd c sg.cols⟩ :: rest
    else if c / ShardWidth < sg.shard then ⟨c / ShardWidth, [c]⟩ :: sg :: rest
    else sg :: setBit c rest

/-- one round of `Row.Shift`: every segment shifted by one (`rowSegment.Shift`), the container with
key (shard+1)<<4 removed from it, and — when that container was not empty — the bit (shard+1)*ShardWidth
set in the new row afterwards. -/
def shift1 (r : Row) : Row :=
  let shifted := r.map (fun sg =>
    let sh := sg.cols.map (· + 1)
    let inCarry := fun c => c / ContainerWidth = (sg.shard + 1) * (ShardWidth / ContainerWidth)
    ((⟨sg.shard, sh.filter (fun c => !decide (inCarry c))⟩ : Seg), sh.any (fun c => decide (inCarry c)), (sg.shard + 1) * ShardWidth))
  let next : Row := shifted.map (·.1)
  let carries := (shifted.filter (·.2.1)).map (·.2.2)
  carries.foldl (fun acc c => setBit c acc) next

/-- `Row.Shift(n)` for n >= 0 (n < 0 is an error raised by the caller). -/
def shift : Nat → Row → Row
  | 0, r => r
  | n + 1, r => shift n (shift1 r)

def count (r : Row) : Nat := (r.map (fun sg => sg.cols.length)).sum

/-- insertion sort, only used to print a segment's columns ascending like a roaring iterator. -/
def insertAsc (x : Nat) : List Nat → List Nat
  | [] => [x]
  | y :: ys => if x ≤ y then x :: y :: ys else y :: insertAsc x ys
def sortAsc (l : List Nat) : List Nat := l.foldl (fun acc x => insertAsc x acc) []

/-- `Row.Columns()`: the segments' columns, segment after segment. -/
def columns (r : Row) : List Nat := r.flatMap (fun sg => sortAsc sg.cols)

/-- all columns as a set (no order) -/
def cols (r : Row) : List Nat := r.flatMap (·.cols)

end Row

/-! ### stored data -/

structure Bit where
  field : String
  view : String
  row : Nat
  col : Nat
deriving DecidableEq, Repr

inductive FieldType
  | set
  | time
  | int
deriving DecidableEq, Repr

def existenceField : String := "_exists"
def viewStandard : String := "standard"

structure St where
  /-- index option TrackExistence -/
  exist : Bool := false
  fields : List (String × FieldType) := []
  /-- every set bit of every fragment (set and time fields, existence field) -/
  bits : List Bit := []
  /-- int fields: (field, column, value) -/
  vals : List (String × Nat × Int) := []
  /-- existing fragments (field, view, shard): created by the first write, never removed -/
  frags : List (String × String × Nat) := []
deriving Repr

namespace St

def fieldType (st : St) (f : String) : Option FieldType := (st.fields.find? (·.1 = f)).map (·.2)

def hasFrag (st : St) (f v : String) (s : Nat) : Bool := st.frags.contains (f, v, s)

def addFrag (st : St) (f v : String) (s : Nat) : St :=
  if st.hasFrag f v s then st else { st with frags := st.frags ++ [(f, v, s)] }

def bsiView (f : String) : String := "bsig_" ++ f

/-- `Index.AvailableShards()` (shards with a fragment in any field, incl. the existence field);
`execute` uses [0] when there is none. Ascending. -/
def availableShards (st : St) : List Nat :=
  let l := Row.sortAsc ((st.frags.map (·.2.2)).eraseDups)
  if l.isEmpty then [0] else l

/-- `fragment.row(rowID)` of (field, view, shard) as column list. -/
def fragRow (st : St) (f v : String) (r s : Nat) : List Nat :=
  ((st.bits.filter (fun b => b.field = f ∧ b.view = v ∧ b.row = r ∧ b.col / ShardWidth = s)).map (·.col)).eraseDups

def hasBit (st : St) (b : Bit) : Bool := st.bits.contains b

def addBit (st : St) (b : Bit) : St :=
  let st := st.addFrag b.field b.view (b.col / ShardWidth)
  if st.hasBit b then st else { st with bits := st.bits ++ [b] }

end St

/-! ### expressions -/

inductive Op
  | union | inter | diff | xor
deriving DecidableEq, Repr

/-- integer condition of `Row(v <op> x)`; `between` is inclusive, `notNull` is `!= null`. -/
inductive Cond
  | lt (x : Int) | le (x : Int) | gt (x : Int) | ge (x : Int) | eq (x : Int) | ne (x : Int)
  | between (a b : Int) | notNull
deriving DecidableEq, Repr

def Cond.holds : Cond → Int → Bool
  | .lt x, v => v < x
  | .le x, v => v ≤ x
  | .gt x, v => v > x
  | .ge x, v => v ≥ x
  | .eq x, v => v = x
  | .ne x, v => v ≠ x
  | .between a b, v => a ≤ v ∧ v ≤ b
  | .notNull, _ => true

/-- A bitmap call. n-ary Union/Intersect/Difference/Xor are evaluated by the executor as a left
fold over the children (first child, then `other = other.Op(row)`), children in order, first error
wins: `Op(e1,..,en)` is `bin op (.. (bin op e1 e2) ..) en`, `Op(e)` is `e`, `Op()` is `empty op`. -/
inductive Expr
  | row (f : String) (r : Nat)
  | rowTime (f : String) (r : Nat) (views : List String)
  | rowCond (f : String) (c : Cond)
  | empty (op : Op)
  | bin (op : Op) (a b : Expr)
  | not (a : Expr)
  | notArity
  | shift (n : Int) (a : Expr)
  | shiftArity
deriving Repr

inductive Err
  | fieldNotFound | emptyOp | notArity | shiftArity | negShift | noExistence | bsiNotFound
  | storeType | clearRowType
deriving DecidableEq, Repr

def Err.text : Err → String
  | .fieldNotFound => "err:field-not-found"
  | .emptyOp => "err:empty-op"
  | .notArity => "err:not-arity"
  | .shiftArity => "err:shift-arity"
  | .negShift => "err:negative-shift"
  | .noExistence => "err:no-existence"
  | .bsiNotFound => "err:bsigroup-not-found"
  | .storeType => "err:store-field-type"
  | .clearRowType => "err:clearrow-field-type"

def applyOp : Op → Row → Row → Row
  | .union, a, b => a.union b
  | .inter, a, b => a.inter b
  | .diff, a, b => a.diff b
  | .xor, a, b => a.xor b

/-- executeRowShard with from/to: no fragment => empty row, one => that row, several =>
`rows[0].Union(rows[1:]...)`. -/
def unionRows : List Row → Row
  | [] => []
  | [r0] => r0
  | r0 :: rest => Row.unionK r0 rest

/-- `executeBitmapCallShard`. -/
def evalShard (st : St) : Expr → Nat → Except Err Row
  | .row f r, s =>
    -- executeRowShard, no from/to
    match st.fieldType f with
    | none => .error .fieldNotFound
    | some _ => if st.hasFrag f viewStandard s then .ok [⟨s, st.fragRow f viewStandard r s⟩] else .ok []
  | .rowTime f r views, s =>
    match st.fieldType f with
    | none => .error .fieldNotFound
    | some t =>
      if t ≠ .time then .ok []      -- no time quantum: empty row
      else
        .ok (unionRows ((views.filter (fun v => st.hasFrag f v s)).map (fun v => [⟨s, st.fragRow f v r s⟩])))
  | .rowCond f c, s =>
    match st.fieldType f with
    | none => .error .fieldNotFound
    | some t =>
      if t ≠ .int then .error .bsiNotFound
      else if st.hasFrag f (St.bsiView f) s then
        .ok [⟨s, ((st.vals.filter (fun e => e.1 = f ∧ e.2.1 / ShardWidth = s ∧ c.holds e.2.2)).map (·.2.1)).eraseDups⟩]
      else .ok []
  | .empty op, _ =>
    match op with
    | .union => .ok []
    | .xor => .ok []
    | _ => .error .emptyOp
  | .bin op a b, s => do
    let ra ← evalShard st a s
    let rb ← evalShard st b s
    pure (applyOp op ra rb)
  | .not a, s =>
    if !st.exist then .error .noExistence
    else do
      let ex : Row := if st.hasFrag existenceField viewStandard s then [⟨s, st.fragRow existenceField viewStandard 0 s⟩] else []
      let ra ← evalShard st a s
      pure (ex.diff ra)
  | .notArity, _ => .error .notArity
  | .shift n a, s => do
    let ra ← evalShard st a s
    if n < 0 then .error .negShift else pure (Row.shift n.toNat ra)
  | .shiftArity, _ => .error .shiftArity

/-- `executeBitmapCall`: map over the shards, reduce with `Merge` starting from `NewRow()`
(arrival order = the given order; order independence is C17). -/
def execute (st : St) (e : Expr) (shards : List Nat) : Except Err Row :=
  shards.foldl (fun acc s => do
    let r ← acc
    let v ← evalShard st e s
    pure (r.merge v)) (.ok [])

/-- `executeCount`. -/
def executeCount (st : St) (e : Expr) (shards : List Nat) : Except Err Nat :=
  shards.foldl (fun acc s => do
    let n ← acc
    let v ← evalShard st e s
    pure (n + v.count)) (.ok 0)

/-! ### writes -/

namespace St

/-- `Set(col, f=row)` on a set/time field, optional time views (besides standard): returns changed. -/
def set (st : St) (f : String) (r c : Nat) (views : List String) : Except Err (St × Bool) :=
  match st.fieldType f with
  | none => .error .fieldNotFound
  | some _ =>
    let st := if st.exist then st.addBit ⟨existenceField, viewStandard, 0, c⟩ else st
    let targets := viewStandard :: views
    let changed := targets.any (fun v => !st.hasBit ⟨f, v, r, c⟩)
    .ok (targets.foldl (fun s v => s.addBit ⟨f, v, r, c⟩) st, changed)

/-- `Set(col, v=value)` on an int field. -/
def setValue (st : St) (f : String) (c : Nat) (v : Int) : Except Err St :=
  match st.fieldType f with
  | none => .error .fieldNotFound
  | some _ =>
    let st := if st.exist then st.addBit ⟨existenceField, viewStandard, 0, c⟩ else st
    let st := st.addFrag f (bsiView f) (c / ShardWidth)
    .ok { st with vals := st.vals.filter (fun e => !(e.1 = f ∧ e.2.1 = c)) ++ [(f, c, v)] }

/-- `Clear(col, f=row)`: the bit leaves every view of the field. -/
def clear (st : St) (f : String) (r c : Nat) : Except Err (St × Bool) :=
  match st.fieldType f with
  | none => .error .fieldNotFound
  | some _ =>
    let changed := st.bits.any (fun b => b.field = f ∧ b.row = r ∧ b.col = c)
    .ok ({ st with bits := st.bits.filter (fun b => !(b.field = f ∧ b.row = r ∧ b.col = c)) }, changed)

/-- `ClearRow(f=row)`: the row is removed from every view of the field, in every queried shard. -/
def clearRow (st : St) (f : String) (r : Nat) (shards : List Nat) : Except Err St :=
  match st.fieldType f with
  | none => .error .fieldNotFound
  | some t =>
    if t = .int then .error .clearRowType else
    .ok { st with bits := st.bits.filter (fun b => !(b.field = f ∧ b.row = r ∧ shards.contains (b.col / ShardWidth))) }

/-- the segment of `row` for shard `s` (`Row.segment`) -/
def segmentOf (row : Row) (s : Nat) : List Nat :=
  match row.find? (fun sg => sg.shard = s) with
  | some sg => sg.cols
  | none => []

/-- `Store(e, f=row)`: per queried shard, the source row is evaluated in that shard and
`fragment.setRow` replaces row `r` of the standard view's fragment (created if missing) by the source
row's segment for that shard. Existence is not touched. (A shard only reads and writes its own
fragments, so evaluating every shard against the state before the call is what the code computes.) -/
def store (st : St) (f : String) (r : Nat) (e : Expr) (shards : List Nat) : Except Err St :=
  match st.fieldType f with
  | none => .error .fieldNotFound
  | some t =>
    if t ≠ .set then .error .storeType else
    shards.foldl (fun acc s => do
      let cur ← acc
      let src ← evalShard st e s
      let cur := cur.addFrag f viewStandard s
      let kept := cur.bits.filter (fun b => !(b.field = f ∧ b.view = viewStandard ∧ b.row = r ∧ b.col / ShardWidth = s))
      let added := ((segmentOf src s).filter (fun c => c / ShardWidth = s)).map (fun c => (⟨f, viewStandard, r, c⟩ : Bit))
      pure { cur with bits := kept ++ added }) (.ok st)

end St

end PV.C15
