/-
C15 helper lemmas, part 3 (core Lean only): a shard evaluation returns exactly the shard's part of
the set-algebra value, for every expression without a Shift carry.
-/
import PV.C15.LemmasUnion
namespace PV.C15
open List

/-- every stored bit / value lives in an existing fragment (established by the write paths) -/
structure WF (st : St) : Prop where
  bitFrag : ∀ b ∈ st.bits, (b.field, b.view, b.col / ShardWidth) ∈ st.frags
  valFrag : ∀ e ∈ st.vals, (e.1, St.bsiView e.1, e.2.1 / ShardWidth) ∈ st.frags

theorem mem_fragRow (st : St) (f v : String) (r s c : Nat) :
    c ∈ st.fragRow f v r s ↔ c ∈ Spec.fieldCols st f v r ∧ c / ShardWidth = s := by
  simp only [St.fragRow, Spec.fieldCols, mem_eraseDups, mem_map, mem_filter, decide_eq_true_eq]
  constructor
  · rintro ⟨b, ⟨hb, h1, h2, h3, h4⟩, rfl⟩
    exact ⟨⟨b, ⟨hb, h1, h2, h3⟩, rfl⟩, h4⟩
  · rintro ⟨⟨b, ⟨hb, h1, h2, h3⟩, rfl⟩, h4⟩
    exact ⟨b, ⟨hb, h1, h2, h3, h4⟩, rfl⟩

theorem fragRow_shard (st : St) (f v : String) (r s c : Nat) (h : c ∈ st.fragRow f v r s) : c / ShardWidth = s :=
  ((mem_fragRow st f v r s c).mp h).2

theorem no_frag_no_col (st : St) (hw : WF st) (f v : String) (r s c : Nat)
    (hf : st.hasFrag f v s = false) (hc : c ∈ Spec.fieldCols st f v r) : c / ShardWidth ≠ s := by
  intro hs
  simp only [Spec.fieldCols, mem_eraseDups, mem_map, mem_filter, decide_eq_true_eq] at hc
  obtain ⟨b, ⟨hb, h1, h2, _⟩, rfl⟩ := hc
  have := hw.bitFrag b hb
  rw [h1, h2, hs] at this
  simp only [St.hasFrag, contains_eq_mem, decide_eq_false_iff_not] at hf
  exact hf this

/-- the row a fragment lookup yields -/
theorem leaf_local (st : St) (hw : WF st) (f v : String) (r s : Nat) :
    let row : Row := if st.hasFrag f v s then [⟨s, st.fragRow f v r s⟩] else []
    Local s row ∧ ∀ c, c ∈ Row.cols row ↔ c ∈ Spec.fieldCols st f v r ∧ c / ShardWidth = s := by
  intro row
  cases hf : st.hasFrag f v s with
  | true =>
    simp only [row, hf, if_true]
    exact ⟨local_single s _ (fun c hc => fragRow_shard st f v r s c hc), by intro c; simp [Row.cols, mem_fragRow]⟩
  | false =>
    simp only [row, hf]
    refine ⟨local_nil s, ?_⟩
    intro c
    simp only [Bool.false_eq_true, if_false, Row.cols, flatMap_nil, not_mem_nil, false_iff, not_and]
    exact fun hc => no_frag_no_col st hw f v r s c hf hc

theorem unionRows_local (s : Nat) (rows : List Row) (h : ∀ l ∈ rows, Local s l) :
    Local s (unionRows rows) ∧ ∀ c, c ∈ Row.cols (unionRows rows) ↔ ∃ l ∈ rows, c ∈ Row.cols l := by
  match rows, h with
  | [], _ => exact ⟨local_nil s, by intro c; simp [unionRows, Row.cols]⟩
  | [r0], h => exact ⟨h r0 (by simp), by intro c; simp [unionRows]⟩
  | r0 :: r1 :: rest, h =>
    have hS := singles_of_local s (r0 :: r1 :: rest) h
    obtain ⟨hshape, hmem⟩ := unionK_singles s r0 (r1 :: rest) hS
    simp only [unionRows]
    refine ⟨?_, hmem⟩
    rcases hshape with h0 | ⟨U, hU⟩
    · rw [h0]; exact local_nil s
    · rw [hU]
      apply local_single
      intro c hc
      have : c ∈ Row.cols (Row.unionK r0 (r1 :: rest)) := by rw [hU]; simpa [Row.cols] using hc
      obtain ⟨l, hl, hcl⟩ := (hmem c).mp this
      exact local_mem_shard s l (h l hl) c hcl

theorem mem_foldl_views (st : St) (f : String) (r : Nat) (views : List String) (init : List Nat) (c : Nat) :
    c ∈ views.foldl (fun acc v => sUnion acc (Spec.fieldCols st f v r)) init ↔
      c ∈ init ∨ ∃ v ∈ views, c ∈ Spec.fieldCols st f v r := by
  induction views generalizing init with
  | nil => simp
  | cons v vs ih =>
    simp only [foldl_cons, ih, mem_sUnion, mem_cons]
    constructor
    · rintro ((h | h) | ⟨w, hw, h⟩)
      · exact Or.inl h
      · exact Or.inr ⟨v, Or.inl rfl, h⟩
      · exact Or.inr ⟨w, Or.inr hw, h⟩
    · rintro (h | ⟨w, (rfl | hw), h⟩)
      · exact Or.inl (Or.inl h)
      · exact Or.inl (Or.inr h)
      · exact Or.inr ⟨w, hw, h⟩

theorem applyOp_local (op : Op) (s : Nat) (a b : Row) (ha : Local s a) (hb : Local s b) (ca cb : List Nat)
    (hma : ∀ c, c ∈ Row.cols a ↔ c ∈ ca ∧ c / ShardWidth = s)
    (hmb : ∀ c, c ∈ Row.cols b ↔ c ∈ cb ∧ c / ShardWidth = s) :
    Local s (applyOp op a b) ∧
    ∀ c, c ∈ Row.cols (applyOp op a b) ↔ c ∈ Spec.setOp op ca cb ∧ c / ShardWidth = s := by
  cases op with
  | union =>
    obtain ⟨h1, h2⟩ := union_local s a b ha hb
    refine ⟨h1, ?_⟩
    intro c; simp only [applyOp, h2, hma, hmb, Spec.setOp, mem_sUnion]
    constructor
    · rintro (⟨h, hs⟩ | ⟨h, hs⟩) <;> simp [h, hs]
    · rintro ⟨h | h, hs⟩ <;> simp [h, hs]
  | inter =>
    obtain ⟨h1, h2⟩ := inter_local s a b ha hb
    refine ⟨h1, ?_⟩
    intro c; simp only [applyOp, h2, hma, hmb, Spec.setOp, mem_sInter]
    constructor
    · rintro ⟨⟨h, hs⟩, h', _⟩; exact ⟨⟨h, h'⟩, hs⟩
    · rintro ⟨⟨h, h'⟩, hs⟩; exact ⟨⟨h, hs⟩, h', hs⟩
  | diff =>
    obtain ⟨h1, h2⟩ := diff_local s a b ha hb
    refine ⟨h1, ?_⟩
    intro c; simp only [applyOp, h2, hma, hmb, Spec.setOp, mem_sDiff]
    constructor
    · rintro ⟨⟨h, hs⟩, h'⟩; exact ⟨⟨h, fun hb => h' ⟨hb, hs⟩⟩, hs⟩
    · rintro ⟨⟨h, h'⟩, hs⟩; exact ⟨⟨h, hs⟩, fun hb => h' hb.1⟩
  | xor =>
    obtain ⟨h1, h2⟩ := xor_local s a b ha hb
    refine ⟨h1, ?_⟩
    intro c; simp only [applyOp, h2, hma, hmb, Spec.setOp, mem_sXor]
    constructor
    · rintro (⟨⟨h, hs⟩, h'⟩ | ⟨⟨h, hs⟩, h'⟩)
      · exact ⟨Or.inl ⟨h, fun hb => h' ⟨hb, hs⟩⟩, hs⟩
      · exact ⟨Or.inr ⟨h, fun hb => h' ⟨hb, hs⟩⟩, hs⟩
    · rintro ⟨(⟨h, h'⟩ | ⟨h, h'⟩), hs⟩
      · exact Or.inl ⟨⟨h, hs⟩, fun hb => h' hb.1⟩
      · exact Or.inr ⟨⟨h, hs⟩, fun hb => h' hb.1⟩

/-- **the per-shard lemma**: for an expression without a Shift carry whose set-algebra value is `cs`,
the evaluation in shard `s` succeeds and returns exactly the columns of `cs` that lie in shard `s`,
in (at most) the segment of shard `s`. -/
theorem evalShard_spec (st : St) (hw : WF st) (s : Nat) :
    ∀ (e : Expr) (cs : List Nat), Spec.noCarry st e = true → Spec.eval st e = .ok cs →
      ∃ r, evalShard st e s = .ok r ∧ Local s r ∧ ∀ c, c ∈ Row.cols r ↔ c ∈ cs ∧ c / ShardWidth = s := by
  intro e
  induction e with
  | row f r =>
    intro cs _ hev
    simp only [Spec.eval] at hev
    cases hft : st.fieldType f with
    | none => rw [hft] at hev; cases hev
    | some t =>
      rw [hft] at hev
      simp only [Except.ok.injEq] at hev
      subst hev
      have := leaf_local st hw f viewStandard r s
      simp only at this
      cases hfr : st.hasFrag f viewStandard s with
      | true =>
        simp only [hfr, if_true] at this
        exact ⟨_, by simp [evalShard, hft, hfr], this.1, this.2⟩
      | false =>
        simp only [hfr, Bool.false_eq_true, if_false] at this
        exact ⟨_, by simp [evalShard, hft, hfr], this.1, this.2⟩
  | rowTime f r views =>
    intro cs _ hev
    simp only [Spec.eval] at hev
    cases hft : st.fieldType f with
    | none => rw [hft] at hev; cases hev
    | some t =>
      rw [hft] at hev
      simp only [evalShard, hft]
      simp only at hev ⊢
      by_cases htt : t = .time
      · subst htt
        simp only [ne_eq, not_true_eq_false, if_false, Except.ok.injEq] at hev ⊢
        subst hev
        have hloc : ∀ l ∈ (views.filter (fun v => st.hasFrag f v s)).map (fun v => ([⟨s, st.fragRow f v r s⟩] : Row)), Local s l := by
          intro l hl
          obtain ⟨v, _, rfl⟩ := mem_map.mp hl
          exact local_single s _ (fun c hc => fragRow_shard st f v r s c hc)
        obtain ⟨h1, h2⟩ := unionRows_local s _ hloc
        refine ⟨_, rfl, h1, ?_⟩
        intro c
        rw [h2, mem_foldl_views]
        simp only [not_mem_nil, false_or, mem_map, mem_filter]
        constructor
        · rintro ⟨l, ⟨v, ⟨hv, _⟩, rfl⟩, hc⟩
          simp only [Row.cols, flatMap_cons, flatMap_nil, append_nil] at hc
          have := (mem_fragRow st f v r s c).mp hc
          exact ⟨⟨v, hv, this.1⟩, this.2⟩
        · rintro ⟨⟨v, hv, hc⟩, hs⟩
          have hfrag : st.hasFrag f v s = true := by
            cases hq : st.hasFrag f v s with
            | true => rfl
            | false => exact absurd hs (no_frag_no_col st hw f v r s c hq hc)
          refine ⟨_, ⟨v, ⟨hv, hfrag⟩, rfl⟩, ?_⟩
          simp only [Row.cols, flatMap_cons, flatMap_nil, append_nil]
          exact (mem_fragRow st f v r s c).mpr ⟨hc, hs⟩
      · simp only [ne_eq, htt, not_false_eq_true, if_true, Except.ok.injEq] at hev ⊢
        subst hev
        exact ⟨[], rfl, local_nil s, by intro c; simp [Row.cols]⟩
  | rowCond f cnd =>
    intro cs _ hev
    simp only [Spec.eval] at hev
    cases hft : st.fieldType f with
    | none => rw [hft] at hev; cases hev
    | some t =>
      rw [hft] at hev
      simp only [evalShard, hft]
      simp only at hev ⊢
      by_cases htt : t = .int
      · subst htt
        simp only [ne_eq, not_true_eq_false, if_false, Except.ok.injEq] at hev ⊢
        subst hev
        have hmem : ∀ c, c ∈ ((st.vals.filter (fun e => e.1 = f ∧ e.2.1 / ShardWidth = s ∧ cnd.holds e.2.2)).map (·.2.1)).eraseDups ↔
            c ∈ Spec.condCols st f cnd ∧ c / ShardWidth = s := by
          intro c
          simp only [Spec.condCols, mem_eraseDups, mem_map, mem_filter, decide_eq_true_eq, Bool.and_eq_true]
          constructor
          · rintro ⟨e, ⟨he, h1, h2, h3⟩, rfl⟩; exact ⟨⟨e, ⟨he, h1, h3⟩, rfl⟩, h2⟩
          · rintro ⟨⟨e, ⟨he, h1, h3⟩, rfl⟩, h2⟩; exact ⟨e, ⟨he, h1, h2, h3⟩, rfl⟩
        split
        · refine ⟨_, rfl, local_single s _ (fun c hc => ((hmem c).mp hc).2), ?_⟩
          intro c; simp only [Row.cols, flatMap_cons, flatMap_nil, append_nil]; exact hmem c
        · next hfr =>
          refine ⟨[], rfl, local_nil s, ?_⟩
          intro c
          simp only [Row.cols, flatMap_nil, not_mem_nil, false_iff, not_and]
          intro hc hs
          simp only [Spec.condCols, mem_eraseDups, mem_map, mem_filter, decide_eq_true_eq, Bool.and_eq_true] at hc
          obtain ⟨e, ⟨he, h1, _⟩, rfl⟩ := hc
          have := hw.valFrag e he
          rw [h1, hs] at this
          apply hfr
          simp [St.hasFrag, this]
      · simp only [ne_eq, htt, not_false_eq_true, if_true] at hev
        cases hev
  | empty op =>
    intro cs _ hev
    cases op with
    | union =>
      simp only [Spec.eval, Except.ok.injEq] at hev; subst hev
      exact ⟨[], by simp [evalShard], local_nil s, by intro c; simp [Row.cols]⟩
    | xor =>
      simp only [Spec.eval, Except.ok.injEq] at hev; subst hev
      exact ⟨[], by simp [evalShard], local_nil s, by intro c; simp [Row.cols]⟩
    | inter => simp [Spec.eval] at hev
    | diff => simp [Spec.eval] at hev
  | bin op a b iha ihb =>
    intro cs hnc hev
    simp only [Spec.noCarry, Bool.and_eq_true] at hnc
    simp only [Spec.eval, bind, Except.bind] at hev
    cases ha : Spec.eval st a with
    | error x => rw [ha] at hev; cases hev
    | ok ca =>
      rw [ha] at hev
      cases hb : Spec.eval st b with
      | error x => rw [hb] at hev; cases hev
      | ok cb =>
        rw [hb] at hev
        simp only [pure, Except.pure, Except.ok.injEq] at hev
        subst hev
        obtain ⟨ra, hra, hla, hma⟩ := iha ca hnc.1 ha
        obtain ⟨rb, hrb, hlb, hmb⟩ := ihb cb hnc.2 hb
        refine ⟨applyOp op ra rb, ?_, ?_⟩
        · simp [evalShard, hra, hrb, bind, Except.bind, pure, Except.pure]
        · exact applyOp_local op s ra rb hla hlb ca cb hma hmb
  | not a iha =>
    intro cs hnc hev
    simp only [Spec.noCarry] at hnc
    simp only [Spec.eval] at hev
    cases hex : st.exist with
    | false => rw [hex] at hev; simp at hev
    | true =>
      rw [hex] at hev
      simp only [Bool.not_true, Bool.false_eq_true, if_false, bind, Except.bind] at hev
      cases ha : Spec.eval st a with
      | error x => rw [ha] at hev; cases hev
      | ok ca =>
        rw [ha] at hev
        simp only [pure, Except.pure, Except.ok.injEq] at hev
        subst hev
        obtain ⟨ra, hra, hla, hma⟩ := iha ca hnc ha
        have hleaf := leaf_local st hw existenceField viewStandard 0 s
        simp only at hleaf
        obtain ⟨hd1, hd2⟩ := diff_local s _ ra hleaf.1 hla
        refine ⟨_, ?_, hd1, ?_⟩
        · simp only [evalShard, hex, Bool.not_true, Bool.false_eq_true, if_false, hra, bind, Except.bind, pure, Except.pure]
        · intro c
          rw [hd2, hleaf.2, hma]
          simp only [Spec.existCols, mem_sDiff]
          constructor
          · rintro ⟨⟨h, hs⟩, h'⟩; exact ⟨⟨h, fun hb => h' ⟨hb, hs⟩⟩, hs⟩
          · rintro ⟨⟨h, h'⟩, hs⟩; exact ⟨⟨h, hs⟩, fun hb => h' hb.1⟩
  | notArity => intro cs _ hev; simp [Spec.eval] at hev
  | shiftArity => intro cs _ hev; simp [Spec.eval] at hev
  | shift n a iha =>
    intro cs hnc hev
    simp only [Spec.noCarry, Bool.and_eq_true] at hnc
    simp only [Spec.eval, bind, Except.bind] at hev
    cases ha : Spec.eval st a with
    | error x => rw [ha] at hev; cases hev
    | ok ca =>
      rw [ha] at hev hnc
      simp only at hev
      by_cases hneg : n < 0
      · simp [hneg] at hev
      · simp only [hneg, if_false, pure, Except.pure, Except.ok.injEq] at hev
        subst hev
        obtain ⟨ra, hra, hla, hma⟩ := iha ca hnc.1 ha
        have hall : ∀ c ∈ ca, c % ShardWidth + n.toNat < ShardWidth := by
          have := hnc.2
          simp only [all_eq_true, decide_eq_true_eq] at this
          exact this
        refine ⟨Row.shift n.toNat ra, ?_, ?_⟩
        · simp [evalShard, hra, hneg, bind, Except.bind, pure, Except.pure]
        · rcases hla with rfl | ⟨cols, rfl, hcols⟩
          · rw [shift_nil]
            refine ⟨local_nil s, ?_⟩
            intro c
            simp only [Row.cols, flatMap_nil, not_mem_nil, false_iff, not_and, mem_map]
            rintro ⟨c0, hc0, rfl⟩ hs
            have h0 := hall c0 hc0
            have : c0 / ShardWidth = s := by
              simp only [ShardWidth] at *; omega
            have := (hma c0).mpr ⟨hc0, this⟩
            simp [Row.cols] at this
          · have hcm : ∀ c, c ∈ cols ↔ c ∈ ca ∧ c / ShardWidth = s := by
              intro c; have := hma c; simpa [Row.cols] using this
            rw [shift_local s n.toNat cols (fun c hc => ⟨hcols c hc, hall c ((hcm c).mp hc).1⟩)]
            refine ⟨local_single s _ ?_, ?_⟩
            · intro c hc
              obtain ⟨c0, hc0, rfl⟩ := mem_map.mp hc
              have h0 := hall c0 ((hcm c0).mp hc0).1
              have h1 := hcols c0 hc0
              simp only [ShardWidth] at *; omega
            · intro c
              simp only [Row.cols, flatMap_cons, flatMap_nil, append_nil, mem_map]
              constructor
              · rintro ⟨c0, hc0, rfl⟩
                have h0 := hall c0 ((hcm c0).mp hc0).1
                have h1 := hcols c0 hc0
                refine ⟨⟨c0, ((hcm c0).mp hc0).1, rfl⟩, ?_⟩
                simp only [ShardWidth] at *; omega
              · rintro ⟨⟨c0, hc0, rfl⟩, hs⟩
                have h0 := hall c0 hc0
                have : c0 / ShardWidth = s := by simp only [ShardWidth] at *; omega
                exact ⟨c0, (hcm c0).mpr ⟨hc0, this⟩, rfl⟩

end PV.C15
