/-
pm_c15: model driver for C15.  A case is a history over one index; lines:

  schema <0|1> <name:type,...|->      type = set | time | int ; 1 = TrackExistence     out: ok
  set <f> <row> <col>                 Set(col, f=row)                                   out: true|false (changed)
  sett <f> <row> <col> <ts> <v1+v2+..> Set(col, f=row, ts); the views the timestamp maps to are
                                      supplied by the harness from viewsByTime (C18 owns that mapping)   out: true|false
  setv <f> <col> <int>                Set(col, f=int) on an int field                   out: ok
  import <f> <row:col,row:col,..>     API.Import of bits                                out: ok
  clear <f> <row> <col>               Clear(col, f=row)                                 out: true|false
  clearrow <f> <row>                  ClearRow(f=row)                                   out: ok
  store <f> <row> <expr>              Store(expr, f=row)                                out: true
  q <expr>                            bitmap query                                      out: [c1 c2 ..] as returned
  count <expr>                        Count(expr)                                       out: n
  rowop <union|inter|diff|xor|merge> <colsA> <colsB>   exported Row API on NewRow(cols..) out: [cols] n=<count>
  rowshift <n> <cols>                 NewRow(cols..).Shift(n)                           out: [cols] n=<count>

expr: R(f,row) | T(f,row,from,to,v1+v2+..|-) (views = viewsByTimeRange(from,to), supplied by the harness) | C(f,lt|le|gt|ge|eq|ne,x) | C(f,bt,a,b) | C(f,nn) |
      U(e,..) | I(e,..) | D(e,..) | X(e,..) | N(e,..) | S(n,e,..)       (no blanks)
Errors print as err:<kind>.  `#spec` is Spec.eval on the logical sets; `#tag shift-shard-edge` marks
lines whose expression has a Shift carrying a column over a shard edge (or whose data was written by a
Store of such an expression).
-/
import PV.Common.Proto
import PV.C15.Model
import PV.C15.Spec
open PV.Proto PV.C15

inductive Arg
  | atom (s : String)
  | expr (e : Expr)

structure PState where
  stack : List (String × List Arg) := []
  cur : String := ""
  top : List Arg := []
  bad : Bool := false

def flushAtom (p : PState) : PState :=
  if p.cur = "" then p else
  match p.stack with
  | [] => { p with top := p.top ++ [Arg.atom p.cur], cur := "" }
  | (h, as) :: rest => { p with stack := (h, as ++ [Arg.atom p.cur]) :: rest, cur := "" }

def exprsOf (as : List Arg) : Option (List Expr) :=
  as.mapM (fun a => match a with | .expr e => some e | .atom _ => none)

def foldOp (op : Op) (es : List Expr) : Expr :=
  match es with
  | [] => .empty op
  | e :: rest => rest.foldl (fun acc x => .bin op acc x) e

def parseCond (op : String) (xs : List String) : Option Cond :=
  match op, xs.mapM String.toInt? with
  | "lt", some [x] => some (.lt x)
  | "le", some [x] => some (.le x)
  | "gt", some [x] => some (.gt x)
  | "ge", some [x] => some (.ge x)
  | "eq", some [x] => some (.eq x)
  | "ne", some [x] => some (.ne x)
  | "bt", some [a, b] => some (.between a b)
  | "nn", some [] => some .notNull
  | _, _ => none

def build (h : String) (as : List Arg) : Option Expr :=
  match h, as with
  | "R", [.atom f, .atom r] => do pure (.row f (← r.toNat?))
  | "T", [.atom f, .atom r, .atom _from, .atom _to, .atom vs] => do
      pure (.rowTime f (← r.toNat?) (if vs = "-" then [] else vs.splitOn "+"))
  | "C", .atom f :: .atom op :: rest => do
      let xs ← rest.mapM (fun a => match a with | .atom s => some s | _ => none)
      pure (.rowCond f (← parseCond op xs))
  | "U", as => do pure (foldOp .union (← exprsOf as))
  | "I", as => do pure (foldOp .inter (← exprsOf as))
  | "D", as => do pure (foldOp .diff (← exprsOf as))
  | "X", as => do pure (foldOp .xor (← exprsOf as))
  | "N", as => do
      match ← exprsOf as with
      | [e] => pure (.not e)
      | _ => pure .notArity
  | "S", .atom n :: rest => do
      let n ← n.toInt?
      match ← exprsOf rest with
      | [e] => pure (.shift n e)
      | _ => pure .shiftArity
  | _, _ => none

def pstep (p : PState) (c : Char) : PState :=
  if p.bad then p else
  if c = '(' then { p with stack := (p.cur, []) :: p.stack, cur := "" }
  else if c = ',' then flushAtom p
  else if c = ')' then
    let p := flushAtom p
    match p.stack with
    | [] => { p with bad := true }
    | (h, as) :: rest =>
      match build h as with
      | none => { p with bad := true }
      | some e =>
        match rest with
        | [] => { p with stack := [], top := p.top ++ [Arg.expr e] }
        | (h2, as2) :: rest2 => { p with stack := (h2, as2 ++ [Arg.expr e]) :: rest2 }
  else { p with cur := p.cur.push c }

def parseExpr (s : String) : Option Expr :=
  let p := s.toList.foldl pstep {}
  if p.bad || p.cur ≠ "" || !p.stack.isEmpty then none else
  match p.top with
  | [.expr e] => some e
  | _ => none

structure DS where
  m : St := {}
  s : St := {}
  tainted : Bool := false

def showCols (l : List Nat) : String := showNats l

def parseFields (s : String) : Option (List (String × FieldType)) :=
  if s = "-" then some [] else
  (s.splitOn ",").mapM (fun e =>
    match e.splitOn ":" with
    | [n, "set"] => some (n, FieldType.set)
    | [n, "time"] => some (n, FieldType.time)
    | [n, "int"] => some (n, FieldType.int)
    | _ => none)

def parseBits (s : String) : Option (List (Nat × Nat)) :=
  if s = "-" then some [] else
  (s.splitOn ",").mapM (fun e =>
    match e.splitOn ":" with
    | [r, c] => do pure (← r.toNat?, ← c.toNat?)
    | _ => none)

def newRow (cols : List Nat) : Row := cols.foldl (fun acc c => Row.setBit c acc) []

def tagOf (d : DS) (e : Expr) : String :=
  if d.tainted || !Spec.noCarry d.s e then "shift-shard-edge" else "eval"

def both (d : DS) (f : St → Except Err (St × String)) : DS × Ans :=
  -- once a Store of a carrying Shift made the stored sets differ, later `changed` results may differ too
  let tag := if d.tainted then "shift-shard-edge" else "write"
  match f d.m, f d.s with
  | .ok (m', om), .ok (s', os) => ({ d with m := m', s := s' }, ans2 om os tag)
  | .error e, .ok (s', os) => ({ d with s := s' }, ans2 e.text os tag)
  | .ok (m', om), .error e => ({ d with m := m' }, ans2 om e.text tag)
  | .error e1, .error e2 => (d, ans2 e1.text e2.text tag)

def step (d : DS) (ws : List String) : DS × Ans :=
  let bad := (d, ans "bad-op")
  match ws with
  | ["schema", ex, fs] =>
    match parseFields fs with
    | some fields =>
      let st : St := { exist := ex = "1", fields := fields }
      ({ m := st, s := st, tainted := false }, ans "ok")
    | none => bad
  | ["set", f, r, c] =>
    match r.toNat?, c.toNat? with
    | some r, some c => both d (fun st => (st.set f r c []).map (fun (s, ch) => (s, showBool ch)))
    | _, _ => bad
  | ["sett", f, r, c, _ts, vs] =>
    match r.toNat?, c.toNat? with
    | some r, some c =>
      let views := if vs = "-" then [] else vs.splitOn "+"
      both d (fun st => (st.set f r c views).map (fun (s, ch) => (s, showBool ch)))
    | _, _ => bad
  | ["setv", f, c, v] =>
    match c.toNat?, v.toInt? with
    | some c, some v => both d (fun st => (st.setValue f c v).map (fun s => (s, "ok")))
    | _, _ => bad
  | ["import", f, bs] =>
    match parseBits bs with
    | some bits =>
      both d (fun st =>
        let res : Except Err St := bits.foldl (fun (acc : Except Err St) rc =>
          acc.bind (fun s => (s.set f rc.1 rc.2 []).map (·.1))) (Except.ok st)
        res.map (fun s => (s, "ok")))
    | none => bad
  | ["clear", f, r, c] =>
    match r.toNat?, c.toNat? with
    | some r, some c => both d (fun st => (st.clear f r c).map (fun (s, ch) => (s, showBool ch)))
    | _, _ => bad
  | ["clearrow", f, r] =>
    match r.toNat? with
    | some r =>
      -- every shard holding data is queried; for the spec the row simply disappears
      let allShards := fun (st : St) => (st.bits.map (fun b => b.col / ShardWidth)).eraseDups
      match d.m.clearRow f r d.m.availableShards, d.s.clearRow f r (allShards d.s) with
      | .ok m', .ok s' => ({ d with m := m', s := s' }, ans "ok")
      | .error e, .ok s' => ({ d with s := s' }, ans2 e.text "ok" "write")
      | .ok m', .error e => ({ d with m := m' }, ans2 "ok" e.text "write")
      | .error e1, .error e2 => (d, ans2 e1.text e2.text "write")
    | none => bad
  | ["store", f, r, es] =>
    match r.toNat?, parseExpr es with
    | some r, some e =>
      let tag := tagOf d e
      let d1 := if tag = "shift-shard-edge" then { d with tainted := true } else d
      match d.m.store f r e d.m.availableShards, Spec.store d.s f r e with
      | .ok m', .ok s' => ({ d1 with m := m', s := s' }, ans "true")
      | .error e1, .ok s' => ({ d1 with s := s' }, ans2 e1.text "true" tag)
      | .ok m', .error e2 => ({ d1 with m := m' }, ans2 "true" e2.text tag)
      | .error e1, .error e2 => (d, ans2 e1.text e2.text tag)
    | _, _ => bad
  | ["q", es] =>
    match parseExpr es with
    | some e =>
      let m := match execute d.m e d.m.availableShards with
        | .ok row => showCols row.columns
        | .error x => x.text
      let s := match Spec.eval d.s e with
        | .ok cs => showCols (Row.sortAsc cs)
        | .error x => x.text
      (d, ans2 m s (tagOf d e))
    | none => bad
  | ["count", es] =>
    match parseExpr es with
    | some e =>
      let m := match executeCount d.m e d.m.availableShards with
        | .ok n => toString n
        | .error x => x.text
      let s := match Spec.eval d.s e with
        | .ok cs => toString cs.length
        | .error x => x.text
      (d, ans2 m s (tagOf d e))
    | none => bad
  | ["rowop", op, a, b] =>
    match csvNats? a, csvNats? b with
    | some a, some b =>
      let ra := newRow a
      let rb := newRow b
      let da := a.eraseDups
      let db := b.eraseDups
      let res : Option (Row × List Nat) := match op with
        | "union" => some (ra.union rb, sUnion da db)
        | "inter" => some (ra.inter rb, sInter da db)
        | "diff" => some (ra.diff rb, sDiff da db)
        | "xor" => some (ra.xor rb, sXor da db)
        | "merge" => some (ra.merge rb, sUnion da db)
        | _ => none
      match res with
      | some (row, sp) =>
        (d, ans2 s!"{showCols row.columns} n={row.count}" s!"{showCols (Row.sortAsc sp)} n={sp.length}" "rowop")
      | none => bad
    | _, _ => bad
  | ["rowshift", n, a] =>
    match n.toNat?, csvNats? a with
    | some n, some a =>
      let row := Row.shift n (newRow a)
      let sp := (a.eraseDups).map (· + n)
      (d, ans2 s!"{showCols row.columns} n={row.count}" s!"{showCols (Row.sortAsc sp)} n={sp.length}" "rowshift")
    | _, _ => bad
  | _ => bad

def main : IO Unit := run ({} : DS) step
