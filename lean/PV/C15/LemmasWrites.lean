/-
C15 helper lemmas, part 4 (core Lean only): the reduce over shards, errors, and the write paths on
the logical column sets.
-/
import PV.C15.LemmasEval
namespace PV.C15
open List

/-! ### reduce over shards -/

theorem execute_fold (st : St) (hw : WF st) (e : Expr) (cs : List Nat) (hnc : Spec.noCarry st e = true)
    (hev : Spec.eval st e = .ok cs) (shards : List Nat) (acc : Row) :
    ∃ row, shards.foldl (fun acc s => do
        let r ← acc
        let v ← evalShard st e s
        pure (r.merge v)) (Except.ok acc) = .ok row ∧
      ∀ c, c ∈ Row.cols row ↔ c ∈ Row.cols acc ∨ (c ∈ cs ∧ c / ShardWidth ∈ shards) := by
  induction shards generalizing acc with
  | nil => exact ⟨acc, rfl, by intro c; simp⟩
  | cons s rest ih =>
    obtain ⟨r, hr, _, hm⟩ := evalShard_spec st hw s e cs hnc hev
    simp only [foldl_cons, hr, bind, Except.bind, pure, Except.pure]
    obtain ⟨row, hrow, hmem⟩ := ih (acc.merge r)
    refine ⟨row, hrow, ?_⟩
    intro c
    rw [hmem, mem_cols_merge, hm]
    simp only [mem_cons]
    constructor
    · rintro ((h | ⟨h, hs⟩) | ⟨h, hs⟩)
      · exact Or.inl h
      · exact Or.inr ⟨h, Or.inl hs⟩
      · exact Or.inr ⟨h, Or.inr hs⟩
    · rintro (h | ⟨h, (hs | hs)⟩)
      · exact Or.inl (Or.inl h)
      · exact Or.inl (Or.inr ⟨h, hs⟩)
      · exact Or.inr ⟨h, hs⟩

theorem mem_insertAsc (x y : Nat) (l : List Nat) : y ∈ Row.insertAsc x l ↔ y = x ∨ y ∈ l := by
  induction l with
  | nil => simp [Row.insertAsc]
  | cons a t ih =>
    simp only [Row.insertAsc]
    split
    · simp
    · simp only [mem_cons, ih]
      constructor
      · rintro (h | h | h) <;> simp [h]
      · rintro (h | h | h) <;> simp [h]

theorem mem_sortAsc (l : List Nat) (y : Nat) : y ∈ Row.sortAsc l ↔ y ∈ l := by
  unfold Row.sortAsc
  suffices H : ∀ acc, y ∈ l.foldl (fun acc x => Row.insertAsc x acc) acc ↔ y ∈ acc ∨ y ∈ l by simpa using H []
  induction l with
  | nil => intro acc; simp
  | cons a t ih =>
    intro acc
    simp only [foldl_cons, ih, mem_insertAsc, mem_cons]
    constructor
    · rintro ((h | h) | h) <;> simp [h]
    · rintro (h | h | h) <;> simp [h]

theorem mem_columns (r : Row) (c : Nat) : c ∈ Row.columns r ↔ c ∈ Row.cols r := by
  simp [Row.columns, Row.cols, mem_flatMap, mem_sortAsc]

/-! ### errors are decided by the expression and the schema alone -/

theorem evalShard_ok_of_spec (st : St) (s : Nat) :
    ∀ e : Expr, (∀ x, Spec.eval st e = .error x → evalShard st e s = .error x) ∧
                (∀ cs, Spec.eval st e = .ok cs → ∃ r, evalShard st e s = .ok r) := by
  intro e
  induction e with
  | row f r =>
    simp only [Spec.eval, evalShard]
    cases st.fieldType f with
    | none => simp
    | some t => constructor <;> intros <;> simp_all <;> split <;> simp
  | rowTime f r views =>
    simp only [Spec.eval, evalShard]
    cases st.fieldType f with
    | none => simp
    | some t => by_cases h : t = .time <;> simp [h]
  | rowCond f c =>
    simp only [Spec.eval, evalShard]
    cases st.fieldType f with
    | none => simp
    | some t =>
      by_cases h : t = .int
      · simp only [h, ne_eq, not_true_eq_false, if_false]
        constructor
        · intro x hx; cases hx
        · intro cs _; split <;> simp
      · simp [h]
  | empty op => cases op <;> simp [Spec.eval, evalShard]
  | bin op a b iha ihb =>
    simp only [Spec.eval, evalShard, bind, Except.bind]
    cases ha : Spec.eval st a with
    | error x => simp [iha.1 x ha]
    | ok ca =>
      obtain ⟨ra, hra⟩ := iha.2 ca ha
      rw [hra]
      cases hb : Spec.eval st b with
      | error x => simp [ihb.1 x hb]
      | ok cb =>
        obtain ⟨rb, hrb⟩ := ihb.2 cb hb
        simp [hrb, pure, Except.pure]
  | not a iha =>
    simp only [Spec.eval, evalShard]
    cases st.exist with
    | false => simp
    | true =>
      simp only [Bool.not_true, Bool.false_eq_true, if_false, bind, Except.bind]
      cases ha : Spec.eval st a with
      | error x => simp [iha.1 x ha]
      | ok ca =>
        obtain ⟨ra, hra⟩ := iha.2 ca ha
        simp [hra, pure, Except.pure]
  | notArity => simp [Spec.eval, evalShard]
  | shiftArity => simp [Spec.eval, evalShard]
  | shift n a iha =>
    simp only [Spec.eval, evalShard, bind, Except.bind]
    cases ha : Spec.eval st a with
    | error x => simp [iha.1 x ha]
    | ok ca =>
      obtain ⟨ra, hra⟩ := iha.2 ca ha
      rw [hra]
      by_cases hn : n < 0 <;> simp [hn, pure, Except.pure]

/-! ### writes on the logical sets -/

theorem mem_fieldCols (st : St) (f v : String) (r x : Nat) :
    x ∈ Spec.fieldCols st f v r ↔ (⟨f, v, r, x⟩ : Bit) ∈ st.bits := by
  simp only [Spec.fieldCols, mem_eraseDups, mem_map, mem_filter, decide_eq_true_eq]
  constructor
  · rintro ⟨b, ⟨hb, h1, h2, h3⟩, rfl⟩
    cases b; simp only at h1 h2 h3; subst h1; subst h2; subst h3; exact hb
  · intro h; exact ⟨_, ⟨h, rfl, rfl, rfl⟩, rfl⟩

theorem addFrag_bits (st : St) (f v : String) (s : Nat) : (st.addFrag f v s).bits = st.bits := by
  unfold St.addFrag; split <;> rfl

theorem addFrag_vals (st : St) (f v : String) (s : Nat) : (st.addFrag f v s).vals = st.vals := by
  unfold St.addFrag; split <;> rfl

theorem addFrag_frags (st : St) (f v : String) (s : Nat) (x : String × String × Nat) :
    x ∈ (st.addFrag f v s).frags ↔ x ∈ st.frags ∨ x = (f, v, s) := by
  unfold St.addFrag St.hasFrag
  split
  · next h =>
    have : (f, v, s) ∈ st.frags := by simpa using h
    constructor
    · exact Or.inl
    · rintro (h | rfl)
      · exact h
      · exact this
  · simp

theorem addFrag_wf (st : St) (hw : WF st) (f v : String) (s : Nat) : WF (st.addFrag f v s) where
  bitFrag := by
    intro b hb; rw [addFrag_bits] at hb
    exact (addFrag_frags st f v s _).mpr (Or.inl (hw.bitFrag b hb))
  valFrag := by
    intro e he; rw [addFrag_vals] at he
    exact (addFrag_frags st f v s _).mpr (Or.inl (hw.valFrag e he))

theorem addBit_mem (st : St) (b x : Bit) : x ∈ (st.addBit b).bits ↔ x ∈ st.bits ∨ x = b := by
  unfold St.addBit St.hasBit
  simp only [addFrag_bits]
  split
  · next h =>
    have hb : b ∈ st.bits := by simpa [addFrag_bits] using h
    rw [addFrag_bits]
    constructor
    · exact Or.inl
    · rintro (h | rfl)
      · exact h
      · exact hb
  · simp [addFrag_bits]

theorem addBit_vals (st : St) (b : Bit) : (st.addBit b).vals = st.vals := by
  unfold St.addBit; simp only; split <;> simp [addFrag_vals]

theorem addBit_exist (st : St) (b : Bit) : (st.addBit b).exist = st.exist := by
  unfold St.addBit St.addFrag; simp only; split <;> split <;> rfl

theorem addBit_wf (st : St) (hw : WF st) (b : Bit) : WF (st.addBit b) := by
  have hwf := addFrag_wf st hw b.field b.view (b.col / ShardWidth)
  unfold St.addBit
  simp only
  split
  · exact hwf
  · constructor
    · intro x hx
      simp only [mem_append, mem_singleton] at hx
      rcases hx with hx | rfl
      · exact hwf.bitFrag x hx
      · exact (addFrag_frags st _ _ _ _).mpr (Or.inr rfl)
    · exact hwf.valFrag

theorem foldl_addBit_mem (st : St) (f : String) (r c : Nat) (views : List String) (x : Bit) :
    x ∈ (views.foldl (fun s v => s.addBit ⟨f, v, r, c⟩) st).bits ↔
      x ∈ st.bits ∨ ∃ v ∈ views, x = ⟨f, v, r, c⟩ := by
  induction views generalizing st with
  | nil => simp
  | cons v vs ih =>
    simp only [foldl_cons, ih, addBit_mem, mem_cons]
    constructor
    · rintro ((h | h) | ⟨w, hw, h⟩)
      · exact Or.inl h
      · exact Or.inr ⟨v, Or.inl rfl, h⟩
      · exact Or.inr ⟨w, Or.inr hw, h⟩
    · rintro (h | ⟨w, (rfl | hw), h⟩)
      · exact Or.inl (Or.inl h)
      · exact Or.inl (Or.inr h)
      · exact Or.inr ⟨w, hw, h⟩

theorem foldl_addBit_vals (st : St) (f : String) (r c : Nat) (views : List String) :
    (views.foldl (fun s v => s.addBit ⟨f, v, r, c⟩) st).vals = st.vals := by
  induction views generalizing st with
  | nil => rfl
  | cons v vs ih => simp only [foldl_cons]; rw [ih, addBit_vals]

theorem foldl_addBit_wf (st : St) (hw : WF st) (f : String) (r c : Nat) (views : List String) :
    WF (views.foldl (fun s v => s.addBit ⟨f, v, r, c⟩) st) := by
  induction views generalizing st with
  | nil => exact hw
  | cons v vs ih => exact ih _ (addBit_wf st hw _)

end PV.C15

namespace PV.C15
open List

theorem segmentOf_local (s : Nat) (r : Row) (h : Local s r) (c : Nat) :
    c ∈ St.segmentOf r s ↔ c ∈ Row.cols r := by
  rcases h with rfl | ⟨cs, rfl, _⟩
  · simp [St.segmentOf, Row.cols]
  · simp [St.segmentOf, Row.cols]

/-- the bits of row `r` of field `f` in the standard view -/
def Target (f : String) (r : Nat) (b : Bit) : Prop := b.field = f ∧ b.view = viewStandard ∧ b.row = r
instance (f : String) (r : Nat) (b : Bit) : Decidable (Target f r b) := by unfold Target; exact inferInstance

/-- one shard step of Store -/
def storeStep (st : St) (f : String) (r : Nat) (e : Expr) (acc : Except Err St) (s : Nat) : Except Err St := do
  let cur ← acc
  let src ← evalShard st e s
  let cur := cur.addFrag f viewStandard s
  let kept := cur.bits.filter (fun b => !(b.field = f ∧ b.view = viewStandard ∧ b.row = r ∧ b.col / ShardWidth = s))
  let added := ((St.segmentOf src s).filter (fun c => c / ShardWidth = s)).map (fun c => (⟨f, viewStandard, r, c⟩ : Bit))
  pure { cur with bits := kept ++ added }

theorem store_eq (st : St) (f : String) (r : Nat) (e : Expr) (shards : List Nat) (t : FieldType)
    (hft : st.fieldType f = some t) (ht : t = .set) :
    st.store f r e shards = shards.foldl (storeStep st f r e) (.ok st) := by
  unfold St.store storeStep
  simp [hft, ht]

theorem store_fold (st : St) (hw : WF st) (f : String) (r : Nat) (e : Expr) (cs : List Nat)
    (hnc : Spec.noCarry st e = true) (hev : Spec.eval st e = .ok cs) (shards done : List Nat) (cur : St)
    (hwc : WF cur) (hvals : cur.vals = st.vals) (hex : cur.exist = st.exist)
    (hinv : ∀ b, b ∈ cur.bits ↔ (if Target f r b ∧ b.col / ShardWidth ∈ done then b.col ∈ cs else b ∈ st.bits)) :
    ∃ st', shards.foldl (storeStep st f r e) (.ok cur) = .ok st' ∧ WF st' ∧ st'.vals = st.vals ∧ st'.exist = st.exist ∧
      ∀ b, b ∈ st'.bits ↔
        (if Target f r b ∧ (b.col / ShardWidth ∈ done ∨ b.col / ShardWidth ∈ shards) then b.col ∈ cs else b ∈ st.bits) := by
  induction shards generalizing cur done with
  | nil => exact ⟨cur, rfl, hwc, hvals, hex, by intro b; simpa using hinv b⟩
  | cons s rest ih =>
    obtain ⟨src, hsrc, hloc, hm⟩ := evalShard_spec st hw s e cs hnc hev
    simp only [foldl_cons]
    have hstep : storeStep st f r e (.ok cur) s = .ok
        { cur.addFrag f viewStandard s with
          bits := (cur.addFrag f viewStandard s).bits.filter (fun b => !(b.field = f ∧ b.view = viewStandard ∧ b.row = r ∧ b.col / ShardWidth = s)) ++
            ((St.segmentOf src s).filter (fun c => c / ShardWidth = s)).map (fun c => (⟨f, viewStandard, r, c⟩ : Bit)) } := by
      simp [storeStep, hsrc, bind, Except.bind, pure, Except.pure]
    rw [hstep]
    have hbits : ∀ b, b ∈ ((cur.addFrag f viewStandard s).bits.filter (fun b => !(b.field = f ∧ b.view = viewStandard ∧ b.row = r ∧ b.col / ShardWidth = s)) ++
            ((St.segmentOf src s).filter (fun c => c / ShardWidth = s)).map (fun c => (⟨f, viewStandard, r, c⟩ : Bit))) ↔
        (if Target f r b ∧ b.col / ShardWidth ∈ s :: done then b.col ∈ cs else b ∈ st.bits) := by
      intro b
      simp only [mem_append, mem_filter, addFrag_bits, mem_map, Bool.not_eq_true', decide_eq_false_iff_not,
        decide_eq_true_eq, segmentOf_local s src hloc, hm, hinv b, mem_cons]
      by_cases ht : Target f r b
      · by_cases hs : b.col / ShardWidth = s
        · have ht' := ht
          obtain ⟨t1, t2, t3⟩ := ht'
          simp only [ht, hs, true_and, true_or, if_true, t1, t2, t3, and_self, not_true_eq_false, and_false, false_or]
          constructor
          · rintro ⟨c, ⟨⟨hc, _⟩, _⟩, rfl⟩; exact hc
          · intro hc
            refine ⟨b.col, ⟨⟨hc, hs⟩, hs⟩, ?_⟩
            cases b; simp only at t1 t2 t3; subst t1; subst t2; subst t3; rfl
        · obtain ⟨t1, t2, t3⟩ := ht
          have ht : Target f r b := ⟨t1, t2, t3⟩
          simp only [ht, true_and, hs, false_or, t1, t2, t3, and_false, not_false_eq_true, and_true]
          constructor
          · rintro (h | ⟨c, ⟨⟨_, hcs⟩, _⟩, rfl⟩)
            · exact h
            · exact absurd hcs hs
          · intro h; exact Or.inl h
      · have hnt : ¬ (b.field = f ∧ b.view = viewStandard ∧ b.row = r ∧ b.col / ShardWidth = s) :=
          fun h => ht ⟨h.1, h.2.1, h.2.2.1⟩
        simp only [ht, false_and, if_false, hnt, not_false_eq_true, and_true]
        constructor
        · rintro (h | ⟨c, _, rfl⟩)
          · exact h
          · exact absurd ⟨rfl, rfl, rfl⟩ ht
        · intro h; exact Or.inl h
    have hwf' : WF { cur.addFrag f viewStandard s with
          bits := (cur.addFrag f viewStandard s).bits.filter (fun b => !(b.field = f ∧ b.view = viewStandard ∧ b.row = r ∧ b.col / ShardWidth = s)) ++
            ((St.segmentOf src s).filter (fun c => c / ShardWidth = s)).map (fun c => (⟨f, viewStandard, r, c⟩ : Bit)) } := by
      have hwa := addFrag_wf cur hwc f viewStandard s
      constructor
      · intro b hb
        simp only [mem_append, mem_filter, mem_map, decide_eq_true_eq] at hb
        rcases hb with ⟨hb, _⟩ | ⟨c, ⟨_, hcs⟩, rfl⟩
        · exact hwa.bitFrag b hb
        · simp only [hcs]
          exact (addFrag_frags cur _ _ _ _).mpr (Or.inr rfl)
      · exact hwa.valFrag
    obtain ⟨st', h1, h2, h3, h4, h5⟩ := ih (s :: done) _ hwf' (by simp [addFrag_vals, hvals])
      (by simp only [St.addFrag]; split <;> simp [hex]) hbits
    refine ⟨st', h1, h2, h3, h4, ?_⟩
    intro b
    rw [h5 b]
    simp only [mem_cons]
    have : (b.col / ShardWidth = s ∨ b.col / ShardWidth ∈ done) ∨ b.col / ShardWidth ∈ rest ↔
        b.col / ShardWidth ∈ done ∨ b.col / ShardWidth = s ∨ b.col / ShardWidth ∈ rest := by
      constructor
      · rintro ((h | h) | h) <;> simp [h]
      · rintro (h | h | h) <;> simp [h]
    simp only [this]

end PV.C15
