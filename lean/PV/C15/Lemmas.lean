/-
C15 helper lemmas, part 1 (core Lean only): column-set operations, the Merge reduce, and the Row
operations on the shapes a shard evaluation produces.
-/
import PV.C15.Model
import PV.C15.Spec
namespace PV.C15
open List

/-! ### column sets -/

@[simp] theorem mem_sAdd (c x : Nat) (l : List Nat) : x ∈ sAdd c l ↔ x = c ∨ x ∈ l := by
  unfold sAdd
  split
  · next h =>
    have : c ∈ l := by simpa using h
    constructor
    · intro hx; exact Or.inr hx
    · rintro (rfl | hx)
      · exact this
      · exact hx
  · simp [or_comm]

@[simp] theorem mem_sUnion (a b : List Nat) (x : Nat) : x ∈ sUnion a b ↔ x ∈ a ∨ x ∈ b := by
  unfold sUnion
  simp only [mem_append, mem_filter, Bool.not_eq_true', contains_eq_mem, decide_eq_false_iff_not]
  constructor
  · rintro (h | ⟨h, _⟩)
    · exact Or.inl h
    · exact Or.inr h
  · rintro (h | h)
    · exact Or.inl h
    · by_cases ha : x ∈ a
      · exact Or.inl ha
      · exact Or.inr ⟨h, ha⟩

@[simp] theorem mem_sInter (a b : List Nat) (x : Nat) : x ∈ sInter a b ↔ x ∈ a ∧ x ∈ b := by
  simp [sInter]

@[simp] theorem mem_sDiff (a b : List Nat) (x : Nat) : x ∈ sDiff a b ↔ x ∈ a ∧ x ∉ b := by
  simp [sDiff]

@[simp] theorem mem_sXor (a b : List Nat) (x : Nat) : x ∈ sXor a b ↔ (x ∈ a ∧ x ∉ b) ∨ (x ∈ b ∧ x ∉ a) := by
  simp [sXor]

theorem mem_setOp (op : Op) (a b : List Nat) (x : Nat) :
    x ∈ Spec.setOp op a b ↔
      match op with
      | .union => x ∈ a ∨ x ∈ b
      | .inter => x ∈ a ∧ x ∈ b
      | .diff => x ∈ a ∧ x ∉ b
      | .xor => (x ∈ a ∧ x ∉ b) ∨ (x ∈ b ∧ x ∉ a) := by
  cases op <;> simp [Spec.setOp]

/-! ### Merge keeps every column of both rows (any rows, any order) -/

theorem mem_cols (r : Row) (c : Nat) : c ∈ Row.cols r ↔ ∃ sg ∈ r, c ∈ sg.cols := by
  simp [Row.cols, mem_flatMap]

def mergeF : Option Seg × Option Seg → Option Seg
  | (none, some s1) => some s1
  | (some s0, none) => some s0
  | (some s0, some s1) => some ⟨s0.shard, sUnion s0.cols s1.cols⟩
  | (none, none) => none

theorem merge_eq (r o : Row) : Row.merge r o = (zipRows r o).filterMap mergeF := by
  unfold Row.merge mergeF; rfl

theorem mem_cols_zip_merge (f : Nat) (a b : Row) (hf : a.length + b.length ≤ f) (c : Nat) :
    c ∈ Row.cols ((zipSegs f a b).filterMap mergeF) ↔ c ∈ Row.cols a ∨ c ∈ Row.cols b := by
  induction f generalizing a b with
  | zero =>
    have ha : a = [] := by cases a with | nil => rfl | cons _ _ => simp at hf
    have hb : b = [] := by cases b with | nil => rfl | cons _ _ => simp at hf
    subst ha; subst hb; simp [zipSegs, Row.cols]
  | succ f ih =>
    cases a with
    | nil =>
      cases b with
      | nil => simp [zipSegs, Row.cols]
      | cons y ys =>
        have := ih [] ys (by simp at hf ⊢; omega)
        simp only [zipSegs, filterMap_cons, mergeF]
        simp only [Row.cols, flatMap_cons, mem_append, flatMap_nil] at this ⊢
        rw [this]; simp
    | cons x xs =>
      cases b with
      | nil =>
        have := ih xs [] (by simp at hf ⊢; omega)
        simp only [zipSegs, filterMap_cons, mergeF]
        simp only [Row.cols, flatMap_cons, mem_append, flatMap_nil] at this ⊢
        rw [this]; simp
      | cons y ys =>
        simp only [zipSegs]
        split
        · have := ih xs (y :: ys) (by simp at hf ⊢; omega)
          simp only [filterMap_cons, mergeF]
          simp only [Row.cols, flatMap_cons, mem_append] at this ⊢
          rw [this]; simp [or_assoc]
        · split
          · have := ih (x :: xs) ys (by simp at hf ⊢; omega)
            simp only [filterMap_cons, mergeF]
            simp only [Row.cols, flatMap_cons, mem_append] at this ⊢
            rw [this]
            constructor
            · rintro (h | (h | h) | h) <;> simp [h]
            · rintro ((h | h) | (h | h)) <;> simp [h]
          · have := ih xs ys (by simp at hf ⊢; omega)
            simp only [filterMap_cons, mergeF]
            simp only [Row.cols, flatMap_cons, mem_append, mem_sUnion] at this ⊢
            rw [this]
            constructor
            · rintro ((h | h) | (h | h)) <;> simp [h]
            · rintro ((h | h) | (h | h)) <;> simp [h]

theorem mem_cols_merge (a b : Row) (c : Nat) :
    c ∈ Row.cols (Row.merge a b) ↔ c ∈ Row.cols a ∨ c ∈ Row.cols b := by
  rw [merge_eq]; exact mem_cols_zip_merge _ a b (Nat.le_refl _) c

/-! ### shapes of a shard evaluation: no segment, or one segment of that shard -/

/-- the value of a bitmap call evaluated in shard `s` when no Shift carried: at most the segment of
shard `s`, holding only columns of shard `s`. -/
def Local (s : Nat) (r : Row) : Prop :=
  r = [] ∨ ∃ cs, r = [⟨s, cs⟩] ∧ ∀ c ∈ cs, c / ShardWidth = s

theorem local_nil (s : Nat) : Local s [] := Or.inl rfl

theorem local_single (s : Nat) (cs : List Nat) (h : ∀ c ∈ cs, c / ShardWidth = s) : Local s [⟨s, cs⟩] :=
  Or.inr ⟨cs, rfl, h⟩

theorem local_mem_shard (s : Nat) (r : Row) (h : Local s r) (c : Nat) (hc : c ∈ Row.cols r) : c / ShardWidth = s := by
  rcases h with rfl | ⟨cs, rfl, hcs⟩
  · simp [Row.cols] at hc
  · simp [Row.cols] at hc; exact hcs c hc

theorem zip_single (x y : Seg) (h : x.shard = y.shard) : zipRows [x] [y] = [(some x, some y)] := by
  simp [zipRows, zipSegs, h]

theorem zip_left (x : Seg) : zipRows [x] [] = [(some x, none)] := by simp [zipRows, zipSegs]
theorem zip_right (y : Seg) : zipRows [] [y] = [(none, some y)] := by simp [zipRows, zipSegs]
theorem zip_nil : zipRows [] [] = [] := by simp [zipRows, zipSegs]

theorem inter_local (s : Nat) (a b : Row) (ha : Local s a) (hb : Local s b) :
    Local s (a.inter b) ∧ ∀ c, c ∈ Row.cols (a.inter b) ↔ c ∈ Row.cols a ∧ c ∈ Row.cols b := by
  rcases ha with rfl | ⟨ca, rfl, hca⟩ <;> rcases hb with rfl | ⟨cb, rfl, hcb⟩
  · simp [Row.inter, zip_nil, Local, Row.cols]
  · simp [Row.inter, zip_right, Local, Row.cols]
  · simp [Row.inter, zip_left, Local, Row.cols]
  · simp only [Row.inter, zip_single ⟨s, ca⟩ ⟨s, cb⟩ rfl, filterMap_cons, filterMap_nil]
    refine ⟨local_single s _ (fun c hc => hca c ((mem_sInter _ _ _).mp hc).1), ?_⟩
    intro c; simp [Row.cols]

theorem diff_local (s : Nat) (a b : Row) (ha : Local s a) (hb : Local s b) :
    Local s (a.diff b) ∧ ∀ c, c ∈ Row.cols (a.diff b) ↔ c ∈ Row.cols a ∧ c ∉ Row.cols b := by
  rcases ha with rfl | ⟨ca, rfl, hca⟩ <;> rcases hb with rfl | ⟨cb, rfl, hcb⟩
  · simp [Row.diff, zip_nil, Local, Row.cols]
  · simp [Row.diff, zip_right, Local, Row.cols]
  · simp only [Row.diff, zip_left, filterMap_cons, filterMap_nil]
    exact ⟨local_single s _ hca, by intro c; simp [Row.cols]⟩
  · simp only [Row.diff, zip_single ⟨s, ca⟩ ⟨s, cb⟩ rfl, filterMap_cons, filterMap_nil]
    refine ⟨local_single s _ (fun c hc => hca c ((mem_sDiff _ _ _).mp hc).1), ?_⟩
    intro c; simp [Row.cols]

theorem xor_local (s : Nat) (a b : Row) (ha : Local s a) (hb : Local s b) :
    Local s (a.xor b) ∧ ∀ c, c ∈ Row.cols (a.xor b) ↔
      (c ∈ Row.cols a ∧ c ∉ Row.cols b) ∨ (c ∈ Row.cols b ∧ c ∉ Row.cols a) := by
  rcases ha with rfl | ⟨ca, rfl, hca⟩ <;> rcases hb with rfl | ⟨cb, rfl, hcb⟩
  · simp [Row.xor, zip_nil, Local, Row.cols]
  · simp only [Row.xor, zip_right, filterMap_cons, filterMap_nil]
    exact ⟨local_single s _ hcb, by intro c; simp [Row.cols]⟩
  · simp only [Row.xor, zip_left, filterMap_cons, filterMap_nil]
    exact ⟨local_single s _ hca, by intro c; simp [Row.cols]⟩
  · simp only [Row.xor, zip_single ⟨s, ca⟩ ⟨s, cb⟩ rfl, filterMap_cons, filterMap_nil]
    refine ⟨local_single s _ ?_, ?_⟩
    · intro c hc
      rcases (mem_sXor _ _ _).mp hc with h | h
      · exact hca c h.1
      · exact hcb c h.1
    · intro c; simp [Row.cols]

end PV.C15
