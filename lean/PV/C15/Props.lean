/-
C15 property theorems.  Core Lean only.

Property: for any data distributed over any number of shards and any PQL bitmap expression the result
equals evaluating the expression over the logical column sets (Row plain / time range / int condition,
Union, Intersect, Difference, Xor, Not, Shift, Count, nested to any depth); Set, Clear, ClearRow and
Store change the stored sets as documented; Not is relative to the columns written by Set or import
when existence tracking is on.

Full-strength statement (NOT provable for the current design, see the witness theorems below):

    theorem C15_eval (st) (hw : WF st) (e) (cs) (shards) (hev : Spec.eval st e = .ok cs)
        (hcover : ∀ c ∈ cs, c / ShardWidth ∈ shards) :
        ∃ row, execute st e shards = .ok row ∧ ∀ c, c ∈ Row.columns row ↔ c ∈ cs

It fails exactly where a Shift moves a column across a shard boundary: the executor evaluates every
call shard by shard, so the bit carried out of shard s is not seen by the sibling operands evaluated in
shard s+1 (`C15_shift_shard_edge_witness`).  What is proved is `C15_eval_partial` = the same statement
under `Spec.noCarry st e` (no Shift inside `e` has an operand column c with c % ShardWidth + n >=
ShardWidth); every other construct and any nesting depth is covered, and `C15_error` (errors) has no
exclusion at all.  Known finding tag: shift-shard-edge.

The model follows row.go / executor.go of branch verif/a12 (Row.Shift carries into the next segment,
mergeSegmentIterator fixed, Store returns its source row's error).
-/
import PV.C15.LemmasWrites
import PV.C15.LemmasShard
import PV.C15.LemmasCount
namespace PV.C15
open List

/-! ### evaluation -/

/-- **C15_eval_partial.**  Any expression tree, any placement of the data over shards, any list of
queried shards covering the result: the executor's row holds exactly the set-algebra value —
provided no Shift inside the expression carries a column over a shard edge (`Spec.noCarry`). -/
theorem C15_eval_partial (st : St) (hw : WF st) (e : Expr) (cs : List Nat) (shards : List Nat)
    (hnc : Spec.noCarry st e = true) (hev : Spec.eval st e = .ok cs)
    (hcover : ∀ c ∈ cs, c / ShardWidth ∈ shards) :
    ∃ row, execute st e shards = .ok row ∧ ∀ c, c ∈ Row.columns row ↔ c ∈ cs := by
  obtain ⟨row, hrow, hmem⟩ := execute_fold st hw e cs hnc hev shards []
  refine ⟨row, hrow, ?_⟩
  intro c
  rw [mem_columns, hmem]
  simp only [Row.cols, flatMap_nil, not_mem_nil, false_or]
  exact ⟨fun h => h.1, fun h => ⟨h, hcover c h⟩⟩

/-- The per-shard half of `C15_eval_partial`: the value computed in shard `s` is the shard-`s` part of
the set-algebra value, and sits in the segment of shard `s` only. -/
theorem C15_eval_shard_partial (st : St) (hw : WF st) (s : Nat) (e : Expr) (cs : List Nat)
    (hnc : Spec.noCarry st e = true) (hev : Spec.eval st e = .ok cs) :
    ∃ r, evalShard st e s = .ok r ∧ Local s r ∧ ∀ c, c ∈ Row.cols r ↔ c ∈ cs ∧ c / ShardWidth = s :=
  evalShard_spec st hw s e cs hnc hev

/-- **C15_count_partial.**  `Count(e)` — the sum of the per-shard counts — is the cardinality of the
set-algebra value (same exclusion: no Shift carry; the queried shards are distinct and cover the value).
Uses: every segment the executor builds is duplicate-free (`evalShard_nodup`, also under a carry) and
the set-algebra value is duplicate-free (`spec_nodup`). -/
theorem C15_count_partial (st : St) (hw : WF st) (e : Expr) (cs : List Nat) (shards : List Nat)
    (hnc : Spec.noCarry st e = true) (hev : Spec.eval st e = .ok cs)
    (hs : shards.Nodup) (hcover : ∀ c ∈ cs, c / ShardWidth ∈ shards) :
    executeCount st e shards = .ok cs.length := by
  rw [executeCount_eq, count_fold st hw e cs hnc hev shards 0, sum_filter_shards cs shards hs hcover]
  simp

/-- **C15_error.**  A query fails exactly when the expression is ill-formed for the schema (missing
field, empty Intersect/Difference, wrong arity, negative shift, Not without existence tracking), with
that error, in every shard — no exclusion. -/
theorem C15_error (st : St) (e : Expr) (x : Err) (s : Nat) (shards : List Nat)
    (hev : Spec.eval st e = .error x) :
    evalShard st e s = .error x ∧ (shards ≠ [] → execute st e shards = .error x) := by
  have h1 := (evalShard_ok_of_spec st s e).1 x hev
  refine ⟨h1, ?_⟩
  intro hne
  cases shards with
  | nil => exact absurd rfl hne
  | cons s0 rest =>
    have h0 := (evalShard_ok_of_spec st s0 e).1 x hev
    simp only [execute, foldl_cons, h0, bind, Except.bind]
    clear hne h0
    induction rest with
    | nil => rfl
    | cons s1 rest ih => simpa [foldl_cons, bind, Except.bind] using ih

/-- and succeeds in every shard when the expression is well-formed (also when a Shift carries). -/
theorem C15_no_spurious_error (st : St) (e : Expr) (cs : List Nat) (s : Nat) (hev : Spec.eval st e = .ok cs) :
    ∃ r, evalShard st e s = .ok r :=
  (evalShard_ok_of_spec st s e).2 cs hev

/-! ### Not -/

/-- **C15_not.**  Not(a) is the set of existing columns minus a, where "existing" is row 0 of the
existence field's standard view ... -/
theorem C15_not (st : St) (hw : WF st) (a : Expr) (ca : List Nat) (shards : List Nat)
    (hex : st.exist = true) (hnc : Spec.noCarry st a = true) (hev : Spec.eval st a = .ok ca)
    (hcover : ∀ c ∈ Spec.existCols st, c / ShardWidth ∈ shards) :
    ∃ row, execute st (.not a) shards = .ok row ∧
      ∀ c, c ∈ Row.columns row ↔ c ∈ Spec.existCols st ∧ c ∉ ca := by
  have hev' : Spec.eval st (.not a) = .ok (sDiff (Spec.existCols st) ca) := by
    simp [Spec.eval, hex, hev, bind, Except.bind, pure, Except.pure]
  obtain ⟨row, h1, h2⟩ := C15_eval_partial st hw (.not a) _ shards (by simpa [Spec.noCarry] using hnc) hev'
    (fun c hc => hcover c ((mem_sDiff _ _ _).mp hc).1)
  exact ⟨row, h1, fun c => by rw [h2 c, mem_sDiff]⟩

/-- ... and that set is exactly the columns written by Set / import while tracking is on: a Set adds
its column, nothing else does (`C15_writes_*` below: Clear, ClearRow and Store leave it alone). -/
theorem C15_not_existence_set (st st' : St) (f : String) (r c : Nat) (views : List String) (ch : Bool)
    (h : st.set f r c views = .ok (st', ch)) (hf : f ≠ existenceField) (x : Nat) :
    x ∈ Spec.existCols st' ↔ x ∈ Spec.existCols st ∨ (st.exist = true ∧ x = c) := by
  unfold St.set at h
  cases hft : st.fieldType f with
  | none => rw [hft] at h; cases h
  | some t =>
    rw [hft] at h
    simp only [Except.ok.injEq, Prod.mk.injEq] at h
    obtain ⟨h, _⟩ := h
    subst h
    simp only [Spec.existCols, mem_fieldCols, foldl_addBit_mem]
    cases hex : st.exist with
    | false =>
      simp only [Bool.false_eq_true, if_false, false_and, or_false]
      constructor
      · rintro (h | ⟨v, _, h⟩)
        · exact h
        · simp only [Bit.mk.injEq] at h; exact absurd h.1.symm hf
      · exact Or.inl
    | true =>
      simp only [if_true, addBit_mem, true_and]
      constructor
      · rintro ((h | h) | ⟨v, _, h⟩)
        · exact Or.inl h
        · simp only [Bit.mk.injEq] at h; exact Or.inr h.2.2.2
        · simp only [Bit.mk.injEq] at h; exact absurd h.1.symm hf
      · rintro (h | h)
        · exact Or.inl (Or.inl h)
        · subst h; exact Or.inl (Or.inr rfl)

/-! ### writes -/

/-- **C15_writes (Set).**  `Set(c, f=r[, timestamp])` adds column c to row r of f in the standard view
and in the views of the timestamp, and (tracking on) to the existence row; nothing else changes; the
state stays well-formed. -/
theorem C15_writes_set (st st' : St) (hw : WF st) (f : String) (r c : Nat) (views : List String) (ch : Bool)
    (h : st.set f r c views = .ok (st', ch)) :
    WF st' ∧ st'.vals = st.vals ∧
    ∀ b, b ∈ st'.bits ↔ b ∈ st.bits ∨ (∃ v ∈ viewStandard :: views, b = ⟨f, v, r, c⟩) ∨
                        (st.exist = true ∧ b = ⟨existenceField, viewStandard, 0, c⟩) := by
  unfold St.set at h
  cases hft : st.fieldType f with
  | none => rw [hft] at h; cases h
  | some t =>
    rw [hft] at h
    simp only [Except.ok.injEq, Prod.mk.injEq] at h
    obtain ⟨h, _⟩ := h
    subst h
    by_cases hex : st.exist = true
    · simp only [hex, if_true]
      have hw1 := addBit_wf st hw ⟨existenceField, viewStandard, 0, c⟩
      refine ⟨foldl_addBit_wf _ hw1 f r c _, ?_, ?_⟩
      · rw [foldl_addBit_vals, addBit_vals]
      · intro b; rw [foldl_addBit_mem, addBit_mem]
        constructor
        · rintro ((h | h) | h)
          · exact Or.inl h
          · exact Or.inr (Or.inr ⟨trivial, h⟩)
          · exact Or.inr (Or.inl h)
        · rintro (h | h | ⟨_, h⟩)
          · exact Or.inl (Or.inl h)
          · exact Or.inr h
          · exact Or.inl (Or.inr h)
    · simp only [hex, if_false]
      refine ⟨foldl_addBit_wf st hw f r c _, foldl_addBit_vals st f r c _, ?_⟩
      intro b; rw [foldl_addBit_mem]; simp

/-- **C15_writes (Clear).**  `Clear(c, f=r)` removes column c from row r of f in every view; nothing
else changes. -/
theorem C15_writes_clear (st st' : St) (hw : WF st) (f : String) (r c : Nat) (ch : Bool)
    (h : st.clear f r c = .ok (st', ch)) :
    WF st' ∧ st'.vals = st.vals ∧
    ∀ b, b ∈ st'.bits ↔ b ∈ st.bits ∧ ¬ (b.field = f ∧ b.row = r ∧ b.col = c) := by
  unfold St.clear at h
  cases hft : st.fieldType f with
  | none => rw [hft] at h; cases h
  | some t =>
    rw [hft] at h
    simp only [Except.ok.injEq, Prod.mk.injEq] at h
    obtain ⟨h, _⟩ := h
    subst h
    refine ⟨⟨?_, hw.valFrag⟩, rfl, ?_⟩
    · intro b hb; exact hw.bitFrag b (mem_filter.mp hb).1
    · intro b
      simp only [mem_filter, Bool.not_eq_true', decide_eq_false_iff_not]

/-- **C15_writes (ClearRow).**  `ClearRow(f=r)` removes row r of f from every view in every queried
shard; nothing else changes. -/
theorem C15_writes_clearRow (st st' : St) (hw : WF st) (f : String) (r : Nat) (shards : List Nat)
    (h : st.clearRow f r shards = .ok st') :
    WF st' ∧ st'.vals = st.vals ∧
    ∀ b, b ∈ st'.bits ↔ b ∈ st.bits ∧ ¬ (b.field = f ∧ b.row = r ∧ b.col / ShardWidth ∈ shards) := by
  unfold St.clearRow at h
  cases hft : st.fieldType f with
  | none => rw [hft] at h; cases h
  | some t =>
    rw [hft] at h
    simp only at h
    split at h
    · cases h
    · simp only [Except.ok.injEq] at h
      subst h
      refine ⟨⟨?_, hw.valFrag⟩, rfl, ?_⟩
      · intro b hb; exact hw.bitFrag b (mem_filter.mp hb).1
      · intro b
        simp only [mem_filter, Bool.not_eq_true', decide_eq_false_iff_not, contains_eq_mem, decide_eq_true_eq]

/-- **C15_writes (Store), partial: no Shift carry in the source expression.**  `Store(e, f=r)` makes
row r of f (standard view) in the queried shards equal to the value of e; other rows, fields, views,
int values and the existence row are unchanged. -/
theorem C15_writes_store_partial (st : St) (hw : WF st) (f : String) (r : Nat) (e : Expr) (cs shards : List Nat)
    (hft : st.fieldType f = some .set) (hnc : Spec.noCarry st e = true) (hev : Spec.eval st e = .ok cs) :
    ∃ st', st.store f r e shards = .ok st' ∧ WF st' ∧ st'.vals = st.vals ∧ st'.exist = st.exist ∧
      ∀ b, b ∈ st'.bits ↔
        (if b.field = f ∧ b.view = viewStandard ∧ b.row = r ∧ b.col / ShardWidth ∈ shards then b.col ∈ cs
         else b ∈ st.bits) := by
  rw [store_eq st f r e shards .set hft rfl]
  obtain ⟨st', h1, h2, h3, h4, h5⟩ := store_fold st hw f r e cs hnc hev shards [] st hw rfl rfl
    (by intro b; simp)
  refine ⟨st', h1, h2, h3, h4, ?_⟩
  intro b
  rw [h5 b]
  simp only [Target, not_mem_nil, false_or, and_assoc]

/-- Store does not touch existence: a stored column that was never Set is not in Not's universe. -/
theorem C15_store_keeps_existence (st : St) (hw : WF st) (f : String) (r : Nat) (e : Expr) (cs shards : List Nat)
    (hft : st.fieldType f = some .set) (hnc : Spec.noCarry st e = true) (hev : Spec.eval st e = .ok cs)
    (hf : f ≠ existenceField) (st' : St) (h : st.store f r e shards = .ok st') (x : Nat) :
    x ∈ Spec.existCols st' ↔ x ∈ Spec.existCols st := by
  obtain ⟨st'', h1, _, _, _, h5⟩ := C15_writes_store_partial st hw f r e cs shards hft hnc hev
  rw [h] at h1
  simp only [Except.ok.injEq] at h1
  subst h1
  simp only [Spec.existCols, mem_fieldCols]
  rw [h5]
  have : ¬ (existenceField = f ∧ viewStandard = viewStandard ∧ 0 = r ∧ x / ShardWidth ∈ shards) :=
    fun h => hf h.1.symm
  have hne : ¬ (existenceField = f) := fun h => hf h.symm
  simp only [hne, false_and, if_false]

/-! ### shard locality of the Row algebra (any rows with ascending segments) -/

/-- **C15_shard_local_intersect.** -/
theorem C15_shard_local_intersect (a b : Row) (ha : Asc a) (hb : Asc b) (s c : Nat) :
    c ∈ colsAt (a.inter b) s ↔ c ∈ colsAt a s ∧ c ∈ colsAt b s := inter_colsAt a b ha hb s c

/-- **C15_shard_local_difference.** -/
theorem C15_shard_local_difference (a b : Row) (ha : Asc a) (hb : Asc b) (s c : Nat) :
    c ∈ colsAt (a.diff b) s ↔ c ∈ colsAt a s ∧ c ∉ colsAt b s := diff_colsAt a b ha hb s c

/-- **C15_shard_local_xor.** -/
theorem C15_shard_local_xor (a b : Row) (ha : Asc a) (hb : Asc b) (s c : Nat) :
    c ∈ colsAt (a.xor b) s ↔ (c ∈ colsAt a s ∧ c ∉ colsAt b s) ∨ (c ∈ colsAt b s ∧ c ∉ colsAt a s) :=
  xor_colsAt a b ha hb s c

/-- **C15_shard_local_merge** (the reduce; also the value of Union on every shard). -/
theorem C15_shard_local_merge (a b : Row) (ha : Asc a) (hb : Asc b) (s c : Nat) :
    c ∈ colsAt (a.merge b) s ↔ c ∈ colsAt a s ∨ c ∈ colsAt b s := merge_colsAt a b ha hb s c

/-- **C15_shard_local_union** for the rows a shard evaluation works with (`Local`); the k-way walk of
Row.Union on arbitrary rows is covered by the correspondence runs (`rowop union`). -/
theorem C15_shard_local_union_partial (s : Nat) (a b : Row) (ha : Local s a) (hb : Local s b) (c : Nat) :
    Local s (a.union b) ∧ (c ∈ Row.cols (a.union b) ↔ c ∈ Row.cols a ∨ c ∈ Row.cols b) :=
  ⟨(union_local s a b ha hb).1, (union_local s a b ha hb).2 c⟩

/-- **C15_shard_local_shift, partial: no carry.**  Shifting the shard-s segment by n stays in shard s
and is the pointwise shift when no column reaches the end of the shard. -/
theorem C15_shard_local_shift_partial (s n : Nat) (cs : List Nat)
    (h : ∀ c ∈ cs, c / ShardWidth = s ∧ c % ShardWidth + n < ShardWidth) :
    Row.shift n [⟨s, cs⟩] = [⟨s, cs.map (· + n)⟩] := shift_local s n cs h

/-! ### the excluded region is real: witnesses -/

def okOf {α : Type} : Except Err α → Option α
  | .ok a => some a
  | .error _ => none

/-- a = {1, ShardWidth-1}, b = {ShardWidth}, c empty -/
def witnessSt : St :=
  { exist := true
    fields := [("a", .set), ("b", .set), ("c", .set)]
    bits := [⟨"a", "standard", 1, 1⟩, ⟨"a", "standard", 1, 1048575⟩, ⟨"b", "standard", 1, 1048576⟩,
             ⟨"_exists", "standard", 0, 1⟩, ⟨"_exists", "standard", 0, 1048575⟩, ⟨"_exists", "standard", 0, 1048576⟩]
    frags := [("a", "standard", 0), ("b", "standard", 1), ("_exists", "standard", 0), ("_exists", "standard", 1)] }

/-- **Witness (tag shift-shard-edge).**  Intersect(Shift(Row(a=1), n=1), Row(b=1)): the set-algebra
value is {ShardWidth}; the per-shard executor returns nothing. -/
theorem C15_shift_shard_edge_witness :
    okOf ((execute witnessSt (.bin .inter (.shift 1 (.row "a" 1)) (.row "b" 1)) [0, 1]).map Row.columns) = some [] ∧
    okOf (Spec.eval witnessSt (.bin .inter (.shift 1 (.row "a" 1)) (.row "b" 1))) = some [1048576] := by
  decide

/-- the same carry makes Count(Union(Shift(Row(a=1), n=1), Row(b=1))) 3 instead of 2 -/
theorem C15_shift_shard_edge_count_witness :
    okOf (executeCount witnessSt (.bin .union (.shift 1 (.row "a" 1)) (.row "b" 1)) [0, 1]) = some 3 ∧
    (okOf (Spec.eval witnessSt (.bin .union (.shift 1 (.row "a" 1)) (.row "b" 1)))).map List.length = some 2 := by
  decide

/-- and Store(Shift(Row(a=1), n=1), c=5) loses the carried column -/
theorem C15_shift_shard_edge_store_witness :
    (okOf (witnessSt.store "c" 5 (.shift 1 (.row "a" 1)) [0, 1])).map (fun st => Spec.fieldCols st "c" "standard" 5) = some [2] ∧
    okOf (Spec.eval witnessSt (.shift 1 (.row "a" 1))) = some [2, 1048576] := by
  decide

/-! ### non-vacuity -/

example : WF witnessSt := by
  constructor
  · intro b hb; revert b; decide
  · intro e he; cases he

example : Spec.noCarry witnessSt (.bin .union (.shift 1 (.row "b" 1)) (.not (.row "a" 1))) = true := by decide
example : Spec.noCarry witnessSt (.shift 1 (.row "a" 1)) = false := by decide
example : Asc [⟨0, [1, 5]⟩, ⟨3, [3145730]⟩] := by unfold Asc; decide

end PV.C15
