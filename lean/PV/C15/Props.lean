import PV.C15.Model
import PV.C15.Spec
namespace PV.C15
end PV.C15
