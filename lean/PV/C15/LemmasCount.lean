/-
C15 helper lemmas, part 6 (core Lean only): Count.  Every segment the executor produces is
duplicate-free, so the per-shard counts add up to the cardinality of the set-algebra value.
-/
import PV.C15.LemmasWrites
import PV.C15.LemmasShard
namespace PV.C15
open List

theorem nodup_eraseDups_aux (n : Nat) (l : List Nat) (h : l.length ≤ n) : l.eraseDups.Nodup := by
  induction n generalizing l with
  | zero =>
    have : l = [] := length_eq_zero_iff.mp (by omega)
    subst this; simp
  | succ n ih =>
    cases l with
    | nil => simp
    | cons a as =>
      rw [eraseDups_cons, nodup_cons]
      constructor
      · intro hm
        rw [mem_eraseDups, mem_filter] at hm
        simp at hm
      · apply ih
        have := length_filter_le (fun b => !b == a) as
        simp at h; omega

theorem nodup_eraseDups (l : List Nat) : l.eraseDups.Nodup := nodup_eraseDups_aux l.length l (Nat.le_refl _)

theorem nodup_sInter (a b : List Nat) (h : a.Nodup) : (sInter a b).Nodup := Pairwise.filter _ h
theorem nodup_sDiff (a b : List Nat) (h : a.Nodup) : (sDiff a b).Nodup := Pairwise.filter _ h

theorem nodup_sUnion (a b : List Nat) (ha : a.Nodup) (hb : b.Nodup) : (sUnion a b).Nodup := by
  unfold sUnion
  rw [nodup_append]
  refine ⟨ha, Pairwise.filter _ hb, ?_⟩
  intro x hx y hy hxy
  subst hxy
  simp only [mem_filter, Bool.not_eq_true', contains_eq_mem, decide_eq_false_iff_not] at hy
  exact hy.2 hx

theorem nodup_sXor (a b : List Nat) (ha : a.Nodup) (hb : b.Nodup) : (sXor a b).Nodup := by
  unfold sXor
  rw [nodup_append]
  refine ⟨nodup_sDiff a b ha, nodup_sDiff b a hb, ?_⟩
  intro x hx y hy hxy
  subst hxy
  exact ((mem_sDiff _ _ _).mp hy).2 ((mem_sDiff _ _ _).mp hx).1

theorem nodup_sAdd (c : Nat) (l : List Nat) (h : l.Nodup) : (sAdd c l).Nodup := by
  unfold sAdd
  split
  · exact h
  · next hc =>
    rw [nodup_append]
    refine ⟨h, by simp, ?_⟩
    intro x hx y hy hxy
    simp only [mem_singleton] at hy
    subst hxy; subst hy
    exact hc (by simpa using hx)

theorem nodup_map_add (n : Nat) (l : List Nat) (h : l.Nodup) : (l.map (· + n)).Nodup :=
  Pairwise.map _ (by intro a b hab; omega) h

theorem nodup_foldl_sUnion (rest : List Seg) (init : List Nat) (hi : init.Nodup) (hr : ∀ o ∈ rest, o.cols.Nodup) :
    (rest.foldl (fun acc o => sUnion acc o.cols) init).Nodup := by
  induction rest generalizing init with
  | nil => exact hi
  | cons o os ih =>
    exact ih _ (nodup_sUnion _ _ hi (hr o (by simp))) (fun o' ho' => hr o' (by simp [ho']))

/-- every segment is duplicate-free -/
def NodupRow (r : Row) : Prop := ∀ sg ∈ r, sg.cols.Nodup

theorem zip_mem (f : Nat) (a b : Row) (p : Option Seg × Option Seg) (hp : p ∈ zipSegs f a b) :
    (∀ x, p.1 = some x → x ∈ a) ∧ (∀ y, p.2 = some y → y ∈ b) := by
  induction f generalizing a b with
  | zero => simp [zipSegs] at hp
  | succ f ih =>
    cases a with
    | nil =>
      cases b with
      | nil => simp [zipSegs] at hp
      | cons y ys =>
        simp only [zipSegs, mem_cons] at hp
        rcases hp with rfl | hp
        · simp
        · have := ih [] ys hp
          exact ⟨this.1, fun y' h => mem_cons_of_mem _ (this.2 y' h)⟩
    | cons x xs =>
      cases b with
      | nil =>
        simp only [zipSegs, mem_cons] at hp
        rcases hp with rfl | hp
        · simp
        · have := ih xs [] hp
          exact ⟨fun x' h => mem_cons_of_mem _ (this.1 x' h), this.2⟩
      | cons y ys =>
        simp only [zipSegs] at hp
        split at hp
        · simp only [mem_cons] at hp
          rcases hp with rfl | hp
          · simp
          · have := ih xs (y :: ys) hp
            exact ⟨fun x' h => mem_cons_of_mem _ (this.1 x' h), this.2⟩
        · split at hp
          · simp only [mem_cons] at hp
            rcases hp with rfl | hp
            · simp
            · have := ih (x :: xs) ys hp
              exact ⟨this.1, fun y' h => mem_cons_of_mem _ (this.2 y' h)⟩
          · simp only [mem_cons] at hp
            rcases hp with rfl | hp
            · simp
            · have := ih xs ys hp
              exact ⟨fun x' h => mem_cons_of_mem _ (this.1 x' h), fun y' h => mem_cons_of_mem _ (this.2 y' h)⟩

theorem nodupRow_zip (F : Option Seg × Option Seg → Option Seg) (a b : Row) (ha : NodupRow a) (hb : NodupRow b)
    (hF : ∀ p sg, F p = some sg → (∀ x, p.1 = some x → x.cols.Nodup) → (∀ y, p.2 = some y → y.cols.Nodup) → sg.cols.Nodup) :
    NodupRow ((zipRows a b).filterMap F) := by
  intro sg hsg
  obtain ⟨p, hp, hFp⟩ := mem_filterMap.mp hsg
  have := zip_mem _ a b p hp
  exact hF p sg hFp (fun x hx => ha x (this.1 x hx)) (fun y hy => hb y (this.2 y hy))

theorem nodupRow_inter (a b : Row) (ha : NodupRow a) (hb : NodupRow b) : NodupRow (a.inter b) := by
  rw [inter_eq]
  apply nodupRow_zip _ a b ha hb
  intro p sg hF h1 _
  match p, hF with
  | (some s0, some s1), hF =>
    simp only [interF, Option.some.injEq] at hF; subst hF
    exact nodup_sInter _ _ (h1 s0 rfl)

theorem nodupRow_diff (a b : Row) (ha : NodupRow a) (hb : NodupRow b) : NodupRow (a.diff b) := by
  rw [diff_eq]
  apply nodupRow_zip _ a b ha hb
  intro p sg hF h1 _
  match p, hF with
  | (some s0, none), hF => simp only [diffF, Option.some.injEq] at hF; subst hF; exact h1 _ rfl
  | (some s0, some s1), hF =>
    simp only [diffF, Option.some.injEq] at hF; subst hF
    exact nodup_sDiff _ _ (h1 s0 rfl)

theorem nodupRow_xor (a b : Row) (ha : NodupRow a) (hb : NodupRow b) : NodupRow (a.xor b) := by
  rw [xor_eq]
  apply nodupRow_zip _ a b ha hb
  intro p sg hF h1 h2
  match p, hF with
  | (some s0, none), hF => simp only [xorF, Option.some.injEq] at hF; subst hF; exact h1 _ rfl
  | (none, some s1), hF => simp only [xorF, Option.some.injEq] at hF; subst hF; exact h2 _ rfl
  | (some s0, some s1), hF =>
    simp only [xorF, Option.some.injEq] at hF; subst hF
    exact nodup_sXor _ _ (h1 s0 rfl) (h2 s1 rfl)

theorem nodupRow_unionLoop (f : Nat) (ls : List Row) (h : ∀ l ∈ ls, NodupRow l) : NodupRow (Row.unionLoop f ls) := by
  induction f generalizing ls with
  | zero => intro sg hsg; simp [Row.unionLoop] at hsg
  | succ f ih =>
    simp only [Row.unionLoop]
    cases hm : Row.minShard (ls.filter Row.nonEmpty) with
    | none => intro sg hsg; simp at hsg
    | some sh =>
      simp only
      intro sg hsg
      rcases mem_cons.mp hsg with rfl | hsg
      · -- the united segment
        have hheads : ∀ o ∈ (ls.filter Row.nonEmpty).filterMap (Row.headIf sh), o.cols.Nodup := by
          intro o ho
          obtain ⟨l, hl, hh⟩ := mem_filterMap.mp ho
          cases l with
          | nil => simp [Row.headIf] at hh
          | cons x t =>
            simp only [Row.headIf] at hh
            split at hh
            · simp only [Option.some.injEq] at hh; subst hh
              exact h _ (mem_filter.mp hl).1 x (by simp)
            · cases hh
        cases hP : (ls.filter Row.nonEmpty).filterMap (Row.headIf sh) with
        | nil => simp [Row.unionSegs]
        | cons p ps =>
          rw [hP] at hheads
          simp only [Row.unionSegs]
          exact nodup_foldl_sUnion ps p.cols (hheads p (by simp)) (fun o ho => hheads o (by simp [ho]))
      · apply ih _ _ sg hsg
        intro l hl
        obtain ⟨l0, hl0, rfl⟩ := mem_map.mp hl
        have hn := h l0 (mem_filter.mp hl0).1
        cases l0 with
        | nil => simp [Row.dropIf, NodupRow]
        | cons x t =>
          simp only [Row.dropIf]
          split
          · intro sg' hsg'; exact hn sg' (by simp [hsg'])
          · exact hn

theorem nodupRow_union (a b : Row) (ha : NodupRow a) (hb : NodupRow b) : NodupRow (a.union b) := by
  unfold Row.union Row.unionK
  apply nodupRow_unionLoop
  intro l hl
  simp only [mem_cons, not_mem_nil, or_false] at hl
  rcases hl with rfl | rfl
  · exact ha
  · exact hb

theorem nodupRow_setBit (c : Nat) (r : Row) (h : NodupRow r) : NodupRow (Row.setBit c r) := by
  induction r with
  | nil => intro sg hsg; simp [Row.setBit] at hsg; subst hsg; simp
  | cons x t ih =>
    simp only [Row.setBit]
    split
    · intro sg hsg
      rcases mem_cons.mp hsg with rfl | hsg
      · exact nodup_sAdd _ _ (h x (by simp))
      · exact h sg (by simp [hsg])
    · split
      · intro sg hsg
        rcases mem_cons.mp hsg with rfl | hsg
        · simp
        · exact h sg hsg
      · intro sg hsg
        rcases mem_cons.mp hsg with rfl | hsg
        · exact h _ (by simp)
        · exact ih (fun sg' h' => h sg' (by simp [h'])) sg hsg

theorem nodupRow_foldl_setBit (cs : List Nat) (r : Row) (h : NodupRow r) :
    NodupRow (cs.foldl (fun acc c => Row.setBit c acc) r) := by
  induction cs generalizing r with
  | nil => exact h
  | cons c cs ih => exact ih _ (nodupRow_setBit c r h)

theorem nodupRow_shift1 (r : Row) (h : NodupRow r) : NodupRow (Row.shift1 r) := by
  unfold Row.shift1
  simp only
  apply nodupRow_foldl_setBit
  intro sg hsg
  simp only [map_map, mem_map, Function.comp] at hsg
  obtain ⟨sg0, hsg0, rfl⟩ := hsg
  exact Pairwise.filter _ (nodup_map_add 1 _ (h sg0 hsg0))

theorem nodupRow_shift (n : Nat) (r : Row) (h : NodupRow r) : NodupRow (Row.shift n r) := by
  induction n generalizing r with
  | zero => exact h
  | succ n ih => exact ih _ (nodupRow_shift1 r h)

theorem nodupRow_applyOp (op : Op) (a b : Row) (ha : NodupRow a) (hb : NodupRow b) : NodupRow (applyOp op a b) := by
  cases op
  · exact nodupRow_union a b ha hb
  · exact nodupRow_inter a b ha hb
  · exact nodupRow_diff a b ha hb
  · exact nodupRow_xor a b ha hb

theorem nodup_fragRow (st : St) (f v : String) (r s : Nat) : (st.fragRow f v r s).Nodup := nodup_eraseDups _

theorem nodupRow_unionRows (rows : List Row) (h : ∀ l ∈ rows, NodupRow l) : NodupRow (unionRows rows) := by
  match rows, h with
  | [], _ => intro sg hsg; simp [unionRows] at hsg
  | [r0], h => exact h r0 (by simp)
  | r0 :: r1 :: rest, h =>
    simp only [unionRows, Row.unionK]
    exact nodupRow_unionLoop _ _ h

/-- every segment a shard evaluation returns is duplicate-free (also when a Shift carries) -/
theorem evalShard_nodup (st : St) (s : Nat) : ∀ (e : Expr) (r : Row), evalShard st e s = .ok r → NodupRow r := by
  intro e
  induction e with
  | row f r0 =>
    intro r h
    simp only [evalShard] at h
    cases hft : st.fieldType f with
    | none => rw [hft] at h; cases h
    | some t =>
      rw [hft] at h
      simp only at h
      split at h <;> (simp only [Except.ok.injEq] at h; subst h)
      · intro sg hsg; simp only [mem_singleton] at hsg; subst hsg; exact nodup_fragRow _ _ _ _ _
      · intro sg hsg; cases hsg
  | rowTime f r0 views =>
    intro r h
    simp only [evalShard] at h
    cases hft : st.fieldType f with
    | none => rw [hft] at h; cases h
    | some t =>
      rw [hft] at h
      simp only at h
      split at h <;> (simp only [Except.ok.injEq] at h; subst h)
      · intro sg hsg; cases hsg
      · apply nodupRow_unionRows
        intro l hl
        obtain ⟨v, _, rfl⟩ := mem_map.mp hl
        intro sg hsg; simp only [mem_singleton] at hsg; subst hsg; exact nodup_fragRow _ _ _ _ _
  | rowCond f c =>
    intro r h
    simp only [evalShard] at h
    cases hft : st.fieldType f with
    | none => rw [hft] at h; cases h
    | some t =>
      rw [hft] at h
      simp only at h
      split at h
      · cases h
      · split at h <;> (simp only [Except.ok.injEq] at h; subst h)
        · intro sg hsg; simp only [mem_singleton] at hsg; subst hsg; exact nodup_eraseDups _
        · intro sg hsg; cases hsg
  | empty op =>
    intro r h
    cases op with
    | union => simp only [evalShard, Except.ok.injEq] at h; subst h; intro sg hsg; cases hsg
    | xor => simp only [evalShard, Except.ok.injEq] at h; subst h; intro sg hsg; cases hsg
    | inter => simp [evalShard] at h
    | diff => simp [evalShard] at h
  | bin op a b iha ihb =>
    intro r h
    simp only [evalShard, bind, Except.bind] at h
    cases ha : evalShard st a s with
    | error x => rw [ha] at h; cases h
    | ok ra =>
      rw [ha] at h
      cases hb : evalShard st b s with
      | error x => rw [hb] at h; cases h
      | ok rb =>
        rw [hb] at h
        simp only [pure, Except.pure, Except.ok.injEq] at h; subst h
        exact nodupRow_applyOp op ra rb (iha ra ha) (ihb rb hb)
  | not a iha =>
    intro r h
    simp only [evalShard] at h
    split at h
    · cases h
    · simp only [bind, Except.bind] at h
      cases ha : evalShard st a s with
      | error x => rw [ha] at h; cases h
      | ok ra =>
        rw [ha] at h
        simp only [pure, Except.pure, Except.ok.injEq] at h; subst h
        apply nodupRow_diff _ _ _ (iha ra ha)
        split
        · intro sg hsg; simp only [mem_singleton] at hsg; subst hsg; exact nodup_fragRow _ _ _ _ _
        · intro sg hsg; cases hsg
  | notArity => intro r h; simp [evalShard] at h
  | shiftArity => intro r h; simp [evalShard] at h
  | shift n a iha =>
    intro r h
    simp only [evalShard, bind, Except.bind] at h
    cases ha : evalShard st a s with
    | error x => rw [ha] at h; cases h
    | ok ra =>
      rw [ha] at h
      simp only at h
      split at h
      · cases h
      · simp only [pure, Except.pure, Except.ok.injEq] at h; subst h
        exact nodupRow_shift _ _ (iha ra ha)

/-- the set-algebra value is duplicate-free -/
theorem spec_nodup (st : St) : ∀ (e : Expr) (cs : List Nat), Spec.eval st e = .ok cs → cs.Nodup := by
  intro e
  induction e with
  | row f r0 =>
    intro cs h
    simp only [Spec.eval] at h
    cases hft : st.fieldType f with
    | none => rw [hft] at h; cases h
    | some t => rw [hft] at h; simp only [Except.ok.injEq] at h; subst h; exact nodup_eraseDups _
  | rowTime f r0 views =>
    intro cs h
    simp only [Spec.eval] at h
    cases hft : st.fieldType f with
    | none => rw [hft] at h; cases h
    | some t =>
      rw [hft] at h
      simp only at h
      split at h <;> (simp only [Except.ok.injEq] at h; subst h)
      · simp
      · suffices H : ∀ init : List Nat, init.Nodup →
            (views.foldl (fun acc v => sUnion acc (Spec.fieldCols st f v r0)) init).Nodup from H [] (by simp)
        induction views with
        | nil => intro init hi; exact hi
        | cons v vs ih => intro init hi; exact ih _ (nodup_sUnion _ _ hi (nodup_eraseDups _))
  | rowCond f c =>
    intro cs h
    simp only [Spec.eval] at h
    cases hft : st.fieldType f with
    | none => rw [hft] at h; cases h
    | some t =>
      rw [hft] at h
      simp only at h
      split at h
      · cases h
      · simp only [Except.ok.injEq] at h; subst h; exact nodup_eraseDups _
  | empty op =>
    intro cs h
    cases op with
    | union => simp only [Spec.eval, Except.ok.injEq] at h; subst h; simp
    | xor => simp only [Spec.eval, Except.ok.injEq] at h; subst h; simp
    | inter => simp [Spec.eval] at h
    | diff => simp [Spec.eval] at h
  | bin op a b iha ihb =>
    intro cs h
    simp only [Spec.eval, bind, Except.bind] at h
    cases ha : Spec.eval st a with
    | error x => rw [ha] at h; cases h
    | ok ca =>
      rw [ha] at h
      cases hb : Spec.eval st b with
      | error x => rw [hb] at h; cases h
      | ok cb =>
        rw [hb] at h
        simp only [pure, Except.pure, Except.ok.injEq] at h; subst h
        cases op
        · exact nodup_sUnion _ _ (iha ca ha) (ihb cb hb)
        · exact nodup_sInter _ _ (iha ca ha)
        · exact nodup_sDiff _ _ (iha ca ha)
        · exact nodup_sXor _ _ (iha ca ha) (ihb cb hb)
  | not a iha =>
    intro cs h
    simp only [Spec.eval] at h
    split at h
    · cases h
    · simp only [bind, Except.bind] at h
      cases ha : Spec.eval st a with
      | error x => rw [ha] at h; cases h
      | ok ca =>
        rw [ha] at h
        simp only [pure, Except.pure, Except.ok.injEq] at h; subst h
        exact nodup_sDiff _ _ (nodup_eraseDups _)
  | notArity => intro cs h; simp [Spec.eval] at h
  | shiftArity => intro cs h; simp [Spec.eval] at h
  | shift n a iha =>
    intro cs h
    simp only [Spec.eval, bind, Except.bind] at h
    cases ha : Spec.eval st a with
    | error x => rw [ha] at h; cases h
    | ok ca =>
      rw [ha] at h
      simp only at h
      split at h
      · cases h
      · simp only [pure, Except.pure, Except.ok.injEq] at h; subst h
        exact nodup_map_add _ _ (iha ca ha)

/-! ### adding up the shards -/

theorem count_eq_length (r : Row) : Row.count r = (Row.cols r).length := by
  induction r with
  | nil => rfl
  | cons x t ih =>
    simp only [Row.count, Row.cols, map_cons, sum_cons, flatMap_cons, length_append] at *
    rw [ih]

theorem nodup_cols_local (s : Nat) (r : Row) (hl : Local s r) (hn : NodupRow r) : (Row.cols r).Nodup := by
  rcases hl with rfl | ⟨cs, rfl, _⟩
  · simp [Row.cols]
  · simpa [Row.cols] using hn ⟨s, cs⟩ (by simp)

theorem sum_indicator (l : List Nat) (x : Nat) (hl : l.Nodup) (hx : x ∈ l) :
    (l.map (fun s => if x = s then 1 else 0)).sum = 1 := by
  induction l with
  | nil => cases hx
  | cons s l ih =>
    have ⟨hns, hl'⟩ := nodup_cons.mp hl
    simp only [map_cons, sum_cons]
    by_cases he : x = s
    · subst he
      have : (l.map (fun s => if x = s then 1 else 0)).sum = 0 := by
        clear ih hl hl' hx
        induction l with
        | nil => rfl
        | cons t l ih2 =>
          have hxt : ¬ x = t := fun e => hns (by simp [e])
          simp only [map_cons, sum_cons, hxt, if_false]
          have := ih2 (fun h => hns (by simp [h]))
          omega
      simp [this]
    · have hx' : x ∈ l := by
        rcases mem_cons.mp hx with e | h
        · exact absurd e he
        · exact h
      simp [he, ih hl' hx']

theorem sum_map_add (l : List Nat) (f g : Nat → Nat) :
    (l.map (fun s => f s + g s)).sum = (l.map f).sum + (l.map g).sum := by
  induction l with
  | nil => rfl
  | cons s l ih => simp only [map_cons, sum_cons, ih]; omega

theorem sum_filter_shards (cs : List Nat) (shards : List Nat) (hs : shards.Nodup)
    (hcover : ∀ c ∈ cs, c / ShardWidth ∈ shards) :
    (shards.map (fun s => (cs.filter (fun c => c / ShardWidth = s)).length)).sum = cs.length := by
  induction cs with
  | nil =>
    clear hs hcover
    induction shards with
    | nil => rfl
    | cons s l ih => simpa using ih
  | cons c cs ih =>
    have ih := ih (fun x hx => hcover x (by simp [hx]))
    have hc := hcover c (by simp)
    have e : ∀ s, ((c :: cs).filter (fun x => x / ShardWidth = s)).length =
        (cs.filter (fun x => x / ShardWidth = s)).length + (if c / ShardWidth = s then 1 else 0) := by
      intro s
      simp only [filter_cons]
      by_cases h : c / ShardWidth = s <;> simp [h]
    simp only [e]
    rw [sum_map_add, ih, sum_indicator shards (c / ShardWidth) hs hc]
    simp

def countStep (st : St) (e : Expr) (acc : Except Err Nat) (s : Nat) : Except Err Nat := do
  let n ← acc
  let v ← evalShard st e s
  pure (n + v.count)

theorem executeCount_eq (st : St) (e : Expr) (shards : List Nat) :
    executeCount st e shards = shards.foldl (countStep st e) (.ok 0) := rfl

theorem count_fold (st : St) (hw : WF st) (e : Expr) (cs : List Nat) (hnc : Spec.noCarry st e = true)
    (hev : Spec.eval st e = .ok cs) (shards : List Nat) (acc : Nat) :
    shards.foldl (countStep st e) (Except.ok acc) =
      .ok (acc + (shards.map (fun s => (cs.filter (fun c => c / ShardWidth = s)).length)).sum) := by
  induction shards generalizing acc with
  | nil => simp
  | cons s rest ih =>
    obtain ⟨r, hr, hl, hm⟩ := evalShard_spec st hw s e cs hnc hev
    have hn := evalShard_nodup st s e r hr
    have hcount : r.count = (cs.filter (fun c => c / ShardWidth = s)).length := by
      rw [count_eq_length]
      apply Perm.length_eq
      apply (perm_ext_iff_of_nodup (nodup_cols_local s r hl hn) (Pairwise.filter _ (spec_nodup st e cs hev))).mpr
      intro c
      rw [hm c]; simp
    have hstep : countStep st e (Except.ok acc) s = .ok (acc + r.count) := by
      simp [countStep, hr, bind, Except.bind, pure, Except.pure]
    rw [foldl_cons, hstep, ih, hcount]
    simp only [map_cons, sum_cons]
    congr 1; omega


end PV.C15
