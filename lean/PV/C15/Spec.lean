/-
C15 spec: evaluation of a bitmap expression over the LOGICAL column sets, with no notion of shard,
segment or fragment; and the documented effect of the writes on the logical sets.
-/
import PV.C15.Model
namespace PV.C15.Spec
open PV.C15

/-- the logical set of columns of (field, view, row) -/
def fieldCols (st : St) (f v : String) (r : Nat) : List Nat :=
  ((st.bits.filter (fun b => b.field = f ∧ b.view = v ∧ b.row = r)).map (·.col)).eraseDups

/-- columns whose stored integer satisfies the condition -/
def condCols (st : St) (f : String) (c : Cond) : List Nat :=
  ((st.vals.filter (fun e => e.1 = f ∧ c.holds e.2.2)).map (·.2.1)).eraseDups

/-- the columns written by Set or import while existence tracking is on -/
def existCols (st : St) : List Nat := fieldCols st existenceField viewStandard 0

def setOp : Op → List Nat → List Nat → List Nat
  | .union => sUnion
  | .inter => sInter
  | .diff => sDiff
  | .xor => sXor

/-- the set-algebra meaning of an expression (errors are the documented ones and are decided by
the expression and the schema alone) -/
def eval (st : St) : Expr → Except Err (List Nat)
  | .row f r =>
    match st.fieldType f with
    | none => .error .fieldNotFound
    | some _ => .ok (fieldCols st f viewStandard r)
  | .rowTime f r views =>
    match st.fieldType f with
    | none => .error .fieldNotFound
    | some t => if t ≠ .time then .ok [] else .ok (views.foldl (fun acc v => sUnion acc (fieldCols st f v r)) [])
  | .rowCond f c =>
    match st.fieldType f with
    | none => .error .fieldNotFound
    | some t => if t ≠ .int then .error .bsiNotFound else .ok (condCols st f c)
  | .empty op =>
    match op with
    | .union => .ok []
    | .xor => .ok []
    | _ => .error .emptyOp
  | .bin op a b => do
    let ra ← eval st a
    let rb ← eval st b
    pure (setOp op ra rb)
  | .not a =>
    if !st.exist then .error .noExistence
    else do
      let ra ← eval st a
      pure (sDiff (existCols st) ra)
  | .notArity => .error .notArity
  | .shift n a => do
    let ra ← eval st a
    if n < 0 then .error .negShift else pure (ra.map (· + n.toNat))
  | .shiftArity => .error .shiftArity

/-- no Shift inside `e` moves a column of its operand across a shard boundary (the region in which
per-shard execution can be right) -/
def noCarry (st : St) : Expr → Bool
  | .bin _ a b => noCarry st a && noCarry st b
  | .not a => noCarry st a
  | .shift n a =>
    noCarry st a &&
    (match eval st a with
     | .ok cs => cs.all (fun c => c % ShardWidth + n.toNat < ShardWidth)
     | .error _ => true)
  | _ => true

/-- documented effect of `Store(e, f=r)`: row r of f becomes exactly the value of e. -/
def store (st : St) (f : String) (r : Nat) (e : Expr) : Except Err St :=
  match st.fieldType f with
  | none => .error .fieldNotFound
  | some t =>
    if t ≠ .set then .error .storeType else do
      let cs ← eval st e
      let kept := st.bits.filter (fun b => !(b.field = f ∧ b.view = viewStandard ∧ b.row = r))
      pure { st with bits := kept ++ cs.map (fun c => (⟨f, viewStandard, r, c⟩ : Bit)) }

end PV.C15.Spec
