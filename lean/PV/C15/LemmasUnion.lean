/-
C15 helper lemmas, part 2 (core Lean only): Row.Union (the k-way walk) and Row.Shift on the shapes a
shard evaluation produces.
-/
import PV.C15.Lemmas
namespace PV.C15
open List

/-- every list is empty or the single segment of shard `s` -/
def Singles (s : Nat) (ls : List Row) : Prop := ∀ l ∈ ls, l = [] ∨ ∃ cs, l = [⟨s, cs⟩]

theorem unionLoop_all_nil (f : Nat) (ls : List Row) (h : ∀ l ∈ ls, l = []) : Row.unionLoop f ls = [] := by
  cases f with
  | zero => rfl
  | succ f =>
    have : ls.filter Row.nonEmpty = [] := by
      apply filter_eq_nil_iff.mpr
      intro l hl; rw [h l hl]; simp [Row.nonEmpty]
    simp [Row.unionLoop, this, Row.minShard]

theorem minShard_singles (s : Nat) (ls : List Row) (h : ∀ l ∈ ls, ∃ cs, l = [⟨s, cs⟩]) (hne : ls ≠ []) :
    Row.minShard ls = some s := by
  induction ls with
  | nil => exact absurd rfl hne
  | cons l ls ih =>
    obtain ⟨cs, hl⟩ := h l (by simp)
    subst hl
    simp only [Row.minShard]
    by_cases hls : ls = []
    · subst hls; simp [Row.minShard]
    · rw [ih (fun l hl => h l (by simp [hl])) hls]; simp

theorem mem_foldl_sUnion (rest : List Seg) (init : List Nat) (c : Nat) :
    c ∈ rest.foldl (fun acc o => sUnion acc o.cols) init ↔ c ∈ init ∨ ∃ o ∈ rest, c ∈ o.cols := by
  induction rest generalizing init with
  | nil => simp
  | cons o os ih =>
    simp only [foldl_cons, ih, mem_sUnion, mem_cons]
    constructor
    · rintro ((h | h) | ⟨o', ho', h⟩)
      · exact Or.inl h
      · exact Or.inr ⟨o, Or.inl rfl, h⟩
      · exact Or.inr ⟨o', Or.inr ho', h⟩
    · rintro (h | ⟨o', (rfl | ho'), h⟩)
      · exact Or.inl (Or.inl h)
      · exact Or.inl (Or.inr h)
      · exact Or.inr ⟨o', ho', h⟩

/-- one round of the k-way union over lists that are empty or the single segment of shard `s` -/
theorem unionLoop_singles (s f : Nat) (ls : List Row) (h : Singles s ls) :
    (Row.unionLoop (f + 1) ls = [] ∨ ∃ U, Row.unionLoop (f + 1) ls = [⟨s, U⟩]) ∧
    ∀ c, c ∈ Row.cols (Row.unionLoop (f + 1) ls) ↔ ∃ l ∈ ls, c ∈ Row.cols l := by
  -- the non-empty lists
  have hfil : ∀ l ∈ ls.filter Row.nonEmpty, ∃ cs, l = [⟨s, cs⟩] := by
    intro l hl
    have ⟨hl1, hl2⟩ := mem_filter.mp hl
    rcases h l hl1 with rfl | h'
    · simp [Row.nonEmpty] at hl2
    · exact h'
  by_cases hne : ls.filter Row.nonEmpty = []
  · have hall : ∀ l ∈ ls, l = [] := by
      intro l hl
      rcases h l hl with rfl | ⟨cs, rfl⟩
      · rfl
      · have : ([⟨s, cs⟩] : Row) ∈ ls.filter Row.nonEmpty := mem_filter.mpr ⟨hl, by simp [Row.nonEmpty]⟩
        rw [hne] at this; cases this
    rw [unionLoop_all_nil _ _ hall]
    refine ⟨Or.inl rfl, ?_⟩
    intro c
    constructor
    · intro hc; simp [Row.cols] at hc
    · rintro ⟨l, hl, hc⟩; rw [hall l hl] at hc; simp [Row.cols] at hc
  · have hmin := minShard_singles s _ hfil hne
    simp only [Row.unionLoop, hmin]
    -- next round: everything consumed
    have hnext : ∀ l ∈ (ls.filter Row.nonEmpty).map (Row.dropIf s), l = [] := by
      intro l hl
      obtain ⟨l0, hl0, rfl⟩ := mem_map.mp hl
      obtain ⟨cs, rfl⟩ := hfil l0 hl0
      simp [Row.dropIf]
    rw [unionLoop_all_nil _ _ hnext]
    generalize hP : (ls.filter Row.nonEmpty).filterMap (Row.headIf s) = P
    have hPmem : ∀ sg, sg ∈ P ↔ ([sg] : Row) ∈ ls ∧ sg.shard = s := by
      intro sg
      rw [← hP, mem_filterMap]
      constructor
      · rintro ⟨l, hl, hh⟩
        obtain ⟨cs, rfl⟩ := hfil l hl
        simp [Row.headIf] at hh; subst hh
        exact ⟨(mem_filter.mp hl).1, rfl⟩
      · rintro ⟨hl, hs⟩
        exact ⟨[sg], mem_filter.mpr ⟨hl, by simp [Row.nonEmpty]⟩, by simp [Row.headIf, hs]⟩
    have hPne : P ≠ [] := by
      intro hp
      obtain ⟨l, hl⟩ := exists_mem_of_ne_nil _ hne
      obtain ⟨cs, rfl⟩ := hfil l hl
      have : (⟨s, cs⟩ : Seg) ∈ P := (hPmem _).mpr ⟨(mem_filter.mp hl).1, rfl⟩
      rw [hp] at this; cases this
    cases P with
    | nil => exact absurd rfl hPne
    | cons p ps =>
      have hp := ((hPmem p).mp (by simp)).2
      refine ⟨Or.inr ⟨ps.foldl (fun acc o => sUnion acc o.cols) p.cols, by simp [Row.unionSegs, hp]⟩, ?_⟩
      intro c
      simp only [Row.unionSegs, Row.cols, flatMap_cons, flatMap_nil, append_nil, mem_foldl_sUnion]
      constructor
      · rintro (hc | ⟨o, ho, hc⟩)
        · exact ⟨[p], ((hPmem p).mp (by simp)).1, by simpa using hc⟩
        · exact ⟨[o], ((hPmem o).mp (by simp [ho])).1, by simpa using hc⟩
      · rintro ⟨l, hl, hc⟩
        rcases h l hl with rfl | ⟨cs, rfl⟩
        · simp at hc
        · have hm : (⟨s, cs⟩ : Seg) ∈ p :: ps := (hPmem _).mpr ⟨hl, rfl⟩
          simp only [flatMap_cons, flatMap_nil, append_nil] at hc
          rcases mem_cons.mp hm with e | hm
          · left; rw [← e]; exact hc
          · right; exact ⟨_, hm, hc⟩

theorem unionK_singles (s : Nat) (r : Row) (others : List Row) (h : Singles s (r :: others)) :
    (Row.unionK r others = [] ∨ ∃ U, Row.unionK r others = [⟨s, U⟩]) ∧
    ∀ c, c ∈ Row.cols (Row.unionK r others) ↔ ∃ l ∈ r :: others, c ∈ Row.cols l := by
  unfold Row.unionK
  cases hf : ((r :: others).map List.length).sum with
  | zero =>
    have hall : ∀ l ∈ r :: others, l = [] := by
      intro l hl
      have : l.length ≤ ((r :: others).map List.length).sum := by
        clear hf h
        generalize r :: others = ls at hl
        induction ls with
        | nil => cases hl
        | cons x xs ih =>
          simp only [map_cons, sum_cons]
          rcases mem_cons.mp hl with rfl | hl
          · omega
          · have := ih hl; omega
      rw [hf] at this
      exact length_eq_zero_iff.mp (by omega)
    have e0 : Row.unionLoop 0 (r :: others) = [] := rfl
    rw [e0]
    refine ⟨Or.inl rfl, ?_⟩
    intro c
    constructor
    · intro hc; simp [Row.cols] at hc
    · rintro ⟨l, hl, hc⟩; rw [hall l hl] at hc; simp [Row.cols] at hc
  | succ f => exact unionLoop_singles s f _ h

theorem singles_of_local (s : Nat) (ls : List Row) (h : ∀ l ∈ ls, Local s l) : Singles s ls := by
  intro l hl
  rcases h l hl with rfl | ⟨cs, rfl, _⟩
  · exact Or.inl rfl
  · exact Or.inr ⟨cs, rfl⟩

theorem union_local (s : Nat) (a b : Row) (ha : Local s a) (hb : Local s b) :
    Local s (a.union b) ∧ ∀ c, c ∈ Row.cols (a.union b) ↔ c ∈ Row.cols a ∨ c ∈ Row.cols b := by
  have hS : Singles s [a, b] := singles_of_local s _ (by
    intro l hl; simp only [mem_cons, not_mem_nil, or_false] at hl
    rcases hl with rfl | rfl
    · exact ha
    · exact hb)
  obtain ⟨hshape, hmem⟩ := unionK_singles s a [b] hS
  have hm : ∀ c, c ∈ Row.cols (a.union b) ↔ c ∈ Row.cols a ∨ c ∈ Row.cols b := by
    intro c
    unfold Row.union
    rw [hmem c]; simp
  refine ⟨?_, hm⟩
  unfold Row.union at hm ⊢
  rcases hshape with h0 | ⟨U, hU⟩
  · rw [h0]; exact local_nil s
  · rw [hU]
    apply local_single
    intro c hc
    have : c ∈ Row.cols (Row.unionK a [b]) := by rw [hU]; simpa [Row.cols] using hc
    rcases (hm c).mp this with h | h
    · exact local_mem_shard s a ha c h
    · exact local_mem_shard s b hb c h

/-! ### Shift without a carry -/

theorem shift1_local (s : Nat) (cs : List Nat) (h : ∀ c ∈ cs, c / ShardWidth = s ∧ (c + 1) / ShardWidth = s) :
    Row.shift1 [⟨s, cs⟩] = [⟨s, cs.map (· + 1)⟩] := by
  have hnc : ∀ c ∈ cs.map (· + 1), ¬ (c / ContainerWidth = (s + 1) * (ShardWidth / ContainerWidth)) := by
    intro c hc
    obtain ⟨c0, hc0, rfl⟩ := mem_map.mp hc
    have := (h c0 hc0).2
    simp only [ShardWidth, ContainerWidth] at *
    omega
  have hfilter : (cs.map (· + 1)).filter (fun c => !decide (c / ContainerWidth = (s + 1) * (ShardWidth / ContainerWidth))) = cs.map (· + 1) := by
    apply filter_eq_self.mpr
    intro c hc; simpa using hnc c hc
  have hany : (cs.map (· + 1)).any (fun c => decide (c / ContainerWidth = (s + 1) * (ShardWidth / ContainerWidth))) = false := by
    rw [any_eq_false]
    intro c hc; simpa using hnc c hc
  simp only [Row.shift1, map_cons, map_nil, hfilter, hany]
  simp

theorem shift_local (s n : Nat) (cs : List Nat) (h : ∀ c ∈ cs, c / ShardWidth = s ∧ c % ShardWidth + n < ShardWidth) :
    Row.shift n [⟨s, cs⟩] = [⟨s, cs.map (· + n)⟩] := by
  induction n generalizing cs with
  | zero => simp [Row.shift]
  | succ n ih =>
    simp only [Row.shift]
    rw [shift1_local s cs]
    · rw [ih]
      · simp only [map_map]
        congr 2
        apply map_congr_left
        intro c _; simp; omega
      · intro c hc
        obtain ⟨c0, hc0, rfl⟩ := mem_map.mp hc
        have ⟨h1, h2⟩ := h c0 hc0
        simp only [ShardWidth] at *
        omega
    · intro c hc
      have ⟨h1, h2⟩ := h c hc
      simp only [ShardWidth] at *
      omega

theorem shift_nil (n : Nat) : Row.shift n [] = [] := by
  induction n with
  | zero => rfl
  | succ n ih => simp [Row.shift, Row.shift1, ih]

end PV.C15
