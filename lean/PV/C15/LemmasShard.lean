/-
C15 helper lemmas, part 5 (core Lean only): shard locality of Merge / Intersect / Difference / Xor on
arbitrary rows with ascending segments (the walk of mergeSegmentIterator).
-/
import PV.C15.Lemmas
namespace PV.C15
open List

/-- segments in ascending shard order, one per shard (the invariant of `Row.segments`) -/
def Asc (r : Row) : Prop := r.Pairwise (fun a b => a.shard < b.shard)

/-- the columns of row `r` held in the segment(s) of shard `s` -/
def colsAt (r : Row) (s : Nat) : List Nat := (r.filter (fun sg => sg.shard = s)).flatMap (·.cols)

theorem mem_colsAt (r : Row) (s c : Nat) : c ∈ colsAt r s ↔ ∃ sg ∈ r, sg.shard = s ∧ c ∈ sg.cols := by
  simp only [colsAt, mem_flatMap, mem_filter, decide_eq_true_eq]
  constructor
  · rintro ⟨sg, ⟨h1, h2⟩, h3⟩; exact ⟨sg, h1, h2, h3⟩
  · rintro ⟨sg, h1, h2, h3⟩; exact ⟨sg, ⟨h1, h2⟩, h3⟩

theorem colsAt_cons (x : Seg) (xs : Row) (s c : Nat) :
    c ∈ colsAt (x :: xs) s ↔ (x.shard = s ∧ c ∈ x.cols) ∨ c ∈ colsAt xs s := by
  simp only [mem_colsAt, mem_cons]
  constructor
  · rintro ⟨sg, (rfl | h), h2, h3⟩
    · exact Or.inl ⟨h2, h3⟩
    · exact Or.inr ⟨sg, h, h2, h3⟩
  · rintro (⟨h2, h3⟩ | ⟨sg, h, h2, h3⟩)
    · exact ⟨x, Or.inl rfl, h2, h3⟩
    · exact ⟨sg, Or.inr h, h2, h3⟩

theorem colsAt_nil (s c : Nat) : ¬ c ∈ colsAt [] s := by simp [colsAt]

/-- in an ascending row nothing after the head lives in a shard <= the head's -/
theorem asc_tail_none (x : Seg) (xs : Row) (h : Asc (x :: xs)) (s c : Nat) (hs : s ≤ x.shard) :
    ¬ c ∈ colsAt xs s := by
  rw [mem_colsAt]
  rintro ⟨sg, hsg, h2, _⟩
  have := (pairwise_cons.mp h).1 sg hsg
  omega

theorem asc_all_none (x : Seg) (xs : Row) (h : Asc (x :: xs)) (s c : Nat) (hs : s < x.shard) :
    ¬ c ∈ colsAt (x :: xs) s := by
  rw [colsAt_cons]
  rintro (⟨h1, _⟩ | h2)
  · omega
  · exact asc_tail_none x xs h s c (Nat.le_of_lt hs) h2

theorem asc_tail (x : Seg) (xs : Row) (h : Asc (x :: xs)) : Asc xs := (pairwise_cons.mp h).2

section generic
variable (F : Option Seg × Option Seg → Option Seg) (G : Prop → Prop → Prop)

/-- what one step of a Row operation does with the pair the iterator hands it, per column -/
structure StepSpec : Prop where
  ff : ¬ G False False
  left : ∀ x s c, (∃ sg, F (some x, none) = some sg ∧ sg.shard = s ∧ c ∈ sg.cols) ↔ (x.shard = s ∧ G (c ∈ x.cols) False)
  right : ∀ y s c, (∃ sg, F (none, some y) = some sg ∧ sg.shard = s ∧ c ∈ sg.cols) ↔ (y.shard = s ∧ G False (c ∈ y.cols))
  both : ∀ x y s c, x.shard = y.shard →
    ((∃ sg, F (some x, some y) = some sg ∧ sg.shard = s ∧ c ∈ sg.cols) ↔ (x.shard = s ∧ G (c ∈ x.cols) (c ∈ y.cols)))

variable {F G}

theorem colsAt_filterMap_cons (p : Option Seg × Option Seg) (ps : List (Option Seg × Option Seg)) (s c : Nat) :
    c ∈ colsAt ((p :: ps).filterMap F) s ↔
      (∃ sg, F p = some sg ∧ sg.shard = s ∧ c ∈ sg.cols) ∨ c ∈ colsAt (ps.filterMap F) s := by
  simp only [filterMap_cons]
  cases hF : F p with
  | none => simp
  | some sg => rw [colsAt_cons]; simp

theorem zip_colsAt (hS : StepSpec F G) (f : Nat) (a b : Row) (ha : Asc a) (hb : Asc b)
    (hf : a.length + b.length ≤ f) (s c : Nat) :
    c ∈ colsAt ((zipSegs f a b).filterMap F) s ↔ G (c ∈ colsAt a s) (c ∈ colsAt b s) := by
  induction f generalizing a b with
  | zero =>
    have ha' : a = [] := by cases a with | nil => rfl | cons _ _ => simp at hf
    have hb' : b = [] := by cases b with | nil => rfl | cons _ _ => simp at hf
    subst ha'; subst hb'
    simp only [zipSegs, filterMap_nil]
    have h1 : (c ∈ colsAt [] s) = False := eq_false (colsAt_nil s c)
    rw [h1]; simp [hS.ff]
  | succ f ih =>
    have hnil : (c ∈ colsAt [] s) = False := eq_false (colsAt_nil s c)
    cases a with
    | nil =>
      cases b with
      | nil => simp only [zipSegs, filterMap_nil, hnil]; simp [hS.ff]
      | cons y ys =>
        simp only [zipSegs]
        rw [colsAt_filterMap_cons, hS.right, ih [] ys ha (asc_tail y ys hb) (by simp at hf ⊢; omega)]
        rw [hnil]
        by_cases hy : y.shard = s
        · have : (c ∈ colsAt ys s) = False := eq_false (asc_tail_none y ys hb s c (by omega))
          have e : (c ∈ colsAt (y :: ys) s) = (c ∈ y.cols) := by
            apply propext; rw [colsAt_cons, this]; simp [hy]
          rw [this, e]; simp [hy, hS.ff]
        · have e : (c ∈ colsAt (y :: ys) s) = (c ∈ colsAt ys s) := by
            apply propext; rw [colsAt_cons]; simp [hy]
          rw [e]; simp [hy]
    | cons x xs =>
      cases b with
      | nil =>
        simp only [zipSegs]
        rw [colsAt_filterMap_cons, hS.left, ih xs [] (asc_tail x xs ha) hb (by simp at hf ⊢; omega)]
        rw [hnil]
        by_cases hx : x.shard = s
        · have : (c ∈ colsAt xs s) = False := eq_false (asc_tail_none x xs ha s c (by omega))
          have e : (c ∈ colsAt (x :: xs) s) = (c ∈ x.cols) := by
            apply propext; rw [colsAt_cons, this]; simp [hx]
          rw [this, e]; simp [hx, hS.ff]
        · have e : (c ∈ colsAt (x :: xs) s) = (c ∈ colsAt xs s) := by
            apply propext; rw [colsAt_cons]; simp [hx]
          rw [e]; simp [hx]
      | cons y ys =>
        simp only [zipSegs]
        split
        · next hlt =>
          -- x first
          rw [colsAt_filterMap_cons, hS.left, ih xs (y :: ys) (asc_tail x xs ha) hb (by simp at hf ⊢; omega)]
          by_cases hx : x.shard = s
          · have h1 : (c ∈ colsAt xs s) = False := eq_false (asc_tail_none x xs ha s c (by omega))
            have h2 : (c ∈ colsAt (y :: ys) s) = False := eq_false (asc_all_none y ys hb s c (by omega))
            have e : (c ∈ colsAt (x :: xs) s) = (c ∈ x.cols) := by
              apply propext; rw [colsAt_cons, h1]; simp [hx]
            rw [h1, h2, e]; simp [hx, hS.ff]
          · have e : (c ∈ colsAt (x :: xs) s) = (c ∈ colsAt xs s) := by
              apply propext; rw [colsAt_cons]; simp [hx]
            rw [e]; simp [hx]
        · next hnlt =>
          split
          · next hgt =>
            rw [colsAt_filterMap_cons, hS.right, ih (x :: xs) ys ha (asc_tail y ys hb) (by simp at hf ⊢; omega)]
            by_cases hy : y.shard = s
            · have h1 : (c ∈ colsAt ys s) = False := eq_false (asc_tail_none y ys hb s c (by omega))
              have h2 : (c ∈ colsAt (x :: xs) s) = False := eq_false (asc_all_none x xs ha s c (by omega))
              have e : (c ∈ colsAt (y :: ys) s) = (c ∈ y.cols) := by
                apply propext; rw [colsAt_cons, h1]; simp [hy]
              rw [h1, h2, e]; simp [hy, hS.ff]
            · have e : (c ∈ colsAt (y :: ys) s) = (c ∈ colsAt ys s) := by
                apply propext; rw [colsAt_cons]; simp [hy]
              rw [e]; simp [hy]
          · next hngt =>
            have heq : x.shard = y.shard := by omega
            rw [colsAt_filterMap_cons, hS.both x y s c heq,
              ih xs ys (asc_tail x xs ha) (asc_tail y ys hb) (by simp at hf ⊢; omega)]
            by_cases hx : x.shard = s
            · have h1 : (c ∈ colsAt xs s) = False := eq_false (asc_tail_none x xs ha s c (by omega))
              have h2 : (c ∈ colsAt ys s) = False := eq_false (asc_tail_none y ys hb s c (by omega))
              have e1 : (c ∈ colsAt (x :: xs) s) = (c ∈ x.cols) := by
                apply propext; rw [colsAt_cons, h1]; simp [hx]
              have e2 : (c ∈ colsAt (y :: ys) s) = (c ∈ y.cols) := by
                apply propext; rw [colsAt_cons, h2]; simp [← heq, hx]
              rw [h1, h2, e1, e2]; simp [hx, hS.ff]
            · have e1 : (c ∈ colsAt (x :: xs) s) = (c ∈ colsAt xs s) := by
                apply propext; rw [colsAt_cons]; simp [hx]
              have e2 : (c ∈ colsAt (y :: ys) s) = (c ∈ colsAt ys s) := by
                apply propext; rw [colsAt_cons]; simp [← heq, hx]
              rw [e1, e2]; simp [hx]

end generic

def interF : Option Seg × Option Seg → Option Seg
  | (some s0, some s1) => some ⟨s0.shard, sInter s0.cols s1.cols⟩
  | _ => none
def xorF : Option Seg × Option Seg → Option Seg
  | (some s0, none) => some s0
  | (none, some s1) => some s1
  | (some s0, some s1) => some ⟨s0.shard, sXor s0.cols s1.cols⟩
  | (none, none) => none
def diffF : Option Seg × Option Seg → Option Seg
  | (none, _) => none
  | (some s0, none) => some s0
  | (some s0, some s1) => some ⟨s0.shard, sDiff s0.cols s1.cols⟩

theorem inter_eq (a b : Row) : a.inter b = (zipRows a b).filterMap interF := by unfold Row.inter interF; rfl
theorem xor_eq (a b : Row) : a.xor b = (zipRows a b).filterMap xorF := by unfold Row.xor xorF; rfl
theorem diff_eq (a b : Row) : a.diff b = (zipRows a b).filterMap diffF := by unfold Row.diff diffF; rfl

theorem interSpec : StepSpec interF (fun p q => p ∧ q) where
  ff := by simp
  left := by intro x s c; simp [interF]
  right := by intro y s c; simp [interF]
  both := by
    intro x y s c _
    simp only [interF, Option.some.injEq]
    constructor
    · rintro ⟨sg, rfl, h2, h3⟩; exact ⟨h2, (mem_sInter _ _ _).mp h3⟩
    · rintro ⟨h2, h3⟩; exact ⟨_, rfl, h2, (mem_sInter _ _ _).mpr h3⟩

theorem diffSpec : StepSpec diffF (fun p q => p ∧ ¬ q) where
  ff := by simp
  left := by
    intro x s c
    simp only [diffF, Option.some.injEq, not_false_eq_true, and_true]
    constructor
    · rintro ⟨sg, rfl, h2, h3⟩; exact ⟨h2, h3⟩
    · rintro ⟨h2, h3⟩; exact ⟨_, rfl, h2, h3⟩
  right := by intro y s c; simp [diffF]
  both := by
    intro x y s c _
    simp only [diffF, Option.some.injEq]
    constructor
    · rintro ⟨sg, rfl, h2, h3⟩; exact ⟨h2, (mem_sDiff _ _ _).mp h3⟩
    · rintro ⟨h2, h3⟩; exact ⟨_, rfl, h2, (mem_sDiff _ _ _).mpr h3⟩

theorem xorSpec : StepSpec xorF (fun p q => (p ∧ ¬ q) ∨ (q ∧ ¬ p)) where
  ff := by simp
  left := by
    intro x s c
    simp only [xorF, Option.some.injEq, not_false_eq_true, and_true, false_and, or_false]
    constructor
    · rintro ⟨sg, rfl, h2, h3⟩; exact ⟨h2, h3⟩
    · rintro ⟨h2, h3⟩; exact ⟨_, rfl, h2, h3⟩
  right := by
    intro y s c
    simp only [xorF, Option.some.injEq, false_and, not_false_eq_true, and_true, false_or]
    constructor
    · rintro ⟨sg, rfl, h2, h3⟩; exact ⟨h2, h3⟩
    · rintro ⟨h2, h3⟩; exact ⟨_, rfl, h2, h3⟩
  both := by
    intro x y s c _
    simp only [xorF, Option.some.injEq]
    constructor
    · rintro ⟨sg, rfl, h2, h3⟩; exact ⟨h2, (mem_sXor _ _ _).mp h3⟩
    · rintro ⟨h2, h3⟩; exact ⟨_, rfl, h2, (mem_sXor _ _ _).mpr h3⟩

theorem mergeSpec : StepSpec mergeF (fun p q => p ∨ q) where
  ff := by simp
  left := by
    intro x s c
    simp only [mergeF, Option.some.injEq, or_false]
    constructor
    · rintro ⟨sg, rfl, h2, h3⟩; exact ⟨h2, h3⟩
    · rintro ⟨h2, h3⟩; exact ⟨_, rfl, h2, h3⟩
  right := by
    intro y s c
    simp only [mergeF, Option.some.injEq, false_or]
    constructor
    · rintro ⟨sg, rfl, h2, h3⟩; exact ⟨h2, h3⟩
    · rintro ⟨h2, h3⟩; exact ⟨_, rfl, h2, h3⟩
  both := by
    intro x y s c _
    simp only [mergeF, Option.some.injEq]
    constructor
    · rintro ⟨sg, rfl, h2, h3⟩; exact ⟨h2, (mem_sUnion _ _ _).mp h3⟩
    · rintro ⟨h2, h3⟩; exact ⟨_, rfl, h2, (mem_sUnion _ _ _).mpr h3⟩

theorem inter_colsAt (a b : Row) (ha : Asc a) (hb : Asc b) (s c : Nat) :
    c ∈ colsAt (a.inter b) s ↔ c ∈ colsAt a s ∧ c ∈ colsAt b s := by
  rw [inter_eq]; exact zip_colsAt interSpec _ a b ha hb (Nat.le_refl _) s c

theorem diff_colsAt (a b : Row) (ha : Asc a) (hb : Asc b) (s c : Nat) :
    c ∈ colsAt (a.diff b) s ↔ c ∈ colsAt a s ∧ c ∉ colsAt b s := by
  rw [diff_eq]; exact zip_colsAt diffSpec _ a b ha hb (Nat.le_refl _) s c

theorem xor_colsAt (a b : Row) (ha : Asc a) (hb : Asc b) (s c : Nat) :
    c ∈ colsAt (a.xor b) s ↔ (c ∈ colsAt a s ∧ c ∉ colsAt b s) ∨ (c ∈ colsAt b s ∧ c ∉ colsAt a s) := by
  rw [xor_eq]; exact zip_colsAt xorSpec _ a b ha hb (Nat.le_refl _) s c

theorem merge_colsAt (a b : Row) (ha : Asc a) (hb : Asc b) (s c : Nat) :
    c ∈ colsAt (a.merge b) s ↔ c ∈ colsAt a s ∨ c ∈ colsAt b s := by
  rw [merge_eq]; exact zip_colsAt mergeSpec _ a b ha hb (Nat.le_refl _) s c

end PV.C15
