/-
Line protocol shared by every model driver (`pm_cXX`).

The Go harness writes one operation per line (`ops.txt`); the driver prints exactly one
output line per input line.  A line `case <k>` starts a fresh case (state reset) and is
answered by `-`.  An output line is `<model>` when the model and the abstract spec agree and
`<model>\t#spec <spec>\t#tag <tag>` when the model (which follows the code) and the spec part:
`tag` names the model branch at which they part (matched against known_findings.jsonl).
Core Lean only: this file is linked into the `lean_exe` drivers.
-/
namespace PV.Proto

def words (s : String) : List String :=
  (s.splitOn " ").filter (· ≠ "")

def natList? (ws : List String) : Option (List Nat) :=
  ws.mapM String.toNat?

def int? (s : String) : Option Int := s.toInt?

def intList? (ws : List String) : Option (List Int) :=
  ws.mapM String.toInt?

def showNats (xs : List Nat) : String :=
  "[" ++ " ".intercalate (xs.map toString) ++ "]"

def showInts (xs : List Int) : String :=
  "[" ++ " ".intercalate (xs.map toString) ++ "]"

def showBool (b : Bool) : String := if b then "true" else "false"

/-- Parse `a,b,c` (possibly empty string or `-`) into a list of naturals. -/
def csvNats? (s : String) : Option (List Nat) :=
  if s = "-" || s = "" then some [] else (s.splitOn ",").mapM String.toNat?

def csvInts? (s : String) : Option (List Int) :=
  if s = "-" || s = "" then some [] else (s.splitOn ",").mapM String.toInt?

/-- One answer of a driver step. -/
structure Ans where
  model : String
  spec  : Option String := none   -- `none` = same as model
  tag   : String := ""

def Ans.render (a : Ans) : String :=
  match a.spec with
  | none => a.model
  | some s => if s = a.model then a.model else a.model ++ "\t#spec " ++ s ++ "\t#tag " ++ a.tag

def ans (m : String) : Ans := { model := m }
def ans2 (m s tag : String) : Ans := { model := m, spec := some s, tag := tag }

/-- Generic driver loop: `init` is the state at the start of every case. -/
partial def loop {σ : Type} (h : IO.FS.Stream) (out : IO.FS.Stream) (init : σ)
    (step : σ → List String → σ × Ans) (s : σ) : IO Unit := do
  let line ← h.getLine
  if line.isEmpty then
    out.flush
    return ()
  let ws := words (line.trimAscii.toString)
  match ws with
  | "case" :: _ =>
    out.putStrLn "-"
    loop h out init step init
  | _ =>
    let (s', a) := step s ws
    out.putStrLn a.render
    loop h out init step s'

def run {σ : Type} (init : σ) (step : σ → List String → σ × Ans) : IO Unit := do
  let stdin ← IO.getStdin
  let stdout ← IO.getStdout
  loop stdin stdout init step init

end PV.Proto
