/-
C13 property theorems: mutex and bool fields hold at most one value per column, and it is the
last one written — including batches that repeat a column with conflicting rows.

Model: PV/C07/Model.lean (shared fragment model): `setBit` + `handleMutex`, `mutexGet`
(= rowsVector.Get / boolVector.Get = rows(0, filterColumn)), `bulkImportMutex` as coded after the
fix (colSet = row of the LAST occurrence of each column, then one lookup per distinct column
against the pre-batch storage), clear imports, clearRow.
Spec: PV/C07/Spec.lean `MState = column → Option row`, `mstep`: last write wins, a batch is
applied left to right.

`WF H s` for a mutex / bool fragment: storage ascending ∧ AtMostOne ∧ (bool: only rows 0, 1).
`OpOK kind op`: operations that reach such a fragment through the API (Set, Clear, Import set /
clear, ClearRow, reads, snapshots; Store and roaring imports are refused for these field types)
with, for bool, rows 0 / 1 only (PQL translation; `Field.Import` refuses anything else — that
check is exercised on the real Field by the harness, `err:boolrow`).
Columns are in-shard offsets `c < SW`.
-/
import PV.C07.LemmasWF
namespace PV.C13
open PV.C07
open List hiding lookup

variable {η : Type}

/-- Invariant, one step: no column ever holds two rows. -/
theorem C13_at_most_one (H : List Nat → η) (s : Frag η) (op : Op) (hw : WF H s)
    (hk : s.kind ≠ .set) (hop : OpOK s.kind op) :
    AtMostOne (step H s op).1.bits ∧ WF H (step H s op).1 := by
  have h := wf_step hw op hop
  exact ⟨h.amo (by rw [step_kind]; exact hk), h⟩

/-- Invariant, all histories of Set / Clear / Import / ClearRow from a fresh mutex or bool fragment. -/
theorem C13_at_most_one_history (H : List Nat → η) (kind : Kind) (maxOpN : Nat) (ops : List Op)
    (hk : kind ≠ .set) (hall : AllOK kind ops) :
    AtMostOne (run H (Frag.empty kind maxOpN) ops).bits := by
  have h := (history ops (Frag.empty kind maxOpN) (wf_empty H kind maxOpN) hall).2.2
  exact h.amo (by rw [run_kind]; exact hk)

/-- Refinement, one step: the column → row view after the step is `mstep` of the view before
(the last write for a column wins), and the step answers what the specification answers (in
particular it never fails with "multiple row values" / "non-boolean value"). -/
theorem C13_last_wins (H : List Nat → η) (s : Frag η) (op : Op) (hw : WF H s)
    (hk : s.kind ≠ .set) (hop : OpOK s.kind op) :
    (∀ c, c < SW → Spec.mview (step H s op).1.bits c = Spec.mstep (Spec.mview s.bits) op c) ∧
    (step H s op).2 = Spec.out H s.kind s.bits op := by
  have hm : mutexOp op = true := by
    rcases hop with ⟨h, _⟩ | ⟨_, h, _⟩
    · exact absurd h hk
    · exact h
  refine ⟨?_, step_out hw op hop (by cases op <;> simp_all [mutexOp, isSetRow])⟩
  intro c hc
  rw [step_bits hw op hop]
  exact (agree_step hk hw.inv.sorted (hw.amo hk) (fun _ _ => rfl) op hm c hc).symm

/-- A batch that repeats a column: the row of the column's LAST entry is what the column holds
afterwards; columns the batch does not mention keep their value. -/
theorem C13_import_batch_last_wins (H : List Nat → η) (s : Frag η) (pairs : List (Nat × Nat))
    (hw : WF H s) (hk : s.kind ≠ .set) (hrows : s.kind = .bool → ∀ rc ∈ pairs, rc.1 ≤ 1) :
    ∀ c, c < SW → Spec.mview (step H s (.bulkImport false pairs)).1.bits c =
      match lastRowOf pairs c with
      | some r => some r
      | none => Spec.mview s.bits c := by
  intro c hc
  have hop : OpOK s.kind (.bulkImport false pairs) := Or.inr ⟨hk, rfl, hrows⟩
  rw [(C13_last_wins H s _ hw hk hop).1 c hc]
  simp only [Spec.mstep, Bool.false_eq_true, ↓reduceIte]
  exact foldl_mset pairs _ c

/-- Refinement, all histories from any well-formed mutex / bool fragment. -/
theorem C13_last_wins_run (H : List Nat → η) : ∀ (ops : List Op) (s : Frag η) (m : Spec.MState),
    WF H s → s.kind ≠ .set → AllOK s.kind ops → Agree m s.bits →
    Agree (ops.foldl Spec.mstep m) (run H s ops).bits
  | [], _, _, _, _, _, hm => hm
  | op :: ops, s, m, hw, hk, hall, hm => by
    have hop : OpOK s.kind op := hall op (by simp)
    have hmo : mutexOp op = true := by
      rcases hop with ⟨h, _⟩ | ⟨_, h, _⟩
      · exact absurd h hk
      · exact h
    have hkind := step_kind H s op
    have hstep : Agree (Spec.mstep m op) (step H s op).1.bits := by
      rw [step_bits hw op hop]
      exact agree_step hk hw.inv.sorted (hw.amo hk) hm op hmo
    simp only [foldl_cons, run]
    exact C13_last_wins_run H ops (step H s op).1 (Spec.mstep m op) (wf_step hw op hop)
      (by rw [hkind]; exact hk) (by rw [hkind]; exact fun o ho => hall o (by simp [ho])) hstep

/-- Refinement, all histories from a fresh mutex / bool fragment: the value of every column is
the last one written. -/
theorem C13_last_wins_history (H : List Nat → η) (kind : Kind) (maxOpN : Nat) (hk : kind ≠ .set)
    (ops : List Op) (hall : AllOK kind ops) :
    ∀ c, c < SW → Spec.mview (run H (Frag.empty kind maxOpN) ops).bits c =
      (ops.foldl Spec.mstep (fun _ => none)) c := by
  intro c hc
  exact ((C13_last_wins_run H ops (Frag.empty kind maxOpN) (fun _ => none) (wf_empty H kind maxOpN) hk hall
    (fun c _ => by simp [Spec.mview, rowsWithCol, Frag.empty])) c hc).symm

/-- A restart — close + reopen of the fragment, its field, the holder or the whole server, at any
position of a history (`Op.reopen` is an ordinary member of the histories of
`C13_at_most_one_history` / `C13_last_wins_history`) — keeps the field's kind (hence its mutex
vector), the stored bits, every column's value and the invariant. -/
theorem C13_reopen (H : List Nat → η) (s : Frag η) (hw : WF H s) (hk : s.kind ≠ .set) :
    (step H s .reopen).1.kind = s.kind ∧ (step H s .reopen).1.bits = s.bits ∧
    WF H (step H s .reopen).1 ∧ AtMostOne (step H s .reopen).1.bits ∧
    ∀ c, Spec.mview (step H s .reopen).1.bits c = Spec.mview s.bits c :=
  ⟨rfl, rfl, wf_step hw .reopen (Or.inr ⟨hk, rfl, trivial⟩), hw.amo hk, fun _ => rfl⟩

/-- The first write after a restart still replaces the column's value: a Set on a column that
holds another row leaves exactly the new row. -/
theorem C13_set_after_reopen (H : List Nat → η) (s : Frag η) (r c : Nat) (hw : WF H s)
    (hk : s.kind ≠ .set) (hr : s.kind = .bool → r ≤ 1) (hc : c < SW) :
    Spec.mview (step H (step H s .reopen).1 (.setBit r c)).1.bits c = some r ∧
    AtMostOne (step H (step H s .reopen).1 (.setBit r c)).1.bits := by
  have h0 := C13_reopen H s hw hk
  have hk' : (step H s .reopen).1.kind ≠ .set := by rw [h0.1]; exact hk
  have hop : OpOK (step H s .reopen).1.kind (.setBit r c) :=
    Or.inr ⟨hk', rfl, by rw [h0.1]; exact hr⟩
  refine ⟨?_, (C13_at_most_one H _ _ h0.2.2.1 hk' hop).1⟩
  rw [(C13_last_wins H _ _ h0.2.2.1 hk' hop).1 c hc]
  simp [Spec.mstep, Spec.mset, Nat.mod_eq_of_lt hc]

/-! Non-vacuity and the scenario of the original defect (column 7 holds row 2, batch
[(1,7),(2,7)]): the model — like the repaired code — ends with row 2. -/

def exState : Frag (List Nat) := run id (Frag.empty .mutex 10000) [.setBit 2 7]

example : WF (id : List Nat → List Nat) exState :=
  (history [.setBit 2 7] _ (wf_empty _ _ _) (by
    intro op hop
    simp only [mem_cons, not_mem_nil, or_false] at hop
    subst hop
    exact Or.inr ⟨by decide, rfl, by intro h; cases h⟩)).2.2

example : Spec.mview (step id exState (.bulkImport false [(1, 7), (2, 7)])).1.bits 7 = some 2 := by decide

example : lastRowOf [(1, 7), (2, 7)] 7 = some 2 := by decide

/-- restart between two writes of the same column (the scenario of a lost mutex vector). -/
example : Spec.mview (run id (Frag.empty .mutex 10000) [.setBit 2 7, .reopen, .setBit 1 7]).bits 7 = some 1 ∧
    (run (id : List Nat → List Nat) (Frag.empty .mutex 10000) [.setBit 2 7, .reopen, .setBit 1 7]).bits = [pos 1 7] := by decide

end PV.C13
