/-
pm_c13: model driver for C13.  The line protocol and the step function are shared by C07, C10 and
C13 (one fragment model): see PV/C07/Driver.lean.
-/
import PV.C07.Driver

def main : IO Unit := PV.C07.Driver.main false
