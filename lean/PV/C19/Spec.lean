/-
C19 specification over the log of live timestamped sets: `Clear(c, f=r)` removes every live set
of (r, c); afterwards no view may hold the bit and no query may return it.  Core Lean only.
-/
import PV.C18.Spec
namespace PV.C19.Spec
open PV.C18 PV.C18.Spec

/-- Log after `Clear(c, f=r)`, and whether the bit was set. -/
def clear (log : List Ev) (r c : Nat) : List Ev × Bool :=
  (log.filter (fun ev => !(ev.row == r && ev.col == c)), log.any (fun ev => ev.row == r && ev.col == c))

/-- Log after `Set(c, f=r, t)`. -/
def set (log : List Ev) (r c : Nat) (t : Option Civil) : List Ev := log ++ [⟨r, c, t, true⟩]

end PV.C19.Spec
