/-
`Field.ClearBit` as it was BEFORE the fix (kept for the record of the defect, DESIGN section 8 #14):

    view, present := f.viewMap["standard"]; if !present { return false, nil }
    changed = view.clearBit(r, c)
    if len(f.viewMap) == 1 { return }
    lastViewNameSize, level, skipAbove := 0, 0, maxInt
    for _, view := range f.allTimeViewsSortedByQuantum() {
        if lastViewNameSize < len(view.name) { level++ } else if lastViewNameSize > len(view.name) { level-- }
        if level < skipAbove {
            changed = view.clearBit(r, c)
            if !changed { skipAbove = level + 1 } else { skipAbove = maxInt }
        }
        lastViewNameSize = len(view.name)
    }

`allTimeViewsSortedByQuantum` sorts the time views with `sort.Slice` and the comparator

    year := strings.Index(me[0].name, "_") + 4 ; month := year + 2 ; day := month + 2
    if lt, eq = groupCompare(a, b, year); eq { if lt, eq = groupCompare(a, b, month); eq {
        if lt, eq = groupCompare(a, b, day); eq { lt = strings.Compare(a, b) > 0 } } }

`strings.Index("standard_2001", "_")` is 8, so `year` = 12 and `name[:12]` is "standard_" plus THREE
digits: the groups are the first 3, 5 and 7 digits of the time part (not 4, 6, 8).
Core Lean only.
-/
import PV.C18.Field
import PV.C19.Model
namespace PV.C19.Old
open PV.C18 PV.C19

/-- `groupCompare(a, b, offset)` on the digits of the time part; `n` = digits kept. -/
def groupCompare (a b : VDigits) (n : Nat) : Bool × Bool :=
  (digitsLt (a.take n) (b.take n), a.take n == b.take n)

/-- The `less` function handed to `sort.Slice`. -/
def less (a b : VDigits) : Bool :=
  let g1 := groupCompare a b 3
  if g1.2 then
    let g2 := groupCompare a b 5
    if g2.2 then
      let g3 := groupCompare a b 7
      if g3.2 then digitsLt b a else g3.1
    else g2.1
  else g1.1

def timeDigits (v : FView) : Option VDigits :=
  match v.name with
  | .std => none
  | .tv ds => some ds

/-- `allTimeViewsSortedByQuantum`: the time-view names in the order of the comparator (which is a
strict total order, `C19_cmp_order`, so the sorted sequence does not depend on the algorithm). -/
def sortedTimeViews (f : Field) : List VDigits := sortBy less (f.views.filterMap timeDigits)

structure LoopSt where
  views : List FView
  changed : Bool
  last : Nat := 0
  level : Int := 0
  skipAbove : Option Int := none     -- none = maxInt

def clearNamed (views : List FView) (n : VName) (r c : Nat) : List FView × Bool :=
  (views.map (fun v => if v.name = n then (clearInView v r c).1 else v),
   views.any (fun v => v.name = n && (clearInView v r c).2))

def loopStep (r c : Nat) (st : LoopSt) (ds : VDigits) : LoopSt :=
  let len := 9 + ds.length                       -- len("standard_") + digits
  let level := if st.last < len then st.level + 1 else if st.last > len then st.level - 1 else st.level
  let doClear := match st.skipAbove with
    | none => true
    | some s => decide (level < s)
  if doClear then
    let res := clearNamed st.views (.tv ds) r c
    { views := res.1, changed := res.2, last := len, level := level,
      skipAbove := if res.2 then none else some (level + 1) }
  else { st with last := len, level := level }

/-- `Field.ClearBit` before the fix. -/
def clearBit (f : Field) (r c : Nat) : Field × Bool :=
  if f.views.any (fun v => v.name = .std) then
    let res := clearNamed f.views .std r c
    if f.views.length = 1 then ({ f with views := res.1 }, res.2)
    else
      let st := (sortedTimeViews f).foldl (loopStep r c) { views := res.1, changed := res.2 }
      ({ f with views := st.views }, st.changed)
  else (f, false)

end PV.C19.Old
