/-
Helper lemmas for the C19 theorems (core Lean only): the view list after ClearBit, membership in
sorted/deduplicated unions, writes to other bits leave a cleared bit cleared, and the
lexicographic-combination lemma behind `C19_cmp_order`.
-/
import PV.C19.Model
import PV.C19.Old
import PV.C19.Spec
namespace PV.C19
open PV.C18 List

theorem clearBit_views (f : Field) (r c : Nat) :
    (clearBit f r c).1.views = f.views.map (fun v => (clearInView v r c).1) := by
  simp only [clearBit, List.map_map]
  apply List.map_congr_left
  intro v _
  rcases v with ⟨n, bits⟩
  cases n <;> simp [Function.comp, isTimeView, clearInView]


theorem mem_insertNat (x y : Nat) (l : List Nat) : x ∈ insertNat y l ↔ x = y ∨ x ∈ l := by
  induction l with
  | nil => simp [insertNat]
  | cons z zs ih =>
    simp only [insertNat]
    split
    · simp
    · split
      · rename_i h; subst h; simp
      · simp [ih]; constructor <;> (intro h; rcases h with h | h | h <;> simp [h])

theorem mem_sortDedup (x : Nat) (l : List Nat) : x ∈ sortDedup l ↔ x ∈ l := by
  induction l with
  | nil => simp [sortDedup]
  | cons y ys ih =>
    have : sortDedup (y :: ys) = insertNat y (sortDedup ys) := rfl
    rw [this, mem_insertNat, ih]; simp

/-- A column returned by a union over any list of views is held by one of the field's views. -/
theorem mem_rowOfViews {f : Field} {r c : Nat} {names : List VName}
    (h : c ∈ f.rowOfViews r names) : ∃ v ∈ f.views, (r, c) ∈ v.bits := by
  simp only [Field.rowOfViews, mem_sortDedup, List.mem_flatMap] at h
  obtain ⟨n, _, hn⟩ := h
  cases hv : f.view? n with
  | none => simp [hv] at hn
  | some v =>
    simp only [hv, List.mem_map, List.mem_filter] at hn
    obtain ⟨b, ⟨hb, hr⟩, hc⟩ := hn
    refine ⟨v, List.mem_of_find?_eq_some hv, ?_⟩
    have : b = (r, c) := by
      cases b; simp at hr hc; simp [hr, hc]
    rw [← this]; exact hb


theorem setInViews_other {vs : List FView} {n : VName} {r c r' c' : Nat}
    (hne : (r', c') ≠ (r, c)) (h : ∀ v ∈ vs, (r, c) ∉ v.bits) :
    ∀ v ∈ (setInViews vs n r' c').1, (r, c) ∉ v.bits := by
  induction vs with
  | nil =>
    intro v hv
    simp only [setInViews, List.mem_singleton] at hv
    subst hv
    simp only [List.mem_singleton]
    exact fun e => hne e.symm
  | cons w ws ih =>
    intro v hv
    simp only [setInViews] at hv
    split at hv
    · split at hv
      · exact h v hv
      · rcases List.mem_cons.mp hv with rfl | hv
        · simp only [List.mem_cons, not_or]
          exact ⟨fun e => hne e.symm, h w (by simp)⟩
        · exact h v (by simp [hv])
    · rcases List.mem_cons.mp hv with rfl | hv
      · exact h _ (by simp)
      · exact ih (fun v hv => h v (by simp [hv])) v hv

theorem setBit_other {f : Field} {r c r' c' : Nat} {t : Option Civil}
    (hne : (r', c') ≠ (r, c)) (h : ∀ v ∈ f.views, (r, c) ∉ v.bits) :
    ∀ v ∈ (f.setBit r' c' t).1.views, (r, c) ∉ v.bits := by
  have h0 : ∀ v ∈ (if f.noStd then (f.views, false) else setInViews f.views .std r' c').1,
      (r, c) ∉ v.bits := by
    split
    · exact h
    · exact setInViews_other hne h
  unfold Field.setBit
  cases t with
  | none => exact h0
  | some t =>
    simp only
    generalize (if f.noStd then (f.views, false) else setInViews f.views .std r' c') = s0 at h0
    generalize viewsByTime t f.q = names
    induction names generalizing s0 with
    | nil => simpa using h0
    | cons n ns ih =>
      simp only [List.foldl_cons]
      apply ih
      exact setInViews_other hne h0


theorem clear_other {f : Field} {r c r' c' : Nat} (h : ∀ v ∈ f.views, (r, c) ∉ v.bits) :
    ∀ v ∈ (clearBit f r' c').1.views, (r, c) ∉ v.bits := by
  intro v hv
  rw [clearBit_views] at hv
  obtain ⟨w, hw, rfl⟩ := List.mem_map.mp hv
  simp only [clearInView, List.mem_filter, not_and]
  intro hb
  exact absurd hb (h w hw)


theorem clearInViews_other {vs : List FView} {n : VName} {r c r' c' : Nat}
    (h : ∀ v ∈ vs, (r, c) ∉ v.bits) : ∀ v ∈ clearInViews vs n r' c', (r, c) ∉ v.bits := by
  induction vs with
  | nil =>
    intro v hv
    simp only [clearInViews, List.mem_singleton] at hv
    subst hv; simp
  | cons w ws ih =>
    intro v hv
    simp only [clearInViews] at hv
    split at hv
    · rcases List.mem_cons.mp hv with rfl | hv
      · simp only [List.mem_filter, not_and]
        intro hb; exact absurd hb (h w (by simp))
      · exact h v (by simp [hv])
    · rcases List.mem_cons.mp hv with rfl | hv
      · exact h _ (by simp)
      · exact ih (fun v hv => h v (by simp [hv])) v hv

theorem importFold_other (q : Quantum) (noStd : Bool) {r c : Nat} {cl : Bool}
    (bits : List (Nat × Nat × Option Civil))
    (hne : cl = true ∨ ∀ b ∈ bits, (b.1, b.2.1) ≠ (r, c)) (vs : List FView)
    (h : ∀ v ∈ vs, (r, c) ∉ v.bits) :
    ∀ v ∈ bits.foldl (fun (vs : List FView) b =>
      let names : List VName := match b.2.2 with
        | none => if noStd then [] else [.std]
        | some t => (viewsByTime t q).map .tv ++ (if noStd then [] else [.std])
      names.foldl (fun vs n =>
        if cl then clearInViews vs n b.1 b.2.1 else (setInViews vs n b.1 b.2.1).1) vs) vs,
      (r, c) ∉ v.bits := by
  induction bits generalizing vs with
  | nil => simpa using h
  | cons b bs ih =>
    simp only [List.foldl_cons]
    apply ih (hne.imp id (fun hh b' hb' => hh b' (by simp [hb'])))
    generalize (match b.2.2 with
      | none => (if noStd then [] else [VName.std])
      | some t => (viewsByTime t q).map VName.tv ++ (if noStd then [] else [VName.std])) = names
    induction names generalizing vs with
    | nil => simpa using h
    | cons n ns ihn =>
      simp only [List.foldl_cons]
      apply ihn
      cases hcl : cl
      · simp only [Bool.false_eq_true, if_false]
        have : (b.1, b.2.1) ≠ (r, c) := by
          rcases hne with hh | hh
          · rw [hcl] at hh; cases hh
          · exact hh b (by simp)
        exact setInViews_other this h
      · simp only [if_true]
        exact clearInViews_other h

/-- An import that does not set (r, c) (a clear import never sets anything) leaves it cleared. -/
theorem importBits_other {f g : Field} {r c : Nat} {bits : List (Nat × Nat × Option Civil)} {cl : Bool}
    (hne : cl = true ∨ ∀ b ∈ bits, (b.1, b.2.1) ≠ (r, c))
    (h : ∀ v ∈ f.views, (r, c) ∉ v.bits) (hg : f.importBits bits cl = some g) :
    ∀ v ∈ g.views, (r, c) ∉ v.bits := by
  unfold Field.importBits at hg
  split at hg
  · cases hg
  · simp only [Option.some.injEq] at hg
    subst hg
    exact importFold_other f.q f.noStd bits hne f.views h

theorem mkView_other {f : Field} {n : VName} {r c : Nat} (h : ∀ v ∈ f.views, (r, c) ∉ v.bits) :
    ∀ v ∈ (f.mkView n).views, (r, c) ∉ v.bits := by
  unfold Field.mkView
  split
  · exact h
  · intro v hv
    simp only [List.mem_append, List.mem_singleton] at hv
    rcases hv with hv | rfl
    · exact h v hv
    · simp

structure StrictTotal {α : Type} (lt : α → α → Bool) : Prop where
  irrefl : ∀ a, lt a a = false
  trans : ∀ a b c, lt a b = true → lt b c = true → lt a c = true
  total : ∀ a b, a ≠ b → lt a b = true ∨ lt b a = true

theorem StrictTotal.asymm {α : Type} {lt : α → α → Bool} (h : StrictTotal lt) (a b : α)
    (hab : lt a b = true) : lt b a = false := by
  cases hba : lt b a with
  | false => rfl
  | true => have := h.trans a b a hab hba; rw [h.irrefl] at this; cases this

/-- Compare by a key first, then by `next`. -/
def lexLess {α β : Type} [DecidableEq α] (lt : α → α → Bool) (k : β → α) (next : β → β → Bool)
    (a b : β) : Bool :=
  if k a = k b then next a b else lt (k a) (k b)

theorem lexLess_strictTotal {α β : Type} [DecidableEq α] {lt : α → α → Bool} (hlt : StrictTotal lt)
    (k : β → α) {next : β → β → Bool} (hn : StrictTotal next) : StrictTotal (lexLess lt k next) where
  irrefl a := by simp [lexLess, hn.irrefl]
  trans a b c := by
    unfold lexLess
    by_cases h1 : k a = k b <;> by_cases h2 : k b = k c
    · intro hab hbc
      have h3 : k a = k c := h1.trans h2
      simp only [h1, if_true] at hab
      simp only [h2, if_true] at hbc
      simp only [h3, if_true]
      exact hn.trans a b c hab hbc
    · intro hab hbc
      have h3 : k a ≠ k c := fun e => h2 (h1.symm.trans e)
      simp only [h2, if_false] at hbc
      simp only [h3, if_false]
      rw [h1]; exact hbc
    · intro hab hbc
      have h3 : k a ≠ k c := fun e => h1 (e.trans h2.symm)
      simp only [h1, if_false] at hab
      simp only [h3, if_false]
      rw [← h2]; exact hab
    · intro hab hbc
      simp only [h1, if_false] at hab
      simp only [h2, if_false] at hbc
      have hac := hlt.trans _ _ _ hab hbc
      have h3 : k a ≠ k c := by
        intro e; rw [e] at hab
        have := hlt.asymm _ _ hbc; rw [hab] at this; cases this
      simp only [h3, if_false]; exact hac
  total a b hne := by
    unfold lexLess
    by_cases h : k a = k b
    · simp only [h, if_true]; exact hn.total a b hne
    · have h' : k b ≠ k a := fun e => h e.symm
      simp only [h, h', if_false]; exact hlt.total _ _ h

theorem digitsLt_strictTotal : StrictTotal digitsLt where
  irrefl a := by induction a with
    | nil => rfl
    | cons x xs ih => simp [digitsLt, ih]
  trans a := by
    induction a with
    | nil => intro b c h1 h2; cases b <;> cases c <;> simp_all [digitsLt]
    | cons x xs ih =>
      intro b c h1 h2
      cases b with
      | nil => simp [digitsLt] at h1
      | cons y ys =>
        cases c with
        | nil => simp [digitsLt] at h2
        | cons z zs =>
          simp only [digitsLt] at h1 h2 ⊢
          by_cases hxy : x < y
          · by_cases hyz : y < z
            · have : x < z := by omega
              simp [this]
            · by_cases hzy : z < y
              · simp [hyz, hzy] at h2
              · have : y = z := by omega
                subst this; simp [hxy]
          · by_cases hyx : y < x
            · simp [hxy, hyx] at h1
            · have : x = y := by omega
              subst this
              simp only [Nat.lt_irrefl, if_false] at h1
              by_cases hxz : x < z
              · simp [hxz]
              · by_cases hzx : z < x
                · simp [hxz, hzx] at h2
                · simp only [hxz, hzx, if_false] at h2 ⊢
                  exact ih ys zs h1 h2
  total a := by
    induction a with
    | nil => intro b h; cases b with
      | nil => exact absurd rfl h
      | cons y ys => simp [digitsLt]
    | cons x xs ih =>
      intro b h
      cases b with
      | nil => simp [digitsLt]
      | cons y ys =>
        simp only [digitsLt]
        by_cases hxy : x < y
        · simp [hxy]
        · by_cases hyx : y < x
          · simp [hyx]
          · have : x = y := by omega
            subst this
            simp only [Nat.lt_irrefl, if_false]
            exact ih ys (fun e => h (by rw [e]))

theorem flip_strictTotal {α : Type} {lt : α → α → Bool} (h : StrictTotal lt) :
    StrictTotal (fun a b => lt b a) where
  irrefl a := h.irrefl a
  trans a b c h1 h2 := h.trans c b a h2 h1
  total a b hne := (h.total b a (fun e => hne e.symm))

theorem less_eq_lex (a b : VDigits) :
    Old.less a b = lexLess digitsLt (List.take 3) (lexLess digitsLt (List.take 5)
      (lexLess digitsLt (List.take 7) (fun a b => digitsLt b a))) a b := by
  simp only [Old.less, Old.groupCompare, lexLess, beq_iff_eq]


end PV.C19
