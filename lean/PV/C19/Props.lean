/-
C19 property theorems.  Core Lean only.

Full-strength statement: after `ClearBit(r, c)` no view of the field holds (r, c) — for every
quantum, every field state (hence every history of timestamped sets, whatever the timestamps and
whatever other columns created sibling views), with or without a standard view — so no time-range
query and no standard-view query returns the column, until it is set again; and nothing else
changes (it is a clear, not a wipe).

The tree before "fix: ClearBit clears the bit in every time view" did not meet this
(`C19_old_skip_witness`: the history of DESIGN section 8 #14 leaves the bit in
standard_2001010113).  `C19_cmp_order` answers the question of the design: the comparator handed
to `sort.Slice` by the old code is a strict total order on view names (so "sorted" was
well defined and the sort was not the defect; the level/skipAbove bookkeeping was).
-/
import PV.C19.Lemmas
namespace PV.C19
open PV.C18 List

/-! ### The fixed code -/

/-- `ClearBit(r, c)` removes exactly the bit (r, c) from every view and changes nothing else. -/
theorem C19_clear_exact (f : Field) (r c : Nat) :
    (clearBit f r c).1.views =
      f.views.map (fun v => ⟨v.name, v.bits.filter (fun b => b != (r, c))⟩) := by
  rw [clearBit_views]; rfl

/-- After `ClearBit(r, c)` no view holds (r, c): every quantum, every state, with or without a
standard view. -/
theorem C19_cleared (f : Field) (r c : Nat) :
    ∀ v ∈ (clearBit f r c).1.views, (r, c) ∉ v.bits := by
  intro v hv
  rw [C19_clear_exact] at hv
  obtain ⟨w, _, rfl⟩ := List.mem_map.mp hv
  simp [List.mem_filter]

/-- The quantum and the noStandardView option are untouched. -/
theorem C19_clear_options (f : Field) (r c : Nat) :
    (clearBit f r c).1.q = f.q ∧ (clearBit f r c).1.noStd = f.noStd := by
  simp [clearBit]

/-- `changed` is reported exactly when some view held the bit. -/
theorem C19_changed (f : Field) (r c : Nat) :
    (clearBit f r c).2 = f.views.any (fun v => v.bits.contains (r, c)) := by
  simp only [clearBit, clearInView, isTimeView]
  rw [Bool.eq_iff_iff]
  simp only [Bool.or_eq_true, List.any_eq_true, List.mem_map, Bool.and_eq_true, decide_eq_true_eq]
  constructor
  · rintro (⟨v, hv, _, h⟩ | ⟨w, ⟨v, hv, rfl⟩, h1, h2⟩)
    · exact ⟨v, hv, h⟩
    · refine ⟨v, hv, ?_⟩
      by_cases hs : v.name = .std
      · simp [hs] at h1
      · simpa [hs] using h2
  · rintro ⟨v, hv, h⟩
    cases hn : v.name with
    | std => exact Or.inl ⟨v, hv, hn, h⟩
    | tv ds =>
      refine Or.inr ⟨v, ⟨v, hv, ?_⟩, ?_, ?_⟩
      · simp [hn]
      · simp [hn]
      · simpa using h

/-! ### Queries after a clear -/

/-- No query returns the column after a clear: neither `Row(f=r)` (standard view) nor
`Row(f=r, from=, to=)` for any range (aligned or not, any quantum), nor any other union of views. -/
theorem C19_no_query_returns (f : Field) (r c : Nat) :
    (∀ names, c ∉ (clearBit f r c).1.rowOfViews r names) ∧
    c ∉ (clearBit f r c).1.rowStd r ∧
    (∀ s e, c ∉ (clearBit f r c).1.rowRange r s e) := by
  have key : ∀ names, c ∉ (clearBit f r c).1.rowOfViews r names := by
    intro names h
    obtain ⟨v, hv, hb⟩ := mem_rowOfViews h
    exact C19_cleared f r c v hv hb
  refine ⟨key, key _, ?_⟩
  intro s e
  unfold Field.rowRange
  split
  · simp
  · exact key _

/-! ### Histories: set … clear … set others -/

/-- Whatever history built the field (`SetBit` and `Import` with any timestamps, clear-imports
that only touch the standard view, views created for a peer, any other columns, earlier clears),
after `ClearBit(r, c)` and any further writes that do not set (r, c) again, no view holds (r, c). -/
theorem C19_cleared_until_set_again (f0 : Field) (before after : List Op) (r c : Nat)
    (hafter : ∀ op ∈ after, op.touches r c = false) :
    ∀ v ∈ (after.foldl apply (clearBit (before.foldl apply f0) r c).1).views, (r, c) ∉ v.bits := by
  generalize before.foldl apply f0 = f
  have h0 := C19_cleared f r c
  generalize (clearBit f r c).1 = g at h0
  induction after generalizing g with
  | nil => simpa using h0
  | cons op ops ih =>
    simp only [List.foldl_cons]
    apply ih (fun o ho => hafter o (by simp [ho]))
    cases op with
    | set r' c' t =>
      have hne : (r', c') ≠ (r, c) := by
        have := hafter (.set r' c' t) (by simp)
        simp only [Op.touches, Bool.and_eq_false_iff, beq_eq_false_iff_ne] at this
        intro e; cases e; simp at this
      exact setBit_other hne h0
    | clear r' c' => exact clear_other h0
    | imp bits cl =>
      simp only [apply]
      cases hg : g.importBits bits cl with
      | none => simpa using h0
      | some g' =>
        simp only [Option.getD_some]
        have hne : cl = true ∨ ∀ b ∈ bits, (b.1, b.2.1) ≠ (r, c) := by
          have ht := hafter (.imp bits cl) (by simp)
          cases cl
          · right
            simp only [Op.touches, Bool.not_false, Bool.true_and, List.any_eq_false, Bool.and_eq_true,
              beq_iff_eq, not_and] at ht
            intro b hb e
            cases b with
            | mk b1 b2 =>
              simp only [Prod.mk.injEq] at e
              exact ht (b1, b2) hb e.1 e.2
          · left; rfl
        exact importBits_other hne h0 hg
    | mkview n => exact mkView_other h0

/-! ### The comparator of the old code is a strict total order -/

/-- The comparator of `allTimeViewsSortedByQuantum` is a strict total order on the time parts of
view names (irreflexive, transitive, any two different names are ordered) — in particular a strict
weak order, for well-formed names and all other digit strings alike. -/
theorem C19_cmp_order : StrictTotal Old.less := by
  have h := lexLess_strictTotal digitsLt_strictTotal (List.take 3)
    (lexLess_strictTotal digitsLt_strictTotal (List.take 5)
      (lexLess_strictTotal digitsLt_strictTotal (List.take 7) (flip_strictTotal digitsLt_strictTotal)))
  have e : Old.less = _ := funext fun a => funext fun b => less_eq_lex a b
  exact e ▸ h

/-! ### Witness of the defect in the code before the fix -/

/-- Quantum MDH; column 2 set at 2001-02-01T00, 2001-01-02T00, 2000-02-02T00 and column 1 at
2001-01-01T13 (DESIGN section 8 #14). -/
def witnessField : Field :=
  let f0 : Field := { q := [.M, .D, .H], noStd := false }
  let f1 := (f0.setBit 1 2 (some ⟨2001, 2, 1, 0⟩)).1
  let f2 := (f1.setBit 1 2 (some ⟨2001, 1, 2, 0⟩)).1
  let f3 := (f2.setBit 1 2 (some ⟨2000, 2, 2, 0⟩)).1
  (f3.setBit 1 1 (some ⟨2001, 1, 1, 13⟩)).1

/-- The old `ClearBit(1, 1)` reports "not changed" and leaves the bit in standard_2001010113. -/
theorem C19_old_skip_witness :
    (Old.clearBit witnessField 1 1).1.viewsWithBit 1 1 = [.tv [2, 0, 0, 1, 0, 1, 0, 1, 1, 3]] ∧
    (Old.clearBit witnessField 1 1).2 = false := by decide

/-- The old `ClearBit` did nothing at all on a field without standard view. -/
theorem C19_old_nostd_witness :
    let f : Field := ({ q := [.Y], noStd := true } : Field).setBit 1 1 (some ⟨2001, 1, 1, 0⟩) |>.1
    (Old.clearBit f 1 1).1.viewsWithBit 1 1 = [.tv [2, 0, 0, 1]] := by decide

/-! ### Non-vacuity -/

/-- The fixed code on the witness history: the bit is gone from all four views that held it and
the sibling column keeps its bits. -/
example : (clearBit witnessField 1 1).1.viewsWithBit 1 1 = [] ∧ (clearBit witnessField 1 1).2 = true ∧
    ((clearBit witnessField 1 1).1.viewsWithBit 1 2).length = 10 ∧
    (witnessField.viewsWithBit 1 1).length = 4 := by decide

example : Old.less [2, 0, 0, 1] [2, 0, 0, 1, 0, 1] = true ∧
    Old.less [2, 0, 0, 1, 0, 1, 0, 1, 1, 3] [2, 0, 0, 1, 0, 1, 0, 1] = true := by decide

end PV.C19
