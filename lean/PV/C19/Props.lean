/-
C19 property theorems.  Core Lean only.

Full-strength statement: after `ClearBit(r, c)` no view of the field holds (r, c) — for every
quantum, every field state (hence every history of timestamped sets, whatever the timestamps and
whatever other columns created sibling views), with or without a standard view — so no time-range
query and no standard-view query returns the column, until it is set again; and nothing else
changes (it is a clear, not a wipe).

The tree before "fix: ClearBit clears the bit in every time view" did not meet this
(`C19_old_skip_witness`: the history of DESIGN section 8 #14 leaves the bit in
standard_2001010113).  `C19_cmp_order` answers the question of the design: the comparator handed
to `sort.Slice` by the old code is a strict total order on view names (so "sorted" was
well defined and the sort was not the defect; the level/skipAbove bookkeeping was).
-/
import PV.C19.Model
import PV.C19.Old
import PV.C19.Spec
namespace PV.C19
open PV.C18 List

/-! ### The fixed code -/

theorem clearBit_views (f : Field) (r c : Nat) :
    (clearBit f r c).1.views = f.views.map (fun v => (clearInView v r c).1) := by
  simp only [clearBit, List.map_map]
  apply List.map_congr_left
  intro v _
  rcases v with ⟨n, bits⟩
  cases n <;> simp [Function.comp, isTimeView, clearInView]

/-- `ClearBit(r, c)` removes exactly the bit (r, c) from every view and changes nothing else. -/
theorem C19_clear_exact (f : Field) (r c : Nat) :
    (clearBit f r c).1.views =
      f.views.map (fun v => ⟨v.name, v.bits.filter (fun b => b != (r, c))⟩) := by
  rw [clearBit_views]; rfl

/-- After `ClearBit(r, c)` no view holds (r, c): every quantum, every state, with or without a
standard view. -/
theorem C19_cleared (f : Field) (r c : Nat) :
    ∀ v ∈ (clearBit f r c).1.views, (r, c) ∉ v.bits := by
  intro v hv
  rw [C19_clear_exact] at hv
  obtain ⟨w, _, rfl⟩ := List.mem_map.mp hv
  simp [List.mem_filter]

/-- The quantum and the noStandardView option are untouched. -/
theorem C19_clear_options (f : Field) (r c : Nat) :
    (clearBit f r c).1.q = f.q ∧ (clearBit f r c).1.noStd = f.noStd := by
  simp [clearBit]

/-- `changed` is reported exactly when some view held the bit. -/
theorem C19_changed (f : Field) (r c : Nat) :
    (clearBit f r c).2 = f.views.any (fun v => v.bits.contains (r, c)) := by
  simp only [clearBit, clearInView, isTimeView]
  rw [Bool.eq_iff_iff]
  simp only [Bool.or_eq_true, List.any_eq_true, List.mem_map, Bool.and_eq_true, decide_eq_true_eq]
  constructor
  · rintro (⟨v, hv, _, h⟩ | ⟨w, ⟨v, hv, rfl⟩, h1, h2⟩)
    · exact ⟨v, hv, h⟩
    · refine ⟨v, hv, ?_⟩
      by_cases hs : v.name = .std
      · simp [hs] at h1
      · simpa [hs] using h2
  · rintro ⟨v, hv, h⟩
    cases hn : v.name with
    | std => exact Or.inl ⟨v, hv, hn, h⟩
    | tv ds =>
      refine Or.inr ⟨v, ⟨v, hv, ?_⟩, ?_, ?_⟩
      · simp [hn]
      · simp [hn]
      · simpa using h

/-! ### Queries after a clear -/

theorem mem_insertNat (x y : Nat) (l : List Nat) : x ∈ insertNat y l ↔ x = y ∨ x ∈ l := by
  induction l with
  | nil => simp [insertNat]
  | cons z zs ih =>
    simp only [insertNat]
    split
    · simp
    · split
      · rename_i h; subst h; simp
      · simp [ih]; constructor <;> (intro h; rcases h with h | h | h <;> simp [h])

theorem mem_sortDedup (x : Nat) (l : List Nat) : x ∈ sortDedup l ↔ x ∈ l := by
  induction l with
  | nil => simp [sortDedup]
  | cons y ys ih =>
    have : sortDedup (y :: ys) = insertNat y (sortDedup ys) := rfl
    rw [this, mem_insertNat, ih]; simp

/-- A column returned by a union over any list of views is held by one of the field's views. -/
theorem mem_rowOfViews {f : Field} {r c : Nat} {names : List VName}
    (h : c ∈ f.rowOfViews r names) : ∃ v ∈ f.views, (r, c) ∈ v.bits := by
  simp only [Field.rowOfViews, mem_sortDedup, List.mem_flatMap] at h
  obtain ⟨n, _, hn⟩ := h
  cases hv : f.view? n with
  | none => simp [hv] at hn
  | some v =>
    simp only [hv, List.mem_map, List.mem_filter] at hn
    obtain ⟨b, ⟨hb, hr⟩, hc⟩ := hn
    refine ⟨v, List.mem_of_find?_eq_some hv, ?_⟩
    have : b = (r, c) := by
      cases b; simp at hr hc; simp [hr, hc]
    rw [← this]; exact hb

/-- No query returns the column after a clear: neither `Row(f=r)` (standard view) nor
`Row(f=r, from=, to=)` for any range (aligned or not, any quantum), nor any other union of views. -/
theorem C19_no_query_returns (f : Field) (r c : Nat) :
    (∀ names, c ∉ (clearBit f r c).1.rowOfViews r names) ∧
    c ∉ (clearBit f r c).1.rowStd r ∧
    (∀ s e, c ∉ (clearBit f r c).1.rowRange r s e) := by
  have key : ∀ names, c ∉ (clearBit f r c).1.rowOfViews r names := by
    intro names h
    obtain ⟨v, hv, hb⟩ := mem_rowOfViews h
    exact C19_cleared f r c v hv hb
  refine ⟨key, key _, ?_⟩
  intro s e
  unfold Field.rowRange
  split
  · simp
  · exact key _

/-! ### Histories: set … clear … set others -/

/-- One write of a history. -/
inductive Op where
  | set (r c : Nat) (t : Option Civil)
  | clear (r c : Nat)

def apply (f : Field) : Op → Field
  | .set r c t => (f.setBit r c t).1
  | .clear r c => (clearBit f r c).1

def Op.touches (r c : Nat) : Op → Bool
  | .set r' c' _ => r' == r && c' == c
  | .clear _ _ => false

theorem setInViews_other {vs : List FView} {n : VName} {r c r' c' : Nat}
    (hne : (r', c') ≠ (r, c)) (h : ∀ v ∈ vs, (r, c) ∉ v.bits) :
    ∀ v ∈ (setInViews vs n r' c').1, (r, c) ∉ v.bits := by
  induction vs with
  | nil =>
    intro v hv
    simp only [setInViews, List.mem_singleton] at hv
    subst hv
    simp only [List.mem_singleton]
    exact fun e => hne e.symm
  | cons w ws ih =>
    intro v hv
    simp only [setInViews] at hv
    split at hv
    · split at hv
      · exact h v hv
      · rcases List.mem_cons.mp hv with rfl | hv
        · simp only [List.mem_cons, not_or]
          exact ⟨fun e => hne e.symm, h w (by simp)⟩
        · exact h v (by simp [hv])
    · rcases List.mem_cons.mp hv with rfl | hv
      · exact h _ (by simp)
      · exact ih (fun v hv => h v (by simp [hv])) v hv

theorem setBit_other {f : Field} {r c r' c' : Nat} {t : Option Civil}
    (hne : (r', c') ≠ (r, c)) (h : ∀ v ∈ f.views, (r, c) ∉ v.bits) :
    ∀ v ∈ (f.setBit r' c' t).1.views, (r, c) ∉ v.bits := by
  have h0 : ∀ v ∈ (if f.noStd then (f.views, false) else setInViews f.views .std r' c').1,
      (r, c) ∉ v.bits := by
    split
    · exact h
    · exact setInViews_other hne h
  unfold Field.setBit
  cases t with
  | none => exact h0
  | some t =>
    simp only
    generalize (if f.noStd then (f.views, false) else setInViews f.views .std r' c') = s0 at h0
    generalize viewsByTime t f.q = names
    induction names generalizing s0 with
    | nil => simpa using h0
    | cons n ns ih =>
      simp only [List.foldl_cons]
      apply ih
      exact setInViews_other hne h0

theorem clear_other {f : Field} {r c r' c' : Nat} (h : ∀ v ∈ f.views, (r, c) ∉ v.bits) :
    ∀ v ∈ (clearBit f r' c').1.views, (r, c) ∉ v.bits := by
  intro v hv
  rw [C19_clear_exact] at hv
  obtain ⟨w, hw, rfl⟩ := List.mem_map.mp hv
  simp only [List.mem_filter, not_and]
  intro hb
  exact absurd hb (h w hw)

/-- Whatever history built the field (any timestamps, any other columns, earlier clears), after
`ClearBit(r, c)` and any further writes that do not set (r, c) again, no view holds (r, c). -/
theorem C19_cleared_until_set_again (f0 : Field) (before after : List Op) (r c : Nat)
    (hafter : ∀ op ∈ after, op.touches r c = false) :
    ∀ v ∈ (after.foldl apply (clearBit (before.foldl apply f0) r c).1).views, (r, c) ∉ v.bits := by
  generalize before.foldl apply f0 = f
  have h0 := C19_cleared f r c
  generalize (clearBit f r c).1 = g at h0
  induction after generalizing g with
  | nil => simpa using h0
  | cons op ops ih =>
    simp only [List.foldl_cons]
    apply ih (fun o ho => hafter o (by simp [ho]))
    cases op with
    | set r' c' t =>
      have hne : (r', c') ≠ (r, c) := by
        have := hafter (.set r' c' t) (by simp)
        simp only [Op.touches, Bool.and_eq_false_iff, beq_eq_false_iff_ne] at this
        intro e; cases e; simp at this
      exact setBit_other hne h0
    | clear r' c' => exact clear_other h0

/-! ### The comparator of the old code is a strict total order -/

structure StrictTotal {α : Type} (lt : α → α → Bool) : Prop where
  irrefl : ∀ a, lt a a = false
  trans : ∀ a b c, lt a b = true → lt b c = true → lt a c = true
  total : ∀ a b, a ≠ b → lt a b = true ∨ lt b a = true

theorem StrictTotal.asymm {α : Type} {lt : α → α → Bool} (h : StrictTotal lt) (a b : α)
    (hab : lt a b = true) : lt b a = false := by
  cases hba : lt b a with
  | false => rfl
  | true => have := h.trans a b a hab hba; rw [h.irrefl] at this; cases this

/-- Compare by a key first, then by `next`. -/
def lexLess {α β : Type} [DecidableEq α] (lt : α → α → Bool) (k : β → α) (next : β → β → Bool)
    (a b : β) : Bool :=
  if k a = k b then next a b else lt (k a) (k b)

theorem lexLess_strictTotal {α β : Type} [DecidableEq α] {lt : α → α → Bool} (hlt : StrictTotal lt)
    (k : β → α) {next : β → β → Bool} (hn : StrictTotal next) : StrictTotal (lexLess lt k next) where
  irrefl a := by simp [lexLess, hn.irrefl]
  trans a b c := by
    unfold lexLess
    by_cases h1 : k a = k b <;> by_cases h2 : k b = k c
    · intro hab hbc
      have h3 : k a = k c := h1.trans h2
      simp only [h1, if_true] at hab
      simp only [h2, if_true] at hbc
      simp only [h3, if_true]
      exact hn.trans a b c hab hbc
    · intro hab hbc
      have h3 : k a ≠ k c := fun e => h2 (h1.symm.trans e)
      simp only [h2, if_false] at hbc
      simp only [h3, if_false]
      rw [h1]; exact hbc
    · intro hab hbc
      have h3 : k a ≠ k c := fun e => h1 (e.trans h2.symm)
      simp only [h1, if_false] at hab
      simp only [h3, if_false]
      rw [← h2]; exact hab
    · intro hab hbc
      simp only [h1, if_false] at hab
      simp only [h2, if_false] at hbc
      have hac := hlt.trans _ _ _ hab hbc
      have h3 : k a ≠ k c := by
        intro e; rw [e] at hab
        have := hlt.asymm _ _ hbc; rw [hab] at this; cases this
      simp only [h3, if_false]; exact hac
  total a b hne := by
    unfold lexLess
    by_cases h : k a = k b
    · simp only [h, if_true]; exact hn.total a b hne
    · have h' : k b ≠ k a := fun e => h e.symm
      simp only [h, h', if_false]; exact hlt.total _ _ h

theorem digitsLt_strictTotal : StrictTotal digitsLt where
  irrefl a := by induction a with
    | nil => rfl
    | cons x xs ih => simp [digitsLt, ih]
  trans a := by
    induction a with
    | nil => intro b c h1 h2; cases b <;> cases c <;> simp_all [digitsLt]
    | cons x xs ih =>
      intro b c h1 h2
      cases b with
      | nil => simp [digitsLt] at h1
      | cons y ys =>
        cases c with
        | nil => simp [digitsLt] at h2
        | cons z zs =>
          simp only [digitsLt] at h1 h2 ⊢
          by_cases hxy : x < y
          · by_cases hyz : y < z
            · have : x < z := by omega
              simp [this]
            · by_cases hzy : z < y
              · simp [hyz, hzy] at h2
              · have : y = z := by omega
                subst this; simp [hxy]
          · by_cases hyx : y < x
            · simp [hxy, hyx] at h1
            · have : x = y := by omega
              subst this
              simp only [Nat.lt_irrefl, if_false] at h1
              by_cases hxz : x < z
              · simp [hxz]
              · by_cases hzx : z < x
                · simp [hxz, hzx] at h2
                · simp only [hxz, hzx, if_false] at h2 ⊢
                  exact ih ys zs h1 h2
  total a := by
    induction a with
    | nil => intro b h; cases b with
      | nil => exact absurd rfl h
      | cons y ys => simp [digitsLt]
    | cons x xs ih =>
      intro b h
      cases b with
      | nil => simp [digitsLt]
      | cons y ys =>
        simp only [digitsLt]
        by_cases hxy : x < y
        · simp [hxy]
        · by_cases hyx : y < x
          · simp [hyx]
          · have : x = y := by omega
            subst this
            simp only [Nat.lt_irrefl, if_false]
            exact ih ys (fun e => h (by rw [e]))

theorem flip_strictTotal {α : Type} {lt : α → α → Bool} (h : StrictTotal lt) :
    StrictTotal (fun a b => lt b a) where
  irrefl a := h.irrefl a
  trans a b c h1 h2 := h.trans c b a h2 h1
  total a b hne := (h.total b a (fun e => hne e.symm))

theorem less_eq_lex (a b : VDigits) :
    Old.less a b = lexLess digitsLt (List.take 3) (lexLess digitsLt (List.take 5)
      (lexLess digitsLt (List.take 7) (fun a b => digitsLt b a))) a b := by
  simp only [Old.less, Old.groupCompare, lexLess, beq_iff_eq]

/-- The comparator of `allTimeViewsSortedByQuantum` is a strict total order on the time parts of
view names (irreflexive, transitive, any two different names are ordered) — in particular a strict
weak order, for well-formed names and all other digit strings alike. -/
theorem C19_cmp_order : StrictTotal Old.less := by
  have h := lexLess_strictTotal digitsLt_strictTotal (List.take 3)
    (lexLess_strictTotal digitsLt_strictTotal (List.take 5)
      (lexLess_strictTotal digitsLt_strictTotal (List.take 7) (flip_strictTotal digitsLt_strictTotal)))
  have e : Old.less = _ := funext fun a => funext fun b => less_eq_lex a b
  exact e ▸ h

/-! ### Witness of the defect in the code before the fix -/

/-- Quantum MDH; column 2 set at 2001-02-01T00, 2001-01-02T00, 2000-02-02T00 and column 1 at
2001-01-01T13 (DESIGN section 8 #14). -/
def witnessField : Field :=
  let f0 : Field := { q := [.M, .D, .H], noStd := false }
  let f1 := (f0.setBit 1 2 (some ⟨2001, 2, 1, 0⟩)).1
  let f2 := (f1.setBit 1 2 (some ⟨2001, 1, 2, 0⟩)).1
  let f3 := (f2.setBit 1 2 (some ⟨2000, 2, 2, 0⟩)).1
  (f3.setBit 1 1 (some ⟨2001, 1, 1, 13⟩)).1

/-- The old `ClearBit(1, 1)` reports "not changed" and leaves the bit in standard_2001010113. -/
theorem C19_old_skip_witness :
    (Old.clearBit witnessField 1 1).1.viewsWithBit 1 1 = [.tv [2, 0, 0, 1, 0, 1, 0, 1, 1, 3]] ∧
    (Old.clearBit witnessField 1 1).2 = false := by decide

/-- The old `ClearBit` did nothing at all on a field without standard view. -/
theorem C19_old_nostd_witness :
    let f : Field := ({ q := [.Y], noStd := true } : Field).setBit 1 1 (some ⟨2001, 1, 1, 0⟩) |>.1
    (Old.clearBit f 1 1).1.viewsWithBit 1 1 = [.tv [2, 0, 0, 1]] := by decide

/-! ### Non-vacuity -/

/-- The fixed code on the witness history: the bit is gone from all four views that held it and
the sibling column keeps its bits. -/
example : (clearBit witnessField 1 1).1.viewsWithBit 1 1 = [] ∧ (clearBit witnessField 1 1).2 = true ∧
    ((clearBit witnessField 1 1).1.viewsWithBit 1 2).length = 10 ∧
    (witnessField.viewsWithBit 1 1).length = 4 := by decide

example : Old.less [2, 0, 0, 1] [2, 0, 0, 1, 0, 1] = true ∧
    Old.less [2, 0, 0, 1, 0, 1, 0, 1, 1, 3] [2, 0, 0, 1, 0, 1, 0, 1] = true := by decide

end PV.C19
