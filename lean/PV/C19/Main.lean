/-
pm_c19: model driver for C19.  All lines of pm_c18 (PV/C18/Step.lean) plus

  clear <r> <c>      Field.ClearBit / Clear(c, f=r) -> changed
                     #spec: whether the log of live sets holds (r,c); the log then loses it

A case opened with `field <q> <0|1> old` models `clear` with the code before the fix
(PV/C19/Old.lean); the harness only writes such cases when asked to (VERIF_C19_OLD=1, used once
to validate the old model against the old tree).
-/
import PV.Common.Proto
import PV.C18.Step
import PV.C19.Model
import PV.C19.Old
import PV.C19.Spec
open PV.Proto PV.C18 PV.C18.Step

def step19 (s : DState) (ws : List String) : DState × Ans :=
  match ws with
  | ["clear", r, c] =>
    match r.toNat?, c.toNat? with
    | some r, some c =>
      if s.mode = 0 then bad s else
      let res := if s.old then PV.C19.Old.clearBit s.field r c else PV.C19.clearBit s.field r c
      let sp := PV.C19.Spec.clear s.log r c
      ({ s with field := res.1, log := sp.1 }, ans2 (showBool res.2) (showBool sp.2) "clear-changed")
    | _, _ => bad s
  | _ => step s ws

def main : IO Unit := run ({} : DState) step19
