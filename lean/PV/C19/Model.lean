/-
C19 model: `Field.ClearBit` (field.go) as coded after the fixes
  "fix: ClearBit clears the bit in every time view" and
  "fix: ClearBit clears time views of fields without a standard view":

    if view := f.view(viewStandard); view != nil { changed = view.clearBit(r, c) }
    for _, view := range f.timeViews() { if view.clearBit(r, c) { changed = true } }

over the field state of PV/C18/Field.lean (views with their bits, built by timestamped `SetBit`
histories).  `f.timeViews()` = the views whose name starts with "standard_" (map order; the result
does not depend on it).  The code before the fixes is kept in PV/C19/Old.lean.  Core Lean only.
-/
import PV.C18.Field
namespace PV.C19
open PV.C18

/-- `view.clearBit(r, c)`: the view without the bit, and `changed`. -/
def clearInView (v : FView) (r c : Nat) : FView × Bool :=
  (⟨v.name, v.bits.filter (fun b => b != (r, c))⟩, v.bits.contains (r, c))

def isTimeView (v : FView) : Bool :=
  match v.name with
  | .std => false
  | .tv _ => true

/-- `Field.ClearBit(r, c)`: the new field and `changed`. -/
def clearBit (f : Field) (r c : Nat) : Field × Bool :=
  -- standard view, when it exists
  let vs1 := f.views.map (fun v => if v.name = .std then (clearInView v r c).1 else v)
  let ch1 := f.views.any (fun v => v.name = .std && (clearInView v r c).2)
  -- every time view
  let vs2 := vs1.map (fun v => if isTimeView v then (clearInView v r c).1 else v)
  let ch2 := vs1.any (fun v => isTimeView v && (clearInView v r c).2)
  ({ f with views := vs2 }, ch1 || ch2)

/-! ### Histories of writes -/

/-- One write of a history: `SetBit`, `ClearBit`, `Field.Import` (set or clear, with or without
timestamps), a view created for a peer's CreateViewMessage. -/
inductive Op where
  | set (r c : Nat) (t : Option Civil)
  | clear (r c : Nat)
  | imp (bits : List (Nat × Nat × Option Civil)) (clear : Bool)
  | mkview (n : VName)

def apply (f : Field) : Op → Field
  | .set r c t => (f.setBit r c t).1
  | .clear r c => (clearBit f r c).1
  | .imp bits cl => (f.importBits bits cl).getD f
  | .mkview n => f.mkView n

/-- The write sets (r, c). -/
def Op.touches (r c : Nat) : Op → Bool
  | .set r' c' _ => r' == r && c' == c
  | .clear _ _ => false
  | .imp bits cl => !cl && bits.any (fun b => b.1 == r && b.2.1 == c)
  | .mkview _ => false

end PV.C19
