/-
C29 specification layer (core Lean only, executable).

Histories and linearizability.  A concurrent execution is a trace of events

  inv id op   operation instance `id` is invoked with argument `op`
  step id     one atomic step (critical section) of `id` runs against the shared state
  ret id r    `id` returns `r`

An operation is a *program*: a list of atomic steps over the shared state and a private
accumulator, and a function producing the result (`Prog`).  A single-section operation (one
critical section on one lock) has exactly one step.  `exec` runs a trace against the concrete
system and fails (none) on ill-formed traces; `Linearizable` is Herlihy–Wing linearizability of the
invocation/response history of the trace with respect to the sequential specification in which
every operation runs all its steps without interruption.
-/
namespace PV.C29

/-- An operation as a sequence of atomic steps.  `α` is the private accumulator. -/
structure Prog (σ α Res : Type) where
  steps : List (σ → α → σ × α)
  acc0 : α
  result : α → Res

/-- Run all steps without interruption: the sequential meaning of the operation. -/
def Prog.runSeq {σ α Res : Type} (p : Prog σ α Res) (s : σ) : σ × Res :=
  let (s', a) := p.steps.foldl (fun (sa : σ × α) st => st sa.1 sa.2) (s, p.acc0)
  (s', p.result a)

inductive Ev (Op Res : Type)
  | inv (id : Nat) (op : Op)
  | step (id : Nat)
  | ret (id : Nat) (r : Res)
deriving Repr

/-- A thread inside an operation: remaining steps and accumulator. -/
structure Running (σ α Res Op : Type) where
  id : Nat
  op : Op
  rest : List (σ → α → σ × α)
  acc : α
  result : α → Res

/-- Concrete system.  `log` is ghost: operations in the order of their LAST step, with results. -/
structure Sys (σ α Res Op : Type) where
  g : σ
  invoked : List Nat := []
  running : List (Running σ α Res Op) := []
  log : List (Nat × Op × Res) := []
  returned : List Nat := []

variable {σ α Res Op : Type}

def exec1 [DecidableEq Res] (sem : Op → Prog σ α Res) (s : Sys σ α Res Op) :
    Ev Op Res → Option (Sys σ α Res Op)
  | .inv id op =>
    if s.invoked.contains id then none
    else
      let p := sem op
      some { s with invoked := id :: s.invoked,
                    running := { id := id, op := op, rest := p.steps, acc := p.acc0, result := p.result } :: s.running }
  | .step id =>
    match s.running.find? (fun t => t.id == id) with
    | none => none
    | some t =>
      match t.rest with
      | [] => none
      | st :: rest =>
        let (g', a') := st s.g t.acc
        let others := s.running.filter (fun t => t.id != id)
        if rest.isEmpty then
          some { s with g := g', running := others, log := s.log ++ [(id, t.op, t.result a')] }
        else
          some { s with g := g', running := { t with rest := rest, acc := a' } :: others }
  | .ret id r =>
    if s.returned.contains id then none
    else
      match s.log.find? (fun e => e.1 == id) with
      | some (_, _, r') => if r' = r then some { s with returned := id :: s.returned } else none
      | none => none

def exec [DecidableEq Res] (sem : Op → Prog σ α Res) (s : Sys σ α Res Op) :
    List (Ev Op Res) → Option (Sys σ α Res Op)
  | [] => some s
  | e :: tr => (exec1 sem s e).bind (fun s' => exec sem s' tr)

/-- Sequential replay of a list of (id, op, result): every result is the one the sequential
specification gives. -/
def Legal (sem : Op → Prog σ α Res) : σ → List (Nat × Op × Res) → Prop
  | _, [] => True
  | s, (_, op, r) :: rest => ((sem op).runSeq s).2 = r ∧ Legal sem ((sem op).runSeq s).1 rest

/-- `a` comes before `b` in `l`. -/
def Before (a b : Nat) (l : List Nat) : Prop := ∃ l1 l2, l = l1 ++ l2 ∧ a ∈ l1 ∧ b ∈ l2

/-- Herlihy–Wing linearizability of the history contained in trace `tr` from initial state `s0`:
a sequential order `L` of (some of the invoked, all of the returned) operations that is legal,
returns the observed results, and keeps `a` before `b` whenever `a` returned before `b` was invoked. -/
def Linearizable (sem : Op → Prog σ α Res) (s0 : σ) (tr : List (Ev Op Res)) : Prop :=
  ∃ L : List (Nat × Op × Res),
    (L.map (·.1)).Nodup ∧
    (∀ e ∈ L, Ev.inv e.1 e.2.1 ∈ tr) ∧
    (∀ id r, Ev.ret id r ∈ tr → ∃ op, (id, op, r) ∈ L) ∧
    Legal sem s0 L ∧
    (∀ t1 t2 t3 a ra b opb, tr = t1 ++ Ev.ret a ra :: t2 ++ Ev.inv b opb :: t3 →
      b ∈ L.map (·.1) → Before a b (L.map (·.1)))

/-- Every operation of the trace has exactly one step (one critical section). -/
def SingleSection (sem : Op → Prog σ α Res) : Prop := ∀ op, ∃ st, (sem op).steps = [st]

end PV.C29
