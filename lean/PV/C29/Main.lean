/-
pm_c29: model driver for C29.  One line = one concurrent history under a given schedule:

  h <set|mutex> <init> <prog0> <prog1> … s=<sched>
      init   = r:c,r:c,… bits set before the threads start, or -
      progK  = tK=<op>;<op>;…   operations of thread K, in order
               S<r>:<c> Set · C<r>:<c> Clear · R<r> Row · I<r1>&<r2> Intersect(Row,Row) · U<r1>&<r2> Union
      sched  = thread ids; each entry lets that thread take its next action: start its next
               operation (invocation) or run its next critical section (the last section of an
               operation also returns).  When the schedule is used up the threads finish one after
               the other in thread order.  Entries naming a finished thread are skipped.

The harness drives the real server with the same schedule: a gate in a `tracing.Tracer` stops each
request at the start of `Executor.executeSet` / `executeClearBit` / `executeRowShard`, i.e. right
before the fragment critical section those functions lead to.

Output: the results of all operations, `id=result` joined by `;`, ids thread-major.  `model` runs
the operations as sequences of atomic sections (`fsem`) under the schedule; `#spec` is the same
string when the resulting history is linearizable (checked by brute force over all sequential
orders of the operations that respect real-time order), otherwise the results of running the
operations one after the other in invocation order (a linearizable answer), tag multi-section-read.
-/
import PV.Common.Proto
import PV.C29.Model
open PV.Proto PV.C29

def parseOp (mutex : Bool) (s : String) : Option FOp :=
  let body := (s.drop 1).toString
  match s.take 1 |>.toString with
  | "S" => match body.splitOn ":" with
    | [r, c] => do
      let r ← r.toNat?
      let c ← c.toNat?
      if c ≥ 8 then none else pure (if mutex then .mset r c else .set r c)
    | _ => none
  | "C" => match body.splitOn ":" with
    | [r, c] => do
      let r ← r.toNat?
      let c ← c.toNat?
      if c ≥ 8 then none else pure (.clear r c)
    | _ => none
  | "R" => body.toNat?.map .row
  | "I" => match body.splitOn "&" with
    | [a, b] => do pure (.inter (← a.toNat?) (← b.toNat?))
    | _ => none
  | "U" => match body.splitOn "&" with
    | [a, b] => do pure (.union (← a.toNat?) (← b.toNat?))
    | _ => none
  | _ => none

def parseInit (s : String) : Option (List (Nat × Nat)) :=
  if s = "-" then some [] else
  (s.splitOn ",").mapM (fun t => match t.splitOn ":" with
    | [r, c] => do
      let r ← r.toNat?
      let c ← c.toNat?
      if c ≥ 8 then none else pure (r, c)
    | _ => none)

def parseProg (mutex : Bool) (k : Nat) (s : String) : Option (List FOp) :=
  match s.splitOn "=" with
  | [t, ops] => if t = s!"t{k}" then (ops.splitOn ";").mapM (parseOp mutex) else none
  | _ => none

def sections (o : FOp) : Nat := (fsem o).steps.length

/-- A thread: remaining operations with their global ids, and how many sections of the current
operation have run (none = the current operation is not yet invoked). -/
structure Th where
  ops : List (Nat × FOp)
  phase : Option Nat := none

/-- One action of thread `t`: the events it produces. -/
def act (ths : List Th) (t : Nat) : List Th × List (Ev FOp FRes) :=
  match ths[t]? with
  | none => (ths, [])
  | some th =>
    match th.ops with
    | [] => (ths, [])
    | (id, o) :: rest =>
      match th.phase with
      | none => (ths.set t { th with phase := some 0 }, [.inv id o])
      | some k =>
        if k + 1 ≥ sections o then (ths.set t { ops := rest, phase := none }, [.step id])
        else (ths.set t { th with phase := some (k + 1) }, [.step id])

def finished (ths : List Th) : Bool := ths.all (fun th => th.ops.isEmpty)

/-- Run the schedule, then let the threads finish in thread order (fuel bounds the loop). -/
def runSched (ths : List Th) (sched : List Nat) : List (Ev FOp FRes) :=
  let (ths, evs) := sched.foldl (fun (p : List Th × List (Ev FOp FRes)) t =>
    let (ths', e) := act p.1 t
    (ths', p.2 ++ e)) (ths, [])
  let fuel := (ths.map (fun th => (th.ops.map (fun io => sections io.2 + 1)).foldl (· + ·) 0)).foldl (· + ·) 0
  let rec drain (fuel : Nat) (ths : List Th) (evs : List (Ev FOp FRes)) : List (Ev FOp FRes) :=
    match fuel with
    | 0 => evs
    | fuel + 1 =>
      match (List.range ths.length).find? (fun t => match ths[t]? with
          | some th => !th.ops.isEmpty
          | none => false) with
      | none => evs
      | some t =>
        let (ths', e) := act ths t
        drain fuel ths' (evs ++ e)
  drain fuel ths evs

def showRes : FRes → String
  | .changed b => showBool b
  | .cols l => showNats l

def showResults (log : List (Nat × FOp × FRes)) (n : Nat) : String :=
  ";".intercalate ((List.range n).map (fun id =>
    match log.find? (fun e => e.1 == id) with
    | some (_, _, r) => s!"{id}={showRes r}"
    | none => s!"{id}=?"))

def initState (bits : List (Nat × Nat)) : FS := fun r c => bits.contains (r, c)

/-- All permutations (small lists only). -/
def perms {α : Type} : List α → List (List α)
  | [] => [[]]
  | x :: xs => (perms xs).flatMap (fun p => (List.range (p.length + 1)).map (fun i => p.take i ++ [x] ++ p.drop i))

/-- Brute-force linearizability of a complete history: `ops` with results, `evs` gives the
real-time order (a returned before b invoked). -/
def linearizableB (s0 : FS) (evs : List (Ev FOp FRes)) (log : List (Nat × FOp × FRes)) : Bool :=
  let pos := fun (p : Ev FOp FRes → Bool) => evs.findIdx p
  let invPos := fun id => pos (fun e => match e with
    | .inv i _ => i == id
    | _ => false)
  -- an operation returns right after its last step: position of its last step event
  let retPos := fun id => (evs.length - 1) - (evs.reverse.findIdx (fun e => match e with
    | .step i => i == id
    | _ => false))
  (perms log).any (fun p =>
    -- real-time order
    (List.range p.length).all (fun i => (List.range p.length).all (fun j =>
      match p[i]?, p[j]? with
      | some a, some b => !(i < j && retPos b.1 < invPos a.1)
      | _, _ => true)) &&
    -- legal
    (p.foldl (fun (acc : FS × Bool) e =>
      let (s', r) := (fsem e.2.1).runSeq acc.1
      (s', acc.2 && r == e.2.2)) (s0, true)).2)

def step (_u : Unit) (ws : List String) : Unit × Ans :=
  let bad := ((), ans "bad-op")
  match ws with
  | "h" :: ft :: init :: rest =>
    if ft != "set" && ft != "mutex" then bad else
    match parseInit init, rest.getLast?, rest.dropLast with
    | some bits, some sc, progs =>
      if progs.isEmpty || progs.length > 4 then bad else
      match (sc.splitOn "=") with
      | ["s", sched] =>
        match (if sched = "" || sched = "-" then some [] else (sched.splitOn ",").mapM String.toNat?),
              (progs.zipIdx.mapM (fun pk => parseProg (ft == "mutex") pk.2 pk.1)) with
        | some sched, some ps =>
          if (ps.map List.length).foldl (· + ·) 0 > 6 || ps.any List.isEmpty then bad else
          -- global ids thread-major
          let (ths, n) := ps.foldl (fun (acc : List Th × Nat) ops =>
            (acc.1 ++ [{ ops := ops.zipIdx.map (fun oi => (acc.2 + oi.2, oi.1)) }], acc.2 + ops.length)) ([], 0)
          let s0 := initState bits
          let evs := runSched ths sched
          match exec fsem ({ g := s0 } : Sys FS FAcc FRes FOp) evs with
          | none => ((), ans "model-error")
          | some sf =>
            let m := showResults sf.log n
            if linearizableB s0 evs sf.log then ((), ans m)
            else
              -- the sequential answer: operations one after the other in invocation order
              let order := evs.filterMap (fun e => match e with
                | .inv id o => some (id, o)
                | _ => none)
              let seqLog := (order.foldl (fun (acc : FS × List (Nat × FOp × FRes)) io =>
                let (s', r) := (fsem io.2).runSeq acc.1
                (s', acc.2 ++ [(io.1, io.2, r)])) (s0, [])).2
              ((), ans2 m (showResults seqLog n) "multi-section-read")
        | _, _ => bad
      | _ => bad
    | _, _, _ => bad
  | _ => bad

def main : IO Unit := run () step
