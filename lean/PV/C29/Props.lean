/-
C29 property theorems: concurrent requests are race-free and linearizable.  PARTIAL BY NATURE: the
theorems are about (1) the regenerated lock-discipline table and (2) the abstract protocol "one
critical section per operation"; real data races, channel/cond deadlocks and the Go scheduler are
searched for by the -race workload (harness/c29race), which is validation, not proof.

Full-strength statements kept visible:
  C29_lockset          : every access of every shared entry method obeys the lockset rule.
                         Proved as C29_lockset_partial: … except the accesses listed in `knownRacy`
                         (each proved to be a real entry of the current table by a witness theorem).
  C29_linearizable     : every history of the operations of `fsem` is linearizable.
                         FALSE for multi-section reads: `C29_multi_section_witness`.
                         Proved for single-section operations: `C29_atomic_linearizable` (generic) and
                         `C29_linearizable_partial` (its instance for the fragment model).
Assumption (not proved): under the Go memory model a consistent lockset implies data-race freedom.
-/
import PV.C29.Gen
import PV.C29.Lemmas
namespace PV.C29

/-! ### 1. Lockset discipline over the regenerated table -/

/-- Accesses of the current tree that break the lockset rule (type, method, component, is-write).
  * TranslateFile.PrimaryTranslateStore: read without the lock in Translate{Columns,Rows}ToUint64,
    written by handlePrimaryStoreEvent under the lock (cluster replication only).
  * fragment.cache in top/topBitmapPairs: `if f.CacheType == CacheTypeNone { return f.cache.Top() }`
    reads the cache without fragment.mu; in that branch the cache is the stateless nopCache
    (benign; the LRU lookup of the ids branch was a real race and is fixed, see design/C29.md).
  * rankCache.rankings: Top() returns the shared slice without rankCache.mu (all current callers
    hold fragment.mu, which also serialises the writers; recalculate installs a fresh slice). -/
def knownRacy : List (String × String × String × Bool) :=
  [("TranslateFile", "TranslateColumnsToUint64", "TranslateFile.PrimaryTranslateStore", false),
   ("TranslateFile", "TranslateRowsToUint64", "TranslateFile.PrimaryTranslateStore", false),
   ("fragment", "top", "fragment.cache", false),
   ("rankCache", "Top", "rankCache.rankings", false)]

def named (v : String × String × Nat × Bool) : String × String × String × Bool :=
  (v.1, v.2.1, Gen.comps.getD v.2.2.1 "?", v.2.2.2)

/-- Every write to a component, and every read racing with one, in every entry method of fragment,
view, Field, Holder, Index, rankCache and TranslateFile (lifecycle methods excluded, see
`lifecycle`) happens under the object's mutex in the right mode — except exactly `knownRacy`.
The quantifier is the regenerated table, so `decide` is the proof; the equality also shows that
every listed exception is a real entry of the current table (the list cannot go stale). -/
theorem C29_lockset_table : (violations Gen.table).map named = knownRacy := by
  set_option maxRecDepth 100000 in decide

theorem C29_lockset_partial : ∀ v ∈ violations Gen.table, named v ∈ knownRacy := by
  intro v hv
  rw [← C29_lockset_table]
  exact List.mem_map.mpr ⟨v, hv, rfl⟩

theorem C29_knownRacy_witness : ∀ k ∈ knownRacy, k ∈ (violations Gen.table).map named := by
  intro k hk
  rw [C29_lockset_table]
  exact hk

/-- No entry method re-acquires a mutex it already holds (sync.RWMutex is not reentrant). -/
theorem C29_no_nested_lock : nestedLocks Gen.table = [] := by
  set_option maxRecDepth 100000 in decide

/-- Which fragment reads consist of several critical sections (the table's view of "multi-section"):
the operations the design names are all there. -/
theorem C29_multi_section_table :
    ∀ m ∈ ["sum", "min", "max", "rangeOp", "rangeBetween", "top", "minRow", "maxRow"],
      ("fragment", m) ∈ multiSection Gen.table := by
  set_option maxRecDepth 100000 in decide

/-- … while the bit operations are single sections. -/
theorem C29_single_section_table :
    ∀ m ∈ ["row", "setBit", "clearBit", "setRow", "clearRow", "importRoaring", "importValue", "rows", "value"],
      ("fragment", m) ∉ multiSection Gen.table := by
  set_option maxRecDepth 100000 in decide

/-! ### 2. One critical section per operation ⇒ linearizable -/

/-- Generic: for ANY sequential specification and ANY well-formed trace of a system whose
operations are single critical sections, the invocation/response history is linearizable; the
linearisation point of an operation is its critical section. -/
theorem C29_atomic_linearizable {σ α Res Op : Type} [DecidableEq Res] (sem : Op → Prog σ α Res)
    (hss : SingleSection sem) (s0 : σ) (tr : List (Ev Op Res)) (sf : Sys σ α Res Op)
    (h : exec sem ({ g := s0 } : Sys σ α Res Op) tr = some sf) :
    Linearizable sem s0 tr :=
  atomic_linearizable sem hss s0 tr sf h

/-- The fragment model restricted to its single-section operations (Set, mutex Set, Clear, Row) is
linearizable.  Excluded region: `inter`, `union` (multi-section reads). -/
theorem C29_linearizable_partial (s0 : FS) (tr : List (Ev { o : FOp // o.single = true } FRes))
    (sf : Sys FS FAcc FRes { o : FOp // o.single = true })
    (h : exec fsemSingle ({ g := s0 } : Sys FS FAcc FRes _) tr = some sf) :
    Linearizable fsemSingle s0 tr :=
  atomic_linearizable fsemSingle fsemSingle_single s0 tr sf h

/-! ### 3. Multi-section reads are not linearizable: the witness -/

/-- Mutex field, column 0 in row 1. -/
def wS0 : FS := fun r c => r == 1 && c == 0

/-- A reads Intersect(Row 1, Row 2); between A's two sections B moves column 0 from row 1 to row 2. -/
def wTrace : List (Ev FOp FRes) :=
  [.inv 0 (.inter 1 2), .inv 1 (.mset 2 0),
   .step 0,                       -- A reads row 1 = {0}
   .step 1, .ret 1 (.changed true), -- B: Set(0, f=2) on the mutex field, one critical section
   .step 0, .ret 0 (.cols [0])]   -- A reads row 2 = {0} and returns {0}

/-- The trace is a real execution of the model (every step is enabled, results are the model's). -/
theorem C29_multi_section_trace_valid : (exec fsem ({ g := wS0 } : Sys FS FAcc FRes FOp) wTrace).isSome = true := by
  decide

/-- `C29_linearizable` fails for multi-section reads: no sequential order of A and B explains
A's answer {0} (A first: {0} ∩ ∅; B first: ∅ ∩ {0}). -/
theorem C29_multi_section_witness : ¬ Linearizable fsem wS0 wTrace := by
  rintro ⟨L, hnd, hinv, hret, hlegal, _⟩
  obtain ⟨opA, hA⟩ := hret 0 (.cols [0]) (by simp [wTrace])
  obtain ⟨opB, hB⟩ := hret 1 (.changed true) (by simp [wTrace])
  have hopA : opA = .inter 1 2 := by
    have := hinv _ hA
    simp [wTrace] at this
    exact this
  have hopB : opB = .mset 2 0 := by
    have := hinv _ hB
    simp [wTrace] at this
    exact this
  subst hopA hopB
  have hids : ∀ e ∈ L, e.1 = 0 ∨ e.1 = 1 := by
    intro e he
    have := hinv e he
    simp [wTrace] at this
    rcases this with ⟨h, _⟩ | ⟨h, _⟩
    · exact Or.inl h
    · exact Or.inr h
  rcases two_entries L hnd hids _ _ hA hB rfl rfl with h | h
  · subst h
    revert hlegal
    simp only [Legal]
    decide
  · subst h
    revert hlegal
    simp only [Legal]
    decide

/-! ### Non-vacuity -/

/-- A well-formed single-section trace with overlapping operations. -/
example : (exec fsemSingle ({ g := wS0 } : Sys FS FAcc FRes _)
    [.inv 0 ⟨.row 1, rfl⟩, .inv 1 ⟨.mset 2 0, rfl⟩, .step 1, .step 0, .ret 0 (.cols []), .ret 1 (.changed true)]).isSome = true := by
  decide

end PV.C29
