/-
C29 helper lemmas (core Lean only): the invariant behind `atomic_linearizable` — in a system whose
operations are single critical sections, the ghost log (operations in the order their section ran)
is a legal sequential execution reproducing the shared state, contains every returned result and
respects real-time order.
-/
import PV.C29.Model
namespace PV.C29
variable {σ α Res Op : Type}

def ids (L : List (Nat × Op × Res)) : List Nat := L.map (·.1)

def replayState (sem : Op → Prog σ α Res) (s0 : σ) (L : List (Nat × Op × Res)) : σ :=
  L.foldl (fun s e => ((sem e.2.1).runSeq s).1) s0

theorem legal_append (sem : Op → Prog σ α Res) (s0 : σ) (L : List (Nat × Op × Res)) (e : Nat × Op × Res) :
    Legal sem s0 (L ++ [e]) ↔ Legal sem s0 L ∧ ((sem e.2.1).runSeq (replayState sem s0 L)).2 = e.2.2 := by
  induction L generalizing s0 with
  | nil =>
    obtain ⟨i, o, r⟩ := e
    simp [Legal, replayState]
  | cons x L ih =>
    obtain ⟨i, o, r⟩ := x
    simp only [List.cons_append, Legal, ih, replayState, List.foldl_cons, and_assoc]

theorem replayState_append (sem : Op → Prog σ α Res) (s0 : σ) (L : List (Nat × Op × Res)) (e : Nat × Op × Res) :
    replayState sem s0 (L ++ [e]) = ((sem e.2.1).runSeq (replayState sem s0 L)).1 := by
  simp [replayState, List.foldl_append]

theorem exec_append [DecidableEq Res] (sem : Op → Prog σ α Res) (s : Sys σ α Res Op) (x y : List (Ev Op Res)) :
    exec sem s (x ++ y) = (exec sem s x).bind (fun s' => exec sem s' y) := by
  induction x generalizing s with
  | nil => simp [exec]
  | cons e x ih =>
    simp only [List.cons_append, exec]
    cases h : exec1 sem s e with
    | none => simp
    | some s1 => simp [ih]

structure Inv (sem : Op → Prog σ α Res) (s0 : σ) (pre : List (Ev Op Res)) (s : Sys σ α Res Op) : Prop where
  run_inv : ∀ t ∈ s.running, t.id ∈ s.invoked ∧ t.id ∉ ids s.log ∧ t.rest = (sem t.op).steps ∧
    t.acc = (sem t.op).acc0 ∧ t.result = (sem t.op).result ∧ Ev.inv t.id t.op ∈ pre
  log_sub : ∀ id ∈ ids s.log, id ∈ s.invoked
  log_nodup : (ids s.log).Nodup
  legal : Legal sem s0 s.log
  state : replayState sem s0 s.log = s.g
  log_inv : ∀ e ∈ s.log, Ev.inv e.1 e.2.1 ∈ pre
  ret_log : ∀ id r, Ev.ret id r ∈ pre → ∃ op, (id, op, r) ∈ s.log

theorem inv_init (sem : Op → Prog σ α Res) (s0 : σ) : Inv sem s0 [] ({ g := s0 } : Sys σ α Res Op) := by
  constructor <;> simp [ids, Legal, replayState]

theorem step_inv [DecidableEq Res] (sem : Op → Prog σ α Res) (hss : SingleSection sem) (s0 : σ)
    (pre : List (Ev Op Res)) (s s' : Sys σ α Res Op) (e : Ev Op Res)
    (hI : Inv sem s0 pre s) (h : exec1 sem s e = some s') :
    Inv sem s0 (pre ++ [e]) s' ∧ (∃ ext, s'.log = s.log ++ ext) ∧ (∀ i ∈ s.invoked, i ∈ s'.invoked) := by
  cases e with
  | inv id op =>
    simp only [exec1] at h
    split at h
    · exact absurd h (by simp)
    · rename_i hfresh
      have hfresh' : id ∉ s.invoked := by simpa using hfresh
      simp only [Option.some.injEq] at h
      subst h
      refine ⟨?_, ⟨[], by simp⟩, fun i hi => List.mem_cons_of_mem _ hi⟩
      constructor
      · intro t ht
        simp only [List.mem_cons] at ht
        rcases ht with rfl | ht
        · refine ⟨by simp, ?_, rfl, rfl, rfl, by simp⟩
          intro hmem
          exact hfresh' (hI.log_sub _ hmem)
        · obtain ⟨a, b, c, d, e, f⟩ := hI.run_inv t ht
          exact ⟨List.mem_cons_of_mem _ a, b, c, d, e, by simp [f]⟩
      · intro i hi; exact List.mem_cons_of_mem _ (hI.log_sub i hi)
      · exact hI.log_nodup
      · exact hI.legal
      · exact hI.state
      · intro e he; simp [hI.log_inv e he]
      · intro i r hr
        simp only [List.mem_append, List.mem_singleton] at hr
        rcases hr with hr | hr
        · exact hI.ret_log i r hr
        · cases hr
  | step id =>
    simp only [exec1] at h
    split at h
    · exact absurd h (by simp)
    · rename_i t hfind
      have htmem : t ∈ s.running := List.mem_of_find?_eq_some hfind
      have htid : t.id = id := by
        have := List.find?_some hfind
        simpa using this
      obtain ⟨hinvk, hnotlog, hrest, hacc, hres, hpre⟩ := hI.run_inv t htmem
      obtain ⟨st, hst⟩ := hss t.op
      rw [hrest, hst] at h
      simp only [List.isEmpty_nil, if_true, Option.some.injEq] at h
      subst h
      refine ⟨?_, ⟨_, rfl⟩, fun i hi => hi⟩
      have hrun : (sem t.op).runSeq s.g = ((st s.g t.acc).1, t.result (st s.g t.acc).2) := by
        simp [Prog.runSeq, hst, hacc, hres]
      constructor
      · intro t' ht'
        simp only [List.mem_filter] at ht'
        obtain ⟨a, b, c, d, e, f⟩ := hI.run_inv t' ht'.1
        refine ⟨a, ?_, c, d, e, by simp [f]⟩
        simp only [ids, List.map_append, List.mem_append, List.map_cons, List.map_nil, List.mem_singleton]
        rintro (h1 | h1)
        · exact b h1
        · have : (t'.id != id) = true := ht'.2
          simp [h1] at this
      · intro i hi
        simp only [ids, List.map_append, List.mem_append, List.map_cons, List.map_nil, List.mem_singleton] at hi
        rcases hi with hi | hi
        · exact hI.log_sub i hi
        · rw [hi, ← htid]; exact hinvk
      · simp only [ids, List.map_append, List.map_cons, List.map_nil]
        rw [List.nodup_append]
        refine ⟨hI.log_nodup, by simp, ?_⟩
        intro a ha b hb
        simp only [List.mem_singleton] at hb
        subst hb
        intro hab
        subst hab
        rw [← htid] at ha
        exact hnotlog ha
      · rw [legal_append]
        refine ⟨hI.legal, ?_⟩
        simp only [hI.state, hrun]
      · rw [replayState_append]
        simp only [hI.state, hrun]
      · intro e he
        simp only [List.mem_append, List.mem_singleton] at he
        rcases he with he | he
        · simp [hI.log_inv e he]
        · subst he
          simp only
          rw [← htid]
          simp [hpre]
      · intro i r hr
        simp only [List.mem_append, List.mem_singleton] at hr
        rcases hr with hr | hr
        · obtain ⟨op, hop⟩ := hI.ret_log i r hr
          exact ⟨op, by simp [hop]⟩
        · cases hr
  | ret id r =>
    simp only [exec1] at h
    split at h
    · exact absurd h (by simp)
    · split at h
      · rename_i i' op' r' hfind
        split at h
        · rename_i hr
          simp only [Option.some.injEq] at h
          subst h
          subst hr
          have hmem : (i', op', r') ∈ s.log := List.mem_of_find?_eq_some hfind
          have hid : i' = id := by
            have := List.find?_some hfind
            simpa using this
          subst hid
          refine ⟨?_, ⟨[], by simp⟩, fun i hi => hi⟩
          constructor
          · intro t ht
            obtain ⟨a, b, c, d, e, f⟩ := hI.run_inv t ht
            exact ⟨a, b, c, d, e, by simp [f]⟩
          · exact hI.log_sub
          · exact hI.log_nodup
          · exact hI.legal
          · exact hI.state
          · intro e he; simp [hI.log_inv e he]
          · intro i r hr
            simp only [List.mem_append, List.mem_singleton] at hr
            rcases hr with hr | hr
            · exact hI.ret_log i r hr
            · cases hr
              exact ⟨op', hmem⟩
        · exact absurd h (by simp)
      · exact absurd h (by simp)


theorem exec_inv [DecidableEq Res] (sem : Op → Prog σ α Res) (hss : SingleSection sem) (s0 : σ)
    (pre tr : List (Ev Op Res)) (s s' : Sys σ α Res Op)
    (hI : Inv sem s0 pre s) (h : exec sem s tr = some s') :
    Inv sem s0 (pre ++ tr) s' ∧ (∃ ext, s'.log = s.log ++ ext) ∧ (∀ i ∈ s.invoked, i ∈ s'.invoked) := by
  induction tr generalizing pre s with
  | nil =>
    simp only [exec, Option.some.injEq] at h
    subst h
    exact ⟨by simpa using hI, ⟨[], by simp⟩, fun i hi => hi⟩
  | cons e tr ih =>
    simp only [exec] at h
    obtain ⟨s1, h1, h⟩ := Option.bind_eq_some_iff.mp h
    obtain ⟨hI1, ⟨ext1, hext1⟩, hmon1⟩ := step_inv sem hss s0 pre s s1 e hI h1
    obtain ⟨hI2, ⟨ext2, hext2⟩, hmon2⟩ := ih (pre ++ [e]) s1 hI1 h
    refine ⟨by simpa using hI2, ⟨ext1 ++ ext2, by rw [hext2, hext1, List.append_assoc]⟩, ?_⟩
    intro i hi
    exact hmon2 i (hmon1 i hi)

/-- A system whose operations are each ONE critical section is linearizable: the linearisation
order is the order in which the critical sections ran. -/
theorem atomic_linearizable [DecidableEq Res] (sem : Op → Prog σ α Res) (hss : SingleSection sem) (s0 : σ)
    (tr : List (Ev Op Res)) (sf : Sys σ α Res Op)
    (h : exec sem ({ g := s0 } : Sys σ α Res Op) tr = some sf) :
    Linearizable sem s0 tr := by
  obtain ⟨hI, _, _⟩ := exec_inv sem hss s0 [] tr _ sf (inv_init sem s0) h
  simp only [List.nil_append] at hI
  refine ⟨sf.log, hI.log_nodup, hI.log_inv, hI.ret_log, hI.legal, ?_⟩
  intro t1 t2 t3 a ra b opb htr hb
  subst htr
  -- tr = (t1 ++ ret :: t2) ++ (inv :: t3)
  rw [exec_append] at h
  obtain ⟨s2, h12, h⟩ := Option.bind_eq_some_iff.mp h
  rw [exec_append] at h12
  obtain ⟨s1, h1, h12⟩ := Option.bind_eq_some_iff.mp h12
  obtain ⟨hI1, _, _⟩ := exec_inv sem hss s0 [] t1 _ s1 (inv_init sem s0) h1
  -- the ret event
  rw [show (Ev.ret a ra :: t2) = [Ev.ret a ra] ++ t2 by simp, exec_append] at h12
  obtain ⟨s1', h2, h3⟩ := Option.bind_eq_some_iff.mp h12
  obtain ⟨hI1', ⟨e1, he1⟩, _⟩ := exec_inv sem hss s0 _ [Ev.ret a ra] s1 s1' hI1 h2
  have ha1 : a ∈ ids s1'.log := by
    obtain ⟨op, hop⟩ := hI1'.ret_log a ra (by simp)
    exact List.mem_map.mpr ⟨_, hop, rfl⟩
  obtain ⟨hI2, ⟨e2, he2⟩, _⟩ := exec_inv sem hss s0 _ t2 s1' s2 hI1' h3
  have ha2 : a ∈ ids s2.log := by
    rw [he2]; simp only [ids, List.map_append, List.mem_append]; exact Or.inl ha1
  -- the inv event: b is fresh, hence not yet in the log
  simp only [exec] at h
  obtain ⟨s2', h4, h⟩ := Option.bind_eq_some_iff.mp h
  have hbfresh : b ∉ s2.invoked := by
    simp only [exec1] at h4
    split at h4
    · exact absurd h4 (by simp)
    · rename_i hf; simpa using hf
  have hb2 : b ∉ ids s2.log := fun hmem => hbfresh (hI2.log_sub b hmem)
  obtain ⟨hI2', ⟨e3, he3⟩, _⟩ := step_inv sem hss s0 _ s2 s2' _ hI2 h4
  obtain ⟨_, ⟨e4, he4⟩, _⟩ := exec_inv sem hss s0 _ t3 s2' sf hI2' h
  have hlog : sf.log = s2.log ++ (e3 ++ e4) := by rw [he4, he3, List.append_assoc]
  refine ⟨ids s2.log, ids (e3 ++ e4), by rw [hlog]; simp [ids], ha2, ?_⟩
  have hb' : b ∈ ids sf.log := hb
  rw [hlog] at hb'
  simp only [ids, List.map_append, List.mem_append] at hb' hb2 ⊢
  rcases hb' with hb' | hb'
  · exact absurd hb' hb2
  · exact hb'


theorem fsemSingle_single : SingleSection fsemSingle := by
  intro ⟨o, ho⟩
  cases o <;> simp [FOp.single] at ho <;> exact ⟨_, rfl⟩


theorem two_entries {β : Type} (L : List (Nat × β)) (hnd : (L.map (·.1)).Nodup)
    (hids : ∀ e ∈ L, e.1 = 0 ∨ e.1 = 1) (a b : Nat × β) (ha : a ∈ L) (hb : b ∈ L) (ha0 : a.1 = 0) (hb1 : b.1 = 1) :
    L = [a, b] ∨ L = [b, a] := by
  match L, hnd, hids, ha, hb with
  | [], _, _, ha, _ => cases ha
  | [x], _, _, ha, hb =>
    simp only [List.mem_singleton] at ha hb
    subst ha; subst hb; omega
  | [x, y], hnd, _, ha, hb =>
    simp only [List.mem_cons, List.not_mem_nil, or_false] at ha hb
    simp only [List.map_cons, List.map_nil, List.nodup_cons, List.mem_singleton, List.not_mem_nil,
      not_false_eq_true, List.nodup_nil, and_true] at hnd
    rcases ha with rfl | rfl <;> rcases hb with rfl | rfl
    · omega
    · exact Or.inl rfl
    · exact Or.inr rfl
    · omega
  | x :: y :: z :: rest, hnd, hids, _, _ =>
    exfalso
    simp only [List.map_cons, List.nodup_cons, List.mem_cons, not_or] at hnd
    have hx := hids x (by simp)
    have hy := hids y (by simp)
    have hz := hids z (by simp)
    omega


end PV.C29
