/-
C29 model layer (core Lean only, executable).

Part 1: the shape of the regenerated lock-discipline table (lean/PV/C29/Gen.lean, written by
harness/extract/locks) and the decidable lockset check over it.
Part 2 (below): the sequential model of a fragment's bit operations as `Prog`s, single-section
and multi-section, used by the linearizability theorems and by the driver.
-/
import PV.C29.Spec
namespace PV.C29

/-- One access to a state component of a shared object. `mode` is the mode in which the object's
own mutex is held at the access: 0 none, 1 read-locked, 2 write-locked. `gor`: inside a `go` body. -/
structure Acc where
  comp : Nat      -- index into `Gen.comps`
  write : Bool
  mode : Nat
  gor : Bool
  via : String
deriving Repr, DecidableEq

/-- One method: `sections` lists the modes of the critical sections it enters, in order (a section
inside a loop is listed twice); `nested` lists callees that lock while the lock is already held. -/
structure Meth where
  typ : String
  name : String
  entry : Bool
  sections : List Nat
  nested : List String
  accs : List Acc
deriving Repr, DecidableEq

/-- Methods that by design run while the object is not shared: construction / opening (before the
object is published in its parent's map, under the parent's lock) and closing (after the parent
removed it).  Their accesses are not subject to the lockset rule and their writes do not make a
component "written" for it.  This list is part of the statement of `C29_lockset`. -/
def lifecycle : List String :=
  ["Open", "Close", "open", "close", "openStorage", "closeStorage", "openCache", "openViews", "openFields",
   "openExistenceField", "loadMeta", "loadAvailableShards", "applyOptions", "SetStats", "newView", "newFragment",
   "newField", "safeClose", "reopen",
   -- saveMeta: its entry-level calls are Holder.createIndex / Index.createField on an object that
   -- is not yet published; every other call is inlined into a caller holding the write lock
   "saveMeta"]

def shared (m : Meth) : Bool := !lifecycle.contains m.name

/-- Components written by some method other than the lifecycle ones, as a bit mask over
component indices (kernel-friendly: big-number operations instead of list searches). -/
def writtenMask (table : List Meth) : Nat :=
  (table.filter shared).foldl (fun m me =>
    me.accs.foldl (fun m a => if a.write then m ||| (1 <<< a.comp) else m) m) 0

/-- The lockset rule for one access: a write needs the write lock; a read of a component that is
written (outside the lifecycle methods) needs the read or the write lock. -/
def accOK (written : Nat) (a : Acc) : Bool :=
  if a.write then a.mode == 2 else !(written.testBit a.comp) || a.mode != 0

def dedupNB : List (Nat × Bool) → List (Nat × Bool)
  | [] => []
  | x :: l => if l.contains x then dedupNB l else x :: dedupNB l

/-- (type, method, component index, is-write) of every access of a shared entry method breaking
the rule. -/
def violations (table : List Meth) : List (String × String × Nat × Bool) :=
  let written := writtenMask table
  (table.filter (fun m => m.entry && shared m)).flatMap (fun m =>
    (dedupNB ((m.accs.filter (fun a => !accOK written a)).map (fun a => (a.comp, a.write)))).map
      (fun p => (m.typ, m.name, p.1, p.2)))

/-- Entry methods that re-acquire a mutex they already hold (sync.RWMutex is not reentrant). -/
def nestedLocks (table : List Meth) : List (String × String) :=
  ((table.filter (fun m => m.entry && !m.nested.isEmpty)).map (fun m => (m.typ, m.name)))

/-- Entry methods made of several critical sections. -/
def multiSection (table : List Meth) : List (String × String) :=
  ((table.filter (fun m => m.entry && m.sections.length ≥ 2)).map (fun m => (m.typ, m.name)))


/-! ## Part 2: sequential model of the bit operations of one field / one shard -/

/-- row → column → bit. -/
abbrev FS := Nat → Nat → Bool

/-- Columns of the model universe (reads enumerate them). -/
def colsU : List Nat := List.range 8

inductive FOp
  | set (r c : Nat)      -- Set on a set field                    (fragment.setBit: one section)
  | mset (r c : Nat)     -- Set on a mutex field: the column leaves its other rows and enters r
                          --   (fragment.setBit: handleMutex + unprotectedSetBit under ONE Lock)
  | clear (r c : Nat)    -- Clear                                 (fragment.clearBit: one section)
  | row (r : Nat)        -- Row(f=r)                              (fragment.row: one section)
  | inter (r1 r2 : Nat)  -- Intersect(Row(f=r1), Row(f=r2)): executeIntersectShard evaluates its
                          --   children one after the other, each through fragment.row: TWO sections
  | union (r1 r2 : Nat)  -- Union(Row, Row): two sections
deriving DecidableEq, Repr

inductive FRes
  | changed (b : Bool)
  | cols (l : List Nat)
deriving DecidableEq, Repr

def readRow (s : FS) (r : Nat) : List Nat := colsU.filter (fun c => s r c)

/-- The accumulator holds the rows read so far (reads) or the `changed` flag (writes). -/
abbrev FAcc := List (List Nat)

def fsem : FOp → Prog FS FAcc FRes
  | .set r c =>
    { steps := [fun s _ => (fun r' c' => if r' = r ∧ c' = c then true else s r' c', [if s r c then [] else [1]])],
      acc0 := [], result := fun a => .changed (a != [[]]) }
  | .mset r c =>
    { steps := [fun s _ => (fun r' c' => if c' = c then decide (r' = r) else s r' c', [if s r c then [] else [1]])],
      acc0 := [], result := fun a => .changed (a != [[]]) }
  | .clear r c =>
    { steps := [fun s _ => (fun r' c' => if r' = r ∧ c' = c then false else s r' c', [if s r c then [1] else []])],
      acc0 := [], result := fun a => .changed (a != [[]]) }
  | .row r =>
    { steps := [fun s _ => (s, [readRow s r])], acc0 := [], result := fun a => .cols (a.headD []) }
  | .inter r1 r2 =>
    { steps := [fun s a => (s, a ++ [readRow s r1]), fun s a => (s, a ++ [readRow s r2])], acc0 := [],
      result := fun a => .cols ((a.headD []).filter (fun c => (a.getD 1 []).contains c)) }
  | .union r1 r2 =>
    { steps := [fun s a => (s, a ++ [readRow s r1]), fun s a => (s, a ++ [readRow s r2])], acc0 := [],
      result := fun a => .cols (colsU.filter (fun c => (a.headD []).contains c || (a.getD 1 []).contains c)) }

/-- Operations that are one critical section. -/
def FOp.single : FOp → Bool
  | .inter _ _ => false
  | .union _ _ => false
  | _ => true

/-- The single-section operations as their own operation type (for `C29_atomic_linearizable`). -/
def fsemSingle (o : { o : FOp // o.single = true }) : Prog FS FAcc FRes := fsem o.1

end PV.C29
