/-
C22 helper lemmas: list update, and the inductive invariant of the transition system.
Core Lean only.
-/
import PV.C22.Model
namespace PV.C22

theorem updJob_length (js : List Job) (k : Nat) (f : Job → Job) : (updJob js k f).length = js.length := by
  induction js generalizing k with
  | nil => rfl
  | cons j js ih => cases k <;> simp [updJob, ih]

theorem updJob_get (js : List Job) (k i : Nat) (f : Job → Job) :
    (updJob js k f)[i]? = if i = k then (js[i]?).map f else js[i]? := by
  induction js generalizing k i with
  | nil => simp [updJob]
  | cons j js ih =>
    cases k with
    | zero => cases i <;> simp [updJob]
    | succ k => cases i <;> simp [updJob, ih]

theorem updJob_get_eq {js : List Job} {k : Nat} {f : Job → Job} {j : Job} (h : js[k]? = some j) :
    (updJob js k f)[k]? = some (f j) := by simp [updJob_get, h]

theorem updJob_get_ne {js : List Job} {k i : Nat} {f : Job → Job} (h : i ≠ k) :
    (updJob js k f)[i]? = js[i]? := by simp [updJob_get, h]

/-- Looking a job up after an update: either it is the updated one or it is unchanged. -/
theorem updJob_cases {js : List Job} {k i : Nat} {f : Job → Job} {j' : Job}
    (h : (updJob js k f)[i]? = some j') :
    (i = k ∧ ∃ j, js[i]? = some j ∧ j' = f j) ∨ (i ≠ k ∧ js[i]? = some j') := by
  rw [updJob_get] at h
  by_cases hik : i = k
  · left; simp [hik] at h ⊢; obtain ⟨j, hj, rfl⟩ := h; exact ⟨j, by simpa [hik] using hj, rfl⟩
  · right; simp [hik] at h; exact ⟨hik, h⟩

theorem append_get_cases {js : List Job} {x : Job} {i : Nat} {j' : Job}
    (h : (js ++ [x])[i]? = some j') : (i < js.length ∧ js[i]? = some j') ∨ (i = js.length ∧ j' = x) := by
  by_cases hi : i < js.length
  · left; rw [List.getElem?_append_left hi] at h; exact ⟨hi, h⟩
  · right
    have hi' : js.length ≤ i := Nat.le_of_not_lt hi
    rw [List.getElem?_append_right hi'] at h
    cases hd : i - js.length with
    | zero => simp [hd] at h; exact ⟨by omega, h.symm⟩
    | succ n => simp [hd] at h

/-! ### structural invariant `InvA` -/


def onJob (s : St) (k : Nat) : Prop := s.lpc = .wait k ∨ ∃ r, s.lpc = .got k r

structure InvA (s : St) : Prop where
  cur_lis : ∀ k, s.cur = some k → onJob s k
  lis_lt : ∀ k, (onJob s k ∨ s.lpc = .done2 k) → k < s.jobs.length
  run_lis : ∀ k j, s.jobs[k]? = some j → j.state = .running → onJob s k
  alive_lis : ∀ k j, s.jobs[k]? = some j → (j.run = .notStarted ∨ j.run = .started) → onJob s k
  nocur_aborted : ∀ k j, onJob s k → s.cur = none → s.jobs[k]? = some j → j.state = .aborted
  done_all : ∀ k j, s.jobs[k]? = some j → (j.buf = some .done ∨ s.lpc = .got k .done ∨ s.lpc = .done2 k) → allDone j.ids
  cur_live : ∀ k j, s.cur = some k → s.jobs[k]? = some j → j.state = .new ∨ j.state = .running

theorem step_core {s s' : St} {l : Label} (h : step s l = some s') : stepCore s l = some s' := by
  unfold step at h; split at h
  · cases h
  · exact h

theorem invA_init (c : Nat) (o : List Nat) : InvA (init c o) := by
  constructor <;> simp [init, onJob]

/-- Steps that touch neither the listener position, nor the current job, nor the jobs. -/
theorem invA_frame {s s' : St} (h : InvA s) (h1 : s'.lpc = s.lpc) (h2 : s'.cur = s.cur) (h3 : s'.jobs = s.jobs) : InvA s' := by
  obtain ⟨a, b, c, d, e, f, g⟩ := h
  constructor <;> simp only [onJob, h1, h2, h3] <;> assumption

theorem enqueue_frame (s : St) (a : NodeAction) :
    (enqueue s a).lpc = s.lpc ∧ (enqueue s a).cur = s.cur ∧ (enqueue s a).jobs = s.jobs := by
  unfold enqueue; split <;> simp

theorem invA_join {s s' : St} {n : Nat} (h : InvA s) (hs : stepJoin s n = some s') : InvA s' := by
  unfold stepJoin at hs
  split at hs <;> cases hs
  · exact h
  · have := enqueue_frame s ⟨.add, n⟩; exact invA_frame h this.1 this.2.1 this.2.2

theorem invA_leave {s s' : St} {n : Nat} {ok : Bool} (h : InvA s) (hs : stepLeave s n ok = some s') : InvA s' := by
  unfold stepLeave at hs
  repeat' split at hs
  all_goals cases hs
  all_goals first | exact h | (have := enqueue_frame s ⟨.remove, n⟩; exact invA_frame h this.1 this.2.1 this.2.2)

def offJob : LPc → Prop
  | .wait _ | .got _ _ | .done2 _ => False
  | _ => True

theorem not_onJob_of_off {s : St} (h : offJob s.lpc) (k : Nat) : ¬ onJob s k := by
  intro hk; rcases hk with hk | ⟨r, hk⟩ <;> simp [hk, offJob] at h

/-- The listener moves between positions outside any job; jobs and current job untouched. -/
theorem invA_off {s s' : St} (h : InvA s) (ho : offJob s.lpc) (ho' : offJob s'.lpc)
    (h2 : s'.cur = s.cur) (h3 : s'.jobs = s.jobs) : InvA s' := by
  have hn := not_onJob_of_off ho
  have hn' := not_onJob_of_off ho'
  have hd : ∀ k, s.lpc ≠ .done2 k := by intro k hk; simp [hk, offJob] at ho
  have hd' : ∀ k, s'.lpc ≠ .done2 k := by intro k hk; simp [hk, offJob] at ho'
  have hg' : ∀ k r, s'.lpc ≠ .got k r := by intro k r hk; simp [hk, offJob] at ho'
  have hg : ∀ k r, s.lpc ≠ .got k r := by intro k r hk; simp [hk, offJob] at ho
  constructor
  · intro k hk; rw [h2] at hk; exact absurd (h.cur_lis k hk) (hn k)
  · intro k hk; rcases hk with hk | hk
    · exact absurd hk (hn' k)
    · exact absurd hk (hd' k)
  · intro k j hj hr; rw [h3] at hj; exact absurd (h.run_lis k j hj hr) (hn k)
  · intro k j hj hr; rw [h3] at hj; exact absurd (h.alive_lis k j hj hr) (hn k)
  · intro k j hk; exact absurd hk (hn' k)
  · intro k j hj hb; rw [h3] at hj
    rcases hb with hb | hb | hb
    · exact h.done_all k j hj (Or.inl hb)
    · exact absurd hb (hg' k _)
    · exact absurd hb (hd' k)
  · intro k j hk; rw [h2] at hk; exact absurd (h.cur_lis k hk) (hn k)

theorem dequeue_frame {s s' : St} {a : NodeAction} (h : dequeue s = some (a, s')) :
    s'.lpc = s.lpc ∧ s'.cur = s.cur ∧ s'.jobs = s.jobs := by
  unfold dequeue at h
  split at h
  · cases h
  · split at h <;> (cases h; simp)

theorem invA_lTop {s s' : St} (h : InvA s) (hs : stepLTop s = some s') : InvA s' := by
  unfold stepLTop at hs
  split at hs
  · cases hs
  · rename_i hl
    have hl : s.lpc = .top := by simpa using hl
    split at hs
    · rename_i a s1 hd
      cases hs
      have := dequeue_frame hd
      exact invA_off h (by simp [hl, offJob]) (by simp [offJob]) (by simp [this.2.1]) (by simp [this.2.2])
    · cases hs
      exact invA_off h (by simp [hl, offJob]) (by simp [offJob]) rfl rfl

theorem invA_lAfterDrain {s s' : St} (h : InvA s) (hs : stepLAfterDrain s = some s') : InvA s' := by
  unfold stepLAfterDrain at hs
  split at hs
  · cases hs
  · rename_i hl
    have hl : s.lpc = .afterDrain := by simpa using hl
    split at hs <;> cases hs <;>
      exact invA_off h (by simp [hl, offJob]) (by simp [offJob]) rfl rfl

theorem invA_lIdle {s s' : St} (h : InvA s) (hs : stepLIdle s = some s') : InvA s' := by
  unfold stepLIdle at hs
  split at hs
  · cases hs
  · rename_i hl
    have hl : s.lpc = .idle := by simpa using hl
    split at hs
    · rename_i a s1 hd
      cases hs
      have := dequeue_frame hd
      exact invA_off h (by simp [hl, offJob]) (by simp [offJob]) (by simp [this.2.1]) (by simp [this.2.2])
    · cases hs

theorem invA_lGenErr {s s' : St} (h : InvA s) (hs : stepLGenErr s = some s') : InvA s' := by
  unfold stepLGenErr at hs
  split at hs
  · cases hs
  · rename_i hl
    have hl : s.lpc = .genErr := by simpa using hl
    cases hs
    exact invA_off h (by simp [hl, offJob]) (by simp [offJob]) rfl rfl
theorem invA_lGen {s s' : St} {plan : Option (List Nat)} (h : InvA s) (hs : stepLGen s plan = some s') : InvA s' := by
  unfold stepLGen at hs
  split at hs
  · rename_i a hl
    have ho : offJob s.lpc := by simp [hl, offJob]
    have hn := not_onJob_of_off ho
    split at hs
    · cases hs
      exact invA_off h ho (by simp [offJob]) rfl rfl
    · rename_i pend
      split at hs
      · rename_i c hc
        exact absurd (h.cur_lis c hc) (hn c)
      · rename_i hc
        cases hs
        constructor
        · intro k hk; simp at hk; subst hk; left; rfl
        · intro k hk; simp [onJob] at hk; subst hk; simp
        · intro k j hj hr
          rcases append_get_cases hj with ⟨_, hj'⟩ | ⟨_, hj'⟩
          · exact absurd (h.run_lis k j hj' hr) (hn k)
          · subst hj'; simp [mkJob] at hr
        · intro k j hj hr
          rcases append_get_cases hj with ⟨_, hj'⟩ | ⟨hk, hj'⟩
          · exact absurd (h.alive_lis k j hj' hr) (hn k)
          · subst hk; left; rfl
        · intro k j _ hcur; simp at hcur
        · intro k j hj hb
          simp at hb
          rcases append_get_cases hj with ⟨_, hj'⟩ | ⟨_, hj'⟩
          · exact h.done_all k j hj' (Or.inl hb)
          · subst hj'; simp [mkJob] at hb
        · intro k j hk hj
          simp at hk; subst hk
          rcases append_get_cases hj with ⟨hlt, _⟩ | ⟨_, hj'⟩
          · omega
          · subst hj'; left; simp [mkJob]
  · cases hs


/-- One job is rewritten in place; listener position and current job untouched. -/
theorem invA_upd {s : St} {k : Nat} {j0 : Job} {f : Job → Job} (h : InvA s) (hk : s.jobs[k]? = some j0)
    (hrun : (f j0).state = .running → onJob s k)
    (halive : ((f j0).run = .notStarted ∨ (f j0).run = .started) → onJob s k)
    (hab : onJob s k → s.cur = none → (f j0).state = .aborted)
    (hdone : ((f j0).buf = some .done ∨ s.lpc = .got k .done ∨ s.lpc = .done2 k) → allDone (f j0).ids)
    (hlive : s.cur = some k → (f j0).state = .new ∨ (f j0).state = .running) :
    InvA { s with jobs := updJob s.jobs k f } := by
  constructor
  · exact h.cur_lis
  · intro i hi; simp only [updJob_length]; exact h.lis_lt i hi
  · intro i j hj hr
    rcases updJob_cases hj with ⟨hik, j1, hj1, rfl⟩ | ⟨_, hj1⟩
    · subst hik; rw [hk] at hj1; cases hj1; exact hrun hr
    · exact h.run_lis i j hj1 hr
  · intro i j hj hr
    rcases updJob_cases hj with ⟨hik, j1, hj1, rfl⟩ | ⟨_, hj1⟩
    · subst hik; rw [hk] at hj1; cases hj1; exact halive hr
    · exact h.alive_lis i j hj1 hr
  · intro i j hi hc hj
    rcases updJob_cases hj with ⟨hik, j1, hj1, rfl⟩ | ⟨_, hj1⟩
    · subst hik; rw [hk] at hj1; cases hj1; exact hab hi hc
    · exact h.nocur_aborted i j hi hc hj1
  · intro i j hj hb
    rcases updJob_cases hj with ⟨hik, j1, hj1, rfl⟩ | ⟨_, hj1⟩
    · subst hik; rw [hk] at hj1; cases hj1; exact hdone hb
    · exact h.done_all i j hj1 hb
  · intro i j hc hj
    rcases updJob_cases hj with ⟨hik, j1, hj1, rfl⟩ | ⟨_, hj1⟩
    · subst hik; rw [hk] at hj1; cases hj1; exact hlive hc
    · exact h.cur_live i j hc hj1

theorem hasPending_false_allDone {ids : List (Nat × IdSt)} (h : hasPending ids = false) : allDone ids := by
  intro p hp
  unfold hasPending at h
  have := List.any_eq_false.mp h p hp
  cases hst : p.2 <;> simp_all

theorem allDone_markReported {ids : List (Nat × IdSt)} (n : Nat) (h : allDone ids) : allDone (markReported ids n) := by
  induction ids with
  | nil => intro p hp; simp [markReported] at hp; subst hp; right; rfl
  | cons x xs ih =>
    obtain ⟨m, st⟩ := x
    have hx := h (m, st) (by simp)
    have hxs : allDone xs := fun p hp => h p (by simp [hp])
    unfold markReported
    split
    · intro p hp
      simp at hp
      rcases hp with rfl | hp
      · simp; rcases hx with hx | hx <;> simp_all
      · exact hxs p hp
    · intro p hp
      simp at hp
      rcases hp with rfl | hp
      · exact hx
      · exact ih hxs p hp

theorem invA_complete {s s' : St} {k n : Nat} {e : Bool} (h : InvA s) (hs : stepComplete s k n e = some s') : InvA s' := by
  unfold stepComplete at hs
  split at hs
  · cases hs; exact h
  · rename_i j0 hk
    cases hs
    apply invA_upd h hk
    · intro hr; apply h.run_lis k j0 hk
      unfold completeJob at hr; split at hr
      · exact hr
      · split at hr <;> exact hr
    · intro hr; apply h.alive_lis k j0 hk
      unfold completeJob at hr; split at hr
      · exact hr
      · split at hr <;> exact hr
    · intro hi hc
      have := h.nocur_aborted k j0 hi hc hk
      unfold completeJob; split
      · exact this
      · split <;> simp [this]
    · intro hb
      have hold : (j0.buf = some .done ∨ s.lpc = .got k .done ∨ s.lpc = .done2 k) → allDone j0.ids := h.done_all k j0 hk
      unfold completeJob at hb ⊢
      split at hb
      · -- error completion: ids unchanged; buf can only be done if it was
        rename_i he
        simp only [he, if_true]
        apply hold
        rcases hb with hb | hb | hb
        · left; cases hbuf : j0.buf <;> simp [offer, hbuf] at hb ⊢; exact hb
        · right; left; exact hb
        · right; right; exact hb
      · rename_i he
        simp only [he]
        split at hb
        · rename_i hst; simp only [hst, if_true]; exact hold hb
        · rename_i hst
          simp only [hst, if_false]
          simp only at hb ⊢
          by_cases hp : hasPending (markReported j0.ids n) = true
          · simp only [hp, if_true] at hb
            exact allDone_markReported n (hold hb)
          · have hp' : hasPending (markReported j0.ids n) = false := by simpa using hp
            exact hasPending_false_allDone hp'
    · intro hc
      have := h.cur_live k j0 hc hk
      unfold completeJob; split
      · exact this
      · split <;> simpa using this

theorem onJob_unique {s : St} {a b : Nat} (ha : onJob s a) (hb : onJob s b) : a = b := by
  rcases ha with ha | ⟨r, ha⟩ <;> rcases hb with hb | ⟨r', hb⟩ <;> rw [ha] at hb <;> cases hb <;> rfl

theorem setJState_not_running_aborted (st : JState) : setJState st .aborted ≠ .running := by
  cases st <;> simp [setJState]

theorem invA_abort {s s' : St} (h : InvA s) (hs : stepAbort s = some s') : InvA s' := by
  unfold stepAbort at hs
  split at hs
  · cases hs; exact h
  · split at hs
    · cases hs; exact h
    · rename_i c hc
      cases hs
      have hon : onJob s c := h.cur_lis c hc
      have hlt : c < s.jobs.length := h.lis_lt c (Or.inl hon)
      obtain ⟨j0, hj0⟩ : ∃ j0, s.jobs[c]? = some j0 := ⟨s.jobs[c], by simp [hlt]⟩
      have hlive := h.cur_live c j0 hc hj0
      constructor
      · intro k hk; simp at hk
      · intro k hk; simp only [updJob_length]; exact h.lis_lt k hk
      · intro i j hj hr
        rcases updJob_cases hj with ⟨hik, j1, hj1, rfl⟩ | ⟨_, hj1⟩
        · exact absurd hr (setJState_not_running_aborted _)
        · exact h.run_lis i j hj1 hr
      · intro i j hj hr
        rcases updJob_cases hj with ⟨hik, j1, hj1, rfl⟩ | ⟨_, hj1⟩
        · exact h.alive_lis i j1 hj1 hr
        · exact h.alive_lis i j hj1 hr
      · intro i j hi _ hj
        have hic : i = c := onJob_unique hi hon
        subst hic
        rcases updJob_cases hj with ⟨_, j1, hj1, rfl⟩ | ⟨hne, _⟩
        · rw [hj0] at hj1; cases hj1
          rcases hlive with hl | hl <;> simp [hl, setJState]
        · exact absurd rfl hne
      · intro i j hj hb
        rcases updJob_cases hj with ⟨hik, j1, hj1, rfl⟩ | ⟨_, hj1⟩
        · exact h.done_all i j1 hj1 hb
        · exact h.done_all i j hj1 hb
      · intro k j hk; simp at hk

theorem invA_rStart {s s' : St} {k : Nat} (h : InvA s) (hs : stepRStart s k = some s') : InvA s' := by
  unfold stepRStart at hs
  split at hs
  · rename_i j0 hk
    split at hs
    · rename_i hrun
      cases hs
      have hon : onJob s k := h.alive_lis k j0 hk (Or.inl hrun)
      apply invA_upd h hk
      · intro _; exact hon
      · intro _; exact hon
      · intro hi hc
        have := h.nocur_aborted k j0 hi hc hk
        simp [this, setJState]
      · intro hb; exact h.done_all k j0 hk hb
      · intro hc
        rcases h.cur_live k j0 hc hk with hl | hl <;> simp [hl, setJState]
    · cases hs
  · cases hs

theorem invA_rGo {s s' : St} {k : Nat} (h : InvA s) (hs : stepRGo s k = some s') : InvA s' := by
  unfold stepRGo at hs
  split at hs
  · rename_i j0 hk
    split at hs
    · rename_i hrun
      cases hs
      have hon : onJob s k := h.alive_lis k j0 hk (Or.inr hrun)
      have hst : (runGo j0 s.failNodes).state = j0.state := by
        unfold runGo; split
        · rfl
        · split <;> rfl
      apply invA_upd h hk
      · intro _; exact hon
      · intro _; exact hon
      · intro hi hc; rw [hst]; exact h.nocur_aborted k j0 hi hc hk
      · intro hb
        have hold := h.done_all k j0 hk
        unfold runGo at hb ⊢
        split
        · rename_i hp
          have hp' : hasPending j0.ids = false := by simpa using hp
          exact hasPending_false_allDone hp'
        · rename_i hp
          simp only [hp] at hb
          split
          · rename_i hf
            simp only [hf, if_true] at hb
            apply hold
            rcases hb with hb | hb | hb
            · left; cases hbuf : j0.buf <;> simp [offer, hbuf] at hb ⊢; exact hb
            · right; left; exact hb
            · right; right; exact hb
          · rename_i hf
            simp only [hf] at hb
            exact hold hb
      · intro hc; rw [hst]; exact h.cur_live k j0 hc hk
    · cases hs
  · cases hs

theorem invA_lRecv {s s' : St} (h : InvA s) (hs : stepLRecv s = some s') : InvA s' := by
  unfold stepLRecv at hs
  split at hs
  · rename_i k hl
    split at hs
    · rename_i j0 hk
      split at hs
      · rename_i r hbuf
        cases hs
        have hon : onJob s k := Or.inl hl
        have key : ∀ i, onJob { s with jobs := updJob s.jobs k (fun j => { j with buf := none }), lpc := LPc.got k r } i ↔ onJob s i := by
          intro i; constructor
          · intro hi; rcases hi with hi | ⟨r', hi⟩
            · simp at hi
            · simp at hi; rw [← hi.1]; exact hon
          · intro hi; have := onJob_unique hi hon; subst this; right; exact ⟨r, rfl⟩
        constructor
        · intro i hi; exact (key i).mpr (h.cur_lis i hi)
        · intro i hi; simp only [updJob_length]
          rcases hi with hi | hi
          · exact h.lis_lt i (Or.inl ((key i).mp hi))
          · simp at hi
        · intro i j hj hr
          apply (key i).mpr
          rcases updJob_cases hj with ⟨hik, j1, hj1, rfl⟩ | ⟨_, hj1⟩
          · exact h.run_lis i j1 hj1 hr
          · exact h.run_lis i j hj1 hr
        · intro i j hj hr
          apply (key i).mpr
          rcases updJob_cases hj with ⟨hik, j1, hj1, rfl⟩ | ⟨_, hj1⟩
          · exact h.alive_lis i j1 hj1 hr
          · exact h.alive_lis i j hj1 hr
        · intro i j hi hc hj
          have hi' := (key i).mp hi
          rcases updJob_cases hj with ⟨hik, j1, hj1, rfl⟩ | ⟨_, hj1⟩
          · exact h.nocur_aborted i j1 hi' hc hj1
          · exact h.nocur_aborted i j hi' hc hj1
        · intro i j hj hb
          rcases updJob_cases hj with ⟨hik, j1, hj1, rfl⟩ | ⟨hne, hj1⟩
          · subst hik
            rw [hk] at hj1; cases hj1
            rcases hb with hb | hb | hb
            · simp at hb
            · simp at hb; subst hb; exact h.done_all i j0 hk (Or.inl hbuf)
            · simp at hb
          · rcases hb with hb | hb | hb
            · exact h.done_all i j hj1 (Or.inl hb)
            · simp at hb; exact absurd hb.1.symm hne
            · simp at hb
        · intro i j hc hj
          rcases updJob_cases hj with ⟨hik, j1, hj1, rfl⟩ | ⟨_, hj1⟩
          · exact h.cur_live i j1 hc hj1
          · exact h.cur_live i j hc hj1
      · cases hs
    · cases hs
  · cases hs

/-- Like `invA_off`, from any position that is not on a job (e.g. `done2`). -/
theorem invA_off' {s s' : St} (h : InvA s) (hn : ∀ k, ¬ onJob s k) (ho' : offJob s'.lpc)
    (h2 : s'.cur = s.cur) (h3 : s'.jobs = s.jobs) : InvA s' := by
  have hn' := not_onJob_of_off ho'
  have hd' : ∀ k, s'.lpc ≠ .done2 k := by intro k hk; simp [hk, offJob] at ho'
  have hg' : ∀ k r, s'.lpc ≠ .got k r := by intro k r hk; simp [hk, offJob] at ho'
  constructor
  · intro k hk; rw [h2] at hk; exact absurd (h.cur_lis k hk) (hn k)
  · intro k hk; rcases hk with hk | hk
    · exact absurd hk (hn' k)
    · exact absurd hk (hd' k)
  · intro k j hj hr; rw [h3] at hj; exact absurd (h.run_lis k j hj hr) (hn k)
  · intro k j hj hr; rw [h3] at hj; exact absurd (h.alive_lis k j hj hr) (hn k)
  · intro k j hk; exact absurd hk (hn' k)
  · intro k j hj hb; rw [h3] at hj
    rcases hb with hb | hb | hb
    · exact h.done_all k j hj (Or.inl hb)
    · exact absurd hb (hg' k _)
    · exact absurd hb (hd' k)
  · intro k j hk; rw [h2] at hk; exact absurd (h.cur_lis k hk) (hn k)

theorem invA_lDone2 {s s' : St} (h : InvA s) (hs : stepLDone2 s = some s') : InvA s' := by
  unfold stepLDone2 at hs
  split at hs
  · rename_i k hl
    split at hs
    · cases hs
      refine invA_off' h ?_ (by simp [offJob]) rfl rfl
      intro i hi; rcases hi with hi | ⟨r, hi⟩ <;> rw [hl] at hi <;> cases hi
    · cases hs
  · cases hs

theorem setJState_result_not_running {st : JState} (r : JResult) (h : st = .new ∨ st = .running) :
    setJState st (resultState r) ≠ .running := by
  rcases h with h | h <;> cases r <;> simp [h, setJState, resultState]

theorem invA_lComplete {s s' : St} (h : InvA s) (hs : stepLComplete s = some s') : InvA s' := by
  unfold stepLComplete at hs
  split at hs
  · rename_i k r hl
    have hon : onJob s k := Or.inr ⟨r, hl⟩
    split at hs
    · rename_i j0 hk
      split at hs
      · cases hs
      · rename_i hfin
        have hfin : j0.run = .finished := by simpa using hfin
        split at hs
        · -- currentJob == nil: the error is returned, nothing else changes
          rename_i hc
          cases hs
          constructor
          · intro i hi; simp [hc] at hi
          · intro i hi; rcases hi with hi | hi
            · rcases hi with hi | ⟨r', hi⟩ <;> simp at hi
            · simp at hi
          · intro i j hj hr
            have hi := h.run_lis i j hj hr
            have : i = k := onJob_unique hi hon
            subst this
            have := h.nocur_aborted i j hon hc hj
            rw [this] at hr; cases hr
          · intro i j hj hr
            have hi := h.alive_lis i j hj hr
            have : i = k := onJob_unique hi hon
            subst this
            rw [hk] at hj; cases hj
            rcases hr with hr | hr <;> rw [hfin] at hr <;> cases hr
          · intro i j hi; rcases hi with hi | ⟨r', hi⟩ <;> simp at hi
          · intro i j hj hb
            rcases hb with hb | hb | hb
            · exact h.done_all i j hj (Or.inl hb)
            · simp at hb
            · simp at hb
          · intro i j hi; simp [hc] at hi
        · rename_i c hc
          have hck : c = k := onJob_unique (h.cur_lis c hc) hon
          subst hck
          have hlive := h.cur_live c j0 hc hk
          -- facts shared by both results
          have hrun' : ∀ (i : Nat) (j : Job), (updJob s.jobs c (fun j => { j with state := setJState j.state (resultState r) }))[i]? = some j →
              j.state ≠ .running := by
            intro i j hj hr
            rcases updJob_cases hj with ⟨hik, j1, hj1, rfl⟩ | ⟨hne, hj1⟩
            · subst hik; rw [hk] at hj1; cases hj1
              exact setJState_result_not_running r hlive hr
            · exact hne (onJob_unique (h.run_lis i j hj1 hr) hon)
          have halive' : ∀ (i : Nat) (j : Job), (updJob s.jobs c (fun j => { j with state := setJState j.state (resultState r) }))[i]? = some j →
              ¬ (j.run = .notStarted ∨ j.run = .started) := by
            intro i j hj hr
            rcases updJob_cases hj with ⟨hik, j1, hj1, rfl⟩ | ⟨hne, hj1⟩
            · subst hik; rw [hk] at hj1; cases hj1
              rcases hr with hr | hr <;> simp [hfin] at hr
            · exact hne (onJob_unique (h.alive_lis i j hj1 hr) hon)
          cases r with
          | done =>
            cases hs
            constructor
            · intro i hi; simp at hi
            · intro i hi; simp only [updJob_length]
              rcases hi with hi | hi
              · rcases hi with hi | ⟨r', hi⟩ <;> simp at hi
              · simp at hi; subst hi; exact h.lis_lt c (Or.inl hon)
            · intro i j hj hr; exact absurd hr (hrun' i j hj)
            · intro i j hj hr; exact absurd hr (halive' i j hj)
            · intro i j hi; rcases hi with hi | ⟨r', hi⟩ <;> simp at hi
            · intro i j hj hb
              rcases updJob_cases hj with ⟨hik, j1, hj1, rfl⟩ | ⟨hne, hj1⟩
              · subst hik; rw [hk] at hj1; cases hj1
                exact h.done_all i j0 hk (Or.inr (Or.inl hl))
              · rcases hb with hb | hb | hb
                · exact h.done_all i j hj1 (Or.inl hb)
                · simp at hb
                · simp at hb; exact absurd hb.symm hne
            · intro i j hi; simp at hi
          | aborted =>
            cases hs
            constructor
            · intro i hi; simp at hi
            · intro i hi
              rcases hi with hi | hi
              · rcases hi with hi | ⟨r', hi⟩ <;> simp at hi
              · simp at hi
            · intro i j hj hr; exact absurd hr (hrun' i j hj)
            · intro i j hj hr; exact absurd hr (halive' i j hj)
            · intro i j hi; rcases hi with hi | ⟨r', hi⟩ <;> simp at hi
            · intro i j hj hb
              rcases hb with hb | hb | hb
              · rcases updJob_cases hj with ⟨hik, j1, hj1, rfl⟩ | ⟨hne, hj1⟩
                · exact h.done_all i j1 hj1 (Or.inl hb)
                · exact h.done_all i j hj1 (Or.inl hb)
              · simp at hb
              · simp at hb
            · intro i j hi; simp at hi
    · cases hs
  · cases hs

theorem invA_step {s s' : St} {l : Label} (h : InvA s) (hs : step s l = some s') : InvA s' := by
  have hc := step_core hs
  cases l with
  | join n => exact invA_join h hc
  | leave n ok => exact invA_leave h hc
  | complete k n e => exact invA_complete h hc
  | abort => exact invA_abort h hc
  | failsend b => simp [stepCore] at hc; subst hc; exact invA_frame h rfl rfl rfl
  | lTop => exact invA_lTop h hc
  | lAfterDrain => exact invA_lAfterDrain h hc
  | lIdle => exact invA_lIdle h hc
  | lGen p => exact invA_lGen h hc
  | lGenErr => exact invA_lGenErr h hc
  | rStart k => exact invA_rStart h hc
  | rGo k => exact invA_rGo h hc
  | lRecv => exact invA_lRecv h hc
  | lComplete => exact invA_lComplete h hc
  | lDone2 => exact invA_lDone2 h hc

end PV.C22
