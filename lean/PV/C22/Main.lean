/-
pm_c22: model driver for C22.  Ops (one per line), see harness/cmd/c22/main.go:
  init <members csv> <h>      h = 4 groups of 7 digits, '.'-separated (placement table)
  join <node> | leave <node> | complete <job> <node> <ok|err> | abort | failsend <-|*|csv of nodes> | hold <prewait|got> | release
After each event the internal steps are run to quiescence (`settle`) and the observation
  <ret> st=<N|R> nodes=.. cur=.. q=.. lis=<idle|wait|lock|busy> jobs=<k>:<a|r>:<n|R|D|A>:<pending>;.. par=<n>
is printed; `#spec` is the observation the property demands, `#tag` the modelled cause when they differ.
-/
import PV.Common.Proto
import PV.C22.Model
import PV.C22.Spec
open PV.Proto PV.C22

structure DSt where
  s : St
  tab : List (List Nat)      -- tab[k][n-1]
  parked : Nat
  armed : Option String := none   -- listener gate armed by `hold`: "prewait" | "got"
  lheld : Bool := false           -- the listener is parked at the armed gate

def hOf (tab : List (List Nat)) (k n : Nat) : Nat :=
  match tab[k]? with
  | some row => (row[n - 1]?).getD 0
  | none => 0

def keys : List Nat := [0, 1, 2, 3]

def planOf (d : DSt) (nodes : List Nat) (a : NodeAction) : Option (List Nat) :=
  planFor (hOf d.tab) keys nodes a

def parseTab (t : String) : Option (List (List Nat)) :=
  let groups := t.splitOn "."
  if groups.length ≠ 4 then none else
  groups.mapM (fun g =>
    if g.length ≠ 7 then none else
    g.toList.mapM (fun c => if c.isDigit then some (c.toNat - '0'.toNat) else none))

/-- The eager scheduler of the driver, with the listener gates of the harness: armed `prewait`, the
listener is parked right after `lGen` moved it to `wait k` (log line "wait for jobResult": job generated,
run spawned, not yet receiving); armed `got`, right after `lRecv` (log line "received jobResult":
`completeCurrentJob` not yet called).  A parked listener takes no step; run goroutines go on. -/
def settleD : Nat → DSt → DSt
  | 0, d => d
  | fuel + 1, d =>
    let gen : List (Label × Nat) := match d.s.lpc with
      | .gen a => [(.lGen (planFor (hOf d.tab) keys d.s.nodes a), 1)]
      | _ => []
    let runs : List (Label × Nat) := match d.s.lpc with
      | .wait k => [(.rStart k, 0), (.rGo k, 0)]
      | .got k _ => [(.rStart k, 0), (.rGo k, 0)]
      | _ => []
    let lis : List (Label × Nat) := if d.lheld then [] else
      [(.lRecv, 2), (.lComplete, 0), (.lDone2, 0), (.lTop, 0), (.lAfterDrain, 0), (.lIdle, 0)] ++ gen ++ [(.lGenErr, 0)]
    let rec first : List (Label × Nat) → Option (Nat × St)
      | [] => none
      | (l, t) :: ls => match step d.s l with
        | some s' => some (t, s')
        | none => first ls
    match first (lis ++ runs) with
    | none => d
    | some (t, s') =>
      let atWait := match s'.lpc with | .wait _ => true | _ => false
      let held := d.lheld || (t == 1 && d.armed == some "prewait" && atWait) || (t == 2 && d.armed == some "got")
      settleD fuel { d with s := s', lheld := held }

def answer (d : DSt) (r : Ret) : Ans :=
  let o0 := modelObs r d.s d.parked
  let o := if d.lheld then { o0 with lis := "hold" } else o0
  let (sp, viol) := specObs r d.s d.parked
  if viol.isEmpty then ans o.render else ans2 o.render sp.render (causeTag d.s r viol)

/-- Deliver one event: handler return on the pre-state, the handler's step (if it is not parked),
then run to quiescence. -/
def deliver (d : DSt) (l : Label) : DSt × Ans :=
  let r := ret d.s l
  let s1 := match r with
    | .blocked => (match l, d.s.held with
        | .join _, none => (step d.s l).getD d.s      -- this is the handler that parks on the full queue
        | .leave _ _, none => (step d.s l).getD d.s
        | _, _ => d.s)
    | _ => (step d.s l).getD d.s
  let parked := if r == .blocked then d.parked + 1 else d.parked
  let d' := settleD 400 { d with s := s1, parked := parked }
  (d', answer d' r)

def stepD (od : Option DSt) (ws : List String) : Option DSt × Ans :=
  let bad := (od, ans "bad-op")
  match od, ws with
  | none, ["init", ms, t] =>
    match csvNats? ms, parseTab t with
    | some (0 :: others), some tab =>
      if others.length + 1 > 6 || (0 :: others).any (· > 9) || !(0 :: others).Nodup then bad else
      let d : DSt := { s := init 0 (sortNats others), tab := tab, parked := 0 }
      (some d, answer d .ok)
    | _, _ => bad
  | some d, ["join", n] =>
    match n.toNat? with
    | some n => if n > 9 then bad else let (d', a) := deliver d (.join n); (some d', a)
    | none => bad
  | some d, ["leave", n] =>
    match n.toNat? with
    | some n =>
      if n > 9 then bad else
      let ok := (planOf d d.s.nodes ⟨.remove, n⟩).isSome
      let (d', a) := deliver d (.leave n ok); (some d', a)
    | none => bad
  | some d, ["complete", k, n, e] =>
    match k.toNat?, n.toNat? with
    | some k, some n =>
      if n > 9 || (e ≠ "ok" && e ≠ "err") then bad else
      let (d', a) := deliver d (.complete k n (e == "err")); (some d', a)
    | _, _ => bad
  | some d, ["hold", g] =>
    if g ≠ "prewait" && g ≠ "got" then bad else
    let d' := { d with armed := some g }
    (some d', answer d' .ok)
  | some d, ["release"] =>
    let d' := settleD 400 { d with armed := none, lheld := false }
    (some d', answer d' .ok)
  | some d, ["abort"] => let (d', a) := deliver d .abort; (some d', a)
  | some d, ["failsend", b] =>
    let ns? : Option (List Nat) := if b = "*" then some (List.range 10) else csvNats? b
    match ns? with
    | some ns => if ns.any (· > 9) then bad else let (d', a) := deliver d (.failsend ns); (some d', a)
    | none => bad
  | _, _ => bad

def main : IO Unit := run (none : Option DSt) stepD
