/-
C22 helper lemmas, part 3: the member change (`done2 k`) is only ever reached for a job whose state
is DONE — in particular never for a job an abort has marked ABORTED between the delivery of the
result and the listener's `completeCurrentJob`.  Core Lean only.
-/
import PV.C22.LemmasB
namespace PV.C22

def InvC (s : St) : Prop := ∀ k j, s.lpc = .done2 k → s.jobs[k]? = some j → j.state = .done

theorem invC_init (c : Nat) (o : List Nat) : InvC (init c o) := by
  intro k j hl; simp [init] at hl

theorem not_done2_of_onJob {s : St} {i k : Nat} (h : onJob s i) : s.lpc ≠ .done2 k := by
  intro hk; rcases h with h | ⟨r, h⟩ <;> rw [hk] at h <;> cases h

/-- lpc and jobs unchanged. -/
theorem invC_frame {s s' : St} (h : InvC s) (h1 : s'.lpc = s.lpc) (h3 : s'.jobs = s.jobs) : InvC s' := by
  intro k j hl hj; rw [h1] at hl; rw [h3] at hj; exact h k j hl hj

/-- lpc unchanged, one job rewritten without touching its state. -/
theorem invC_upd_state {s : St} {i : Nat} {f : Job → Job} (h : InvC s) (hf : ∀ j, (f j).state = j.state) :
    InvC { s with jobs := updJob s.jobs i f } := by
  intro k j hl hj
  rcases updJob_cases hj with ⟨_, j1, hj1, rfl⟩ | ⟨_, hj1⟩
  · rw [hf]; exact h k j1 hl hj1
  · exact h k j hl hj1

theorem invC_step {s s' : St} {l : Label} (hA : InvA s) (hC : InvC s) (hs : step s l = some s') : InvC s' := by
  have hc := step_core hs
  cases l with
  | join n =>
    simp only [stepCore] at hc; unfold stepJoin at hc
    split at hc <;> cases hc
    · exact hC
    · have := enqueue_frame s ⟨.add, n⟩; exact invC_frame hC this.1 this.2.2
  | leave n ok =>
    simp only [stepCore] at hc; unfold stepLeave at hc
    repeat' split at hc
    all_goals cases hc
    all_goals first | exact hC | (have := enqueue_frame s ⟨.remove, n⟩; exact invC_frame hC this.1 this.2.2)
  | complete i n e =>
    simp only [stepCore] at hc; unfold stepComplete at hc
    split at hc
    · cases hc; exact hC
    · cases hc
      apply invC_upd_state hC
      intro j; unfold completeJob; split
      · rfl
      · split <;> rfl
  | abort =>
    simp only [stepCore] at hc; unfold stepAbort at hc
    split at hc
    · cases hc; exact hC
    · split at hc
      · cases hc; exact hC
      · rename_i c hcur
        cases hc
        intro k j hl
        exact absurd hl (not_done2_of_onJob (hA.cur_lis c hcur))
  | failsend ns => simp only [stepCore] at hc; cases hc; exact invC_frame hC rfl rfl
  | lTop =>
    simp only [stepCore] at hc; unfold stepLTop at hc
    split at hc
    · cases hc
    · split at hc <;> cases hc <;> (intro k j hl; simp at hl)
  | lAfterDrain =>
    simp only [stepCore] at hc; unfold stepLAfterDrain at hc
    split at hc
    · cases hc
    · split at hc <;> cases hc <;> (intro k j hl; simp at hl)
  | lIdle =>
    simp only [stepCore] at hc; unfold stepLIdle at hc
    split at hc
    · cases hc
    · split at hc
      · cases hc; intro k j hl; simp at hl
      · cases hc
  | lGen p =>
    simp only [stepCore] at hc; unfold stepLGen at hc
    repeat' split at hc
    all_goals cases hc
    all_goals (intro k j hl; simp at hl)
  | lGenErr =>
    simp only [stepCore] at hc; unfold stepLGenErr at hc
    split at hc <;> cases hc
    intro k j hl; simp at hl
  | rStart i =>
    simp only [stepCore] at hc; unfold stepRStart at hc
    split at hc
    · rename_i j0 hk
      split at hc
      · rename_i hrun
        cases hc
        intro k j hl
        exact absurd hl (not_done2_of_onJob (hA.alive_lis i j0 hk (Or.inl hrun)))
      · cases hc
    · cases hc
  | rGo i =>
    simp only [stepCore] at hc; unfold stepRGo at hc
    split at hc
    · rename_i j0 hk
      split at hc
      · rename_i hrun
        cases hc
        intro k j hl
        exact absurd hl (not_done2_of_onJob (hA.alive_lis i j0 hk (Or.inr hrun)))
      · cases hc
    · cases hc
  | lRecv =>
    simp only [stepCore] at hc; unfold stepLRecv at hc
    repeat' split at hc
    all_goals cases hc
    all_goals (intro k j hl; simp at hl)
  | lDone2 =>
    simp only [stepCore] at hc; unfold stepLDone2 at hc
    repeat' split at hc
    all_goals cases hc
    all_goals (intro k j hl; simp at hl)
  | lComplete =>
    simp only [stepCore] at hc; unfold stepLComplete at hc
    split at hc
    · rename_i k0 r hl0
      have hon : onJob s k0 := Or.inr ⟨r, hl0⟩
      split at hc
      · rename_i j0 hk
        split at hc
        · cases hc
        · split at hc
          · cases hc; intro k j hl; simp at hl
          · rename_i c hcur
            have hck : c = k0 := onJob_unique (hA.cur_lis c hcur) hon
            subst hck
            have hlive := hA.cur_live c j0 hcur hk
            cases r with
            | done =>
              cases hc
              intro k j hl hj
              simp at hl; subst hl
              rcases updJob_cases hj with ⟨_, j1, hj1, rfl⟩ | ⟨hne, _⟩
              · rw [hk] at hj1; cases hj1
                rcases hlive with h | h <;> simp [h, setJState, resultState]
              · exact absurd rfl hne
            | aborted => cases hc; intro k j hl; simp at hl
      · cases hc
    · cases hc

theorem reachable_invC {s : St} (h : Reachable s) : InvC s := by
  induction h with
  | init c o => exact invC_init c o
  | step l hr hs ih => exact invC_step (reachable_inv hr).1 ih hs

end PV.C22
