/-
C22 property theorems.  Core Lean only.

The model (Model.lean) is a labelled transition system whose labels are the events of the
property's quantifier — node joins and leaves, completion messages (success, failure, duplicate,
late, for finished / not-yet-current / unknown jobs), aborts, failing instruction sends — plus the
internal steps of the listener and of each job's `run` goroutine.  `Reachable` closes the initial
states (any member list) under ALL label sequences, so every theorem below is an invariant over
all interleavings at the model's granularity, for any cluster size and any number of jobs.

PARTIAL BY NATURE: goroutine scheduling finer than one lock-protected region, HTTP timeouts, a
coordinator change during a job, file-system errors of saveTopology, and the STARTING / DEGRADED /
no-data regimes are outside the model (see design/C22.md).

Where the current code does not meet the property the full-strength statement is kept in a comment,
the proved theorem is named `_partial`, the excluded region is explicit through the model's ghost
flags (`abortHit`, `staleNormal`) or the queue bound, and a witness theorem exhibits a concrete
trace of the model reaching the bad state (each is replayed on the real code by the harness and
listed in known_findings.jsonl).
-/
import PV.C22.LemmasC
import PV.C22.Spec
namespace PV.C22

/-! ### C22_one_job — at most one resize job runs at a time -/

/-- In every reachable state at most one job is RUNNING — and it is the job the listener is
handling (`wait k` / `got k _`). -/
theorem C22_one_job {s : St} (h : Reachable s) :
    (∀ (k1 k2 : Nat) (j1 j2 : Job), s.jobs[k1]? = some j1 → s.jobs[k2]? = some j2 →
      j1.state = .running → j2.state = .running → k1 = k2) ∧
    (∀ (k : Nat) (j : Job), s.jobs[k]? = some j → j.state = .running → onJob s k) ∧
    (∀ k, s.cur = some k → onJob s k) := by
  have hA := (reachable_inv h).1
  refine ⟨?_, hA.run_lis, hA.cur_lis⟩
  intro k1 k2 j1 j2 h1 h2 r1 r2
  exact onJob_unique (hA.run_lis k1 j1 h1 r1) (hA.run_lis k2 j2 h2 r2)

/-- A new job is never made current while another one is: `generate` cannot hit its
"there is currently a resize job running" branch. -/
theorem C22_generate_never_collides {s : St} (h : Reachable s) (a : NodeAction) (hl : s.lpc = .gen a) :
    s.cur = none := by
  have hA := (reachable_inv h).1
  cases hc : s.cur with
  | none => rfl
  | some c =>
    have := hA.cur_lis c hc
    rcases this with hw | ⟨r, hw⟩ <;> rw [hl] at hw <;> cases hw

/-! ### C22_membership — the member list changes only after every target node reported success -/

theorem enqueue_nodes (s : St) (a : NodeAction) : (enqueue s a).nodes = s.nodes := by
  unfold enqueue; split <;> rfl

theorem dequeue_nodes {s s1 : St} {a : NodeAction} (h : dequeue s = some (a, s1)) : s1.nodes = s.nodes := by
  unfold dequeue at h
  split at h
  · cases h
  · split at h <;> (cases h; rfl)

/-- The member list changes only in the DONE branch of `handleNodeAction` (label `lDone2`), by
exactly the job's add/remove, and at that point every node of the job's target membership is
marked done: `noWork` (the plan gave it nothing to fetch) or `reported` (set only by a success
completion, see `C22_reported_only_by_success`). -/
theorem C22_membership {s s' : St} {l : Label} (h : Reachable s) (hs : step s l = some s')
    (hn : s'.nodes ≠ s.nodes) :
    ∃ k j, s.lpc = .done2 k ∧ s.jobs[k]? = some j ∧ allDone j.ids ∧ s'.nodes = applyAct j s.nodes := by
  have hA := (reachable_inv h).1
  have hc := step_core hs
  cases l with
  | lDone2 =>
    simp only [stepCore] at hc
    unfold stepLDone2 at hc
    split at hc
    · rename_i k hl
      split at hc
      · rename_i j hk
        cases hc
        exact ⟨k, j, hl, hk, hA.done_all k j hk (Or.inr (Or.inr hl)), rfl⟩
      · cases hc
    · cases hc
  | join n =>
    exfalso; apply hn
    simp only [stepCore] at hc; unfold stepJoin at hc
    split at hc <;> cases hc
    · rfl
    · exact enqueue_nodes _ _
  | leave n ok =>
    exfalso; apply hn
    simp only [stepCore] at hc; unfold stepLeave at hc
    repeat' split at hc
    all_goals cases hc
    all_goals first | rfl | exact enqueue_nodes _ _
  | complete k n e =>
    exfalso; apply hn
    simp only [stepCore] at hc; unfold stepComplete at hc
    split at hc <;> cases hc <;> rfl
  | abort =>
    exfalso; apply hn
    simp only [stepCore] at hc; unfold stepAbort at hc
    repeat' split at hc
    all_goals cases hc
    all_goals rfl
  | failsend b => exfalso; apply hn; simp only [stepCore] at hc; cases hc; rfl
  | lTop =>
    exfalso; apply hn
    simp only [stepCore] at hc; unfold stepLTop at hc
    split at hc
    · cases hc
    · split at hc
      · rename_i a s1 hd; cases hc; exact (dequeue_nodes hd : s1.nodes = s.nodes)
      · cases hc; rfl
  | lAfterDrain =>
    exfalso; apply hn
    simp only [stepCore] at hc; unfold stepLAfterDrain at hc
    repeat' split at hc
    all_goals cases hc
    all_goals rfl
  | lIdle =>
    exfalso; apply hn
    simp only [stepCore] at hc; unfold stepLIdle at hc
    split at hc
    · cases hc
    · split at hc
      · rename_i a s1 hd; cases hc; exact (dequeue_nodes hd : s1.nodes = s.nodes)
      · cases hc
  | lGen p =>
    exfalso; apply hn
    simp only [stepCore] at hc; unfold stepLGen at hc
    repeat' split at hc
    all_goals cases hc
    all_goals rfl
  | lGenErr =>
    exfalso; apply hn
    simp only [stepCore] at hc; unfold stepLGenErr at hc
    split at hc <;> cases hc; rfl
  | rStart k =>
    exfalso; apply hn
    simp only [stepCore] at hc; unfold stepRStart at hc
    repeat' split at hc
    all_goals cases hc
    all_goals rfl
  | rGo k =>
    exfalso; apply hn
    simp only [stepCore] at hc; unfold stepRGo at hc
    repeat' split at hc
    all_goals cases hc
    all_goals rfl
  | lRecv =>
    exfalso; apply hn
    simp only [stepCore] at hc; unfold stepLRecv at hc
    repeat' split at hc
    all_goals cases hc
    all_goals rfl
  | lComplete =>
    exfalso; apply hn
    simp only [stepCore] at hc; unfold stepLComplete at hc
    repeat' split at hc
    all_goals cases hc
    all_goals rfl

/-- … and the job whose add/remove is applied ended DONE: never a job that an abort has marked
ABORTED, whatever the interleaving of the last completion, the abort and the listener's steps. -/
theorem C22_member_change_only_for_done_job {s s' : St} {l : Label} (h : Reachable s)
    (hs : step s l = some s') (hn : s'.nodes ≠ s.nodes) :
    ∃ k j, s.lpc = .done2 k ∧ s.jobs[k]? = some j ∧ j.state = .done ∧ allDone j.ids := by
  obtain ⟨k, j, hl, hj, hd, _⟩ := C22_membership h hs hn
  exact ⟨k, j, hl, hj, reachable_invC h k j hl hj, hd⟩

/-- The abort interplay, step level: when an abort has cleared currentJob between the delivery of the
result (`lRecv`, even of DONE) and the listener's `completeCurrentJob`, that call fails with
ErrResizeNotRunning, `handleNodeAction` returns, and the member list is NOT changed
(`unprotectedCompleteCurrentJob` must report the missing job — the DONE branch relies on it). -/
theorem C22_abort_before_completion_skips_member_change {s s' : St} {k : Nat} {r : JResult}
    (hl : s.lpc = .got k r) (hc : s.cur = none) (hs : step s .lComplete = some s') :
    s'.lpc = .top ∧ s'.nodes = s.nodes ∧ s'.jobs = s.jobs := by
  have h := step_core hs
  simp only [stepCore] at h
  unfold stepLComplete at h
  rw [hl] at h
  simp only at h
  split at h
  · split at h
    · cases h
    · simp only [hc] at h
      cases h
      exact ⟨rfl, rfl, rfl⟩
  · cases h

/-- The interleaving itself: node 2's (last) success completion puts DONE on `j.result`, the listener
receives it, an abort is accepted, then the listener goes on: the job is ABORTED and the member list
is still [0, 1]. -/
theorem C22_abort_after_done_delivery_example :
    (runTrace (init 0 [1])
      [.join 2, .lIdle, .lGen (some [2]), .rStart 0, .rGo 0, .complete 0 2 false, .lRecv, .abort,
       .lComplete, .lTop, .lAfterDrain]).map
      (fun s => (s.lpc, s.nodes, s.cur, s.jobs.map (·.state), s.abortHit)) =
    some (.idle, [0, 1], none, [.aborted], true) := by decide

/-- `reported` enters a job's id map only through a success completion for that node. -/
theorem C22_reported_only_by_success (ids : List (Nat × IdSt)) (n m : Nat)
    (h : (m, IdSt.reported) ∈ markReported ids n) : (m, IdSt.reported) ∈ ids ∨ m = n := by
  induction ids with
  | nil => simp [markReported] at h; right; exact h
  | cons x xs ih =>
    obtain ⟨a, st⟩ := x
    unfold markReported at h
    split at h
    · rename_i han
      simp at h
      rcases h with ⟨rfl, _⟩ | h
      · right; exact han
      · left; simp [h]
    · simp at h
      rcases h with ⟨rfl, rfl⟩ | h
      · left; simp
      · rcases ih h with h' | h'
        · left; simp [h']
        · right; exact h'

/-! ### C22_leaves_resizing — the cluster leaves RESIZING when the job ends, and not before

Full-strength statement (does NOT hold for the current code, see the two witnesses):
  ∀ reachable s,  (s.lpc = .idle ∧ s.queue = [] ∧ s.held = none → s.cstate = .normal)
                ∧ (s.cur.isSome → s.cstate = .resizing)
-/

/-- Proved part. (1) Unless an abort has cleared the current job under the listener
(`abortHit`), a cluster is RESIZING only while something remains to be done (`busyP`: an action is
queued, a job is being generated / waited for / completed, or the listener is on its way to set
NORMAL), so an idle listener with an empty queue means NORMAL.  (2) Unless NORMAL was set while an
action was still queued (`staleNormal`), a current job implies RESIZING. -/
theorem C22_leaves_resizing_partial {s : St} (h : Reachable s) :
    (s.abortHit = false → s.cstate = .resizing → busyP s) ∧
    (s.abortHit = false → s.lpc = .idle → s.queue = [] → s.held = none → s.cstate = .normal) ∧
    (s.staleNormal = false → s.cur.isSome = true → s.cstate = .resizing) := by
  obtain ⟨hA, hB⟩ := reachable_inv h
  refine ⟨hB.busy, ?_, ?_⟩
  · intro ha hl hq hh
    cases hc : s.cstate with
    | normal => rfl
    | resizing =>
      rcases hB.busy ha hc with hb | hb | hb
      · exact absurd hq hb
      · simp [hh] at hb
      · simp [hl] at hb
  · intro hst hc
    cases hcur : s.cur with
    | none => simp [hcur] at hc
    | some k =>
      apply hB.work_resizing hst
      right; right
      rcases hA.cur_lis k hcur with hw | ⟨r, hw⟩ <;> simp [hw]

/-! ### C22_no_stall — no handler or job waits forever

Full-strength statement (does NOT hold for the current code, see the witnesses):
  ∀ reachable s, s.held = none ∧ (∀ k, s.lpc = .wait k → the wait can still be ended by the job
  itself or by a success completion that is accepted) ∧ no handler panics or parks.

In the model of the fixed code no sender can park on a job's result channel by construction
(`offer` never blocks) and an unknown job id is an error return (`stepComplete`, `ret`), which is
exactly what the `fix:` commits establish and the correspondence harness re-checks on the real code.
-/

/-- Proved part. (1) A join/leave handler parks (holding the cluster mutex) only when ten actions
are already queued.  (2) Unless an abort has cleared the current job under the listener, whenever
the listener waits on `j.result` the job is the current one and the wait is justified (`waitOk`):
a result is buffered, or the job's run goroutine has not finished, or the job is RUNNING with a
pending node — whose success completion is accepted and, for the last one, delivers DONE.
(3) No handler panics. -/
theorem C22_no_stall_partial {s : St} (h : Reachable s) :
    (s.queue.length ≤ cap ∧ (s.held.isSome = true → s.queue.length = cap)) ∧
    (s.abortHit = false → ∀ k, s.lpc = .wait k → s.cur = some k ∧ ∃ j, s.jobs[k]? = some j ∧ waitOk j) ∧
    (∀ l, ret s l ≠ .panic) := by
  obtain ⟨_, hB⟩ := reachable_inv h
  refine ⟨⟨hB.q_le, hB.held_full⟩, ?_, ?_⟩
  · intro ha k hl
    exact ⟨hB.noabort_cur ha k (Or.inl hl), hB.waitJ ha k hl⟩
  · intro l
    cases l <;> simp only [ret] <;> repeat' split
    all_goals simp

/-- What "RUNNING with a pending node" buys: a success completion of a pending node of a job
that is not complete is accepted, and when it was the last pending node a result is delivered. -/
theorem C22_success_completion_progress (j : Job) (n : Nat)
    (hs : j.state = .new ∨ j.state = .running) :
    hasPending (completeJob j n false).ids = true ∨ (completeJob j n false).buf.isSome = true := by
  unfold completeJob
  have h1 : ¬ (j.state = .done ∨ j.state = .aborted) := by rcases hs with h | h <;> simp [h]
  simp only [Bool.false_eq_true, if_false, h1]
  by_cases hp : hasPending (markReported j.ids n) = true
  · left; simpa using hp
  · right; simp only [hp]; exact offer_isSome _ _

/-! #### A failing instruction send — any of the job's sends, at any position — ends the job -/

theorem mem_pendingOf_hasPending {ids : List (Nat × IdSt)} {n : Nat} (h : n ∈ pendingOf ids) :
    hasPending ids = true := by
  unfold pendingOf at h
  simp only [List.mem_map, List.mem_filter] at h
  obtain ⟨p, ⟨hp, hst⟩, _⟩ := h
  unfold hasPending
  exact List.any_eq_true.mpr ⟨p, hp, hst⟩

/-- `run` with a failing send: whichever instruction of the job goes to a node for which SendTo
fails (first, middle, last, several), the run goroutine finishes and a result is on `j.result`;
it is ABORTED unless a result was already there. -/
theorem C22_failed_send_delivers_aborted (j : Job) (fail : List Nat) (n : Nat)
    (hn : n ∈ pendingOf j.ids) (hf : n ∈ fail) :
    (runGo j fail).run = .finished ∧ (runGo j fail).buf.isSome = true ∧
    (j.buf = none → (runGo j fail).buf = some .aborted) := by
  have hp : hasPending j.ids = true := mem_pendingOf_hasPending hn
  have hsf : sendFails j.ids fail = true := by
    unfold sendFails
    exact List.any_eq_true.mpr ⟨n, hn, by simpa using hf⟩
  unfold runGo
  simp only [hp, hsf, Bool.not_true, Bool.false_eq_true, if_false, if_true]
  refine ⟨trivial, offer_isSome _ _, ?_⟩
  intro hb; simp [hb, offer]

/-- … and with an ABORTED result delivered to the waiting listener of the current job, four
listener steps later the job is ABORTED, no job is current, the listener is idle and (nothing else
being queued) the cluster has left RESIZING.  Together with `C22_failed_send_delivers_aborted`:
a job whose instruction send fails never stays RUNNING and never keeps the cluster RESIZING. -/
theorem C22_aborted_result_leaves_resizing (s : St) (k : Nat) (j : Job)
    (hl : s.lpc = .wait k) (hc : s.cur = some k) (hk : s.jobs[k]? = some j)
    (hb : j.buf = some .aborted) (hr : j.run = .finished) (hst : j.state = .running)
    (hh : s.held = none) (hq : s.queue = []) :
    (runTrace s [.lRecv, .lComplete, .lTop, .lAfterDrain]).map
      (fun s' => (s'.cstate, s'.lpc, s'.cur, (s'.jobs[k]?).map (·.state))) =
    some (.normal, .idle, none, some .aborted) := by
  have hk1 : (updJob s.jobs k (fun j => { j with buf := none }))[k]? = some { j with buf := none } :=
    updJob_get_eq hk
  have hk2 : (updJob (updJob s.jobs k (fun j => { j with buf := none })) k
      (fun j => { j with state := setJState j.state (resultState .aborted) }))[k]? =
      some { j with buf := none, state := .aborted } := by
    rw [updJob_get_eq hk1]; simp [setJState, resultState, hst]
  simp [runTrace, step, stepCore, Label.needsMu, hh, stepLRecv, hl, hk, hb, stepLComplete, hk1, hr,
    hc, stepLTop, dequeue, hq, stepLAfterDrain, hk2]

/-- When the mutex is held by a parked join while the listener waits for a finished run with no
result buffered, nothing but environment switches can happen any more: a deadlock. -/
theorem C22_held_is_deadlock {s s' : St} {l : Label} {k : Nat} {j : Job} (hh : s.held.isSome = true)
    (hl : s.lpc = .wait k) (hk : s.jobs[k]? = some j) (hb : j.buf = none)
    (hs : step s l = some s') : (∃ b, l = .failsend b) ∨ (∃ i, l = .rStart i) ∨ (∃ i, l = .rGo i) := by
  unfold step at hs
  cases l with
  | failsend b => left; exact ⟨b, rfl⟩
  | rStart i => right; left; exact ⟨i, rfl⟩
  | rGo i => right; right; exact ⟨i, rfl⟩
  | join n => simp [hh, Label.needsMu] at hs
  | leave n ok => simp [hh, Label.needsMu] at hs
  | complete a b c => simp [hh, Label.needsMu] at hs
  | abort => simp [hh, Label.needsMu] at hs
  | lGen p => simp [hh, Label.needsMu] at hs
  | lGenErr => simp [hh, Label.needsMu] at hs
  | lComplete => simp [hh, Label.needsMu] at hs
  | lDone2 => simp [hh, Label.needsMu] at hs
  | lTop => split at hs <;> simp [stepCore, stepLTop, hl] at hs
  | lIdle => split at hs <;> simp [stepCore, stepLIdle, hl] at hs
  | lAfterDrain => split at hs <;> simp [stepCore, stepLAfterDrain, hl] at hs
  | lRecv => split at hs <;> simp [stepCore, stepLRecv, hl, hk, hb] at hs

/-! ### Witnesses: concrete model traces reaching the states the full-strength statements forbid -/

/-- A two-node cluster, node 2 joins, the job (pending: node 2) runs, then `ResizeAbort`. -/
def abortTrace : List Label :=
  [.join 2, .lIdle, .lGen (some [2]), .rStart 0, .rGo 0, .abort]

/-- After an accepted abort the listener keeps waiting on a job that is ABORTED and no longer
current, with no result buffered and the run goroutine finished (the wait is not justified), and
the cluster stays RESIZING. -/
theorem C22_abort_leaves_listener_waiting_witness :
    (runTrace (init 0 [1]) abortTrace).map (fun s => (s.lpc, s.cur, s.cstate, s.abortHit)) =
      some (.wait 0, none, .resizing, true) ∧
    (runTrace (init 0 [1]) abortTrace).map (fun s => (waitJustified s 0, s.jobs.map (·.state))) =
      some (false, [.aborted]) := by decide

/-- A later error completion wakes the listener, `completeCurrentJob` fails, and the cluster is
left RESIZING with an idle listener, an empty queue and no job. -/
theorem C22_abort_stuck_resizing_witness :
    (runTrace (init 0 [1]) (abortTrace ++ [.complete 0 2 true, .lRecv, .lComplete, .lTop, .lAfterDrain])).map
      (fun s => (s.lpc, s.queue.length, s.held.isSome, s.cur, s.cstate)) =
    some (.idle, 0, false, none, .resizing) := by decide

/-- Node 2 joins twice (memberlist join + the restart NodeJoin of waitForStarted) and node 3 once
while the first job runs.  The duplicate fails to plan ("clusters are the same size"), the error
path sets NORMAL although node 3's action is still queued, and node 3's job then runs while the
cluster is NORMAL (data requests are admitted during the resize). -/
theorem C22_normal_set_while_actions_queued_witness :
    (runTrace (init 0 [1])
      [.join 2, .lIdle, .lGen (some [2]), .rStart 0, .rGo 0, .join 2, .join 3,
       .complete 0 2 false, .lRecv, .lComplete, .lDone2,
       .lTop, .lGen none, .lGenErr, .lTop, .lGen (some [3]), .rStart 1]).map
      (fun s => (s.cur, s.cstate, s.staleNormal, s.nodes, s.jobs.map (·.state))) =
    some (some 1, .normal, true, [0, 1, 2], [.done, .running]) := by decide

/-- The same state through a scheduling race alone (no failing plan): a join arrives between the
listener's "queue is empty" check and its `setStateAndBroadcast(NORMAL)`. -/
theorem C22_normal_race_witness :
    (runTrace (init 0 [1])
      [.join 2, .lIdle, .lGen (some []), .rStart 0, .rGo 0, .lRecv, .lComplete, .lDone2,
       .lTop, .join 3, .lAfterDrain, .lIdle, .lGen (some [3]), .rStart 1]).map
      (fun s => (s.cur, s.cstate, s.staleNormal, s.jobs.map (·.state))) =
    some (some 1, .normal, true, [.done, .running]) := by decide

/-- Eleven joins while a job runs: the eleventh handler parks on the full `joiningLeavingNodes`
channel while holding the cluster mutex; by `C22_held_is_deadlock` nothing can move any more. -/
theorem C22_join_queue_full_witness :
    (runTrace (init 0 [1])
      ([.join 2, .lIdle, .lGen (some [2]), .rStart 0, .rGo 0] ++ (List.replicate 11 (Label.join 3)))).map
      (fun s => (s.lpc, s.held.isSome, s.queue.length, s.jobs.map (·.buf) == [none], ret s (.complete 0 2 false))) =
    some (.wait 0, true, 10, true, .blocked) := by decide

/-- Concrete run, cluster {0,1,4,5}, node 2 joins, three nodes must fetch data (2, 0 and 5): the
send to node 0 fails (a send that is neither the first nor the last in any order of three).  The job
ends ABORTED, nothing stays current, the listener is idle and the cluster is NORMAL again. -/
theorem C22_failed_middle_send_example :
    (runTrace (init 0 [1, 4, 5])
      [.failsend [0], .join 2, .lIdle, .lGen (some [2, 0, 5]), .rStart 0, .rGo 0,
       .lRecv, .lComplete, .lTop, .lAfterDrain]).map
      (fun s => (s.lpc, s.cstate, s.cur, s.jobs.map (·.state), s.nodes)) =
    some (.idle, .normal, none, [.aborted], [0, 1, 4, 5]) := by decide

/-! ### Non-vacuity: the happy path is reachable and satisfies the hypotheses -/

/-- A complete add-node resize: RESIZING while the job runs, member list changed at the end, NORMAL
and idle afterwards, ghost flags untouched. -/
example :
    (runTrace (init 0 [1])
      [.join 2, .lIdle, .lGen (some [2, 0]), .rStart 0, .rGo 0, .complete 0 2 false, .complete 0 2 false,
       .complete 0 0 false, .lRecv, .lComplete, .lDone2, .lTop, .lAfterDrain]).map
      (fun s => (s.lpc, s.cstate, s.nodes, s.cur, (s.abortHit, s.staleNormal, s.jobs.map (·.state)) == (false, false, [.done]))) =
    some (.idle, .normal, [0, 1, 2], none, true) := by decide

example : Reachable (init 0 [1, 2]) := Reachable.init 0 [1, 2]

end PV.C22
