/-
C22 model: the resize-job state machine of the coordinator (cluster.go), as a labelled
transition system.  One atomic step = one lock-protected region or one channel operation of the
code (after the `fix:` commits: unknown job id -> error; job result channel buffered(1) with
non-blocking sends; a failed instruction send ends the job as ABORTED).

Actors
  * the listener goroutine: `listenForJoins` loop with `handleNodeAction` inlined (`LPc`);
  * one `run` goroutine per job that became current (`RunPc`);
  * message handlers, each one atomic step: `nodeJoin` (ReceiveEvent), `nodeLeave` (API.RemoveNode),
    `markResizeInstructionComplete`, `API.ResizeAbort`.
`c.mu` is not a state component of its own: every step that takes it is atomic; the only place
where it is held across a blocking operation is `nodeJoin`/`nodeLeave` sending on the full
`joiningLeavingNodes` channel (`held`), which disables every step that needs the mutex.

Regime modelled: a coordinator that holds data, in state NORMAL or RESIZING (the no-data
shortcuts, STARTING/DEGRADED bookkeeping, coordinator change and file-system errors are outside).
Core Lean only.
-/
namespace PV.C22

inductive Act where
  | add | remove
  deriving DecidableEq, Repr

structure NodeAction where
  act : Act
  node : Nat
  deriving DecidableEq, Repr

/-- `resizeJob.state`: "" | RUNNING | DONE | ABORTED. -/
inductive JState where
  | new | running | done | aborted
  deriving DecidableEq, Repr

/-- What travels on `j.result`. -/
inductive JResult where
  | done | aborted
  deriving DecidableEq, Repr

/-- `j.IDs[node]`: false, true since creation (nothing to fetch), true by a success completion. -/
inductive IdSt where
  | pending | noWork | reported
  deriving DecidableEq, Repr

/-- Position of the job's `run` goroutine. `unspawned`: the job never became current. -/
inductive RunPc where
  | unspawned | notStarted | started | finished
  deriving DecidableEq, Repr

structure Job where
  act : Act
  node : Nat
  ids : List (Nat × IdSt)
  state : JState
  buf : Option JResult      -- `j.result`, capacity 1
  run : RunPc
  deriving DecidableEq, Repr

/-- Listener position. -/
inductive LPc where
  | top                      -- head of the `for`: non-blocking select
  | afterDrain               -- queue was empty: `if setNormal { setStateAndBroadcast(NORMAL) }`
  | idle                     -- blocking select on closing / joiningLeavingNodes
  | gen (a : NodeAction)     -- handleNodeAction: about to lock and generate the job
  | genErr                   -- generate failed: about to setStateAndBroadcast(NORMAL) and return the error
  | wait (j : Nat)           -- `jobResult := <-j.result`
  | got (j : Nat) (r : JResult)  -- result received; `eg.Wait()` then completeCurrentJob
  | done2 (j : Nat)          -- job completed DONE: about to add/remove the node
  deriving DecidableEq, Repr

inductive CSt where
  | normal | resizing
  deriving DecidableEq, Repr

structure St where
  coord : Nat
  cstate : CSt
  nodes : List Nat
  jobs : List Job             -- index = order of creation (the code's random JobID)
  cur : Option Nat            -- currentJob
  queue : List NodeAction     -- joiningLeavingNodes (cap 10)
  lpc : LPc
  setNormal : Bool
  held : Option NodeAction    -- a join/leave handler parked on the full queue, holding c.mu
  failNodes : List Nat        -- environment: target nodes for which sending a ResizeInstruction fails
  -- ghost flags (never read by the code paths): make the excluded regions of the partial theorems explicit
  abortHit : Bool             -- an abort cleared currentJob while the listener was handling that job
  staleNormal : Bool          -- NORMAL was set while an action was still queued
  deriving Repr

def cap : Nat := 10

def init (coord : Nat) (others : List Nat) : St :=
  { coord := coord, cstate := .normal, nodes := coord :: others, jobs := [], cur := none, queue := [],
    lpc := .idle, setNormal := false, held := none, failNodes := [], abortHit := false, staleNormal := false }

/-! ### helpers -/

def updJob : List Job → Nat → (Job → Job) → List Job
  | [], _, _ => []
  | j :: js, 0, f => f j :: js
  | j :: js, k + 1, f => j :: updJob js k f

def hasPending (ids : List (Nat × IdSt)) : Bool := ids.any (fun p => p.2 == .pending)

def allDone (ids : List (Nat × IdSt)) : Prop := ∀ p ∈ ids, p.2 = .noWork ∨ p.2 = .reported

/-- `j.IDs[node] = true` by a success completion (Go adds the key when it is missing). -/
def markReported : List (Nat × IdSt) → Nat → List (Nat × IdSt)
  | [], n => [(n, .reported)]
  | (m, st) :: rest, n =>
    if m = n then (m, if st = .pending then .reported else st) :: rest
    else (m, st) :: markReported rest n

/-- Non-blocking send on the capacity-1 result channel: dropped when a result is already there. -/
def offer (b : Option JResult) (r : JResult) : Option JResult :=
  match b with
  | none => some r
  | some x => some x

/-- `setState`: only from "" or RUNNING. -/
def setJState (cur : JState) (to : JState) : JState :=
  match cur with
  | .new | .running => to
  | s => s

def insertSorted (n : Nat) : List Nat → List Nat
  | [] => [n]
  | m :: ms => if n < m then n :: m :: ms else if n = m then m :: ms else m :: insertSorted n ms

/-- Target membership of an action = keys of `j.IDs` (newResizeJob). -/
def target (a : NodeAction) (nodes : List Nat) : List Nat :=
  match a.act with
  | .add => if a.node ∈ nodes then nodes else insertSorted a.node nodes
  | .remove => nodes.erase a.node

def mkJob (a : NodeAction) (nodes : List Nat) (pend : List Nat) (spawn : Bool) : Job :=
  { act := a.act, node := a.node,
    ids := (target a nodes).map (fun n => (n, if n ∈ pend then IdSt.pending else IdSt.noWork)),
    state := .new, buf := none, run := if spawn then .notStarted else .unspawned }

/-- `c.joiningLeavingNodes <- a` under c.mu: parks (holding the mutex) when the channel is full. -/
def enqueue (s : St) (a : NodeAction) : St :=
  if s.queue.length < cap then { s with cstate := .resizing, queue := s.queue ++ [a] }
  else { s with cstate := .resizing, held := some a }

/-- Receive from the channel; a parked sender then completes its send and releases the mutex. -/
def dequeue (s : St) : Option (NodeAction × St) :=
  match s.queue with
  | [] => none
  | a :: q =>
    match s.held with
    | none => some (a, { s with queue := q })
    | some h => some (a, { s with queue := q ++ [h], held := none })

/-! ### labels -/

inductive Label where
  | join (n : Nat)                              -- NodeJoin event for n
  | leave (n : Nat) (planOk : Bool)             -- API.RemoveNode n; planOk: the trial plan can be built
  | complete (j : Nat) (node : Nat) (err : Bool) -- ResizeInstructionComplete
  | abort                                       -- API.ResizeAbort
  | failsend (ns : List Nat)                    -- environment switch: SendTo fails for these target nodes
  | lTop | lAfterDrain | lIdle
  | lGen (plan : Option (List Nat))             -- none: the planner fails; some p: nodes that must fetch data
  | lGenErr
  | rStart (j : Nat) | rGo (j : Nat)
  | lRecv | lComplete | lDone2
  deriving Repr

/-- Steps that take `c.mu` (write or read lock). -/
def Label.needsMu (s : St) : Label → Bool
  | .join _ | .leave _ _ | .complete _ _ _ | .abort => true
  | .lGen _ | .lGenErr | .lComplete | .lDone2 => true
  | .lAfterDrain => s.setNormal
  | _ => false

/-! ### the step function (none = not enabled) -/

def stepJoin (s : St) (n : Nat) : Option St :=
  -- ReceiveEvent ignores the node itself; a member only gets the status re-broadcast
  if n ∈ s.nodes then some s else some (enqueue s ⟨.add, n⟩)

def stepLeave (s : St) (n : Nat) (planOk : Bool) : Option St :=
  if s.cstate ≠ .normal then some s            -- refused by the state gate / nodeLeave's own check
  else if n ∉ s.nodes then some s              -- not a member
  else if n = s.coord then some s              -- the coordinator cannot be removed
  else if !planOk then some s                  -- trial plan failed
  else some (enqueue s ⟨.remove, n⟩)

def completeJob (j : Job) (node : Nat) (err : Bool) : Job :=
  if err then { j with buf := offer j.buf .aborted }
  else if j.state = .done ∨ j.state = .aborted then j    -- "no longer running"
  else
    let ids := markReported j.ids node
    { j with ids := ids, buf := if hasPending ids then j.buf else offer j.buf .done }

def stepComplete (s : St) (k node : Nat) (err : Bool) : Option St :=
  match s.jobs[k]? with
  | none => some s                              -- unknown job id: an error is returned
  | some _ => some { s with jobs := updJob s.jobs k (fun j => completeJob j node err) }

def stepAbort (s : St) : Option St :=
  if s.cstate ≠ .resizing then some s           -- refused by the state gate
  else match s.cur with
    | none => some s                            -- ErrResizeNotRunning
    | some k => some { s with jobs := updJob s.jobs k (fun j => { j with state := setJState j.state .aborted }),
                              cur := none, abortHit := true }

def stepLTop (s : St) : Option St :=
  if s.lpc ≠ .top then none else
  match dequeue s with
  | some (a, s') => some { s' with lpc := .gen a }
  | none => some { s with lpc := .afterDrain }

def stepLAfterDrain (s : St) : Option St :=
  if s.lpc ≠ .afterDrain then none else
  if s.setNormal then
    some { s with cstate := .normal, lpc := .idle,
                  staleNormal := s.staleNormal || !s.queue.isEmpty || s.held.isSome }
  else some { s with lpc := .idle }

def stepLIdle (s : St) : Option St :=
  if s.lpc ≠ .idle then none else
  match dequeue s with
  | some (a, s') => some { s' with lpc := .gen a }
  | none => none

def stepLGen (s : St) (plan : Option (List Nat)) : Option St :=
  match s.lpc with
  | .gen a =>
    match plan with
    | none => some { s with lpc := .genErr }
    | some pend =>
      let k := s.jobs.length
      match s.cur with
      | some _ => some { s with jobs := s.jobs ++ [mkJob a s.nodes pend false], lpc := .genErr }
      | none => some { s with jobs := s.jobs ++ [mkJob a s.nodes pend true], cur := some k, lpc := .wait k }
  | _ => none

def stepLGenErr (s : St) : Option St :=
  if s.lpc ≠ .genErr then none else
  some { s with cstate := .normal, lpc := .top,
                staleNormal := s.staleNormal || !s.queue.isEmpty || s.held.isSome }

def stepRStart (s : St) (k : Nat) : Option St :=
  match s.jobs[k]? with
  | some j =>
    if j.run = .notStarted then
      some { s with jobs := updJob s.jobs k (fun j => { j with state := setJState j.state .running, run := .started }) }
    else none
  | none => none

/-- The nodes that get a ResizeInstruction: the pending ones. -/
def pendingOf (ids : List (Nat × IdSt)) : List Nat :=
  (ids.filter (fun p => p.2 == .pending)).map (·.1)

/-- `distributeResizeInstructions` returns an error: at least one instruction goes to a node for which
SendTo fails.  (The code sends in map order and stops at the first failure; which instructions were
sent before it is not observable in the job state machine, the outcome is: ANY failing send aborts.) -/
def sendFails (ids : List (Nat × IdSt)) (fail : List Nat) : Bool :=
  (pendingOf ids).any (fun n => fail.contains n)

def runGo (j : Job) (fail : List Nat) : Job :=
  if !hasPending j.ids then { j with buf := offer j.buf .done, run := .finished }
  else if sendFails j.ids fail then { j with buf := offer j.buf .aborted, run := .finished }
  else { j with run := .finished }

def stepRGo (s : St) (k : Nat) : Option St :=
  match s.jobs[k]? with
  | some j =>
    if j.run = .started then some { s with jobs := updJob s.jobs k (fun j => runGo j s.failNodes) }
    else none
  | none => none

def stepLRecv (s : St) : Option St :=
  match s.lpc with
  | .wait k =>
    match s.jobs[k]? with
    | some j =>
      match j.buf with
      | some r => some { s with jobs := updJob s.jobs k (fun j => { j with buf := none }), lpc := .got k r }
      | none => none
    | none => none
  | _ => none

def resultState : JResult → JState
  | .done => .done
  | .aborted => .aborted

def stepLComplete (s : St) : Option St :=
  match s.lpc with
  | .got k r =>
    match s.jobs[k]? with
    | some j =>
      if j.run ≠ .finished then none else       -- eg.Wait()
      match s.cur with
      | none => some { s with lpc := .top }       -- ErrResizeNotRunning: handleNodeAction returns the error
      | some c =>
        let jobs := updJob s.jobs c (fun j => { j with state := setJState j.state (resultState r) })
        match r with
        | .done => some { s with jobs := jobs, cur := none, lpc := .done2 k }
        | .aborted => some { s with jobs := jobs, cur := none, setNormal := true, lpc := .top }
    | none => none
  | _ => none

def applyAct (j : Job) (nodes : List Nat) : List Nat :=
  match j.act with
  | .add => if j.node ∈ nodes then nodes else insertSorted j.node nodes
  | .remove => nodes.erase j.node

def stepLDone2 (s : St) : Option St :=
  match s.lpc with
  | .done2 k =>
    match s.jobs[k]? with
    | some j => some { s with nodes := applyAct j s.nodes, setNormal := true, lpc := .top }
    | none => none
  | _ => none

def stepCore (s : St) : Label → Option St
  | .join n => stepJoin s n
  | .leave n ok => stepLeave s n ok
  | .complete k n e => stepComplete s k n e
  | .abort => stepAbort s
  | .failsend ns => some { s with failNodes := ns }
  | .lTop => stepLTop s
  | .lAfterDrain => stepLAfterDrain s
  | .lIdle => stepLIdle s
  | .lGen p => stepLGen s p
  | .lGenErr => stepLGenErr s
  | .rStart k => stepRStart s k
  | .rGo k => stepRGo s k
  | .lRecv => stepLRecv s
  | .lComplete => stepLComplete s
  | .lDone2 => stepLDone2 s

/-- A step that needs the cluster mutex is disabled while a parked sender holds it. -/
def step (s : St) (l : Label) : Option St :=
  if s.held.isSome && l.needsMu s then none else stepCore s l

/-- Run a list of labels; `none` if one of them is not enabled. -/
def runTrace (s : St) : List Label → Option St
  | [] => some s
  | l :: ls => match step s l with
    | some s' => runTrace s' ls
    | none => none

/-! ### handler return values (for the driver) -/

inductive Ret where
  | ok | err | refused | blocked | panic
  deriving DecidableEq, Repr

def Ret.text : Ret → String
  | .ok => "ok" | .err => "err" | .refused => "refused" | .blocked => "blocked" | .panic => "panic"

/-- What the handler goroutine of an event returns (`blocked`: it is parked for good). -/
def ret (s : St) : Label → Ret
  | .join n =>
    if s.held.isSome then .blocked
    else if n ∈ s.nodes then .ok
    else if s.queue.length < cap then .ok else .blocked
  | .leave n ok =>
    if s.held.isSome then .blocked            -- API.validate reads cluster.State() under c.mu.RLock
    else if s.cstate ≠ .normal then .refused  -- API.validate(apiRemoveNode)
    else if n ∉ s.nodes ∨ n = s.coord ∨ !ok then .err
    else if s.queue.length < cap then .ok else .blocked
  | .complete k _ e =>
    if s.held.isSome then .blocked
    else match s.jobs[k]? with
      | none => .err
      | some j => if e then .err else if j.state = .done ∨ j.state = .aborted then .err else .ok
  | .abort =>
    if s.held.isSome then .blocked
    else if s.cstate ≠ .resizing then .refused
    else if s.cur.isNone then .err else .ok
  | _ => .ok

/-! ### the eager scheduler used by the correspondence driver: run internal steps to quiescence -/

/-- Placement table: `h k n` = index (mod n) of the owner of shard key k among n sorted members. -/
def owner (h : Nat → Nat → Nat) (k : Nat) (members : List Nat) : Option Nat :=
  if members.length = 0 then none else members[(h k members.length) % members.length]?

/-- The plan of cluster.go (`fragSources`) for ReplicaN = 1, one fragment per key: a node is pending
iff it becomes the owner of a key it did not own; a removal fails when a key's only owner leaves;
an add of a member fails ("clusters are the same size"). -/
def planFor (h : Nat → Nat → Nat) (keys : List Nat) (nodes : List Nat) (a : NodeAction) : Option (List Nat) :=
  let tgt := target a nodes
  if tgt.length = nodes.length then none else
  let moves := keys.filterMap (fun k =>
    match owner h k nodes, owner h k tgt with
    | some o, some q => some (o, q)
    | _, _ => none)
  if a.act = .remove ∧ moves.any (fun m => m.1 = a.node) then none
  else some ((moves.filter (fun m => m.1 ≠ m.2)).map (·.2))

def internalLabels (s : St) (plan : NodeAction → Option (List Nat)) : List Label :=
  let gen : List Label := match s.lpc with
    | .gen a => [.lGen (plan a)]
    | _ => []
  let runs : List Label := match s.lpc with
    | .wait k => [.rStart k, .rGo k]
    | .got k _ => [.rStart k, .rGo k]
    | _ => []
  [.lRecv, .lComplete, .lDone2, .lTop, .lAfterDrain, .lIdle] ++ gen ++ [.lGenErr] ++ runs

def firstEnabled (s : St) : List Label → Option St
  | [] => none
  | l :: ls => match step s l with
    | some s' => some s'
    | none => firstEnabled s ls

def settle (plan : List Nat → NodeAction → Option (List Nat)) : Nat → St → St
  | 0, s => s
  | fuel + 1, s =>
    match firstEnabled s (internalLabels s (plan s.nodes)) with
    | some s' => settle plan fuel s'
    | none => s

end PV.C22
