/-
C22 specification on observations: what the property demands of every quiescent state the
correspondence driver prints.  The driver prints the model's observation; `specObs` is the same
observation corrected to satisfy the property, so that a state in which the current code (and the
model) violates the property shows as `model ≠ spec`, tagged with the modelled cause.  Core Lean only.
-/
import PV.C22.Model
namespace PV.C22

def showNatsSep (xs : List Nat) (sep : String) : String :=
  if xs.isEmpty then "-" else sep.intercalate (xs.map toString)

def JState.letter : JState → String
  | .new => "n" | .running => "R" | .done => "D" | .aborted => "A"

/-- Ascending order (Go prints the map keys sorted). -/
def sortNats (xs : List Nat) : List Nat := xs.foldl (fun acc x => insertSorted x acc) []

def showJob (k : Nat) (j : Job) : String :=
  s!"{k}:{match j.act with | .add => "a" | .remove => "r"}:{j.state.letter}:{showNatsSep (sortNats (pendingOf j.ids)) "."}"

def showJobs (js : List Job) : String :=
  if js.isEmpty then "-" else ";".intercalate ((List.range js.length).zip js |>.map (fun p => showJob p.1 p.2))

/-- Is the listener's wait on `j.result` justified: a result is there or can still be produced
(the run goroutine is not finished, or the job is RUNNING with a node whose success completion
would be accepted)? -/
def waitJustified (s : St) (k : Nat) : Bool :=
  match s.jobs[k]? with
  | none => false
  | some j => j.buf.isSome || j.run != .finished || (j.state == .running && hasPending j.ids)

def runningCount (s : St) : Nat := (s.jobs.filter (fun j => j.state == .running)).length

structure Obs where
  ret : String
  locked : Bool
  st : String
  nodes : List Nat
  cur : Option Nat
  q : Nat
  lis : String
  jobs : String
  par : Nat

def Obs.render (o : Obs) : String :=
  if o.locked then s!"{o.ret} locked lis={o.lis} par={o.par}"
  else s!"{o.ret} st={o.st} nodes={showNatsSep o.nodes ","} cur={match o.cur with | some k => toString k | none => "-"} q={o.q} lis={o.lis} jobs={o.jobs} par={o.par}"

def lisText (s : St) : String :=
  match s.lpc with
  | .idle => "idle"
  | .wait _ => "wait"
  | _ => if s.held.isSome then "lock" else "busy"

def modelObs (r : Ret) (s : St) (parked : Nat) : Obs :=
  { ret := r.text, locked := s.held.isSome,
    st := (match s.cstate with | .normal => "N" | .resizing => "R"),
    nodes := s.nodes, cur := s.cur, q := s.queue.length, lis := lisText s, jobs := showJobs s.jobs, par := parked }

/-- The property on one observed state; returns the corrected observation and the violated clauses. -/
def specObs (r : Ret) (s : St) (parked : Nat) : Obs × List String :=
  let o := modelObs r s parked
  let vStall := r == .blocked || r == .panic || parked > 0 || s.held.isSome
  let vEarly := s.cur.isSome && s.cstate == .normal          -- left RESIZING while a job is current
  let vStuckR := s.lpc == .idle && s.queue.isEmpty && s.cstate == .resizing   -- nothing to do, still RESIZING
  let vWait := match s.lpc with
    | .wait k => !(waitJustified s k)
    | _ => false
  let vTwo := runningCount s > 1
  let o1 := if vStall then { o with ret := (if r == .blocked || r == .panic then "ok" else o.ret), locked := false, par := 0 } else o
  let o2 := if vEarly then { o1 with st := "R" } else o1
  let o3 := if vStuckR then { o2 with st := "N" } else o2
  let o4 := if vWait then { o3 with lis := "idle" } else o3
  let o5 := if vTwo then { o4 with jobs := "at-most-one-RUNNING" } else o4
  (o5, (if vStall then ["stall"] else []) ++ (if vEarly then ["early-normal"] else []) ++
       (if vStuckR then ["stuck-resizing"] else []) ++ (if vWait then ["wait-unjustified"] else []) ++
       (if vTwo then ["two-running"] else []))

/-- The modelled cause of a violated clause (the tag matched against known_findings.jsonl). -/
def causeTag (s : St) (r : Ret) (viol : List String) : String :=
  if viol.contains "two-running" then "unexplained-two-running"
  else if viol.contains "stall" then
    (if s.held.isSome || r == .blocked then "join-queue-full-holds-cluster-mutex" else "unexplained-stall")
  else if (viol.contains "stuck-resizing" || viol.contains "wait-unjustified") then
    (if s.abortHit then "abort-leaves-listener-waiting" else "unexplained-stuck")
  else if viol.contains "early-normal" then
    (if s.staleNormal then "normal-set-while-actions-queued" else "unexplained-early-normal")
  else ""

end PV.C22
