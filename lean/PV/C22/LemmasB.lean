/-
C22 helper lemmas, part 2: the invariant `InvB` (ghost-flag conditioned clauses, queue bound),
its preservation by every step, and reachability.  Core Lean only.
-/
import PV.C22.Lemmas
namespace PV.C22

/-- "Something is still to be done": what keeps a RESIZING cluster from being idle. -/
def busyP (s : St) : Prop :=
  s.queue ≠ [] ∨ s.held.isSome = true ∨
  (match s.lpc with
   | .gen _ | .genErr | .wait _ | .got _ _ | .done2 _ => True
   | .top | .afterDrain => s.setNormal = true
   | .idle => False)

/-- An action is queued or a job is being generated / waited for. -/
def workP (s : St) : Prop :=
  s.queue ≠ [] ∨ s.held.isSome = true ∨
  (match s.lpc with
   | .gen _ | .wait _ | .got _ _ => True
   | _ => False)

def waitOk (j : Job) : Prop :=
  j.buf.isSome = true ∨ j.run ≠ .finished ∨ (j.state = .running ∧ hasPending j.ids = true)

structure InvB (s : St) : Prop where
  noabort_cur : s.abortHit = false → ∀ k, onJob s k → s.cur = some k
  busy : s.abortHit = false → s.cstate = .resizing → busyP s
  work_resizing : s.staleNormal = false → workP s → s.cstate = .resizing
  st_run : s.abortHit = false → ∀ k j, onJob s k → s.jobs[k]? = some j →
      (j.run = .notStarted → j.state = .new) ∧ ((j.run = .started ∨ j.run = .finished) → j.state = .running) ∧ j.run ≠ .unspawned
  waitJ : s.abortHit = false → ∀ k, s.lpc = .wait k → ∃ j, s.jobs[k]? = some j ∧ waitOk j
  q_le : s.queue.length ≤ cap
  held_full : s.held.isSome = true → s.queue.length = cap

theorem invB_init (c : Nat) (o : List Nat) : InvB (init c o) := by
  constructor <;> simp [init, onJob, busyP, workP, cap]

theorem step_mu {s s' : St} {l : Label} (h : step s l = some s') (hm : l.needsMu s = true) : s.held = none := by
  unfold step at h; split at h
  · cases h
  · rename_i hg; simp [hm] at hg; exact hg

/-- Everything `InvB` reads, except cstate / queue / held / stale, is unchanged. -/
theorem invB_enqueue {s : St} (a : NodeAction) (h : InvB s) (hh : s.held = none) : InvB (enqueue s a) := by
  unfold enqueue
  split
  · rename_i hlt
    constructor
    · exact h.noabort_cur
    · intro _ _; left; simp
    · intro _ _; rfl
    · exact h.st_run
    · exact h.waitJ
    · simp; omega
    · intro hs; simp [hh] at hs
  · rename_i hlt
    have := h.q_le
    constructor
    · exact h.noabort_cur
    · intro _ _; right; left; simp
    · intro _ _; rfl
    · exact h.st_run
    · exact h.waitJ
    · exact h.q_le
    · intro _; simp; omega

theorem invB_join {s s' : St} {n : Nat} (h : InvB s) (hh : s.held = none) (hs : stepJoin s n = some s') : InvB s' := by
  unfold stepJoin at hs
  split at hs <;> cases hs
  · exact h
  · exact invB_enqueue _ h hh

theorem invB_leave {s s' : St} {n : Nat} {ok : Bool} (h : InvB s) (hh : s.held = none) (hs : stepLeave s n ok = some s') : InvB s' := by
  unfold stepLeave at hs
  repeat' split at hs
  all_goals cases hs
  all_goals first | exact h | exact invB_enqueue _ h hh

theorem dequeue_spec {s s1 : St} {a : NodeAction} (h : InvB s) (hd : dequeue s = some (a, s1)) :
    s.queue ≠ [] ∧ s1.lpc = s.lpc ∧ s1.cur = s.cur ∧ s1.jobs = s.jobs ∧ s1.cstate = s.cstate ∧
    s1.abortHit = s.abortHit ∧ s1.staleNormal = s.staleNormal ∧ s1.setNormal = s.setNormal ∧
    s1.held = none ∧ s1.queue.length ≤ cap := by
  unfold dequeue at hd
  split at hd
  · cases hd
  · rename_i a' q hq
    have hle := h.q_le
    split at hd
    · rename_i hh
      cases hd
      simp [hq, hh]; simp [hq] at hle; omega
    · rename_i hh0 hh
      cases hd
      have := h.held_full (by simp [hh])
      simp [hq]; simp [hq] at this hle; omega

theorem dequeue_none {s : St} (hd : dequeue s = none) : s.queue = [] := by
  unfold dequeue at hd
  split at hd
  · assumption
  · split at hd <;> cases hd

/-- The listener takes an action off the queue and moves to `gen a`. -/
theorem invB_deq {s s1 : St} {a : NodeAction} (h : InvB s) (_hoff : ∀ k, ¬ onJob s k)
    (hd : dequeue s = some (a, s1)) : InvB { s1 with lpc := .gen a } := by
  obtain ⟨hq, h1, h2, h3, h4, h5, h6, h7, h8, h9⟩ := dequeue_spec h hd
  constructor
  · intro _ k hk; rcases hk with hk | ⟨r, hk⟩ <;> simp at hk
  · intro _ _; right; right; simp
  · intro hst _
    simp only [h4]
    exact h.work_resizing (by simpa [h6] using hst) (Or.inl hq)
  · intro _ k j hk; rcases hk with hk | ⟨r, hk⟩ <;> simp at hk
  · intro _ k hk; simp at hk
  · exact h9
  · intro hh; simp [h8] at hh

theorem invB_lTop {s s' : St} (_hA : InvA s) (h : InvB s) (hs : stepLTop s = some s') : InvB s' := by
  unfold stepLTop at hs
  split at hs
  · cases hs
  · rename_i hl
    have hl : s.lpc = .top := by simpa using hl
    have hoff := not_onJob_of_off (s := s) (by simp [hl, offJob])
    split at hs
    · rename_i a s1 hd
      cases hs
      exact invB_deq h hoff hd
    · rename_i hd
      cases hs
      have hq := dequeue_none hd
      have hheld : s.held = none := by
        cases hh : s.held with
        | none => rfl
        | some x => have := h.held_full (by simp [hh]); simp [hq, cap] at this
      constructor
      · intro _ k hk; rcases hk with hk | ⟨r, hk⟩ <;> simp at hk
      · intro ha hc
        have := h.busy ha hc
        rcases this with hb | hb | hb
        · exact absurd hq hb
        · simp [hheld] at hb
        · simp [hl] at hb; right; right; simpa using hb
      · intro hst hw
        apply h.work_resizing hst
        rcases hw with hw | hw | hw
        · left; exact hw
        · right; left; exact hw
        · simp at hw
      · intro _ k j hk; rcases hk with hk | ⟨r, hk⟩ <;> simp at hk
      · intro _ k hk; simp at hk
      · exact h.q_le
      · exact h.held_full

theorem invB_lIdle {s s' : St} (_hA : InvA s) (h : InvB s) (hs : stepLIdle s = some s') : InvB s' := by
  unfold stepLIdle at hs
  split at hs
  · cases hs
  · rename_i hl
    have hl : s.lpc = .idle := by simpa using hl
    have hoff := not_onJob_of_off (s := s) (by simp [hl, offJob])
    split at hs
    · rename_i a s1 hd
      cases hs
      exact invB_deq h hoff hd
    · cases hs

theorem invB_lAfterDrain {s s' : St} (h : InvB s) (hs : stepLAfterDrain s = some s') : InvB s' := by
  unfold stepLAfterDrain at hs
  split at hs
  · cases hs
  · rename_i hl
    have hl : s.lpc = .afterDrain := by simpa using hl
    split at hs
    · cases hs
      constructor
      · intro _ k hk; rcases hk with hk | ⟨r, hk⟩ <;> simp at hk
      · intro _ hc; simp at hc
      · intro hst hw
        simp at hst
        rcases hw with hw | hw | hw
        · simp at hw; exact absurd (by simpa using hst.1.2) hw
        · simp [hst.2] at hw
        · simp at hw
      · intro _ k j hk; rcases hk with hk | ⟨r, hk⟩ <;> simp at hk
      · intro _ k hk; simp at hk
      · exact h.q_le
      · exact h.held_full
    · rename_i hsn
      cases hs
      constructor
      · intro _ k hk; rcases hk with hk | ⟨r, hk⟩ <;> simp at hk
      · intro ha hc
        rcases h.busy ha hc with hb | hb | hb
        · left; exact hb
        · right; left; exact hb
        · simp [hl] at hb; exact absurd hb hsn
      · intro hst hw
        apply h.work_resizing hst
        rcases hw with hw | hw | hw
        · left; exact hw
        · right; left; exact hw
        · simp at hw
      · intro _ k j hk; rcases hk with hk | ⟨r, hk⟩ <;> simp at hk
      · intro _ k hk; simp at hk
      · exact h.q_le
      · exact h.held_full

theorem invB_lGenErr {s s' : St} (h : InvB s) (hs : stepLGenErr s = some s') : InvB s' := by
  unfold stepLGenErr at hs
  split at hs
  · cases hs
  · cases hs
    constructor
    · intro _ k hk; rcases hk with hk | ⟨r, hk⟩ <;> simp at hk
    · intro _ hc; simp at hc
    · intro hst hw
      simp at hst
      rcases hw with hw | hw | hw
      · simp at hw; exact absurd (by simpa using hst.1.2) hw
      · simp [hst.2] at hw
      · simp at hw
    · intro _ k j hk; rcases hk with hk | ⟨r, hk⟩ <;> simp at hk
    · intro _ k hk; simp at hk
    · exact h.q_le
    · exact h.held_full

theorem append_get_last (js : List Job) (x : Job) : (js ++ [x])[js.length]? = some x := by
  simp

theorem invB_lGen {s s' : St} {plan : Option (List Nat)} (hA : InvA s) (h : InvB s) (hs : stepLGen s plan = some s') : InvB s' := by
  unfold stepLGen at hs
  split at hs
  · rename_i a hl
    have ho : offJob s.lpc := by simp [hl, offJob]
    have hn := not_onJob_of_off ho
    have hwork : workP s := by right; right; simp [hl]
    split at hs
    · cases hs
      constructor
      · intro _ k hk; rcases hk with hk | ⟨r, hk⟩ <;> simp at hk
      · intro _ _; right; right; simp
      · intro hst _; exact h.work_resizing hst hwork
      · intro _ k j hk; rcases hk with hk | ⟨r, hk⟩ <;> simp at hk
      · intro _ k hk; simp at hk
      · exact h.q_le
      · exact h.held_full
    · rename_i pend
      split at hs
      · rename_i c hc
        exact absurd (hA.cur_lis c hc) (hn c)
      · cases hs
        constructor
        · intro _ k hk; rcases hk with hk | ⟨r, hk⟩ <;> simp at hk; subst hk; rfl
        · intro _ _; right; right; simp
        · intro hst _; exact h.work_resizing hst hwork
        · intro _ k j hk hj
          have : k = s.jobs.length := by rcases hk with hk | ⟨r, hk⟩ <;> simp at hk; exact hk.symm
          subst this
          simp at hj; subst hj
          simp [mkJob]
        · intro _ k hk
          simp at hk; subst hk
          refine ⟨_, append_get_last _ _, ?_⟩
          right; left; simp [mkJob]
        · exact h.q_le
        · exact h.held_full
  · cases hs

theorem offer_isSome (b : Option JResult) (r : JResult) : (offer b r).isSome = true := by
  cases b <;> simp [offer]

/-- A step that rewrites one job and leaves listener, queue, flags alone. -/
theorem invB_upd {s : St} {k : Nat} {j0 : Job} {f : Job → Job} (h : InvB s) (hk : s.jobs[k]? = some j0)
    (hst : s.abortHit = false → onJob s k →
      ((f j0).run = .notStarted → (f j0).state = .new) ∧
      (((f j0).run = .started ∨ (f j0).run = .finished) → (f j0).state = .running) ∧ (f j0).run ≠ .unspawned)
    (hw : s.abortHit = false → s.lpc = .wait k → waitOk (f j0)) :
    InvB { s with jobs := updJob s.jobs k f } := by
  constructor
  · exact h.noabort_cur
  · exact h.busy
  · exact h.work_resizing
  · intro ha i j hi hj
    rcases updJob_cases hj with ⟨hik, j1, hj1, rfl⟩ | ⟨_, hj1⟩
    · subst hik; rw [hk] at hj1; cases hj1; exact hst ha hi
    · exact h.st_run ha i j hi hj1
  · intro ha i hi
    by_cases hik : i = k
    · subst hik
      exact ⟨f j0, updJob_get_eq hk, hw ha hi⟩
    · obtain ⟨j, hj, hwj⟩ := h.waitJ ha i hi
      exact ⟨j, by rw [updJob_get_ne hik]; exact hj, hwj⟩
  · exact h.q_le
  · exact h.held_full

theorem hasPending_mark_mono {ids : List (Nat × IdSt)} {n : Nat} (h : hasPending (markReported ids n) = true) :
    hasPending ids = true := by
  induction ids with
  | nil => simp [markReported, hasPending] at h
  | cons x xs ih =>
    obtain ⟨m, st⟩ := x
    unfold markReported at h
    split at h
    · simp [hasPending] at h ⊢
      rcases h with h | h
      · left; cases st <;> simp_all
      · right; exact h
    · simp [hasPending] at h ⊢
      rcases h with h | h
      · left; exact h
      · right
        have := ih (by simpa [hasPending] using h)
        simpa [hasPending] using this

theorem invB_complete {s s' : St} {k n : Nat} {e : Bool} (h : InvB s) (hs : stepComplete s k n e = some s') : InvB s' := by
  unfold stepComplete at hs
  split at hs
  · cases hs; exact h
  · rename_i j0 hk
    cases hs
    have hstate : (completeJob j0 n e).state = j0.state := by
      unfold completeJob; split
      · rfl
      · split <;> rfl
    have hrun : (completeJob j0 n e).run = j0.run := by
      unfold completeJob; split
      · rfl
      · split <;> rfl
    apply invB_upd h hk
    · intro ha hi; rw [hstate, hrun]; exact h.st_run ha k j0 hi hk
    · intro ha hl
      obtain ⟨j, hj, hwj⟩ := h.waitJ ha k hl
      rw [hk] at hj; cases hj
      unfold completeJob
      split
      · left; exact offer_isSome _ _
      · split
        · exact hwj
        · by_cases hp : hasPending (markReported j0.ids n) = true
          · simp only [hp, if_true]
            rcases hwj with hw | hw | hw
            · left; exact hw
            · right; left; exact hw
            · right; right; exact ⟨hw.1, hp⟩
          · simp only [hp]
            left; exact offer_isSome _ _

theorem invB_rStart {s s' : St} {k : Nat} (_hA : InvA s) (h : InvB s) (hs : stepRStart s k = some s') : InvB s' := by
  unfold stepRStart at hs
  split at hs
  · rename_i j0 hk
    split at hs
    · rename_i hrun
      cases hs
      apply invB_upd h hk
      · intro ha hi
        have := (h.st_run ha k j0 hi hk).1 hrun
        simp [this, setJState]
      · intro _ _; right; left; simp
    · cases hs
  · cases hs

theorem invB_rGo {s s' : St} {k : Nat} (hA : InvA s) (h : InvB s) (hs : stepRGo s k = some s') : InvB s' := by
  unfold stepRGo at hs
  split at hs
  · rename_i j0 hk
    split at hs
    · rename_i hrun
      cases hs
      have hon : onJob s k := hA.alive_lis k j0 hk (Or.inr hrun)
      have hstate : (runGo j0 s.failNodes).state = j0.state := by
        unfold runGo; split
        · rfl
        · split <;> rfl
      have hrun' : (runGo j0 s.failNodes).run = .finished := by
        unfold runGo; split
        · rfl
        · split <;> rfl
      apply invB_upd h hk
      · intro ha hi
        have := (h.st_run ha k j0 hi hk).2.1 (Or.inl hrun)
        rw [hstate, hrun']; simp [this]
      · intro ha _
        have hr := (h.st_run ha k j0 hon hk).2.1 (Or.inl hrun)
        unfold runGo
        split
        · left; exact offer_isSome _ _
        · rename_i hp
          split
          · left; exact offer_isSome _ _
          · right; right
            exact ⟨hr, by simpa using hp⟩
    · cases hs
  · cases hs

theorem invB_abort {s s' : St} (h : InvB s) (hs : stepAbort s = some s') : InvB s' := by
  unfold stepAbort at hs
  split at hs
  · cases hs; exact h
  · split at hs
    · cases hs; exact h
    · cases hs
      constructor
      · intro ha; simp at ha
      · intro ha; simp at ha
      · exact h.work_resizing
      · intro ha; simp at ha
      · intro ha; simp at ha
      · exact h.q_le
      · exact h.held_full

theorem invB_lRecv {s s' : St} (h : InvB s) (hs : stepLRecv s = some s') : InvB s' := by
  unfold stepLRecv at hs
  split at hs
  · rename_i k hl
    have hon : onJob s k := Or.inl hl
    split at hs
    · rename_i j0 hk
      split at hs
      · rename_i r hbuf
        cases hs
        constructor
        · intro ha i hi
          have : i = k := by rcases hi with hi | ⟨r', hi⟩ <;> simp at hi; exact hi.1.symm
          subst this; exact h.noabort_cur ha i hon
        · intro _ _; right; right; simp
        · intro hst _; exact h.work_resizing hst (by right; right; simp [hl])
        · intro ha i j hi hj
          have : i = k := by rcases hi with hi | ⟨r', hi⟩ <;> simp at hi; exact hi.1.symm
          subst this
          rcases updJob_cases hj with ⟨_, j1, hj1, rfl⟩ | ⟨hne, _⟩
          · exact h.st_run ha i j1 hon hj1
          · exact absurd rfl hne
        · intro _ i hi; simp at hi
        · exact h.q_le
        · exact h.held_full
      · cases hs
    · cases hs
  · cases hs

theorem invB_lComplete {s s' : St} (h : InvB s) (hs : stepLComplete s = some s') : InvB s' := by
  unfold stepLComplete at hs
  split at hs
  · rename_i k r hl
    have hon : onJob s k := Or.inr ⟨r, hl⟩
    have hws : workP s := by right; right; simp [hl]
    split at hs
    · rename_i j0 hk
      split at hs
      · cases hs
      · split at hs
        · rename_i hc
          cases hs
          have hab : s.abortHit = true := by
            cases hab : s.abortHit with
            | true => rfl
            | false => have := h.noabort_cur hab k hon; rw [hc] at this; cases this
          constructor
          · intro ha; simp [hab] at ha
          · intro ha; simp [hab] at ha
          · intro hst _
            exact h.work_resizing hst hws
          · intro ha; simp [hab] at ha
          · intro ha; simp [hab] at ha
          · exact h.q_le
          · exact h.held_full
        · rename_i c hc
          cases r with
          | done =>
            cases hs
            constructor
            · intro _ i hi; rcases hi with hi | ⟨r', hi⟩ <;> simp at hi
            · intro _ _; right; right; simp
            · intro hst _
              exact h.work_resizing hst hws
            · intro _ i j hi; rcases hi with hi | ⟨r', hi⟩ <;> simp at hi
            · intro _ i hi; simp at hi
            · exact h.q_le
            · exact h.held_full
          | aborted =>
            cases hs
            constructor
            · intro _ i hi; rcases hi with hi | ⟨r', hi⟩ <;> simp at hi
            · intro _ _; right; right; simp
            · intro hst _
              exact h.work_resizing hst hws
            · intro _ i j hi; rcases hi with hi | ⟨r', hi⟩ <;> simp at hi
            · intro _ i hi; simp at hi
            · exact h.q_le
            · exact h.held_full
    · cases hs
  · cases hs

theorem invB_lDone2 {s s' : St} (h : InvB s) (hs : stepLDone2 s = some s') : InvB s' := by
  unfold stepLDone2 at hs
  split at hs
  · rename_i k hl
    split at hs
    · cases hs
      constructor
      · intro _ i hi; rcases hi with hi | ⟨r', hi⟩ <;> simp at hi
      · intro _ _; right; right; simp
      · intro hst hw
        apply h.work_resizing hst
        rcases hw with hw | hw | hw
        · left; exact hw
        · right; left; exact hw
        · simp at hw
      · intro _ i j hi; rcases hi with hi | ⟨r', hi⟩ <;> simp at hi
      · intro _ i hi; simp at hi
      · exact h.q_le
      · exact h.held_full
    · cases hs
  · cases hs

theorem invB_step {s s' : St} {l : Label} (hA : InvA s) (h : InvB s) (hs : step s l = some s') : InvB s' := by
  have hc := step_core hs
  cases l with
  | join n => exact invB_join h (step_mu hs rfl) hc
  | leave n ok => exact invB_leave h (step_mu hs rfl) hc
  | complete k n e => exact invB_complete h hc
  | abort => exact invB_abort h hc
  | failsend b =>
    simp [stepCore] at hc; subst hc
    obtain ⟨a, b, c, d, e, f, g⟩ := h
    exact ⟨a, b, c, d, e, f, g⟩
  | lTop => exact invB_lTop hA h hc
  | lAfterDrain => exact invB_lAfterDrain h hc
  | lIdle => exact invB_lIdle hA h hc
  | lGen p => exact invB_lGen hA h hc
  | lGenErr => exact invB_lGenErr h hc
  | rStart k => exact invB_rStart hA h hc
  | rGo k => exact invB_rGo hA h hc
  | lRecv => exact invB_lRecv h hc
  | lComplete => exact invB_lComplete h hc
  | lDone2 => exact invB_lDone2 h hc

/-- Reachable states: any number of steps, with any labels, from an initial state. -/
inductive Reachable : St → Prop where
  | init (c : Nat) (o : List Nat) : Reachable (init c o)
  | step {s s' : St} (l : Label) : Reachable s → step s l = some s' → Reachable s'

theorem reachable_inv {s : St} (h : Reachable s) : InvA s ∧ InvB s := by
  induction h with
  | init c o => exact ⟨invA_init c o, invB_init c o⟩
  | step l _ hs ih => exact ⟨invA_step ih.1 hs, invB_step ih.1 ih.2 hs⟩

end PV.C22
