/-
C28 executable model of the write paths (core Lean only).

Every path is modelled by its own algorithm on the abstract field state, not as a fold of single
writes (that each equals the fold is what Props.lean proves):

  * PQL Set/Clear (`executeSet`/`executeClearBit` → `Field.SetBit/ClearBit/SetValue`): one call per
    item, in order — this IS `Spec.write*`.
  * `API.Import` by ids on a set/time field (`Field.Import` → `bulkImportStandard` →
    `importPositions`): the batch is split by (view, shard) and the positions of a fragment are
    added/removed as a SET (`AddN`/`RemoveN`): membership of the batch decides, order does not.
  * `API.Import` by ids on a mutex/bool field (`bulkImportMutex`, after the C13 fix): per column the
    LAST row of the batch wins; with Clear the batch is removed as a set (`bulkImportStandard`).
  * `API.ImportRoaring`: per shard, per view, a set of positions row*ShardWidth + col%ShardWidth is
    united with / subtracted from the fragment (`ImportRoaringBits`); encoding and decoding of the
    bytes (Pilosa or official format) is abstracted to the set of positions (C04's subject).
  * `API.ImportValue` (`importValueSmallWrite`: scan from the end, first occurrence of a column
    wins; large path: every pair applied in order); with Clear every listed column loses its value.
  * keys: `TranslateFile` allocates ids per key in order of first use; the path then is the id
    path on translated items (`Tr`).
-/
import PV.C28.Spec
namespace PV.C28
namespace Model

/-! ### set / time fields -/

/-- Views a bulk import writes a bit to (`Field.Import`): the quantum views and the standard view
(the latter unless NoStandardView); a Clear import only ever reaches the standard view. -/
def importViews (f : Fld) (op : Op) (it : Item) : List String :=
  match op with
  | .set => setViews f it
  | _ => if f.nostd then [] else [""]

/-- `Field.Import` + `bulkImportStandard`: set semantics on the positions of each fragment. -/
def importIds (f : Fld) (op : Op) (items : List Item) (s : BitSt) : BitSt :=
  fun v r c =>
    if items.any (fun it => r == it.row && c == it.col && (importViews f op it).contains v)
    then op == .set else s v r c

/-- Position of a bit inside its fragment. -/
def pos (r c : Nat) : Nat := r * SW + c % SW

/-- `fragment.importRoaring` on the fragment (view, shard): union / difference with a position set. -/
def roaringImport (clear : Bool) (view : String) (shard : Nat) (ps : List Nat) (s : BitSt) : BitSt :=
  fun v r c => if v == view && c / SW == shard && ps.contains (pos r c) then !clear else s v r c

/-- Views a roaring client has to write for one logical bit: as `SetBit` for a set; the standard
view for `clearstd`; every view written so far (`known`) for a Clear of the bit. -/
def roaringViews (f : Fld) (op : Op) (known : List String) (it : Item) : List String :=
  match op with
  | .set => setViews f it
  | .clearstd => if f.nostd then [] else [""]
  | .clear => if f.ft = .time then known else [""]

/-- Remove repeated elements (keeps the last occurrence). -/
def dedup {α : Type} [BEq α] : List α → List α
  | [] => []
  | a :: l => if l.contains a then dedup l else a :: dedup l

/-- The (view, shard) requests of one logical write and their position sets. -/
def roaringGroups (f : Fld) (op : Op) (known : List String) (items : List Item) : List (String × Nat) :=
  dedup (items.flatMap (fun it => (roaringViews f op known it).map (fun v => (v, it.col / SW))))

def roaringPositions (f : Fld) (op : Op) (known : List String) (items : List Item) (g : String × Nat) : List Nat :=
  (items.filter (fun it => (roaringViews f op known it).contains g.1 && it.col / SW == g.2)).map
    (fun it => pos it.row it.col)

def roaringPath (f : Fld) (op : Op) (known : List String) (items : List Item) (s : BitSt) : BitSt :=
  (roaringGroups f op known items).foldl
    (fun s g => roaringImport (op != .set) g.1 g.2 (roaringPositions f op known items g) s) s

/-! ### mutex / bool fields -/

/-- Row of the last occurrence of column `c` in the batch. -/
def lastRow (items : List Item) (c : Nat) : Option Nat :=
  (items.reverse.find? (fun it => c == it.col)).map (·.row)

/-- `bulkImportMutex`: per column the last row given wins. -/
def importMxSet (items : List Item) (s : MxSt) : MxSt :=
  fun c => match lastRow items c with
    | some r => some r
    | none => s c

/-- `bulkImportStandard` with Clear on a mutex fragment: the listed bits are removed as a set. -/
def importMxClear (items : List Item) (s : MxSt) : MxSt :=
  fun c => if items.any (fun it => c == it.col && s c == some it.row) then none else s c

def importMx (op : Op) (items : List Item) (s : MxSt) : MxSt :=
  match op with
  | .set => importMxSet items s
  | _ => importMxClear items s

/-! ### int fields -/

def lastVal (items : List Item) (c : Nat) : Option Int :=
  (items.reverse.find? (fun it => c == it.col)).map (·.val)

/-- `importValueSmallWrite`: scanning from the end, the first pair seen for a column wins. -/
def importValueSmall (items : List Item) (s : IntSt) : IntSt :=
  fun c => match lastVal items c with
    | some v => some v
    | none => s c

/-- The large path of `fragment.importValue`: every pair applied in order. -/
def importValueLarge (items : List Item) (s : IntSt) : IntSt :=
  items.foldl (fun s it => fun c => if c == it.col then some it.val else s c) s

/-- `ImportValue` with Clear: every listed column loses its value. -/
def importValueClear (items : List Item) (s : IntSt) : IntSt :=
  fun c => if items.any (fun it => c == it.col) then none else s c

def importValue (op : Op) (items : List Item) (s : IntSt) : IntSt :=
  match op with
  | .set => importValueSmall items s
  | _ => importValueClear items s

/-! ### key translation -/

/-- Keys in allocation order; key `l[i]` has id `i+1` (`TranslateFile` hands out 1,2,3,… per store). -/
abbrev Tr := List Nat

def Tr.alloc (l : Tr) (k : Nat) : Tr := if l.contains k then l else l ++ [k]
def Tr.allocAll (l : Tr) (ks : List Nat) : Tr := ks.foldl Tr.alloc l
def Tr.id (l : Tr) (k : Nat) : Nat := l.idxOf k + 1
def Tr.key? (l : Tr) (id : Nat) : Option Nat := if id = 0 then none else l[id - 1]?

def trItem (tr tc : Tr) (it : Item) : Item := { it with row := tr.id it.row, col := tc.id it.col }

end Model
end PV.C28
