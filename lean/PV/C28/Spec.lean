/-
C28 abstract specification (core Lean only, executable).

The abstract state of ONE field is a characteristic function:
  * set / time field : view name → row → column → Bool   ("" is the standard view, a time view is
                       named by its digit prefix: "2001", "200102", "20010203", "2001020304")
  * mutex / bool     : column → Option row
  * int              : column → Option value
`Spec.write*` is the meaning of a logical write: the batch applied as a sequence of single-bit
(single-value) writes, which is literally what a PQL request of Set/Clear calls does.  The query
battery (`rowQ`, `countQ`, `rowsQ`, `topnQ`, `trangeQ`, `cmpQ`, `sumQ`, …) is a function of the
abstract state and of a finite universe of rows/columns/views (everything ever mentioned by a
write), so two equal abstract states give equal answers by congruence.
-/
namespace PV.C28

def SW : Nat := 1048576

inductive FType | set | mutex | bool | time | int
deriving DecidableEq, Repr

structure Fld where
  ft : FType := .set
  q : String := ""
  nostd : Bool := false
  min : Int := 0
  max : Int := 0

structure Item where
  row : Nat := 0
  col : Nat := 0
  ts : String := ""
  val : Int := 0

inductive Op | set | clear | clearstd
deriving DecidableEq, Repr

abbrev BitSt := String → Nat → Nat → Bool
abbrev MxSt := Nat → Option Nat
abbrev IntSt := Nat → Option Int

def BitSt.empty : BitSt := fun _ _ _ => false
def MxSt.empty : MxSt := fun _ => none
def IntSt.empty : IntSt := fun _ => none

/-- `viewByTimeUnit`: the view of a timestamp YYYYMMDDHH for one quantum unit is a digit prefix. -/
def unitLen (u : Char) : Option Nat :=
  if u = 'Y' then some 4 else if u = 'M' then some 6 else if u = 'D' then some 8
  else if u = 'H' then some 10 else none

/-- `viewsByTime`. -/
def viewsOf (ts q : String) : List String :=
  q.toList.filterMap (fun u => (unitLen u).map (fun n => (ts.take n).toString))

/-- Views a Set of one bit writes (`Field.SetBit`): standard unless NoStandardView, and every
quantum view when the bit carries a timestamp. -/
def setViews (f : Fld) (it : Item) : List String :=
  (if f.nostd then [] else [""]) ++ (if it.ts = "" then [] else viewsOf it.ts f.q)

def BitSt.upd (s : BitSt) (v : String) (r c : Nat) (b : Bool) : BitSt :=
  fun v' r' c' => if v' = v ∧ r' = r ∧ c' = c then b else s v' r' c'

namespace Spec

/-- `Set(col, f=row[, ts])`. -/
def setBit (f : Fld) (s : BitSt) (it : Item) : BitSt :=
  (setViews f it).foldl (fun s v => s.upd v it.row it.col true) s

/-- `Clear(col, f=row)`: on a time field the bit leaves every view, otherwise the standard view. -/
def clearBit (f : Fld) (s : BitSt) (it : Item) : BitSt :=
  if f.ft = .time then fun v r c => if r = it.row ∧ c = it.col then false else s v r c
  else s.upd "" it.row it.col false

/-- Clearing in the standard view only (what a bulk import with Clear means on a time field). -/
def clearStd (f : Fld) (s : BitSt) (it : Item) : BitSt :=
  if f.nostd then s else s.upd "" it.row it.col false

def bitStep (f : Fld) : Op → BitSt → Item → BitSt
  | .set => setBit f
  | .clear => clearBit f
  | .clearstd => clearStd f

def writeBits (f : Fld) (op : Op) (items : List Item) (s : BitSt) : BitSt :=
  items.foldl (bitStep f op) s

def mxSet (s : MxSt) (it : Item) : MxSt := fun c => if c = it.col then some it.row else s c
def mxClear (s : MxSt) (it : Item) : MxSt :=
  fun c => if c = it.col ∧ s c = some it.row then none else s c

def mxStep : Op → MxSt → Item → MxSt
  | .set => mxSet
  | _ => mxClear

def writeMx (op : Op) (items : List Item) (s : MxSt) : MxSt := items.foldl (mxStep op) s

def ivSet (s : IntSt) (it : Item) : IntSt := fun c => if c = it.col then some it.val else s c
def ivClear (s : IntSt) (it : Item) : IntSt := fun c => if c = it.col then none else s c

def ivStep : Op → IntSt → Item → IntSt
  | .set => ivSet
  | _ => ivClear

def writeIv (op : Op) (items : List Item) (s : IntSt) : IntSt := items.foldl (ivStep op) s

end Spec

/-! ### The query battery -/

structure Univ where
  rows : List Nat := []
  cols : List Nat := []
  views : List String := []

/-- A mutex / bool state seen as a bit state (standard view only). -/
def mxBits (s : MxSt) : BitSt := fun v r c => v = "" && s c == some r

def rowQ (s : BitSt) (u : Univ) (v : String) (r : Nat) : List Nat := u.cols.filter (fun c => s v r c)

def countQ (s : BitSt) (u : Univ) (r : Nat) : Nat := (rowQ s u "" r).length

/-- Views `Rows(field=f)` looks at: the standard view, or every time view when there is none. -/
def rowsViews (f : Fld) (u : Univ) : List String :=
  if f.nostd then u.views.filter (fun v => v != "") else [""]

def rowsQ (f : Fld) (s : BitSt) (u : Univ) : List Nat :=
  u.rows.filter (fun r => (rowsViews f u).any (fun v => u.cols.any (fun c => s v r c)))

def topnQ (s : BitSt) (u : Univ) : List (Nat × Nat) :=
  (u.rows.map (fun r => (r, countQ s u r))).filter (fun p => p.2 > 0)

def topnIdsQ (s : BitSt) (u : Univ) (ids : List Nat) : List (Nat × Nat) :=
  (topnQ s u).filter (fun p => ids.contains p.1)

def topkQ (s : BitSt) (u : Univ) (k : Nat) : List Nat :=
  (((topnQ s u).map (·.2)).mergeSort (fun a b => decide (a ≥ b))).take k

def trangeQ (s : BitSt) (u : Univ) (r : Nat) (views : List String) : List Nat :=
  u.cols.filter (fun c => views.any (fun v => s v r c))

def valQ (s : IntSt) (c : Nat) : Option Int := s c

def cmpQ (s : IntSt) (u : Univ) (p : Int → Bool) : List Nat :=
  u.cols.filter (fun c => match s c with | some v => p v | none => false)

def valuesQ (s : IntSt) (u : Univ) : List Int := u.cols.filterMap s

def sumQ (s : IntSt) (u : Univ) : Int × Nat :=
  let vs := valuesQ s u
  (vs.foldl (· + ·) 0, vs.length)

def extremeQ (s : IntSt) (u : Univ) (pick : Int → Int → Int) : Int × Nat :=
  match valuesQ s u with
  | [] => (0, 0)
  | v :: rest =>
    let m := rest.foldl pick v
    (m, ((v :: rest).filter (fun x => x == m)).length)

def minQ (s : IntSt) (u : Univ) : Int × Nat := extremeQ s u (fun a b => if b < a then b else a)
def maxQ (s : IntSt) (u : Univ) : Int × Nat := extremeQ s u (fun a b => if b > a then b else a)

end PV.C28
