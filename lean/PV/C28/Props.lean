/-
C28 property theorems: all write paths for the same bits yield the same answers.

Full-strength statement (per field type): for every sequence of logical writes and every
assignment of write paths to them (PQL Set/Clear, bulk import by ids or — through an injective key
translation — by keys, roaring import into the views a Set would touch, value import), the
abstract field state reached is the one `Spec.write*` reaches, hence any two assignments — and any
two histories with the same final per-bit outcome — give equal states and equal answers to every
query of the battery (which are functions of the abstract state).

Scope notes (see design/C28.md): `Not`/existence tracking is outside the compared answers;
the roaring encodings are abstracted to position sets (C04); TopN with `n` over several shards is
a two-pass approximation and is only compared on one shard; `allowed` excludes the one
combination the API cannot express (bulk import by ids clearing every time view).
-/
import PV.C28.Lemmas
namespace PV.C28
open Spec Model

/-! ### 1. Each path's effect equals the specification write -/

/-- set / time fields: PQL, bulk import by ids and roaring import have the effect of `Spec.writeBits`. -/
theorem C28_path_effect_bits (f : Fld) (hf : f.ft ≠ .time → f.nostd = false) (known : List String)
    (p : Path) (w : W) (s : BitSt) (hs : Supp s known) (ha : allowed f p w.op) :
    applyPath f known p w s = Spec.writeBits f w.op w.items s :=
  applyPath_eq f hf known p w s hs ha

/-- mutex / bool fields: a bulk import (last row per column wins; Clear removes the listed bits)
is the sequence of single Set/Clear calls. -/
theorem C28_path_effect_mutex (op : Op) (items : List Item) (s : MxSt) :
    Model.importMx op items s = Spec.writeMx op items s :=
  importMx_eq op items s

/-- int fields: both paths of `fragment.importValue` (small write: last occurrence wins; large:
pairs applied in order) and the clearing import are the sequence of single writes. -/
theorem C28_path_effect_int (op : Op) (items : List Item) (s : IntSt) :
    Model.importValue op items s = Spec.writeIv op items s ∧
    Model.importValueLarge items s = Spec.writeIv .set items s :=
  ⟨importValue_eq op items s, importValueLarge_eq items s⟩

/-! ### 2. Keys: an injective translation commutes with every write -/

theorem C28_keys_bits (tr tc : Nat → Nat) (htr : Inj tr) (htc : Inj tc) (f : Fld) (op : Op)
    (items : List Item) (s : BitSt) :
    pullBits tr tc (Spec.writeBits f op (items.map (mapItem tr tc)) s) =
      Spec.writeBits f op items (pullBits tr tc s) :=
  keys_bits tr tc htr htc f op items s

theorem C28_keys_mutex (tr tc : Nat → Nat) (htr : Inj tr) (htc : Inj tc) (op : Op) (items : List Item)
    (sid sk : MxSt) (h : RelMx tr tc sid sk) :
    RelMx tr tc (Spec.writeMx op (items.map (mapItem tr tc)) sid) (Spec.writeMx op items sk) :=
  keys_mx tr tc htr htc op items sid sk h

theorem C28_keys_int (tc : Nat → Nat) (htc : Inj tc) (op : Op) (items : List Item)
    (sid sk : IntSt) (h : RelIv tc sid sk) :
    RelIv tc (Spec.writeIv op (items.map (mapItem id tc)) sid) (Spec.writeIv op items sk) :=
  keys_iv tc htc op items sid sk h

/-- The ids handed out by the translate store (`Tr.id`: position of first use + 1) are injective
on the keys it has seen. -/
theorem C28_keys_alloc_injective (l : Model.Tr) (a b : Nat) (ha : a ∈ l) (hb : b ∈ l)
    (h : Model.Tr.id l a = Model.Tr.id l b) : a = b := by
  unfold Model.Tr.id at h
  have h' : l.idxOf a = l.idxOf b := by omega
  have la := List.idxOf_lt_length_of_mem ha
  have lb := List.idxOf_lt_length_of_mem hb
  have h1 : l[l.idxOf a] = a := List.getElem_idxOf la
  have h2 : l[l.idxOf b] = b := List.getElem_idxOf lb
  rw [← h1, ← h2]
  simp only [h']

/-! ### 3. C28_paths: any two path assignments (mixtures) give the same state and answers -/

/-- set / time fields. `ws₁`, `ws₂` are the same logical writes with arbitrary paths attached. -/
theorem C28_paths (f : Fld) (hf : f.ft ≠ .time → f.nostd = false) (ws₁ ws₂ : List (Path × W))
    (hsame : ws₁.map (·.2) = ws₂.map (·.2)) (known : List String) (s : BitSt) (hs : Supp s known)
    (ha₁ : ∀ pw ∈ ws₁, allowed f pw.1 pw.2.op) (ha₂ : ∀ pw ∈ ws₂, allowed f pw.1 pw.2.op) :
    run f ws₁ known s = run f ws₂ known s := by
  rw [run_eq_runSpec f hf ws₁ known s hs ha₁, run_eq_runSpec f hf ws₂ known s hs ha₂, hsame]

/-- Hence every answer of the battery (any function of the abstract state: `rowQ`, `countQ`,
`rowsQ`, `topnQ`, `topnIdsQ`, `topkQ`, `trangeQ` with any universe and arguments) agrees. -/
theorem C28_paths_answers {α : Type} (Q : BitSt → α) (f : Fld) (hf : f.ft ≠ .time → f.nostd = false)
    (ws₁ ws₂ : List (Path × W)) (hsame : ws₁.map (·.2) = ws₂.map (·.2)) (known : List String)
    (s : BitSt) (hs : Supp s known)
    (ha₁ : ∀ pw ∈ ws₁, allowed f pw.1 pw.2.op) (ha₂ : ∀ pw ∈ ws₂, allowed f pw.1 pw.2.op) :
    Q (run f ws₁ known s) = Q (run f ws₂ known s) := by
  rw [C28_paths f hf ws₁ ws₂ hsame known s hs ha₁ ha₂]

/-- mutex / bool fields (`true` = bulk import, `false` = PQL). -/
theorem C28_paths_mutex (ws₁ ws₂ : List (Bool × W)) (hsame : ws₁.map (·.2) = ws₂.map (·.2)) (s : MxSt) :
    runMx ws₁ s = runMx ws₂ s := by
  rw [runMx_eq, runMx_eq, hsame]

/-- int fields (first flag: value import instead of PQL; second: its large-batch path). -/
theorem C28_paths_int (ws₁ ws₂ : List (Bool × Bool × W)) (hsame : ws₁.map (·.2.2) = ws₂.map (·.2.2))
    (s : IntSt) : runIv ws₁ s = runIv ws₂ s := by
  rw [runIv_eq, runIv_eq, hsame]

/-! ### 4. Same final per-bit outcome ⇒ same state (different logical histories) -/

/-- set / time fields: the state after a history is, bit by bit, the polarity of the last write
touching that bit (or the initial state). -/
theorem C28_outcome_bits (f : Fld) (ws₁ ws₂ : List W) (s : BitSt)
    (h : ∀ v r c, lastTouch f ws₁ v r c = lastTouch f ws₂ v r c) :
    runSpec f ws₁ s = runSpec f ws₂ s := by
  funext v r c
  rw [runSpec_apply, runSpec_apply, h]

/-- … and with arbitrary paths attached to both histories. -/
theorem C28_paths_outcome (f : Fld) (hf : f.ft ≠ .time → f.nostd = false) (ws₁ ws₂ : List (Path × W))
    (known : List String) (s : BitSt) (hs : Supp s known)
    (ha₁ : ∀ pw ∈ ws₁, allowed f pw.1 pw.2.op) (ha₂ : ∀ pw ∈ ws₂, allowed f pw.1 pw.2.op)
    (h : ∀ v r c, lastTouch f (ws₁.map (·.2)) v r c = lastTouch f (ws₂.map (·.2)) v r c) :
    run f ws₁ known s = run f ws₂ known s := by
  rw [run_eq_runSpec f hf ws₁ known s hs ha₁, run_eq_runSpec f hf ws₂ known s hs ha₂]
  exact C28_outcome_bits f _ _ s h

/-- mutex / bool fields: a column's value depends only on the writes that name this column. -/
theorem C28_outcome_mutex (ws₁ ws₂ : List W) (s : MxSt) (h : ∀ c, mxTrace c ws₁ = mxTrace c ws₂) :
    runMxSpec ws₁ s = runMxSpec ws₂ s := by
  funext c
  rw [runMxSpec_col, runMxSpec_col, h]

theorem C28_outcome_int (ws₁ ws₂ : List W) (s : IntSt) (h : ∀ c, ivTrace c ws₁ = ivTrace c ws₂) :
    runIvSpec ws₁ s = runIvSpec ws₂ s := by
  funext c
  rw [runIvSpec_col, runIvSpec_col, h]

/-! ### 5. The battery reads exactly the abstract set -/

/-- With every populated column inside the universe, `Row` lists exactly the members of the row. -/
theorem C28_rowQ_exact (s : BitSt) (u : Univ) (v : String) (r c : Nat)
    (hu : ∀ c, s v r c = true → c ∈ u.cols) :
    c ∈ rowQ s u v r ↔ s v r c = true := by
  simp only [rowQ, List.mem_filter]
  exact ⟨fun h => h.2, fun h => ⟨hu c h, h⟩⟩

theorem C28_trangeQ_exact (s : BitSt) (u : Univ) (r c : Nat) (views : List String)
    (hu : ∀ v c, s v r c = true → c ∈ u.cols) :
    c ∈ trangeQ s u r views ↔ ∃ v ∈ views, s v r c = true := by
  simp only [trangeQ, List.mem_filter, List.any_eq_true]
  constructor
  · rintro ⟨_, v, hv, h⟩; exact ⟨v, hv, h⟩
  · rintro ⟨v, hv, h⟩; exact ⟨hu v c h, v, hv, h⟩

/-! ### Non-vacuity: a concrete mixed history satisfying the hypotheses -/

def exFld : Fld := { ft := .time, q := "YM", nostd := false }
def exW1 : W := { op := .set, items := [{ row := 1, col := 5, ts := "2001020304" }, { row := 2, col := 1048581 }] }
def exW2 : W := { op := .clear, items := [{ row := 1, col := 5 }] }

example : Supp BitSt.empty [] := by intro v r c h; simp [BitSt.empty] at h
example : ∀ pw ∈ [(Path.ids, exW1), (Path.roaring, exW2)], allowed exFld pw.1 pw.2.op := by
  intro pw h; simp at h; rcases h with rfl | rfl <;> simp [allowed, exW1, exW2]
example : rowQ (run exFld [(Path.ids, exW1), (Path.roaring, exW2)] [] BitSt.empty)
    { rows := [1, 2], cols := [5, 1048581] } "2001" 1 = [] := by decide
example : rowQ (run exFld [(Path.roaring, exW1)] [] BitSt.empty)
    { rows := [1, 2], cols := [5, 1048581] } "200102" 1 = [5] := by decide
example : Inj (fun n => n + 1) := fun a b h => by simp at h; exact h

end PV.C28
