/-
C28 helper lemmas (core Lean only): each write path's effect on the abstract state, characterised
pointwise (`writeBits_apply`, `roaringPath_apply`, …), the last-write-wins lemmas for mutex and
int batches, transport along an injective key translation, and histories (`run`, `runSpec`,
`lastTouch`, per-column traces).  The property theorems are in Props.lean.
-/
import PV.C28.Model
namespace PV.C28
open Spec Model

/-- Does writing item `it` with operation `op` touch the bit (v, r, c)? -/
def touch (f : Fld) (op : Op) (it : Item) (v : String) (r c : Nat) : Bool :=
  r == it.row && c == it.col &&
    match op with
    | .set => (setViews f it).contains v
    | .clear => if f.ft = .time then true else v == ""
    | .clearstd => !f.nostd && v == ""

theorem foldl_upd_apply (vs : List String) (r c : Nat) (s : BitSt) (v' : String) (r' c' : Nat) :
    (vs.foldl (fun s v => s.upd v r c true) s) v' r' c' =
      if (r' = r ∧ c' = c ∧ v' ∈ vs) then true else s v' r' c' := by
  induction vs generalizing s with
  | nil => simp
  | cons v vs ih =>
    simp only [List.foldl_cons, ih, BitSt.upd, List.mem_cons]
    by_cases h1 : r' = r <;> by_cases h2 : c' = c <;> by_cases h3 : v' = v <;> by_cases h4 : v' ∈ vs <;> simp [h1, h2, h3, h4]

theorem bitStep_apply (f : Fld) (op : Op) (s : BitSt) (it : Item) (v : String) (r c : Nat) :
    Spec.bitStep f op s it v r c = if touch f op it v r c then (op == .set) else s v r c := by
  cases op with
  | set =>
    simp only [bitStep, setBit, foldl_upd_apply, touch]
    by_cases h1 : r = it.row <;> by_cases h2 : c = it.col <;> by_cases h3 : v ∈ setViews f it <;>
      simp [h1, h2, h3]
  | clear =>
    simp only [bitStep, clearBit, touch]
    by_cases ht : f.ft = .time
    · simp only [ht, if_true]
      by_cases h1 : r = it.row <;> by_cases h2 : c = it.col <;> simp [h1, h2]
    · simp only [ht, if_false, BitSt.upd]
      by_cases h1 : r = it.row <;> by_cases h2 : c = it.col <;> by_cases h3 : v = "" <;> simp [h1, h2, h3]
  | clearstd =>
    simp only [bitStep, clearStd, touch]
    by_cases hn : f.nostd = true
    · simp [hn]
    · have hn' : f.nostd = false := by simpa using hn
      by_cases h1 : r = it.row <;> by_cases h2 : c = it.col <;> by_cases h3 : v = "" <;>
        simp [hn', h1, h2, h3, BitSt.upd]

theorem writeBits_apply (f : Fld) (op : Op) (items : List Item) (s : BitSt) (v : String) (r c : Nat) :
    Spec.writeBits f op items s v r c =
      if items.any (fun it => touch f op it v r c) then (op == .set) else s v r c := by
  unfold writeBits
  induction items generalizing s with
  | nil => simp
  | cons it rest ih =>
    simp only [List.foldl_cons, ih, bitStep_apply, List.any_cons]
    by_cases h1 : touch f op it v r c = true <;> by_cases h2 : (rest.any fun it => touch f op it v r c) = true <;> simp [h1, h2]


/-! ### Import by ids = fold of single writes -/

theorem importIds_set (f : Fld) (items : List Item) (s : BitSt) :
    Model.importIds f .set items s = Spec.writeBits f .set items s := by
  funext v r c
  simp only [writeBits_apply, importIds, touch, importViews]
  rfl

theorem importIds_clearstd (f : Fld) (items : List Item) (s : BitSt) :
    Model.importIds f .clearstd items s = Spec.writeBits f .clearstd items s := by
  funext v r c
  simp only [writeBits_apply, importIds, touch, importViews]
  congr 2
  congr 1
  funext it
  by_cases hn : f.nostd = true <;> by_cases h3 : v = "" <;> simp [hn, h3]

theorem importIds_clear (f : Fld) (hf : f.ft ≠ .time) (hn : f.nostd = false) (items : List Item) (s : BitSt) :
    Model.importIds f .clear items s = Spec.writeBits f .clear items s := by
  funext v r c
  simp only [writeBits_apply, importIds, touch, importViews, hn, hf]
  congr 2
  congr 1
  funext it
  by_cases h3 : v = "" <;> simp [h3]

/-! ### Roaring import = fold of single writes -/

theorem pos_inj (r c r' c' : Nat) (hs : c / SW = c' / SW) : pos r c = pos r' c' ↔ r = r' ∧ c = c' := by
  unfold pos SW at *
  omega

theorem mem_dedup {α : Type} [BEq α] [LawfulBEq α] (a : α) (l : List α) : a ∈ dedup l ↔ a ∈ l := by
  induction l with
  | nil => simp [dedup]
  | cons b l ih =>
    simp only [dedup]
    by_cases h : l.contains b = true
    · simp only [h, if_true, ih, List.mem_cons]
      constructor
      · exact Or.inr
      · rintro (rfl | h')
        · simpa using h
        · exact h'
    · have h' : b ∉ l := by simpa using h
      simp [h', ih]

theorem roaringFold_apply (clear : Bool) (P : String × Nat → List Nat) (L : List (String × Nat)) (s : BitSt)
    (v : String) (r c : Nat) :
    (L.foldl (fun s g => roaringImport clear g.1 g.2 (P g) s) s) v r c =
      if (v, c / SW) ∈ L ∧ pos r c ∈ P (v, c / SW) then !clear else s v r c := by
  induction L generalizing s with
  | nil => simp
  | cons g L ih =>
    simp only [List.foldl_cons, ih, roaringImport, List.mem_cons]
    by_cases h3 : (v, c / SW) = g
    · subst h3
      by_cases h1 : (v, c / SW) ∈ L <;> by_cases h2 : pos r c ∈ P (v, c / SW) <;> simp [h1, h2]
    · have h3' : ¬ (v = g.1 ∧ c / SW = g.2) := fun h => h3 (by cases g; simp_all)
      by_cases h1 : (v, c / SW) ∈ L <;> by_cases h2 : pos r c ∈ P (v, c / SW) <;>
        by_cases h4 : v = g.1 <;> by_cases h5 : c / SW = g.2 <;> simp_all


/-- Does the roaring client write the bit (v, r, c) for item `it`? -/
def rtouch (f : Fld) (op : Op) (known : List String) (it : Item) (v : String) (r c : Nat) : Bool :=
  r == it.row && c == it.col && (roaringViews f op known it).contains v

theorem roaringPath_apply (f : Fld) (op : Op) (known : List String) (items : List Item) (s : BitSt)
    (v : String) (r c : Nat) :
    Model.roaringPath f op known items s v r c =
      if items.any (fun it => rtouch f op known it v r c) then (op == .set) else s v r c := by
  unfold roaringPath
  rw [roaringFold_apply (op != .set) (roaringPositions f op known items)]
  have hpol : (!(op != Op.set)) = (op == Op.set) := by cases op <;> rfl
  rw [hpol]
  have hiff : ((v, c / SW) ∈ roaringGroups f op known items ∧
      pos r c ∈ roaringPositions f op known items (v, c / SW)) ↔
      (items.any (fun it => rtouch f op known it v r c) = true) := by
    simp only [roaringGroups, roaringPositions, mem_dedup, List.mem_flatMap, List.mem_map, List.mem_filter,
      List.any_eq_true, rtouch, Bool.and_eq_true, beq_iff_eq, List.contains_iff_mem, Prod.mk.injEq]
    constructor
    · rintro ⟨_, it, ⟨hit, hv, hs⟩, hp⟩
      have := (pos_inj it.row it.col r c hs).mp hp
      exact ⟨it, hit, ⟨this.1.symm, this.2.symm⟩, hv⟩
    · rintro ⟨it, hit, ⟨hr, hc⟩, hv⟩
      subst hr hc
      exact ⟨⟨it, hit, v, hv, rfl, rfl⟩, it, ⟨hit, hv, rfl⟩, rfl⟩
  by_cases h : (items.any (fun it => rtouch f op known it v r c) = true)
  · rw [if_pos (hiff.mpr h), if_pos h]
  · rw [if_neg (fun h' => h (hiff.mp h')), if_neg h]

/-- Support of a bit state lies inside the known views. -/
def Supp (s : BitSt) (known : List String) : Prop := ∀ v r c, s v r c = true → v ∈ known

theorem roaringPath_eq (f : Fld) (hf : f.ft ≠ .time → f.nostd = false) (op : Op) (known : List String)
    (items : List Item) (s : BitSt) (hs : op = .clear → f.ft = .time → Supp s known) :
    Model.roaringPath f op known items s = Spec.writeBits f op items s := by
  funext v r c
  rw [roaringPath_apply, writeBits_apply]
  cases op with
  | set => simp only [rtouch, touch, roaringViews]; rfl
  | clearstd =>
    simp only [rtouch, touch, roaringViews]
    congr 2
    congr 1
    funext it
    by_cases hn : f.nostd = true <;> by_cases h3 : v = "" <;> simp [hn, h3]
  | clear =>
    by_cases ht : f.ft = .time
    · simp only [rtouch, touch, roaringViews, ht, if_true]
      by_cases hk : v ∈ known
      · simp [hk]
      · have hfalse : s v r c = false := by
          cases h : s v r c with
          | false => rfl
          | true => exact absurd (hs rfl ht v r c h) hk
        simp [hk, hfalse]
    · have hn := hf ht
      simp only [rtouch, touch, roaringViews, ht, if_false]
      congr 2
      congr 1
      funext it
      by_cases h3 : v = "" <;> simp [h3]


/-! ### mutex / bool: last write wins per column -/

theorem lastRow_cons (it : Item) (rest : List Item) (c : Nat) :
    lastRow (it :: rest) c = match lastRow rest c with
      | some r => some r
      | none => if c = it.col then some it.row else none := by
  unfold lastRow
  simp only [List.reverse_cons, List.find?_append]
  cases h : rest.reverse.find? (fun it => c == it.col) with
  | some x => simp
  | none =>
    by_cases hc : c = it.col <;> simp [hc]

theorem importMxSet_eq (items : List Item) (s : MxSt) :
    Model.importMxSet items s = Spec.writeMx .set items s := by
  unfold writeMx
  induction items generalizing s with
  | nil => funext c; simp [importMxSet, lastRow]
  | cons it rest ih =>
    rw [List.foldl_cons, ← ih]
    funext c
    simp only [importMxSet, lastRow_cons, mxStep, mxSet]
    cases lastRow rest c with
    | some r => simp
    | none => by_cases hc : c = it.col <;> simp [hc]

theorem importMxClear_eq (items : List Item) (s : MxSt) :
    Model.importMxClear items s = Spec.writeMx .clear items s := by
  unfold writeMx
  induction items generalizing s with
  | nil => funext c; simp [importMxClear]
  | cons it rest ih =>
    rw [List.foldl_cons, ← ih]
    funext c
    simp only [importMxClear, mxStep, mxClear, List.any_cons]
    by_cases h1 : c = it.col
    · subst h1
      by_cases h2 : s it.col = some it.row
      · simp [h2]
      · simp [h2]
    · simp [h1]

theorem importMx_eq (op : Op) (items : List Item) (s : MxSt) :
    Model.importMx op items s = Spec.writeMx op items s := by
  cases op with
  | set => exact importMxSet_eq items s
  | clear => exact importMxClear_eq items s
  | clearstd => exact importMxClear_eq items s

/-! ### int: last value wins per column -/

theorem lastVal_cons (it : Item) (rest : List Item) (c : Nat) :
    lastVal (it :: rest) c = match lastVal rest c with
      | some r => some r
      | none => if c = it.col then some it.val else none := by
  unfold lastVal
  simp only [List.reverse_cons, List.find?_append]
  cases h : rest.reverse.find? (fun it => c == it.col) with
  | some x => simp
  | none =>
    by_cases hc : c = it.col <;> simp [hc]

theorem importValueSmall_eq (items : List Item) (s : IntSt) :
    Model.importValueSmall items s = Spec.writeIv .set items s := by
  unfold writeIv
  induction items generalizing s with
  | nil => funext c; simp [importValueSmall, lastVal]
  | cons it rest ih =>
    rw [List.foldl_cons, ← ih]
    funext c
    simp only [importValueSmall, lastVal_cons, ivStep, ivSet]
    cases lastVal rest c with
    | some r => simp
    | none => by_cases hc : c = it.col <;> simp [hc]

theorem importValueLarge_eq (items : List Item) (s : IntSt) :
    Model.importValueLarge items s = Spec.writeIv .set items s := by
  unfold writeIv importValueLarge
  congr 1
  funext s it c
  simp [ivStep, ivSet]

theorem importValueClear_eq (items : List Item) (s : IntSt) :
    Model.importValueClear items s = Spec.writeIv .clear items s := by
  unfold writeIv
  induction items generalizing s with
  | nil => funext c; simp [importValueClear]
  | cons it rest ih =>
    rw [List.foldl_cons, ← ih]
    funext c
    simp only [importValueClear, ivStep, ivClear, List.any_cons]
    by_cases hc : c = it.col <;> simp [hc]

theorem importValue_eq (op : Op) (items : List Item) (s : IntSt) :
    Model.importValue op items s = Spec.writeIv op items s := by
  cases op with
  | set => exact importValueSmall_eq items s
  | clear => exact importValueClear_eq items s
  | clearstd => exact importValueClear_eq items s


/-! ### key translation: an injective renaming of rows and columns commutes with every write -/

def mapItem (tr tc : Nat → Nat) (it : Item) : Item := { it with row := tr it.row, col := tc it.col }

def pullBits (tr tc : Nat → Nat) (s : BitSt) : BitSt := fun v r c => s v (tr r) (tc c)

def Inj (g : Nat → Nat) : Prop := ∀ a b, g a = g b → a = b

theorem touch_map (tr tc : Nat → Nat) (htr : Inj tr) (htc : Inj tc) (f : Fld) (op : Op) (it : Item)
    (v : String) (r c : Nat) :
    touch f op (mapItem tr tc it) v (tr r) (tc c) = touch f op it v r c := by
  have h1 : (tr r == tr it.row) = (r == it.row) := by
    rw [Bool.eq_iff_iff]; simp only [beq_iff_eq]; exact ⟨htr _ _, fun e => by rw [e]⟩
  have h2 : (tc c == tc it.col) = (c == it.col) := by
    rw [Bool.eq_iff_iff]; simp only [beq_iff_eq]; exact ⟨htc _ _, fun e => by rw [e]⟩
  simp only [touch, mapItem, h1, h2]
  rfl

theorem keys_bits (tr tc : Nat → Nat) (htr : Inj tr) (htc : Inj tc) (f : Fld) (op : Op)
    (items : List Item) (s : BitSt) :
    pullBits tr tc (Spec.writeBits f op (items.map (mapItem tr tc)) s) =
      Spec.writeBits f op items (pullBits tr tc s) := by
  funext v r c
  simp only [pullBits, writeBits_apply, List.any_map, Function.comp_def, touch_map tr tc htr htc]

/-- id-space state `sid` represents key-space state `sk` (mutex / bool). -/
def RelMx (tr tc : Nat → Nat) (sid sk : MxSt) : Prop := ∀ c, sid (tc c) = (sk c).map tr

theorem keys_mx (tr tc : Nat → Nat) (htr : Inj tr) (htc : Inj tc) (op : Op) (items : List Item)
    (sid sk : MxSt) (h : RelMx tr tc sid sk) :
    RelMx tr tc (Spec.writeMx op (items.map (mapItem tr tc)) sid) (Spec.writeMx op items sk) := by
  unfold writeMx
  induction items generalizing sid sk with
  | nil => exact h
  | cons it rest ih =>
    simp only [List.map_cons, List.foldl_cons]
    apply ih
    intro c
    have hc : (tc c = tc it.col) ↔ (c = it.col) := ⟨htc _ _, fun e => by rw [e]⟩
    have hv : ((sk c).map tr = some (tr it.row)) ↔ (sk c = some it.row) := by
      cases hx : sk c with
      | none => simp
      | some x => simp only [Option.map_some, Option.some.injEq]; exact ⟨htr _ _, fun e => by rw [e]⟩
    have hclear : Spec.mxClear sid (mapItem tr tc it) (tc c) = (Spec.mxClear sk it c).map tr := by
      simp only [mxClear, mapItem, h c, hc, hv]
      by_cases hcond : (c = it.col ∧ sk c = some it.row)
      · rw [if_pos hcond, if_pos hcond]; rfl
      · rw [if_neg hcond, if_neg hcond]
    cases op with
    | set =>
      simp only [mxStep, mxSet, mapItem, hc]
      by_cases e : c = it.col
      · rw [if_pos e, if_pos e]; rfl
      · rw [if_neg e, if_neg e]; exact h c
    | clear => exact hclear
    | clearstd => exact hclear


/-- id-space state represents key-space state (int field: only columns are translated). -/
def RelIv (tc : Nat → Nat) (sid sk : IntSt) : Prop := ∀ c, sid (tc c) = sk c

theorem keys_iv (tc : Nat → Nat) (htc : Inj tc) (op : Op) (items : List Item)
    (sid sk : IntSt) (h : RelIv tc sid sk) :
    RelIv tc (Spec.writeIv op (items.map (mapItem id tc)) sid) (Spec.writeIv op items sk) := by
  unfold writeIv
  induction items generalizing sid sk with
  | nil => exact h
  | cons it rest ih =>
    simp only [List.map_cons, List.foldl_cons]
    apply ih
    intro c
    have hc : (tc c = tc it.col) ↔ (c = it.col) := ⟨htc _ _, fun e => by rw [e]⟩
    cases op <;> simp only [ivStep, ivSet, ivClear, mapItem, hc, h c]

/-! ### histories: every assignment of paths to a sequence of logical writes gives the same state -/

inductive Path | pql | ids | roaring
deriving DecidableEq, Repr

structure W where
  op : Op
  items : List Item

/-- A bulk import by ids cannot express "clear in every time view". -/
def allowed (f : Fld) (p : Path) (op : Op) : Prop :=
  p = .ids → op = .clear → f.ft ≠ .time

def applyPath (f : Fld) (known : List String) : Path → W → BitSt → BitSt
  | .pql, w, s => Spec.writeBits f w.op w.items s
  | .ids, w, s => Model.importIds f w.op w.items s
  | .roaring, w, s => Model.roaringPath f w.op known w.items s

/-- Views known to a roaring client after a write (those a Set of the items touches are added). -/
def knownAfter (f : Fld) (known : List String) (w : W) : List String :=
  if w.op = .set then known ++ w.items.flatMap (setViews f) else known

def run (f : Fld) : List (Path × W) → List String → BitSt → BitSt
  | [], _, s => s
  | (p, w) :: rest, known, s =>
    run f rest (knownAfter f known w) (applyPath f (knownAfter f known w) p w s)

def runSpec (f : Fld) : List W → BitSt → BitSt
  | [], s => s
  | w :: rest, s => runSpec f rest (Spec.writeBits f w.op w.items s)

theorem Supp_mono {s : BitSt} {k k' : List String} (h : Supp s k) (hk : ∀ v, v ∈ k → v ∈ k') : Supp s k' :=
  fun v r c hv => hk v (h v r c hv)

theorem known_sub (f : Fld) (known : List String) (w : W) : ∀ v, v ∈ known → v ∈ knownAfter f known w := by
  intro v hv
  unfold knownAfter
  split
  · exact List.mem_append_left _ hv
  · exact hv

theorem Supp_write (f : Fld) (known : List String) (w : W) (s : BitSt) (h : Supp s known) :
    Supp (Spec.writeBits f w.op w.items s) (knownAfter f known w) := by
  intro v r c hv
  rw [writeBits_apply] at hv
  by_cases ht : (w.items.any fun it => touch f w.op it v r c) = true
  · rw [if_pos ht] at hv
    have hop : w.op = .set := by
      cases hw : w.op <;> simp_all
    simp only [knownAfter, hop, if_true, List.mem_append, List.mem_flatMap]
    right
    simp only [List.any_eq_true, hop, touch, Bool.and_eq_true, List.contains_iff_mem] at ht
    obtain ⟨it, hit, _, hv'⟩ := ht
    exact ⟨it, hit, hv'⟩
  · rw [if_neg ht] at hv
    exact known_sub f known w v (h v r c hv)

theorem applyPath_eq (f : Fld) (hf : f.ft ≠ .time → f.nostd = false) (known : List String) (p : Path) (w : W)
    (s : BitSt) (hs : Supp s known) (ha : allowed f p w.op) :
    applyPath f known p w s = Spec.writeBits f w.op w.items s := by
  cases p with
  | pql => rfl
  | ids =>
    simp only [applyPath]
    cases hop : w.op with
    | set => exact importIds_set f w.items s
    | clearstd => exact importIds_clearstd f w.items s
    | clear =>
      have hft := ha rfl hop
      exact importIds_clear f hft (hf hft) w.items s
  | roaring => exact roaringPath_eq f hf w.op known w.items s (fun _ _ => hs)

theorem run_eq_runSpec (f : Fld) (hf : f.ft ≠ .time → f.nostd = false) (ws : List (Path × W))
    (known : List String) (s : BitSt) (hs : Supp s known) (ha : ∀ pw ∈ ws, allowed f pw.1 pw.2.op) :
    run f ws known s = runSpec f (ws.map (·.2)) s := by
  induction ws generalizing known s with
  | nil => rfl
  | cons pw rest ih =>
    obtain ⟨p, w⟩ := pw
    simp only [run, List.map_cons, runSpec]
    have hs' : Supp s (knownAfter f known w) := Supp_mono hs (known_sub f known w)
    rw [applyPath_eq f hf _ p w s hs' (ha (p, w) (by simp))]
    exact ih _ _ (Supp_write f known w s hs) (fun pw h => ha pw (by simp [h]))

/-! ### the final per-bit outcome decides the state -/

/-- Polarity of the last write of the history that touches (v, r, c). -/
def lastTouch (f : Fld) : List W → String → Nat → Nat → Option Bool
  | [], _, _, _ => none
  | w :: rest, v, r, c =>
    match lastTouch f rest v r c with
    | some b => some b
    | none => if w.items.any (fun it => touch f w.op it v r c) then some (w.op == .set) else none

theorem runSpec_apply (f : Fld) (ws : List W) (s : BitSt) (v : String) (r c : Nat) :
    runSpec f ws s v r c = (lastTouch f ws v r c).getD (s v r c) := by
  induction ws generalizing s with
  | nil => rfl
  | cons w rest ih =>
    simp only [runSpec, ih, lastTouch, writeBits_apply]
    cases lastTouch f rest v r c with
    | some b => rfl
    | none =>
      by_cases ht : (w.items.any fun it => touch f w.op it v r c) = true <;> simp [ht]


/-! ### mutex / int histories: a column only depends on the writes to that column -/

def mxCol (op : Op) (x : Option Nat) (row : Nat) : Option Nat :=
  match op with
  | .set => some row
  | _ => if x = some row then none else x

theorem mxStep_col (op : Op) (s : MxSt) (it : Item) (c : Nat) :
    Spec.mxStep op s it c = if c = it.col then mxCol op (s c) it.row else s c := by
  cases op <;> by_cases h : c = it.col <;> simp [mxStep, mxSet, mxClear, mxCol, h]

theorem writeMx_col (op : Op) (items : List Item) (s : MxSt) (c : Nat) :
    Spec.writeMx op items s c =
      ((items.filter (fun it => c == it.col)).map (·.row)).foldl (mxCol op) (s c) := by
  unfold writeMx
  induction items generalizing s with
  | nil => rfl
  | cons it rest ih =>
    simp only [List.foldl_cons, ih, mxStep_col, List.filter_cons]
    by_cases h : c = it.col <;> simp [h]

def runMx (ws : List (Bool × W)) (s : MxSt) : MxSt :=
  ws.foldl (fun s pw => if pw.1 then Model.importMx pw.2.op pw.2.items s else Spec.writeMx pw.2.op pw.2.items s) s

def runMxSpec (ws : List W) (s : MxSt) : MxSt := ws.foldl (fun s w => Spec.writeMx w.op w.items s) s

theorem runMx_eq (ws : List (Bool × W)) (s : MxSt) : runMx ws s = runMxSpec (ws.map (·.2)) s := by
  unfold runMx runMxSpec
  induction ws generalizing s with
  | nil => rfl
  | cons pw rest ih =>
    simp only [List.foldl_cons, List.map_cons]
    have : (if pw.1 = true then Model.importMx pw.2.op pw.2.items s else Spec.writeMx pw.2.op pw.2.items s) =
        Spec.writeMx pw.2.op pw.2.items s := by
      rw [importMx_eq]; simp
    rw [this]
    exact ih _

/-- The writes of a history that concern column `c`, in order. -/
def mxTrace (c : Nat) (ws : List W) : List (Op × Nat) :=
  ws.flatMap (fun w => (w.items.filter (fun it => c == it.col)).map (fun it => (w.op, it.row)))

theorem runMxSpec_col (ws : List W) (s : MxSt) (c : Nat) :
    runMxSpec ws s c = (mxTrace c ws).foldl (fun x p => mxCol p.1 x p.2) (s c) := by
  unfold runMxSpec mxTrace
  induction ws generalizing s with
  | nil => rfl
  | cons w rest ih =>
    simp only [List.foldl_cons, ih, writeMx_col, List.flatMap_cons, List.foldl_append, List.foldl_map]

def ivCol (op : Op) (_x : Option Int) (v : Int) : Option Int :=
  match op with
  | .set => some v
  | _ => none

theorem ivStep_col (op : Op) (s : IntSt) (it : Item) (c : Nat) :
    Spec.ivStep op s it c = if c = it.col then ivCol op (s c) it.val else s c := by
  cases op <;> by_cases h : c = it.col <;> simp [ivStep, ivSet, ivClear, ivCol, h]

theorem writeIv_col (op : Op) (items : List Item) (s : IntSt) (c : Nat) :
    Spec.writeIv op items s c =
      ((items.filter (fun it => c == it.col)).map (·.val)).foldl (ivCol op) (s c) := by
  unfold writeIv
  induction items generalizing s with
  | nil => rfl
  | cons it rest ih =>
    simp only [List.foldl_cons, ih, ivStep_col, List.filter_cons]
    by_cases h : c = it.col <;> simp [h]

/-- `true` = through `API.ImportValue` (small or large path by `big`), `false` = PQL. -/
def runIv (ws : List (Bool × Bool × W)) (s : IntSt) : IntSt :=
  ws.foldl (fun s pw =>
    if pw.1 then
      (if pw.2.1 && pw.2.2.op == .set then Model.importValueLarge pw.2.2.items s
       else Model.importValue pw.2.2.op pw.2.2.items s)
    else Spec.writeIv pw.2.2.op pw.2.2.items s) s

def runIvSpec (ws : List W) (s : IntSt) : IntSt := ws.foldl (fun s w => Spec.writeIv w.op w.items s) s

theorem runIv_eq (ws : List (Bool × Bool × W)) (s : IntSt) : runIv ws s = runIvSpec (ws.map (·.2.2)) s := by
  unfold runIv runIvSpec
  induction ws generalizing s with
  | nil => rfl
  | cons pw rest ih =>
    simp only [List.foldl_cons, List.map_cons]
    have : (if pw.1 = true then
        (if (pw.2.1 && pw.2.2.op == Op.set) = true then Model.importValueLarge pw.2.2.items s
         else Model.importValue pw.2.2.op pw.2.2.items s)
      else Spec.writeIv pw.2.2.op pw.2.2.items s) = Spec.writeIv pw.2.2.op pw.2.2.items s := by
      by_cases h1 : pw.1 = true
      · rw [if_pos h1]
        by_cases h2 : (pw.2.1 && pw.2.2.op == Op.set) = true
        · rw [if_pos h2, importValueLarge_eq]
          simp only [Bool.and_eq_true, beq_iff_eq] at h2
          rw [h2.2]
        · rw [if_neg h2, importValue_eq]
      · rw [if_neg h1]
    rw [this]
    exact ih _

def ivTrace (c : Nat) (ws : List W) : List (Op × Int) :=
  ws.flatMap (fun w => (w.items.filter (fun it => c == it.col)).map (fun it => (w.op, it.val)))

theorem runIvSpec_col (ws : List W) (s : IntSt) (c : Nat) :
    runIvSpec ws s c = (ivTrace c ws).foldl (fun x p => ivCol p.1 x p.2) (s c) := by
  unfold runIvSpec ivTrace
  induction ws generalizing s with
  | nil => rfl
  | cons w rest ih =>
    simp only [List.foldl_cons, ih, writeIv_col, List.flatMap_cons, List.foldl_append, List.foldl_map]

end PV.C28
