/-
pm_c28: model driver for C28.  One case = one logical field held in several "lanes" (identical
physical fields), each written through its own path.  Lines:

  field <set|mutex|bool|time|int> lanes=<u|k>+ [cache=ranked|lru csize=N] [q=<quantum> nostd=0|1] [min=a max=b]
        lane kind u = ids, k = string keys (index keys + field keys)
  w <p0,p1,…> <set|clear|clearstd> <item>+
        one path per lane: q PQL · Q PQL with keys · i Import ids · k Import keys · p ImportRoaring
        (Pilosa bytes) · o ImportRoaring (official bytes) · v ImportValue · V ImportValue by keys
        item (bit fields) = row:col | row:col@YYYYMMDDHH | row:colA-colB     item (int) = col=value
        clearstd (time fields) clears in the standard view only
  q row r | count r | rows | topn | topnids a,b,c | topk n | trange r <from> <to> <view,view|->
  q val c | cmp <lt|le|gt|ge|eq|ne> x | between a b | notnull | sum | min | max

Output of a `w`/`field` line: ok.  Output of a `q` line: the answer in canonical text.  `model` is
the answer computed from the lanes' states, each reached through the model of that lane's path
(MODEL-DIFF if two lanes disagree, which Props.lean proves impossible); `#spec` is the answer from
the path-free specification state (Spec.write*).
-/
import Std.Data.HashSet
import Std.Data.HashMap
import PV.Common.Proto
import PV.C28.Model
import PV.C28.Spec
open PV.Proto PV.C28

/-! Tabulation: after every write the driver replaces a state (a chain of closures) by a lookup
table over the finite universe of the case.  The states never hold anything outside the universe,
so this changes no answer; it only keeps a lookup O(1) instead of O(number of writes so far). -/

abbrev BitTab := Std.HashSet (String × Nat × Nat)
abbrev MxTab := Std.HashMap Nat Nat
abbrev IvTab := Std.HashMap Nat Int

def BitTab.fn (t : BitTab) : BitSt := fun v r c => t.contains (v, r, c)
def MxTab.fn (t : MxTab) : MxSt := fun c => t.get? c
def IvTab.fn (t : IvTab) : IntSt := fun c => t.get? c

def tabBits (s : BitSt) (views : List String) (rows cols : List Nat) : BitTab :=
  views.foldl (fun t v => rows.foldl (fun t r => cols.foldl (fun t c =>
    if s v r c then t.insert (v, r, c) else t) t) t) {}

def tabMx (s : MxSt) (cols : List Nat) : MxTab :=
  cols.foldl (fun t c => match s c with
    | some r => t.insert c r
    | none => t) {}

def tabIv (s : IntSt) (cols : List Nat) : IvTab :=
  cols.foldl (fun t c => match s c with
    | some r => t.insert c r
    | none => t) {}

structure Lane where
  keyed : Bool
  bits : BitTab := {}
  mx : MxTab := {}
  iv : IvTab := {}
  trR : Model.Tr := []
  trC : Model.Tr := []

structure St where
  fld : Option Fld := none
  lanes : List Lane := []
  sbits : BitTab := {}
  smx : MxTab := {}
  siv : IvTab := {}
  u : Univ := {}

def insSorted (x : Nat) : List Nat → List Nat
  | [] => [x]
  | y :: ys => if x < y then x :: y :: ys else if x = y then y :: ys else y :: insSorted x ys

def sortNats (l : List Nat) : List Nat := l.foldl (fun acc x => insSorted x acc) []

def kvOf (ws : List String) : List (String × String) :=
  ws.filterMap (fun w => match w.splitOn "=" with
    | [k, v] => some (k, v)
    | _ => none)

def look (kv : List (String × String)) (k : String) : String :=
  match kv.find? (fun p => p.1 == k) with
  | some p => p.2
  | none => ""

def validQuanta : List String := ["Y", "YM", "YMD", "YMDH", "M", "MD", "MDH", "D", "DH", "H"]

def allDigits (s : String) : Bool := !s.isEmpty && s.toList.all Char.isDigit

def natStrict? (s : String) : Option Nat := if allDigits s then s.toNat? else none

def intStrict? (s : String) : Option Int :=
  if s.startsWith "-" then (natStrict? (s.drop 1).toString).map (fun n => -(Int.ofNat n))
  else (natStrict? s).map Int.ofNat

def parseField (ws : List String) : Option (Fld × List Bool) :=
  match ws with
  | [] => none
  | t :: rest =>
    if rest.any (fun w => (w.splitOn "=").length < 2) then none else
    let kv := rest.map (fun w => match w.splitOn "=" with
      | k :: vs => (k, "=".intercalate vs)
      | [] => ("", ""))
    let lanes := (look kv "lanes").toList
    if lanes.isEmpty || lanes.length > 8 || lanes.any (fun c => c != 'u' && c != 'k') then none else
    let ls := lanes.map (· == 'k')
    let cacheOK := (look kv "cache" == "ranked" || look kv "cache" == "lru") &&
      (match natStrict? (look kv "csize") with | some n => n > 0 | none => false)
    match t with
    | "set" => if cacheOK then some ({ ft := .set }, ls) else none
    | "mutex" => if cacheOK then some ({ ft := .mutex }, ls) else none
    | "bool" => some ({ ft := .bool }, ls)
    | "time" =>
      let q := look kv "q"
      if validQuanta.contains q then some ({ ft := .time, q := q, nostd := look kv "nostd" == "1" }, ls) else none
    | "int" =>
      match intStrict? (look kv "min"), intStrict? (look kv "max") with
      | some a, some b => if a ≤ b then some ({ ft := .int, min := a, max := b }, ls) else none
      | _, _ => none
    | _ => none

def rangeList (a b : Nat) : List Nat := (List.range (b - a + 1)).map (· + a)

/-- Parse the items of a write (ranges expanded). -/
def parseItems (f : Fld) (toks : List String) : Option (List Item) :=
  (toks.mapM (fun (t : String) =>
    if f.ft = FType.int then
      match t.splitOn "=" with
      | [c, v] => do
        let c ← natStrict? c
        let v ← intStrict? v
        pure [({ col := c, val := v } : Item)]
      | _ => none
    else
      let (t, ts) := match t.splitOn "@" with
        | [a, b] => (a, some b)
        | [a] => (a, some "")
        | _ => (t, none)
      match ts, t.splitOn ":" with
      | some ts, [r, cs] => do
        if !(ts == "" || (ts.length == 10 && allDigits ts)) then none
        let r ← natStrict? r
        match cs.splitOn "-" with
        | [c] => do
          let c ← natStrict? c
          pure [({ row := r, col := c, ts := ts } : Item)]
        | [a, b] => do
          let a ← natStrict? a
          let b ← natStrict? b
          if b < a || b - a > 70000 || a / SW != b / SW then none
          pure ((rangeList a b).map (fun c => ({ row := r, col := c, ts := ts } : Item)))
        | _ => none
      | _, _ => none)).map List.flatten

def parseOp (s : String) : Option Op :=
  match s with
  | "set" => some .set
  | "clear" => some .clear
  | "clearstd" => some .clearstd
  | _ => none

def pathAllowed (f : Fld) (op : Op) (p : String) : Bool :=
  match f.ft with
  | .int => if op == .set then ["q", "Q", "v", "V"].contains p else ["v", "V"].contains p
  | .set => ["q", "Q", "i", "k", "p", "o"].contains p
  | .time =>
    match op with
    | .set => ["q", "Q", "i", "k", "p", "o"].contains p
    | .clear => ["q", "Q", "p", "o"].contains p
    | .clearstd => ["i", "k", "p", "o"].contains p
  | _ => ["q", "Q", "i", "k"].contains p

def keyedPath (p : String) : Bool := p == "Q" || p == "k" || p == "V"

/-- Apply one logical write to one lane through path `p`. -/
def writeLane (f : Fld) (u : Univ) (known : List String) (op : Op) (items : List Item) (p : String) (ln : Lane) : Lane :=
  -- keyed lanes: allocate ids in order of first use, then run the id path on translated items
  let (ln, items) :=
    if ln.keyed then
      let trR := if f.ft = .bool || f.ft = .int then ln.trR else Model.Tr.allocAll ln.trR (items.map (·.row))
      let trC := Model.Tr.allocAll ln.trC (items.map (·.col))
      let tr := fun (it : Item) =>
        if f.ft = .bool || f.ft = .int then { it with col := Model.Tr.id trC it.col } else Model.trItem trR trC it
      ({ ln with trR := trR, trC := trC }, items.map tr)
    else (ln, items)
  -- universe of this lane (id space for a keyed lane)
  let rowKeys := f.ft != .bool && f.ft != .int
  let rowsU := if ln.keyed && rowKeys then (List.range ln.trR.length).map (· + 1) else u.rows
  let colsU := if ln.keyed then (List.range ln.trC.length).map (· + 1) else u.cols
  match f.ft with
  | .set | .time =>
    let b := match p with
      | "q" | "Q" => Spec.writeBits f op items ln.bits.fn
      | "i" | "k" => Model.importIds f op items ln.bits.fn
      | _ => Model.roaringPath f op known items ln.bits.fn
    { ln with bits := tabBits b ("" :: known) rowsU colsU }
  | .mutex | .bool =>
    let m := match p with
      | "q" | "Q" => Spec.writeMx op items ln.mx.fn
      | _ => Model.importMx op items ln.mx.fn
    { ln with mx := tabMx m colsU }
  | .int =>
    let v := match p with
      | "q" | "Q" => Spec.writeIv op items ln.iv.fn
      | _ => Model.importValue op items ln.iv.fn
    { ln with iv := tabIv v colsU }

def showPairs (ps : List (Nat × Nat)) : String :=
  "[" ++ " ".intercalate (ps.map (fun p => s!"{p.1}:{p.2}")) ++ "]"

def showVC (p : Int × Nat) : String := s!"{p.1}:{p.2}"

def cmpOf (op : String) (x : Int) : Option (Int → Bool) :=
  match op with
  | "lt" => some (fun v => v < x)
  | "le" => some (fun v => v ≤ x)
  | "gt" => some (fun v => v > x)
  | "ge" => some (fun v => v ≥ x)
  | "eq" => some (fun v => v == x)
  | "ne" => some (fun v => v != x)
  | _ => none

/-- A parsed query. -/
inductive Qry
  | row (r : Nat) | count (r : Nat) | rows | topn | topnids (ids : List Nat) | topk (k : Nat)
  | trange (r : Nat) (views : List String)
  | val (c : Nat) | cmp (p : Int → Bool) | notnull | sum | min | max

def parseQry (f : Fld) (kind : String) (args : List String) : Option Qry :=
  let bit := f.ft != .int
  let cached := f.ft = .set || f.ft = .mutex
  match kind, args with
  | "row", [r] => if bit then (natStrict? r).map .row else none
  | "count", [r] => if bit then (natStrict? r).map .count else none
  | "rows", _ => if bit then some .rows else none
  | "topn", _ => if cached then some .topn else none
  | "topnids", [ids] => if cached then ((ids.splitOn ",").mapM natStrict?).map .topnids else none
  | "topk", [k] => if cached then (natStrict? k).bind (fun k => if k = 0 then none else some (.topk k)) else none
  | "trange", [r, a, b, vs] =>
    if f.ft = .time && a.length == 10 && b.length == 10 && allDigits a && allDigits b then
      (natStrict? r).map (fun r => .trange r (if vs == "-" then [] else vs.splitOn ","))
    else none
  | "val", [c] => if bit then none else (natStrict? c).map .val
  | "cmp", [op, x] => if bit then none else (intStrict? x).bind (fun x => (cmpOf op x).map .cmp)
  | "between", [a, b] =>
    if bit then none else
    match intStrict? a, intStrict? b with
    | some a, some b => some (.cmp (fun v => a ≤ v && v ≤ b))
    | _, _ => none
  | "notnull", _ => if bit then none else some .notnull
  | "sum", _ => if bit then none else some .sum
  | "min", _ => if bit then none else some .min
  | "max", _ => if bit then none else some .max
  | _, _ => none

/-- Answer in the id space of a state, with `back` mapping row/column ids to logical numbers. -/
def answer (f : Fld) (bits : BitSt) (iv : IntSt) (u : Univ) (rowId : Nat → Nat)
    (backR backC : Nat → Nat) (q : Qry) : String :=
  let cols := fun (l : List Nat) => showNats (sortNats (l.map backC))
  let pairs := fun (l : List (Nat × Nat)) =>
    let m := l.map (fun p => (backR p.1, p.2))
    showPairs ((sortNats (m.map (·.1))).filterMap (fun r => m.find? (fun p => p.1 == r)))
  match q with
  | .row r => cols (rowQ bits u "" (rowId r))
  | .count r => toString (countQ bits u (rowId r))
  | .rows => showNats (sortNats ((rowsQ f bits u).map backR))
  | .topn => pairs (topnQ bits u)
  | .topnids ids => pairs (topnIdsQ bits u (ids.map rowId))
  | .topk k => showNats (topkQ bits u k)
  | .trange r views => cols (trangeQ bits u (rowId r) views)
  | .val c => match valQ iv c with
    | some v => toString v
    | none => "null"
  | .cmp p => cols (cmpQ iv u p)
  | .notnull => cols (cmpQ iv u (fun _ => true))
  | .sum => showVC (sumQ iv u)
  | .min => showVC (minQ iv u)
  | .max => showVC (maxQ iv u)

def laneAnswer (f : Fld) (u : Univ) (ln : Lane) (q : Qry) : String :=
  let bits := if f.ft = .mutex || f.ft = .bool then mxBits ln.mx.fn else ln.bits.fn
  if ln.keyed then
    let rowKeys := f.ft != .bool && f.ft != .int
    let uk : Univ := {
      rows := if rowKeys then (List.range ln.trR.length).map (· + 1) else u.rows,
      cols := (List.range ln.trC.length).map (· + 1),
      views := u.views }
    let backR := fun id => if rowKeys then (Model.Tr.key? ln.trR id).getD 0 else id
    let backC := fun id => (Model.Tr.key? ln.trC id).getD 0
    let rowId := fun r => if rowKeys then Model.Tr.id ln.trR r else r
    answer f bits ln.iv.fn uk rowId backR backC q
  else answer f bits ln.iv.fn u id id id q

def step (s : St) (ws : List String) : St × Ans :=
  let bad := (s, ans "bad-op")
  match ws with
  | "field" :: rest =>
    if s.fld.isSome then bad else
    match parseField rest with
    | none => bad
    | some (f, ls) =>
      ({ s with fld := some f, lanes := ls.map (fun k => ({ keyed := k } : Lane)) }, ans "ok")
  | "w" :: paths :: op :: toks =>
    match s.fld, parseOp op with
    | some f, some op =>
      let ps := paths.splitOn ","
      if toks.isEmpty || ps.length != s.lanes.length then bad else
      if op == .clearstd && f.ft != .time then bad else
      match parseItems f toks with
      | none => bad
      | some items =>
        if items.isEmpty then bad else
        if f.ft = .bool && items.any (fun it => it.row > 1) then bad else
        if items.any (fun it => it.ts != "" && !(f.ft = .time && op == .set)) then bad else
        if items.any (fun it => it.row ≥ 4096) then bad else
        if f.ft = .int && items.any (fun it => it.val < f.min || it.val > f.max) then bad else
        if ps.any (fun p => !pathAllowed f op p) then bad else
        if (ps.zip s.lanes).any (fun pl => keyedPath pl.1 != pl.2.keyed) then bad else
        -- universe
        let rows := if f.ft = .int then s.u.rows else items.foldl (fun acc it => insSorted it.row acc) s.u.rows
        let cols := items.foldl (fun acc it => insSorted it.col acc) s.u.cols
        let views :=
          if f.ft = .time && op == .set then
            items.foldl (fun acc it => (setViews f it).foldl (fun acc v => if acc.contains v then acc else acc ++ [v]) acc) s.u.views
          else s.u.views
        let u : Univ := { rows := rows, cols := cols, views := views }
        let lanes := (ps.zip s.lanes).map (fun pl => writeLane f u views op items pl.1 pl.2)
        let s' := match f.ft with
          | .set | .time => { s with sbits := tabBits (Spec.writeBits f op items s.sbits.fn) ("" :: views) rows cols }
          | .mutex | .bool => { s with smx := tabMx (Spec.writeMx op items s.smx.fn) cols }
          | .int => { s with siv := tabIv (Spec.writeIv op items s.siv.fn) cols }
        ({ s' with lanes := lanes, u := u }, ans "ok")
    | _, _ => bad
  | "q" :: kind :: args =>
    match s.fld with
    | none => bad
    | some f =>
      match parseQry f kind args with
      | none => bad
      | some q =>
        let skipKeyed := match q with
          | .topnids _ | .val _ => true
          | _ => false
        let lanes := s.lanes.filter (fun ln => !(skipKeyed && ln.keyed))
        let answers := lanes.map (fun ln => laneAnswer f s.u ln q)
        let sbits := if f.ft = .mutex || f.ft = .bool then mxBits s.smx.fn else s.sbits.fn
        let spec := answer f sbits s.siv.fn s.u id id id q
        match answers with
        | [] => bad
        | a :: rest =>
          let m := if rest.all (· == a) then a else "MODEL-DIFF " ++ " | ".intercalate answers
          (s, ans2 m spec "paths")
  | _ => bad

def main : IO Unit := run ({} : St) step
