/-
C23 specification: the hand-written classification of API entry points (by NAME, independent of
the extracted table) and what the property demands of each class in each cluster state.
An entry point the translator finds that is not classified here makes `C23_classified` fail and
the driver answer `#spec unclassified-entry-point`.  Core Lean only.
-/
import PV.C23.Model
namespace PV.C23

inductive Class where
  | query | import_ | export_ | schema | antiEntropy      -- data and schema requests
  | resize                                                -- membership change request (starts a resize job)
  | clusterMessage | coordinator | transfer | abort       -- what a RESIZING cluster serves
  | informational                                         -- reads of node/cluster metadata, no state gate
  | lifecycle                                             -- not a request (API.Close)
  deriving DecidableEq, Repr

/-- Hand-written: entry-point name ↦ class. -/
def classify : String → Option Class
  | "Query" => some .query
  | "Index" => some .query
  | "Field" => some .query
  | "Views" => some .query
  | "ShardNodes" => some .query
  | "RecalculateCaches" => some .query
  | "Import" => some .import_
  | "ImportValue" => some .import_
  | "ImportRoaring" => some .import_
  | "TranslateKeys" => some .import_        -- creates key→id mappings in the translate store
  | "ExportCSV" => some .export_
  | "CreateIndex" => some .schema
  | "DeleteIndex" => some .schema
  | "CreateField" => some .schema
  | "DeleteField" => some .schema
  | "DeleteView" => some .schema
  | "DeleteAvailableShard" => some .schema
  | "ApplySchema" => some .schema
  | "FragmentBlocks" => some .antiEntropy
  | "FragmentBlockData" => some .antiEntropy
  | "IndexAttrDiff" => some .antiEntropy
  | "FieldAttrDiff" => some .antiEntropy
  | "RemoveNode" => some .resize
  | "ClusterMessage" => some .clusterMessage
  | "SetCoordinator" => some .coordinator
  | "FragmentData" => some .transfer
  | "GetTranslateData" => some .transfer    -- translate-log replication stream between nodes (read only)
  | "ResizeAbort" => some .abort
  | "Hosts" => some .informational
  | "Node" => some .informational
  | "Schema" => some .informational
  | "State" => some .informational
  | "Version" => some .informational
  | "Info" => some .informational
  | "MaxShards" => some .informational
  | "AvailableShardsByIndex" => some .informational
  | "StatsWithTags" => some .informational
  | "LongQueryTime" => some .informational
  | "Close" => some .lifecycle
  | _ => none

/-- "query, import, export, schema change and anti-entropy request". -/
def Class.isData : Class → Bool
  | .query | .import_ | .export_ | .schema | .antiEntropy => true
  | _ => false

/-- Classes whose requests must be refused in STARTING / RESIZING and admitted in NORMAL / DEGRADED.
A node-removal request is a data-moving request as well (and a second job must not start while
RESIZING, C22). -/
def Class.mustGate : Class → Bool
  | .resize => true
  | c => c.isData

/-- What a RESIZING cluster may serve. -/
def Class.servedWhileResizing : Class → Bool
  | .clusterMessage | .coordinator | .transfer | .abort => true
  | .informational | .lifecycle => true   -- no data or schema behind them; not requests of the gated kind
  | _ => false

def CState.serving : CState → Bool
  | .normal | .degraded => true
  | _ => false

/-- The specification's answer for a call; `none` = the property does not fix the answer for this
(class, state) pair (the driver then prints the model's answer). -/
def callSpec (s : CState) (name : String) : Option String :=
  match classify name with
  | none => some "unclassified-entry-point"
  | some c =>
    if c.mustGate then
      some (if s.serving then "admitted" else "refused unchanged")
    else match c with
      | .clusterMessage | .coordinator => some "admitted"
      | .transfer | .abort => if s = .resizing then some "admitted" else none
      | _ => none

end PV.C23
