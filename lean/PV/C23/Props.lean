/-
C23 property theorems.  Core Lean only.

The quantifier of C23 is "every (cluster state, API entry point) pair, and every exported API entry
point in the source".  That domain IS a finite table: `apiFns`, `methodsCommon/Normal/Resizing`,
`validTable` in Gen.lean are regenerated from the current api.go by harness/extract/gate before
every build of this file, so each `decide` below ranges over the whole domain (not a sample), and
the statements are lifted to all states `s : CState` and all `f ∈ apiFns`.

The classification of entry points (Spec.lean `classify`) is by name and hand-written; the
translator knows nothing about it.  A new or renamed entry point has no class → `C23_classified`
fails; an entry point that lost its gate, whose `validate` result is not checked, whose gate moved
under a class served in the wrong states, or that touches something before the gate fails the
corresponding theorem below.
-/
import PV.C23.Model
import PV.C23.Spec
namespace PV.C23

/-- Every exported method of `API` in the source has a class. -/
theorem C23_classified : ∀ f ∈ apiFns, (classify f.name).isSome = true := by decide

/-- The gate function itself and the table construction have the modelled shape:
`validate` = lookup of the method in `validAPIMethods[state]`, `appendMap` = union, and the table
has a row for each of the four states and no other. -/
theorem C23_validate_shape :
    validateShapeOk = true ∧ appendMapShapeOk = true ∧
    validTable.map (·.1) = CState.all.map CState.ident := by decide

/-- **Refused.**  While the cluster is STARTING or RESIZING every query, import, export, schema
change, anti-entropy request (and node-removal request) has a checked gate and the gate refuses. -/
theorem C23_refused (s : CState) (hs : s.serving = false) :
    ∀ f ∈ apiFns, ∀ c, classify f.name = some c → c.mustGate = true → gateRefuses s f = true := by
  cases s <;> first | (simp [CState.serving] at hs; done) | decide

/-- **Admitted.**  In NORMAL and DEGRADED every such request passes its gate. -/
theorem C23_admitted (s : CState) (hs : s.serving = true) :
    ∀ f ∈ apiFns, ∀ c, classify f.name = some c → c.mustGate = true → gateAdmits s f = true := by
  cases s <;> first | (simp [CState.serving] at hs; done) | decide

/-- **Resizing only.**  What a RESIZING cluster serves is exactly: cluster messages, coordinator
changes, shard data transfer, resize abort (plus the ungated informational reads, which reach
neither data nor schema). -/
theorem C23_resizing_only :
    ∀ f ∈ apiFns, ∀ c, classify f.name = some c →
      (admits .resizing f = c.servedWhileResizing) := by decide

/-- Cluster messages and coordinator changes are served in every state; transfer and abort are
served while RESIZING. -/
theorem C23_resizing_served (s : CState) :
    ∀ f ∈ apiFns, ∀ c, classify f.name = some c →
      ((c = .clusterMessage ∨ c = .coordinator) → gateAdmits s f = true) ∧
      ((c = .transfer ∨ c = .abort) → admits .resizing f = true) := by
  cases s <;> decide

/-- **Before touching data.**  Nothing but tracing calls precedes the gate of a gated entry point,
and no entry point has a `validate` call in an unchecked / nested position. -/
def tracingCalls : List String := ["tracing.StartSpanFromContext", "span.Finish", "span.LogKV"]

theorem C23_before_data :
    ∀ f ∈ apiFns, (∀ b ∈ f.before, b ∈ tracingCalls) ∧ f.note = "" := by decide

/-- The same fact with the SITE in the statement: the translator lists, with file:line and function,
every statement between function entry and the gate that is not span/tracing set-up (assignments,
calls, and conditionals that can skip or precede the gate) and every `validate` call that is not a
checked top-level gate.  When the list is not empty the failing goal printed by Lean is the list
itself, e.g. `["api.go:941 Import: if-statement … before the state gate calling …"] = []`. -/
theorem C23_before_data_sites : gateOffences = [] := by
  unfold gateOffences; decide

/-- Every API method the HTTP layer calls is an extracted, classified request entry point. -/
theorem C23_handlers_classified :
    ∀ n ∈ handlerCalls, (apiFns.any (fun f => f.name = n)) = true ∧
      (classify n).isSome = true ∧ classify n ≠ some .lifecycle := by decide

/-- The protocol answer of the model (`callModel`, what pm_c23 prints) agrees with the
specification wherever the specification fixes an answer: for every state and every extracted
entry point.  (This is the statement the correspondence harness re-checks on the real server.) -/
theorem C23_model_meets_spec (s : CState) :
    ∀ f ∈ apiFns, ∀ a, callSpec s f.name = some a → callModel s f.name = a := by
  cases s <;> decide

/-! Non-vacuity: the classes are inhabited in the extracted table, and the gate does discriminate. -/
example : (apiFns.filter (fun f => (classify f.name).any Class.mustGate)).length ≥ 20 := by decide
example : (apiFns.filter (fun f => (classify f.name) == some Class.transfer)).length ≥ 1 := by decide
example : allowed .normal .apiQuery = true ∧ allowed .resizing .apiQuery = false ∧
    allowed .resizing .apiFragmentData = true ∧ allowed .normal .apiFragmentData = false := by decide

end PV.C23
