/-
C23 model of the state gate of api.go: `API.validate` looks the method class up in
`validAPIMethods[cluster state]`.  All tables come from Gen.lean, which the translator
(harness/extract/gate) regenerates from the current api.go on every check.  Core Lean only.
-/
import PV.C23.Gen
namespace PV.C23

/-- The four cluster states (cluster.go `ClusterState*`). -/
inductive CState where
  | starting | normal | degraded | resizing
  deriving DecidableEq, Repr

def CState.all : List CState := [.starting, .normal, .degraded, .resizing]

/-- The Go identifier used as key in `validAPIMethods`. -/
def CState.ident : CState → String
  | .starting => "ClusterStateStarting"
  | .normal => "ClusterStateNormal"
  | .degraded => "ClusterStateDegraded"
  | .resizing => "ClusterStateResizing"

/-- The protocol / wire text of the state (the value of the Go constant). -/
def CState.text : CState → String
  | .starting => "STARTING"
  | .normal => "NORMAL"
  | .degraded => "DEGRADED"
  | .resizing => "RESIZING"

def CState.ofText? (s : String) : Option CState :=
  CState.all.find? (fun c => c.text = s)

/-- `validAPIMethods[state]`: a missing key is Go's nil map, in which nothing is found. -/
def allowedSets (s : CState) : List (List ApiMethod) :=
  match validTable.find? (fun r => r.1 = s.ident) with
  | some r => r.2
  | none => []

/-- `_, ok := validAPIMethods[state][f]`. -/
def allowed (s : CState) (m : ApiMethod) : Bool :=
  (allowedSets s).any (fun set => set.contains m)

/-- Does the entry point get past its gate in state `s`?  An entry point without a (checked) gate
is always admitted. -/
def admits (s : CState) (f : ApiFn) : Bool :=
  match f.gate with
  | none => true
  | some g => allowed s g

/-- The entry point has a gate and the gate refuses in state `s`. -/
def gateRefuses (s : CState) (f : ApiFn) : Bool :=
  match f.gate with
  | none => false
  | some g => !allowed s g

/-- The entry point has a gate and the gate admits in state `s`. -/
def gateAdmits (s : CState) (f : ApiFn) : Bool :=
  match f.gate with
  | none => false
  | some g => allowed s g

def findFn (name : String) : Option ApiFn := apiFns.find? (fun f => f.name = name)

/-- What a call of entry point `name` in state `s` answers in the protocol. -/
def callModel (s : CState) (name : String) : String :=
  match findFn name with
  | none => "no-such-entry-point"
  | some f => if admits s f then "admitted" else "refused unchanged"

end PV.C23
