/-
pm_c23: model driver for C23.  Ops (one per line):
  call <STARTING|NORMAL|DEGRADED|RESIZING> <EntryPointName> [<request shape>]
Answer: `admitted` (the call got past the state gate) or `refused unchanged` (method-not-allowed
error and data untouched).  `#spec` carries what the property demands for the entry point's class.
-/
import PV.Common.Proto
import PV.C23.Model
import PV.C23.Spec
open PV.Proto PV.C23

def step (u : Unit) (ws : List String) : Unit × Ans :=
  match ws with
  | ["call", st, name, _variant] => step u ["call", st, name]   -- the request shape never matters to the gate
  | ["call", st, name] =>
    match CState.ofText? st with
    | none => (u, ans "bad-op")
    | some s =>
      let m := callModel s name
      match callSpec s name with
      | none => (u, ans m)
      | some sp => (u, ans2 m sp ("gate-" ++ name))
  | _ => (u, ans "bad-op")

def main : IO Unit := run () step
