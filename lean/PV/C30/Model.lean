/-
C30 model, part 2: export and import of one set field.

  API.ExportCSV            api.go        per shard: forEachBit order (row, column), key translation
                                         (TranslateRowToString / TranslateColumnToString) or decimal
  ExportCommand.Run        ctl/export.go shards 0..maxShard(index), outputs concatenated
  ImportCommand.bufferBits ctl/import.go record[0]=="" skipped, column count, id parsing, third
                                         column, buffer of BufferSize bits
  ImportCommand.importBits ctl/import.go keyed -> ImportK (whole batch to the coordinator),
                                         unkeyed -> Bits.GroupByShard + Import per shard
  Bits.RowIDs/RowKeys/...  http/client.go  a batch "has keys" iff SOME key in it is non-empty
  API.Import               api.go        key checks, translation (ids allocated in order of first
                                         appearance), regrouping by shard, field.Import
A field is: its two key options, the two translate stores, the bits of the standard view (kept
sorted by (row, column), which is forEachBit's order inside every shard) and the index's max shard.
uint64 ids are `Nat`; `strconv.ParseUint` rejects values >= 2^64.  Not modelled: HTTP/protobuf
transport, the existence field, timestamps (a non-empty third CSV column gives `.timestamp`),
the per-shard sort of GroupByShard (immaterial for a set of bits).  Core Lean only.
-/
import PV.C30.Csv
namespace PV.C30

def SW : Nat := 1048576   -- ShardWidth = 2^20

/-! ### decimal ids -/

/-- `strconv.FormatUint(n, 10)`. -/
def toDec (n : Nat) : Str := Nat.toDigits 10 n

/-- `strconv.ParseUint(s, 10, 64)`: non-empty, ASCII digits only, value < 2^64. -/
def parseUint (s : Str) : Option Nat :=
  if s = [] then none
  else if s.all Char.isDigit then
    let v := Nat.ofDigitChars 10 s 0
    if v < 2 ^ 64 then some v else none
  else none

/-! ### translate store (one namespace): the key of id `i+1` is `keys[i]` -/

abbrev Store := List Str

/-- `TranslateRowToString` / `TranslateColumnToString`: "" for an unknown id. -/
def Store.keyOf (s : Store) (id : Nat) : Str :=
  if id = 0 then [] else s.getD (id - 1) []

/-- id of a key, if allocated. -/
def Store.idOf : Store → Str → Option Nat
  | [], _ => none
  | x :: xs, k => if x = k then some 1 else (Store.idOf xs k).map (· + 1)

/-- `TranslateRowsToUint64` / `TranslateColumnsToUint64`: known keys keep their id, unknown keys get
the next ids in order of first appearance. -/
def Store.translate (s : Store) : List Str → Store × List Nat
  | [] => (s, [])
  | k :: ks =>
    match s.idOf k with
    | some id => let (s', ids) := Store.translate s ks; (s', id :: ids)
    | none => let (s', ids) := Store.translate (s ++ [k]) ks; (s', (s.length + 1) :: ids)

/-! ### field state -/

structure Bit where
  row : Nat
  col : Nat
deriving DecidableEq, Repr

def Bit.lt (a b : Bit) : Bool := a.row < b.row || (a.row = b.row && a.col < b.col)

/-- Ordered insert without duplicates (the fragment's storage is a set ordered by position). -/
def insertBit (b : Bit) : List Bit → List Bit
  | [] => [b]
  | x :: xs => if b = x then x :: xs else if b.lt x then b :: x :: xs else x :: insertBit b xs

structure Field where
  rowKeys : Bool        -- field option `keys`
  colKeys : Bool        -- index option `keys`
  rows : Store          -- row key store of (index, field)
  cols : Store          -- column key store of the index
  bits : List Bit       -- standard view, all shards, sorted by (row, col)
  maxShard : Nat        -- max shard of the index (`MaxShardByIndex`)
deriving DecidableEq, Repr

def Field.rowLabel (f : Field) (id : Nat) : Str := if f.rowKeys then f.rows.keyOf id else toDec id
def Field.colLabel (f : Field) (id : Nat) : Str := if f.colKeys then f.cols.keyOf id else toDec id

/-- What a field holds, in the terms a user sees: (row label, column label) per bit. -/
def Field.contents (f : Field) : List (Str × Str) :=
  f.bits.map (fun b => (f.rowLabel b.row, f.colLabel b.col))

/-- `field.Import` on the standard view: set every bit; the index's max shard follows. -/
def Field.setBits (f : Field) (bs : List Bit) : Field :=
  { f with bits := bs.foldl (fun acc b => insertBit b acc) f.bits,
           maxShard := bs.foldl (fun m b => max m (b.col / SW)) f.maxShard }

/-! ### export -/

/-- `API.ExportCSV` for one shard: the records handed to `csv.Writer.Write`. -/
def Field.exportShard (f : Field) (shard : Nat) : List (List Str) :=
  (f.bits.filter (fun b => b.col / SW = shard)).map (fun b => [f.rowLabel b.row, f.colLabel b.col])

/-- Shards `0, 1, .., n-1`. -/
def shardRange : Nat → List Nat
  | 0 => []
  | n + 1 => shardRange n ++ [n]

/-- `ExportCommand.Run`: `for shard := 0; shard <= maxShard; shard++`. -/
def Field.exportRecords (f : Field) : List (List Str) :=
  (shardRange (f.maxShard + 1)).flatMap f.exportShard

/-- `cw := csv.NewWriter(w)` with the code's writer settings. -/
def Field.exportCSV (f : Field) : Str := writeAllW codeWriter f.exportRecords

/-! ### import -/

inductive ImpErr where
  | csv (e : CsvErr)   -- "reading"
  | columnCount        -- "bad column count"
  | rowId              -- "invalid row id"
  | colId              -- "invalid column id"
  | timestamp          -- third column non-empty: outside the model
  | server             -- the server refused the batch (ImportK / Import returned an error)
deriving DecidableEq, Repr

/-- `pilosa.Bit` as filled by bufferBits. -/
structure IBit where
  rowKey : Str := []
  rowID : Nat := 0
  colKey : Str := []
  colID : Nat := 0
deriving DecidableEq, Repr

inductive RecOut where
  | skip
  | err (e : ImpErr)
  | bit (b : IBit)
deriving DecidableEq, Repr

/-- The body of the read loop of `bufferBits` for one CSV record. -/
def recToBit (rowKeys colKeys : Bool) (r : List Str) : RecOut :=
  match r with
  | [] => .skip                     -- cannot happen: the reader never returns an empty record
  | r0 :: rest =>
    if r0 = [] then .skip           -- `if record[0] == "" { continue }`
    else match rest with
      | [] => .err .columnCount
      | r1 :: rest2 =>
        let rowPart : Option (Str × Nat) :=
          if rowKeys then some (r0, 0) else (parseUint r0).map (fun n => ([], n))
        match rowPart with
        | none => .err .rowId
        | some (rk, rid) =>
          let colPart : Option (Str × Nat) :=
            if colKeys then some (r1, 0) else (parseUint r1).map (fun n => ([], n))
          match colPart with
          | none => .err .colId
          | some (ck, cid) =>
            match rest2 with
            | t :: _ => if t = [] then .bit ⟨rk, rid, ck, cid⟩ else .err .timestamp
            | [] => .bit ⟨rk, rid, ck, cid⟩

/-- Distinct shards of a batch (order of first appearance; Go iterates a map). -/
def shardsOf : List Bit → List Nat
  | [] => []
  | b :: bs => let r := shardsOf bs; if (b.col / SW) ∈ r then r else (b.col / SW) :: r

/-- `Bits.GroupByShard` / the `m[shard]` map of API.Import, then one `field.Import` per shard. -/
def importGrouped (f : Field) (bs : List Bit) : Field :=
  (shardsOf bs).foldl (fun f s => f.setBits (bs.filter (fun b => b.col / SW = s))) f

/-- `http.Bits.HasRowKeys` / `HasColumnKeys`: a batch "has keys" iff some key in it is non-empty. -/
def hasRowKeys (a : List IBit) : Bool := a.any (fun b => b.rowKey ≠ [])
def hasColKeys (a : List IBit) : Bool := a.any (fun b => b.colKey ≠ [])

/-- `Bits.RowIDs/RowKeys/ColumnIDs/ColumnKeys` as put into the ImportRequest by marshalImportPayload. -/
def reqRowIDs (a : List IBit) : List Nat := if hasRowKeys a then [] else a.map (·.rowID)
def reqRowKeys (a : List IBit) : List Str := if hasRowKeys a then a.map (·.rowKey) else []
def reqColIDs (a : List IBit) : List Nat := if hasColKeys a then [] else a.map (·.colID)
def reqColKeys (a : List IBit) : List Str := if hasColKeys a then a.map (·.colKey) else []

/-- `ImportCommand.importBits` for one batch, through `ImportK` and `API.Import` when the field or
the index uses keys, through `GroupByShard` + `Import` otherwise. -/
def importBits (f : Field) (a : List IBit) : Field × Option ImpErr :=
  if f.colKeys || f.rowKeys then
    -- API.Import, key translation
    if f.rowKeys && reqRowIDs a ≠ [] then (f, some .server)   -- "row ids cannot be used because field uses string keys"
    else
      let tr : Store × List Nat :=
        if f.rowKeys then f.rows.translate (reqRowKeys a) else (f.rows, reqRowIDs a)
      let f1 := { f with rows := tr.1 }
      if f.colKeys && reqColIDs a ≠ [] then (f1, some .server) -- "column ids cannot be used because index uses string keys"
      else
        let tc : Store × List Nat :=
          if f.colKeys then f.cols.translate (reqColKeys a) else (f.cols, reqColIDs a)
        let f2 := { f1 with cols := tc.1 }
        -- `for i, colID := range req.ColumnIDs { Bit{RowID: req.RowIDs[i], ColumnID: colID} }`
        if tr.2.length < tc.2.length then (f2, some .server)   -- index out of range: the handler recovers, 500
        else (importGrouped f2 ((tr.2.zip tc.2).map (fun p => ⟨p.1, p.2⟩)), none)
  else
    (importGrouped f (a.map (fun b => ⟨b.rowID, b.colID⟩)), none)

/-- The read loop of `bufferBits` over the records the reader returns, with the buffer `buf`. -/
def bufferLoop (bufSize : Nat) : Field → List IBit → List (List Str) → Field × List IBit × Option ImpErr
  | f, buf, [] => (f, buf, none)
  | f, buf, r :: rs =>
    match recToBit f.rowKeys f.colKeys r with
    | .skip => bufferLoop bufSize f buf rs
    | .err e => (f, buf, some e)
    | .bit b =>
      let buf' := buf ++ [b]
      if buf'.length = bufSize then
        match importBits f buf' with
        | (f', some e) => (f', [], some e)
        | (f', none) => bufferLoop bufSize f' [] rs
      else bufferLoop bufSize f buf' rs

/-- `ImportCommand.Run` with one path holding `text`, into field `f`. -/
def importCSV (bufSize : Nat) (f : Field) (text : Str) : Field × Option ImpErr :=
  let p := parseG codeReader text   -- `csv.NewReader`, `FieldsPerRecord = -1`, nothing else set
  match bufferLoop bufSize f [] p.recs with
  | (f', _, some e) => (f', some e)
  | (f', buf, none) =>
    match p.err with
    | some e => (f', some (.csv e))          -- `return errors.Wrap(err, "reading")`: no final flush
    | none => importBits f' buf              -- "If there are still bits in the buffer then flush them."

/-- An empty field of the same type as `f` whose index already knows the column keys `cols`. -/
def Field.emptyLike (f : Field) (cols : Store) : Field :=
  { rowKeys := f.rowKeys, colKeys := f.colKeys, rows := [], cols := cols, bits := [], maxShard := 0 }

end PV.C30
