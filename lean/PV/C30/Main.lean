/-
pm_c30: model driver for C30.  Strings travel as dot-separated decimal code points (`e` = empty).

  csvw <recs>                       recs = rec|rec|..  rec = fld;fld;..     (`-` = no record)
      -> the text `csv.Writer` produces (code points)
  csvr <text>                       -> `ok <recs>` / `err:<bare-quote|quote> <recs read before>`
  csvrt <recs>                      -> read (write recs)   (C30_csv says: = recs when every record is recOK)
  pu <str>                          -> `ok <n>` / `err`   strconv.ParseUint(str, 10, 64)
  rt <rk> <ck> <buf> <other> <bits> bits = row:col;row:col;..  (`-` none), row/col = `k<str>` when
      that dimension has keys else `n<decimal id>`; in the listed order the source is filled (key ids
      are allocated in order of first appearance); `other` = a column set in another field of the
      index (0 = none; raises the index's max shard); buf = ImportCommand.BufferSize.
      -> `csv=<text> imp=<ok|err:..> dst=<row:col;..>` (dst = destination contents, sorted)
      #spec = same csv, imp=ok, dst = source contents                            (C30_roundtrip)
  rtc <rk> <ck> <buf> <replicas> <bits>   the same round trip on a 3-node cluster with `replicas` copies (keyed fields:
      the import goes through the coordinator); -> `csv=.. imp=.. rep=<shard>:<pairs>|<pairs>;.. stray=<n>`:
      per destination shard the contents found on each of its owners (owner order by node id), and the
      number of bits found on nodes that do not own their shard.  Model: delivered to all owners.
  imp <rk> <ck> <buf> <text>        import arbitrary CSV text into an empty field
      -> `imp=<ok|err:..> dst=<..>`
-/
import PV.Common.Proto
import PV.C30.Model
import PV.C30.Spec
open PV.Proto PV.C30

def decStr (s : String) : Option Str :=
  if s = "e" then some [] else (s.splitOn ".").mapM (fun t => t.toNat?.map Char.ofNat)

def encStr (s : Str) : String :=
  if s.isEmpty then "e" else ".".intercalate (s.map (fun c => toString c.toNat))

def decRecs (s : String) : Option (List (List Str)) :=
  if s = "-" then some [] else (s.splitOn "|").mapM (fun r => (r.splitOn ";").mapM decStr)

def encRecs (rs : List (List Str)) : String :=
  if rs.isEmpty then "-" else "|".intercalate (rs.map (fun r => ";".intercalate (r.map encStr)))

def encPairs (ps : List (Str × Str)) : String :=
  if ps.isEmpty then "-" else ";".intercalate (ps.map (fun p => encStr p.1 ++ ":" ++ encStr p.2))

def showCsvErr : CsvErr → String
  | .bareQuote => "bare-quote"
  | .quote => "quote"
  | .unsupportedSettings => "unsupported-settings"

def showImp : Option ImpErr → String
  | none => "ok"
  | some (.csv e) => "err:csv-" ++ showCsvErr e
  | some .columnCount => "err:column-count"
  | some .rowId => "err:row-id"
  | some .colId => "err:col-id"
  | some .timestamp => "err:timestamp-unmodelled"
  | some .server => "err:server"

/-- A label on the wire: `k<str>` or `n<decimal>`. -/
inductive Lab where
  | key (s : Str)
  | num (n : Nat)

def decLab (s : String) : Option Lab :=
  match s.toList with
  | 'k' :: r => (decStr (String.ofList r)).map .key
  | 'n' :: r => (String.ofList r).toNat?.map .num
  | _ => none

def decBits (s : String) : Option (List (Lab × Lab)) :=
  if s = "-" then some [] else
  (s.splitOn ";").mapM (fun b =>
    match b.splitOn ":" with
    | [r, c] => do pure (← decLab r, ← decLab c)
    | _ => none)

/-- Fill the source the way the harness does: one `API.Import` carrying all bits in the listed
order (row keys translated first, then column keys), then one bit in another field at `other`. -/
def buildSource (rk ck : Bool) (other : Nat) (bits : List (Lab × Lab)) : Option Field := do
  let rowsOK := bits.all (fun b => match b.1 with | .key _ => rk | .num _ => !rk)
  let colsOK := bits.all (fun b => match b.2 with | .key _ => ck | .num _ => !ck)
  if !(rowsOK && colsOK) then none
  let (rows, rowIDs) :=
    if rk then Store.translate [] (bits.map (fun b => match b.1 with | .key s => s | .num _ => []))
    else ([], bits.map (fun b => match b.1 with | .num n => n | .key _ => 0))
  let (cols, colIDs) :=
    if ck then Store.translate [] (bits.map (fun b => match b.2 with | .key s => s | .num _ => []))
    else ([], bits.map (fun b => match b.2 with | .num n => n | .key _ => 0))
  let f0 : Field := { rowKeys := rk, colKeys := ck, rows := rows, cols := cols, bits := [], maxShard := 0 }
  let f1 := importGrouped f0 ((rowIDs.zip colIDs).map (fun p => ⟨p.1, p.2⟩))
  pure { f1 with maxShard := max f1.maxShard (other / SW) }

def hasCRLF (s : Str) : Bool := !noCRLF s

/-- Which recorded defect class an input falls in ("" = none). -/
def classify (rk ck : Bool) (src : Field) : String :=
  let c := src.contents
  if (rk && c.any (fun p => hasCRLF p.1)) || (ck && c.any (fun p => hasCRLF p.2)) then "key-crlf-folded"
  else if rk && c.any (fun p => p.1 = []) then "empty-row-key-skipped"
  else if ck && c.any (fun p => p.2 = []) then "empty-col-key-batch-rejected"
  else ""

def bool? (s : String) : Option Bool :=
  if s = "1" then some true else if s = "0" then some false else none

def step (_u : Unit) (ws : List String) : Unit × Ans :=
  let bad := ((), ans "bad-op")
  match ws with
  | ["csvw", rs] =>
    match decRecs rs with
    | some recs => ((), ans (encStr (writeAllW codeWriter recs)))
    | none => bad
  | ["csvr", t] =>
    match decStr t with
    | some text =>
      let p := parseG codeReader text
      match p.err with
      | none => ((), ans ("ok " ++ encRecs p.recs))
      | some e => ((), ans ("err:" ++ showCsvErr e ++ " " ++ encRecs p.recs))
    | none => bad
  | ["csvrt", rs] =>
    match decRecs rs with
    | some recs =>
      let p := parseG codeReader (writeAllW codeWriter recs)
      let m := match p.err with
        | none => "ok " ++ encRecs p.recs
        | some e => "err:" ++ showCsvErr e ++ " " ++ encRecs p.recs
      ((), ans m)
    | none => bad
  | ["pu", t] =>
    match decStr t with
    | some s =>
      match parseUint s with
      | some n => ((), ans ("ok " ++ String.ofList (toDec n)))
      | none => ((), ans "err")
    | none => bad
  | ["rt", rk, ck, buf, other, bits] =>
    match bool? rk, bool? ck, buf.toNat?, other.toNat?, decBits bits with
    | some rk, some ck, some buf, some other, some bits =>
      match buildSource rk ck other bits with
      | none => bad
      | some src =>
        let text := src.exportCSV
        let (dst, err) := importCSV buf (src.emptyLike []) text
        let csv := "csv=" ++ encStr text
        ((), ans2 (csv ++ " imp=" ++ showImp err ++ " dst=" ++ encPairs (Spec.canon dst.contents))
                  (csv ++ " imp=ok dst=" ++ encPairs (Spec.expected src)) (classify rk ck src))
    | _, _, _, _, _ => bad
  | ["rtc", rk, ck, buf, reps, bits] =>
    match bool? rk, bool? ck, buf.toNat?, reps.toNat?, decBits bits with
    | some rk, some ck, some buf, some reps, some bits =>
      match buildSource rk ck 0 bits with
      | none => bad
      | some src =>
        let text := src.exportCSV
        let (dst, err) := importCSV buf (src.emptyLike []) text
        let showRep (l : List (Nat × List (List (Str × Str)))) : String :=
          if l.isEmpty then "-" else ";".intercalate (l.map (fun p =>
            toString p.1 ++ ":" ++ "|".intercalate (p.2.map (fun ps => (encPairs ps).replace ";" "+"))))
        let m := "csv=" ++ encStr text ++ " imp=" ++ showImp err ++ " rep=" ++ showRep (Spec.perReplica reps dst) ++ " stray=0"
        -- spec: the same, and the union over the shards is the source's contents
        let okAll := Spec.canon dst.contents = Spec.expected src && err.isNone
        ((), ans2 m (if okAll then m else "csv=" ++ encStr text ++ " imp=ok rep=<every owner holds the source pairs of its shard> stray=0")
               (classify rk ck src))
    | _, _, _, _, _ => bad
  | ["imp", rk, ck, buf, t] =>
    match bool? rk, bool? ck, buf.toNat?, decStr t with
    | some rk, some ck, some buf, some text =>
      let empty : Field := { rowKeys := rk, colKeys := ck, rows := [], cols := [], bits := [], maxShard := 0 }
      let (dst, err) := importCSV buf empty text
      ((), ans ("imp=" ++ showImp err ++ " dst=" ++ encPairs (Spec.canon dst.contents)))
    | _, _, _, _ => bad
  | _ => bad

def main : IO Unit := run () step
