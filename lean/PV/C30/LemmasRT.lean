/-
C30 helper lemmas, part 2: translate store, bit sets, one import batch, the buffer loop.
Core Lean only.
-/
import PV.C30.Model
import PV.C30.LemmasCsv
namespace PV.C30
open List

/-! ### decimal ids -/

theorem toDec_ne_nil (n : Nat) : toDec n ≠ [] := Nat.toDigits_ne_nil

theorem toDec_digits (n : Nat) : (toDec n).all Char.isDigit = true := by
  rw [all_eq_true]
  intro c hc
  exact Nat.isDigit_of_mem_toDigits (by decide) (by decide) hc

theorem parseUint_toDec (n : Nat) (h : n < 2 ^ 64) : parseUint (toDec n) = some n := by
  unfold parseUint
  rw [if_neg (toDec_ne_nil n), if_pos (toDec_digits n)]
  simp only [toDec, Nat.ofDigitChars_ten_toDigits]
  rw [if_pos h]

theorem noCRLF_of_no_cr : ∀ (s : Str), (∀ c ∈ s, c ≠ '\r') → noCRLF s = true
  | [], _ => rfl
  | c :: cs, h => by
    have hc : c ≠ '\r' := h c (by simp)
    simp only [noCRLF, Bool.and_eq_true, Bool.not_eq_true', Bool.and_eq_false_iff,
      decide_eq_false_iff_not]
    exact ⟨Or.inl hc, noCRLF_of_no_cr cs (fun x hx => h x (by simp [hx]))⟩

theorem noCRLF_toDec (n : Nat) : noCRLF (toDec n) = true := by
  apply noCRLF_of_no_cr
  intro c hc h
  subst h
  have := Nat.isDigit_of_mem_toDigits (b := 10) (by decide) (by decide) hc
  revert this; decide

/-! ### translate store -/

theorem Store.idOf_spec : ∀ (s : Store) (k : Str) (id : Nat), s.idOf k = some id →
    1 ≤ id ∧ id ≤ s.length ∧ s.keyOf id = k
  | [], _, _, h => by simp [Store.idOf] at h
  | x :: xs, k, id, h => by
    simp only [Store.idOf] at h
    split at h
    · rename_i hx
      cases h
      simp [Store.keyOf, hx]
    · cases h2 : Store.idOf xs k with
      | none => simp [h2] at h
      | some j =>
        simp only [h2, Option.map_some, Option.some.injEq] at h
        subst h
        obtain ⟨h1, h3, h4⟩ := Store.idOf_spec xs k j h2
        refine ⟨by omega, by simp; omega, ?_⟩
        have : j + 1 - 1 = (j - 1) + 1 := by omega
        simp only [Store.keyOf] at h4 ⊢
        rw [if_neg (by omega)] at h4
        rw [if_neg (by omega), this]
        simpa using h4

theorem Store.idOf_append_some : ∀ (s t : Store) (k : Str) (id : Nat), s.idOf k = some id →
    (s ++ t).idOf k = some id
  | [], _, _, _, h => by simp [Store.idOf] at h
  | x :: xs, t, k, id, h => by
    simp only [Store.idOf, cons_append] at h ⊢
    split
    · rename_i hx; simpa [hx] using h
    · rename_i hx
      rw [if_neg hx] at h
      cases h2 : Store.idOf xs k with
      | none => simp [h2] at h
      | some j =>
        rw [Store.idOf_append_some xs t k j h2]
        simpa [h2] using h

theorem Store.idOf_append_new : ∀ (s t : Store) (k : Str), s.idOf k = none →
    (s ++ k :: t).idOf k = some (s.length + 1)
  | [], _, _, _ => by simp [Store.idOf]
  | x :: xs, t, k, h => by
    simp only [Store.idOf, cons_append] at h ⊢
    split at h
    · cases h
    · rename_i hx
      rw [if_neg hx]
      cases h2 : Store.idOf xs k with
      | some j => simp [h2] at h
      | none => rw [Store.idOf_append_new xs t k h2]; simp

/-- Id of a key once it is known to be allocated. -/
def Store.idD (s : Store) (k : Str) : Nat := (s.idOf k).getD 0

theorem Store.translate_spec : ∀ (keys : List Str) (s : Store),
    (∃ t, (s.translate keys).1 = s ++ t) ∧
    (s.translate keys).2 = keys.map (s.translate keys).1.idD ∧
    (∀ k ∈ keys, ∃ id, (s.translate keys).1.idOf k = some id)
  | [], s => ⟨⟨[], by simp [Store.translate]⟩, by simp [Store.translate], by simp⟩
  | k :: ks, s => by
    cases hk : s.idOf k with
    | some id =>
      obtain ⟨⟨t, ht⟩, h2, h3⟩ := Store.translate_spec ks s
      have e : s.translate (k :: ks) = ((s.translate ks).1, id :: (s.translate ks).2) := by
        simp [Store.translate, hk]
      have hid : (s.translate ks).1.idOf k = some id := by
        rw [ht]; exact Store.idOf_append_some s t k id hk
      rw [e]
      refine ⟨⟨t, ht⟩, ?_, ?_⟩
      · simp only [map_cons, Store.idD, hid, Option.getD_some]
        rw [h2]
      · intro x hx
        rcases mem_cons.mp hx with rfl | hx
        · exact ⟨id, hid⟩
        · exact h3 x hx
    | none =>
      obtain ⟨⟨t, ht⟩, h2, h3⟩ := Store.translate_spec ks (s ++ [k])
      have e : s.translate (k :: ks) =
          (((s ++ [k]).translate ks).1, (s.length + 1) :: ((s ++ [k]).translate ks).2) := by
        simp [Store.translate, hk]
      have hid : ((s ++ [k]).translate ks).1.idOf k = some (s.length + 1) := by
        rw [ht, append_assoc]; exact Store.idOf_append_new s _ k hk
      rw [e]
      refine ⟨⟨[k] ++ t, by rw [ht, append_assoc]⟩, ?_, ?_⟩
      · simp only [map_cons, Store.idD, hid, Option.getD_some]
        rw [h2]
      · intro x hx
        rcases mem_cons.mp hx with rfl | hx
        · exact ⟨_, hid⟩
        · exact h3 x hx

theorem Store.keyOf_append (s t : Store) (id : Nat) (h : id ≤ s.length) :
    (s ++ t).keyOf id = s.keyOf id := by
  unfold Store.keyOf
  split
  · rfl
  · rename_i h0
    have : id - 1 < s.length := by omega
    simp [List.getD, List.getElem?_append_left this]

theorem Store.keyOf_idD (s : Store) (k : Str) (h : ∃ id, s.idOf k = some id) :
    s.keyOf (s.idD k) = k ∧ s.idD k ≤ s.length := by
  obtain ⟨id, hid⟩ := h
  obtain ⟨_, h2, h3⟩ := Store.idOf_spec s k id hid
  simp [Store.idD, hid, h2, h3]

/-! ### bit sets -/

theorem mem_insertBit (x b : Bit) : ∀ (l : List Bit), x ∈ insertBit b l ↔ x = b ∨ x ∈ l
  | [] => by simp [insertBit]
  | y :: ys => by
    simp only [insertBit]
    split
    · rename_i h; subst h
      constructor
      · intro hx; exact Or.inr hx
      · rintro (rfl | hx)
        · simp
        · exact hx
    · split
      · simp
      · simp only [mem_cons, mem_insertBit x b ys]
        constructor
        · rintro (h | h | h) <;> simp [h]
        · rintro (h | h | h) <;> simp [h]

theorem mem_foldl_insertBit (x : Bit) : ∀ (bs acc : List Bit),
    x ∈ bs.foldl (fun acc b => insertBit b acc) acc ↔ x ∈ bs ∨ x ∈ acc
  | [], acc => by simp
  | b :: bs, acc => by
    simp only [foldl_cons, mem_foldl_insertBit x bs, mem_insertBit, mem_cons]
    constructor
    · rintro (h | h | h) <;> simp [h]
    · rintro ((h | h) | h) <;> simp [h]

theorem mem_setBits (f : Field) (bs : List Bit) (x : Bit) :
    x ∈ (f.setBits bs).bits ↔ x ∈ bs ∨ x ∈ f.bits := by
  simp [Field.setBits, mem_foldl_insertBit]

theorem mem_shardsOf : ∀ (bs : List Bit) (b : Bit), b ∈ bs → b.col / SW ∈ shardsOf bs
  | [], _, h => by cases h
  | y :: ys, b, h => by
    simp only [shardsOf]
    rcases mem_cons.mp h with rfl | h
    · split
      · assumption
      · simp
    · have := mem_shardsOf ys b h
      split
      · exact this
      · exact mem_cons_of_mem _ this

/-- `importGrouped` restricted to a list of shards. -/
def importShards (bs : List Bit) (L : List Nat) (f : Field) : Field :=
  L.foldl (fun f s => f.setBits (bs.filter (fun b => b.col / SW = s))) f

theorem importShards_spec (bs : List Bit) : ∀ (L : List Nat) (f : Field),
    (importShards bs L f).rowKeys = f.rowKeys ∧ (importShards bs L f).colKeys = f.colKeys ∧
    (importShards bs L f).rows = f.rows ∧ (importShards bs L f).cols = f.cols ∧
    ∀ x, x ∈ (importShards bs L f).bits ↔ (x ∈ bs ∧ x.col / SW ∈ L) ∨ x ∈ f.bits
  | [], f => by simp [importShards]
  | s :: L, f => by
    obtain ⟨h1, h2, h3, h4, h5⟩ :=
      importShards_spec bs L (f.setBits (bs.filter (fun b => b.col / SW = s)))
    simp only [importShards, foldl_cons] at h1 h2 h3 h4 h5 ⊢
    refine ⟨h1, h2, h3, h4, ?_⟩
    intro x
    rw [h5 x, mem_setBits]
    simp only [mem_filter, decide_eq_true_eq, mem_cons]
    constructor
    · rintro (⟨h, hl⟩ | ⟨h, hs⟩ | h)
      · exact Or.inl ⟨h, Or.inr hl⟩
      · exact Or.inl ⟨h, Or.inl hs⟩
      · exact Or.inr h
    · rintro (⟨h, hs | hl⟩ | h)
      · exact Or.inr (Or.inl ⟨h, hs⟩)
      · exact Or.inl ⟨h, hl⟩
      · exact Or.inr (Or.inr h)

theorem importGrouped_spec (f : Field) (bs : List Bit) :
    (importGrouped f bs).rowKeys = f.rowKeys ∧ (importGrouped f bs).colKeys = f.colKeys ∧
    (importGrouped f bs).rows = f.rows ∧ (importGrouped f bs).cols = f.cols ∧
    ∀ x, x ∈ (importGrouped f bs).bits ↔ x ∈ bs ∨ x ∈ f.bits := by
  obtain ⟨h1, h2, h3, h4, h5⟩ := importShards_spec bs (shardsOf bs) f
  refine ⟨h1, h2, h3, h4, ?_⟩
  intro x
  rw [show importGrouped f bs = importShards bs (shardsOf bs) f from rfl, h5 x]
  constructor
  · rintro (⟨h, _⟩ | h)
    · exact Or.inl h
    · exact Or.inr h
  · rintro (h | h)
    · exact Or.inl ⟨h, mem_shardsOf bs x h⟩
    · exact Or.inr h

/-! ### one import batch -/

/-- The user-visible pair a buffered bit stands for. -/
def ibLabel (rk ck : Bool) (b : IBit) : Str × Str :=
  (if rk then b.rowKey else toDec b.rowID, if ck then b.colKey else toDec b.colID)

/-- What bufferBits produces for a field with these key options, minus the excluded empty keys. -/
def BatchOK (rk ck : Bool) (a : List IBit) : Prop :=
  ∀ b ∈ a, (if rk then b.rowKey ≠ [] else b.rowKey = []) ∧
           (if ck then b.colKey ≠ [] else b.colKey = [])

/-- Keyed ids of stored bits are allocated ids (so extending a store keeps their keys). -/
def Inv (f : Field) : Prop :=
  (f.rowKeys = true → ∀ b ∈ f.bits, b.row ≤ f.rows.length) ∧
  (f.colKeys = true → ∀ b ∈ f.bits, b.col ≤ f.cols.length)

theorem has_true (a : List IBit) (g : IBit → Str) (h : ∀ b ∈ a, g b ≠ []) (hne : a ≠ []) :
    a.any (fun b => g b ≠ []) = true := by
  cases a with
  | nil => exact absurd rfl hne
  | cons x xs => rw [any_cons]; simp [h x (by simp)]

theorem has_false (a : List IBit) (g : IBit → Str) (h : ∀ b ∈ a, g b = []) :
    a.any (fun b => g b ≠ []) = false := by
  rw [any_eq_false]
  intro b hb
  simp [h b hb]

theorem req_row_keyed (a : List IBit) (h : ∀ b ∈ a, b.rowKey ≠ []) :
    reqRowIDs a = [] ∧ reqRowKeys a = a.map (·.rowKey) := by
  unfold reqRowIDs reqRowKeys hasRowKeys
  by_cases hne : a = []
  · subst hne; simp
  · rw [has_true a (·.rowKey) h hne]; simp

theorem req_row_unkeyed (a : List IBit) (h : ∀ b ∈ a, b.rowKey = []) :
    reqRowIDs a = a.map (·.rowID) := by
  unfold reqRowIDs hasRowKeys
  rw [has_false a (·.rowKey) h]; simp

theorem req_col_keyed (a : List IBit) (h : ∀ b ∈ a, b.colKey ≠ []) :
    reqColIDs a = [] ∧ reqColKeys a = a.map (·.colKey) := by
  unfold reqColIDs reqColKeys hasColKeys
  by_cases hne : a = []
  · subst hne; simp
  · rw [has_true a (·.colKey) h hne]; simp

theorem req_col_unkeyed (a : List IBit) (h : ∀ b ∈ a, b.colKey = []) :
    reqColIDs a = a.map (·.colID) := by
  unfold reqColIDs hasColKeys
  rw [has_false a (·.colKey) h]; simp

def rowsAfter (rk : Bool) (rows : Store) (a : List IBit) : Store :=
  if rk then (rows.translate (a.map (·.rowKey))).1 else rows
def colsAfter (ck : Bool) (cols : Store) (a : List IBit) : Store :=
  if ck then (cols.translate (a.map (·.colKey))).1 else cols
def ridOf (rk : Bool) (rows' : Store) (b : IBit) : Nat := if rk then rows'.idD b.rowKey else b.rowID
def cidOf (ck : Bool) (cols' : Store) (b : IBit) : Nat := if ck then cols'.idD b.colKey else b.colID

theorem importBits_nf (rk ck : Bool) (rows cols : Store) (bits : List Bit) (ms : Nat)
    (a : List IBit) (hok : BatchOK rk ck a) :
    importBits ⟨rk, ck, rows, cols, bits, ms⟩ a =
      (importGrouped ⟨rk, ck, rowsAfter rk rows a, colsAfter ck cols a, bits, ms⟩
        (a.map (fun b => ⟨ridOf rk (rowsAfter rk rows a) b, cidOf ck (colsAfter ck cols a) b⟩)), none) := by
  have hr := fun b hb => (hok b hb).1
  have hc := fun b hb => (hok b hb).2
  cases rk <;> cases ck <;> simp only [if_true, if_false, Bool.false_eq_true] at hr hc
  · simp [importBits, rowsAfter, colsAfter, ridOf, cidOf]
  · obtain ⟨hk1, hk2⟩ := req_col_keyed a hc
    have hk3 := req_row_unkeyed a hr
    obtain ⟨-, hids, -⟩ := Store.translate_spec (a.map (·.colKey)) cols
    simp only [importBits, hk1, hk2, hk3, Bool.true_or, if_true, Bool.false_and,
      Bool.true_and, ne_eq, not_true_eq_false, decide_false, Bool.false_eq_true, if_false, hids,
      length_map, Nat.lt_irrefl, rowsAfter, colsAfter, ridOf, cidOf, zip_map', map_map]
    rfl
  · obtain ⟨hk1, hk2⟩ := req_row_keyed a hr
    have hk3 := req_col_unkeyed a hc
    obtain ⟨-, hids, -⟩ := Store.translate_spec (a.map (·.rowKey)) rows
    simp only [importBits, hk1, hk2, hk3, Bool.or_true, if_true, Bool.false_and,
      Bool.true_and, ne_eq, not_true_eq_false, decide_false, Bool.false_eq_true, if_false, hids,
      length_map, Nat.lt_irrefl, rowsAfter, colsAfter, ridOf, cidOf, zip_map', map_map]
    rfl
  · obtain ⟨hk1, hk2⟩ := req_row_keyed a hr
    obtain ⟨hk3, hk4⟩ := req_col_keyed a hc
    obtain ⟨-, hidr, -⟩ := Store.translate_spec (a.map (·.rowKey)) rows
    obtain ⟨-, hidc, -⟩ := Store.translate_spec (a.map (·.colKey)) cols
    simp only [importBits, hk1, hk2, hk3, hk4, Bool.or_true, if_true,
      Bool.true_and, ne_eq, not_true_eq_false, decide_false, Bool.false_eq_true, if_false, hidr, hidc,
      length_map, Nat.lt_irrefl, rowsAfter, colsAfter, ridOf, cidOf, zip_map', map_map]
    rfl

theorem rowsAfter_spec (rk : Bool) (rows : Store) (a : List IBit) :
    (∃ t, rowsAfter rk rows a = rows ++ t) ∧
    (rk = true → ∀ b ∈ a, (rowsAfter rk rows a).keyOf (ridOf rk (rowsAfter rk rows a) b) = b.rowKey ∧
      ridOf rk (rowsAfter rk rows a) b ≤ (rowsAfter rk rows a).length) := by
  cases rk with
  | false => exact ⟨⟨[], by simp [rowsAfter]⟩, fun h => by cases h⟩
  | true =>
    obtain ⟨e1, -, e3⟩ := Store.translate_spec (a.map (·.rowKey)) rows
    simp only [rowsAfter, ridOf, if_true]
    exact ⟨e1, fun _ b hb => Store.keyOf_idD _ _ (e3 b.rowKey (mem_map.mpr ⟨b, hb, rfl⟩))⟩

theorem colsAfter_spec (ck : Bool) (cols : Store) (a : List IBit) :
    (∃ t, colsAfter ck cols a = cols ++ t) ∧
    (ck = true → ∀ b ∈ a, (colsAfter ck cols a).keyOf (cidOf ck (colsAfter ck cols a) b) = b.colKey ∧
      cidOf ck (colsAfter ck cols a) b ≤ (colsAfter ck cols a).length) := by
  cases ck with
  | false => exact ⟨⟨[], by simp [colsAfter]⟩, fun h => by cases h⟩
  | true =>
    obtain ⟨e1, -, e3⟩ := Store.translate_spec (a.map (·.colKey)) cols
    simp only [colsAfter, cidOf, if_true]
    exact ⟨e1, fun _ b hb => Store.keyOf_idD _ _ (e3 b.colKey (mem_map.mpr ⟨b, hb, rfl⟩))⟩

theorem importBits_ok (f : Field) (a : List IBit) (hok : BatchOK f.rowKeys f.colKeys a)
    (hinv : Inv f) :
    ∃ f', importBits f a = (f', none) ∧ f'.rowKeys = f.rowKeys ∧ f'.colKeys = f.colKeys ∧ Inv f' ∧
      ∀ p, p ∈ f'.contents ↔ p ∈ f.contents ∨ p ∈ a.map (ibLabel f.rowKeys f.colKeys) := by
  obtain ⟨rk, ck, rows, cols, bits, ms⟩ := f
  simp only at hok
  have nf := importBits_nf rk ck rows cols bits ms a hok
  obtain ⟨⟨tr, htr⟩, rowsK⟩ := rowsAfter_spec rk rows a
  obtain ⟨⟨tc, htc⟩, colsK⟩ := colsAfter_spec ck cols a
  generalize hR : rowsAfter rk rows a = rows' at *
  generalize hC : colsAfter ck cols a = cols' at *
  obtain ⟨g1, g2, g3, g4, g5⟩ := importGrouped_spec ⟨rk, ck, rows', cols', bits, ms⟩
    (a.map (fun b => ⟨ridOf rk rows' b, cidOf ck cols' b⟩))
  generalize hF : importGrouped ⟨rk, ck, rows', cols', bits, ms⟩
    (a.map (fun b => ⟨ridOf rk rows' b, cidOf ck cols' b⟩)) = f' at *
  simp only at g1 g2 g3 g4 g5
  have hi1 : rk = true → ∀ b ∈ bits, b.row ≤ rows.length := hinv.1
  have hi2 : ck = true → ∀ b ∈ bits, b.col ≤ cols.length := hinv.2
  -- labels of new and old bits under the new stores
  have newRow : ∀ b ∈ a, f'.rowLabel (ridOf rk rows' b) = (ibLabel rk ck b).1 := by
    intro b hb
    simp only [Field.rowLabel, g1, g3, ibLabel]
    cases rk with
    | true => simpa using ((rowsK rfl) b hb).1
    | false => simp [ridOf]
  have newCol : ∀ b ∈ a, f'.colLabel (cidOf ck cols' b) = (ibLabel rk ck b).2 := by
    intro b hb
    simp only [Field.colLabel, g2, g4, ibLabel]
    cases ck with
    | true => simpa using ((colsK rfl) b hb).1
    | false => simp [cidOf]
  have oldRow : ∀ b ∈ bits, f'.rowLabel b.row =
      (Field.rowLabel ⟨rk, ck, rows, cols, bits, ms⟩ b.row) := by
    intro b hb
    simp only [Field.rowLabel, g1, g3]
    cases rk with
    | true => simp only [if_true]; rw [htr]; exact Store.keyOf_append rows tr b.row (hi1 rfl b hb)
    | false => simp
  have oldCol : ∀ b ∈ bits, f'.colLabel b.col =
      (Field.colLabel ⟨rk, ck, rows, cols, bits, ms⟩ b.col) := by
    intro b hb
    simp only [Field.colLabel, g2, g4]
    cases ck with
    | true => simp only [if_true]; rw [htc]; exact Store.keyOf_append cols tc b.col (hi2 rfl b hb)
    | false => simp
  refine ⟨f', nf, g1, g2, ⟨?_, ?_⟩, ?_⟩
  · intro h x hx
    rw [g1] at h; subst h
    rw [g3]
    rcases (g5 x).mp hx with hx | hx
    · obtain ⟨b, hb, rfl⟩ := mem_map.mp hx
      exact ((rowsK rfl) b hb).2
    · have := hi1 rfl x hx
      rw [htr, length_append]; omega
  · intro h x hx
    rw [g2] at h; subst h
    rw [g4]
    rcases (g5 x).mp hx with hx | hx
    · obtain ⟨b, hb, rfl⟩ := mem_map.mp hx
      exact ((colsK rfl) b hb).2
    · have := hi2 rfl x hx
      rw [htc, length_append]; omega
  · intro p
    simp only [Field.contents, mem_map]
    constructor
    · rintro ⟨x, hx, rfl⟩
      rcases (g5 x).mp hx with hx | hx
      · obtain ⟨b, hb, rfl⟩ := mem_map.mp hx
        exact Or.inr ⟨b, hb, by rw [newRow b hb, newCol b hb]⟩
      · exact Or.inl ⟨x, hx, by rw [oldRow x hx, oldCol x hx]⟩
    · rintro (⟨x, hx, rfl⟩ | ⟨b, hb, rfl⟩)
      · exact ⟨x, (g5 x).mpr (Or.inr hx), by rw [oldRow x hx, oldCol x hx]⟩
      · exact ⟨⟨ridOf rk rows' b, cidOf ck cols' b⟩,
          (g5 _).mpr (Or.inl (mem_map.mpr ⟨b, hb, rfl⟩)), by rw [newRow b hb, newCol b hb]⟩

/-! ### from exported records to buffered bits -/

def recOf (src : Field) (b : Bit) : List Str := [src.rowLabel b.row, src.colLabel b.col]

def srcLabel (src : Field) (b : Bit) : Str × Str := (src.rowLabel b.row, src.colLabel b.col)

/-- The buffered bit a source bit becomes after export, CSV and bufferBits. -/
def ibOf (src : Field) (b : Bit) : IBit :=
  ⟨if src.rowKeys then src.rowLabel b.row else [], if src.rowKeys then 0 else b.row,
   if src.colKeys then src.colLabel b.col else [], if src.colKeys then 0 else b.col⟩

/-- What the proof needs of one source bit. -/
def Good (src : Field) (b : Bit) : Prop :=
  (src.rowKeys = true → src.rowLabel b.row ≠ []) ∧ (src.colKeys = true → src.colLabel b.col ≠ []) ∧
  (src.rowKeys = false → b.row < 2 ^ 64) ∧ (src.colKeys = false → b.col < 2 ^ 64)

theorem recToBit_good (src : Field) (b : Bit) (h : Good src b) :
    recToBit src.rowKeys src.colKeys (recOf src b) = .bit (ibOf src b) := by
  obtain ⟨h1, h2, h3, h4⟩ := h
  have hr0 : src.rowLabel b.row ≠ [] := by
    cases hrk : src.rowKeys with
    | true => exact h1 hrk
    | false => simp [Field.rowLabel, hrk, toDec_ne_nil]
  cases hrk : src.rowKeys <;> cases hck : src.colKeys <;>
    simp only [recToBit, recOf, ibOf, hr0, if_false, hrk, hck, if_true, Bool.false_eq_true]
  · have e1 : src.rowLabel b.row = toDec b.row := by simp [Field.rowLabel, hrk]
    have e2 : src.colLabel b.col = toDec b.col := by simp [Field.colLabel, hck]
    simp [e1, e2, parseUint_toDec _ (h3 hrk), parseUint_toDec _ (h4 hck)]
  · have e1 : src.rowLabel b.row = toDec b.row := by simp [Field.rowLabel, hrk]
    simp [e1, parseUint_toDec _ (h3 hrk)]
  · have e2 : src.colLabel b.col = toDec b.col := by simp [Field.colLabel, hck]
    simp [e2, parseUint_toDec _ (h4 hck)]

theorem ibLabel_ibOf (src : Field) (b : Bit) :
    ibLabel src.rowKeys src.colKeys (ibOf src b) = srcLabel src b := by
  cases hrk : src.rowKeys <;> cases hck : src.colKeys <;>
    simp [ibLabel, ibOf, srcLabel, Field.rowLabel, Field.colLabel, hrk, hck]

theorem batchOK_ibOf (src : Field) (b : Bit) (h : Good src b) :
    BatchOK src.rowKeys src.colKeys [ibOf src b] := by
  intro x hx
  simp only [mem_singleton] at hx
  subst hx
  obtain ⟨h1, h2, _, _⟩ := h
  cases hrk : src.rowKeys <;> cases hck : src.colKeys <;> simp [ibOf, hrk, hck] <;>
    first | exact h1 hrk | exact h2 hck | exact ⟨h1 hrk, h2 hck⟩

theorem batchOK_append {rk ck : Bool} {a b : List IBit} (ha : BatchOK rk ck a) (hb : BatchOK rk ck b) :
    BatchOK rk ck (a ++ b) := by
  intro x hx
  rcases mem_append.mp hx with h | h
  · exact ha x h
  · exact hb x h

theorem batchOK_nil (rk ck : Bool) : BatchOK rk ck [] := by intro x hx; cases hx

/-! ### the buffer loop over exported records -/

theorem bufferLoop_ok (src : Field) (n : Nat) : ∀ (bs : List Bit), (∀ b ∈ bs, Good src b) →
    ∀ (f : Field) (buf : List IBit), Inv f → f.rowKeys = src.rowKeys → f.colKeys = src.colKeys →
    BatchOK src.rowKeys src.colKeys buf →
    ∃ f' buf', bufferLoop n f buf (bs.map (recOf src)) = (f', buf', none) ∧ Inv f' ∧
      f'.rowKeys = src.rowKeys ∧ f'.colKeys = src.colKeys ∧ BatchOK src.rowKeys src.colKeys buf' ∧
      ∀ p, (p ∈ f'.contents ∨ p ∈ buf'.map (ibLabel src.rowKeys src.colKeys)) ↔
        (p ∈ f.contents ∨ p ∈ buf.map (ibLabel src.rowKeys src.colKeys) ∨ p ∈ bs.map (srcLabel src))
  | [], _, f, buf, hinv, hr, hc, hb => by
    refine ⟨f, buf, by simp [bufferLoop], hinv, hr, hc, hb, ?_⟩
    intro p; simp
  | b :: bs, hgood, f, buf, hinv, hr, hc, hb => by
    have hg := hgood b (by simp)
    have hgs : ∀ x ∈ bs, Good src x := fun x hx => hgood x (by simp [hx])
    have hbuf' : BatchOK src.rowKeys src.colKeys (buf ++ [ibOf src b]) :=
      batchOK_append hb (batchOK_ibOf src b hg)
    simp only [map_cons, bufferLoop, hr, hc, recToBit_good src b hg]
    by_cases hlen : (buf ++ [ibOf src b]).length = n
    · rw [if_pos hlen]
      obtain ⟨f1, e1, r1, c1, inv1, cont1⟩ :=
        importBits_ok f (buf ++ [ibOf src b]) (by rw [hr, hc]; exact hbuf') hinv
      rw [e1]
      obtain ⟨f', buf', e2, inv2, r2, c2, ok2, cont2⟩ :=
        bufferLoop_ok src n bs hgs f1 [] inv1 (r1.trans hr) (c1.trans hc) (batchOK_nil _ _)
      refine ⟨f', buf', e2, inv2, r2, c2, ok2, ?_⟩
      intro p
      rw [cont2 p, cont1 p, hr, hc]
      simp only [map_nil, not_mem_nil, false_or, map_append, map_cons, mem_append, mem_cons,
        ibLabel_ibOf, mem_map]
      constructor
      · rintro ((h | h | h | h) | h)
        · exact Or.inl h
        · exact Or.inr (Or.inl h)
        · exact Or.inr (Or.inr (Or.inl h))
        · cases h
        · exact Or.inr (Or.inr (Or.inr h))
      · rintro (h | h | h | h)
        · exact Or.inl (Or.inl h)
        · exact Or.inl (Or.inr (Or.inl h))
        · exact Or.inl (Or.inr (Or.inr (Or.inl h)))
        · exact Or.inr h
    · rw [if_neg hlen]
      obtain ⟨f', buf', e2, inv2, r2, c2, ok2, cont2⟩ :=
        bufferLoop_ok src n bs hgs f (buf ++ [ibOf src b]) hinv hr hc hbuf'
      refine ⟨f', buf', e2, inv2, r2, c2, ok2, ?_⟩
      intro p
      rw [cont2 p]
      simp only [map_append, map_cons, map_nil, mem_append, mem_cons, not_mem_nil, or_false,
        ibLabel_ibOf, mem_map]
      constructor
      · rintro (h | (h | h) | h)
        · exact Or.inl h
        · exact Or.inr (Or.inl h)
        · exact Or.inr (Or.inr (Or.inl h))
        · exact Or.inr (Or.inr (Or.inr h))
      · rintro (h | h | h | h)
        · exact Or.inl h
        · exact Or.inr (Or.inl (Or.inl h))
        · exact Or.inr (Or.inl (Or.inr h))
        · exact Or.inr (Or.inr h)

end PV.C30
