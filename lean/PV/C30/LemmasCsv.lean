/-
C30 helper lemmas, part 1: the CSV reader undoes the CSV writer.  Core Lean only.
-/
import PV.C30.Csv
namespace PV.C30
open List

/-! ### one reader step on ordinary characters -/

theorem run_nil (m : Mode) (a : Acc) : run m a [] = eof m a := rfl

/-- A character that is not CR is consumed by `step`. -/
theorem run_cons_ne_cr (m : Mode) (a : Acc) (c : Char) (rest : Str) (h : c ≠ '\r') :
    run m a (c :: rest) =
      match step m a c with
      | .error e => ⟨a.recs.reverse, some e⟩
      | .ok (m', a') => run m' a' rest := by
  rw [run.eq_2]
  simp only [h, false_and, if_false]
  rfl

/-- A CR that is followed by something other than LF is consumed by `step`. -/
theorem run_cr_cons (m : Mode) (a : Acc) (d : Char) (rest : Str) (h : d ≠ '\n') :
    run m a ('\r' :: d :: rest) =
      match step m a '\r' with
      | .error e => ⟨a.recs.reverse, some e⟩
      | .ok (m', a') => run m' a' (d :: rest) := by
  rw [run.eq_2]
  have h1 : ¬ (('\r' : Char) = '\r' ∧ d :: rest = []) := by simp
  have h2 : ¬ (('\r' : Char) = '\r' ∧ (d :: rest).head? = some '\n') := by simp [h]
  rw [if_neg h1, if_neg h2]
  rfl

/-! ### the body of an unquoted field -/

def plain (c : Char) : Bool := !isSpecial c

theorem plain_ne {c : Char} (h : plain c = true) :
    c ≠ ',' ∧ c ≠ '"' ∧ c ≠ '\r' ∧ c ≠ '\n' := by
  simp [plain, isSpecial] at h
  exact ⟨h.1.1.1, h.1.1.2, h.1.2, h.2⟩

theorem run_unq_plain (f : Str) (a : Acc) (rest : Str) (hf : f.all plain = true) :
    run .unq a (f ++ rest) = run .unq { a with fld := f.reverse ++ a.fld } rest := by
  induction f generalizing a with
  | nil => simp
  | cons c cs ih =>
    simp only [all_cons, Bool.and_eq_true] at hf
    obtain ⟨h1, h2, h3, h4⟩ := plain_ne hf.1
    rw [cons_append, run_cons_ne_cr _ _ _ _ h3]
    simp only [step, stepUnq, h1, h2, h4, if_false]
    rw [ih _ hf.2]
    simp [Acc.push]

/-! ### the body of a quoted field -/

theorem escape_head_ne_lf (cs : Str) (rest : Str) (h : cs.head? ≠ some '\n') :
    ∃ d t, escape cs ++ '"' :: rest = d :: t ∧ d ≠ '\n' := by
  cases cs with
  | nil => exact ⟨'"', rest, rfl, by decide⟩
  | cons d ds =>
    simp only [head?_cons, ne_eq, Option.some.injEq] at h
    by_cases hq : d = '"'
    · subst hq; exact ⟨'"', '"' :: (escape ds ++ '"' :: rest), by simp [escape], by decide⟩
    · exact ⟨d, escape ds ++ '"' :: rest, by simp [escape, hq], h⟩

theorem run_quo_body (f : Str) (a : Acc) (rest : Str) (hf : noCRLF f = true) :
    run .quo a (escape f ++ '"' :: rest) = run .qq { a with fld := f.reverse ++ a.fld } rest := by
  induction f generalizing a with
  | nil =>
    simp only [escape, nil_append, reverse_nil]
    rw [run_cons_ne_cr _ _ _ _ (by decide)]
    simp [step]
  | cons c cs ih =>
    simp only [noCRLF, Bool.and_eq_true, Bool.not_eq_true', Bool.and_eq_false_iff] at hf
    obtain ⟨hc, hcs⟩ := hf
    by_cases hq : c = '"'
    · subst hq
      simp only [escape, if_true, cons_append]
      rw [run_cons_ne_cr _ _ _ _ (by decide)]
      simp only [step, if_true]
      rw [run_cons_ne_cr _ _ _ _ (by decide)]
      simp only [step, if_true]
      rw [ih _ hcs]
      simp [Acc.push]
    · simp only [escape, hq, if_false, cons_append]
      by_cases hr : c = '\r'
      · subst hr
        have hne : cs.head? ≠ some '\n' := by
          rcases hc with h | h
          · simp at h
          · simpa using h
        obtain ⟨d, t, hd, hdn⟩ := escape_head_ne_lf cs rest hne
        rw [hd, run_cr_cons _ _ _ _ hdn]
        simp only [step]
        rw [if_neg (by decide)]
        show run Mode.quo (a.push '\r') (d :: t) = _
        rw [← hd, ih _ hcs]
        simp [Acc.push]
      · rw [run_cons_ne_cr _ _ _ _ hr]
        simp only [step, hq, if_false]
        rw [ih _ hcs]
        simp [Acc.push]

/-! ### one written field followed by its separator -/

/-- Where the reader is after a field and the separator `sep` that follows it. -/
def afterSep (sep : Char) (recs : List (List Str)) (cur : List Str) (f : Str) : Mode × Acc :=
  if sep = ',' then (.fieldStart, ⟨recs, f :: cur, []⟩)
  else (.recStart, ⟨(f :: cur).reverse :: recs, [], []⟩)

theorem not_needsQuotes_plain {f : Str} (h : needsQuotes f = false) : f.all plain = true := by
  cases f with
  | nil => rfl
  | cons c cs =>
    simp only [needsQuotes, Bool.or_eq_false_iff] at h
    have h2 := h.1.2
    rw [all_eq_true]
    intro x hx
    simp only [plain, Bool.not_eq_true']
    cases hs : isSpecial x with
    | false => rfl
    | true =>
      have : (c :: cs).any isSpecial = true := any_eq_true.mpr ⟨x, hx, hs⟩
      rw [this] at h2; cases h2

theorem step_sep_unq (sep : Char) (hsep : sep = ',' ∨ sep = '\n') (recs cur) (fl : Str) :
    stepUnq ⟨recs, cur, fl⟩ sep =
      .ok (afterSep sep recs cur fl.reverse) := by
  rcases hsep with h | h <;> subst h <;> simp [stepUnq, afterSep, Acc.endField, Acc.endRecord]

theorem step_sep_qq (sep : Char) (hsep : sep = ',' ∨ sep = '\n') (recs cur) (fl : Str) :
    step .qq ⟨recs, cur, fl⟩ sep =
      .ok (afterSep sep recs cur fl.reverse) := by
  rcases hsep with h | h <;> subst h <;> simp [step, afterSep, Acc.endField, Acc.endRecord]

theorem sep_ne (sep : Char) (hsep : sep = ',' ∨ sep = '\n') : sep ≠ '\r' ∧ sep ≠ '"' := by
  rcases hsep with h | h <;> subst h <;> decide

theorem run_field (f : Str) (sep : Char) (hsep : sep = ',' ∨ sep = '\n') (recs cur) (rest : Str)
    (hf : noCRLF f = true) :
    run .fieldStart ⟨recs, cur, []⟩ (writeField f ++ sep :: rest) =
      run (afterSep sep recs cur f).1 (afterSep sep recs cur f).2 rest := by
  obtain ⟨hs1, hs2⟩ := sep_ne sep hsep
  unfold writeField
  cases hq : needsQuotes f with
  | true =>
    simp only [if_true, cons_append, append_assoc]
    rw [run_cons_ne_cr _ _ _ _ (by decide)]
    simp only [step, stepStart, if_true]
    rw [run_quo_body f _ _ hf]
    simp only [nil_append, append_nil]
    rw [run_cons_ne_cr _ _ _ _ hs1, step_sep_qq sep hsep]
    simp
  | false =>
    simp only [Bool.false_eq_true, if_false]
    have hp := not_needsQuotes_plain hq
    cases f with
    | nil =>
      simp only [nil_append]
      rw [run_cons_ne_cr _ _ _ _ hs1]
      simp only [step, stepStart, hs2, if_false]
      rw [step_sep_unq sep hsep]
      simp
    | cons c cs =>
      simp only [all_cons, Bool.and_eq_true] at hp
      obtain ⟨h1, h2, h3, h4⟩ := plain_ne hp.1
      rw [cons_append, run_cons_ne_cr _ _ _ _ h3]
      simp only [step, stepStart, stepUnq, h1, h2, h4, if_false]
      rw [run_unq_plain cs _ _ hp.2, run_cons_ne_cr _ _ _ _ hs1]
      simp only [step, Acc.push]
      rw [step_sep_unq sep hsep]
      simp

/-- At the start of a record the reader behaves like at the start of a field unless the line is
empty. -/
theorem run_recStart_eq (a : Acc) (c : Char) (t : Str) (h1 : c ≠ '\n') (h2 : c ≠ '\r') :
    run .recStart a (c :: t) = run .fieldStart a (c :: t) := by
  rw [run_cons_ne_cr _ _ _ _ h2, run_cons_ne_cr _ _ _ _ h2]
  simp [step, h1]

theorem writeField_head (f : Str) (sep : Char) (hsep : sep = ',' ∨ sep = '\n') (rest : Str)
    (hne : ¬ (f = [] ∧ sep = '\n')) :
    ∃ c t, writeField f ++ sep :: rest = c :: t ∧ c ≠ '\n' ∧ c ≠ '\r' := by
  unfold writeField
  cases hq : needsQuotes f with
  | true => exact ⟨'"', escape f ++ '"' :: sep :: rest, by simp, by decide, by decide⟩
  | false =>
    simp only [Bool.false_eq_true, if_false]
    have hp := not_needsQuotes_plain hq
    cases f with
    | nil =>
      refine ⟨sep, rest, rfl, ?_, (sep_ne sep hsep).1⟩
      intro h; exact hne ⟨rfl, h⟩
    | cons c cs =>
      simp only [all_cons, Bool.and_eq_true] at hp
      obtain ⟨_, _, h3, h4⟩ := plain_ne hp.1
      exact ⟨c, _, rfl, h4, h3⟩

/-! ### one written record -/

theorem run_record_fields (fs : List Str) (f : Str) (recs cur) (rest : Str)
    (hok : ∀ g ∈ f :: fs, noCRLF g = true) :
    run .fieldStart ⟨recs, cur, []⟩ (writeRecord (f :: fs) ++ rest) =
      run .recStart ⟨(cur.reverse ++ f :: fs) :: recs, [], []⟩ rest := by
  induction fs generalizing f cur with
  | nil =>
    simp only [writeRecord, append_assoc, singleton_append]
    rw [run_field f '\n' (Or.inr rfl) _ _ _ (hok f (by simp))]
    simp [afterSep]
  | cons g gs ih =>
    simp only [writeRecord, append_assoc, cons_append]
    rw [run_field f ',' (Or.inl rfl) _ _ _ (hok f (by simp))]
    simp only [afterSep, if_true]
    rw [ih g (f :: cur) (fun x hx => hok x (by simp [hx]))]
    simp

theorem run_record (r : List Str) (recs) (rest : Str) (hok : recOK r = true) :
    run .recStart ⟨recs, [], []⟩ (writeRecord r ++ rest) = run .recStart ⟨r :: recs, [], []⟩ rest := by
  simp only [recOK, Bool.and_eq_true, decide_eq_true_eq, all_eq_true] at hok
  obtain ⟨⟨hne, hne1⟩, hall⟩ := hok
  cases r with
  | nil => exact absurd rfl hne
  | cons f fs =>
    have key : run .fieldStart ⟨recs, [], []⟩ (writeRecord (f :: fs) ++ rest) =
        run .recStart ⟨(f :: fs) :: recs, [], []⟩ rest := by
      have := run_record_fields fs f recs [] rest hall
      simpa using this
    rw [← key]
    cases fs with
    | nil =>
      have hf : f ≠ [] := by intro h; subst h; exact hne1 rfl
      simp only [writeRecord, append_assoc, singleton_append]
      obtain ⟨c, t, hct, h1, h2⟩ := writeField_head f '\n' (Or.inr rfl) rest (fun h => hf h.1)
      rw [hct]; exact run_recStart_eq _ c t h1 h2
    | cons g gs =>
      simp only [writeRecord, append_assoc, cons_append]
      obtain ⟨c, t, hct, h1, h2⟩ :=
        writeField_head f ',' (Or.inl rfl) (writeRecord (g :: gs) ++ rest) (fun h => by cases h.2)
      rw [hct]; exact run_recStart_eq _ c t h1 h2

theorem run_writeAll (recs acc : List (List Str)) (hok : ∀ r ∈ recs, recOK r = true) :
    run .recStart ⟨acc, [], []⟩ (writeAll recs) = ⟨acc.reverse ++ recs, none⟩ := by
  induction recs generalizing acc with
  | nil => simp [writeAll, run, eof]
  | cons r rs ih =>
    simp only [writeAll]
    rw [run_record r acc _ (hok r (by simp)), ih (r :: acc) (fun x hx => hok x (by simp [hx]))]
    simp

theorem parse_writeAll (recs : List (List Str)) (hok : ∀ r ∈ recs, recOK r = true) :
    parse (writeAll recs) = ⟨recs, none⟩ := by
  unfold parse
  rw [run_writeAll recs [] hok]
  simp

/-! ### the general machine with the code's settings is the machine above -/

def embed : Mode → ModeG
  | .recStart => .recStart | .fieldStart => .fieldStart | .unq => .unq | .quo => .quo | .qq => .qq

def liftStep : Except CsvErr (Mode × Acc) → Except CsvErr (ModeG × Acc)
  | .error e => .error e
  | .ok (m, a) => .ok (embed m, a)

theorem stepUnqG_code (a : Acc) (c : Char) : stepUnqG codeReader a c = liftStep (stepUnq a c) := by
  unfold stepUnqG stepUnq codeReader
  simp only
  split
  · rfl
  · split
    · rfl
    · split <;> rfl

theorem stepStartG_code (a : Acc) (c : Char) : stepStartG codeReader a c = liftStep (stepStart a c) := by
  unfold stepStartG stepStart
  split
  · rfl
  · exact stepUnqG_code a c

theorem stepG_code (m : Mode) (a : Acc) (c : Char) :
    stepG codeReader (embed m) a c = liftStep (step m a c) := by
  cases m with
  | recStart =>
    have hc : codeReader.comment ≠ some c := by simp [codeReader]
    simp only [embed, stepG, step, hc, if_false]
    split
    · rfl
    · exact stepStartG_code a c
  | fieldStart => exact stepStartG_code a c
  | unq => exact stepUnqG_code a c
  | quo => simp only [embed, stepG, step]; split <;> rfl
  | qq =>
    simp only [embed, stepG, step, codeReader]
    by_cases h1 : c = '"'
    · simp [h1, liftStep, embed]
    · by_cases h2 : c = ','
      · simp [h2, liftStep, embed]
      · by_cases h3 : c = '\n'
        · simp [h3, liftStep, embed]
        · simp [h1, h2, h3, liftStep]

theorem eofG_code (m : Mode) (a : Acc) : eofG (embed m) a = eof m a := by
  cases m <;> rfl

theorem runG_code : ∀ (s : Str) (m : Mode) (a : Acc), runG codeReader (embed m) a s = run m a s
  | [], m, a => by simp [runG, run, eofG_code]
  | c :: rest, m, a => by
    rw [runG.eq_2, run.eq_2, eofG_code, runG_code rest m a, stepG_code]
    cases h : step m a c with
    | error e => rfl
    | ok p =>
      obtain ⟨m', a'⟩ := p
      simp only [liftStep, runG_code rest m' a']

theorem parseG_code (s : Str) : parseG codeReader s = parse s := by
  unfold parseG parse
  have : (codeReader.lazyQuotes || codeReader.trimLeadingSpace || decide (codeReader.fieldsPerRecord ≥ 0)) = false := by
    decide
  rw [this]
  exact runG_code s .recStart _

theorem isSpecialC_code : isSpecialC codeWriter.comma = isSpecial := by
  funext c; rfl

theorem needsQuotesW_code (f : Str) : needsQuotesW codeWriter f = needsQuotes f := by
  cases f with
  | nil => rfl
  | cons c cs => simp only [needsQuotesW, needsQuotes, isSpecialC_code]

theorem escapeW_code : ∀ f : Str, escapeW codeWriter f = escape f
  | [] => rfl
  | c :: cs => by
    simp only [escapeW, escape, codeWriter, Bool.false_and, Bool.false_eq_true, if_false]
    rw [show escapeW { comma := ',', useCRLF := false } cs = escapeW codeWriter cs from rfl,
      escapeW_code cs]

theorem writeFieldW_code (f : Str) : writeFieldW codeWriter f = writeField f := by
  simp only [writeFieldW, writeField, needsQuotesW_code, escapeW_code]

theorem writeRecordW_code : ∀ r : List Str, writeRecordW codeWriter r = writeRecord r
  | [] => rfl
  | [f] => by simp only [writeRecordW, writeRecord, writeFieldW_code]; rfl
  | f :: g :: fs => by
    simp only [writeRecordW, writeRecord, writeFieldW_code, writeRecordW_code (g :: fs)]
    rfl

theorem writeAllW_code : ∀ rs : List (List Str), writeAllW codeWriter rs = writeAll rs
  | [] => rfl
  | r :: rs => by simp only [writeAllW, writeAll, writeRecordW_code, writeAllW_code rs]

end PV.C30
