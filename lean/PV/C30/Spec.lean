/-
C30 specification layer: what the property promises, in user terms.  A field's contents are a set
of (row label, column label) pairs (label = key, or decimal id when the dimension has no keys).
`expected src` = the destination after export + import must hold exactly these pairs and the
import must succeed.  `canon` gives the canonical text order used on the protocol (sorted by code
points, duplicates removed).  Core Lean only.
-/
import PV.C30.Model
namespace PV.C30.Spec
open PV.C30

def strLe : Str → Str → Bool
  | [], _ => true
  | _ :: _, [] => false
  | a :: as, b :: bs => a.toNat < b.toNat || (a = b && strLe as bs)

def pairLe (p q : Str × Str) : Bool :=
  if p.1 = q.1 then strLe p.2 q.2 else strLe p.1 q.1

def dedupAdj : List (Str × Str) → List (Str × Str)
  | [] => []
  | [x] => [x]
  | x :: y :: r => if x = y then dedupAdj (y :: r) else x :: dedupAdj (y :: r)

/-- Canonical presentation of a set of label pairs. -/
def canon (l : List (Str × Str)) : List (Str × Str) := dedupAdj (l.mergeSort pairLe)

/-- The property: after `import (export src)` into an empty field of the same type, the import has
succeeded and the destination holds exactly `src`'s contents. -/
def expected (src : Field) : List (Str × Str) := canon src.contents

/-! ### clusters: the property per replica

In a cluster with `replicas` copies the imported field is not one object: every owner of a shard holds
its own fragment.  The property quantifies over "the field", i.e. over every one of these copies:
after `import (export src)` every owner of every destination shard holds exactly the source pairs
that fall into that shard, and no other node holds any of them.  The model's import is "delivered to
all owners" (`InternalClient.Import` loops over `FragmentNodes`), so the model's answer for a shard is
the same contents `replicas` times; the tie reads every node. -/

/-- Destination shards in ascending order with the canonical contents of each. -/
def perShard (f : Field) : List (Nat × List (Str × Str)) :=
  let shards := (f.bits.map (fun b => b.col / SW)).eraseDups.mergeSort (fun a b => a ≤ b)
  shards.map (fun s => (s, canon ((f.bits.filter (fun b => b.col / SW = s)).map
    (fun b => (f.rowLabel b.row, f.colLabel b.col)))))

/-- What every one of the `replicas` owners of each shard must hold. -/
def perReplica (replicas : Nat) (f : Field) : List (Nat × List (List (Str × Str))) :=
  (perShard f).map (fun p => (p.1, List.replicate replicas p.2))

end PV.C30.Spec
