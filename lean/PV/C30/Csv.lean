/-
C30 model, part 1: Go's `encoding/csv` as used by `API.ExportCSV` (`csv.NewWriter`, default
options: Comma = ',', UseCRLF = false) and by `ImportCommand.bufferBits` (`csv.NewReader`,
FieldsPerRecord = -1, everything else default: Comma = ',', no Comment, LazyQuotes = false,
TrimLeadingSpace = false).  Strings are lists of Unicode code points (`List Char`); invalid UTF-8
is outside the model.  Core Lean only.

Writer (encoding/csv/writer.go `Writer.Write`, `fieldNeedsQuotes`):
  a field is quoted iff it is `\.`, contains `,` `"` CR or LF, or starts with a `unicode.IsSpace`
  rune; inside quotes `"` is doubled, everything else is copied; fields are joined by `,` and the
  record is terminated by LF.

Reader (encoding/csv/reader.go `readLine`, `readRecord`) as a character machine with one
character of look-ahead for the two things `readLine` does to every physical line:
  * a CR directly followed by LF is dropped (`\r\n` is normalised to `\n`, also inside quotes);
  * a CR that is the very last character of the input is dropped.
Modes: start of a record (empty lines are skipped), start of a field, inside an unquoted field
(`"` is ErrBareQuote), inside a quoted field, just after a `"` inside a quoted field
(`""` = literal quote, `,` / LF / end of input end the field, anything else is ErrQuote).
An unterminated quoted field at the end of the input is ErrQuote.  On an error the records read
before it are kept (bufferBits has already consumed them).
-/
namespace PV.C30

abbrev Str := List Char

/-! ### settings

Every exported field of `csv.Reader` / `csv.Writer` that changes what is read or written is a
parameter of the model.  `codeReader` / `codeWriter` are the values the code uses (no assignment after
`csv.NewReader` except `FieldsPerRecord = -1`; none after `csv.NewWriter`); the fact extractor
`harness/extract/csvsettings` regenerates `Gen.lean` from ctl/import.go and api.go and `C30_settings`
proves that the extracted settings ARE these.  The machine below implements `comma` and `comment`
for any value; `lazyQuotes = true`, `trimLeadingSpace = true` and `fieldsPerRecord ≠ -1` are not
implemented and yield the explicit outcome `CsvErr.unsupportedSettings`. -/

structure ReaderCfg where
  comma : Char := ','             -- Reader.Comma
  comment : Option Char := none   -- Reader.Comment (0 = none): lines starting with it are skipped
  lazyQuotes : Bool := false      -- Reader.LazyQuotes
  trimLeadingSpace : Bool := false -- Reader.TrimLeadingSpace
  fieldsPerRecord : Int := -1     -- Reader.FieldsPerRecord (negative = no check)
deriving DecidableEq, Repr

structure WriterCfg where
  comma : Char := ','             -- Writer.Comma
  useCRLF : Bool := false         -- Writer.UseCRLF
deriving DecidableEq, Repr

/-- `ImportCommand.bufferBits`: `r = csv.NewReader(f); r.FieldsPerRecord = -1`. -/
def codeReader : ReaderCfg := { comma := ',', comment := none, lazyQuotes := false,
                                trimLeadingSpace := false, fieldsPerRecord := -1 }

/-- `API.ExportCSV`: `cw := csv.NewWriter(w)`. -/
def codeWriter : WriterCfg := { comma := ',', useCRLF := false }

/-! ### writer -/

/-- `unicode.IsSpace`. -/
def isSpace (c : Char) : Bool :=
  let n := c.toNat
  n = 0x09 || n = 0x0A || n = 0x0B || n = 0x0C || n = 0x0D || n = 0x20 || n = 0x85 || n = 0xA0 ||
  n = 0x1680 || (0x2000 ≤ n && n ≤ 0x200A) || n = 0x2028 || n = 0x2029 || n = 0x202F ||
  n = 0x205F || n = 0x3000

def isSpecialC (comma : Char) (c : Char) : Bool := c = comma || c = '"' || c = '\r' || c = '\n'

/-- `Writer.fieldNeedsQuotes`. -/
def needsQuotesW (w : WriterCfg) : Str → Bool
  | [] => false
  | c :: cs => (c :: cs) = ['\\', '.'] || (c :: cs).any (isSpecialC w.comma) || isSpace c

/-- The loop of `Writer.Write` over a quoted field: `"` doubled; with UseCRLF a CR is dropped and LF
becomes CR LF. -/
def escapeW (w : WriterCfg) : Str → Str
  | [] => []
  | c :: cs =>
    if c = '"' then '"' :: '"' :: escapeW w cs
    else if w.useCRLF && c = '\r' then escapeW w cs
    else if w.useCRLF && c = '\n' then '\r' :: '\n' :: escapeW w cs
    else c :: escapeW w cs

def writeFieldW (w : WriterCfg) (f : Str) : Str :=
  if needsQuotesW w f then '"' :: (escapeW w f ++ ['"']) else f

def lineEnd (w : WriterCfg) : Str := if w.useCRLF then ['\r', '\n'] else ['\n']

/-- One `Writer.Write(record)`: fields joined by Comma, terminated by LF (CR LF with UseCRLF). -/
def writeRecordW (w : WriterCfg) : List Str → Str
  | [] => lineEnd w
  | [f] => writeFieldW w f ++ lineEnd w
  | f :: g :: fs => writeFieldW w f ++ w.comma :: writeRecordW w (g :: fs)

def writeAllW (w : WriterCfg) : List (List Str) → Str
  | [] => []
  | r :: rs => writeRecordW w r ++ writeAllW w rs

/-! The writer with the settings of the code (`codeWriter`), written out. -/

def isSpecial (c : Char) : Bool := c = ',' || c = '"' || c = '\r' || c = '\n'

def needsQuotes : Str → Bool
  | [] => false
  | c :: cs => (c :: cs) = ['\\', '.'] || (c :: cs).any isSpecial || isSpace c

def escape : Str → Str
  | [] => []
  | c :: cs => if c = '"' then '"' :: '"' :: escape cs else c :: escape cs

def writeField (f : Str) : Str :=
  if needsQuotes f then '"' :: (escape f ++ ['"']) else f

def writeRecord : List Str → Str
  | [] => ['\n']
  | [f] => writeField f ++ ['\n']
  | f :: g :: fs => writeField f ++ ',' :: writeRecord (g :: fs)

def writeAll : List (List Str) → Str
  | [] => []
  | r :: rs => writeRecord r ++ writeAll rs

/-! ### reader -/

inductive CsvErr where
  | bareQuote   -- ErrBareQuote: `"` in an unquoted field
  | quote       -- ErrQuote: stray or unterminated `"` in a quoted field
  | unsupportedSettings  -- reader settings this model does not implement (not the code's)
deriving DecidableEq, Repr

inductive Mode where
  | recStart | fieldStart | unq | quo | qq
deriving DecidableEq, Repr

/-- Reader accumulator: finished records (reversed), finished fields of the current record
(reversed), characters of the current field (reversed). -/
structure Acc where
  recs : List (List Str)
  cur : List Str
  fld : Str
deriving DecidableEq, Repr

def Acc.push (a : Acc) (c : Char) : Acc := { a with fld := c :: a.fld }
def Acc.endField (a : Acc) : Acc := { a with cur := a.fld.reverse :: a.cur, fld := [] }
def Acc.endRecord (a : Acc) : Acc :=
  { recs := (a.fld.reverse :: a.cur).reverse :: a.recs, cur := [], fld := [] }

/-- Result of reading a whole input: the records read, and the error that stopped reading. -/
structure Parsed where
  recs : List (List Str)
  err : Option CsvErr
deriving DecidableEq, Repr

def stepUnq (a : Acc) (c : Char) : Except CsvErr (Mode × Acc) :=
  if c = ',' then .ok (.fieldStart, a.endField)
  else if c = '\n' then .ok (.recStart, a.endRecord)
  else if c = '"' then .error .bareQuote
  else .ok (.unq, a.push c)

def stepStart (a : Acc) (c : Char) : Except CsvErr (Mode × Acc) :=
  if c = '"' then .ok (.quo, a) else stepUnq a c

def step : Mode → Acc → Char → Except CsvErr (Mode × Acc)
  | .recStart, a, c => if c = '\n' then .ok (.recStart, a) else stepStart a c
  | .fieldStart, a, c => stepStart a c
  | .unq, a, c => stepUnq a c
  | .quo, a, c => if c = '"' then .ok (.qq, a) else .ok (.quo, a.push c)
  | .qq, a, c =>
    if c = '"' then .ok (.quo, a.push '"')
    else if c = ',' then .ok (.fieldStart, a.endField)
    else if c = '\n' then .ok (.recStart, a.endRecord)
    else .error .quote

def eof : Mode → Acc → Parsed
  | .recStart, a => ⟨a.recs.reverse, none⟩
  | .fieldStart, a => ⟨a.endRecord.recs.reverse, none⟩
  | .unq, a => ⟨a.endRecord.recs.reverse, none⟩
  | .quo, a => ⟨a.recs.reverse, some .quote⟩
  | .qq, a => ⟨a.endRecord.recs.reverse, none⟩

def run : Mode → Acc → Str → Parsed
  | m, a, [] => eof m a
  | m, a, c :: rest =>
    if c = '\r' ∧ rest = [] then eof m a                       -- trailing CR before EOF is dropped
    else if c = '\r' ∧ rest.head? = some '\n' then run m a rest -- CR LF is read as LF
    else match step m a c with
      | .error e => ⟨a.recs.reverse, some e⟩
      | .ok (m', a') => run m' a' rest

/-- `csv.Reader.ReadAll`-like: every record up to the first error. -/
def parse (s : Str) : Parsed := run .recStart ⟨[], [], []⟩ s

/-! ### the reader for arbitrary `comma` / `comment` settings

Same machine with one more mode: inside a comment line.  `readRecord` tests
`r.Comment != 0 && nextRune(line) == r.Comment` on every line it reads while looking for the start
of a record (never on the continuation lines of a quoted field). -/

inductive ModeG where
  | recStart | fieldStart | unq | quo | qq | cmt
deriving DecidableEq, Repr

def stepUnqG (cfg : ReaderCfg) (a : Acc) (c : Char) : Except CsvErr (ModeG × Acc) :=
  if c = cfg.comma then .ok (.fieldStart, a.endField)
  else if c = '\n' then .ok (.recStart, a.endRecord)
  else if c = '"' then .error .bareQuote
  else .ok (.unq, a.push c)

def stepStartG (cfg : ReaderCfg) (a : Acc) (c : Char) : Except CsvErr (ModeG × Acc) :=
  if c = '"' then .ok (.quo, a) else stepUnqG cfg a c

def stepG (cfg : ReaderCfg) : ModeG → Acc → Char → Except CsvErr (ModeG × Acc)
  | .recStart, a, c =>
    if cfg.comment = some c then .ok (.cmt, a)          -- comment line: skipped up to its LF
    else if c = '\n' then .ok (.recStart, a)
    else stepStartG cfg a c
  | .cmt, a, c => if c = '\n' then .ok (.recStart, a) else .ok (.cmt, a)
  | .fieldStart, a, c => stepStartG cfg a c
  | .unq, a, c => stepUnqG cfg a c
  | .quo, a, c => if c = '"' then .ok (.qq, a) else .ok (.quo, a.push c)
  | .qq, a, c =>
    if c = '"' then .ok (.quo, a.push '"')
    else if c = cfg.comma then .ok (.fieldStart, a.endField)
    else if c = '\n' then .ok (.recStart, a.endRecord)
    else .error .quote

def eofG : ModeG → Acc → Parsed
  | .recStart, a => ⟨a.recs.reverse, none⟩
  | .cmt, a => ⟨a.recs.reverse, none⟩
  | .fieldStart, a => ⟨a.endRecord.recs.reverse, none⟩
  | .unq, a => ⟨a.endRecord.recs.reverse, none⟩
  | .quo, a => ⟨a.recs.reverse, some .quote⟩
  | .qq, a => ⟨a.endRecord.recs.reverse, none⟩

def runG (cfg : ReaderCfg) : ModeG → Acc → Str → Parsed
  | m, a, [] => eofG m a
  | m, a, c :: rest =>
    if c = '\r' ∧ rest = [] then eofG m a
    else if c = '\r' ∧ rest.head? = some '\n' then runG cfg m a rest
    else match stepG cfg m a c with
      | .error e => ⟨a.recs.reverse, some e⟩
      | .ok (m', a') => runG cfg m' a' rest

/-- `csv.Reader` with the given settings over a whole input. -/
def parseG (cfg : ReaderCfg) (s : Str) : Parsed :=
  if cfg.lazyQuotes || cfg.trimLeadingSpace || cfg.fieldsPerRecord ≥ 0 then ⟨[], some .unsupportedSettings⟩
  else runG cfg .recStart ⟨[], [], []⟩ s

/-- No CR directly followed by LF. -/
def noCRLF : Str → Bool
  | [] => true
  | c :: cs => !(c = '\r' && cs.head? = some '\n') && noCRLF cs

/-- Records the reader returns unchanged: at least one field, not the single empty field (its
line is empty and empty lines are skipped), no field containing CR LF. -/
def recOK (r : List Str) : Bool :=
  r ≠ [] && r ≠ [[]] && r.all noCRLF

end PV.C30
