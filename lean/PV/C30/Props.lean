/-
C30 property theorems.  Core Lean only.

Full-strength statement (the property): for ANY set-field contents, keyed or not,
    importCSV bufSize (src.emptyLike cols) src.exportCSV = (dst, none)  and  dst.contents ≈ src.contents.
The current code does not satisfy it on three input classes; each is excluded below by an explicit
hypothesis, is proved to fail on the model by a witness theorem, and is replayed on the real code by
the harness (tags in known_findings.jsonl):
  * a key containing CR LF       - encoding/csv folds CR LF to LF inside quoted fields (`key-crlf-folded`);
  * an empty row key             - bufferBits skips records whose first field is "" (`empty-row-key-skipped`);
  * a batch whose column keys are all empty - http.Bits.ColumnIDs() sends ids, API.Import refuses them
                                   (`empty-col-key-batch-rejected`).  The hypothesis used here (no empty
                                   column key at all) is slightly stronger than forced: an empty column
                                   key in a batch with a non-empty one imports fine (example below).
-/
import PV.C30.Model
import PV.C30.Spec
import PV.C30.LemmasCsv
import PV.C30.LemmasRT
import PV.C30.Gen
namespace PV.C30
open List

/-! ### CSV: the reader undoes the writer -/

/-- `read (write recs) = recs` for every list of records that have at least one field, are not the
single empty field, and contain no CR LF (`recOK`, decidable).  Bare CR, LF, quotes, commas, leading
spaces, `\.`, Unicode are all covered. -/
theorem C30_csv (recs : List (List Str)) (h : ∀ r ∈ recs, recOK r = true) :
    parseG codeReader (writeAllW codeWriter recs) = ⟨recs, none⟩ := by
  rw [parseG_code, writeAllW_code]
  exact parse_writeAll recs h

/-- The settings found in the source (regenerated `Gen.lean`: every assignment to a field of the
`csv.Reader` of `ImportCommand.bufferBits` and of the `csv.Writer` of `API.ExportCSV`) are the ones
`C30_csv` and the round-trip theorem are stated for. -/
theorem C30_settings : Gen.importReader = codeReader ∧ Gen.exportWriter = codeWriter := by decide

/-- With another setting the statement is false, e.g. a reader with `Comment = '#'` drops every record
whose first field starts with `#` (written unquoted): -/
theorem C30_csv_comment_setting_witness :
    parseG { codeReader with comment := some '#' } (writeAllW codeWriter [[['#', 'a'], ['1']], [['b'], ['2']]])
      = ⟨[[['b'], ['2']]], none⟩ := by decide

example : recOK [[' ', 'a'], ['"', ',', '\n', '\r'], [], ['\\', '.'], ['é', '\r']] = true := by decide

/-- Excluded point 1 of C30_csv: CR LF inside a field comes back as LF. -/
theorem C30_csv_crlf_witness :
    parseG codeReader (writeAllW codeWriter [[['a', '\r', '\n', 'b']]]) = ⟨[[['a', '\n', 'b']]], none⟩ := by decide

/-- Excluded point 2 of C30_csv: the record holding one empty field is written as an empty line,
which the reader skips. -/
theorem C30_csv_empty_record_witness :
    parseG codeReader (writeAllW codeWriter [[[]]]) = ⟨[], none⟩ := by decide

/-! ### export covers every bit -/

theorem mem_shardRange (s : Nat) : ∀ n, s ∈ shardRange n ↔ s < n
  | 0 => by simp [shardRange]
  | n + 1 => by
    simp only [shardRange, mem_append, mem_singleton, mem_shardRange s n]
    omega

/-- The exported records are the records of a list holding exactly the field's bits, provided the
index's max shard bounds the field's shards (an invariant of the holder). -/
theorem C30_export_covers (src : Field) (h : ∀ b ∈ src.bits, b.col / SW ≤ src.maxShard) :
    ∃ L : List Bit, src.exportRecords = L.map (recOf src) ∧ ∀ b, b ∈ L ↔ b ∈ src.bits := by
  refine ⟨(shardRange (src.maxShard + 1)).flatMap
      (fun s => src.bits.filter (fun b => b.col / SW = s)), ?_, ?_⟩
  · simp only [Field.exportRecords, map_flatMap]
    rfl
  · intro b
    simp only [mem_flatMap, mem_filter, decide_eq_true_eq, mem_shardRange]
    constructor
    · rintro ⟨s, _, hb, _⟩; exact hb
    · intro hb; exact ⟨b.col / SW, by have := h b hb; omega, hb, rfl⟩

/-! ### the round trip -/

/--
Export then import reproduces the field (bits and keys), for every field contents keyed or not, every
BufferSize, every destination whose index already knows arbitrary column keys - EXCEPT the three
classes named at the top of this file (hypotheses `hcsv`, `hrow`, `hcol`).  `hshard` and `hu64` are
invariants of any real field (max shard of the index bounds the field's shards; ids are uint64).
-/
theorem C30_roundtrip_partial (src : Field) (cols0 : Store) (bufSize : Nat)
    (hshard : ∀ b ∈ src.bits, b.col / SW ≤ src.maxShard)
    (hu64 : ∀ b ∈ src.bits, (src.rowKeys = false → b.row < 2 ^ 64) ∧ (src.colKeys = false → b.col < 2 ^ 64))
    (hcsv : ∀ p ∈ src.contents, noCRLF p.1 = true ∧ noCRLF p.2 = true)
    (hrow : src.rowKeys = true → ∀ p ∈ src.contents, p.1 ≠ [])
    (hcol : src.colKeys = true → ∀ p ∈ src.contents, p.2 ≠ []) :
    (importCSV bufSize (src.emptyLike cols0) src.exportCSV).2 = none ∧
    ∀ p, p ∈ (importCSV bufSize (src.emptyLike cols0) src.exportCSV).1.contents ↔ p ∈ src.contents := by
  obtain ⟨L, hL, hmem⟩ := C30_export_covers src hshard
  have hcont : ∀ b ∈ L, srcLabel src b ∈ src.contents := by
    intro b hb
    exact mem_map.mpr ⟨b, (hmem b).mp hb, rfl⟩
  -- the CSV text parses back to the exported records
  have hparse : parseG codeReader src.exportCSV = ⟨L.map (recOf src), none⟩ := by
    unfold Field.exportCSV
    rw [hL]
    apply C30_csv
    intro r hr
    obtain ⟨b, hb, rfl⟩ := mem_map.mp hr
    have := hcsv _ (hcont b hb)
    simp [recOK, recOf, srcLabel] at this ⊢
    exact this
  -- every exported bit is good
  have hgood : ∀ b ∈ L, Good src b := by
    intro b hb
    have hb' := (hmem b).mp hb
    exact ⟨fun h => hrow h _ (hcont b hb), fun h => hcol h _ (hcont b hb), (hu64 b hb').1, (hu64 b hb').2⟩
  have hinv0 : Inv (src.emptyLike cols0) := by
    constructor <;> intro _ b hb <;> cases hb
  obtain ⟨f', buf', e, inv', r', c', ok', cont'⟩ :=
    bufferLoop_ok src bufSize L hgood (src.emptyLike cols0) [] hinv0 rfl rfl (batchOK_nil _ _)
  obtain ⟨f'', e2, _, _, _, cont''⟩ := importBits_ok f' buf' (by rw [r', c']; exact ok') inv'
  have himp : importCSV bufSize (src.emptyLike cols0) src.exportCSV = (f'', none) := by
    unfold importCSV
    simp only [hparse, e, e2]
  rw [himp]
  refine ⟨rfl, fun p => ?_⟩
  rw [cont'' p, r', c', cont' p]
  simp only [Field.emptyLike, Field.contents, map_nil, not_mem_nil, false_or]
  constructor
  · intro h
    obtain ⟨b, hb, rfl⟩ := mem_map.mp h
    exact hcont b hb
  · intro h
    obtain ⟨b, hb, rfl⟩ := mem_map.mp h
    exact mem_map.mpr ⟨b, (hmem b).mpr hb, rfl⟩

/-- The hypotheses are satisfiable by a non-trivial field: row and column keys with a comma, a quote,
a leading space, a bare CR, a newline and Unicode, two bits. -/
example :
    let src : Field := ⟨true, true, [['a', ',', '"'], [' ', 'é', '\r']], [['x', '\n'], ['☃']],
      [⟨1, 1⟩, ⟨2, 2⟩], 0⟩
    (∀ b ∈ src.bits, b.col / SW ≤ src.maxShard) ∧
    (∀ p ∈ src.contents, noCRLF p.1 = true ∧ noCRLF p.2 = true) ∧
    (∀ p ∈ src.contents, p.1 ≠ []) ∧ (∀ p ∈ src.contents, p.2 ≠ []) := by decide

/-! ### witnesses: the three recorded defect classes (model = code, both differ from the property) -/

/-- A key containing CR LF comes back with LF only (encoding/csv newline folding). -/
theorem C30_key_crlf_folded_witness :
    let src : Field := ⟨true, false, [['a', '\r', '\n', 'b']], [], [⟨1, 3⟩], 0⟩
    (importCSV 10 (src.emptyLike []) src.exportCSV).1.contents = [(['a', '\n', 'b'], ['3'])] ∧
    src.contents = [(['a', '\r', '\n', 'b'], ['3'])] := by decide

/-- A bit whose row key is the empty string is dropped silently by the import. -/
theorem C30_empty_row_key_skipped_witness :
    let src : Field := ⟨true, false, [[], ['b']], [], [⟨1, 3⟩, ⟨2, 4⟩], 0⟩
    importCSV 10 (src.emptyLike []) src.exportCSV =
      (⟨true, false, [['b']], [], [⟨1, 4⟩], 0⟩, none) ∧
    src.contents = [([], ['3']), (['b'], ['4'])] := by decide

/-- A batch whose column keys are all empty is refused by the server; nothing is imported. -/
theorem C30_empty_col_key_batch_rejected_witness :
    let src : Field := ⟨true, true, [['a']], [[]], [⟨1, 1⟩], 0⟩
    (importCSV 10 (src.emptyLike []) src.exportCSV).2 = some .server ∧
    (importCSV 10 (src.emptyLike []) src.exportCSV).1.contents = [] ∧
    src.contents = [(['a'], [])] := by decide

/-- ... whereas an empty column key next to a non-empty one in the same batch round-trips. -/
example :
    let src : Field := ⟨true, true, [['a'], ['b']], [[], ['y']], [⟨1, 1⟩, ⟨2, 2⟩], 0⟩
    (importCSV 10 (src.emptyLike []) src.exportCSV).2 = none ∧
    (importCSV 10 (src.emptyLike []) src.exportCSV).1.contents = src.contents := by decide

end PV.C30
