/-
pm_c14: model driver for C14.  One op per line; `case k` resets the state.

Fragment level (hooked `fragment`, values are base-relative, the harness keeps |v| < 2^depth):
  frag <d>                       fresh BSI fragment, bit depth d used by the following ops   -> ok
  depth <d>                      continue with a larger bit depth (growth)                    -> ok
  set <col> <v>                  setValue                                                     -> true|false (changed)
  clr <col> <v>                  clearValue                                                   -> ok
  imp <small|large> <0|1> <c:v,c:v,...>   importValue (path forced through MaxOpN; 1 = clear) -> ok
  val <col>                      value                                                        -> <v>|null
  rng <op> <p>                   rangeOp, op in == != < <= > >=                               -> [cols]
  btw <lo> <hi>                  rangeBetween                                                 -> [cols]
  nn                             notNull                                                      -> [cols]
  sum|min|max <filter>           filter = * (none) | - (empty row) | c,c,c                    -> <v>:<count>
Field level (in-process server; PQL and the Go API of Field):
  field <min> <max> <base> <d>   new index + int field, base/depth forced when not (0,1)      -> ok
  pset <col> <v>                 PQL Set(col, v=<v>)                -> true|false|err:too-low|err:too-high
  pimp <0|1> <c:v,...>           API.ImportValue (1 = clear)        -> ok|err:too-low|err:too-high
  fval <col>                     Field.Value                        -> <v>|null
  prow <op> <p>                  PQL Row(v <op> p)                  -> [cols]
  pbtw <lo> <hi>                 PQL Row(v >< [lo,hi])              -> [cols]
  pnn                            PQL Row(v != null)                 -> [cols]
  psum|pmin|pmax <filter>        PQL Sum/Min/Max([Row(g=1),] field=v); the harness loads the filter into g
  gsum|gmin|gmax <filter>        Field.Sum/Min/Max(filter, "v")     -> <v>:<count>, Min/Max print -:0 for count 0
  opts                           Field.Options(): base and bit depth -> <base> <depth>
`#spec` is PV.C14.Spec on the column ↦ value map; `#tag` names the op.
-/
import PV.Common.Proto
import PV.C14.Model
import PV.C14.Spec
open PV.Proto PV.C14

structure St where
  mode : Nat := 0        -- 0 nothing opened, 1 fragment level, 2 field level
  d : Nat := 0
  cols : List Rec := []
  store : Spec.Store := []
  fld : Field := ⟨⟨0, 0, 0, 0⟩, []⟩

def parseOp : String → Option Op
  | "==" => some .eq
  | "!=" => some .neq
  | "<" => some .lt
  | "<=" => some .lte
  | ">" => some .gt
  | ">=" => some .gte
  | _ => none

def parsePair (s : String) : Option (Nat × Int) :=
  match s.splitOn ":" with
  | [c, v] => do pure (← c.toNat?, ← v.toInt?)
  | _ => none

def parsePairs (s : String) : Option (List (Nat × Int)) :=
  if s = "-" || s = "" then some [] else (s.splitOn ",").mapM parsePair

def parseFilter (s : String) : Option Filter :=
  if s = "*" then some none else (csvNats? s).map some

/-- Sums are printed as the `int64` the code holds: the exact sum modulo 2^64. -/
def wrap64 (v : Int) : Int := (v + 2 ^ 63) % 2 ^ 64 - 2 ^ 63

def showVC (v : Int) (c : Nat) : String := s!"{v}:{c}"
def showSum (v : Int) (c : Int) : String := s!"{wrap64 v}:{c}"
def showExt (v : Int) (c : Int) : String := if c = 0 then "-:0" else s!"{v}:{c}"
def showOpt : Option Int → String
  | none => "null"
  | some v => toString v

def specExt (r : Int × Nat) : String := showExt r.1 r.2

def fragOps : List String := ["depth", "set", "clr", "imp", "val", "rng", "btw", "nn", "sum", "min", "max"]
def fieldOps : List String := ["pset", "pimp", "fval", "prow", "pbtw", "pnn", "psum", "pmin", "pmax",
  "gsum", "gmin", "gmax", "opts"]

def stepOpen (s : St) (ws : List String) : St × Ans :=
  let bad := (s, ans "bad-op")
  match ws with
  | ["frag", d] =>
    match d.toNat? with
    | some d => ({ mode := 1, d := d }, ans "ok")
    | none => bad
  | ["depth", d] =>
    match d.toNat? with
    | some d => ({ s with d := d }, ans "ok")
    | none => bad
  | ["set", c, v] =>
    match c.toNat?, v.toInt? with
    | some c, some v =>
      let (cols, ch) := setCol s.cols c s.d v false
      let (st, sch) := Spec.write s.store c v false
      ({ s with cols := cols, store := st }, ans2 (showBool ch) (showBool sch) "set")
    | _, _ => bad
  | ["clr", c, v] =>
    match c.toNat?, v.toInt? with
    | some c, some v =>
      let (cols, _) := setCol s.cols c s.d v true
      let (st, _) := Spec.write s.store c v true
      ({ s with cols := cols, store := st }, ans "ok")
    | _, _ => bad
  | ["imp", _, cl, ps] =>
    match parsePairs ps with
    | some pairs =>
      let clear := cl = "1"
      ({ s with cols := importCols s.cols pairs s.d clear, store := Spec.importPairs s.store pairs clear }, ans "ok")
    | none => bad
  | ["val", c] =>
    match c.toNat? with
    | some c => (s, ans2 (showOpt ((getRec s.cols c).value s.d)) (showOpt (Spec.get s.store c)) "val")
    | none => bad
  | ["rng", op, p] =>
    match parseOp op, p.toInt? with
    | some op, some p =>
      (s, ans2 (showNats (selectCols s.cols (fun F => rangeOp F op s.d p)))
               (showNats (Spec.rowRange s.store op p)) ("rng" ++ toString (repr op)))
    | _, _ => bad
  | ["btw", lo, hi] =>
    match lo.toInt?, hi.toInt? with
    | some lo, some hi =>
      (s, ans2 (showNats (selectCols s.cols (fun F => rangeBetween F s.d lo hi)))
               (showNats (Spec.rowBetween s.store lo hi)) "btw")
    | _, _ => bad
  | ["nn"] =>
    (s, ans2 (showNats (selectCols s.cols (fun F => notNull F))) (showNats (Spec.rowNotNull s.store)) "nn")
  | ["sum", f] =>
    match parseFilter f with
    | some f =>
      let (v, c) := fragSum s.cols f s.d
      let (sv, sc) := Spec.sumCount (Spec.selected s.store f)
      (s, ans2 (showSum v c) (showSum sv sc) "sum")
    | none => bad
  | ["min", f] =>
    match parseFilter f with
    | some f =>
      let (v, c) := fragMin s.cols f s.d
      let (sv, sc) := Spec.minCount (Spec.selected s.store f)
      (s, ans2 (showVC v c) (showVC sv sc) "min")
    | none => bad
  | ["max", f] =>
    match parseFilter f with
    | some f =>
      let (v, c) := fragMax s.cols f s.d
      let (sv, sc) := Spec.maxCount (Spec.selected s.store f)
      (s, ans2 (showVC v c) (showVC sv sc) "max")
    | none => bad
  -- field level
  | ["field", mn, mx, base, d] =>
    match mn.toInt?, mx.toInt?, base.toInt?, d.toNat? with
    | some mn, some mx, some base, some d => ({ mode := 2, fld := ⟨⟨mn, mx, base, d⟩, []⟩ }, ans "ok")
    | _, _, _, _ => bad
  | ["pset", c, v] =>
    match c.toNat?, v.toInt? with
    | some c, some v =>
      let (f, r) := s.fld.setValue c v
      let specR : String × Spec.Store :=
        if v < s.fld.g.min then ("err:too-low", s.store)
        else if v > s.fld.g.max then ("err:too-high", s.store)
        else let (st, ch) := Spec.write s.store c v false; (showBool ch, st)
      let m := match r with
        | .changed b => showBool b
        | .tooLow => "err:too-low"
        | .tooHigh => "err:too-high"
      ({ s with fld := f, store := specR.2 }, ans2 m specR.1 "pset")
    | _, _ => bad
  | ["pimp", cl, ps] =>
    match parsePairs ps with
    | some pairs =>
      let clear := cl = "1"
      let (f, r) := s.fld.importValue pairs clear
      let m := match r with
        | .ok => "ok"
        | .tooLow => "err:too-low"
        | .tooHigh => "err:too-high"
      let sr := match firstBad s.fld.g pairs with
        | .ok => "ok"
        | .tooLow => "err:too-low"
        | .tooHigh => "err:too-high"
      let st := if sr = "ok" then Spec.importPairs s.store pairs clear else s.store
      ({ s with fld := f, store := st }, ans2 m sr "pimp")
    | none => bad
  | ["fval", c] =>
    match c.toNat? with
    | some c => (s, ans2 (showOpt (s.fld.value c)) (showOpt (Spec.get s.store c)) "fval")
    | none => bad
  | ["prow", op, p] =>
    match parseOp op, p.toInt? with
    | some op, some p =>
      (s, ans2 (showNats (s.fld.rowRange op p)) (showNats (Spec.rowRange s.store op p)) ("prow" ++ toString (repr op)))
    | _, _ => bad
  | ["pbtw", lo, hi] =>
    match lo.toInt?, hi.toInt? with
    | some lo, some hi =>
      (s, ans2 (showNats (s.fld.rowBetween lo hi)) (showNats (Spec.rowBetween s.store lo hi)) "pbtw")
    | _, _ => bad
  | ["pnn"] => (s, ans2 (showNats s.fld.rowNotNull) (showNats (Spec.rowNotNull s.store)) "pnn")
  | [op, f] =>
    match parseFilter f with
    | none => bad
    | some f =>
      let sel := Spec.selected s.store f
      let sumS := let (sv, sc) := Spec.sumCount sel; showSum sv sc
      match op with
      | "psum" => let r := s.fld.pqlSum f; (s, ans2 (showSum r.val r.count) sumS "psum")
      | "gsum" => let r := s.fld.apiSum f; (s, ans2 (showSum r.val r.count) sumS "gsum")
      | "pmin" => let r := s.fld.pqlMin f; (s, ans2 (showExt r.val r.count) (specExt (Spec.minCount sel)) "pmin")
      | "gmin" => let r := s.fld.apiMin f; (s, ans2 (showExt r.val r.count) (specExt (Spec.minCount sel)) "gmin")
      | "pmax" => let r := s.fld.pqlMax f; (s, ans2 (showExt r.val r.count) (specExt (Spec.maxCount sel)) "pmax")
      | "gmax" => let r := s.fld.apiMax f; (s, ans2 (showExt r.val r.count) (specExt (Spec.maxCount sel)) "gmax")
      | _ => bad
  | ["opts"] => (s, ans s!"{s.fld.g.base} {s.fld.g.depth}")
  | _ => bad

/-- Ops other than `frag` / `field` need the matching level to be open (the harness answers
`bad-op` otherwise, so a shrunk replay keeps its opening line). -/
def step (s : St) (ws : List String) : St × Ans :=
  match ws with
  | op :: _ =>
    if (fragOps.contains op && s.mode != 1) || (fieldOps.contains op && s.mode != 2) then (s, ans "bad-op")
    else stepOpen s ws
  | [] => (s, ans "bad-op")

def main : IO Unit := run ({} : St) step
