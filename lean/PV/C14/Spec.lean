/-
C14 spec: an int field is a finite map column ↦ value.  Reading a column returns its last value;
a range query returns exactly the columns whose value satisfies the comparison; Sum/Min/Max are
the sum, the extreme value and the number of columns holding it, over the (optionally filtered)
columns that hold a value.  No bits, no base, no bit depth, no shards.
-/
import PV.C14.Model
namespace PV.C14.Spec
open PV.C14

/-- column ↦ value, ascending by column, at most one entry per column. -/
abbrev Store := List (Nat × Int)

def get : Store → Nat → Option Int
  | [], _ => none
  | (c, v) :: rest, k => if c = k then some v else get rest k

def put : Store → Nat → Int → Store
  | [], k, v => [(k, v)]
  | (c, w) :: rest, k, v =>
    if k < c then (k, v) :: (c, w) :: rest
    else if k = c then (k, v) :: rest
    else (c, w) :: put rest k v

def erase : Store → Nat → Store
  | [], _ => []
  | (c, w) :: rest, k => if c = k then rest else (c, w) :: erase rest k

/-- Writing (or clearing) one column; `changed` = the column did not already hold that. -/
def write (s : Store) (c : Nat) (v : Int) (clear : Bool) : Store × Bool :=
  if clear then (erase s c, (get s c).isSome) else (put s c v, decide (get s c ≠ some v))

def importPairs (s : Store) (pairs : List (Nat × Int)) (clear : Bool) : Store :=
  pairs.foldl (fun s p => (write s p.1 p.2 clear).1) s

/-- The comparison a range query asks for. -/
def cmp (op : Op) (v p : Int) : Bool :=
  match op with
  | .eq => decide (v = p)
  | .neq => decide (v ≠ p)
  | .lt => decide (v < p)
  | .lte => decide (v ≤ p)
  | .gt => decide (v > p)
  | .gte => decide (v ≥ p)

def rowRange (s : Store) (op : Op) (p : Int) : List Nat :=
  (s.filter (fun cv => cmp op cv.2 p)).map (·.1)

def rowBetween (s : Store) (lo hi : Int) : List Nat :=
  (s.filter (fun cv => decide (lo ≤ cv.2) && decide (cv.2 ≤ hi))).map (·.1)

def rowNotNull (s : Store) : List Nat := s.map (·.1)

/-- Values of the columns selected by the filter. -/
def selected (s : Store) (f : Filter) : List Int :=
  (s.filter (fun cv => f.has cv.1)).map (·.2)

def sumCount (l : List Int) : Int × Nat := (l.foldl (· + ·) 0, l.length)

/-- Smallest element and how often it occurs; `(0, 0)` for the empty list. -/
def minCount : List Int → Int × Nat
  | [] => (0, 0)
  | x :: xs =>
    match minCount xs with
    | (_, 0) => (x, 1)
    | (m, n + 1) => if x < m then (x, 1) else if x = m then (m, n + 2) else (m, n + 1)

def maxCount : List Int → Int × Nat
  | [] => (0, 0)
  | x :: xs =>
    match maxCount xs with
    | (_, 0) => (x, 1)
    | (m, n + 1) => if x > m then (x, 1) else if x = m then (m, n + 2) else (m, n + 1)

end PV.C14.Spec
