/-
C14 helper lemmas: fragment.sum / min / max compute the exact sum, extreme value and multiplicity
of the considered columns (Spec.sumCount / minCount / maxCount on their values).  Core Lean only.
-/
import PV.C14.LemmasField
import PV.C14.Spec
namespace PV.C14
open BA

def sumInt : List Int → Int
  | [] => 0
  | x :: xs => x + sumInt xs

theorem foldl_add_eq (l : List Int) (a : Int) : l.foldl (· + ·) a = a + sumInt l := by
  induction l generalizing a with
  | nil => simp [sumInt]
  | cons x xs ih => simp only [List.foldl_cons, ih, sumInt]; omega

/-- low `d` bits of a column's magnitude -/
def Rec.low (r : Rec) (d : Nat) : Nat := lowBits r.mag.testBit d

def sumLow (l : List Rec) (d : Nat) : Nat :=
  match l with
  | [] => 0
  | r :: rs => r.low d + sumLow rs d

theorem sumLow_succ (l : List Rec) (d : Nat) :
    sumLow l (d+1) = sumLow l d + 2^d * bitCount d l := by
  induction l with
  | nil => simp [sumLow, bitCount]
  | cons r rs ih =>
    simp only [sumLow, ih, Rec.low, lowBits, bitCount, List.filter_cons]
    cases h : r.mag.testBit d
    · simp only [Bool.false_eq_true, if_false]; simp only [bitCount] at *; omega
    · simp only [if_true, List.length_cons, Nat.mul_add]; simp only [bitCount] at *; omega

/-- The bit-plane sum of `fragment.sum`. -/
theorem planes_eq (prow nrow : List Rec) (d : Nat) :
    (List.range d).foldl
      (fun (s : Int) i => s + ((2 ^ i * bitCount i prow : Nat) : Int) - ((2 ^ i * bitCount i nrow : Nat) : Int)) 0
    = (sumLow prow d : Int) - (sumLow nrow d : Int) := by
  induction d with
  | zero =>
    have : ∀ l : List Rec, sumLow l 0 = 0 := by
      intro l; induction l with
      | nil => rfl
      | cons r rs ih => simp [sumLow, ih, Rec.low, lowBits]
    simp [this]
  | succ d ih =>
    rw [List.range_succ, List.foldl_append, ih]
    simp only [List.foldl_cons, List.foldl_nil, sumLow_succ]
    push_cast
    omega

theorem sumVal_split (l : List Rec) (d : Nat) :
    sumInt (l.map (fun r => r.frag.val d)) =
      (sumLow (l.filter (fun r => !r.sg)) d : Int) - (sumLow (l.filter (fun r => r.sg)) d : Int) := by
  induction l with
  | nil => simp [sumInt, sumLow]
  | cons r rs ih =>
    simp only [List.map_cons, sumInt, ih, List.filter_cons]
    cases h : r.sg
    · simp only [Bool.not_false, if_true, Bool.false_eq_true, if_false, sumLow, Frag.val, Frag.mag, Rec.low, Rec.frag, h]
      push_cast; omega
    · simp only [Bool.not_true, Bool.false_eq_true, if_false, if_true, sumLow, Frag.val, Frag.mag, Rec.low, Rec.frag, h]
      push_cast; omega

/-- `fragment.sum`: the exact sum of the values of the considered columns and their number. -/
theorem fragSum_eq (cols : List Rec) (flt : Filter) (d : Nat) :
    fragSum cols flt d =
      (sumInt ((considerOf cols flt).map (fun r => r.frag.val d)), (considerOf cols flt).length) := by
  simp only [fragSum, planes_eq, sumVal_split]

theorem Rec.low_succ (r : Rec) (n : Nat) : r.low (n+1) = r.low n + (if r.mag.testBit n then 2^n else 0) := rfl
theorem Rec.low_lt (r : Rec) (n : Nat) : r.low n < 2^n := lowBits_lt _ _

theorem length_pos_mem {α} {l : List α} (h : l.length > 0) : ∃ x, x ∈ l := by
  cases l with
  | nil => simp at h
  | cons x xs => exact ⟨x, List.mem_cons_self ..⟩

theorem minU_spec (n : Nat) (filter : List Rec) (acc cnt : Nat) (hne : filter ≠ [])
    (h0 : n = 0 → cnt = filter.length) :
    ∃ m, minU n filter acc cnt = (acc + m, (filter.filter (fun r => r.low n = m)).length) ∧
      (∃ r ∈ filter, r.low n = m) ∧ ∀ r ∈ filter, m ≤ r.low n := by
  induction n generalizing filter acc cnt with
  | zero =>
    refine ⟨0, ?_, ?_, ?_⟩
    · have : filter.filter (fun r => r.low 0 = 0) = filter := by
        apply List.filter_eq_self.mpr; intro r _; simp [Rec.low, lowBits]
      simp only [minU, this, h0 rfl, Nat.add_zero]
    · cases filter with
      | nil => exact absurd rfl hne
      | cons x xs => exact ⟨x, List.mem_cons_self .., by simp [Rec.low, lowBits]⟩
    · intro r _; exact Nat.zero_le _
  | succ n ih =>
    simp only [minU]
    by_cases hrow : (filter.filter (fun r => !r.mag.testBit n)).length > 0
    · simp only [hrow, if_true]
      have hne' : filter.filter (fun r => !r.mag.testBit n) ≠ [] := by
        intro h; rw [h] at hrow; simp at hrow
      obtain ⟨m, hres, ⟨w, hw, hwm⟩, hmin⟩ := ih (filter.filter (fun r => !r.mag.testBit n)) acc _ hne' (fun _ => rfl)
      have hwf := List.mem_filter.mp hw
      have hmlt : m < 2^n := by rw [← hwm]; exact Rec.low_lt w n
      refine ⟨m, ?_, ⟨w, hwf.1, ?_⟩, ?_⟩
      · rw [hres, List.filter_filter]
        congr 2
        apply List.filter_congr
        intro r _
        have := Rec.low_lt r n
        rw [Rec.low_succ]
        cases hb : r.mag.testBit n <;> simp <;> omega
      · rw [Rec.low_succ]; have := hwf.2; simp at this; simp [this, hwm]
      · intro r hr
        rw [Rec.low_succ]
        cases hb : r.mag.testBit n
        · have := hmin r (List.mem_filter.mpr ⟨hr, by simp [hb]⟩); simp; omega
        · simp; omega
    · simp only [hrow, if_false]
      have hall : ∀ r ∈ filter, r.mag.testBit n = true := by
        intro r hr
        cases hb : r.mag.testBit n
        · exfalso; apply hrow
          exact List.length_pos_of_mem (List.mem_filter.mpr ⟨hr, by simp [hb]⟩)
        · rfl
      obtain ⟨m, hres, ⟨w, hw, hwm⟩, hmin⟩ := ih filter (acc + 2^n)
        (if n = 0 then filter.length else (filter.filter (fun r => !r.mag.testBit n)).length) hne
        (fun h => by simp [h])
      refine ⟨m + 2^n, ?_, ⟨w, hw, ?_⟩, ?_⟩
      · rw [hres]
        refine Prod.ext (by simp; omega) ?_
        simp only
        congr 1
        apply List.filter_congr
        intro r hr
        rw [Rec.low_succ, hall r hr]; simp
      · rw [Rec.low_succ, hall w hw]; simp [hwm]
      · intro r hr
        rw [Rec.low_succ, hall r hr]; have := hmin r hr; simp; omega

theorem maxU_spec (n : Nat) (filter : List Rec) (acc cnt : Nat) (hne : filter ≠ [])
    (h0 : n = 0 → cnt = filter.length) :
    ∃ m, maxU n filter acc cnt = (acc + m, (filter.filter (fun r => r.low n = m)).length) ∧
      (∃ r ∈ filter, r.low n = m) ∧ ∀ r ∈ filter, r.low n ≤ m := by
  induction n generalizing filter acc cnt with
  | zero =>
    refine ⟨0, ?_, ?_, ?_⟩
    · have : filter.filter (fun r => r.low 0 = 0) = filter := by
        apply List.filter_eq_self.mpr; intro r _; simp [Rec.low, lowBits]
      simp only [maxU, this, h0 rfl, Nat.add_zero]
    · cases filter with
      | nil => exact absurd rfl hne
      | cons x xs => exact ⟨x, List.mem_cons_self .., by simp [Rec.low, lowBits]⟩
    · intro r _; simp [Rec.low, lowBits]
  | succ n ih =>
    simp only [maxU]
    by_cases hrow : (filter.filter (fun r => r.mag.testBit n)).length > 0
    · simp only [hrow, if_true]
      have hne' : filter.filter (fun r => r.mag.testBit n) ≠ [] := by
        intro h; rw [h] at hrow; simp at hrow
      obtain ⟨m, hres, ⟨w, hw, hwm⟩, hmax⟩ := ih (filter.filter (fun r => r.mag.testBit n)) (acc + 2^n) _ hne' (fun _ => rfl)
      have hwf := List.mem_filter.mp hw
      refine ⟨m + 2^n, ?_, ⟨w, hwf.1, ?_⟩, ?_⟩
      · rw [hres, List.filter_filter]
        refine Prod.ext (by simp; omega) ?_
        simp only
        congr 1
        apply List.filter_congr
        intro r _
        have := Rec.low_lt r n
        rw [Rec.low_succ]
        cases hb : r.mag.testBit n <;> simp <;> omega
      · rw [Rec.low_succ]; have := hwf.2; simp [this, hwm]
      · intro r hr
        rw [Rec.low_succ]
        have := Rec.low_lt r n
        cases hb : r.mag.testBit n
        · simp; omega
        · have := hmax r (List.mem_filter.mpr ⟨hr, hb⟩); simp; omega
    · simp only [hrow, if_false]
      have hall : ∀ r ∈ filter, r.mag.testBit n = false := by
        intro r hr
        cases hb : r.mag.testBit n
        · rfl
        · exfalso; apply hrow
          exact List.length_pos_of_mem (List.mem_filter.mpr ⟨hr, hb⟩)
      obtain ⟨m, hres, ⟨w, hw, hwm⟩, hmax⟩ := ih filter acc
        (if n = 0 then filter.length else (filter.filter (fun r => r.mag.testBit n)).length) hne
        (fun h => by simp [h])
      refine ⟨m, ?_, ⟨w, hw, ?_⟩, ?_⟩
      · rw [hres]
        congr 2
        apply List.filter_congr
        intro r hr
        rw [Rec.low_succ, hall r hr]; simp
      · rw [Rec.low_succ, hall w hw]; simp [hwm]
      · intro r hr
        rw [Rec.low_succ, hall r hr]; have := hmax r hr; simp; omega

/-! ### Spec.minCount / maxCount characterised -/

def IsMin (l : List Int) (m : Int) (k : Nat) : Prop :=
  m ∈ l ∧ (∀ x ∈ l, m ≤ x) ∧ k = (l.filter (fun x => decide (x = m))).length

def IsMax (l : List Int) (m : Int) (k : Nat) : Prop :=
  m ∈ l ∧ (∀ x ∈ l, x ≤ m) ∧ k = (l.filter (fun x => decide (x = m))).length

theorem IsMin.unique {l : List Int} {m m' : Int} {k k' : Nat} (h : IsMin l m k) (h' : IsMin l m' k') :
    (m, k) = (m', k') := by
  have e : m = m' := by have := h.2.1 m' h'.1; have := h'.2.1 m h.1; omega
  subst e
  rw [h.2.2, h'.2.2]

theorem IsMax.unique {l : List Int} {m m' : Int} {k k' : Nat} (h : IsMax l m k) (h' : IsMax l m' k') :
    (m, k) = (m', k') := by
  have e : m = m' := by have := h.2.1 m' h'.1; have := h'.2.1 m h.1; omega
  subst e
  rw [h.2.2, h'.2.2]

theorem IsMin.pos {l : List Int} {m : Int} {k : Nat} (h : IsMin l m k) : k ≥ 1 := by
  rw [h.2.2]
  exact List.length_pos_of_mem (List.mem_filter.mpr ⟨h.1, by simp⟩)

theorem IsMax.pos {l : List Int} {m : Int} {k : Nat} (h : IsMax l m k) : k ≥ 1 := by
  rw [h.2.2]
  exact List.length_pos_of_mem (List.mem_filter.mpr ⟨h.1, by simp⟩)

theorem filter_length_cons {α} (p : α → Bool) (x : α) (xs : List α) :
    (List.filter p (x :: xs)).length = (if p x then 1 else 0) + (List.filter p xs).length := by
  simp only [List.filter_cons]; split <;> simp <;> omega

theorem minCount_spec (l : List Int) (hl : l ≠ []) : IsMin l (Spec.minCount l).1 (Spec.minCount l).2 := by
  induction l with
  | nil => exact absurd rfl hl
  | cons x xs ih =>
    cases xs with
    | nil => simp [Spec.minCount, IsMin]
    | cons y ys =>
      have h := ih (by simp)
      have hp := h.pos
      generalize hmc : Spec.minCount (y :: ys) = mc at h hp
      obtain ⟨m, k⟩ := mc
      simp only at h hp
      cases k with
      | zero => omega
      | succ n =>
        have e : Spec.minCount (x :: y :: ys) =
            if x < m then (x, 1) else if x = m then (m, n + 2) else (m, n + 1) := by
          rw [Spec.minCount, hmc]
        rw [e]
        obtain ⟨hm, hle, hk⟩ := h
        split
        · rename_i hlt
          refine ⟨List.mem_cons_self .., ?_, ?_⟩
          · intro z hz; rcases List.mem_cons.mp hz with rfl | hz
            · omega
            · have := hle z hz; omega
          · have : (List.filter (fun z => decide (z = x)) (y :: ys)) = [] := by
              apply List.filter_eq_nil_iff.mpr; intro z hz; have := hle z hz; simp; omega
            rw [filter_length_cons, this]; simp
        · split
          · rename_i hnlt heq
            subst heq
            refine ⟨List.mem_cons_self .., ?_, ?_⟩
            · intro z hz; rcases List.mem_cons.mp hz with rfl | hz
              · omega
              · exact hle z hz
            · rw [filter_length_cons, ← hk]; simp; omega
          · rename_i hnlt hne
            refine ⟨List.mem_cons_of_mem _ hm, ?_, ?_⟩
            · intro z hz; rcases List.mem_cons.mp hz with rfl | hz
              · omega
              · exact hle z hz
            · have : decide (x = m) = false := by simp; omega
              rw [filter_length_cons, ← hk, this]; simp

theorem maxCount_spec (l : List Int) (hl : l ≠ []) : IsMax l (Spec.maxCount l).1 (Spec.maxCount l).2 := by
  induction l with
  | nil => exact absurd rfl hl
  | cons x xs ih =>
    cases xs with
    | nil => simp [Spec.maxCount, IsMax]
    | cons y ys =>
      have h := ih (by simp)
      have hp := h.pos
      generalize hmc : Spec.maxCount (y :: ys) = mc at h hp
      obtain ⟨m, k⟩ := mc
      simp only at h hp
      cases k with
      | zero => omega
      | succ n =>
        have e : Spec.maxCount (x :: y :: ys) =
            if x > m then (x, 1) else if x = m then (m, n + 2) else (m, n + 1) := by
          rw [Spec.maxCount, hmc]
        rw [e]
        obtain ⟨hm, hle, hk⟩ := h
        split
        · rename_i hlt
          refine ⟨List.mem_cons_self .., ?_, ?_⟩
          · intro z hz; rcases List.mem_cons.mp hz with rfl | hz
            · omega
            · have := hle z hz; omega
          · have : (List.filter (fun z => decide (z = x)) (y :: ys)) = [] := by
              apply List.filter_eq_nil_iff.mpr; intro z hz; have := hle z hz; simp; omega
            rw [filter_length_cons, this]; simp
        · split
          · rename_i hnlt heq
            subst heq
            refine ⟨List.mem_cons_self .., ?_, ?_⟩
            · intro z hz; rcases List.mem_cons.mp hz with rfl | hz
              · omega
              · exact hle z hz
            · rw [filter_length_cons, ← hk]; simp; omega
          · rename_i hnlt hne
            refine ⟨List.mem_cons_of_mem _ hm, ?_, ?_⟩
            · intro z hz; rcases List.mem_cons.mp hz with rfl | hz
              · omega
              · exact hle z hz
            · have : decide (x = m) = false := by simp; omega
              rw [filter_length_cons, ← hk, this]; simp

/-! ### fragment.min / fragment.max -/

theorem Rec.low_eq_mag {r : Rec} {d : Nat} (h : RecWF r d) : r.low d = r.mag := by
  simp only [Rec.low, lowBits_testBit, Nat.mod_eq_of_lt h.mag_lt]

theorem Rec.val_eq {r : Rec} (d : Nat) : r.frag.val d = if r.sg then -(r.low d : Int) else (r.low d : Int) := rfl

theorem length_filter_map_val (l : List Rec) (d : Nat) (m : Int) :
    ((l.map (fun r => r.frag.val d)).filter (fun x => decide (x = m))).length =
      (l.filter (fun r => decide (r.frag.val d = m))).length := by
  induction l with
  | nil => rfl
  | cons x xs ih => simp only [List.map_cons, filter_length_cons, ih]

theorem fragMin_eq (cols : List Rec) (flt : Filter) (d : Nat) (wf : ∀ r ∈ cols, RecWF r d) :
    fragMin cols flt d = Spec.minCount ((considerOf cols flt).map (fun r => r.frag.val d)) := by
  simp only [fragMin]
  generalize hc : considerOf cols flt = consider
  have wfc : ∀ r ∈ consider, RecWF r d := by
    intro r hr; rw [← hc] at hr; exact wf r (List.mem_filter.mp hr).1
  by_cases hemp : consider.length = 0
  · have : consider = [] := List.eq_nil_of_length_eq_zero hemp
    subst this; simp [Spec.minCount]
  simp only [hemp, if_false]
  have hne : consider ≠ [] := by intro h; rw [h] at hemp; simp at hemp
  have hlne : consider.map (fun r => r.frag.val d) ≠ [] := by simpa using hne
  have hspec := minCount_spec _ hlne
  suffices h : IsMin (consider.map (fun r => r.frag.val d))
      (if (consider.filter (fun r => r.sg)).length > 0 then
        (-((maxUnsigned (consider.filter (fun r => r.sg)) d).1 : Int), (maxUnsigned (consider.filter (fun r => r.sg)) d).2)
       else (((minUnsigned consider d).1 : Int), (minUnsigned consider d).2)).1
      (if (consider.filter (fun r => r.sg)).length > 0 then
        (-((maxUnsigned (consider.filter (fun r => r.sg)) d).1 : Int), (maxUnsigned (consider.filter (fun r => r.sg)) d).2)
       else (((minUnsigned consider d).1 : Int), (minUnsigned consider d).2)).2 by
    have := h.unique hspec
    exact Prod.ext (Prod.mk.inj this).1 (Prod.mk.inj this).2
  by_cases hneg : (consider.filter (fun r => r.sg)).length > 0
  · simp only [hneg, if_true]
    have hnn : consider.filter (fun r => r.sg) ≠ [] := by intro h; rw [h] at hneg; simp at hneg
    obtain ⟨m, hres, ⟨w, hw, hwm⟩, hmax⟩ := maxU_spec d _ 0 (consider.filter (fun r => r.sg)).length hnn (fun _ => rfl)
    simp only [maxUnsigned, hres, Nat.zero_add]
    have hwf := List.mem_filter.mp hw
    have hmpos : m ≥ 1 := by
      have h1 := (wfc w hwf.1).sg_nz hwf.2
      rw [← hwm, Rec.low_eq_mag (wfc w hwf.1)]; omega
    refine ⟨?_, ?_, ?_⟩
    · apply List.mem_map.mpr; refine ⟨w, hwf.1, ?_⟩
      rw [Rec.val_eq, hwf.2, hwm]; rfl
    · intro x hx
      obtain ⟨r, hr, rfl⟩ := List.mem_map.mp hx
      rw [Rec.val_eq]
      cases hs : r.sg
      · simp <;> omega
      · have := hmax r (List.mem_filter.mpr ⟨hr, hs⟩); simp; omega
    · rw [length_filter_map_val, List.filter_filter]
      congr 1
      apply List.filter_congr
      intro r hr
      rw [Rec.val_eq]
      cases hs : r.sg <;> simp <;> omega
  · simp only [hneg, if_false]
    have hall : ∀ r ∈ consider, r.sg = false := by
      intro r hr
      cases hs : r.sg
      · rfl
      · exfalso; apply hneg; exact List.length_pos_of_mem (List.mem_filter.mpr ⟨hr, hs⟩)
    obtain ⟨m, hres, ⟨w, hw, hwm⟩, hmin⟩ := minU_spec d consider 0 consider.length hne (fun _ => rfl)
    simp only [minUnsigned, hres, Nat.zero_add]
    refine ⟨?_, ?_, ?_⟩
    · apply List.mem_map.mpr; refine ⟨w, hw, ?_⟩
      rw [Rec.val_eq, hall w hw, hwm]; rfl
    · intro x hx
      obtain ⟨r, hr, rfl⟩ := List.mem_map.mp hx
      rw [Rec.val_eq, hall r hr]; have := hmin r hr; simp; omega
    · rw [length_filter_map_val]
      congr 1
      apply List.filter_congr
      intro r hr
      rw [Rec.val_eq, hall r hr]; simp; omega

theorem fragMax_eq (cols : List Rec) (flt : Filter) (d : Nat) (wf : ∀ r ∈ cols, RecWF r d) :
    fragMax cols flt d = Spec.maxCount ((considerOf cols flt).map (fun r => r.frag.val d)) := by
  simp only [fragMax]
  generalize hc : considerOf cols flt = consider
  have wfc : ∀ r ∈ consider, RecWF r d := by
    intro r hr; rw [← hc] at hr; exact wf r (List.mem_filter.mp hr).1
  by_cases hemp : consider.length = 0
  · have : consider = [] := List.eq_nil_of_length_eq_zero hemp
    subst this; simp [Spec.maxCount]
  simp only [hemp, if_false]
  have hne : consider ≠ [] := by intro h; rw [h] at hemp; simp at hemp
  have hlne : consider.map (fun r => r.frag.val d) ≠ [] := by simpa using hne
  have hspec := maxCount_spec _ hlne
  suffices h : IsMax (consider.map (fun r => r.frag.val d))
      (if (consider.filter (fun r => !r.sg)).length = 0 then
        (-((minUnsigned consider d).1 : Int), (minUnsigned consider d).2)
       else (((maxUnsigned (consider.filter (fun r => !r.sg)) d).1 : Int), (maxUnsigned (consider.filter (fun r => !r.sg)) d).2)).1
      (if (consider.filter (fun r => !r.sg)).length = 0 then
        (-((minUnsigned consider d).1 : Int), (minUnsigned consider d).2)
       else (((maxUnsigned (consider.filter (fun r => !r.sg)) d).1 : Int), (maxUnsigned (consider.filter (fun r => !r.sg)) d).2)).2 by
    have := h.unique hspec
    exact Prod.ext (Prod.mk.inj this).1 (Prod.mk.inj this).2
  by_cases hpos : (consider.filter (fun r => !r.sg)).length = 0
  · simp only [hpos, if_true]
    have hall : ∀ r ∈ consider, r.sg = true := by
      intro r hr
      cases hs : r.sg
      · exfalso
        have := List.length_pos_of_mem (List.mem_filter.mpr ⟨hr, by simp [hs]⟩ : r ∈ consider.filter (fun r => !r.sg))
        omega
      · rfl
    obtain ⟨m, hres, ⟨w, hw, hwm⟩, hmin⟩ := minU_spec d consider 0 consider.length hne (fun _ => rfl)
    simp only [minUnsigned, hres, Nat.zero_add]
    refine ⟨?_, ?_, ?_⟩
    · apply List.mem_map.mpr; refine ⟨w, hw, ?_⟩
      rw [Rec.val_eq, hall w hw, hwm]; rfl
    · intro x hx
      obtain ⟨r, hr, rfl⟩ := List.mem_map.mp hx
      rw [Rec.val_eq, hall r hr]; have := hmin r hr; simp; omega
    · rw [length_filter_map_val]
      congr 1
      apply List.filter_congr
      intro r hr
      rw [Rec.val_eq, hall r hr]; simp; omega
  · simp only [hpos, if_false]
    have hnn : consider.filter (fun r => !r.sg) ≠ [] := by intro h; rw [h] at hpos; simp at hpos
    obtain ⟨m, hres, ⟨w, hw, hwm⟩, hmax⟩ := maxU_spec d _ 0 (consider.filter (fun r => !r.sg)).length hnn (fun _ => rfl)
    simp only [maxUnsigned, hres, Nat.zero_add]
    have hwf := List.mem_filter.mp hw
    have hws : w.sg = false := by simpa using hwf.2
    refine ⟨?_, ?_, ?_⟩
    · apply List.mem_map.mpr; refine ⟨w, hwf.1, ?_⟩
      rw [Rec.val_eq, hws, hwm]; rfl
    · intro x hx
      obtain ⟨r, hr, rfl⟩ := List.mem_map.mp hx
      rw [Rec.val_eq]
      cases hs : r.sg
      · have := hmax r (List.mem_filter.mpr ⟨hr, by simp [hs]⟩); simp; omega
      · simp <;> omega
    · rw [length_filter_map_val, List.filter_filter]
      congr 1
      apply List.filter_congr
      intro r hr
      rw [Rec.val_eq]
      have hnz := (wfc r hr).sg_nz
      rw [← Rec.low_eq_mag (wfc r hr)] at hnz
      cases hs : r.sg
      · simp; omega
      · have := hnz hs; simp; omega

end PV.C14
