/-
C14 helper lemmas: the bit-sliced unsigned comparisons on one column (Bool instance of the
generic range algorithms), by induction on the bit index.  Core Lean only.
Statements are in `… = true ↔ …` form.
-/
import PV.C14.Model
namespace PV.C14
open BA

/-- The number formed by bits `0..n-1`. -/
def lowBits (bit : Nat → Bool) : Nat → Nat
  | 0 => 0
  | n+1 => lowBits bit n + (if bit n then 2^n else 0)

theorem lowBits_lt (bit : Nat → Bool) (n : Nat) : lowBits bit n < 2^n := by
  induction n with
  | zero => simp [lowBits]
  | succ n ih =>
    simp only [lowBits, Nat.pow_succ]
    split <;> omega

theorem eqLoop_bool (f : Frag Bool) (p : Nat) (n : Nat) (b : Bool) :
    eqLoop f p n b = true ↔ (b = true ∧ lowBits f.bit n = lowBits p.testBit n) := by
  induction n generalizing b with
  | zero => simp [eqLoop, lowBits]
  | succ n ih =>
    have h1 := lowBits_lt f.bit n
    have h2 := lowBits_lt p.testBit n
    simp only [eqLoop, lowBits, ih, BA.inter, BA.diff]
    clear ih
    generalize lowBits f.bit n = v at *
    generalize lowBits p.testBit n = q at *
    generalize 2^n = X at *
    generalize f.bit n = r
    generalize p.testBit n = t
    cases b <;> cases r <;> cases t <;> simp <;> omega

/-- `v ⋈ q` for LT/LTE. -/
def cmpLT (eq : Bool) (v q : Nat) : Prop := if eq then v ≤ q else v < q

theorem ltU_nolz (f : Frag Bool) (p : Nat) (eq : Bool) (n : Nat) (filter keep : Bool)
    (hk : keep = true → filter = true) (hn : eq = true ∨ 1 ≤ n) :
    ltU f p eq n filter keep false = true ↔
      (keep = true ∨ (filter = true ∧ cmpLT eq (lowBits f.bit n) (lowBits p.testBit n))) := by
  induction n generalizing filter keep with
  | zero =>
    rcases hn with h | h
    · subst h; revert hk; cases filter <;> cases keep <;> simp [ltU, lowBits, cmpLT]
    · omega
  | succ n ih =>
    rcases Nat.eq_zero_or_pos n with h0 | hpos
    · subst h0
      revert hk
      simp only [ltU, lowBits, cmpLT, BA.diff, BA.union, BA.empty]
      generalize f.bit 0 = r
      generalize p.testBit 0 = t
      cases eq <;> cases filter <;> cases keep <;> cases r <;> cases t <;> simp
    · have h1 := lowBits_lt f.bit n
      have h2 := lowBits_lt p.testBit n
      have hne : (n = 0) = False := by simp; omega
      have hgt : (n > 0) = True := by simp; omega
      simp only [ltU, lowBits, cmpLT, BA.diff, BA.union, Bool.false_and, hne, hgt, decide_false, decide_true,
        Bool.false_eq_true, if_false, if_true]
      cases ht : p.testBit n
      all_goals
        simp only [Bool.not_true, Bool.not_false, Bool.false_eq_true, ↓reduceIte]
        refine Iff.trans (ih _ _ ?_ (Or.inr hpos)) ?_
        · revert hk; cases filter <;> cases keep <;> simp
        · simp only [cmpLT]
          clear ih
          generalize lowBits f.bit n = v at *
          generalize lowBits p.testBit n = q at *
          generalize 2^n = X at *
          generalize f.bit n = r
          revert hk
          cases eq <;> cases filter <;> cases keep <;> cases r <;> simp <;> omega

theorem ltU_lz (f : Frag Bool) (p : Nat) (eq : Bool) (n : Nat) (filter : Bool) :
    ltU f p eq n filter false true = true ↔
      (filter = true ∧ cmpLT eq (lowBits f.bit n) (lowBits p.testBit n)) := by
  induction n generalizing filter with
  | zero => cases eq <;> cases filter <;> simp [ltU, lowBits, cmpLT, BA.empty]
  | succ n ih =>
    have h1 := lowBits_lt f.bit n
    have h2 := lowBits_lt p.testBit n
    cases ht : p.testBit n
    · -- predicate bit 0: still leading zeros
      simp only [ltU, ht, lowBits, Bool.not_false, Bool.and_self, ↓reduceIte, BA.diff]
      refine Iff.trans (ih _) ?_
      simp only [cmpLT]
      clear ih
      generalize lowBits f.bit n = v at *
      generalize lowBits p.testBit n = q at *
      generalize 2^n = X at *
      generalize f.bit n = r
      cases eq <;> cases filter <;> cases r <;> simp <;> omega
    · rcases Nat.eq_zero_or_pos n with h0 | hpos
      · subst h0
        simp only [ltU, ht, lowBits, cmpLT, BA.diff, BA.union, BA.empty]
        generalize f.bit 0 = r
        cases eq <;> cases filter <;> cases r <;> simp
      · have hne : (n = 0) = False := by simp; omega
        have hgt : (n > 0) = True := by simp; omega
        simp only [ltU, ht, lowBits, Bool.not_true, Bool.and_false, Bool.false_eq_true, ↓reduceIte, hne, hgt,
          decide_false, Bool.false_and, BA.diff, BA.union]
        refine Iff.trans (ltU_nolz f p eq n _ _ ?_ (Or.inr hpos)) ?_
        · cases filter <;> simp
        · simp only [cmpLT]
          generalize lowBits f.bit n = v at *
          generalize lowBits p.testBit n = q at *
          generalize 2^n = X at *
          generalize f.bit n = r
          cases eq <;> cases filter <;> cases r <;> simp <;> omega

/-- `v ⋈ q` for GT/GTE. -/
def cmpGT (eq : Bool) (v q : Nat) : Prop := if eq then v ≥ q else v > q

theorem gtU_spec (f : Frag Bool) (p : Nat) (eq : Bool) (n : Nat) (filter keep : Bool)
    (hk : keep = true → filter = true) (hn : eq = true ∨ 1 ≤ n) :
    gtU f p eq n filter keep = true ↔
      (keep = true ∨ (filter = true ∧ cmpGT eq (lowBits f.bit n) (lowBits p.testBit n))) := by
  induction n generalizing filter keep with
  | zero =>
    rcases hn with h | h
    · subst h; revert hk; cases filter <;> cases keep <;> simp [gtU, lowBits, cmpGT]
    · omega
  | succ n ih =>
    rcases Nat.eq_zero_or_pos n with h0 | hpos
    · subst h0
      revert hk
      simp only [gtU, lowBits, cmpGT, BA.diff, BA.union, BA.inter, BA.empty]
      generalize f.bit 0 = r
      generalize p.testBit 0 = t
      cases eq <;> cases filter <;> cases keep <;> cases r <;> cases t <;> simp
    · have h1 := lowBits_lt f.bit n
      have h2 := lowBits_lt p.testBit n
      have hne : (n = 0) = False := by simp; omega
      have hgt : (n > 0) = True := by simp; omega
      simp only [gtU, lowBits, cmpGT, BA.diff, BA.union, BA.inter, Bool.false_and, hne, hgt, decide_false,
        Bool.false_eq_true, if_false, if_true]
      cases ht : p.testBit n
      all_goals
        simp only [Bool.false_eq_true, ↓reduceIte]
        refine Iff.trans (ih _ _ ?_ (Or.inr hpos)) ?_
        · revert hk; cases filter <;> cases keep <;> simp
        · simp only [cmpGT]
          clear ih
          generalize lowBits f.bit n = v at *
          generalize lowBits p.testBit n = q at *
          generalize 2^n = X at *
          generalize f.bit n = r
          revert hk
          cases eq <;> cases filter <;> cases keep <;> cases r <;> simp <;> omega

theorem btwU_spec (f : Frag Bool) (lo hi : Nat) (n : Nat) (filter k1 k2 : Bool) :
    btwU f lo hi n filter k1 k2 = true ↔
      (filter = true ∧ (k1 = true ∨ lowBits f.bit n ≥ lowBits lo.testBit n) ∧
        (k2 = true ∨ lowBits f.bit n ≤ lowBits hi.testBit n)) := by
  induction n generalizing filter k1 k2 with
  | zero => simp [btwU, lowBits]
  | succ n ih =>
    have h1 := lowBits_lt f.bit n
    have h2 := lowBits_lt lo.testBit n
    have h3 := lowBits_lt hi.testBit n
    simp only [btwU]
    refine Iff.trans (ih _ _ _) ?_
    clear ih
    simp only [lowBits, BA.diff, BA.union, BA.inter]
    rcases Nat.eq_zero_or_pos n with h0 | hpos
    · subst h0
      simp only [lowBits]
      generalize f.bit 0 = r
      generalize lo.testBit 0 = t1
      generalize hi.testBit 0 = t2
      cases filter <;> cases k1 <;> cases k2 <;> cases r <;> cases t1 <;> cases t2 <;> simp
    · have hgt : (n > 0) = True := by simp; omega
      simp only [hgt, if_true]
      generalize lowBits f.bit n = v at *
      generalize lowBits lo.testBit n = a at *
      generalize lowBits hi.testBit n = b at *
      generalize 2^n = X at *
      generalize f.bit n = r
      generalize lo.testBit n = t1
      generalize hi.testBit n = t2
      cases filter <;> cases k1 <;> cases k2 <;> cases r <;> cases t1 <;> cases t2 <;> simp <;> omega


theorem lowBits_testBit (p n : Nat) : lowBits p.testBit n = p % 2^n := by
  induction n with
  | zero => simp [lowBits, Nat.mod_one]
  | succ n ih =>
    simp only [lowBits, ih, Nat.mod_pow_succ, Nat.testBit_eq_decide_div_mod_eq]
    have h : p / 2^n % 2 < 2 := Nat.mod_lt _ (by omega)
    by_cases h1 : p / 2^n % 2 = 1
    · simp [h1]
    · have : p / 2^n % 2 = 0 := by omega
      simp [this]

theorem lowBits_testBit_of_lt {p n : Nat} (h : p < 2^n) : lowBits p.testBit n = p := by
  rw [lowBits_testBit, Nat.mod_eq_of_lt h]

end PV.C14
