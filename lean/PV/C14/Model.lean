/-
C14 model: integer (BSI) fields.  Core Lean only.  Follows the Go code statement by statement
(tree = /repo with the `fix:` commits of branch verif/a06):

  fragment.go   value, setValueBase / positionsForValue / importSetValue (one column's bits),
                rangeOp, rangeEQ, rangeNEQ, rangeLT, rangeLTUnsigned, rangeGT, rangeGTUnsigned,
                rangeBetween, rangeBetweenUnsigned, notNull, sum, min, minUnsigned, max, maxUnsigned
  field.go      bitDepth, bitDepthInt64, bsiGroup.bitDepthMin/Max, baseValue, baseValueBetween,
                Field.SetValue / importValue (range check, bit-depth growth), Value, Sum, Min, Max
  view.go       view.sum / min / max (the Go API path: shards folded in shard order)
  executor.go   executeRowBSIGroupShard (decision table), executeSumCountShard / MinShard / MaxShard
                and the ValCount reducers (as fixed under C17)

Rows are elements of a Boolean algebra `α` (`BA`): the range algorithms are written once,
generically, because their control flow depends only on the predicate bits, `bitDepth` and
`allowEquality`.  Instances: `Bool` (one column) and `κ → Bool` (a fragment).  `sum/min/max` have
data-dependent control flow (`count > 0`) and run on finite lists of column records.
`int64`/`uint64` are `Int`/`Nat`; the only place where the code relies on wrap-around
(`uint64(-baseValue)` in `Field.SetValue`) is modelled with an explicit `% 2^64`.
-/
namespace PV.C14

/-! ### Rows as a Boolean algebra -/

/-- What `Row.Union / Intersect / Difference / NewRow()` provide. -/
class BA (α : Type) where
  union : α → α → α
  inter : α → α → α
  diff : α → α → α
  empty : α

instance : BA Bool where
  union a b := a || b
  inter a b := a && b
  diff a b := a && !b
  empty := false

instance {κ : Type} : BA (κ → Bool) where
  union a b := fun c => a c || b c
  inter a b := fun c => a c && b c
  diff a b := fun c => a c && !b c
  empty := fun _ => false

open BA

/-- The rows of one BSI fragment: row 0 (exists), row 1 (sign), rows 2+i (value bit i). -/
structure Frag (α : Type) where
  ex : α
  sg : α
  bit : Nat → α

/-- One column of a fragment. -/
def Frag.at {κ : Type} (F : Frag (κ → Bool)) (c : κ) : Frag Bool :=
  ⟨F.ex c, F.sg c, fun i => F.bit i c⟩

section Range
variable {α : Type} [BA α]

/-- Loop of `rangeEQ`: `n` bits remain, bit `n-1` is handled first. -/
def eqLoop (F : Frag α) (up : Nat) : Nat → α → α
  | 0, b => b
  | i+1, b => eqLoop F up i (if up.testBit i then inter b (F.bit i) else diff b (F.bit i))

def rangeEQ (F : Frag α) (d : Nat) (p : Int) : α :=
  let b := if p < 0 then inter F.ex F.sg else diff F.ex F.sg
  eqLoop F p.natAbs d b

def rangeNEQ (F : Frag α) (d : Nat) (p : Int) : α :=
  diff F.ex (rangeEQ F d p)

/-- `rangeLTUnsigned`: arguments are the bits that remain, `filter`, `keep`, `leadingZeros`. -/
def ltU (F : Frag α) (up : Nat) (eq : Bool) : Nat → α → α → Bool → α
  | 0, filter, _, _ => if !eq then empty else filter
  | i+1, filter, keep, lz =>
    let row := F.bit i
    let bit := up.testBit i
    if lz && !bit then ltU F up eq i (diff filter row) keep true
    else if i = 0 && !eq then
      (if !bit then keep else diff filter (diff row keep))
    else if !bit then ltU F up eq i (diff filter (diff row keep)) keep false
    else ltU F up eq i filter (if i > 0 then union keep (diff filter row) else keep) false

/-- `rangeGTUnsigned`. -/
def gtU (F : Frag α) (up : Nat) (eq : Bool) : Nat → α → α → α
  | 0, filter, _ => if !eq then empty else filter
  | i+1, filter, keep =>
    let row := F.bit i
    let bit := up.testBit i
    if i = 0 && !eq then
      (if bit then keep else diff filter (diff (diff filter row) keep))
    else if bit then gtU F up eq i (diff filter (diff (diff filter row) keep)) keep
    else gtU F up eq i filter (if i > 0 then union keep (inter filter row) else keep)

def rangeLT (F : Frag α) (d : Nat) (p : Int) (eq : Bool) : α :=
  let b := F.ex
  let up := p.natAbs
  if p ≥ 0 then
    let pos := ltU F up eq d (diff b F.sg) empty true
    union F.sg pos
  else gtU F up eq d (inter b F.sg) empty

def rangeGT (F : Frag α) (d : Nat) (p : Int) (eq : Bool) : α :=
  let b := F.ex
  let up := p.natAbs
  if p ≥ 0 then gtU F up eq d (diff b F.sg) empty
  else
    let neg := ltU F up eq d (inter b F.sg) empty true
    union (diff b F.sg) neg

/-- `rangeBetweenUnsigned`. -/
def btwU (F : Frag α) (lo hi : Nat) : Nat → α → α → α → α
  | 0, filter, _, _ => filter
  | i+1, filter, k1, k2 =>
    let row := F.bit i
    let f1 := if lo.testBit i then diff filter (diff (diff filter row) k1) else filter
    let k1' := if lo.testBit i then k1 else (if i > 0 then union k1 (inter filter row) else k1)
    let f2 := if !hi.testBit i then diff f1 (diff row k2) else f1
    let k2' := if !hi.testBit i then k2 else (if i > 0 then union k2 (diff f1 row) else k2)
    btwU F lo hi i f2 k1' k2'

def rangeBetween (F : Frag α) (d : Nat) (lo hi : Int) : α :=
  let b := F.ex
  if lo > hi then empty
  else if lo ≥ 0 then btwU F lo.natAbs hi.natAbs d (diff b F.sg) empty empty
  else if hi < 0 then btwU F hi.natAbs lo.natAbs d (inter b F.sg) empty empty
  else
    let pos := ltU F hi.natAbs true d (diff b F.sg) empty true
    let neg := ltU F lo.natAbs true d (inter b F.sg) empty true
    union pos neg

def notNull (F : Frag α) : α := F.ex

/-- The comparison operators of `Row(f <op> v)`. -/
inductive Op | eq | neq | lt | lte | gt | gte
deriving DecidableEq, Repr

/-- `fragment.rangeOp`. -/
def rangeOp (F : Frag α) (op : Op) (d : Nat) (p : Int) : α :=
  match op with
  | .eq => rangeEQ F d p
  | .neq => rangeNEQ F d p
  | .lt => rangeLT F d p false
  | .lte => rangeLT F d p true
  | .gt => rangeGT F d p false
  | .gte => rangeGT F d p true

end Range

/-! ### bsiGroup -/

/-- `bsiGroup`: the int field's bounds, base and current bit depth. -/
structure BSI where
  min : Int
  max : Int
  base : Int
  depth : Nat
deriving DecidableEq, Repr

def BSI.bitDepthMin (g : BSI) : Int := g.base - 2 ^ g.depth + 1
def BSI.bitDepthMax (g : BSI) : Int := g.base + 2 ^ g.depth - 1

/-- `bsiGroup.baseValue`: (baseValue, outOfRange). -/
def baseValue (g : BSI) (op : Op) (value : Int) : Int × Bool :=
  let mn := g.bitDepthMin
  let mx := g.bitDepthMax
  match op with
  | .gt | .gte =>
    if value > mx then (0, true)
    else if value ≥ mn then (value - g.base, false)
    else (0, false)
  | .lt | .lte =>
    if value < mn then (0, true)
    else if value > mx then (mx - g.base, false)
    else (value - g.base, false)
  | .eq | .neq =>
    if value < mn ∨ value > mx then (0, true)
    else (value - g.base, false)

/-- `bsiGroup.baseValueBetween`: (lo, hi, outOfRange). -/
def baseValueBetween (g : BSI) (lo hi : Int) : Int × Int × Bool :=
  let mn := g.bitDepthMin
  let mx := g.bitDepthMax
  if hi < mn ∨ lo > mx then (0, 0, true)
  else
    let lo := if lo < mn then mn else lo
    let hi := if hi > mx then mx else hi
    (lo - g.base, hi - g.base, false)

section Exec
variable {α : Type} [BA α]

/-- `executeRowBSIGroupShard`, comparison branch (`Row(f <op> value)`), on the shard's fragment. -/
def execRange (F : Frag α) (g : BSI) (op : Op) (value : Int) : α :=
  let r := baseValue g op value
  let bv := r.1
  let oor := r.2
  if oor && op != .neq then empty
  else if (op = .lt ∧ value > g.max) ∨ (op = .lte ∧ value ≥ g.max) ∨
          (op = .gt ∧ value < g.min) ∨ (op = .gte ∧ value ≤ g.min) then notNull F
  else if (op = .lt ∧ value > g.bitDepthMax) ∨ (op = .lte ∧ value ≥ g.bitDepthMax) ∨
          (op = .gt ∧ value < g.bitDepthMin) ∨ (op = .gte ∧ value ≤ g.bitDepthMin) then notNull F
  else if oor && op == .neq then notNull F
  else rangeOp F op g.depth bv

/-- `executeRowBSIGroupShard`, BETWEEN branch. -/
def execBetween (F : Frag α) (g : BSI) (lo hi : Int) : α :=
  let r := baseValueBetween g lo hi
  let blo := r.1
  let bhi := r.2.1
  let oor := r.2.2
  if oor then empty
  else if lo ≤ g.min ∧ hi ≥ g.max then notNull F
  else rangeBetween F g.depth blo bhi

end Exec

/-! ### One column's stored bits; writes -/

/-- The bits one column holds in a BSI fragment: `mag.testBit i` is row `bsiOffsetBit + i`. -/
structure Rec where
  col : Nat
  ex : Bool
  sg : Bool
  mag : Nat
deriving DecidableEq, Repr, Inhabited

def Rec.frag (r : Rec) : Frag Bool := ⟨r.ex, r.sg, r.mag.testBit⟩

/-- `fragment.value`: bits `0..d-1` are or-ed together, negated when the sign bit is set. -/
def Rec.value (r : Rec) (d : Nat) : Option Int :=
  if !r.ex then none
  else
    let m : Int := (r.mag % 2 ^ d : Nat)
    some (if r.sg then -m else m)

/-- `setValueBase` / `positionsForValue` / `importSetValue` for one column: bits `0..d-1` are
written from `|value|` (also when clearing), bits above stay; exists and sign as coded. -/
def Rec.set (r : Rec) (d : Nat) (value : Int) (clear : Bool) : Rec :=
  { col := r.col
    ex := !clear
    sg := !(decide (value ≥ 0) || clear)
    mag := r.mag / 2 ^ d * 2 ^ d + value.natAbs % 2 ^ d }

/-- Columns of a fragment / view: sorted by `col`, one record per column ever written. -/
def getRec : List Rec → Nat → Rec
  | [], c => ⟨c, false, false, 0⟩
  | r :: rs, c => if r.col = c then r else getRec rs c

def putRec : List Rec → Rec → List Rec
  | [], r => [r]
  | x :: xs, r =>
    if r.col < x.col then r :: x :: xs
    else if r.col = x.col then r :: xs
    else x :: putRec xs r

/-- `setValue` / `clearValue` on a column list; also reports `changed` (some bit differs). -/
def setCol (cols : List Rec) (c : Nat) (d : Nat) (value : Int) (clear : Bool) : List Rec × Bool :=
  let old := getRec cols c
  let new := old.set d value clear
  (putRec cols new, decide (new ≠ old))

/-- `fragment.importValue` (both paths): every pair is applied, the last one for a column wins. -/
def importCols (cols : List Rec) (pairs : List (Nat × Int)) (d : Nat) (clear : Bool) : List Rec :=
  pairs.foldl (fun cs p => (setCol cs p.1 d p.2 clear).1) cols

/-- The fragment as a family of rows indexed by column. -/
def fragOf (cols : List Rec) : Frag (Nat → Bool) :=
  ⟨fun c => (getRec cols c).ex, fun c => (getRec cols c).sg, fun i c => (getRec cols c).mag.testBit i⟩

/-- Columns of a row query result, ascending: the generic algorithm `q` evaluated per column
(`C14_pointwise` shows this is the algorithm run on the whole fragment). -/
def selectCols (cols : List Rec) (q : Frag Bool → Bool) : List Nat :=
  (cols.filter (fun r => q r.frag)).map (·.col)

/-! ### Sum / Min / Max on one fragment -/

/-- An optional filter row, as a predicate on columns. -/
abbrev Filter := Option (List Nat)

def Filter.has (f : Filter) (c : Nat) : Bool :=
  match f with
  | none => true
  | some l => l.contains c

/-- `consider := f.row(bsiExistsBit)` intersected with the filter when there is one. -/
def considerOf (cols : List Rec) (f : Filter) : List Rec :=
  cols.filter (fun r => r.ex && f.has r.col)

def bitCount (i : Nat) (l : List Rec) : Nat := (l.filter (fun r => r.mag.testBit i)).length

/-- `fragment.sum`. -/
def fragSum (cols : List Rec) (f : Filter) (d : Nat) : Int × Nat :=
  let consider := considerOf cols f
  let count := consider.length
  let nrow := consider.filter (fun r => r.sg)
  let prow := consider.filter (fun r => !r.sg)
  let s := (List.range d).foldl
    (fun (s : Int) i => s + ((2 ^ i * bitCount i prow : Nat) : Int) - ((2 ^ i * bitCount i nrow : Nat) : Int)) 0
  (s, count)

/-- Loop of `minUnsigned`: bits that remain, filter, min, count. -/
def minU : Nat → List Rec → Nat → Nat → Nat × Nat
  | 0, _, mn, cnt => (mn, cnt)
  | i+1, filter, mn, _ =>
    let row := filter.filter (fun r => !r.mag.testBit i)
    let cnt := row.length
    if cnt > 0 then minU i row mn cnt
    else minU i filter (mn + 2 ^ i) (if i = 0 then filter.length else cnt)

def minUnsigned (filter : List Rec) (d : Nat) : Nat × Nat := minU d filter 0 filter.length

/-- Loop of `maxUnsigned`. -/
def maxU : Nat → List Rec → Nat → Nat → Nat × Nat
  | 0, _, mx, cnt => (mx, cnt)
  | i+1, filter, mx, _ =>
    let row := filter.filter (fun r => r.mag.testBit i)
    let cnt := row.length
    if cnt > 0 then maxU i row (mx + 2 ^ i) cnt
    else maxU i filter mx (if i = 0 then filter.length else cnt)

def maxUnsigned (filter : List Rec) (d : Nat) : Nat × Nat := maxU d filter 0 filter.length

/-- `fragment.min`. -/
def fragMin (cols : List Rec) (f : Filter) (d : Nat) : Int × Nat :=
  let consider := considerOf cols f
  if consider.length = 0 then (0, 0)
  else
    let neg := consider.filter (fun r => r.sg)
    if neg.length > 0 then
      let (m, c) := maxUnsigned neg d
      (-(m : Int), c)
    else
      let (m, c) := minUnsigned consider d
      ((m : Int), c)

/-- `fragment.max`. -/
def fragMax (cols : List Rec) (f : Filter) (d : Nat) : Int × Nat :=
  let consider := considerOf cols f
  if consider.length = 0 then (0, 0)
  else
    let pos := consider.filter (fun r => !r.sg)
    if pos.length = 0 then
      let (m, c) := minUnsigned consider d
      (-(m : Int), c)
    else
      let (m, c) := maxUnsigned pos d
      ((m : Int), c)

/-! ### Field level -/

/-- `bitDepth(v uint64)`: the first `i < 63` with `v < 2^i`, else 63. -/
def bitDepthLoop (v : Nat) : Nat → Nat → Nat
  | 0, _ => 63
  | fuel+1, i => if v < 2 ^ i then i else bitDepthLoop v fuel (i + 1)

def bitDepth (v : Nat) : Nat := bitDepthLoop v 63 0

/-- `bitDepthInt64`. -/
def bitDepthInt (v : Int) : Nat := bitDepth v.natAbs

/-- `uint64(x)` of an `int64`. -/
def u64 (x : Int) : Nat := (x % (2 ^ 64 : Int)).toNat

def shardWidth : Nat := 2 ^ 20

/-- An int field: its bsiGroup and the columns of its `bsig_` view (all shards). -/
structure Field where
  g : BSI
  cols : List Rec
deriving Repr

inductive SetRes | changed (b : Bool) | tooLow | tooHigh
deriving DecidableEq, Repr

/-- The bit depth `Field.SetValue` continues with: when the base-relative value needs more bits
the new depth is `bitDepth(uvalue)`, where `uvalue` is `uint64(-baseValue)` if `value < 0` (as
coded: the sign test looks at `value`, not at `baseValue`) and `uint64(baseValue)` otherwise. -/
def growDepth (depth : Nat) (value bv : Int) : Nat :=
  if bitDepthInt bv > depth then bitDepth (if value < 0 then u64 (-bv) else u64 bv) else depth

/-- `Field.SetValue`. -/
def Field.setValue (f : Field) (c : Nat) (value : Int) : Field × SetRes :=
  if value < f.g.min then (f, .tooLow)
  else if value > f.g.max then (f, .tooHigh)
  else
    let bv := value - f.g.base
    let depth := growDepth f.g.depth value bv
    let r := setCol f.cols c depth bv false
    ({ g := { f.g with depth := depth }, cols := r.1 }, .changed r.2)

def listMin : List Int → Int
  | [] => 0
  | x :: xs => xs.foldl (fun m v => if v < m then v else m) x

def listMax : List Int → Int
  | [] => 0
  | x :: xs => xs.foldl (fun m v => if v > m then v else m) x

inductive ImpRes | ok | tooLow | tooHigh
deriving DecidableEq, Repr

/-- First out-of-range value in import order (`Field.importValue` checks `> Max` first). -/
def firstBad (g : BSI) : List (Nat × Int) → ImpRes
  | [] => .ok
  | (_, v) :: rest => if v > g.max then .tooHigh else if v < g.min then .tooLow else firstBad g rest

/-- `Field.importValue`: the bit depth grows first (from the smallest and largest value), then
every value is range-checked, then every fragment imports with the field's bit depth. -/
def Field.importValue (f : Field) (pairs : List (Nat × Int)) (clear : Bool) : Field × ImpRes :=
  let vals := pairs.map (·.2)
  let mn := listMin vals
  let mx := listMax vals
  let required := Nat.max (bitDepthInt (mn - f.g.base)) (bitDepthInt (mx - f.g.base))
  let depth := if required > f.g.depth then required else f.g.depth
  let g := { f.g with depth := depth }
  match firstBad g pairs with
  | .ok =>
    let cols := importCols f.cols (pairs.map (fun p => (p.1, p.2 - g.base))) depth clear
    ({ g := g, cols := cols }, .ok)
  | e => ({ g := g, cols := f.cols }, e)

/-- `Field.Value`. -/
def Field.value (f : Field) (c : Nat) : Option Int :=
  match (getRec f.cols c).value f.g.depth with
  | none => none
  | some v => some (v + f.g.base)

/-- Shards that have a fragment: those of the columns ever written, ascending. -/
def insertAsc (x : Nat) : List Nat → List Nat
  | [] => [x]
  | y :: ys => if x < y then x :: y :: ys else if x = y then y :: ys else y :: insertAsc x ys

def Field.shards (f : Field) : List Nat :=
  f.cols.foldl (fun acc r => insertAsc (r.col / shardWidth) acc) []

def Field.shardCols (f : Field) (s : Nat) : List Rec :=
  f.cols.filter (fun r => r.col / shardWidth = s)

/-- A value with the number of columns behind it (`ValCount`). -/
structure ValCount where
  val : Int
  count : Int
deriving DecidableEq, Repr, Inhabited

def ValCount.add (a b : ValCount) : ValCount := ⟨a.val + b.val, a.count + b.count⟩

/-- `ValCount.smaller` / `larger` as fixed under C17 (ties add their counts). -/
def ValCount.smaller (vc other : ValCount) : ValCount :=
  if vc.count = 0 ∨ (other.val < vc.val ∧ other.count > 0) then other
  else if other.count > 0 ∧ other.val = vc.val then ⟨vc.val, vc.count + other.count⟩
  else vc

def ValCount.larger (vc other : ValCount) : ValCount :=
  if vc.count = 0 ∨ (other.val > vc.val ∧ other.count > 0) then other
  else if other.count > 0 ∧ other.val = vc.val then ⟨vc.val, vc.count + other.count⟩
  else vc

/-- `executeSumCountShard` on one shard. -/
def Field.sumShard (f : Field) (flt : Filter) (s : Nat) : ValCount :=
  let (v, c) := fragSum (f.shardCols s) flt f.g.depth
  ⟨v + (c : Int) * f.g.base, c⟩

/-- `executeMinShard` / `executeMaxShard` on one shard. -/
def Field.minShard (f : Field) (flt : Filter) (s : Nat) : ValCount :=
  let (v, c) := fragMin (f.shardCols s) flt f.g.depth
  ⟨v + f.g.base, c⟩

def Field.maxShard (f : Field) (flt : Filter) (s : Nat) : ValCount :=
  let (v, c) := fragMax (f.shardCols s) flt f.g.depth
  ⟨v + f.g.base, c⟩

/-- PQL `Sum / Min / Max`: per-shard results reduced from the zero value (any arrival order gives
the same result, C17). -/
def Field.pqlSum (f : Field) (flt : Filter) : ValCount :=
  (f.shards.map (f.sumShard flt)).foldl ValCount.add ⟨0, 0⟩

def Field.pqlMin (f : Field) (flt : Filter) : ValCount :=
  (f.shards.map (f.minShard flt)).foldl ValCount.smaller ⟨0, 0⟩

def Field.pqlMax (f : Field) (flt : Filter) : ValCount :=
  (f.shards.map (f.maxShard flt)).foldl ValCount.larger ⟨0, 0⟩

/-- `view.sum` then `Field.Sum` (Go API): fragments folded in shard order. -/
def Field.apiSum (f : Field) (flt : Filter) : ValCount :=
  let (s, c) := f.shards.foldl (fun (acc : Int × Nat) sh =>
    let (fs, fc) := fragSum (f.shardCols sh) flt f.g.depth
    (acc.1 + fs, acc.2 + fc)) (0, 0)
  if f.shards.isEmpty then ⟨0, 0⟩ else ⟨s + (c : Int) * f.g.base, c⟩

/-- `view.min` (as fixed): (min, count, hasValue). -/
def viewMinStep (acc : Int × Nat × Bool) (r : Int × Nat) : Int × Nat × Bool :=
  let (mn, cnt, has) := acc
  let (fmin, fcount) := r
  if fcount = 0 then acc
  else if !has || fmin < mn then (fmin, fcount, true)
  else if fmin = mn then (mn, cnt + fcount, has)
  else acc

def viewMaxStep (acc : Int × Nat × Bool) (r : Int × Nat) : Int × Nat × Bool :=
  let (mx, cnt, has) := acc
  let (fmax, fcount) := r
  if fcount = 0 then acc
  else if !has || fmax > mx then (fmax, fcount, true)
  else if fmax = mx then (mx, cnt + fcount, has)
  else acc

/-- `Field.Min` (Go API): no view yet → (0, 0); else `view.min` plus the base. -/
def Field.apiMin (f : Field) (flt : Filter) : ValCount :=
  if f.shards.isEmpty then ⟨0, 0⟩
  else
    let (m, c, _) := (f.shards.map (fun sh => fragMin (f.shardCols sh) flt f.g.depth)).foldl viewMinStep (0, 0, false)
    ⟨m + f.g.base, c⟩

def Field.apiMax (f : Field) (flt : Filter) : ValCount :=
  if f.shards.isEmpty then ⟨0, 0⟩
  else
    let (m, c, _) := (f.shards.map (fun sh => fragMax (f.shardCols sh) flt f.g.depth)).foldl viewMaxStep (0, 0, false)
    ⟨m + f.g.base, c⟩

/-- PQL `Row(v <op> value)` over all shards: ascending columns. -/
def Field.rowRange (f : Field) (op : Op) (value : Int) : List Nat :=
  selectCols f.cols (fun F => execRange F f.g op value)

def Field.rowBetween (f : Field) (lo hi : Int) : List Nat :=
  selectCols f.cols (fun F => execBetween F f.g lo hi)

def Field.rowNotNull (f : Field) : List Nat :=
  selectCols f.cols (fun F => notNull F)

end PV.C14
