/-
C14 helper lemmas: sign/magnitude composition of the range algorithms on one column, and the
executor's decision table (`execRange`, `execBetween`) on one column.  Core Lean only.
-/
import PV.C14.Lemmas
namespace PV.C14
open BA

/-- Magnitude and value one column holds at bit depth `d`. -/
def Frag.mag (f : Frag Bool) (d : Nat) : Nat := lowBits f.bit d
def Frag.val (f : Frag Bool) (d : Nat) : Int := if f.sg then -(f.mag d : Int) else (f.mag d : Int)

/-- What the write paths maintain for every column: a sign bit only on columns that exist and
hold a non-zero magnitude. -/
structure ColWF (f : Frag Bool) (d : Nat) : Prop where
  sg_ex : f.sg = true → f.ex = true
  sg_nz : f.sg = true → f.mag d ≠ 0

theorem Frag.val_bound (f : Frag Bool) (d : Nat) : -(2^d : Int) < f.val d ∧ f.val d < 2^d := by
  have h := lowBits_lt f.bit d
  have : ((lowBits f.bit d : Nat) : Int) < ((2^d : Nat) : Int) := by exact_mod_cast h
  simp only [Frag.val, Frag.mag]
  have e : ((2^d : Nat) : Int) = (2:Int)^d := by norm_cast
  split <;> omega

theorem rangeEQ_bool (f : Frag Bool) (d : Nat) (p : Int) (hp : p.natAbs < 2^d) (wf : ColWF f d) :
    rangeEQ f d p = true ↔ (f.ex = true ∧ f.val d = p) := by
  have hs := wf.sg_ex; have hz := wf.sg_nz
  simp only [rangeEQ]
  rw [eqLoop_bool, lowBits_testBit_of_lt hp]
  simp only [Frag.val, Frag.mag] at *
  generalize lowBits f.bit d = m at *
  by_cases h : p < 0
  · simp only [h, if_true, BA.inter]
    revert hs hz; cases f.ex <;> cases f.sg <;> simp <;> omega
  · simp only [h, if_false, BA.diff]
    revert hs hz; cases f.ex <;> cases f.sg <;> simp <;> omega

theorem rangeNEQ_bool (f : Frag Bool) (d : Nat) (p : Int) (hp : p.natAbs < 2^d) (wf : ColWF f d) :
    rangeNEQ f d p = true ↔ (f.ex = true ∧ f.val d ≠ p) := by
  have h := rangeEQ_bool f d p hp wf
  simp only [rangeNEQ, BA.diff]
  cases he : rangeEQ f d p <;> simp only [he] at h <;> cases hx : f.ex <;> simp_all

theorem rangeLT_bool (f : Frag Bool) (d : Nat) (p : Int) (eq : Bool) (hp : p.natAbs < 2^d) (wf : ColWF f d) :
    rangeLT f d p eq = true ↔ (f.ex = true ∧ (if eq then f.val d ≤ p else f.val d < p)) := by
  have hs := wf.sg_ex; have hz := wf.sg_nz
  simp only [rangeLT]
  by_cases h : p ≥ 0
  · simp only [h, if_true, BA.union, BA.diff, BA.empty, Bool.or_eq_true, ltU_lz, lowBits_testBit_of_lt hp, cmpLT]
    simp only [Frag.val, Frag.mag] at *
    generalize lowBits f.bit d = m at *
    revert hs hz; cases eq <;> cases f.ex <;> cases f.sg <;> simp <;> omega
  · simp only [h, if_false, BA.inter, BA.empty]
    rcases Nat.eq_zero_or_pos d with h0 | hpos
    · subst h0; simp at hp; omega
    · rw [gtU_spec f _ eq d _ _ (by simp) (Or.inr hpos), lowBits_testBit_of_lt hp]
      simp only [Frag.val, Frag.mag, cmpGT] at *
      generalize lowBits f.bit d = m at *
      revert hs hz; cases eq <;> cases f.ex <;> cases f.sg <;> simp <;> omega

theorem rangeGT_bool (f : Frag Bool) (d : Nat) (p : Int) (eq : Bool) (hp : p.natAbs < 2^d) (wf : ColWF f d) :
    rangeGT f d p eq = true ↔ (f.ex = true ∧ (if eq then f.val d ≥ p else f.val d > p)) := by
  have hs := wf.sg_ex; have hz := wf.sg_nz
  simp only [rangeGT]
  by_cases h : p ≥ 0
  · simp only [h, if_true, BA.diff, BA.empty]
    rcases Nat.eq_zero_or_pos d with h0 | hpos
    · subst h0
      have hp0 : p = 0 := by simp at hp; omega
      subst hp0
      simp only [gtU, Frag.val, Frag.mag, lowBits, BA.empty]
      revert hs hz; cases eq <;> cases f.ex <;> cases f.sg <;> simp [Frag.mag, lowBits]
    · rw [gtU_spec f _ eq d _ _ (by simp) (Or.inr hpos), lowBits_testBit_of_lt hp]
      simp only [Frag.val, Frag.mag, cmpGT] at *
      generalize lowBits f.bit d = m at *
      revert hs hz; cases eq <;> cases f.ex <;> cases f.sg <;> simp <;> omega
  · simp only [h, if_false, BA.union, BA.diff, BA.inter, BA.empty, Bool.or_eq_true, ltU_lz,
      lowBits_testBit_of_lt hp, cmpLT]
    simp only [Frag.val, Frag.mag] at *
    generalize lowBits f.bit d = m at *
    revert hs hz; cases eq <;> cases f.ex <;> cases f.sg <;> simp <;> omega

theorem rangeBetween_bool (f : Frag Bool) (d : Nat) (lo hi : Int) (hlo : lo.natAbs < 2^d) (hhi : hi.natAbs < 2^d)
    (wf : ColWF f d) :
    rangeBetween f d lo hi = true ↔ (f.ex = true ∧ lo ≤ f.val d ∧ f.val d ≤ hi) := by
  have hs := wf.sg_ex; have hz := wf.sg_nz
  have hb := f.val_bound d
  simp only [rangeBetween]
  by_cases h0 : lo > hi
  · simp only [h0, if_true, BA.empty]; constructor
    · intro h; cases h
    · intro ⟨_, h1, h2⟩; omega
  simp only [h0, if_false]
  by_cases h1 : lo ≥ 0
  · simp only [h1, if_true, btwU_spec, lowBits_testBit_of_lt hlo, lowBits_testBit_of_lt hhi, BA.diff, BA.empty]
    simp only [Frag.val, Frag.mag] at *
    generalize lowBits f.bit d = m at *
    revert hs hz; cases f.ex <;> cases f.sg <;> simp <;> omega
  simp only [h1, if_false]
  by_cases h2 : hi < 0
  · simp only [h2, if_true, btwU_spec, lowBits_testBit_of_lt hlo, lowBits_testBit_of_lt hhi, BA.inter, BA.empty]
    simp only [Frag.val, Frag.mag] at *
    generalize lowBits f.bit d = m at *
    revert hs hz; cases f.ex <;> cases f.sg <;> simp <;> omega
  · simp only [h2, if_false, BA.union, BA.diff, BA.inter, BA.empty, Bool.or_eq_true, ltU_lz,
      lowBits_testBit_of_lt hlo, lowBits_testBit_of_lt hhi, cmpLT]
    simp only [Frag.val, Frag.mag] at *
    generalize lowBits f.bit d = m at *
    revert hs hz; cases f.ex <;> cases f.sg <;> simp <;> omega

/-- The comparison a range query asks for. -/
def Op.holds : Op → Int → Int → Prop
  | .eq, v, p => v = p
  | .neq, v, p => v ≠ p
  | .lt, v, p => v < p
  | .lte, v, p => v ≤ p
  | .gt, v, p => v > p
  | .gte, v, p => v ≥ p

theorem rangeOp_bool (f : Frag Bool) (op : Op) (d : Nat) (p : Int) (hp : p.natAbs < 2^d) (wf : ColWF f d) :
    rangeOp f op d p = true ↔ (f.ex = true ∧ op.holds (f.val d) p) := by
  cases op <;> simp only [rangeOp, Op.holds]
  · exact rangeEQ_bool f d p hp wf
  · exact rangeNEQ_bool f d p hp wf
  · simpa using rangeLT_bool f d p false hp wf
  · simpa using rangeLT_bool f d p true hp wf
  · simpa using rangeGT_bool f d p false hp wf
  · simpa using rangeGT_bool f d p true hp wf

theorem natAbs_lt_two_pow {x : Int} {d : Nat} (h1 : -(2^d : Int) < x) (h2 : x < 2^d) : x.natAbs < 2^d := by
  have e : ((2^d : Nat) : Int) = (2:Int)^d := by norm_cast
  omega

theorem execRange_bool (f : Frag Bool) (g : BSI) (op : Op) (value : Int) (wf : ColWF f g.depth)
    (hr : f.ex = true → g.min ≤ f.val g.depth + g.base ∧ f.val g.depth + g.base ≤ g.max) :
    execRange f g op value = true ↔ (f.ex = true ∧ op.holds (f.val g.depth + g.base) value) := by
  have hb := f.val_bound g.depth
  have hX : (0:Int) < 2^g.depth := Int.pow_pos (by omega)
  have key : ∀ bv : Int, -(2:Int)^g.depth < bv → bv < 2^g.depth →
      (rangeOp f op g.depth bv = true ↔ (f.ex = true ∧ op.holds (f.val g.depth) bv)) :=
    fun bv h1 h2 => rangeOp_bool f op g.depth bv (natAbs_lt_two_pow h1 h2) wf
  cases op
  case lt =>
    simp only [execRange, baseValue, BSI.bitDepthMin, BSI.bitDepthMax, notNull]
    by_cases c1 : value < g.base - 2^g.depth + 1 <;>
    by_cases c2 : value > g.base + 2^g.depth - 1 <;>
    by_cases c3 : value > g.max <;>
    simp [c1, c2, c3, BA.empty, Op.holds]
    all_goals first
      | (intro h; have := hr h; omega)
      | (rw [key _ (by omega) (by omega)]; simp only [Op.holds]
         constructor <;> (rintro ⟨h1, h2⟩; exact ⟨h1, by omega⟩))
      | omega
  case lte =>
    simp only [execRange, baseValue, BSI.bitDepthMin, BSI.bitDepthMax, notNull]
    by_cases c1 : value < g.base - 2^g.depth + 1 <;>
    by_cases c2 : value > g.base + 2^g.depth - 1 <;>
    by_cases c3 : value ≥ g.max <;>
    by_cases c4 : value ≥ g.base + 2^g.depth - 1 <;>
    simp [c1, c2, c3, c4, BA.empty, Op.holds]
    all_goals first
      | (intro h; have := hr h; omega)
      | (rw [key _ (by omega) (by omega)]; simp only [Op.holds]
         constructor <;> (rintro ⟨h1, h2⟩; exact ⟨h1, by omega⟩))
      | omega
  case gt =>
    simp only [execRange, baseValue, BSI.bitDepthMin, BSI.bitDepthMax, notNull]
    by_cases c1 : value > g.base + 2^g.depth - 1 <;>
    by_cases c2 : value ≥ g.base - 2^g.depth + 1 <;>
    by_cases c3 : value < g.min <;>
    by_cases c4 : value < g.base - 2^g.depth + 1 <;>
    simp [c1, c2, c3, c4, BA.empty, Op.holds]
    all_goals first
      | (intro h; have := hr h; omega)
      | (rw [key _ (by omega) (by omega)]; simp only [Op.holds]
         constructor <;> (rintro ⟨h1, h2⟩; exact ⟨h1, by omega⟩))
      | omega
  case gte =>
    simp only [execRange, baseValue, BSI.bitDepthMin, BSI.bitDepthMax, notNull]
    by_cases c1 : value > g.base + 2^g.depth - 1 <;>
    by_cases c2 : value ≥ g.base - 2^g.depth + 1 <;>
    by_cases c3 : value ≤ g.min <;>
    by_cases c4 : value ≤ g.base - 2^g.depth + 1 <;>
    simp [c1, c2, c3, c4, BA.empty, Op.holds]
    all_goals first
      | (intro h; have := hr h; omega)
      | (rw [key _ (by omega) (by omega)]; simp only [Op.holds]
         constructor <;> (rintro ⟨h1, h2⟩; exact ⟨h1, by omega⟩))
      | omega
  case eq =>
    simp only [execRange, baseValue, BSI.bitDepthMin, BSI.bitDepthMax, notNull]
    by_cases c1 : value < g.base - 2^g.depth + 1 <;>
    by_cases c2 : value > g.base + 2^g.depth - 1 <;>
    simp [c1, c2, BA.empty, Op.holds]
    all_goals first
      | (intro h; have := hr h; omega)
      | (rw [key _ (by omega) (by omega)]; simp only [Op.holds]
         constructor <;> (rintro ⟨h1, h2⟩; exact ⟨h1, by omega⟩))
      | omega
  case neq =>
    simp only [execRange, baseValue, BSI.bitDepthMin, BSI.bitDepthMax, notNull]
    by_cases c1 : value < g.base - 2^g.depth + 1 <;>
    by_cases c2 : value > g.base + 2^g.depth - 1 <;>
    simp [c1, c2, BA.empty, Op.holds]
    all_goals first
      | (intro h; have := hr h; omega)
      | (rw [key _ (by omega) (by omega)]; simp only [Op.holds]
         constructor <;> (rintro ⟨h1, h2⟩; exact ⟨h1, by omega⟩))
      | omega

theorem execBetween_bool (f : Frag Bool) (g : BSI) (lo hi : Int) (wf : ColWF f g.depth)
    (hr : f.ex = true → g.min ≤ f.val g.depth + g.base ∧ f.val g.depth + g.base ≤ g.max) :
    execBetween f g lo hi = true ↔
      (f.ex = true ∧ lo ≤ f.val g.depth + g.base ∧ f.val g.depth + g.base ≤ hi) := by
  have hb := f.val_bound g.depth
  have hX : (0:Int) < 2^g.depth := Int.pow_pos (by omega)
  have key : ∀ a b : Int, -(2:Int)^g.depth < a → a < 2^g.depth → -(2:Int)^g.depth < b → b < 2^g.depth →
      (rangeBetween f g.depth a b = true ↔ (f.ex = true ∧ a ≤ f.val g.depth ∧ f.val g.depth ≤ b)) :=
    fun a b h1 h2 h3 h4 => rangeBetween_bool f g.depth a b (natAbs_lt_two_pow h1 h2) (natAbs_lt_two_pow h3 h4) wf
  simp only [execBetween, baseValueBetween, BSI.bitDepthMin, BSI.bitDepthMax, notNull]
  by_cases c1 : hi < g.base - 2^g.depth + 1 <;> by_cases c2 : lo > g.base + 2^g.depth - 1 <;>
  by_cases c3 : lo ≤ g.min <;> by_cases c4 : hi ≥ g.max <;>
  by_cases c5 : lo < g.base - 2^g.depth + 1 <;> by_cases c6 : hi > g.base + 2^g.depth - 1 <;>
  simp [c1, c2, c3, c4, c5, c6, BA.empty]
  all_goals first
    | (intro h; have := hr h; omega)
    | (intro h _; have := hr h; omega)
    | (rw [key _ _ (by omega) (by omega) (by omega) (by omega)]
       constructor <;> (rintro ⟨h1, h2, h3⟩; exact ⟨h1, by omega, by omega⟩))
    | omega

end PV.C14
