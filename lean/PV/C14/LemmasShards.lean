/-
C14 helper lemmas: folding per-shard Sum / Min / Max results (view.min / view.max of the Go API and
the ValCount reducers of the executor) gives the result over all columns of the field.
Core Lean only.
-/
import PV.C14.LemmasAgg
namespace PV.C14
open BA

/-! ### Combining per-shard results -/

theorem IsMin.append_step {P l : List Int} {m : Int} {k : Nat} {has : Bool}
    (hacc : if has then IsMin P m k else P = []) :
    let r := viewMinStep (m, k, has) (Spec.minCount l)
    if r.2.2 then IsMin (P ++ l) r.1 r.2.1 else P ++ l = [] := by
  by_cases hl : l = []
  · subst hl
    simp only [Spec.minCount, viewMinStep, List.append_nil]
    simpa using hacc
  · have hs := minCount_spec l hl
    have hp := hs.pos
    generalize Spec.minCount l = mc at hs hp
    obtain ⟨fm, fc⟩ := mc
    simp only at hs hp
    have hfc : ¬ fc = 0 := by omega
    simp only [viewMinStep, hfc, if_false]
    obtain ⟨hmem, hle, hcnt⟩ := hs
    cases has
    · simp only [if_false, Bool.false_eq_true] at hacc
      subst hacc
      simp only [Bool.not_false, Bool.true_or, if_true, List.nil_append]
      exact ⟨hmem, hle, hcnt⟩
    · simp only [if_true] at hacc
      obtain ⟨pm, ple, pcnt⟩ := hacc
      simp only [Bool.not_true, Bool.false_or]
      by_cases h1 : fm < m
      · simp only [h1, decide_true, if_true]
        refine ⟨List.mem_append_right _ hmem, ?_, ?_⟩
        · intro x hx; rcases List.mem_append.mp hx with h | h
          · have := ple x h; omega
          · exact hle x h
        · rw [List.filter_append, List.length_append, ← hcnt]
          have : List.filter (fun x => decide (x = fm)) P = [] := by
            apply List.filter_eq_nil_iff.mpr; intro x hx; have := ple x hx; simp; omega
          rw [this]; simp
      · simp only [h1, decide_false, Bool.false_eq_true, if_false]
        by_cases h2 : fm = m
        · subst h2
          simp only [if_true]
          refine ⟨List.mem_append_left _ pm, ?_, ?_⟩
          · intro x hx; rcases List.mem_append.mp hx with h | h
            · exact ple x h
            · exact hle x h
          · rw [List.filter_append, List.length_append, ← hcnt, ← pcnt]
        · simp only [h2, if_false]
          refine ⟨List.mem_append_left _ pm, ?_, ?_⟩
          · intro x hx; rcases List.mem_append.mp hx with h | h
            · exact ple x h
            · have := hle x h; omega
          · rw [List.filter_append, List.length_append, ← pcnt]
            have : List.filter (fun x => decide (x = m)) l = [] := by
              apply List.filter_eq_nil_iff.mpr; intro x hx; have := hle x hx; simp; omega
            rw [this]; simp

theorem viewMin_fold (L : List (List Int)) (P : List Int) (m : Int) (k : Nat) (has : Bool)
    (hacc : if has then IsMin P m k else P = []) :
    let r := (L.map Spec.minCount).foldl viewMinStep (m, k, has)
    if r.2.2 then IsMin (P ++ L.flatten) r.1 r.2.1 else P ++ L.flatten = [] := by
  induction L generalizing P m k has with
  | nil => simpa using hacc
  | cons l ls ih =>
    simp only [List.map_cons, List.foldl_cons, List.flatten_cons, ← List.append_assoc]
    have h := IsMin.append_step (l := l) hacc
    generalize viewMinStep (m, k, has) (Spec.minCount l) = r at h
    obtain ⟨m', k', has'⟩ := r
    exact ih (P ++ l) m' k' has' h

theorem IsMax.append_step {P l : List Int} {m : Int} {k : Nat} {has : Bool}
    (hacc : if has then IsMax P m k else P = []) :
    let r := viewMaxStep (m, k, has) (Spec.maxCount l)
    if r.2.2 then IsMax (P ++ l) r.1 r.2.1 else P ++ l = [] := by
  by_cases hl : l = []
  · subst hl
    simp only [Spec.maxCount, viewMaxStep, List.append_nil]
    simpa using hacc
  · have hs := maxCount_spec l hl
    have hp := hs.pos
    generalize Spec.maxCount l = mc at hs hp
    obtain ⟨fm, fc⟩ := mc
    simp only at hs hp
    have hfc : ¬ fc = 0 := by omega
    simp only [viewMaxStep, hfc, if_false]
    obtain ⟨hmem, hle, hcnt⟩ := hs
    cases has
    · simp only [if_false, Bool.false_eq_true] at hacc
      subst hacc
      simp only [Bool.not_false, Bool.true_or, if_true, List.nil_append]
      exact ⟨hmem, hle, hcnt⟩
    · simp only [if_true] at hacc
      obtain ⟨pm, ple, pcnt⟩ := hacc
      simp only [Bool.not_true, Bool.false_or]
      by_cases h1 : fm > m
      · simp only [h1, decide_true, if_true]
        refine ⟨List.mem_append_right _ hmem, ?_, ?_⟩
        · intro x hx; rcases List.mem_append.mp hx with h | h
          · have := ple x h; omega
          · exact hle x h
        · rw [List.filter_append, List.length_append, ← hcnt]
          have : List.filter (fun x => decide (x = fm)) P = [] := by
            apply List.filter_eq_nil_iff.mpr; intro x hx; have := ple x hx; simp; omega
          rw [this]; simp
      · simp only [h1, decide_false, Bool.false_eq_true, if_false]
        by_cases h2 : fm = m
        · subst h2
          simp only [if_true]
          refine ⟨List.mem_append_left _ pm, ?_, ?_⟩
          · intro x hx; rcases List.mem_append.mp hx with h | h
            · exact ple x h
            · exact hle x h
          · rw [List.filter_append, List.length_append, ← hcnt, ← pcnt]
        · simp only [h2, if_false]
          refine ⟨List.mem_append_left _ pm, ?_, ?_⟩
          · intro x hx; rcases List.mem_append.mp hx with h | h
            · exact ple x h
            · have := hle x h; omega
          · rw [List.filter_append, List.length_append, ← pcnt]
            have : List.filter (fun x => decide (x = m)) l = [] := by
              apply List.filter_eq_nil_iff.mpr; intro x hx; have := hle x hx; simp; omega
            rw [this]; simp

theorem viewMax_fold (L : List (List Int)) (P : List Int) (m : Int) (k : Nat) (has : Bool)
    (hacc : if has then IsMax P m k else P = []) :
    let r := (L.map Spec.maxCount).foldl viewMaxStep (m, k, has)
    if r.2.2 then IsMax (P ++ L.flatten) r.1 r.2.1 else P ++ L.flatten = [] := by
  induction L generalizing P m k has with
  | nil => simpa using hacc
  | cons l ls ih =>
    simp only [List.map_cons, List.foldl_cons, List.flatten_cons, ← List.append_assoc]
    have h := IsMax.append_step (l := l) hacc
    generalize viewMaxStep (m, k, has) (Spec.maxCount l) = r at h
    obtain ⟨m', k', has'⟩ := r
    exact ih (P ++ l) m' k' has' h


/-! ### PQL reduce (ValCount.smaller / larger) follows the same steps -/

/-- A `ValCount` accumulator and a `view.min`-style accumulator describe the same partial result. -/
def SimVC (base : Int) (a : Int × Nat × Bool) (vc : ValCount) : Prop :=
  vc.count = a.2.1 ∧ (a.2.2 = true ↔ a.2.1 > 0) ∧ (a.2.1 > 0 → vc.val = a.1 + base)

theorem SimVC.smaller {base : Int} {a : Int × Nat × Bool} {vc : ValCount} (h : SimVC base a vc)
    (fm : Int) (fc : Nat) :
    SimVC base (viewMinStep a (fm, fc)) (vc.smaller ⟨fm + base, fc⟩) := by
  obtain ⟨m, k, has⟩ := a
  obtain ⟨v, c⟩ := vc
  simp only [SimVC] at h ⊢
  obtain ⟨h1, h2, h3⟩ := h
  subst h1
  simp only [viewMinStep, ValCount.smaller]
  cases has <;> simp at h2 <;> (repeat' split) <;> simp_all <;> omega

theorem SimVC.larger {base : Int} {a : Int × Nat × Bool} {vc : ValCount} (h : SimVC base a vc)
    (fm : Int) (fc : Nat) :
    SimVC base (viewMaxStep a (fm, fc)) (vc.larger ⟨fm + base, fc⟩) := by
  obtain ⟨m, k, has⟩ := a
  obtain ⟨v, c⟩ := vc
  simp only [SimVC] at h ⊢
  obtain ⟨h1, h2, h3⟩ := h
  subst h1
  simp only [viewMaxStep, ValCount.larger]
  cases has <;> simp at h2 <;> (repeat' split) <;> simp_all <;> omega

/-! ### The columns of a field, shard by shard, are a permutation of all its columns -/

theorem partition_perm (key : Rec → Nat) (ss : List Nat) (l : List Rec) (hnd : ss.Nodup)
    (hcov : ∀ r ∈ l, key r ∈ ss) :
    ((ss.map (fun s => l.filter (fun r => decide (key r = s)))).flatten).Perm l := by
  induction ss generalizing l with
  | nil =>
    cases l with
    | nil => exact List.Perm.refl _
    | cons x xs => exact absurd (hcov x (List.mem_cons_self ..)) (by simp)
  | cons s rest ih =>
    simp only [List.map_cons, List.flatten_cons]
    have hnd' := (List.nodup_cons.mp hnd)
    have hrest : rest.map (fun s' => l.filter (fun r => decide (key r = s'))) =
        rest.map (fun s' => (l.filter (fun r => !decide (key r = s))).filter (fun r => decide (key r = s'))) := by
      apply List.map_congr_left
      intro s' hs'
      rw [List.filter_filter]
      apply List.filter_congr
      intro r _
      have : s' ≠ s := fun e => hnd'.1 (e ▸ hs')
      by_cases h : key r = s' <;> simp [h] ; omega
    rw [hrest]
    have hih := ih (l.filter (fun r => !decide (key r = s))) hnd'.2 (by
      intro r hr
      have hm := List.mem_filter.mp hr
      have := hcov r hm.1
      rcases List.mem_cons.mp this with h | h
      · simp [h] at hm
      · exact h)
    exact (List.Perm.append_left _ hih).trans (List.filter_append_perm _ l)

theorem mem_insertAsc (x y : Nat) (l : List Nat) : y ∈ insertAsc x l ↔ y = x ∨ y ∈ l := by
  induction l with
  | nil => simp [insertAsc]
  | cons z zs ih =>
    simp only [insertAsc]
    split
    · simp
    · split
      · rename_i h1 h2; subst h2; simp
      · simp only [List.mem_cons, ih]
        constructor
        · rintro (h | h | h) <;> simp [h]
        · rintro (h | h | h) <;> simp [h]

theorem pairwise_insertAsc (x : Nat) (l : List Nat) (h : l.Pairwise (· < ·)) :
    (insertAsc x l).Pairwise (· < ·) := by
  induction l with
  | nil => simp [insertAsc]
  | cons z zs ih =>
    simp only [insertAsc]
    have hz := List.pairwise_cons.mp h
    split
    · rename_i hlt
      refine List.pairwise_cons.mpr ⟨?_, h⟩
      intro a ha
      rcases List.mem_cons.mp ha with rfl | ha
      · exact hlt
      · exact Nat.lt_trans hlt (hz.1 a ha)
    · split
      · exact h
      · rename_i h1 h2
        refine List.pairwise_cons.mpr ⟨?_, ih hz.2⟩
        intro a ha
        rcases (mem_insertAsc x a zs).mp ha with rfl | ha
        · omega
        · exact hz.1 a ha

theorem shards_spec (cols : List Rec) (acc : List Nat) (hacc : acc.Pairwise (· < ·)) :
    (cols.foldl (fun acc r => insertAsc (r.col / shardWidth) acc) acc).Pairwise (· < ·) ∧
    (∀ r ∈ cols, r.col / shardWidth ∈ cols.foldl (fun acc r => insertAsc (r.col / shardWidth) acc) acc) ∧
    (∀ s ∈ acc, s ∈ cols.foldl (fun acc r => insertAsc (r.col / shardWidth) acc) acc) := by
  induction cols generalizing acc with
  | nil => simp [hacc]
  | cons x xs ih =>
    simp only [List.foldl_cons]
    have h := ih (insertAsc (x.col / shardWidth) acc) (pairwise_insertAsc _ _ hacc)
    refine ⟨h.1, ?_, ?_⟩
    · intro r hr
      rcases List.mem_cons.mp hr with rfl | hr
      · exact h.2.2 _ ((mem_insertAsc _ _ _).mpr (Or.inl rfl))
      · exact h.2.1 r hr
    · intro s hs
      exact h.2.2 s ((mem_insertAsc _ _ _).mpr (Or.inr hs))

theorem Field.shards_nodup (f : Field) : f.shards.Nodup := by
  have h := (shards_spec f.cols [] List.Pairwise.nil).1
  exact h.imp (fun hlt => Nat.ne_of_lt hlt)

theorem Field.shards_cover (f : Field) : ∀ r ∈ f.cols, r.col / shardWidth ∈ f.shards :=
  (shards_spec f.cols [] List.Pairwise.nil).2.1

/-- Considered values listed shard by shard. -/
def Field.shardVals (f : Field) (flt : Filter) : List (List Int) :=
  f.shards.map (fun sh => (considerOf (f.shardCols sh) flt).map (fun r => r.frag.val f.g.depth))

theorem Field.shardVals_perm (f : Field) (flt : Filter) :
    (f.shardVals flt).flatten.Perm ((considerOf f.cols flt).map (fun r => r.frag.val f.g.depth)) := by
  have hp := partition_perm (fun r => r.col / shardWidth) f.shards (considerOf f.cols flt) f.shards_nodup
    (fun r hr => f.shards_cover r (List.mem_filter.mp hr).1)
  have := hp.map (fun r => r.frag.val f.g.depth)
  refine List.Perm.trans ?_ this
  apply List.Perm.of_eq
  simp only [Field.shardVals, Field.shardCols, considerOf, List.map_flatten, List.map_map]
  congr 1
  apply List.map_congr_left
  intro s _
  simp only [Function.comp, List.filter_filter]
  congr 1
  apply List.filter_congr
  intro r _
  simp [Bool.and_comm]

/-! ### Field-level Min / Max / Sum over all shards -/

theorem IsMin.perm {l l' : List Int} {m : Int} {k : Nat} (p : l.Perm l') (h : IsMin l m k) : IsMin l' m k :=
  ⟨p.mem_iff.mp h.1, fun x hx => h.2.1 x (p.mem_iff.mpr hx), by rw [h.2.2]; exact (p.filter _).length_eq⟩

theorem IsMax.perm {l l' : List Int} {m : Int} {k : Nat} (p : l.Perm l') (h : IsMax l m k) : IsMax l' m k :=
  ⟨p.mem_iff.mp h.1, fun x hx => h.2.1 x (p.mem_iff.mpr hx), by rw [h.2.2]; exact (p.filter _).length_eq⟩

theorem viewMin_fold_nil (L : List (List Int)) (hL : ∀ l ∈ L, l = []) (a : Int × Nat × Bool) :
    (L.map Spec.minCount).foldl viewMinStep a = a := by
  induction L generalizing a with
  | nil => rfl
  | cons l ls ih =>
    have : l = [] := hL l (List.mem_cons_self ..)
    subst this
    simp only [List.map_cons, List.foldl_cons, Spec.minCount, viewMinStep, if_true]
    exact ih (fun l hl => hL l (List.mem_cons_of_mem _ hl)) a

theorem viewMax_fold_nil (L : List (List Int)) (hL : ∀ l ∈ L, l = []) (a : Int × Nat × Bool) :
    (L.map Spec.maxCount).foldl viewMaxStep a = a := by
  induction L generalizing a with
  | nil => rfl
  | cons l ls ih =>
    have : l = [] := hL l (List.mem_cons_self ..)
    subst this
    simp only [List.map_cons, List.foldl_cons, Spec.maxCount, viewMaxStep, if_true]
    exact ih (fun l hl => hL l (List.mem_cons_of_mem _ hl)) a

/-- What a fold of per-shard minima yields, against the specification on all values `V`. -/
def AggOK (r : Int × Nat × Bool) (s : Int × Nat) : Prop :=
  r.2.1 = s.2 ∧ (r.2.2 = true ↔ r.2.1 > 0) ∧ (r.2.1 > 0 → r.1 = s.1)

theorem viewMin_result (L : List (List Int)) (V : List Int) (p : L.flatten.Perm V) :
    AggOK ((L.map Spec.minCount).foldl viewMinStep (0, 0, false)) (Spec.minCount V) := by
  by_cases hV : V = []
  · subst hV
    have hnil : L.flatten = [] := List.Perm.eq_nil p
    have hL : ∀ l ∈ L, l = [] := by
      intro l hl
      have := List.flatten_eq_nil_iff.mp hnil
      exact this l hl
    rw [viewMin_fold_nil L hL]
    simp [AggOK, Spec.minCount]
  · have hs := minCount_spec V hV
    have h := viewMin_fold L [] 0 0 false (by simp)
    simp only [List.nil_append] at h
    generalize (L.map Spec.minCount).foldl viewMinStep (0, 0, false) = r at h
    obtain ⟨m, k, has⟩ := r
    cases has
    · simp only [Bool.false_eq_true, if_false] at h
      rw [h] at p
      exact absurd (List.Perm.nil_eq p).symm hV
    · simp only [if_true] at h
      have := (h.perm p).unique hs
      have hk := (h.perm p).pos
      simp only [AggOK]
      have e1 := (Prod.mk.inj this).1
      have e2 := (Prod.mk.inj this).2
      refine ⟨e2, by simp; omega, fun _ => e1⟩

theorem viewMax_result (L : List (List Int)) (V : List Int) (p : L.flatten.Perm V) :
    AggOK ((L.map Spec.maxCount).foldl viewMaxStep (0, 0, false)) (Spec.maxCount V) := by
  by_cases hV : V = []
  · subst hV
    have hnil : L.flatten = [] := List.Perm.eq_nil p
    have hL : ∀ l ∈ L, l = [] := by
      intro l hl
      have := List.flatten_eq_nil_iff.mp hnil
      exact this l hl
    rw [viewMax_fold_nil L hL]
    simp [AggOK, Spec.maxCount]
  · have hs := maxCount_spec V hV
    have h := viewMax_fold L [] 0 0 false (by simp)
    simp only [List.nil_append] at h
    generalize (L.map Spec.maxCount).foldl viewMaxStep (0, 0, false) = r at h
    obtain ⟨m, k, has⟩ := r
    cases has
    · simp only [Bool.false_eq_true, if_false] at h
      rw [h] at p
      exact absurd (List.Perm.nil_eq p).symm hV
    · simp only [if_true] at h
      have := (h.perm p).unique hs
      have hk := (h.perm p).pos
      simp only [AggOK]
      have e1 := (Prod.mk.inj this).1
      have e2 := (Prod.mk.inj this).2
      refine ⟨e2, by simp; omega, fun _ => e1⟩

/-! ### The per-shard results of a field and their folds -/

theorem Field.shardCols_wf {f : Field} (h : f.WF) (sh : Nat) : ∀ r ∈ f.shardCols sh, RecWF r f.g.depth :=
  fun r hr => h.recs r (List.mem_filter.mp hr).1

theorem Field.perShard_min {f : Field} (h : f.WF) (flt : Filter) :
    f.shards.map (fun sh => fragMin (f.shardCols sh) flt f.g.depth) = (f.shardVals flt).map Spec.minCount := by
  simp only [Field.shardVals, List.map_map]
  apply List.map_congr_left
  intro sh _
  exact fragMin_eq _ flt _ (Field.shardCols_wf h sh)

theorem Field.perShard_max {f : Field} (h : f.WF) (flt : Filter) :
    f.shards.map (fun sh => fragMax (f.shardCols sh) flt f.g.depth) = (f.shardVals flt).map Spec.maxCount := by
  simp only [Field.shardVals, List.map_map]
  apply List.map_congr_left
  intro sh _
  exact fragMax_eq _ flt _ (Field.shardCols_wf h sh)

theorem sim_fold_min (base : Int) (rs : List (Int × Nat)) (a : Int × Nat × Bool) (vc : ValCount)
    (h : SimVC base a vc) :
    SimVC base (rs.foldl viewMinStep a)
      ((rs.map (fun r => (⟨r.1 + base, r.2⟩ : ValCount))).foldl ValCount.smaller vc) := by
  induction rs generalizing a vc with
  | nil => exact h
  | cons r rs ih => exact ih _ _ (h.smaller r.1 r.2)

theorem sim_fold_max (base : Int) (rs : List (Int × Nat)) (a : Int × Nat × Bool) (vc : ValCount)
    (h : SimVC base a vc) :
    SimVC base (rs.foldl viewMaxStep a)
      ((rs.map (fun r => (⟨r.1 + base, r.2⟩ : ValCount))).foldl ValCount.larger vc) := by
  induction rs generalizing a vc with
  | nil => exact h
  | cons r rs ih => exact ih _ _ (h.larger r.1 r.2)

theorem sumInt_append (a b : List Int) : sumInt (a ++ b) = sumInt a + sumInt b := by
  induction a with
  | nil => simp [sumInt]
  | cons x xs ih => simp only [List.cons_append, sumInt, ih]; omega

theorem sumInt_perm {a b : List Int} (p : a.Perm b) : sumInt a = sumInt b := by
  induction p with
  | nil => rfl
  | cons x _ ih => simp only [sumInt, ih]
  | swap x y l => simp only [sumInt]; omega
  | trans _ _ ih1 ih2 => rw [ih1, ih2]

theorem apiSum_fold (L : List (List Int)) (a : Int × Nat) :
    (L.map (fun l => (sumInt l, l.length))).foldl (fun (acc : Int × Nat) r => (acc.1 + r.1, acc.2 + r.2)) a =
      (a.1 + sumInt L.flatten, a.2 + L.flatten.length) := by
  induction L generalizing a with
  | nil => simp [sumInt]
  | cons l ls ih =>
    simp only [List.map_cons, List.foldl_cons, ih, List.flatten_cons, sumInt_append, List.length_append]
    refine Prod.ext ?_ ?_ <;> simp <;> omega

theorem pqlSum_fold (base : Int) (L : List (List Int)) (a : ValCount) :
    (L.map (fun l => (⟨sumInt l + (l.length : Int) * base, l.length⟩ : ValCount))).foldl ValCount.add a =
      ⟨a.val + sumInt L.flatten + (L.flatten.length : Int) * base, a.count + L.flatten.length⟩ := by
  induction L generalizing a with
  | nil => simp [sumInt]
  | cons l ls ih =>
    simp only [List.map_cons, List.foldl_cons, ih, List.flatten_cons, sumInt_append, List.length_append,
      ValCount.add]
    congr 1
    · push_cast
      rw [Int.add_mul]
      omega
    · push_cast; omega

end PV.C14
