/-
C14 helper lemmas: every generic range algorithm, run on a fragment (rows = `κ → Bool`), gives at
column `c` what the same algorithm gives on that column alone (rows = `Bool`).  Structural
induction on the remaining bits; the control flow never looks at a row.  Core Lean only.
-/
import PV.C14.Model
namespace PV.C14
open BA
variable {κ : Type}

theorem eqLoop_at (F : Frag (κ → Bool)) (p n : Nat) (b : κ → Bool) (c : κ) :
    eqLoop F p n b c = eqLoop (F.at c) p n (b c) := by
  induction n generalizing b with
  | zero => rfl
  | succ n ih =>
    simp only [eqLoop]
    rw [ih]
    split <;> rfl

theorem ltU_at (F : Frag (κ → Bool)) (p : Nat) (eq : Bool) (n : Nat) (filter keep : κ → Bool) (lz : Bool) (c : κ) :
    ltU F p eq n filter keep lz c = ltU (F.at c) p eq n (filter c) (keep c) lz := by
  induction n generalizing filter keep lz with
  | zero => simp only [ltU]; split <;> rfl
  | succ n ih =>
    simp only [ltU]
    split
    · rw [ih]; rfl
    · split
      · split <;> rfl
      · split
        · rw [ih]; rfl
        · rw [ih]; split <;> rfl

theorem gtU_at (F : Frag (κ → Bool)) (p : Nat) (eq : Bool) (n : Nat) (filter keep : κ → Bool) (c : κ) :
    gtU F p eq n filter keep c = gtU (F.at c) p eq n (filter c) (keep c) := by
  induction n generalizing filter keep with
  | zero => simp only [gtU]; split <;> rfl
  | succ n ih =>
    simp only [gtU]
    split
    · split <;> rfl
    · split
      · rw [ih]; rfl
      · rw [ih]; split <;> rfl

theorem btwU_at (F : Frag (κ → Bool)) (lo hi : Nat) (n : Nat) (filter k1 k2 : κ → Bool) (c : κ) :
    btwU F lo hi n filter k1 k2 c = btwU (F.at c) lo hi n (filter c) (k1 c) (k2 c) := by
  induction n generalizing filter k1 k2 with
  | zero => rfl
  | succ n ih =>
    simp only [btwU]
    rw [ih]
    congr 1 <;> (repeat' split) <;> rfl

theorem rangeEQ_at (F : Frag (κ → Bool)) (d : Nat) (p : Int) (c : κ) :
    rangeEQ F d p c = rangeEQ (F.at c) d p := by
  simp only [rangeEQ, eqLoop_at]; split <;> rfl

theorem rangeLT_at (F : Frag (κ → Bool)) (d : Nat) (p : Int) (eq : Bool) (c : κ) :
    rangeLT F d p eq c = rangeLT (F.at c) d p eq := by
  simp only [rangeLT]; split
  · show (F.sg c || ltU F _ eq d _ _ true c) = _; rw [ltU_at]; rfl
  · rw [gtU_at]; rfl

theorem rangeGT_at (F : Frag (κ → Bool)) (d : Nat) (p : Int) (eq : Bool) (c : κ) :
    rangeGT F d p eq c = rangeGT (F.at c) d p eq := by
  simp only [rangeGT]; split
  · rw [gtU_at]; rfl
  · show ((F.ex c && !F.sg c) || ltU F _ eq d _ _ true c) = _; rw [ltU_at]; rfl

theorem rangeOp_at (F : Frag (κ → Bool)) (op : Op) (d : Nat) (p : Int) (c : κ) :
    rangeOp F op d p c = rangeOp (F.at c) op d p := by
  cases op <;> simp only [rangeOp, rangeNEQ]
  · exact rangeEQ_at F d p c
  · show (F.ex c && !rangeEQ F d p c) = _; rw [rangeEQ_at]; rfl
  · exact rangeLT_at F d p false c
  · exact rangeLT_at F d p true c
  · exact rangeGT_at F d p false c
  · exact rangeGT_at F d p true c

theorem rangeBetween_at (F : Frag (κ → Bool)) (d : Nat) (lo hi : Int) (c : κ) :
    rangeBetween F d lo hi c = rangeBetween (F.at c) d lo hi := by
  simp only [rangeBetween]
  split
  · rfl
  · split
    · rw [btwU_at]; rfl
    · split
      · rw [btwU_at]; rfl
      · show (ltU F _ true d _ _ true c || ltU F _ true d _ _ true c) = _
        rw [ltU_at, ltU_at]; rfl

theorem execRange_at (F : Frag (κ → Bool)) (g : BSI) (op : Op) (value : Int) (c : κ) :
    execRange F g op value c = execRange (F.at c) g op value := by
  simp only [execRange]
  repeat' split
  all_goals first | rfl | exact rangeOp_at F op g.depth _ c

theorem execBetween_at (F : Frag (κ → Bool)) (g : BSI) (lo hi : Int) (c : κ) :
    execBetween F g lo hi c = execBetween (F.at c) g lo hi := by
  simp only [execBetween]
  repeat' split
  all_goals first | rfl | exact rangeBetween_at F g.depth _ _ c

end PV.C14
