/-
C14 property theorems.  Core Lean only.

Full-strength statement (C14_query / C14_query_between / C14_field_query): for every int field
(any `min ≤ max`, any base, any bit depth), every set of stored in-range values, every comparison
and EVERY integer predicate — inside or outside the bit-depth range and the field bounds — the
executor's answer is exactly the set of columns whose value satisfies the comparison.  The model
is the code after the `fix:` commits of verif/a06 (see design/C14.md); nothing is excluded.

The fragment-level functions themselves carry the precondition `|predicate| < 2^bitDepth`
(`C14_*_unsigned`, `C14_signed*`): `C14_unsigned_needs_pred_in_depth` shows it is needed and the
query theorems show that `baseValue` / `baseValueBetween` plus the decision table always meet it.
-/
import PV.C14.LemmasPointwise
import PV.C14.LemmasField
import PV.C14.LemmasAgg
import PV.C14.LemmasShards
namespace PV.C14
open BA

/-! ### The generic algorithm on a fragment is the one-column algorithm at every column -/

theorem C14_pointwise {κ : Type} (F : Frag (κ → Bool)) (c : κ) :
    (∀ op d p, rangeOp F op d p c = rangeOp (F.at c) op d p) ∧
    (∀ d lo hi, rangeBetween F d lo hi c = rangeBetween (F.at c) d lo hi) ∧
    (∀ g op value, execRange F g op value c = execRange (F.at c) g op value) ∧
    (∀ g lo hi, execBetween F g lo hi c = execBetween (F.at c) g lo hi) :=
  ⟨fun op d p => rangeOp_at F op d p c, fun d lo hi => rangeBetween_at F d lo hi c,
   fun g op value => execRange_at F g op value c, fun g lo hi => execBetween_at F g lo hi c⟩

/-! ### Unsigned bit-sliced comparisons (one column, magnitude `v = f.mag d`, predicate `p < 2^d`) -/

theorem C14_lt_unsigned (f : Frag Bool) (d p : Nat) (hp : p < 2^d) (filter eq : Bool) :
    ltU f p eq d filter BA.empty true = true ↔
      (filter = true ∧ (if eq then f.mag d ≤ p else f.mag d < p)) := by
  have h := ltU_lz f p eq d filter
  rw [lowBits_testBit_of_lt hp] at h
  exact h

theorem C14_gt_unsigned (f : Frag Bool) (d p : Nat) (hp : p < 2^d) (filter eq : Bool) :
    gtU f p eq d filter BA.empty = true ↔
      (filter = true ∧ (if eq then f.mag d ≥ p else f.mag d > p)) := by
  rcases Nat.eq_zero_or_pos d with h0 | hpos
  · subst h0
    have : p = 0 := by simpa using hp
    subst this
    cases eq <;> cases filter <;> simp [gtU, Frag.mag, lowBits, BA.empty]
  · have h := gtU_spec f p eq d filter BA.empty (by simp [BA.empty]) (Or.inr hpos)
    rw [lowBits_testBit_of_lt hp] at h
    simpa [BA.empty, cmpGT, Frag.mag] using h

theorem C14_eq_unsigned (f : Frag Bool) (d p : Nat) (hp : p < 2^d) (b : Bool) :
    eqLoop f p d b = true ↔ (b = true ∧ f.mag d = p) := by
  have h := eqLoop_bool f p d b
  rw [lowBits_testBit_of_lt hp] at h
  exact h

theorem C14_neq (f : Frag Bool) (d : Nat) (p : Int) (hp : p.natAbs < 2^d) (wf : ColWF f d) :
    rangeNEQ f d p = true ↔ (f.ex = true ∧ f.val d ≠ p) := rangeNEQ_bool f d p hp wf

theorem C14_between_unsigned (f : Frag Bool) (d lo hi : Nat) (hlo : lo < 2^d) (hhi : hi < 2^d) (filter : Bool) :
    btwU f lo hi d filter BA.empty BA.empty = true ↔ (filter = true ∧ lo ≤ f.mag d ∧ f.mag d ≤ hi) := by
  have h := btwU_spec f lo hi d filter BA.empty BA.empty
  rw [lowBits_testBit_of_lt hlo, lowBits_testBit_of_lt hhi] at h
  simpa [BA.empty, Frag.mag] using h

/-- The precondition `p < 2^d` is needed: at depth 1 the predicate 2 is treated as 0. -/
theorem C14_unsigned_needs_pred_in_depth :
    ltU (⟨true, false, fun _ => true⟩ : Frag Bool) 2 true 1 true false true = false := by decide

/-! ### Sign / magnitude composition (one column, `|p| < 2^d`) -/

theorem C14_signed (f : Frag Bool) (op : Op) (d : Nat) (p : Int) (hp : p.natAbs < 2^d) (wf : ColWF f d) :
    rangeOp f op d p = true ↔ (f.ex = true ∧ op.holds (f.val d) p) := rangeOp_bool f op d p hp wf

theorem C14_signed_between (f : Frag Bool) (d : Nat) (lo hi : Int) (hlo : lo.natAbs < 2^d)
    (hhi : hi.natAbs < 2^d) (wf : ColWF f d) :
    rangeBetween f d lo hi = true ↔ (f.ex = true ∧ lo ≤ f.val d ∧ f.val d ≤ hi) :=
  rangeBetween_bool f d lo hi hlo hhi wf

/-! ### Values: round trip and growth -/

/-- A column written with a bit depth that holds the value reads that value back; the other
columns are untouched. -/
theorem C14_value_roundtrip (cols : List Rec) (c d : Nat) (v : Int) (hv : v.natAbs < 2^d) :
    (getRec (setCol cols c d v false).1 c).value d = some v ∧
    (getRec (setCol cols c d v true).1 c).value d = none ∧
    ∀ c', c' ≠ c → ∀ clear, getRec (setCol cols c d v clear).1 c' = getRec cols c' := by
  refine ⟨?_, ?_, ?_⟩
  · simp only [setCol, getRec_putRec, Rec.set, getRec_col, if_true]
    exact Rec.value_set (getRec cols c) d v hv
  · simp only [setCol, getRec_putRec, Rec.set, getRec_col, if_true]
    exact Rec.value_clear (getRec cols c) d v
  · intro c' hc clear
    simp only [setCol, getRec_putRec, Rec.set, getRec_col]
    split
    · omega
    · rfl

/-- Growing the bit depth keeps every stored value readable. -/
theorem C14_growth (r : Rec) (d d' : Nat) (h : RecWF r d) (hd : d ≤ d') :
    r.value d' = r.value d ∧ RecWF r d' := ⟨h.value_mono hd, h.mono hd⟩

/-- `Field.SetValue` always continues with a bit depth that holds the value (also when the
sign test of the growth code looks at the wrong variable) and never shrinks it. -/
theorem C14_setvalue_depth (depth : Nat) (value bv : Int) (hb : bv.natAbs < 2^63) :
    depth ≤ growDepth depth value bv ∧ bv.natAbs < 2 ^ growDepth depth value bv :=
  growDepth_ok depth value bv hb

/-- The invariant of reachable fields: it holds for a new field and `Field.SetValue` /
`Field.importValue` keep it. -/
theorem C14_reachable_wf :
    (∀ g, Field.WF ⟨g, []⟩) ∧
    (∀ f : Field, f.WF → ∀ c value, (value - f.g.base).natAbs < 2^63 → (f.setValue c value).1.WF) ∧
    (∀ f : Field, f.WF → ∀ pairs clear, (∀ p ∈ pairs, (p.2 - f.g.base).natAbs < 2^63) →
      (f.importValue pairs clear).1.WF) :=
  ⟨fun _ => ⟨by simp, by simp⟩, fun _ h c value hb => h.setValue c value hb,
   fun _ h pairs clear hb => h.importValue pairs clear hb⟩

/-! ### The query theorem (FULL strength) -/

/-- `Row(f <op> value)` on one shard's fragment: exactly the columns whose value satisfies the
comparison, for any bounds, base, depth, comparison and integer predicate. -/
theorem C14_query {κ : Type} (F : Frag (κ → Bool)) (g : BSI) (op : Op) (value : Int)
    (wf : ∀ c, ColWF (F.at c) g.depth)
    (inrange : ∀ c, F.ex c = true →
      g.min ≤ (F.at c).val g.depth + g.base ∧ (F.at c).val g.depth + g.base ≤ g.max) (c : κ) :
    execRange F g op value c = true ↔
      (F.ex c = true ∧ op.holds ((F.at c).val g.depth + g.base) value) := by
  rw [execRange_at]
  exact execRange_bool (F.at c) g op value (wf c) (inrange c)

theorem C14_query_between {κ : Type} (F : Frag (κ → Bool)) (g : BSI) (lo hi : Int)
    (wf : ∀ c, ColWF (F.at c) g.depth)
    (inrange : ∀ c, F.ex c = true →
      g.min ≤ (F.at c).val g.depth + g.base ∧ (F.at c).val g.depth + g.base ≤ g.max) (c : κ) :
    execBetween F g lo hi c = true ↔
      (F.ex c = true ∧ lo ≤ (F.at c).val g.depth + g.base ∧ (F.at c).val g.depth + g.base ≤ hi) := by
  rw [execBetween_at]
  exact execBetween_bool (F.at c) g lo hi (wf c) (inrange c)

/-- The same on the model's column lists, against the specification (`Spec.cmp` on the value
`Field.Value` returns): what the driver prints as model and as `#spec` is equal. -/
theorem C14_field_query (f : Field) (h : f.WF) (op : Op) (value : Int) :
    f.rowRange op value =
      (f.cols.filter (fun r => r.ex && Spec.cmp op (r.frag.val f.g.depth + f.g.base) value)).map (·.col) := by
  simp only [Field.rowRange, selectCols]
  congr 1
  apply List.filter_congr
  intro r hr
  have := execRange_bool r.frag f.g op value (h.recs r hr).colWF (h.rng r hr)
  have hex : r.frag.ex = r.ex := rfl
  rw [Bool.eq_iff_iff, this, hex]
  cases op <;> simp [Op.holds, Spec.cmp]

theorem C14_field_query_between (f : Field) (h : f.WF) (lo hi : Int) :
    f.rowBetween lo hi =
      (f.cols.filter (fun r => r.ex && (decide (lo ≤ r.frag.val f.g.depth + f.g.base) &&
        decide (r.frag.val f.g.depth + f.g.base ≤ hi)))).map (·.col) := by
  simp only [Field.rowBetween, selectCols]
  congr 1
  apply List.filter_congr
  intro r hr
  have := execBetween_bool r.frag f.g lo hi (h.recs r hr).colWF (h.rng r hr)
  have hex : r.frag.ex = r.ex := rfl
  rw [Bool.eq_iff_iff, this, hex]
  simp

/-- Non-vacuity: the field of DESIGN §8 #9 (bounds [-100,1000], values 0..7 and -7, depth 3)
satisfies the hypotheses, and the two queries that used to fail are answered exactly. -/
def exampleField : Field :=
  ((List.range 8).foldl (fun f k => (f.setValue k k).1)
    (⟨⟨-100, 1000, 0, 1⟩, []⟩ : Field)).setValue 8 (-7) |>.1

example : exampleField.g.depth = 3 := by decide
example : exampleField.rowRange .lt 500 = [0, 1, 2, 3, 4, 5, 6, 7, 8] := by decide
example : exampleField.rowRange .gt (-50) = [0, 1, 2, 3, 4, 5, 6, 7, 8] := by decide
example : exampleField.rowRange .gte (-7) = [0, 1, 2, 3, 4, 5, 6, 7, 8] := by decide
example : exampleField.rowRange .lt (-1) = [8] := by decide

/-! ### Sum / Min / Max on a fragment: exact sum, extreme value and multiplicity -/

/-- Values of the columns `fragment.sum/min/max` consider: existing and selected by the filter. -/
def consideredVals (cols : List Rec) (flt : Filter) (d : Nat) : List Int :=
  (considerOf cols flt).map (fun r => r.frag.val d)

theorem C14_sum (cols : List Rec) (flt : Filter) (d : Nat) :
    fragSum cols flt d = ((consideredVals cols flt d).foldl (· + ·) 0, (consideredVals cols flt d).length) := by
  rw [fragSum_eq, foldl_add_eq]; simp [consideredVals]

theorem C14_min (cols : List Rec) (flt : Filter) (d : Nat) (wf : ∀ r ∈ cols, RecWF r d) :
    fragMin cols flt d = Spec.minCount (consideredVals cols flt d) := fragMin_eq cols flt d wf

theorem C14_max (cols : List Rec) (flt : Filter) (d : Nat) (wf : ∀ r ∈ cols, RecWF r d) :
    fragMax cols flt d = Spec.maxCount (consideredVals cols flt d) := fragMax_eq cols flt d wf

/-- `Spec.minCount` / `maxCount` are what the property asks for: the extreme value and the
number of elements holding it. -/
theorem C14_spec_min_max (l : List Int) (hl : l ≠ []) :
    IsMin l (Spec.minCount l).1 (Spec.minCount l).2 ∧ IsMax l (Spec.maxCount l).1 (Spec.maxCount l).2 :=
  ⟨minCount_spec l hl, maxCount_spec l hl⟩

example : fragMin [⟨1, true, true, 7⟩, ⟨2, true, false, 0⟩, ⟨3, true, true, 7⟩] none 3 = (-7, 2) := by decide
example : fragMax [⟨1, true, true, 7⟩, ⟨3, true, true, 5⟩] none 3 = (-5, 1) := by decide
example : fragSum [⟨1, true, true, 3⟩, ⟨2, true, false, 5⟩] (some [2]) 3 = (5, 1) := by decide

/-! ### Sum / Min / Max of a field over all its shards, through PQL and through the Go API -/

/-- `Min`: the executor's reduce (`ValCount.smaller` over the per-shard results, any arrival order by
C17) and `Field.Min` (`view.min`) both return the least value of the considered columns of ALL shards and
the total number of columns holding it (count 0 when there is none). -/
theorem C14_field_min (f : Field) (h : f.WF) (flt : Filter) :
    let s := Spec.minCount (consideredVals f.cols flt f.g.depth)
    ((f.pqlMin flt).count = s.2 ∧ (s.2 > 0 → (f.pqlMin flt).val = s.1 + f.g.base)) ∧
    ((f.apiMin flt).count = s.2 ∧ (s.2 > 0 → (f.apiMin flt).val = s.1 + f.g.base)) := by
  have hr := viewMin_result (f.shardVals flt) _ (f.shardVals_perm flt)
  have hsim := sim_fold_min f.g.base ((f.shardVals flt).map Spec.minCount) (0, 0, false) ⟨0, 0⟩
    (by simp [SimVC])
  have e : f.pqlMin flt = (((f.shardVals flt).map Spec.minCount).map
      (fun r => (⟨r.1 + f.g.base, r.2⟩ : ValCount))).foldl ValCount.smaller ⟨0, 0⟩ := by
    simp only [Field.pqlMin, Field.minShard, ← Field.perShard_min h flt, List.map_map]
    rfl
  have e2 : f.apiMin flt = if f.shards.isEmpty then ⟨0, 0⟩ else
      ⟨(((f.shardVals flt).map Spec.minCount).foldl viewMinStep (0, 0, false)).1 + f.g.base,
       (((f.shardVals flt).map Spec.minCount).foldl viewMinStep (0, 0, false)).2.1⟩ := by
    simp only [Field.apiMin, Field.perShard_min h flt]
  have e3 : f.shards.isEmpty = true →
      ((f.shardVals flt).map Spec.minCount).foldl viewMinStep (0, 0, false) = (0, 0, false) := by
    intro hemp
    have : f.shards = [] := List.isEmpty_iff.mp hemp
    simp [Field.shardVals, this]
  rw [e, e2]
  simp only [consideredVals]
  generalize ((f.shardVals flt).map Spec.minCount).foldl viewMinStep (0, 0, false) = R at *
  generalize Spec.minCount ((considerOf f.cols flt).map (fun r => r.frag.val f.g.depth)) = S at *
  generalize (((f.shardVals flt).map Spec.minCount).map
      (fun r => (⟨r.1 + f.g.base, r.2⟩ : ValCount))).foldl ValCount.smaller ⟨0, 0⟩ = VC at *
  obtain ⟨m, k, has⟩ := R
  obtain ⟨sm, sk⟩ := S
  obtain ⟨v, c⟩ := VC
  simp only [AggOK, SimVC] at hr hsim
  obtain ⟨r1, r2, r3⟩ := hr
  obtain ⟨s1, s2, s3⟩ := hsim
  subst r1
  refine ⟨⟨s1, fun hp => by rw [s3 hp, r3 hp]⟩, ?_⟩
  by_cases hemp : f.shards.isEmpty = true
  · have := e3 hemp
    simp only [Prod.mk.injEq] at this
    simp only [hemp, if_true]
    refine ⟨by omega, fun hp => by omega⟩
  · simp only [hemp, Bool.false_eq_true, if_false]
    exact ⟨trivial, fun hp => by rw [r3 hp]⟩

/-- `Max`: likewise with the greatest value. -/
theorem C14_field_max (f : Field) (h : f.WF) (flt : Filter) :
    let s := Spec.maxCount (consideredVals f.cols flt f.g.depth)
    ((f.pqlMax flt).count = s.2 ∧ (s.2 > 0 → (f.pqlMax flt).val = s.1 + f.g.base)) ∧
    ((f.apiMax flt).count = s.2 ∧ (s.2 > 0 → (f.apiMax flt).val = s.1 + f.g.base)) := by
  have hr := viewMax_result (f.shardVals flt) _ (f.shardVals_perm flt)
  have hsim := sim_fold_max f.g.base ((f.shardVals flt).map Spec.maxCount) (0, 0, false) ⟨0, 0⟩
    (by simp [SimVC])
  have e : f.pqlMax flt = (((f.shardVals flt).map Spec.maxCount).map
      (fun r => (⟨r.1 + f.g.base, r.2⟩ : ValCount))).foldl ValCount.larger ⟨0, 0⟩ := by
    simp only [Field.pqlMax, Field.maxShard, ← Field.perShard_max h flt, List.map_map]
    rfl
  have e2 : f.apiMax flt = if f.shards.isEmpty then ⟨0, 0⟩ else
      ⟨(((f.shardVals flt).map Spec.maxCount).foldl viewMaxStep (0, 0, false)).1 + f.g.base,
       (((f.shardVals flt).map Spec.maxCount).foldl viewMaxStep (0, 0, false)).2.1⟩ := by
    simp only [Field.apiMax, Field.perShard_max h flt]
  have e3 : f.shards.isEmpty = true →
      ((f.shardVals flt).map Spec.maxCount).foldl viewMaxStep (0, 0, false) = (0, 0, false) := by
    intro hemp
    have : f.shards = [] := List.isEmpty_iff.mp hemp
    simp [Field.shardVals, this]
  rw [e, e2]
  simp only [consideredVals]
  generalize ((f.shardVals flt).map Spec.maxCount).foldl viewMaxStep (0, 0, false) = R at *
  generalize Spec.maxCount ((considerOf f.cols flt).map (fun r => r.frag.val f.g.depth)) = S at *
  generalize (((f.shardVals flt).map Spec.maxCount).map
      (fun r => (⟨r.1 + f.g.base, r.2⟩ : ValCount))).foldl ValCount.larger ⟨0, 0⟩ = VC at *
  obtain ⟨m, k, has⟩ := R
  obtain ⟨sm, sk⟩ := S
  obtain ⟨v, c⟩ := VC
  simp only [AggOK, SimVC] at hr hsim
  obtain ⟨r1, r2, r3⟩ := hr
  obtain ⟨s1, s2, s3⟩ := hsim
  subst r1
  refine ⟨⟨s1, fun hp => by rw [s3 hp, r3 hp]⟩, ?_⟩
  by_cases hemp : f.shards.isEmpty = true
  · have := e3 hemp
    simp only [Prod.mk.injEq] at this
    simp only [hemp, if_true]
    refine ⟨by omega, fun hp => by omega⟩
  · simp only [hemp, Bool.false_eq_true, if_false]
    exact ⟨trivial, fun hp => by rw [r3 hp]⟩

/-- `Sum`: both paths return the exact sum of the considered values of all shards (each value is the
stored base-relative value plus the base) and their number. -/
theorem C14_field_sum (f : Field) (flt : Filter) :
    let V := consideredVals f.cols flt f.g.depth
    f.pqlSum flt = ⟨sumInt V + (V.length : Int) * f.g.base, V.length⟩ ∧
    f.apiSum flt = ⟨sumInt V + (V.length : Int) * f.g.base, V.length⟩ := by
  intro V
  have hp := f.shardVals_perm flt
  have hs := sumInt_perm hp
  have hl := hp.length_eq
  have hper : f.shards.map (fun sh => fragSum (f.shardCols sh) flt f.g.depth) =
      (f.shardVals flt).map (fun l => (sumInt l, l.length)) := by
    simp only [Field.shardVals, List.map_map]
    apply List.map_congr_left
    intro sh _
    simp [fragSum_eq]
  constructor
  · have e : f.pqlSum flt = ((f.shardVals flt).map
        (fun l => (⟨sumInt l + (l.length : Int) * f.g.base, l.length⟩ : ValCount))).foldl ValCount.add ⟨0, 0⟩ := by
      simp only [Field.pqlSum, Field.shardVals, List.map_map]
      congr 1
      apply List.map_congr_left
      intro sh _
      simp only [Field.sumShard, fragSum_eq, Function.comp, List.length_map]
    rw [e, pqlSum_fold, hs, hl]
    simp [V, consideredVals]
  · simp only [Field.apiSum]
    have efold : f.shards.foldl (fun (acc : Int × Nat) sh =>
          ((acc.1 + (fragSum (f.shardCols sh) flt f.g.depth).1, acc.2 + (fragSum (f.shardCols sh) flt f.g.depth).2))) (0, 0)
        = (sumInt V, V.length) := by
      rw [← List.foldl_map (f := fun sh => fragSum (f.shardCols sh) flt f.g.depth)
        (g := fun (acc : Int × Nat) r => (acc.1 + r.1, acc.2 + r.2)), hper, apiSum_fold, hs, hl]
      simp [V, consideredVals]
    split
    · rename_i hemp
      have hsn : f.shards = [] := List.isEmpty_iff.mp hemp
      have : V = [] := by
        have h0 : (f.shardVals flt).flatten = [] := by simp [Field.shardVals, hsn]
        rw [h0] at hp
        simpa [V, consideredVals] using (List.Perm.nil_eq hp).symm
      simp [this, sumInt]
    · simp only [efold]

end PV.C14
