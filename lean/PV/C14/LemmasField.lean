/-
C14 helper lemmas: one column's bits under setValue (round trip, growth), bitDepth, the bit-depth
growth of Field.SetValue, and the invariant every reachable int field satisfies.  Core Lean only.
-/
import PV.C14.LemmasQuery
namespace PV.C14
open BA

theorem Rec.frag_mag (r : Rec) (d : Nat) : r.frag.mag d = r.mag % 2^d := by
  simp [Frag.mag, Rec.frag, lowBits_testBit]

theorem Rec.value_eq (r : Rec) (d : Nat) :
    r.value d = if r.ex then some (r.frag.val d) else none := by
  unfold Rec.value Frag.val
  rw [Rec.frag_mag]
  cases r.ex <;> rfl

theorem Rec.set_mag (r : Rec) (d : Nat) (v : Int) (clear : Bool) :
    (r.set d v clear).mag % 2^d = v.natAbs % 2^d := by
  simp only [Rec.set]
  rw [Nat.add_comm, Nat.add_mul_mod_self_right]
  exact Nat.mod_mod _ _

/-- A value written with enough bits is read back. -/
theorem Rec.value_set (r : Rec) (d : Nat) (v : Int) (hv : v.natAbs < 2^d) :
    (r.set d v false).value d = some v := by
  have hm := Rec.set_mag r d v false
  rw [Nat.mod_eq_of_lt hv] at hm
  simp only [Rec.value, hm]
  simp only [Rec.set]
  by_cases h : v ≥ 0 <;> simp [h] <;> omega

theorem Rec.value_clear (r : Rec) (d : Nat) (v : Int) : (r.set d v true).value d = none := by
  simp [Rec.value, Rec.set]

/-- Invariant of every column at bit depth `d`: no bit at or above `d`, a sign bit only on an
existing column with a non-zero magnitude. -/
structure RecWF (r : Rec) (d : Nat) : Prop where
  mag_lt : r.mag < 2^d
  sg_ex : r.sg = true → r.ex = true
  sg_nz : r.sg = true → r.mag ≠ 0

theorem RecWF.set {r : Rec} {d : Nat} (h : RecWF r d) (v : Int) (clear : Bool) (hv : v.natAbs < 2^d) :
    RecWF (r.set d v clear) d := by
  have h0 : r.mag / 2^d = 0 := Nat.div_eq_of_lt h.mag_lt
  have hm : (r.set d v clear).mag = v.natAbs := by
    simp only [Rec.set, h0, Nat.zero_mul, Nat.zero_add]; exact Nat.mod_eq_of_lt hv
  refine ⟨by rw [hm]; exact hv, ?_, ?_⟩
  · simp only [Rec.set]; cases clear <;> simp
  · rw [hm]; simp only [Rec.set]; cases clear <;> simp <;> omega

/-- Growing the bit depth keeps the invariant and every value. -/
theorem RecWF.mono {r : Rec} {d d' : Nat} (h : RecWF r d) (hd : d ≤ d') : RecWF r d' :=
  ⟨Nat.lt_of_lt_of_le h.mag_lt (Nat.pow_le_pow_right (by omega) hd), h.sg_ex, h.sg_nz⟩

theorem RecWF.value_mono {r : Rec} {d d' : Nat} (h : RecWF r d) (hd : d ≤ d') : r.value d' = r.value d := by
  have h' := (h.mono hd).mag_lt
  simp only [Rec.value, Nat.mod_eq_of_lt h.mag_lt, Nat.mod_eq_of_lt h']

theorem RecWF.colWF {r : Rec} {d : Nat} (h : RecWF r d) : ColWF r.frag d :=
  ⟨h.sg_ex, by intro hs; rw [Rec.frag_mag, Nat.mod_eq_of_lt h.mag_lt]; exact h.sg_nz hs⟩

theorem getRec_putRec (cols : List Rec) (r : Rec) (c : Nat) :
    getRec (putRec cols r) c = if r.col = c then r else getRec cols c := by
  induction cols with
  | nil => simp only [putRec, getRec]
  | cons x xs ih =>
    simp only [putRec]
    split
    · simp only [getRec]
    · split
      · rename_i h1 h2
        simp only [getRec, h2]
        split <;> simp_all
      · rename_i h1 h2
        simp only [getRec, ih]
        split <;> simp_all

theorem getRec_col (cols : List Rec) (c : Nat) : (getRec cols c).col = c := by
  induction cols with
  | nil => rfl
  | cons x xs ih => simp only [getRec]; split <;> simp_all

/-! ### bitDepth -/

theorem bitDepthLoop_spec (v : Nat) (fuel i : Nat) (hi : i + fuel = 63) (hv : v < 2^63) :
    v < 2 ^ bitDepthLoop v fuel i := by
  induction fuel generalizing i with
  | zero => simp only [bitDepthLoop]; exact hv
  | succ n ih =>
    simp only [bitDepthLoop]
    split
    · assumption
    · exact ih (i+1) (by omega)

theorem bitDepthLoop_le (v : Nat) (fuel i : Nat) (hi : i + fuel = 63) : bitDepthLoop v fuel i ≤ 63 := by
  induction fuel generalizing i with
  | zero => simp [bitDepthLoop]
  | succ n ih =>
    simp only [bitDepthLoop]
    split
    · omega
    · exact ih (i+1) (by omega)

theorem bitDepthLoop_big (v : Nat) (fuel i : Nat) (hi : i + fuel = 63) (hv : 2^62 ≤ v) :
    bitDepthLoop v fuel i = 63 := by
  induction fuel generalizing i with
  | zero => simp [bitDepthLoop]
  | succ n ih =>
    simp only [bitDepthLoop]
    have : ¬ v < 2^i := by
      have : 2^i ≤ 2^62 := Nat.pow_le_pow_right (by omega) (by omega)
      omega
    simp only [this, if_false]
    exact ih (i+1) (by omega)

theorem bitDepth_spec {v : Nat} (hv : v < 2^63) : v < 2 ^ bitDepth v := bitDepthLoop_spec v 63 0 rfl hv
theorem bitDepth_le (v : Nat) : bitDepth v ≤ 63 := bitDepthLoop_le v 63 0 rfl
theorem bitDepth_big {v : Nat} (hv : 2^62 ≤ v) : bitDepth v = 63 := bitDepthLoop_big v 63 0 rfl hv

theorem growDepth_ok (depth : Nat) (value bv : Int) (hb : bv.natAbs < 2^63) :
    depth ≤ growDepth depth value bv ∧ bv.natAbs < 2 ^ growDepth depth value bv := by
  have hs := bitDepth_spec hb
  simp only [growDepth, bitDepthInt]
  by_cases hgt : bitDepth bv.natAbs > depth
  · simp only [hgt, if_true]
    -- same sign: uvalue = |bv|; mixed sign: uvalue ≥ 2^63, depth 63
    by_cases hsame : (value < 0 ∧ bv ≤ 0) ∨ (¬ value < 0 ∧ bv ≥ 0)
    · have hu : (if value < 0 then u64 (-bv) else u64 bv) = bv.natAbs := by
        simp only [u64]
        rcases hsame with ⟨h1, h2⟩ | ⟨h1, h2⟩
        · simp only [h1, if_true]; omega
        · simp only [h1, if_false]; omega
      rw [hu]; exact ⟨by omega, hs⟩
    · have hu : 2^62 ≤ (if value < 0 then u64 (-bv) else u64 bv) := by
        simp only [u64]
        by_cases h1 : value < 0
        · simp only [h1, if_true]; omega
        · simp only [h1, if_false]; omega
      rw [bitDepth_big hu]
      have := bitDepth_le bv.natAbs
      exact ⟨by omega, hb⟩
  · simp only [hgt, if_false]
    refine ⟨Nat.le_refl _, ?_⟩
    exact Nat.lt_of_lt_of_le hs (Nat.pow_le_pow_right (by omega) (by omega))

/-! ### Field invariant -/

theorem mem_putRec {cols : List Rec} {r x : Rec} (h : x ∈ putRec cols r) : x = r ∨ x ∈ cols := by
  induction cols with
  | nil => simp only [putRec, List.mem_singleton] at h; exact Or.inl h
  | cons y ys ih =>
    simp only [putRec] at h
    split at h
    · simp only [List.mem_cons] at h ⊢; rcases h with h | h | h <;> simp_all
    · split at h
      · simp only [List.mem_cons] at h ⊢; rcases h with h | h <;> simp_all
      · simp only [List.mem_cons] at h ⊢
        rcases h with h | h
        · exact Or.inr (Or.inl h)
        · rcases ih h with h | h
          · exact Or.inl h
          · exact Or.inr (Or.inr h)

theorem getRec_mem_or_default (cols : List Rec) (c : Nat) :
    getRec cols c ∈ cols ∨ getRec cols c = ⟨c, false, false, 0⟩ := by
  induction cols with
  | nil => exact Or.inr rfl
  | cons x xs ih =>
    simp only [getRec]
    split
    · exact Or.inl (List.mem_cons_self ..)
    · rcases ih with h | h
      · exact Or.inl (List.mem_cons_of_mem _ h)
      · exact Or.inr h

theorem RecWF.default (c d : Nat) : RecWF ⟨c, false, false, 0⟩ d :=
  ⟨Nat.pow_pos (by omega), by simp, by simp⟩

theorem RecWF.val_mono {r : Rec} {d d' : Nat} (h : RecWF r d) (hd : d ≤ d') :
    r.frag.val d' = r.frag.val d := by
  have h' := (h.mono hd).mag_lt
  simp only [Frag.val, Rec.frag_mag, Nat.mod_eq_of_lt h.mag_lt, Nat.mod_eq_of_lt h']

theorem Rec.val_set (r : Rec) (d : Nat) (v : Int) (hv : v.natAbs < 2^d) :
    (r.set d v false).frag.val d = v := by
  have h := Rec.value_set r d v hv
  rw [Rec.value_eq] at h
  have : (r.set d v false).ex = true := by simp [Rec.set]
  simp only [this, if_true, Option.some.injEq] at h
  exact h

/-- What every reachable int field satisfies. -/
structure Field.WF (f : Field) : Prop where
  recs : ∀ r ∈ f.cols, RecWF r f.g.depth
  rng : ∀ r ∈ f.cols, r.ex = true →
    f.g.min ≤ r.frag.val f.g.depth + f.g.base ∧ r.frag.val f.g.depth + f.g.base ≤ f.g.max

/-- Writing one column at a depth that holds the value keeps the invariant. -/
theorem Field.WF.setCol {f : Field} (h : f.WF) (c : Nat) (d' : Nat) (hd : f.g.depth ≤ d') (bv : Int)
    (clear : Bool) (hb : bv.natAbs < 2^d')
    (hr : f.g.min ≤ bv + f.g.base ∧ bv + f.g.base ≤ f.g.max) :
    Field.WF { g := { f.g with depth := d' }, cols := (PV.C14.setCol f.cols c d' bv clear).1 } := by
  have hold : RecWF (getRec f.cols c) d' := by
    rcases getRec_mem_or_default f.cols c with hm | hm
    · exact (h.recs _ hm).mono hd
    · rw [hm]; exact RecWF.default c d'
  constructor
  · intro r hr'
    simp only [PV.C14.setCol] at hr'
    rcases mem_putRec hr' with rfl | hm
    · exact hold.set bv clear hb
    · exact (h.recs r hm).mono hd
  · intro r hr' hex
    simp only [PV.C14.setCol] at hr'
    rcases mem_putRec hr' with rfl | hm
    · cases clear
      · simp only [Rec.val_set _ _ _ hb]; exact hr
      · simp [Rec.set] at hex
    · simp only [(h.recs r hm).val_mono hd]
      exact h.rng r hm hex

theorem Field.WF.setValue {f : Field} (h : f.WF) (c : Nat) (value : Int)
    (hb : (value - f.g.base).natAbs < 2^63) : (f.setValue c value).1.WF := by
  simp only [Field.setValue]
  split
  · exact h
  · split
    · exact h
    · have hg := growDepth_ok f.g.depth value (value - f.g.base) hb
      exact h.setCol c _ hg.1 _ false hg.2 (by omega)

/-! ### Field.importValue keeps the invariant -/

theorem foldl_min_le (l : List Int) (a : Int) :
    (l.foldl (fun m v => if v < m then v else m) a ≤ a) ∧
    (∀ v ∈ l, l.foldl (fun m v => if v < m then v else m) a ≤ v) ∧
    (l.foldl (fun m v => if v < m then v else m) a = a ∨ l.foldl (fun m v => if v < m then v else m) a ∈ l) := by
  induction l generalizing a with
  | nil => simp
  | cons x xs ih =>
    simp only [List.foldl_cons, List.mem_cons]
    have h := ih (if x < a then x else a)
    refine ⟨?_, ?_, ?_⟩
    · have := h.1; split at this <;> omega
    · intro v hv
      rcases hv with rfl | hv
      · have := h.1; split at this <;> omega
      · exact h.2.1 v hv
    · rcases h.2.2 with h' | h'
      · rw [h']; split
        · exact Or.inr (Or.inl rfl)
        · exact Or.inl rfl
      · exact Or.inr (Or.inr h')

theorem foldl_max_ge (l : List Int) (a : Int) :
    (a ≤ l.foldl (fun m v => if v > m then v else m) a) ∧
    (∀ v ∈ l, v ≤ l.foldl (fun m v => if v > m then v else m) a) ∧
    (l.foldl (fun m v => if v > m then v else m) a = a ∨ l.foldl (fun m v => if v > m then v else m) a ∈ l) := by
  induction l generalizing a with
  | nil => simp
  | cons x xs ih =>
    simp only [List.foldl_cons, List.mem_cons]
    have h := ih (if x > a then x else a)
    refine ⟨?_, ?_, ?_⟩
    · have := h.1; split at this <;> omega
    · intro v hv
      rcases hv with rfl | hv
      · have := h.1; split at this <;> omega
      · exact h.2.1 v hv
    · rcases h.2.2 with h' | h'
      · rw [h']; split
        · exact Or.inr (Or.inl rfl)
        · exact Or.inl rfl
      · exact Or.inr (Or.inr h')

theorem listMin_spec (l : List Int) (hl : l ≠ []) : listMin l ∈ l ∧ ∀ v ∈ l, listMin l ≤ v := by
  cases l with
  | nil => exact absurd rfl hl
  | cons x xs =>
    simp only [listMin, List.mem_cons]
    have h := foldl_min_le xs x
    refine ⟨?_, ?_⟩
    · rcases h.2.2 with h' | h'
      · exact Or.inl h'
      · exact Or.inr h'
    · intro v hv
      rcases hv with rfl | hv
      · exact h.1
      · exact h.2.1 v hv

theorem listMax_spec (l : List Int) (hl : l ≠ []) : listMax l ∈ l ∧ ∀ v ∈ l, v ≤ listMax l := by
  cases l with
  | nil => exact absurd rfl hl
  | cons x xs =>
    simp only [listMax, List.mem_cons]
    have h := foldl_max_ge xs x
    refine ⟨?_, ?_⟩
    · rcases h.2.2 with h' | h'
      · exact Or.inl h'
      · exact Or.inr h'
    · intro v hv
      rcases hv with rfl | hv
      · exact h.1
      · exact h.2.1 v hv

theorem firstBad_ok {g : BSI} {pairs : List (Nat × Int)} (h : firstBad g pairs = .ok) :
    ∀ p ∈ pairs, g.min ≤ p.2 ∧ p.2 ≤ g.max := by
  induction pairs with
  | nil => simp
  | cons x xs ih =>
    obtain ⟨c, v⟩ := x
    simp only [firstBad] at h
    split at h
    · cases h
    · split at h
      · cases h
      · intro p hp
        simp only [List.mem_cons] at hp
        rcases hp with rfl | hp
        · exact ⟨by simp; omega, by simp; omega⟩
        · exact ih h p hp

/-- Depth growth alone keeps the invariant. -/
theorem Field.WF.grow {f : Field} (h : f.WF) (d' : Nat) (hd : f.g.depth ≤ d') :
    Field.WF { g := { f.g with depth := d' }, cols := f.cols } :=
  ⟨fun r hr => (h.recs r hr).mono hd,
   fun r hr hex => by simp only [(h.recs r hr).val_mono hd]; exact h.rng r hr hex⟩

theorem Field.WF.importCols {f : Field} (h : f.WF) (pairs : List (Nat × Int)) (clear : Bool)
    (hp : ∀ p ∈ pairs, p.2.natAbs < 2^f.g.depth ∧ f.g.min ≤ p.2 + f.g.base ∧ p.2 + f.g.base ≤ f.g.max) :
    Field.WF { g := f.g, cols := PV.C14.importCols f.cols pairs f.g.depth clear } := by
  induction pairs generalizing f with
  | nil => exact h
  | cons x xs ih =>
    simp only [PV.C14.importCols, List.foldl_cons]
    have hx := hp x (List.mem_cons_self ..)
    have h1 := h.setCol x.1 f.g.depth (Nat.le_refl _) x.2 clear hx.1 hx.2
    exact ih h1 (fun p hp' => hp p (List.mem_cons_of_mem _ hp'))

theorem Field.WF.importValue {f : Field} (h : f.WF) (pairs : List (Nat × Int)) (clear : Bool)
    (hb : ∀ p ∈ pairs, (p.2 - f.g.base).natAbs < 2^63) : (f.importValue pairs clear).1.WF := by
  simp only [Field.importValue]
  generalize hreq : Nat.max (bitDepthInt (listMin (pairs.map (·.2)) - f.g.base))
    (bitDepthInt (listMax (pairs.map (·.2)) - f.g.base)) = required
  generalize hdep : (if required > f.g.depth then required else f.g.depth) = depth
  have hd : f.g.depth ≤ depth := by rw [← hdep]; split <;> omega
  have hrd : required ≤ depth := by rw [← hdep]; split <;> omega
  have hg := h.grow depth hd
  split
  · rename_i hok
    have hrange : ∀ p ∈ pairs, f.g.min ≤ p.2 ∧ p.2 ≤ f.g.max := fun p hp => firstBad_ok hok p hp
    have key : ∀ p ∈ pairs, (p.2 - f.g.base).natAbs < 2^depth := by
      intro p hp
      have hne : pairs.map (·.2) ≠ [] := by
        intro hnil; simp at hnil; subst hnil; simp at hp
      have hmn := listMin_spec _ hne
      have hmx := listMax_spec _ hne
      have hpv : p.2 ∈ pairs.map (·.2) := List.mem_map_of_mem hp
      have h1 := hmn.2 _ hpv
      have h2 := hmx.2 _ hpv
      obtain ⟨q1, hq1, e1⟩ := List.mem_map.mp hmn.1
      obtain ⟨q2, hq2, e2⟩ := List.mem_map.mp hmx.1
      have b1 := hb q1 hq1; rw [e1] at b1
      have b2 := hb q2 hq2; rw [e2] at b2
      have s1 := bitDepth_spec b1
      have s2 := bitDepth_spec b2
      have m1 : 2 ^ bitDepth (listMin (pairs.map (·.2)) - f.g.base).natAbs ≤ 2^depth :=
        Nat.pow_le_pow_right (by omega) (by
          have : bitDepthInt (listMin (pairs.map (·.2)) - f.g.base) ≤ required := by rw [← hreq]; exact Nat.le_max_left ..
          simp only [bitDepthInt] at this; omega)
      have m2 : 2 ^ bitDepth (listMax (pairs.map (·.2)) - f.g.base).natAbs ≤ 2^depth :=
        Nat.pow_le_pow_right (by omega) (by
          have : bitDepthInt (listMax (pairs.map (·.2)) - f.g.base) ≤ required := by rw [← hreq]; exact Nat.le_max_right ..
          simp only [bitDepthInt] at this; omega)
      omega
    have := hg.importCols (pairs.map (fun p => (p.1, p.2 - f.g.base))) clear (by
      intro p hp
      obtain ⟨q, hq, rfl⟩ := List.mem_map.mp hp
      have := hrange q hq
      exact ⟨key q hq, by simp; omega, by simp; omega⟩)
    exact this
  · exact hg

end PV.C14
