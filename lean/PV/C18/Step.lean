/-
Driver step shared by pm_c18 and pm_c19.  Times are `Y-M-D-H` (decimal, e.g. 2001-02-28-23),
quanta are strings over YMDH (`-` = empty), view names are `standard` / `standard_<digits>`.

Pure operations (hooked functions of time.go):
  vbtr <q> <start> <end>     viewsByTimeRange -> `<names> cover=<bool>`   (names comma separated, `-` = none)
                             #spec: the same names with cover=true when start/end are aligned to q's finest unit
  vbt <q> <t>                viewsByTime
  name <u> <t>               viewByTimeUnit
  tov <name> <0|1>           timeOfView(name, adj) -> time | err
  rt <u> <t>                 timeOfView(viewByTimeUnit(t,u), false) and (…, true) -> `<time> <time>`
                             #spec: start of t's period of unit u, start of the next period
  mm <q> <names>             minMaxViews -> `<min|-> <max|->`
  next <u> <t> <end>         nextYearGTE / nextMonthGTE / nextDayGTE -> bool
  addmonth <t>               addMonth -> time
Field histories (state of the case):
  field <q> <0|1> [old]      open a time field (quantum, noStandardView) through the hooked Field API
  efield <q> <0|1>           the same through PQL on an in-process server
  set <r> <c> <t|->          SetBit / Set(c, f=r, t) -> changed
  import <0|1> <bits>        Field.Import / API.Import of bits `r:c:t;r:c:-;…` (1 = clear) -> ok | err
  mkview <name>              view created for a peer's CreateViewMessage (Server.receiveMessage) -> ok
  scan <r> <c>               names of the views holding (r,c)     #spec: from the log of live sets
  views                      names of all views
  row <r> <from> <to>        (efield) Row(f=r, from=, to=) -> columns   #spec: columns set with a timestamp in [from,to)
  row <r> - -                (efield) Row(f=r) -> columns of the standard view
  rows <from|-> <to|->       (efield) Rows(f, from=, to=) -> row ids | err
  clear <r> <c>              handled by pm_c19 (PV/C19/Main.lean)
-/
import PV.Common.Proto
import PV.C18.Model
import PV.C18.Field
import PV.C18.Spec
namespace PV.C18.Step
open PV.Proto PV.C18

structure DState where
  mode : Nat := 0            -- 0 = no field, 1 = hooked Field, 2 = PQL
  old : Bool := false        -- pm_c19 only: model `clear` with the pre-fix code
  field : Field := { q := [], noStd := false }
  log : List Spec.Ev := []
deriving Inhabited

def parseTime (s : String) : Option Civil :=
  match s.splitOn "-" with
  | [y, m, d, h] => do pure ⟨← y.toNat?, ← m.toNat?, ← d.toNat?, ← h.toNat?⟩
  | _ => none

/-- `-` = absent. -/
def parseTimeOpt (s : String) : Option (Option Civil) :=
  if s = "-" then some none else (parseTime s).map some

def showTime (t : Civil) : String := s!"{t.y}-{t.m}-{t.d}-{t.h}"

def parseUnit (c : Char) : Option U :=
  if c = 'Y' then some .Y else if c = 'M' then some .M else if c = 'D' then some .D
  else if c = 'H' then some .H else none

def parseQuantum (s : String) : Option Quantum :=
  if s = "-" then some [] else s.toList.mapM parseUnit

def parseUnitS (s : String) : Option U :=
  match s.toList with
  | [c] => parseUnit c
  | _ => none

def digitOf (c : Char) : Option Nat :=
  if c.isDigit then some (c.toNat - '0'.toNat) else none

def parseName (s : String) : Option VName :=
  if s = "standard" then some .std
  else if s.startsWith "standard_" then ((s.drop 9).toString.toList.mapM digitOf).map .tv
  else none

def showDigits (ds : VDigits) : String := String.join (ds.map toString)

def showName : VName → String
  | .std => "standard"
  | .tv ds => "standard_" ++ showDigits ds

def showNames (ns : List VName) : String :=
  if ns.isEmpty then "-" else ",".intercalate (ns.map showName)

def showTV (vs : List VDigits) : String := showNames (vs.map .tv)

def showOptName : Option VName → String
  | none => "-"
  | some n => showName n

/-- `r:c:t` with t = Y-M-D-H or `-`. -/
def parseBit (b : String) : Option (Nat × Nat × Option Civil) :=
  match b.splitOn ":" with
  | [r, c, t] => do pure (← r.toNat?, ← c.toNat?, ← parseTimeOpt t)
  | _ => none

def bad (s : DState) : DState × Ans := (s, ans "bad-op")

def stepPure (ws : List String) : Option Ans :=
  match ws with
  | ["vbtr", q, s, e] => do
    let q ← parseQuantum q; let s ← parseTime s; let e ← parseTime e
    let vs := viewsByTimeRange s e q
    let m := showTV vs ++ " cover=" ++ showBool (Spec.coverOK vs s e)
    if q ∈ validQuanta ∧ Spec.alignedTo q s ∧ Spec.alignedTo q e then
      pure (ans2 m (showTV vs ++ " cover=true") "cover")
    else pure (ans m)
  | ["vbt", q, t] => do
    let q ← parseQuantum q; let t ← parseTime t
    pure (ans (showTV (viewsByTime t q)))
  | ["name", u, t] => do
    let u ← parseUnitS u; let t ← parseTime t
    pure (ans (showName (.tv (viewByTimeUnit t u))))
  | ["tov", n, adj] => do
    let n ← parseName n
    match n with
    | .std => pure (ans "err")
    | .tv ds =>
      match timeOfView ds (adj = "1") with
      | none => pure (ans "err")
      | some t => pure (ans (showTime t))
  | ["rt", u, t] => do
    let u ← parseUnitS u; let t ← parseTime t
    let v := viewByTimeUnit t u
    let sh := fun (o : Option Civil) => match o with | none => "err" | some t => showTime t
    pure (ans2 (sh (timeOfView v false) ++ " " ++ sh (timeOfView v true))
               (showTime (Spec.floorU u t) ++ " " ++ showTime (Spec.nextU u t)) "roundtrip")
  | ["mm", q, names] => do
    let q ← parseQuantum q
    let ns ← (if names = "-" then some [] else (names.splitOn ",").mapM parseName)
    let r := minMaxViews ns q
    pure (ans (showOptName r.1 ++ " " ++ showOptName r.2))
  | ["next", u, t, e] => do
    let u ← parseUnitS u; let t ← parseTime t; let e ← parseTime e
    match u with
    | .Y => pure (ans (showBool (nextYearGTE t e)))
    | .M => pure (ans (showBool (nextMonthGTE t e)))
    | .D => pure (ans (showBool (nextDayGTE t e)))
    | .H => none
  | ["addmonth", t] => do
    let t ← parseTime t
    pure (ans (showTime (addMonth t)))
  | _ => none

def sortNames (ns : List VName) : List VName := sortBy VName.lt ns

def stepField (s : DState) (ws : List String) : Option (DState × Ans) :=
  match ws with
  | "field" :: q :: ns :: rest => do
    let q ← parseQuantum q
    let old ← (match rest with | [] => some false | ["old"] => some true | _ => none)
    if ns ≠ "0" ∧ ns ≠ "1" then none
    pure ({ mode := 1, old := old, field := { q := q, noStd := ns = "1" }, log := [] }, ans "ok")
  | ["efield", q, ns] => do
    let q ← parseQuantum q
    if ns ≠ "0" ∧ ns ≠ "1" then none
    pure ({ mode := 2, field := { q := q, noStd := ns = "1" }, log := [] }, ans "ok")
  | ["set", r, c, t] => do
    if s.mode = 0 then none
    let r ← r.toNat?; let c ← c.toNat?; let t ← parseTimeOpt t
    let res := s.field.setBit r c t
    -- a set without timestamp on a field without standard view writes nothing
    let log := if s.field.noStd && t.isNone then s.log else s.log ++ [⟨r, c, t, !s.field.noStd⟩]
    pure ({ s with field := res.1, log := log }, ans (showBool res.2))
  | ["import", cl, bits] => do
    if s.mode = 0 then none
    if cl ≠ "0" ∧ cl ≠ "1" then none
    let bs ← (if bits = "-" then some [] else (bits.splitOn ";").mapM parseBit)
    match s.field.importBits bs (cl = "1") with
    | none => pure (s, ans "err")
    | some f =>
      let log := if cl = "1" then Spec.importClear s.log bs else Spec.importSet s.field.noStd s.log bs
      pure ({ s with field := f, log := log }, ans "ok")
  | ["mkview", n] => do
    if s.mode = 0 then none
    let n ← parseName n
    pure ({ s with field := s.field.mkView n }, ans "ok")
  | ["scan", r, c] => do
    if s.mode = 0 then none
    let r ← r.toNat?; let c ← c.toNat?
    let m := showNames (sortNames (s.field.viewsWithBit r c))
    let sp := showNames (sortNames (Spec.viewsWithBit s.field.q s.log r c))
    pure (s, ans2 m sp "scan-views")
  | ["views"] => do
    if s.mode = 0 then none
    pure (s, ans (showNames (sortNames (s.field.views.map (·.name)))))
  | ["row", r, "-", "-"] => do
    if s.mode ≠ 2 then none
    let r ← r.toNat?
    pure (s, ans2 (showNats (s.field.rowStd r)) (showNats (Spec.rowStd s.log r)) "row-std")
  | ["row", r, a, b] => do
    if s.mode ≠ 2 then none
    let r ← r.toNat?; let a ← parseTime a; let b ← parseTime b
    let m := showNats (s.field.rowRange r a b)
    if s.field.q ∈ validQuanta ∧ Spec.alignedTo s.field.q a ∧ Spec.alignedTo s.field.q b then
      pure (s, ans2 m (showNats (Spec.rowRange s.log r a b)) "row-range")
    else pure (s, ans m)
  | ["rows", a, b] => do
    if s.mode ≠ 2 then none
    let a ← parseTimeOpt a; let b ← parseTimeOpt b
    let m := match s.field.rows a b with
      | none => "err"
      | some rs => showNats rs
    let al : Option Civil → Bool := fun o => match o with | none => true | some t => Spec.alignedTo s.field.q t
    if decide (s.field.q ∈ validQuanta) && al a && al b then
      let sp := if a.isNone && b.isNone && !s.field.noStd then Spec.rowsAll s.log else Spec.rowsRange s.log a b
      pure (s, ans2 m (showNats sp) "rows-range")
    else pure (s, ans m)
  | _ => none

def step (s : DState) (ws : List String) : DState × Ans :=
  match stepPure ws with
  | some a => (s, a)
  | none =>
    match stepField s ws with
    | some r => r
    | none => bad s

end PV.C18.Step
