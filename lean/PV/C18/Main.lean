/-
pm_c18: model driver for C18.  Operation lines are documented in PV/C18/Step.lean.
-/
import PV.Common.Proto
import PV.C18.Step
open PV.Proto PV.C18.Step

def main : IO Unit := run ({} : DState) step
