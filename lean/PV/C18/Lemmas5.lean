/-
C18 lemmas, part 5 (core Lean only): the two loops of viewsByTimeRange.

Invariant of the walk-down loop (`WD`): for every unit U of the quantum, if the check
`nextUGTE(t, end)` holds then the cursor `t` is aligned to U.  It holds when the walk-up loop
exits, each branch of the walk-down loop preserves it (the checks of the coarser units, once
false, stay false: the thresholds are monotone), and it makes every emitted view start at the
cursor and end at the new cursor.
-/
import PV.C18.Lemmas4
namespace PV.C18
open Spec (floorU nextU periodHours yearLen alignedTo coverChain interval denote)

structure Ctx (q : Quantum) (e : Civil) : Prop where
  ev : e.valid
  ey : e.y ≤ 9999
  ea : alignedTo q e = true
  qv : q ∈ validQuanta

structure WD (q : Quantum) (e t : Civil) : Prop where
  tv : t.valid
  le : ¬ lexLt e t
  fin : alignedTo q t = true
  qY : q.hasYear = true → ¬ lexLt e (TY t) → (t.m = 1 ∧ t.d = 1 ∧ t.h = 0)
  qM : q.hasMonth = true → ¬ lexLt e (TM t) → (t.d = 1 ∧ t.h = 0)
  qD : q.hasDay = true → ¬ lexLt e (TD t) → t.h = 0

theorem year_le {e t : Civil} (h : ¬ lexLt e t) : t.y ≤ e.y := by
  simp only [lexLt] at h; omega

theorem TY_gt (t : Civil) : lexLt t (TY t) := by
  simp only [TY, lexLt]; omega

/-- Nothing left to read: the invariant holds trivially at (or past) the end. -/
theorem WD_end {q : Quantum} {e t : Civil} (ht : t.valid) (hle : ¬ lexLt e t) (hge : ¬ lexLt t e)
    (ha : alignedTo q t = true) : WD q e t where
  tv := ht
  le := hle
  fin := ha
  qY := fun _ h => absurd (B2 ht (B1 ht (B0 ht hge))) h
  qM := fun _ h => absurd (B1 ht (B0 ht hge)) h
  qD := fun _ h => absurd (B0 ht hge) h

theorem WD_year {q : Quantum} {e t : Civil} (w : WD q e t) (hY : q.hasYear = true)
    (hn : ¬ lexLt e (TY t)) : WD q e (addYear t) := by
  obtain ⟨hm, hd, h0⟩ := w.qY hY hn
  have e1 := addYear_TY w.tv hm hd h0
  have hv := addYear_valid w.tv
  rw [e1] at hv ⊢
  exact {
    tv := hv
    le := hn
    fin := alignedTo_of (fun _ => rfl) (fun _ _ => rfl) (fun _ _ _ => rfl)
    qY := fun _ _ => ⟨rfl, rfl, rfl⟩
    qM := fun _ _ => ⟨rfl, rfl⟩
    qD := fun _ _ => rfl }

theorem WD_month {q : Quantum} {e t : Civil} (w : WD q e t)
    (nY : q.hasYear = true → lexLt e (TY t))
    (hM : q.hasMonth = true) (hn : ¬ lexLt e (TM t)) : WD q e (addMonth t) := by
  obtain ⟨hd, h0⟩ := w.qM hM hn
  have e1 := addMonth_TM w.tv hd h0
  have hy := addMonth_y_ge w.tv hd
  have hv : (addMonth t).valid := by
    rw [addMonth_aligned w.tv hd]
    obtain ⟨h1, h2, h3, h4, h5⟩ := w.tv
    have b1 := daysIn_bounds (t.y + 1) 1
    have b2 := daysIn_bounds t.y (t.m + 1)
    unfold Civil.valid
    split <;> simp only <;> omega
  have hdd : (addMonth t).d = 1 ∧ (addMonth t).h = 0 := by
    rw [addMonth_aligned w.tv hd, h0]; split <;> exact ⟨rfl, rfl⟩
  exact {
    tv := hv
    le := by rw [e1]; exact hn
    fin := alignedTo_of (fun _ => hdd.2) (fun _ _ => hdd.1) (fun _ _ h => by rw [h] at hM; cases hM)
    qY := fun h hc => absurd (TY_mono hy (nY h)) hc
    qM := fun _ _ => hdd
    qD := fun _ _ => hdd.2 }

theorem WD_day {q : Quantum} {e t : Civil} (w : WD q e t)
    (nY : q.hasYear = true → lexLt e (TY t)) (nM : q.hasMonth = true → lexLt e (TM t))
    (hD : q.hasDay = true) (hn : ¬ lexLt e (TD t)) : WD q e (addDay t) := by
  have h0 := w.qD hD hn
  have e1 := addDay_TD w.tv h0
  have hv := addDay_valid w.tv
  have hh : (addDay t).h = 0 := by rw [addDay_h w.tv]; exact h0
  exact {
    tv := hv
    le := by rw [e1]; exact hn
    fin := alignedTo_of (fun _ => hh) (fun _ h => by rw [h] at hD; cases hD)
      (fun _ h => by rw [h] at hD; cases hD)
    qY := fun h hc => absurd (TY_mono (addDay_y_ge w.tv) (nY h)) hc
    qM := fun h hc => absurd (TM_addDay w.tv (nM h)) hc
    qD := fun _ _ => hh }

theorem WD_hour {q : Quantum} {e t : Civil} (ev : e.valid) (w : WD q e t) (hlt : lexLt t e)
    (nY : q.hasYear = true → lexLt e (TY t)) (nM : q.hasMonth = true → lexLt e (TM t))
    (nD : q.hasDay = true → lexLt e (TD t)) (hH : q.hasHour = true) : WD q e (addHour t) := by
  exact {
    tv := addHour_valid w.tv
    le := fitH w.tv ev hlt
    fin := by unfold alignedTo; rw [hH]; rfl
    qY := fun h hc => absurd (TY_mono (addHour_y_ge w.tv) (nY h)) hc
    qM := fun h hc => absurd (TM_addHour w.tv (nM h)) hc
    qD := fun h hc => absurd (TD_addHour w.tv (nD h)) hc }

/-- With both ends aligned to the finest unit of a quantum without hours, the check of the
finest unit succeeds while `t < end`: the walk-down loop cannot stop early. -/
theorem finest_fits {q : Quantum} {e t : Civil} (c : Ctx q e) (w : WD q e t) (hlt : lexLt t e)
    (hH : q.hasHour = false) :
    (q.hasDay = true ∧ ¬ lexLt e (TD t)) ∨ (q.hasMonth = true ∧ ¬ lexLt e (TM t)) ∨
    (q.hasYear = true ∧ ¬ lexLt e (TY t)) := by
  have f := flags q c.qv
  have ha := w.fin
  have hb := c.ea
  unfold alignedTo at ha hb
  rw [hH] at ha hb f
  cases h3 : q.hasDay
  · cases h2 : q.hasMonth
    · cases h1 : q.hasYear
      · simp [h1, h2, h3] at f
      · simp only [h3, h2, Bool.false_eq_true, if_false, Bool.and_eq_true, beq_iff_eq] at ha hb
        right; right
        exact ⟨rfl, fitY ha.1.1 ha.1.2 ha.2 hb.1.1 hb.1.2 hb.2 hlt⟩
    · simp only [h3, h2, Bool.false_eq_true, if_false, if_true, Bool.and_eq_true, beq_iff_eq] at ha hb
      right; left
      exact ⟨rfl, fitM w.tv c.ev ha.1 ha.2 hb.1 hb.2 hlt⟩
  · simp only [h3, Bool.false_eq_true, if_false, if_true, beq_iff_eq] at ha hb
    left
    exact ⟨rfl, fitD w.tv c.ev ha hb hlt⟩

end PV.C18
