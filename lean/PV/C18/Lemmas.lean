/-
Calendar lemmas for C18 (core Lean only): the hour index is strictly monotone in the civil
fields, and the step functions of the model move it by exactly one hour / day / month / year.
-/
import PV.C18.Model
import PV.C18.Spec
namespace PV.C18
open Spec (yearLen)

theorem isLeap_iff (y : Nat) :
    isLeap y = true ↔ ((y % 4 = 0 ∧ y % 100 ≠ 0) ∨ y % 400 = 0) := by
  simp [isLeap]

theorem leapsBefore_succ (y : Nat) :
    leapsBefore (y + 1) = leapsBefore y + (if isLeap y then 1 else 0) := by
  have h := isLeap_iff y
  by_cases hl : isLeap y = true
  · have h1 := h.mp hl
    rw [if_pos hl]; clear h hl
    unfold leapsBefore; omega
  · have h1 : ¬ ((y % 4 = 0 ∧ y % 100 ≠ 0) ∨ y % 400 = 0) := fun c => hl (h.mpr c)
    rw [if_neg hl]; clear h hl
    unfold leapsBefore; omega

theorem daysIn_bounds (y m : Nat) : 28 ≤ daysIn y m ∧ daysIn y m ≤ 31 := by
  unfold daysIn; (repeat' split) <;> omega

theorem daysIn_12 (y : Nat) : daysIn y 12 = 31 := by simp [daysIn]
theorem daysIn_1 (y : Nat) : daysIn y 1 = 31 := by simp [daysIn]

theorem daysBefore_1 (y : Nat) : daysBefore y 1 = 0 := by simp [daysBefore]

theorem daysBefore_succ (y m : Nat) (h1 : 1 ≤ m) (h2 : m ≤ 11) :
    daysBefore y (m + 1) = daysBefore y m + daysIn y m := by
  have : m = 1 ∨ m = 2 ∨ m = 3 ∨ m = 4 ∨ m = 5 ∨ m = 6 ∨ m = 7 ∨ m = 8 ∨ m = 9 ∨ m = 10 ∨ m = 11 := by
    omega
  rcases this with rfl | rfl | rfl | rfl | rfl | rfl | rfl | rfl | rfl | rfl | rfl <;>
    cases hl : isLeap y <;> simp [daysBefore, daysIn, hl]

theorem daysBefore_12 (y : Nat) : daysBefore y 12 + 31 = yearLen y := by
  cases hl : isLeap y <;> simp [daysBefore, yearLen, hl]

theorem yearLen_pos (y : Nat) : 365 ≤ yearLen y ∧ yearLen y ≤ 366 := by
  unfold yearLen; split <;> omega

/-- Start of year `y+1` = start of year `y` + its length. -/
theorem dayIndex_year_succ (y : Nat) : dayIndex (y + 1) 1 1 = dayIndex y 1 1 + yearLen y := by
  unfold dayIndex yearLen
  rw [daysBefore_1, daysBefore_1, leapsBefore_succ]
  split <;> omega

theorem dayIndex_year_mono {y y' : Nat} (h : y < y') :
    dayIndex y 1 1 + yearLen y ≤ dayIndex y' 1 1 := by
  induction y' with
  | zero => omega
  | succ n ih =>
    rw [dayIndex_year_succ]
    by_cases hn : y = n
    · subst hn; omega
    · have := ih (by omega)
      omega

/-- Months are laid out one after the other. -/
theorem daysBefore_mono (y m k : Nat) (h1 : 1 ≤ m) (h2 : m + 1 + k ≤ 12) :
    daysBefore y m + daysIn y m ≤ daysBefore y (m + 1 + k) := by
  induction k with
  | zero => rw [daysBefore_succ y m h1 (by omega)]; omega
  | succ k ih =>
    have := ih (by omega)
    have e : m + 1 + (k + 1) = (m + 1 + k) + 1 := by omega
    rw [e, daysBefore_succ y (m + 1 + k) (by omega) (by omega)]
    omega

/-- A valid date lies inside its year. -/
theorem daysBefore_in_year (y m d : Nat) (h1 : 1 ≤ m) (h2 : m ≤ 12) (h3 : d ≤ daysIn y m) :
    daysBefore y m + d ≤ yearLen y := by
  by_cases h : m = 12
  · subst h; rw [daysIn_12] at h3; have := daysBefore_12 y; omega
  · have := daysBefore_mono y m (11 - m) h1 (by omega)
    have e : m + 1 + (11 - m) = 12 := by omega
    rw [e] at this
    have := daysBefore_12 y
    omega

/-- Lexicographic order on the civil fields. -/
def lexLt (a b : Civil) : Prop :=
  a.y < b.y ∨ (a.y = b.y ∧ (a.m < b.m ∨ (a.m = b.m ∧ (a.d < b.d ∨ (a.d = b.d ∧ a.h < b.h)))))

instance (a b : Civil) : Decidable (lexLt a b) := by unfold lexLt; infer_instance

theorem hourIndex_mono {a b : Civil} (ha : a.valid) (hb : b.valid) (h : lexLt a b) :
    hourIndex a < hourIndex b := by
  obtain ⟨ha1, ha2, ha3, ha4, ha5⟩ := ha
  obtain ⟨hb1, hb2, hb3, hb4, hb5⟩ := hb
  unfold hourIndex
  rcases h with h | ⟨hy, h⟩
  · have h1 := dayIndex_year_mono h
    have h2 := daysBefore_in_year a.y a.m a.d ha1 ha2 ha4
    have h3 : dayIndex a.y a.m a.d + 1 ≤ dayIndex a.y 1 1 + yearLen a.y := by
      unfold dayIndex; rw [daysBefore_1]; omega
    have h4 : dayIndex b.y 1 1 ≤ dayIndex b.y b.m b.d := by
      unfold dayIndex; rw [daysBefore_1]; omega
    omega
  · unfold dayIndex
    rw [hy]
    rcases h with h | ⟨hm, h⟩
    · have := daysBefore_mono b.y a.m (b.m - a.m - 1) ha1 (by omega)
      have e : a.m + 1 + (b.m - a.m - 1) = b.m := by omega
      rw [e] at this
      rw [hy] at ha4
      omega
    · rw [hm]
      rcases h with h | ⟨hd, h⟩ <;> omega

theorem lexLt_trichotomy (a b : Civil) : lexLt a b ∨ a = b ∨ lexLt b a := by
  rcases a with ⟨ay, am, ad, ah⟩
  rcases b with ⟨b_y, bm, bd, bh⟩
  simp only [lexLt, Civil.mk.injEq]
  omega

/-- `Before` on instants is the lexicographic order on valid civil times. -/
theorem before_iff {a b : Civil} (ha : a.valid) (hb : b.valid) :
    before a b = true ↔ lexLt a b := by
  simp only [before, decide_eq_true_eq]
  constructor
  · intro h
    rcases lexLt_trichotomy a b with h1 | h1 | h1
    · exact h1
    · subst h1; omega
    · have := hourIndex_mono hb ha h1; omega
  · exact hourIndex_mono ha hb

theorem hourIndex_le_iff {a b : Civil} (ha : a.valid) (hb : b.valid) :
    hourIndex a ≤ hourIndex b ↔ ¬ lexLt b a := by
  constructor
  · intro h h1; have := hourIndex_mono hb ha h1; omega
  · intro h
    rcases lexLt_trichotomy a b with h1 | h1 | h1
    · have := hourIndex_mono ha hb h1; omega
    · subst h1; omega
    · exact absurd h1 h

end PV.C18
