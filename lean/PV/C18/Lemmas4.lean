/-
C18 lemmas, part 4 (core Lean only): view names round-trip, what alignment to a quantum gives at
each level of the walk, and the invariant of the walk-down loop.
-/
import PV.C18.Lemmas3
namespace PV.C18
open Spec (floorU nextU periodHours yearLen alignedTo coverChain interval denote)

/-! ### Names -/

theorem dig_le (n : Nat) : n / 1000 % 10 ≤ 9 ∧ n / 100 % 10 ≤ 9 ∧ n / 10 % 10 ≤ 9 ∧ n % 10 ≤ 9 := by
  omega

theorem num4_dig (y : Nat) (h : y ≤ 9999) :
    1000 * (y / 1000 % 10) + 100 * (y / 100 % 10) + 10 * (y / 10 % 10) + y % 10 = y := by omega

theorem num2_dig (n : Nat) (h : n ≤ 99) : 10 * (n / 10 % 10) + n % 10 = n := by omega

/-- Go's `Parse` of the name `Format` produced gives back the start of the period. -/
theorem parseView_name {t : Civil} (ht : t.valid) (hy : t.y ≤ 9999) (u : U) :
    parseView (viewByTimeUnit t u) = some (floorU u t) := by
  obtain ⟨h1, h2, h3, h4, h5⟩ := ht
  have b := daysIn_bounds t.y t.m
  have ey := num4_dig t.y hy
  have em := num2_dig t.m (by omega)
  have ed := num2_dig t.d (by omega)
  have eh := num2_dig t.h (by omega)
  have dy := dig_le t.y
  have dm := dig_le t.m
  have dd := dig_le t.d
  have dh := dig_le t.h
  cases u <;>
    simp only [viewByTimeUnit, dig4, dig2, List.cons_append, List.nil_append, parseView, List.any_cons,
      List.any_nil, num4, num2, floorU, ey, em, ed, eh] <;>
    simp <;> omega

/-- The name denotes the period of `t` of that unit. -/
theorem denote_name {t : Civil} (ht : t.valid) (hy : t.y ≤ 9999) (u : U) :
    denote (viewByTimeUnit t u) = some (u, floorU u t) := by
  obtain ⟨h1, h2, h3, h4, h5⟩ := ht
  have b := daysIn_bounds t.y t.m
  have ey := num4_dig t.y hy
  have em := num2_dig t.m (by omega)
  have ed := num2_dig t.d (by omega)
  have eh := num2_dig t.h (by omega)
  have dy := dig_le t.y
  have dm := dig_le t.m
  have dd := dig_le t.d
  have dh := dig_le t.h
  cases u <;>
    simp only [viewByTimeUnit, dig4, dig2, List.cons_append, List.nil_append, denote, List.all_cons,
      List.all_nil, floorU, ey, em, ed, eh, Civil.valid] <;>
    simp <;> omega

theorem floorU_aligned {t : Civil} (u : U)
    (h : match u with
      | .Y => t.m = 1 ∧ t.d = 1 ∧ t.h = 0
      | .M => t.d = 1 ∧ t.h = 0
      | .D => t.h = 0
      | .H => True) : floorU u t = t := by
  rcases t with ⟨y, m, d, hh⟩
  cases u <;> simp only [floorU] at * <;> simp <;> omega

/-- The interval of the view emitted at an aligned cursor starts at the cursor. -/
theorem interval_emit {t : Civil} (ht : t.valid) (hy : t.y ≤ 9999) (u : U)
    (h : match u with
      | .Y => t.m = 1 ∧ t.d = 1 ∧ t.h = 0
      | .M => t.d = 1 ∧ t.h = 0
      | .D => t.h = 0
      | .H => True) :
    interval (viewByTimeUnit t u) = some (hourIndex t, hourIndex t + periodHours u t) := by
  unfold interval
  rw [denote_name ht hy u, floorU_aligned u h]

/-! ### coverChain -/

theorem coverChain_cons {lo b hi : Nat} {v : VDigits} {r : List VDigits}
    (h1 : interval v = some (lo, b)) (h2 : lo < b) (h3 : coverChain b hi r = true) :
    coverChain lo hi (v :: r) = true := by
  simp [coverChain, h1, h2, h3]

theorem coverChain_append {lo mid hi : Nat} {l1 l2 : List VDigits}
    (h1 : coverChain lo mid l1 = true) (h2 : coverChain mid hi l2 = true) :
    coverChain lo hi (l1 ++ l2) = true := by
  induction l1 generalizing lo with
  | nil =>
    simp only [coverChain, beq_iff_eq] at h1
    subst h1; simpa using h2
  | cons v r ih =>
    simp only [List.cons_append, coverChain] at h1 ⊢
    cases hv : interval v with
    | none => simp [hv] at h1
    | some ab =>
      obtain ⟨a, b⟩ := ab
      simp only [hv, Bool.and_eq_true] at h1 ⊢
      exact ⟨h1.1, ih h1.2⟩

/-! ### Alignment to the quantum, level by level -/

theorem flags (q : Quantum) (hq : q ∈ validQuanta) :
    (q.hasYear, q.hasMonth, q.hasDay, q.hasHour) ∈
      [(true, false, false, false), (true, true, false, false), (true, true, true, false),
       (true, true, true, true), (false, true, false, false), (false, true, true, false),
       (false, true, true, true), (false, false, true, false), (false, false, true, true),
       (false, false, false, true)] := by
  simp only [validQuanta, List.mem_cons, List.not_mem_nil, or_false] at hq
  rcases hq with rfl | rfl | rfl | rfl | rfl | rfl | rfl | rfl | rfl | rfl <;> decide

theorem LD {q : Quantum} {t : Civil} (hq : q ∈ validQuanta) (ha : alignedTo q t = true)
    (hD : q.hasDay = true) (hH : q.hasHour = true → t.h = 0) : t.h = 0 := by
  have f := flags q hq
  unfold alignedTo at ha
  cases h1 : q.hasYear <;> cases h2 : q.hasMonth <;> cases h3 : q.hasDay <;> cases h4 : q.hasHour <;>
    simp_all

theorem LM {q : Quantum} {t : Civil} (hq : q ∈ validQuanta) (ha : alignedTo q t = true)
    (hM : q.hasMonth = true) (hH : q.hasHour = true → t.h = 0) (hD : q.hasDay = true → t.d = 1) :
    t.d = 1 ∧ t.h = 0 := by
  have f := flags q hq
  unfold alignedTo at ha
  cases h1 : q.hasYear <;> cases h2 : q.hasMonth <;> cases h3 : q.hasDay <;> cases h4 : q.hasHour <;>
    simp_all

theorem LY {q : Quantum} {t : Civil} (hq : q ∈ validQuanta) (ha : alignedTo q t = true)
    (hY : q.hasYear = true) (hH : q.hasHour = true → t.h = 0) (hD : q.hasDay = true → t.d = 1)
    (hM : q.hasMonth = true → t.m = 1) : t.m = 1 ∧ t.d = 1 ∧ t.h = 0 := by
  have f := flags q hq
  unfold alignedTo at ha
  cases h1 : q.hasYear <;> cases h2 : q.hasMonth <;> cases h3 : q.hasDay <;> cases h4 : q.hasHour <;>
    simp_all

/-- A cursor aligned to every unit coarser than the hour is aligned to the quantum. -/
theorem alignedTo_of {q : Quantum} {t : Civil} (h0 : q.hasHour = false → t.h = 0)
    (hd : q.hasHour = false → q.hasDay = false → t.d = 1)
    (hm : q.hasHour = false → q.hasDay = false → q.hasMonth = false → t.m = 1) :
    alignedTo q t = true := by
  unfold alignedTo
  cases h4 : q.hasHour <;> cases h3 : q.hasDay <;> cases h2 : q.hasMonth <;> simp_all

end PV.C18
