/-
C18 lemmas, part 6 (core Lean only), for `C18_query`: which bits the views of a field built by a
history of timestamped sets hold; reading a row from a list of views; a time lies in exactly its
own period; a name that denotes a period is the name of the start of that period.
-/
import PV.C18.Lemmas5
import PV.C18.Field
namespace PV.C18
open Spec (floorU nextU periodHours yearLen alignedTo coverChain coverCount coverOK interval denote Ev)

/-! ### Field state: which bits a named view holds -/

/-- The bit `b` is in the view named `n` (the view `f.view? n` finds). -/
def memIn (vs : List FView) (n : VName) (b : Nat × Nat) : Prop :=
  match vs.find? (fun v => v.name == n) with
  | none => False
  | some v => b ∈ v.bits

theorem memIn_setInViews (vs : List FView) (n n' : VName) (r c : Nat) (b : Nat × Nat) :
    memIn (setInViews vs n r c).1 n' b ↔ memIn vs n' b ∨ (n' = n ∧ b = (r, c)) := by
  induction vs with
  | nil =>
    simp only [setInViews, memIn, List.find?_cons, List.find?_nil]
    by_cases h : n = n'
    · subst h; simp
    · have : (n == n') = false := by simpa using h
      simp only [this]
      constructor
      · intro h'; exact h'.elim
      · rintro (h' | ⟨h', _⟩)
        · exact h'
        · exact h h'.symm
  | cons v vs ih =>
    simp only [setInViews]
    by_cases hv : v.name = n
    · simp only [hv, if_true]
      by_cases hc : v.bits.contains (r, c) = true
      · simp only [hc, if_true]
        constructor
        · intro h; exact Or.inl h
        · rintro (h | ⟨h1, h2⟩)
          · exact h
          · subst h1; subst h2
            simp only [memIn, List.find?_cons, hv, beq_self_eq_true]
            simpa using hc
      · simp only [hc, Bool.false_eq_true, if_false]
        simp only [memIn, List.find?_cons, hv]
        by_cases hn : n = n'
        · subst hn; simp
          constructor
          · rintro (h | h)
            · exact Or.inr h
            · exact Or.inl h
          · rintro (h | h)
            · exact Or.inr h
            · exact Or.inl h
        · have : (n == n') = false := by simpa using hn
          simp only [this]
          constructor
          · intro h; exact Or.inl h
          · rintro (h | ⟨h, _⟩)
            · exact h
            · exact absurd h.symm hn
    · simp only [hv, if_false]
      simp only [memIn, List.find?_cons]
      by_cases hn : v.name = n'
      · have : (v.name == n') = true := by simpa using hn
        simp only [this]
        constructor
        · intro h; exact Or.inl h
        · rintro (h | ⟨h, _⟩)
          · exact h
          · exact absurd (hn.trans h) hv
      · have : (v.name == n') = false := by simpa using hn
        simp only [this]
        exact ih


theorem memIn_fold (names : List VDigits) (s0 : List FView × Bool) (n' : VName) (b : Nat × Nat)
    (r c : Nat) :
    memIn (names.foldl (fun (acc : List FView × Bool) v =>
        let res := setInViews acc.1 (.tv v) r c
        (res.1, acc.2 || res.2)) s0).1 n' b ↔
      memIn s0.1 n' b ∨ ((∃ v ∈ names, n' = .tv v) ∧ b = (r, c)) := by
  induction names generalizing s0 with
  | nil => simp
  | cons v vs ih =>
    simp only [List.foldl_cons]
    rw [ih]
    simp only [memIn_setInViews]
    constructor
    · rintro ((h | ⟨h1, h2⟩) | ⟨⟨w, hw, h1⟩, h2⟩)
      · exact Or.inl h
      · exact Or.inr ⟨⟨v, by simp, h1⟩, h2⟩
      · exact Or.inr ⟨⟨w, by simp [hw], h1⟩, h2⟩
    · rintro (h | ⟨⟨w, hw, h1⟩, h2⟩)
      · exact Or.inl (Or.inl h)
      · rcases List.mem_cons.mp hw with rfl | hw
        · exact Or.inl (Or.inr ⟨h1, h2⟩)
        · exact Or.inr ⟨⟨w, hw, h1⟩, h2⟩

/-- What `SetBit(r, c, t)` adds: the bit, in the standard view (if the field has one) and in
every view of `viewsByTime t q`; nothing else changes. -/
theorem memIn_setBit (f : Field) (r c : Nat) (t : Option Civil) (n' : VName) (b : Nat × Nat) :
    memIn (f.setBit r c t).1.views n' b ↔
      memIn f.views n' b ∨ (b = (r, c) ∧ ((n' = .std ∧ f.noStd = false) ∨
        ∃ ts, t = some ts ∧ ∃ v ∈ viewsByTime ts f.q, n' = .tv v)) := by
  have h0 : memIn (if f.noStd then (f.views, false) else setInViews f.views .std r c).1 n' b ↔
      memIn f.views n' b ∨ (b = (r, c) ∧ n' = .std ∧ f.noStd = false) := by
    cases hn : f.noStd
    · simp only [Bool.false_eq_true, if_false, memIn_setInViews]
      constructor
      · rintro (h | ⟨h1, h2⟩)
        · exact Or.inl h
        · exact Or.inr ⟨h2, h1, by trivial⟩
      · rintro (h | ⟨h1, h2, _⟩)
        · exact Or.inl h
        · exact Or.inr ⟨h2, h1⟩
    · simp
  unfold Field.setBit
  cases t with
  | none =>
    simp only [h0]
    constructor
    · rintro (h | ⟨h1, h2⟩)
      · exact Or.inl h
      · exact Or.inr ⟨h1, Or.inl h2⟩
    · rintro (h | ⟨h1, (h2 | ⟨ts, h3, _⟩)⟩)
      · exact Or.inl h
      · exact Or.inr ⟨h1, h2⟩
      · cases h3
  | some ts =>
    simp only [memIn_fold, h0]
    constructor
    · rintro ((h | ⟨h1, h2⟩) | ⟨⟨v, hv, h1⟩, h2⟩)
      · exact Or.inl h
      · exact Or.inr ⟨h1, Or.inl h2⟩
      · exact Or.inr ⟨h2, Or.inr ⟨ts, rfl, v, hv, h1⟩⟩
    · rintro (h | ⟨h1, (h2 | ⟨ts', h3, v, hv, h4⟩)⟩)
      · exact Or.inl (Or.inl h)
      · exact Or.inl (Or.inr ⟨h1, h2⟩)
      · cases h3
        exact Or.inr ⟨⟨v, hv, h4⟩, h1⟩

theorem setBit_q (f : Field) (r c : Nat) (t : Option Civil) :
    (f.setBit r c t).1.q = f.q ∧ (f.setBit r c t).1.noStd = f.noStd := by
  unfold Field.setBit; cases t <;> simp

theorem memIn_foldSet (log : List Ev) (f0 : Field) (v : VDigits) (b : Nat × Nat) :
    (log.foldl (fun f ev => (f.setBit ev.row ev.col ev.ts).1) f0).q = f0.q ∧
    (memIn (log.foldl (fun f ev => (f.setBit ev.row ev.col ev.ts).1) f0).views (.tv v) b ↔
      memIn f0.views (.tv v) b ∨ ∃ ev ∈ log, b = (ev.row, ev.col) ∧
        ∃ ts, ev.ts = some ts ∧ v ∈ viewsByTime ts f0.q) := by
  induction log generalizing f0 with
  | nil => simp
  | cons ev evs ih =>
    simp only [List.foldl_cons]
    obtain ⟨h1, h2⟩ := ih (f0.setBit ev.row ev.col ev.ts).1
    have hq := (setBit_q f0 ev.row ev.col ev.ts).1
    refine ⟨h1.trans hq, ?_⟩
    rw [h2, memIn_setBit, hq]
    constructor
    · rintro ((h | ⟨hb, (⟨hx, _⟩ | ⟨ts, h3, w, hw, h4⟩)⟩) | ⟨ev', hev, h3⟩)
      · exact Or.inl h
      · cases hx
      · cases h4
        exact Or.inr ⟨ev, by simp, hb, ts, h3, hw⟩
      · exact Or.inr ⟨ev', by simp [hev], h3⟩
    · rintro (h | ⟨ev', hev, hb, ts, h3, hw⟩)
      · exact Or.inl (Or.inl h)
      · rcases List.mem_cons.mp hev with rfl | hev
        · exact Or.inl (Or.inr ⟨hb, Or.inr ⟨ts, h3, v, hw, rfl⟩⟩)
        · exact Or.inr ⟨ev', hev, hb, ts, h3, hw⟩

/-- In the field built by a history, the time view `v` holds (r, c) iff some set of (r, c) had a
timestamp one of whose views (for the quantum) is `v`. -/
theorem memIn_build (q : Quantum) (noStd : Bool) (log : List Ev) (v : VDigits) (r c : Nat) :
    memIn (build q noStd log).views (.tv v) (r, c) ↔
      ∃ ev ∈ log, ev.row = r ∧ ev.col = c ∧ ∃ ts, ev.ts = some ts ∧ v ∈ viewsByTime ts q := by
  unfold build
  rw [(memIn_foldSet log _ v (r, c)).2]
  simp only [memIn, List.find?_nil, false_or]
  constructor
  · rintro ⟨ev, hev, hb, h⟩
    cases hb
    exact ⟨ev, hev, rfl, rfl, h⟩
  · rintro ⟨ev, hev, h1, h2, h⟩
    exact ⟨ev, hev, by rw [h1, h2], h⟩

theorem build_q (q : Quantum) (noStd : Bool) (log : List Ev) : (build q noStd log).q = q := by
  unfold build; exact (memIn_foldSet log _ [] (0, 0)).1

/-! ### Reading a row from a list of views -/

theorem mem_insertNat (x y : Nat) (l : List Nat) : x ∈ insertNat y l ↔ x = y ∨ x ∈ l := by
  induction l with
  | nil => simp [insertNat]
  | cons z zs ih =>
    simp only [insertNat]
    split
    · simp
    · split
      · rename_i h; subst h; simp
      · simp [ih]; constructor <;> (intro h; rcases h with h | h | h <;> simp [h])

theorem mem_sortDedup (x : Nat) (l : List Nat) : x ∈ sortDedup l ↔ x ∈ l := by
  induction l with
  | nil => simp [sortDedup]
  | cons y ys ih =>
    have : sortDedup (y :: ys) = insertNat y (sortDedup ys) := rfl
    rw [this, mem_insertNat, ih]; simp

theorem mem_spec_insertNat (x y : Nat) (l : List Nat) : x ∈ Spec.insertNat y l ↔ x = y ∨ x ∈ l := by
  induction l with
  | nil => simp [Spec.insertNat]
  | cons z zs ih =>
    simp only [Spec.insertNat]
    split
    · simp
    · split
      · rename_i h; subst h; simp
      · simp [ih]; constructor <;> (intro h; rcases h with h | h | h <;> simp [h])

theorem mem_spec_sortDedup (x : Nat) (l : List Nat) : x ∈ Spec.sortDedup l ↔ x ∈ l := by
  induction l with
  | nil => simp [Spec.sortDedup]
  | cons y ys ih =>
    have : Spec.sortDedup (y :: ys) = Spec.insertNat y (Spec.sortDedup ys) := rfl
    rw [this, mem_spec_insertNat, ih]; simp

theorem mem_rowOfViews_iff (f : Field) (r c : Nat) (names : List VName) :
    c ∈ f.rowOfViews r names ↔ ∃ n ∈ names, memIn f.views n (r, c) := by
  simp only [Field.rowOfViews, mem_sortDedup, List.mem_flatMap, memIn, Field.view?]
  constructor
  · rintro ⟨n, hn, h⟩
    refine ⟨n, hn, ?_⟩
    cases hv : List.find? (fun v => v.name == n) f.views with
    | none => simp [hv] at h
    | some v =>
      simp only [hv, List.mem_map, List.mem_filter] at h ⊢
      obtain ⟨b, ⟨hb, hr⟩, hc⟩ := h
      have : b = (r, c) := by
        cases b; simp at hr hc; simp [hr, hc]
      rw [← this]; exact hb
  · rintro ⟨n, hn, h⟩
    refine ⟨n, hn, ?_⟩
    cases hv : List.find? (fun v => v.name == n) f.views with
    | none => simp [hv] at h
    | some v =>
      simp only [hv] at h ⊢
      simp only [List.mem_map, List.mem_filter]
      exact ⟨(r, c), ⟨h, by simp⟩, rfl⟩

/-! ### Periods -/

theorem addMonth_valid_aligned {t : Civil} (ht : t.valid) (hd : t.d = 1) : (addMonth t).valid := by
  rw [addMonth_aligned ht hd]
  obtain ⟨h1, h2, h3, h4, h5⟩ := ht
  have b1 := daysIn_bounds (t.y + 1) 1
  have b2 := daysIn_bounds t.y (t.m + 1)
  unfold Civil.valid
  split <;> simp only <;> omega

theorem nextU_eq {u : U} {c0 : Civil} (hc : c0.valid) (hfl : floorU u c0 = c0) :
    (nextU u c0).valid ∧ hourIndex (nextU u c0) = hourIndex c0 + periodHours u c0 := by
  rcases c0 with ⟨y, m, d, h⟩
  cases u
  · simp only [floorU, Civil.mk.injEq] at hfl
    obtain ⟨_, rfl, rfl, rfl⟩ := hfl
    have e := addYear_aligned hc rfl rfl
    have hv := addYear_valid hc
    have hh := hourIndex_addYear hc rfl rfl
    rw [e] at hv hh
    exact ⟨hv, hh⟩
  · simp only [floorU, Civil.mk.injEq] at hfl
    obtain ⟨_, _, rfl, rfl⟩ := hfl
    have e := addMonth_aligned hc rfl
    have hh := hourIndex_addMonth hc rfl
    have hv := addMonth_valid_aligned hc rfl
    rw [e] at hv hh
    exact ⟨hv, hh⟩
  · simp only [floorU, Civil.mk.injEq] at hfl
    obtain ⟨_, _, _, rfl⟩ := hfl
    have e := addDay_eq hc
    have hv := addDay_valid hc
    have hh := hourIndex_addDay hc
    rw [e] at hv hh
    exact ⟨hv, hh⟩
  · have e := addHour_eq hc
    have hv := addHour_valid hc
    have hh := hourIndex_addHour hc
    rw [e] at hv hh
    exact ⟨hv, hh⟩

theorem floorU_valid {u : U} {t : Civil} (ht : t.valid) : (floorU u t).valid := by
  obtain ⟨h1, h2, h3, h4, h5⟩ := ht
  have b := daysIn_bounds t.y t.m
  have b1 := daysIn_1 t.y
  cases u <;> simp only [floorU, Civil.valid] <;> omega

theorem floorU_idem (u : U) (t : Civil) : floorU u (floorU u t) = floorU u t := by
  cases u <;> rfl

/-- `t` lies in its own period. -/
theorem period_contains {u : U} {t : Civil} (ht : t.valid) :
    hourIndex (floorU u t) ≤ hourIndex t ∧
    hourIndex t < hourIndex (floorU u t) + periodHours u (floorU u t) := by
  have hv := floorU_valid (u := u) ht
  obtain ⟨nv, nh⟩ := nextU_eq hv (floorU_idem u t)
  rw [← nh]
  have g1 : ¬ lexLt t (floorU u t) := by
    obtain ⟨h1, h2, h3, h4, h5⟩ := ht
    clear hv nv nh
    cases u <;> simp only [floorU, lexLt] <;> omega
  have g2 : lexLt t (nextU u (floorU u t)) := by
    obtain ⟨h1, h2, h3, h4, h5⟩ := ht
    clear hv nv nh g1
    rcases t with ⟨y, m, d, h⟩
    simp only at h1 h2 h3 h4 h5
    by_cases c0 : h < 23 <;> by_cases c1 : d < daysIn y m <;> by_cases c2 : m = 12 <;>
      (first | have c2' := eq_false c2 | have c2' := eq_true c2) <;>
      cases u <;> simp only [floorU, nextU, lexLt, c0, c1, c2', if_true, if_false, true_and] <;> omega
  exact ⟨(hourIndex_le_iff hv ht).mpr g1, hourIndex_mono ht nv g2⟩

/-- An aligned period that contains the hour of `t` is `t`'s period. -/
theorem floor_of_mem {u : U} {c0 t : Civil} (hc : c0.valid) (ht : t.valid) (hfl : floorU u c0 = c0)
    (h1 : hourIndex c0 ≤ hourIndex t) (h2 : hourIndex t < hourIndex c0 + periodHours u c0) :
    floorU u t = c0 := by
  obtain ⟨nv, nh⟩ := nextU_eq hc hfl
  rw [← nh] at h2
  have l1 := (hourIndex_le_iff hc ht).mp h1
  have l2 : lexLt t (nextU u c0) := by
    rcases lexLt_trichotomy t (nextU u c0) with h | h | h
    · exact h
    · rw [h] at h2; omega
    · have := hourIndex_mono nv ht h; omega
  obtain ⟨t1, t2, t3, t4, t5⟩ := ht
  obtain ⟨c1, c2, c3, c4, c5⟩ := hc
  rcases t with ⟨y, m, d, h⟩
  rcases c0 with ⟨cy, cm, cd, ch⟩
  simp only at t1 t2 t3 t4 t5 c1 c2 c3 c4 c5
  have key : y = cy → m = cm → d ≤ daysIn cy cm := by intro a b; subst a; subst b; exact t4
  clear t4
  by_cases c0 : ch < 23 <;> by_cases c1 : cd < daysIn cy cm <;> by_cases c2 : cm = 12 <;>
    (first | have c2' := eq_false c2 | have c2' := eq_true c2) <;>
    cases u <;>
    simp only [floorU, nextU, lexLt, Civil.mk.injEq, c0, c1, c2', if_true, if_false, true_and] at hfl l1 l2 ⊢ <;>
    omega

/-! ### Names and periods -/

theorem name_floor (u : U) (t : Civil) : viewByTimeUnit (floorU u t) u = viewByTimeUnit t u := by
  cases u <;> rfl

theorem name_len (u : U) (t : Civil) :
    (viewByTimeUnit t u).length = match u with | .Y => 4 | .M => 6 | .D => 8 | .H => 10 := by
  cases u <;> rfl

theorem name_unit {u u' : U} {t t' : Civil} (h : viewByTimeUnit t u = viewByTimeUnit t' u') : u = u' := by
  have := congrArg List.length h
  rw [name_len, name_len] at this
  cases u <;> cases u' <;> simp at this <;> rfl

/-- A name that denotes a period is the name of the start of that period. -/
theorem denote_inv {v : VDigits} {u : U} {c0 : Civil} (h : denote v = some (u, c0)) :
    v = viewByTimeUnit c0 u ∧ c0.valid ∧ c0.y ≤ 9999 ∧ floorU u c0 = c0 := by
  unfold denote at h
  split at h
  · rename_i hall
    split at h
    · rename_i a b c d
      simp only [List.all_cons, List.all_nil, Bool.and_true, Bool.and_eq_true, decide_eq_true_eq] at hall
      simp only [Option.some.injEq, Prod.mk.injEq] at h
      obtain ⟨rfl, rfl⟩ := h
      refine ⟨?_, ?_, ?_, rfl⟩
      · simp only [viewByTimeUnit, dig4, List.cons.injEq, and_true]; omega
      · simp only [Civil.valid, daysIn_1]; omega
      · simp only; omega
    · rename_i a b c d m1 m2
      simp only [List.all_cons, List.all_nil, Bool.and_true, Bool.and_eq_true, decide_eq_true_eq] at hall
      simp only at h
      split at h
      · rename_i hv
        simp only [Option.some.injEq, Prod.mk.injEq] at h
        obtain ⟨rfl, rfl⟩ := h
        refine ⟨?_, hv, ?_, rfl⟩
        · simp only [viewByTimeUnit, dig4, dig2, List.cons_append, List.nil_append, List.cons.injEq,
            and_true]; omega
        · simp only; omega
      · cases h
    · rename_i a b c d m1 m2 d1 d2
      simp only [List.all_cons, List.all_nil, Bool.and_true, Bool.and_eq_true, decide_eq_true_eq] at hall
      simp only at h
      split at h
      · rename_i hv
        simp only [Option.some.injEq, Prod.mk.injEq] at h
        obtain ⟨rfl, rfl⟩ := h
        refine ⟨?_, hv, ?_, rfl⟩
        · simp only [viewByTimeUnit, dig4, dig2, List.cons_append, List.nil_append, List.cons.injEq,
            and_true]; omega
        · simp only; omega
      · cases h
    · rename_i a b c d m1 m2 d1 d2 h1 h2
      simp only [List.all_cons, List.all_nil, Bool.and_true, Bool.and_eq_true, decide_eq_true_eq] at hall
      simp only at h
      split at h
      · rename_i hv
        simp only [Option.some.injEq, Prod.mk.injEq] at h
        obtain ⟨rfl, rfl⟩ := h
        refine ⟨?_, hv, ?_, rfl⟩
        · simp only [viewByTimeUnit, dig4, dig2, List.cons_append, List.nil_append, List.cons.injEq,
            and_true]; omega
        · simp only; omega
      · cases h
    · cases h
  · cases h

theorem coverChain_le : ∀ (lo hi : Nat) (l : List VDigits), coverChain lo hi l = true → lo ≤ hi := by
  intro lo hi l
  induction l generalizing lo with
  | nil => intro h; simp only [coverChain, beq_iff_eq] at h; omega
  | cons w l ihl =>
    intro h
    simp only [coverChain] at h
    cases hw : interval w with
    | none => simp [hw] at h
    | some cd =>
      obtain ⟨c, d⟩ := cd
      simp only [hw, Bool.and_eq_true, beq_iff_eq, decide_eq_true_eq] at h
      have := ihl d h.2
      omega

/-- Every period of a chain lies inside `[lo, hi]`. -/
theorem coverChain_mem {lo hi : Nat} {vs : List VDigits} (h : coverChain lo hi vs = true) :
    ∀ v ∈ vs, ∃ a b, interval v = some (a, b) ∧ lo ≤ a ∧ b ≤ hi := by
  induction vs generalizing lo with
  | nil => intro v hv; cases hv
  | cons w r ih =>
    intro v hv
    simp only [coverChain] at h
    cases hw : interval w with
    | none => simp [hw] at h
    | some ab =>
      obtain ⟨a, b⟩ := ab
      simp only [hw, Bool.and_eq_true, beq_iff_eq, decide_eq_true_eq] at h
      obtain ⟨⟨rfl, hab⟩, hr⟩ := h
      have hbh := coverChain_le b hi r hr
      rcases List.mem_cons.mp hv with rfl | hv
      · exact ⟨a, b, hw, Nat.le_refl _, hbh⟩
      · obtain ⟨a', b', h1, h2, h3⟩ := ih hr v hv
        exact ⟨a', b', h1, by omega, h3⟩

theorem coverCount_pos {x : Nat} {vs : List VDigits} (h : 1 ≤ coverCount x vs) :
    ∃ v ∈ vs, ∃ a b, interval v = some (a, b) ∧ a ≤ x ∧ x < b := by
  induction vs with
  | nil => simp [coverCount] at h
  | cons w r ih =>
    simp only [coverCount] at h
    cases hw : interval w with
    | none =>
      simp only [hw, Nat.zero_add] at h
      obtain ⟨v, hv, rest⟩ := ih h
      exact ⟨v, by simp [hv], rest⟩
    | some ab =>
      obtain ⟨a, b⟩ := ab
      simp only [hw] at h
      by_cases hc : a ≤ x ∧ x < b
      · exact ⟨w, by simp, a, b, hw, hc.1, hc.2⟩
      · simp only [hc, if_false, Nat.zero_add] at h
        obtain ⟨v, hv, rest⟩ := ih h
        exact ⟨v, by simp [hv], rest⟩


end PV.C18
