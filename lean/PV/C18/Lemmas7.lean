/-
C18 lemmas, part 7 (core Lean only): the inductions over the two loops of viewsByTimeRange
(cover chain and units of the emitted views) and the counting lemma for cover chains.
-/
import PV.C18.Lemmas6
namespace PV.C18
open Spec (floorU nextU periodHours yearLen alignedTo coverChain coverCount coverOK interval denote Ev)

/-! ### The walk-down loop -/

theorem walkDown_cover {q : Quantum} {e : Civil} (c : Ctx q e) :
    ∀ (fuel : Nat) (t : Civil), WD q e t → hourIndex e - hourIndex t ≤ fuel →
      coverChain (hourIndex t) (hourIndex e) (walkDown q e fuel t) = true := by
  intro fuel
  induction fuel with
  | zero =>
    intro t w hf
    have := (hourIndex_le_iff w.tv c.ev).mpr w.le
    simp only [walkDown, coverChain, beq_iff_eq]; omega
  | succ fuel ih =>
    intro t w hf
    have hle := (hourIndex_le_iff w.tv c.ev).mpr w.le
    have hty : t.y ≤ 9999 := Nat.le_trans (year_le w.le) c.ey
    unfold walkDown
    by_cases hb : before t e = true
    · have hlt := (before_iff w.tv c.ev).mp hb
      have hlt' := hourIndex_mono w.tv c.ev hlt
      simp only [hb, Bool.not_true, Bool.false_eq_true, if_false]
      -- year
      by_cases hY : (q.hasYear && nextYearGTE t e) = true
      · rw [if_pos hY]
        simp only [Bool.and_eq_true] at hY
        have hn := (nextYearGTE_iff w.tv c.ev).mp hY.2
        obtain ⟨hm, hd, h0⟩ := w.qY hY.1 hn
        have hi := interval_emit w.tv hty .Y ⟨hm, hd, h0⟩
        have hs := hourIndex_addYear w.tv hm hd
        have yl := yearLen_pos t.y
        apply coverChain_cons hi (by simp only [periodHours]; omega)
        simp only [periodHours]; rw [← hs]
        exact ih _ (WD_year w hY.1 hn) (by omega)
      · rw [if_neg hY]
        have nY : q.hasYear = true → lexLt e (TY t) := by
          intro h; apply Classical.byContradiction; intro hc
          exact hY (by simp [h, (nextYearGTE_iff w.tv c.ev).mpr hc])
        -- month
        by_cases hM : (q.hasMonth && nextMonthGTE t e) = true
        · rw [if_pos hM]
          simp only [Bool.and_eq_true] at hM
          have hn := (nextMonthGTE_iff w.tv c.ev).mp hM.2
          obtain ⟨hd, h0⟩ := w.qM hM.1 hn
          have hi := interval_emit w.tv hty .M ⟨hd, h0⟩
          have hs := hourIndex_addMonth w.tv hd
          have dl := daysIn_bounds t.y t.m
          apply coverChain_cons hi (by simp only [periodHours]; omega)
          simp only [periodHours]; rw [← hs]
          exact ih _ (WD_month w nY hM.1 hn) (by omega)
        · rw [if_neg hM]
          have nM : q.hasMonth = true → lexLt e (TM t) := by
            intro h; apply Classical.byContradiction; intro hc
            exact hM (by simp [h, (nextMonthGTE_iff w.tv c.ev).mpr hc])
          -- day
          by_cases hD : (q.hasDay && nextDayGTE t e) = true
          · rw [if_pos hD]
            simp only [Bool.and_eq_true] at hD
            have hn := (nextDayGTE_iff w.tv c.ev).mp hD.2
            have h0 := w.qD hD.1 hn
            have hi := interval_emit w.tv hty .D h0
            have hs := hourIndex_addDay w.tv
            apply coverChain_cons hi (by simp only [periodHours]; omega)
            simp only [periodHours]; rw [← hs]
            exact ih _ (WD_day w nY nM hD.1 hn) (by omega)
          · rw [if_neg hD]
            have nD : q.hasDay = true → lexLt e (TD t) := by
              intro h; apply Classical.byContradiction; intro hc
              exact hD (by simp [h, (nextDayGTE_iff w.tv c.ev).mpr hc])
            -- hour
            by_cases hH : q.hasHour = true
            · rw [if_pos hH]
              have hi := interval_emit w.tv hty .H trivial
              have hs := hourIndex_addHour w.tv
              apply coverChain_cons hi (by simp only [periodHours]; omega)
              simp only [periodHours]; rw [← hs]
              exact ih _ (WD_hour c.ev w hlt nY nM nD hH) (by omega)
            · exfalso
              have hH' : q.hasHour = false := by cases h : q.hasHour <;> simp_all
              rcases finest_fits c w hlt hH' with ⟨a, b⟩ | ⟨a, b⟩ | ⟨a, b⟩
              · exact b (nD a)
              · exact b (nM a)
              · exact b (nY a)
    · have : ¬ hourIndex t < hourIndex e := by simpa [before] using hb
      have hb' : before t e = false := by simpa using hb
      simp only [hb', Bool.not_false, if_true, coverChain, beq_iff_eq]; omega

/-! ### The walk-up loop -/

theorem walkUp_cover {q : Quantum} {e : Civil} (c : Ctx q e) :
    ∀ (fuel : Nat) (t : Civil), t.valid → ¬ lexLt e t → alignedTo q t = true →
      hourIndex e - hourIndex t ≤ fuel →
      coverChain (hourIndex t) (hourIndex (walkUp q e fuel t).2) (walkUp q e fuel t).1 = true ∧
      WD q e (walkUp q e fuel t).2 ∧ hourIndex t ≤ hourIndex (walkUp q e fuel t).2 := by
  intro fuel
  induction fuel with
  | zero =>
    intro t ht hle ha hf
    have h1 := (hourIndex_le_iff ht c.ev).mpr hle
    have hge : ¬ lexLt t e := by
      intro h; have := hourIndex_mono ht c.ev h; omega
    simp only [walkUp, coverChain, beq_self_eq_true, true_and]
    exact ⟨WD_end ht hle hge ha, Nat.le_refl _⟩
  | succ fuel ih =>
    intro t ht hle ha hf
    have h1 := (hourIndex_le_iff ht c.ev).mpr hle
    have hty : t.y ≤ 9999 := Nat.le_trans (year_le hle) c.ey
    unfold walkUp
    by_cases hb : before t e = true
    · have hlt := (before_iff ht c.ev).mp hb
      have hlt' := hourIndex_mono ht c.ev hlt
      simp only [hb, Bool.not_true, Bool.false_eq_true, if_false]
      -- hour level
      by_cases bH : (q.hasHour && !nextDayGTE t e) = true
      · rw [if_pos bH]
        simp only [Bool.and_eq_true, Bool.not_eq_true'] at bH
        have nD : lexLt e (TD t) := by
          apply Classical.byContradiction; intro hc
          have := (nextDayGTE_iff ht c.ev).mpr hc; rw [bH.2] at this; cases this
        simp only [coverChain, beq_self_eq_true, true_and]
        exact ⟨{ tv := ht, le := hle, fin := ha,
                 qY := fun _ h => absurd (B2 ht (B1 ht nD)) h,
                 qM := fun _ h => absurd (B1 ht nD) h,
                 qD := fun _ h => absurd nD h }, Nat.le_refl _⟩
      · rw [if_neg bH]
        by_cases eH : (q.hasHour && t.h != 0) = true
        · rw [if_pos eH]
          simp only [Bool.and_eq_true] at eH
          have hi := interval_emit ht hty .H trivial
          have hs := hourIndex_addHour ht
          have hle' := fitH ht c.ev hlt
          have ha' : alignedTo q (addHour t) = true := by unfold alignedTo; rw [eH.1]; rfl
          obtain ⟨r1, r2, r3⟩ := ih (addHour t) (addHour_valid ht) hle' ha' (by omega)
          simp only
          refine ⟨?_, r2, by omega⟩
          apply coverChain_cons hi (by simp only [periodHours]; omega)
          simp only [periodHours]; rw [← hs]; exact r1
        · rw [if_neg eH]
          -- past the hour level: if the quantum has hours, nextDayGTE holds and t.h = 0
          have pH : q.hasHour = true → ¬ lexLt e (TD t) ∧ t.h = 0 := by
            intro h
            constructor
            · intro hc
              apply bH
              have : nextDayGTE t e = false := by
                cases hx : nextDayGTE t e
                · rfl
                · exact absurd hc ((nextDayGTE_iff ht c.ev).mp hx)
              simp [h, this]
            · apply Classical.byContradiction; intro hc
              apply eH; simp [h, hc]
          -- day level
          by_cases bD : (q.hasDay && !nextMonthGTE t e) = true
          · rw [if_pos bD]
            simp only [Bool.and_eq_true, Bool.not_eq_true'] at bD
            have nM : lexLt e (TM t) := by
              apply Classical.byContradiction; intro hc
              have := (nextMonthGTE_iff ht c.ev).mpr hc; rw [bD.2] at this; cases this
            have h0 : t.h = 0 := LD c.qv ha bD.1 (fun h => (pH h).2)
            simp only [coverChain, beq_self_eq_true, true_and]
            exact ⟨{ tv := ht, le := hle, fin := ha,
                     qY := fun _ h => absurd (B2 ht nM) h,
                     qM := fun _ h => absurd nM h,
                     qD := fun _ _ => h0 }, Nat.le_refl _⟩
          · rw [if_neg bD]
            by_cases eD : (q.hasDay && t.d != 1) = true
            · rw [if_pos eD]
              simp only [Bool.and_eq_true] at eD
              have h0 : t.h = 0 := LD c.qv ha eD.1 (fun h => (pH h).2)
              have hi := interval_emit ht hty .D h0
              have hs := hourIndex_addDay ht
              have hfit : ¬ lexLt e (TD t) := by
                cases hh : q.hasHour
                · have e0 : e.h = 0 := LD c.qv c.ea eD.1 (fun h => by rw [hh] at h; cases h)
                  exact fitD ht c.ev h0 e0 hlt
                · exact (pH hh).1
              have hle' : ¬ lexLt e (addDay t) := by rw [addDay_TD ht h0]; exact hfit
              have hh' : (addDay t).h = 0 := by rw [addDay_h ht]; exact h0
              have ha' : alignedTo q (addDay t) = true :=
                alignedTo_of (fun _ => hh') (fun _ h => by rw [h] at eD; cases eD.1)
                  (fun _ h => by rw [h] at eD; cases eD.1)
              obtain ⟨r1, r2, r3⟩ := ih (addDay t) (addDay_valid ht) hle' ha' (by omega)
              simp only
              refine ⟨?_, r2, by omega⟩
              apply coverChain_cons hi (by simp only [periodHours]; omega)
              simp only [periodHours]; rw [← hs]; exact r1
            · rw [if_neg eD]
              have pD : q.hasDay = true → ¬ lexLt e (TM t) ∧ t.d = 1 := by
                intro h
                constructor
                · intro hc
                  apply bD
                  have : nextMonthGTE t e = false := by
                    cases hx : nextMonthGTE t e
                    · rfl
                    · exact absurd hc ((nextMonthGTE_iff ht c.ev).mp hx)
                  simp [h, this]
                · apply Classical.byContradiction; intro hc
                  apply eD; simp [h, hc]
              -- month level
              by_cases bM : (q.hasMonth && !nextYearGTE t e) = true
              · rw [if_pos bM]
                simp only [Bool.and_eq_true, Bool.not_eq_true'] at bM
                have nY : lexLt e (TY t) := by
                  apply Classical.byContradiction; intro hc
                  have := (nextYearGTE_iff ht c.ev).mpr hc; rw [bM.2] at this; cases this
                have hdm := LM c.qv ha bM.1 (fun h => (pH h).2) (fun h => (pD h).2)
                simp only [coverChain, beq_self_eq_true, true_and]
                exact ⟨{ tv := ht, le := hle, fin := ha,
                         qY := fun _ h => absurd nY h,
                         qM := fun _ _ => hdm,
                         qD := fun _ _ => hdm.2 }, Nat.le_refl _⟩
              · rw [if_neg bM]
                by_cases eM : (q.hasMonth && t.m != 1) = true
                · rw [if_pos eM]
                  simp only [Bool.and_eq_true] at eM
                  obtain ⟨hd, h0⟩ := LM c.qv ha eM.1 (fun h => (pH h).2) (fun h => (pD h).2)
                  have hi := interval_emit ht hty .M ⟨hd, h0⟩
                  have hs := hourIndex_addMonth ht hd
                  have dl := daysIn_bounds t.y t.m
                  have hfit : ¬ lexLt e (TM t) := by
                    cases hh : q.hasDay
                    · have f := flags q c.qv
                      have hH : q.hasHour = false := by
                        cases h4 : q.hasHour
                        · rfl
                        · cases h1 : q.hasYear <;> simp [h1, hh, h4, eM.1] at f
                      obtain ⟨ed, e0⟩ := LM c.qv c.ea eM.1 (fun h => by rw [hH] at h; cases h)
                        (fun h => by rw [hh] at h; cases h)
                      exact fitM ht c.ev hd h0 ed e0 hlt
                    · exact (pD hh).1
                  have e1 := addMonth_TM ht hd h0
                  have hle' : ¬ lexLt e (addMonth t) := by rw [e1]; exact hfit
                  have hv : (addMonth t).valid := by
                    rw [addMonth_aligned ht hd]
                    obtain ⟨h1, h2, h3, h4, h5⟩ := ht
                    have b1 := daysIn_bounds (t.y + 1) 1
                    have b2 := daysIn_bounds t.y (t.m + 1)
                    unfold Civil.valid
                    split <;> simp only <;> omega
                  have hdd : (addMonth t).d = 1 ∧ (addMonth t).h = 0 := by
                    rw [addMonth_aligned ht hd, h0]; split <;> exact ⟨rfl, rfl⟩
                  have ha' : alignedTo q (addMonth t) = true :=
                    alignedTo_of (fun _ => hdd.2) (fun _ _ => hdd.1)
                      (fun _ _ h => by rw [h] at eM; cases eM.1)
                  obtain ⟨r1, r2, r3⟩ := ih (addMonth t) hv hle' ha' (by omega)
                  simp only
                  refine ⟨?_, r2, by omega⟩
                  apply coverChain_cons hi (by simp only [periodHours]; omega)
                  simp only [periodHours]; rw [← hs]; exact r1
                · rw [if_neg eM]
                  -- final break: aligned at every level the quantum has
                  have pM : q.hasMonth = true → t.m = 1 := by
                    intro h
                    apply Classical.byContradiction; intro hc
                    apply eM; simp [h, hc]
                  simp only [coverChain, beq_self_eq_true, true_and]
                  refine ⟨{ tv := ht, le := hle, fin := ha, qY := ?_, qM := ?_, qD := ?_ }, Nat.le_refl _⟩
                  · intro h _
                    exact LY c.qv ha h (fun h => (pH h).2) (fun h => (pD h).2) pM
                  · intro h _
                    exact LM c.qv ha h (fun h => (pH h).2) (fun h => (pD h).2)
                  · intro h _
                    exact LD c.qv ha h (fun h => (pH h).2)
    · have hn : ¬ hourIndex t < hourIndex e := by simpa [before] using hb
      have hb' : before t e = false := by simpa using hb
      have hge : ¬ lexLt t e := by
        intro h; have := hourIndex_mono ht c.ev h; omega
      simp only [hb', Bool.not_false, if_true, coverChain, beq_self_eq_true, true_and]
      exact ⟨WD_end ht hle hge ha, Nat.le_refl _⟩


/-- Consecutive non-empty periods from `lo` to `hi`: every hour of `[lo, hi)` lies in exactly one
of them, every other hour in none. -/
theorem coverChain_count {lo hi : Nat} {vs : List VDigits} (h : coverChain lo hi vs = true) (x : Nat) :
    coverCount x vs = if lo ≤ x ∧ x < hi then 1 else 0 := by
  induction vs generalizing lo with
  | nil =>
    simp only [coverChain, beq_iff_eq] at h
    subst h
    simp only [coverCount]
    split <;> omega
  | cons v r ih =>
    simp only [coverChain] at h
    cases hv : interval v with
    | none => simp [hv] at h
    | some ab =>
      obtain ⟨a, b⟩ := ab
      simp only [hv, Bool.and_eq_true, beq_iff_eq, decide_eq_true_eq] at h
      obtain ⟨⟨rfl, hab⟩, hr⟩ := h
      have hbh := coverChain_le b hi r hr
      simp only [coverCount, hv, ih hr]
      repeat' split
      all_goals omega


theorem walkDown_units (q : Quantum) (e : Civil) :
    ∀ (fuel : Nat) (t : Civil), ∀ v ∈ walkDown q e fuel t, ∃ u t', u ∈ q ∧ v = viewByTimeUnit t' u := by
  intro fuel
  induction fuel with
  | zero => intro t v hv; simp [walkDown] at hv
  | succ fuel ih =>
    intro t v hv
    unfold walkDown at hv
    repeat' split at hv
    all_goals first
      | (simp at hv; done)
      | (rename_i hc
         rcases List.mem_cons.mp hv with rfl | hv
         · simp only [Bool.and_eq_true, Quantum.hasYear, Quantum.hasMonth, Quantum.hasDay,
             Quantum.hasHour, List.contains_iff_mem] at hc
           first
             | exact ⟨_, _, hc.1, rfl⟩
             | exact ⟨_, _, hc, rfl⟩
         · exact ih _ v hv)

theorem walkUp_units (q : Quantum) (e : Civil) :
    ∀ (fuel : Nat) (t : Civil), ∀ v ∈ (walkUp q e fuel t).1, ∃ u t', u ∈ q ∧ v = viewByTimeUnit t' u := by
  intro fuel
  induction fuel with
  | zero => intro t v hv; simp [walkUp] at hv
  | succ fuel ih =>
    intro t v hv
    unfold walkUp at hv
    repeat' split at hv
    all_goals first
      | (simp at hv; done)
      | (rename_i hc
         simp only at hv
         rcases List.mem_cons.mp hv with rfl | hv
         · simp only [Bool.and_eq_true, Quantum.hasMonth, Quantum.hasDay,
             Quantum.hasHour, List.contains_iff_mem] at hc
           exact ⟨_, _, hc.1, rfl⟩
         · exact ih _ v hv)


end PV.C18
