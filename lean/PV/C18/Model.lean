/-
C18 model: time.go of pilosa, statement by statement; core Lean only.

  viewByTimeUnit, viewsByTime, viewsByTimeRange (walk-up loop, walk-down loop)
  addMonth, nextYearGTE / nextMonthGTE / nextDayGTE
  timeOfView (layout "2006010215" — after the fix; the tree before the fix had "2006010203",
              a 12-hour field, and failed for hours 13–23), viewTimePart, minMaxViews

`time.Time` is modelled as a civil UTC time at hour granularity (`Civil`): the code only ever
handles times through `Year/Month/Day/Hour/Date`, `AddDate`, `Add(time.Hour)`, `Before/After`,
`Format` and `Parse`.  `Before/After` compare instants: here the hour index (`hourIndex`, hours
since 0000-01-01T00, proleptic Gregorian, the calendar of Go's `time`).  `AddDate` builds a date
with one field incremented and normalises it like `time.Date` (`normDate`).
Model domain: minutes/seconds are zero; years 0..9999 (Go prints "2006" as exactly four digits
only in that range).  A view name is modelled by the decimal digits of its time part (the text
after the last '_'); the base name ("standard") is a parameter of the Go functions and is added
by the driver when printing.
-/
namespace PV.C18

structure Civil where
  y : Nat
  m : Nat
  d : Nat
  h : Nat
deriving DecidableEq, Repr, Inhabited

def isLeap (y : Nat) : Bool := (y % 4 == 0 && y % 100 != 0) || y % 400 == 0

/-- Days in month `m` (1..12) of year `y`. -/
def daysIn (y m : Nat) : Nat :=
  if m = 2 then (if isLeap y then 29 else 28)
  else if m = 4 ∨ m = 6 ∨ m = 9 ∨ m = 11 then 30 else 31

/-- Days of year `y` before month `m`. -/
def daysBefore (y m : Nat) : Nat :=
  (if m ≤ 1 then 0 else if m = 2 then 31 else if m = 3 then 59 else if m = 4 then 90
   else if m = 5 then 120 else if m = 6 then 151 else if m = 7 then 181 else if m = 8 then 212
   else if m = 9 then 243 else if m = 10 then 273 else if m = 11 then 304 else 334)
  + (if 2 < m ∧ isLeap y = true then 1 else 0)

def Civil.valid (c : Civil) : Prop :=
  1 ≤ c.m ∧ c.m ≤ 12 ∧ 1 ≤ c.d ∧ c.d ≤ daysIn c.y c.m ∧ c.h < 24

instance (c : Civil) : Decidable c.valid := by unfold Civil.valid; infer_instance

/-- Number of leap years in `[0, y)`. -/
def leapsBefore (y : Nat) : Nat := (y + 3) / 4 - (y + 99) / 100 + (y + 399) / 400

/-- Day number (proleptic Gregorian; day 1 = 0000-01-01). -/
def dayIndex (y m d : Nat) : Nat := 365 * y + leapsBefore y + daysBefore y m + d

/-- The instant of a civil time, in hours. -/
def hourIndex (c : Civil) : Nat := 24 * dayIndex c.y c.m c.d + c.h

/-- `t.Before(u)`. -/
def before (t u : Civil) : Bool := decide (hourIndex t < hourIndex u)
/-- `t.After(u)`. -/
def after (t u : Civil) : Bool := decide (hourIndex u < hourIndex t)

/-- `time.Date(y, m, d, h, 0, 0, 0, UTC)` for the argument ranges `AddDate(1,0,0)`, `AddDate(0,1,0)`
and `AddDate(0,0,1)` produce from a valid date (month ≤ 13, day ≤ 32): month overflow carries into
the year, day overflow carries into the next month. -/
def normDate (y m d h : Nat) : Civil :=
  let y1 := if m > 12 then y + 1 else y
  let m1 := if m > 12 then m - 12 else m
  if d > daysIn y1 m1 then
    (if m1 = 12 then ⟨y1 + 1, 1, d - daysIn y1 m1, h⟩ else ⟨y1, m1 + 1, d - daysIn y1 m1, h⟩)
  else ⟨y1, m1, d, h⟩

/-- `t.AddDate(1, 0, 0)` -/
def addYear (t : Civil) : Civil := normDate (t.y + 1) t.m t.d t.h
/-- `t.AddDate(0, 1, 0)` -/
def addMonthGo (t : Civil) : Civil := normDate t.y (t.m + 1) t.d t.h
/-- `t.AddDate(0, 0, 1)` -/
def addDay (t : Civil) : Civil := normDate t.y t.m (t.d + 1) t.h
/-- `t.Add(time.Hour)` -/
def addHour (t : Civil) : Civil :=
  if t.h + 1 < 24 then { t with h := t.h + 1 } else { addDay t with h := 0 }

/-- pilosa `addMonth`. -/
def addMonth (t : Civil) : Civil :=
  let t1 : Civil := if t.d > 28 then ⟨t.y, t.m, 1, t.h⟩ else t
  addMonthGo t1

def nextYearGTE (t e : Civil) : Bool :=
  let next := addYear t
  if next.y = e.y then true else after e next

def nextMonthGTE (t e : Civil) : Bool :=
  let next := addMonthGo t
  if next.y = e.y ∧ next.m = e.m then true else after e next

def nextDayGTE (t e : Civil) : Bool :=
  let next := addDay t
  if next.y = e.y ∧ next.m = e.m ∧ next.d = e.d then true else after e next

/-! ### Quanta and view names -/

inductive U where
  | Y | M | D | H
deriving DecidableEq, Repr, Inhabited

/-- A time quantum is the string of its units, in the order written. -/
abbrev Quantum := List U

def Quantum.hasYear (q : Quantum) : Bool := q.contains .Y
def Quantum.hasMonth (q : Quantum) : Bool := q.contains .M
def Quantum.hasDay (q : Quantum) : Bool := q.contains .D
def Quantum.hasHour (q : Quantum) : Bool := q.contains .H

/-- `TimeQuantum.Valid` without the empty quantum. -/
def validQuanta : List Quantum :=
  [[.Y], [.Y, .M], [.Y, .M, .D], [.Y, .M, .D, .H], [.M], [.M, .D], [.M, .D, .H], [.D], [.D, .H], [.H]]

/-- The digits of the time part of a view name. -/
abbrev VDigits := List Nat

def dig2 (n : Nat) : VDigits := [n / 10 % 10, n % 10]
def dig4 (n : Nat) : VDigits := [n / 1000 % 10, n / 100 % 10, n / 10 % 10, n % 10]

/-- `viewByTimeUnit` (time part): `t.Format("2006" / "200601" / "20060102" / "2006010215")`. -/
def viewByTimeUnit (t : Civil) : U → VDigits
  | .Y => dig4 t.y
  | .M => dig4 t.y ++ dig2 t.m
  | .D => dig4 t.y ++ dig2 t.m ++ dig2 t.d
  | .H => dig4 t.y ++ dig2 t.m ++ dig2 t.d ++ dig2 t.h

/-- `viewsByTime`: one view per unit of the quantum, in the order of the quantum string. -/
def viewsByTime (t : Civil) (q : Quantum) : List VDigits := q.map (viewByTimeUnit t)

/-- First loop of `viewsByTimeRange` ("walk up from smallest units to largest units").
Returns the views appended and the cursor `t` at loop exit.  `fuel` bounds the iterations
(every iteration that does not leave the loop advances `t` by at least one hour). -/
def walkUp (q : Quantum) (e : Civil) : Nat → Civil → List VDigits × Civil
  | 0, t => ([], t)
  | fuel + 1, t =>
    if !before t e then ([], t)
    else if q.hasHour && !nextDayGTE t e then ([], t)                       -- break
    else if q.hasHour && t.h != 0 then
      let r := walkUp q e fuel (addHour t)
      (viewByTimeUnit t .H :: r.1, r.2)
    else if q.hasDay && !nextMonthGTE t e then ([], t)                      -- break
    else if q.hasDay && t.d != 1 then
      let r := walkUp q e fuel (addDay t)
      (viewByTimeUnit t .D :: r.1, r.2)
    else if q.hasMonth && !nextYearGTE t e then ([], t)                     -- break
    else if q.hasMonth && t.m != 1 then
      let r := walkUp q e fuel (addMonth t)
      (viewByTimeUnit t .M :: r.1, r.2)
    else ([], t)                                                            -- final break

/-- Second loop of `viewsByTimeRange` ("walk back down from largest units to smallest units"). -/
def walkDown (q : Quantum) (e : Civil) : Nat → Civil → List VDigits
  | 0, _ => []
  | fuel + 1, t =>
    if !before t e then []
    else if q.hasYear && nextYearGTE t e then viewByTimeUnit t .Y :: walkDown q e fuel (addYear t)
    else if q.hasMonth && nextMonthGTE t e then viewByTimeUnit t .M :: walkDown q e fuel (addMonth t)
    else if q.hasDay && nextDayGTE t e then viewByTimeUnit t .D :: walkDown q e fuel (addDay t)
    else if q.hasHour then viewByTimeUnit t .H :: walkDown q e fuel (addHour t)
    else []

/-- `viewsByTimeRange(name, start, end, q)`; fuel = the number of hours in the range. -/
def viewsByTimeRange (s e : Civil) (q : Quantum) : List VDigits :=
  let fuel := hourIndex e - hourIndex s
  let up := if q.hasHour || q.hasDay || q.hasMonth then walkUp q e fuel s else ([], s)
  up.1 ++ walkDown q e fuel up.2

/-! ### `timeOfView` -/

def num2 (a b : Nat) : Nat := 10 * a + b
def num4 (a b c d : Nat) : Nat := 1000 * a + 100 * b + 10 * c + d

/-- `time.Parse(layout[:n], timePart)` for the four prefixes of "2006010215": `none` = error.
Month must be 1..12, the day 1..daysIn, the hour 0..23; absent fields default to January / 1 / 0. -/
def parseView (v : VDigits) : Option Civil :=
  if v.any (· > 9) then none else
  match v with
  | [a, b, c, d] => some ⟨num4 a b c d, 1, 1, 0⟩
  | [a, b, c, d, m1, m2] =>
    let m := num2 m1 m2
    if m < 1 ∨ 12 < m then none else some ⟨num4 a b c d, m, 1, 0⟩
  | [a, b, c, d, m1, m2, d1, d2] =>
    let y := num4 a b c d; let m := num2 m1 m2; let dd := num2 d1 d2
    if m < 1 ∨ 12 < m then none else if dd < 1 ∨ daysIn y m < dd then none else some ⟨y, m, dd, 0⟩
  | [a, b, c, d, m1, m2, d1, d2, h1, h2] =>
    let y := num4 a b c d; let m := num2 m1 m2; let dd := num2 d1 d2; let h := num2 h1 h2
    if m < 1 ∨ 12 < m then none else if 24 ≤ h then none
    else if dd < 1 ∨ daysIn y m < dd then none else some ⟨y, m, dd, h⟩
  | _ => none

/-- `timeOfView(v, adj)` for a non-empty view name whose time part is `v`.  `none` = error
(parse error, or "invalid time format on view" for a time part that is not 4/6/8/10 long). -/
def timeOfView (v : VDigits) (adj : Bool) : Option Civil :=
  match parseView v with
  | none => none
  | some t =>
    if !adj then some t
    else match v.length with
      | 4 => some (addYear t)
      | 6 => some (addMonth t)
      | 8 => some (addDay t)
      | _ => some (addHour t)

/-! ### `minMaxViews` -/

/-- A view name of a time field: the standard view or a time view. -/
inductive VName where
  | std
  | tv (ds : VDigits)
deriving DecidableEq, Repr, Inhabited

/-- `strings.Compare` on digit strings (`a < b`). -/
def digitsLt : VDigits → VDigits → Bool
  | [], [] => false
  | [], _ :: _ => true
  | _ :: _, [] => false
  | a :: as, b :: bs => if a < b then true else if b < a then false else digitsLt as bs

/-- String order of view names: "standard" is a proper prefix of every "standard_…". -/
def VName.lt : VName → VName → Bool
  | .std, .std => false
  | .std, .tv _ => true
  | .tv _, .std => false
  | .tv a, .tv b => digitsLt a b

def insertSorted (lt : α → α → Bool) (x : α) : List α → List α
  | [] => [x]
  | y :: ys => if lt y x then y :: insertSorted lt x ys else x :: y :: ys

/-- `sort.Strings` (the result of sorting with a total order does not depend on the algorithm). -/
def sortBy (lt : α → α → Bool) (l : List α) : List α := l.foldr (insertSorted lt) []

/-- `len(viewTimePart(v))` (after the fix: a name without '_' has the empty time part). -/
def VName.timePartLen : VName → Nat
  | .std => 0
  | .tv ds => ds.length

/-- `minMaxViews(views, q)`: `none` = "". -/
def minMaxViews (views : List VName) (q : Quantum) : Option VName × Option VName :=
  let sorted := sortBy VName.lt views
  let chars := if q.hasYear then 4 else if q.hasMonth then 6 else if q.hasDay then 8
               else if q.hasHour then 10 else 0
  (sorted.find? (fun v => v.timePartLen == chars), sorted.reverse.find? (fun v => v.timePartLen == chars))

end PV.C18
