/-
C18 property theorems.  Core Lean only.

Full-strength statements (all proved; nothing is `_partial`):

* `C18_cover`: for each of the 10 valid quanta and every range `start ≤ end` whose ends are aligned
  to the quantum's finest unit, the periods denoted by the names `viewsByTimeRange` returns are
  consecutive from `start` to `end` — each emitted name denotes exactly the period the walk
  emitted it for (`Spec.interval` reads the name back), every period is non-empty, each starts
  where the previous one ends.  `C18_cover_exact`: hence every hour of `[start, end)` lies in
  exactly one of the periods and every other hour in none (disjoint, covering exactly the range).
  `C18_units`: every emitted view is a view of a unit of the quantum (a view `SetBit` writes).
* `C18_name_roundtrip`: `timeOfView(viewByTimeUnit(t, u))` is the start of `t`'s period of unit
  `u`, and with `adj` the start of the next period, for every year 0..9999, month, day, hour 0–23
  and unit.  (Before "fix: timeOfView parses hour views 13-23" the hour layout was the 12-hour
  field "03" and hours 13–23 failed to parse; corpus/C18 replays it.)

The question the design left open — can the walk-down loop emit an unaligned year view, given
that `nextYearGTE` is true whenever `next.Year() == end.Year()`? — is decided by `C18_cover`: no.
`nextYearGTE(t, end)` is equivalent to "the start of the year after t's is ≤ end" (`nextYearGTE_iff`),
it is false when the walk-up loop leaves early and stays false while the cursor advances
(`TY_mono`), so the year branch only ever fires at a cursor the walk-up loop aligned to January 1st.
-/
import PV.C18.Lemmas5
namespace PV.C18
open Spec (floorU nextU periodHours yearLen alignedTo coverChain coverCount coverOK interval denote)

/-! ### Names -/

/-- `timeOfView (viewByTimeUnit t u)` gives back the start of the period, and with `adj` the start
of the next one: every unit, year 0..9999, month, day, hour 0..23. -/
theorem C18_name_roundtrip (t : Civil) (ht : t.valid) (hy : t.y ≤ 9999) (u : U) :
    timeOfView (viewByTimeUnit t u) false = some (floorU u t) ∧
    timeOfView (viewByTimeUnit t u) true = some (nextU u t) := by
  have hp := parseView_name ht hy u
  obtain ⟨h1, h2, h3, h4, h5⟩ := ht
  have b := daysIn_bounds t.y t.m
  constructor
  · simp [timeOfView, hp]
  · unfold timeOfView
    rw [hp]
    cases u
    · have hv : (floorU .Y t).valid := by
        simp only [floorU, Civil.valid, daysIn_1]; omega
      simp only [viewByTimeUnit, dig4, List.length_cons, List.length_nil]
      simp only [Bool.not_true, Bool.false_eq_true, if_false]
      rw [addYear_aligned hv rfl rfl]; rfl
    · have hv : (floorU .M t).valid := by
        simp only [floorU, Civil.valid]; omega
      simp only [viewByTimeUnit, dig4, dig2, List.length_cons, List.length_nil, List.length_append]
      simp only [Bool.not_true, Bool.false_eq_true, if_false]
      rw [addMonth_aligned hv rfl]; rfl
    · have hv : (floorU .D t).valid := by
        simp only [floorU, Civil.valid]; omega
      simp only [viewByTimeUnit, dig4, dig2, List.length_cons, List.length_nil, List.length_append]
      simp only [Bool.not_true, Bool.false_eq_true, if_false]
      rw [addDay_eq hv]; rfl
    · have hv : (floorU .H t).valid := ⟨h1, h2, h3, h4, h5⟩
      simp only [viewByTimeUnit, dig4, dig2, List.length_cons, List.length_nil, List.length_append]
      simp only [Bool.not_true, Bool.false_eq_true, if_false]
      rw [addHour_eq hv]; rfl

/-- Every name denotes the period of its unit containing `t`: `[floor, floor + length)` in hours. -/
theorem C18_name_denotes (t : Civil) (ht : t.valid) (hy : t.y ≤ 9999) (u : U) :
    interval (viewByTimeUnit t u) =
      some (hourIndex (floorU u t), hourIndex (floorU u t) + periodHours u (floorU u t)) := by
  unfold interval; rw [denote_name ht hy u]

/-! ### The walk-down loop -/

theorem walkDown_cover {q : Quantum} {e : Civil} (c : Ctx q e) :
    ∀ (fuel : Nat) (t : Civil), WD q e t → hourIndex e - hourIndex t ≤ fuel →
      coverChain (hourIndex t) (hourIndex e) (walkDown q e fuel t) = true := by
  intro fuel
  induction fuel with
  | zero =>
    intro t w hf
    have := (hourIndex_le_iff w.tv c.ev).mpr w.le
    simp only [walkDown, coverChain, beq_iff_eq]; omega
  | succ fuel ih =>
    intro t w hf
    have hle := (hourIndex_le_iff w.tv c.ev).mpr w.le
    have hty : t.y ≤ 9999 := Nat.le_trans (year_le w.le) c.ey
    unfold walkDown
    by_cases hb : before t e = true
    · have hlt := (before_iff w.tv c.ev).mp hb
      have hlt' := hourIndex_mono w.tv c.ev hlt
      simp only [hb, Bool.not_true, Bool.false_eq_true, if_false]
      -- year
      by_cases hY : (q.hasYear && nextYearGTE t e) = true
      · rw [if_pos hY]
        simp only [Bool.and_eq_true] at hY
        have hn := (nextYearGTE_iff w.tv c.ev).mp hY.2
        obtain ⟨hm, hd, h0⟩ := w.qY hY.1 hn
        have hi := interval_emit w.tv hty .Y ⟨hm, hd, h0⟩
        have hs := hourIndex_addYear w.tv hm hd
        have yl := yearLen_pos t.y
        apply coverChain_cons hi (by simp only [periodHours]; omega)
        simp only [periodHours]; rw [← hs]
        exact ih _ (WD_year w hY.1 hn) (by omega)
      · rw [if_neg hY]
        have nY : q.hasYear = true → lexLt e (TY t) := by
          intro h; apply Classical.byContradiction; intro hc
          exact hY (by simp [h, (nextYearGTE_iff w.tv c.ev).mpr hc])
        -- month
        by_cases hM : (q.hasMonth && nextMonthGTE t e) = true
        · rw [if_pos hM]
          simp only [Bool.and_eq_true] at hM
          have hn := (nextMonthGTE_iff w.tv c.ev).mp hM.2
          obtain ⟨hd, h0⟩ := w.qM hM.1 hn
          have hi := interval_emit w.tv hty .M ⟨hd, h0⟩
          have hs := hourIndex_addMonth w.tv hd
          have dl := daysIn_bounds t.y t.m
          apply coverChain_cons hi (by simp only [periodHours]; omega)
          simp only [periodHours]; rw [← hs]
          exact ih _ (WD_month w nY hM.1 hn) (by omega)
        · rw [if_neg hM]
          have nM : q.hasMonth = true → lexLt e (TM t) := by
            intro h; apply Classical.byContradiction; intro hc
            exact hM (by simp [h, (nextMonthGTE_iff w.tv c.ev).mpr hc])
          -- day
          by_cases hD : (q.hasDay && nextDayGTE t e) = true
          · rw [if_pos hD]
            simp only [Bool.and_eq_true] at hD
            have hn := (nextDayGTE_iff w.tv c.ev).mp hD.2
            have h0 := w.qD hD.1 hn
            have hi := interval_emit w.tv hty .D h0
            have hs := hourIndex_addDay w.tv
            apply coverChain_cons hi (by simp only [periodHours]; omega)
            simp only [periodHours]; rw [← hs]
            exact ih _ (WD_day w nY nM hD.1 hn) (by omega)
          · rw [if_neg hD]
            have nD : q.hasDay = true → lexLt e (TD t) := by
              intro h; apply Classical.byContradiction; intro hc
              exact hD (by simp [h, (nextDayGTE_iff w.tv c.ev).mpr hc])
            -- hour
            by_cases hH : q.hasHour = true
            · rw [if_pos hH]
              have hi := interval_emit w.tv hty .H trivial
              have hs := hourIndex_addHour w.tv
              apply coverChain_cons hi (by simp only [periodHours]; omega)
              simp only [periodHours]; rw [← hs]
              exact ih _ (WD_hour c.ev w hlt nY nM nD hH) (by omega)
            · exfalso
              have hH' : q.hasHour = false := by cases h : q.hasHour <;> simp_all
              rcases finest_fits c w hlt hH' with ⟨a, b⟩ | ⟨a, b⟩ | ⟨a, b⟩
              · exact b (nD a)
              · exact b (nM a)
              · exact b (nY a)
    · have : ¬ hourIndex t < hourIndex e := by simpa [before] using hb
      have hb' : before t e = false := by simpa using hb
      simp only [hb', Bool.not_false, if_true, coverChain, beq_iff_eq]; omega

/-! ### The walk-up loop -/

theorem walkUp_cover {q : Quantum} {e : Civil} (c : Ctx q e) :
    ∀ (fuel : Nat) (t : Civil), t.valid → ¬ lexLt e t → alignedTo q t = true →
      hourIndex e - hourIndex t ≤ fuel →
      coverChain (hourIndex t) (hourIndex (walkUp q e fuel t).2) (walkUp q e fuel t).1 = true ∧
      WD q e (walkUp q e fuel t).2 ∧ hourIndex t ≤ hourIndex (walkUp q e fuel t).2 := by
  intro fuel
  induction fuel with
  | zero =>
    intro t ht hle ha hf
    have h1 := (hourIndex_le_iff ht c.ev).mpr hle
    have hge : ¬ lexLt t e := by
      intro h; have := hourIndex_mono ht c.ev h; omega
    simp only [walkUp, coverChain, beq_self_eq_true, true_and]
    exact ⟨WD_end ht hle hge ha, Nat.le_refl _⟩
  | succ fuel ih =>
    intro t ht hle ha hf
    have h1 := (hourIndex_le_iff ht c.ev).mpr hle
    have hty : t.y ≤ 9999 := Nat.le_trans (year_le hle) c.ey
    unfold walkUp
    by_cases hb : before t e = true
    · have hlt := (before_iff ht c.ev).mp hb
      have hlt' := hourIndex_mono ht c.ev hlt
      simp only [hb, Bool.not_true, Bool.false_eq_true, if_false]
      -- hour level
      by_cases bH : (q.hasHour && !nextDayGTE t e) = true
      · rw [if_pos bH]
        simp only [Bool.and_eq_true, Bool.not_eq_true'] at bH
        have nD : lexLt e (TD t) := by
          apply Classical.byContradiction; intro hc
          have := (nextDayGTE_iff ht c.ev).mpr hc; rw [bH.2] at this; cases this
        simp only [coverChain, beq_self_eq_true, true_and]
        exact ⟨{ tv := ht, le := hle, fin := ha,
                 qY := fun _ h => absurd (B2 ht (B1 ht nD)) h,
                 qM := fun _ h => absurd (B1 ht nD) h,
                 qD := fun _ h => absurd nD h }, Nat.le_refl _⟩
      · rw [if_neg bH]
        by_cases eH : (q.hasHour && t.h != 0) = true
        · rw [if_pos eH]
          simp only [Bool.and_eq_true] at eH
          have hi := interval_emit ht hty .H trivial
          have hs := hourIndex_addHour ht
          have hle' := fitH ht c.ev hlt
          have ha' : alignedTo q (addHour t) = true := by unfold alignedTo; rw [eH.1]; rfl
          obtain ⟨r1, r2, r3⟩ := ih (addHour t) (addHour_valid ht) hle' ha' (by omega)
          simp only
          refine ⟨?_, r2, by omega⟩
          apply coverChain_cons hi (by simp only [periodHours]; omega)
          simp only [periodHours]; rw [← hs]; exact r1
        · rw [if_neg eH]
          -- past the hour level: if the quantum has hours, nextDayGTE holds and t.h = 0
          have pH : q.hasHour = true → ¬ lexLt e (TD t) ∧ t.h = 0 := by
            intro h
            constructor
            · intro hc
              apply bH
              have : nextDayGTE t e = false := by
                cases hx : nextDayGTE t e
                · rfl
                · exact absurd hc ((nextDayGTE_iff ht c.ev).mp hx)
              simp [h, this]
            · apply Classical.byContradiction; intro hc
              apply eH; simp [h, hc]
          -- day level
          by_cases bD : (q.hasDay && !nextMonthGTE t e) = true
          · rw [if_pos bD]
            simp only [Bool.and_eq_true, Bool.not_eq_true'] at bD
            have nM : lexLt e (TM t) := by
              apply Classical.byContradiction; intro hc
              have := (nextMonthGTE_iff ht c.ev).mpr hc; rw [bD.2] at this; cases this
            have h0 : t.h = 0 := LD c.qv ha bD.1 (fun h => (pH h).2)
            simp only [coverChain, beq_self_eq_true, true_and]
            exact ⟨{ tv := ht, le := hle, fin := ha,
                     qY := fun _ h => absurd (B2 ht nM) h,
                     qM := fun _ h => absurd nM h,
                     qD := fun _ _ => h0 }, Nat.le_refl _⟩
          · rw [if_neg bD]
            by_cases eD : (q.hasDay && t.d != 1) = true
            · rw [if_pos eD]
              simp only [Bool.and_eq_true] at eD
              have h0 : t.h = 0 := LD c.qv ha eD.1 (fun h => (pH h).2)
              have hi := interval_emit ht hty .D h0
              have hs := hourIndex_addDay ht
              have hfit : ¬ lexLt e (TD t) := by
                cases hh : q.hasHour
                · have e0 : e.h = 0 := LD c.qv c.ea eD.1 (fun h => by rw [hh] at h; cases h)
                  exact fitD ht c.ev h0 e0 hlt
                · exact (pH hh).1
              have hle' : ¬ lexLt e (addDay t) := by rw [addDay_TD ht h0]; exact hfit
              have hh' : (addDay t).h = 0 := by rw [addDay_h ht]; exact h0
              have ha' : alignedTo q (addDay t) = true :=
                alignedTo_of (fun _ => hh') (fun _ h => by rw [h] at eD; cases eD.1)
                  (fun _ h => by rw [h] at eD; cases eD.1)
              obtain ⟨r1, r2, r3⟩ := ih (addDay t) (addDay_valid ht) hle' ha' (by omega)
              simp only
              refine ⟨?_, r2, by omega⟩
              apply coverChain_cons hi (by simp only [periodHours]; omega)
              simp only [periodHours]; rw [← hs]; exact r1
            · rw [if_neg eD]
              have pD : q.hasDay = true → ¬ lexLt e (TM t) ∧ t.d = 1 := by
                intro h
                constructor
                · intro hc
                  apply bD
                  have : nextMonthGTE t e = false := by
                    cases hx : nextMonthGTE t e
                    · rfl
                    · exact absurd hc ((nextMonthGTE_iff ht c.ev).mp hx)
                  simp [h, this]
                · apply Classical.byContradiction; intro hc
                  apply eD; simp [h, hc]
              -- month level
              by_cases bM : (q.hasMonth && !nextYearGTE t e) = true
              · rw [if_pos bM]
                simp only [Bool.and_eq_true, Bool.not_eq_true'] at bM
                have nY : lexLt e (TY t) := by
                  apply Classical.byContradiction; intro hc
                  have := (nextYearGTE_iff ht c.ev).mpr hc; rw [bM.2] at this; cases this
                have hdm := LM c.qv ha bM.1 (fun h => (pH h).2) (fun h => (pD h).2)
                simp only [coverChain, beq_self_eq_true, true_and]
                exact ⟨{ tv := ht, le := hle, fin := ha,
                         qY := fun _ h => absurd nY h,
                         qM := fun _ _ => hdm,
                         qD := fun _ _ => hdm.2 }, Nat.le_refl _⟩
              · rw [if_neg bM]
                by_cases eM : (q.hasMonth && t.m != 1) = true
                · rw [if_pos eM]
                  simp only [Bool.and_eq_true] at eM
                  obtain ⟨hd, h0⟩ := LM c.qv ha eM.1 (fun h => (pH h).2) (fun h => (pD h).2)
                  have hi := interval_emit ht hty .M ⟨hd, h0⟩
                  have hs := hourIndex_addMonth ht hd
                  have dl := daysIn_bounds t.y t.m
                  have hfit : ¬ lexLt e (TM t) := by
                    cases hh : q.hasDay
                    · have f := flags q c.qv
                      have hH : q.hasHour = false := by
                        cases h4 : q.hasHour
                        · rfl
                        · cases h1 : q.hasYear <;> simp [h1, hh, h4, eM.1] at f
                      obtain ⟨ed, e0⟩ := LM c.qv c.ea eM.1 (fun h => by rw [hH] at h; cases h)
                        (fun h => by rw [hh] at h; cases h)
                      exact fitM ht c.ev hd h0 ed e0 hlt
                    · exact (pD hh).1
                  have e1 := addMonth_TM ht hd h0
                  have hle' : ¬ lexLt e (addMonth t) := by rw [e1]; exact hfit
                  have hv : (addMonth t).valid := by
                    rw [addMonth_aligned ht hd]
                    obtain ⟨h1, h2, h3, h4, h5⟩ := ht
                    have b1 := daysIn_bounds (t.y + 1) 1
                    have b2 := daysIn_bounds t.y (t.m + 1)
                    unfold Civil.valid
                    split <;> simp only <;> omega
                  have hdd : (addMonth t).d = 1 ∧ (addMonth t).h = 0 := by
                    rw [addMonth_aligned ht hd, h0]; split <;> exact ⟨rfl, rfl⟩
                  have ha' : alignedTo q (addMonth t) = true :=
                    alignedTo_of (fun _ => hdd.2) (fun _ _ => hdd.1)
                      (fun _ _ h => by rw [h] at eM; cases eM.1)
                  obtain ⟨r1, r2, r3⟩ := ih (addMonth t) hv hle' ha' (by omega)
                  simp only
                  refine ⟨?_, r2, by omega⟩
                  apply coverChain_cons hi (by simp only [periodHours]; omega)
                  simp only [periodHours]; rw [← hs]; exact r1
                · rw [if_neg eM]
                  -- final break: aligned at every level the quantum has
                  have pM : q.hasMonth = true → t.m = 1 := by
                    intro h
                    apply Classical.byContradiction; intro hc
                    apply eM; simp [h, hc]
                  simp only [coverChain, beq_self_eq_true, true_and]
                  refine ⟨{ tv := ht, le := hle, fin := ha, qY := ?_, qM := ?_, qD := ?_ }, Nat.le_refl _⟩
                  · intro h _
                    exact LY c.qv ha h (fun h => (pH h).2) (fun h => (pD h).2) pM
                  · intro h _
                    exact LM c.qv ha h (fun h => (pH h).2) (fun h => (pD h).2)
                  · intro h _
                    exact LD c.qv ha h (fun h => (pH h).2)
    · have hn : ¬ hourIndex t < hourIndex e := by simpa [before] using hb
      have hb' : before t e = false := by simpa using hb
      have hge : ¬ lexLt t e := by
        intro h; have := hourIndex_mono ht c.ev h; omega
      simp only [hb', Bool.not_false, if_true, coverChain, beq_self_eq_true, true_and]
      exact ⟨WD_end ht hle hge ha, Nat.le_refl _⟩

/-! ### viewsByTimeRange -/

/-- The periods denoted by the views of `viewsByTimeRange` are consecutive and non-empty from
`start` to `end`, for every valid quantum and every range aligned to its finest unit. -/
theorem C18_cover (q : Quantum) (hq : q ∈ validQuanta) (s e : Civil) (hs : s.valid) (he : e.valid)
    (hy : e.y ≤ 9999) (hse : hourIndex s ≤ hourIndex e)
    (has : alignedTo q s = true) (hae : alignedTo q e = true) :
    coverChain (hourIndex s) (hourIndex e) (viewsByTimeRange s e q) = true := by
  have c : Ctx q e := ⟨he, hy, hae, hq⟩
  have hle : ¬ lexLt e s := (hourIndex_le_iff hs he).mp hse
  unfold viewsByTimeRange
  simp only
  by_cases hf : (q.hasHour || q.hasDay || q.hasMonth) = true
  · rw [if_pos hf]
    obtain ⟨r1, r2, r3⟩ := walkUp_cover c (hourIndex e - hourIndex s) s hs hle has (Nat.le_refl _)
    exact coverChain_append r1 (walkDown_cover c _ _ r2 (by omega))
  · rw [if_neg hf]
    simp only [List.nil_append]
    simp only [Bool.or_eq_true, not_or, Bool.not_eq_true] at hf
    obtain ⟨⟨f4, f3⟩, f2⟩ := hf
    apply walkDown_cover c _ _ _ (Nat.le_refl _)
    have n4 : q.hasHour = true → False := fun h => by rw [f4] at h; cases h
    have n3 : q.hasDay = true → False := fun h => by rw [f3] at h; cases h
    have n2 : q.hasMonth = true → False := fun h => by rw [f2] at h; cases h
    exact { tv := hs, le := hle, fin := has,
            qY := fun h _ => LY hq has h (fun h => (n4 h).elim) (fun h => (n3 h).elim)
              (fun h => (n2 h).elim),
            qM := fun h _ => (n2 h).elim,
            qD := fun h _ => (n3 h).elim }

/-- The executable oracle of the correspondence check (`Spec.coverOK`) is this predicate. -/
theorem C18_coverOK (q : Quantum) (hq : q ∈ validQuanta) (s e : Civil) (hs : s.valid) (he : e.valid)
    (hy : e.y ≤ 9999) (hse : hourIndex s < hourIndex e)
    (has : alignedTo q s = true) (hae : alignedTo q e = true) :
    coverOK (viewsByTimeRange s e q) s e = true := by
  unfold coverOK
  rw [if_neg (by omega)]
  exact C18_cover q hq s e hs he hy (by omega) has hae

/-- An empty or reversed range reads no view (any quantum, any alignment). -/
theorem C18_empty_range (q : Quantum) (s e : Civil) (h : hourIndex e ≤ hourIndex s) :
    viewsByTimeRange s e q = [] := by
  have hb : before s e = false := by simp [before]; omega
  have hfuel : hourIndex e - hourIndex s = 0 := by omega
  unfold viewsByTimeRange
  simp only [hfuel]
  split <;> simp [walkUp, walkDown]

/-- Consecutive non-empty periods from `lo` to `hi`: every hour of `[lo, hi)` lies in exactly one
of them, every other hour in none. -/
theorem coverChain_count {lo hi : Nat} {vs : List VDigits} (h : coverChain lo hi vs = true) (x : Nat) :
    coverCount x vs = if lo ≤ x ∧ x < hi then 1 else 0 := by
  induction vs generalizing lo with
  | nil =>
    simp only [coverChain, beq_iff_eq] at h
    subst h
    simp only [coverCount]
    split <;> omega
  | cons v r ih =>
    simp only [coverChain] at h
    cases hv : interval v with
    | none => simp [hv] at h
    | some ab =>
      obtain ⟨a, b⟩ := ab
      simp only [hv, Bool.and_eq_true, beq_iff_eq, decide_eq_true_eq] at h
      obtain ⟨⟨rfl, hab⟩, hr⟩ := h
      have hle : ∀ (lo hi : Nat) (l : List VDigits), coverChain lo hi l = true → lo ≤ hi := by
        intro lo hi l
        induction l generalizing lo with
        | nil => intro h; simp only [coverChain, beq_iff_eq] at h; omega
        | cons w l ihl =>
          intro h
          simp only [coverChain] at h
          cases hw : interval w with
          | none => simp [hw] at h
          | some cd =>
            obtain ⟨c, d⟩ := cd
            simp only [hw, Bool.and_eq_true, beq_iff_eq, decide_eq_true_eq] at h
            have := ihl d h.2
            omega
      have hbh := hle b hi r hr
      simp only [coverCount, hv, ih hr]
      repeat' split
      all_goals omega

/-- Disjoint and covering exactly the range: every hour of `[start, end)` is in exactly one of
the periods read, every hour outside in none. -/
theorem C18_cover_exact (q : Quantum) (hq : q ∈ validQuanta) (s e : Civil) (hs : s.valid) (he : e.valid)
    (hy : e.y ≤ 9999) (hse : hourIndex s ≤ hourIndex e)
    (has : alignedTo q s = true) (hae : alignedTo q e = true) (x : Nat) :
    coverCount x (viewsByTimeRange s e q) = if hourIndex s ≤ x ∧ x < hourIndex e then 1 else 0 :=
  coverChain_count (C18_cover q hq s e hs he hy hse has hae) x

/-! ### Only views of the quantum's units are read -/

theorem walkDown_units (q : Quantum) (e : Civil) :
    ∀ (fuel : Nat) (t : Civil), ∀ v ∈ walkDown q e fuel t, ∃ u t', u ∈ q ∧ v = viewByTimeUnit t' u := by
  intro fuel
  induction fuel with
  | zero => intro t v hv; simp [walkDown] at hv
  | succ fuel ih =>
    intro t v hv
    unfold walkDown at hv
    repeat' split at hv
    all_goals first
      | (simp at hv; done)
      | (rename_i hc
         rcases List.mem_cons.mp hv with rfl | hv
         · simp only [Bool.and_eq_true, Quantum.hasYear, Quantum.hasMonth, Quantum.hasDay,
             Quantum.hasHour, List.contains_iff_mem] at hc
           first
             | exact ⟨_, _, hc.1, rfl⟩
             | exact ⟨_, _, hc, rfl⟩
         · exact ih _ v hv)

theorem walkUp_units (q : Quantum) (e : Civil) :
    ∀ (fuel : Nat) (t : Civil), ∀ v ∈ (walkUp q e fuel t).1, ∃ u t', u ∈ q ∧ v = viewByTimeUnit t' u := by
  intro fuel
  induction fuel with
  | zero => intro t v hv; simp [walkUp] at hv
  | succ fuel ih =>
    intro t v hv
    unfold walkUp at hv
    repeat' split at hv
    all_goals first
      | (simp at hv; done)
      | (rename_i hc
         simp only at hv
         rcases List.mem_cons.mp hv with rfl | hv
         · simp only [Bool.and_eq_true, Quantum.hasMonth, Quantum.hasDay,
             Quantum.hasHour, List.contains_iff_mem] at hc
           exact ⟨_, _, hc.1, rfl⟩
         · exact ih _ v hv)

/-- Every view `viewsByTimeRange` returns is the view of some time for a unit of the quantum —
a view that `SetBit` writes for that quantum (`viewsByTime`). -/
theorem C18_units (q : Quantum) (s e : Civil) :
    ∀ v ∈ viewsByTimeRange s e q, ∃ u t', u ∈ q ∧ v = viewByTimeUnit t' u := by
  intro v hv
  unfold viewsByTimeRange at hv
  simp only [List.mem_append] at hv
  rcases hv with hv | hv
  · split at hv
    · exact walkUp_units q e _ _ v hv
    · simp at hv
  · exact walkDown_units q e _ _ v hv

/-! ### Non-vacuity -/

/-- A range across a leap day and a year end, quantum YMDH: 17 hour views, 2 day views, 10 month
views, 1 year view, 2 day views, 4 hour views, in that order; the hypotheses of `C18_cover` hold. -/
example :
    let s : Civil := ⟨2000, 2, 27, 7⟩
    let e : Civil := ⟨2002, 1, 3, 4⟩
    s.valid ∧ e.valid ∧ hourIndex s ≤ hourIndex e ∧ alignedTo [.Y, .M, .D, .H] s = true ∧
    (viewsByTimeRange s e [.Y, .M, .D, .H]).length = 17 + 2 + 10 + 1 + 2 + 4 ∧
    coverChain (hourIndex s) (hourIndex e) (viewsByTimeRange s e [.Y, .M, .D, .H]) = true := by
  decide

example : timeOfView (viewByTimeUnit ⟨2001, 12, 31, 23⟩ .H) true = some ⟨2002, 1, 1, 0⟩ := by decide

end PV.C18
