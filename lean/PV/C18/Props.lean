/-
C18 property theorems.  Core Lean only.

Full-strength statements (all proved; nothing is `_partial`):

* `C18_cover`: for each of the 10 valid quanta and every range `start ≤ end` whose ends are aligned
  to the quantum's finest unit, the periods denoted by the names `viewsByTimeRange` returns are
  consecutive from `start` to `end` — each emitted name denotes exactly the period the walk
  emitted it for (`Spec.interval` reads the name back), every period is non-empty, each starts
  where the previous one ends.  `C18_cover_exact`: hence every hour of `[start, end)` lies in
  exactly one of the periods and every other hour in none (disjoint, covering exactly the range).
  `C18_units`: every emitted view is a view of a unit of the quantum (a view `SetBit` writes).
* `C18_views_of_timestamp`: a timestamp has one of its quantum views (the views `SetBit` writes for
  it) among the views read iff it lies in `[start, end)`.  `C18_query`: hence, for the field built
  by any history of timestamped sets, `Row(f=r, from=start, to=end)` returns exactly the columns
  set with a timestamp in the range.
* `C18_name_roundtrip`: `timeOfView(viewByTimeUnit(t, u))` is the start of `t`'s period of unit
  `u`, and with `adj` the start of the next period, for every year 0..9999, month, day, hour 0–23
  and unit.  (Before "fix: timeOfView parses hour views 13-23" the hour layout was the 12-hour
  field "03" and hours 13–23 failed to parse; corpus/C18 replays it.)

The question the design left open — can the walk-down loop emit an unaligned year view, given
that `nextYearGTE` is true whenever `next.Year() == end.Year()`? — is decided by `C18_cover`: no.
`nextYearGTE(t, end)` is equivalent to "the start of the year after t's is ≤ end" (`nextYearGTE_iff`),
it is false when the walk-up loop leaves early and stays false while the cursor advances
(`TY_mono`), so the year branch only ever fires at a cursor the walk-up loop aligned to January 1st.
-/
import PV.C18.Lemmas7
namespace PV.C18
open Spec (floorU nextU periodHours yearLen alignedTo coverChain coverCount coverOK interval denote Ev)

/-! ### Names -/

/-- `timeOfView (viewByTimeUnit t u)` gives back the start of the period, and with `adj` the start
of the next one: every unit, year 0..9999, month, day, hour 0..23. -/
theorem C18_name_roundtrip (t : Civil) (ht : t.valid) (hy : t.y ≤ 9999) (u : U) :
    timeOfView (viewByTimeUnit t u) false = some (floorU u t) ∧
    timeOfView (viewByTimeUnit t u) true = some (nextU u t) := by
  have hp := parseView_name ht hy u
  obtain ⟨h1, h2, h3, h4, h5⟩ := ht
  have b := daysIn_bounds t.y t.m
  constructor
  · simp [timeOfView, hp]
  · unfold timeOfView
    rw [hp]
    cases u
    · have hv : (floorU .Y t).valid := by
        simp only [floorU, Civil.valid, daysIn_1]; omega
      simp only [viewByTimeUnit, dig4, List.length_cons, List.length_nil]
      simp only [Bool.not_true, Bool.false_eq_true, if_false]
      rw [addYear_aligned hv rfl rfl]; rfl
    · have hv : (floorU .M t).valid := by
        simp only [floorU, Civil.valid]; omega
      simp only [viewByTimeUnit, dig4, dig2, List.length_cons, List.length_nil, List.length_append]
      simp only [Bool.not_true, Bool.false_eq_true, if_false]
      rw [addMonth_aligned hv rfl]; rfl
    · have hv : (floorU .D t).valid := by
        simp only [floorU, Civil.valid]; omega
      simp only [viewByTimeUnit, dig4, dig2, List.length_cons, List.length_nil, List.length_append]
      simp only [Bool.not_true, Bool.false_eq_true, if_false]
      rw [addDay_eq hv]; rfl
    · have hv : (floorU .H t).valid := ⟨h1, h2, h3, h4, h5⟩
      simp only [viewByTimeUnit, dig4, dig2, List.length_cons, List.length_nil, List.length_append]
      simp only [Bool.not_true, Bool.false_eq_true, if_false]
      rw [addHour_eq hv]; rfl

/-- Every name denotes the period of its unit containing `t`: `[floor, floor + length)` in hours. -/
theorem C18_name_denotes (t : Civil) (ht : t.valid) (hy : t.y ≤ 9999) (u : U) :
    interval (viewByTimeUnit t u) =
      some (hourIndex (floorU u t), hourIndex (floorU u t) + periodHours u (floorU u t)) := by
  unfold interval; rw [denote_name ht hy u]

/-! ### viewsByTimeRange -/

/-- The periods denoted by the views of `viewsByTimeRange` are consecutive and non-empty from
`start` to `end`, for every valid quantum and every range aligned to its finest unit. -/
theorem C18_cover (q : Quantum) (hq : q ∈ validQuanta) (s e : Civil) (hs : s.valid) (he : e.valid)
    (hy : e.y ≤ 9999) (hse : hourIndex s ≤ hourIndex e)
    (has : alignedTo q s = true) (hae : alignedTo q e = true) :
    coverChain (hourIndex s) (hourIndex e) (viewsByTimeRange s e q) = true := by
  have c : Ctx q e := ⟨he, hy, hae, hq⟩
  have hle : ¬ lexLt e s := (hourIndex_le_iff hs he).mp hse
  unfold viewsByTimeRange
  simp only
  by_cases hf : (q.hasHour || q.hasDay || q.hasMonth) = true
  · rw [if_pos hf]
    obtain ⟨r1, r2, r3⟩ := walkUp_cover c (hourIndex e - hourIndex s) s hs hle has (Nat.le_refl _)
    exact coverChain_append r1 (walkDown_cover c _ _ r2 (by omega))
  · rw [if_neg hf]
    simp only [List.nil_append]
    simp only [Bool.or_eq_true, not_or, Bool.not_eq_true] at hf
    obtain ⟨⟨f4, f3⟩, f2⟩ := hf
    apply walkDown_cover c _ _ _ (Nat.le_refl _)
    have n4 : q.hasHour = true → False := fun h => by rw [f4] at h; cases h
    have n3 : q.hasDay = true → False := fun h => by rw [f3] at h; cases h
    have n2 : q.hasMonth = true → False := fun h => by rw [f2] at h; cases h
    exact { tv := hs, le := hle, fin := has,
            qY := fun h _ => LY hq has h (fun h => (n4 h).elim) (fun h => (n3 h).elim)
              (fun h => (n2 h).elim),
            qM := fun h _ => (n2 h).elim,
            qD := fun h _ => (n3 h).elim }

/-- The executable oracle of the correspondence check (`Spec.coverOK`) is this predicate. -/
theorem C18_coverOK (q : Quantum) (hq : q ∈ validQuanta) (s e : Civil) (hs : s.valid) (he : e.valid)
    (hy : e.y ≤ 9999) (hse : hourIndex s < hourIndex e)
    (has : alignedTo q s = true) (hae : alignedTo q e = true) :
    coverOK (viewsByTimeRange s e q) s e = true := by
  unfold coverOK
  rw [if_neg (by omega)]
  exact C18_cover q hq s e hs he hy (by omega) has hae

/-- An empty or reversed range reads no view (any quantum, any alignment). -/
theorem C18_empty_range (q : Quantum) (s e : Civil) (h : hourIndex e ≤ hourIndex s) :
    viewsByTimeRange s e q = [] := by
  have hb : before s e = false := by simp [before]; omega
  have hfuel : hourIndex e - hourIndex s = 0 := by omega
  unfold viewsByTimeRange
  simp only [hfuel]
  split <;> simp [walkUp, walkDown]

/-- Disjoint and covering exactly the range: every hour of `[start, end)` is in exactly one of
the periods read, every hour outside in none. -/
theorem C18_cover_exact (q : Quantum) (hq : q ∈ validQuanta) (s e : Civil) (hs : s.valid) (he : e.valid)
    (hy : e.y ≤ 9999) (hse : hourIndex s ≤ hourIndex e)
    (has : alignedTo q s = true) (hae : alignedTo q e = true) (x : Nat) :
    coverCount x (viewsByTimeRange s e q) = if hourIndex s ≤ x ∧ x < hourIndex e then 1 else 0 :=
  coverChain_count (C18_cover q hq s e hs he hy hse has hae) x

/-! ### Only views of the quantum's units are read -/

/-- Every view `viewsByTimeRange` returns is the view of some time for a unit of the quantum —
a view that `SetBit` writes for that quantum (`viewsByTime`). -/
theorem C18_units (q : Quantum) (s e : Civil) :
    ∀ v ∈ viewsByTimeRange s e q, ∃ u t', u ∈ q ∧ v = viewByTimeUnit t' u := by
  intro v hv
  unfold viewsByTimeRange at hv
  simp only [List.mem_append] at hv
  rcases hv with hv | hv
  · split at hv
    · exact walkUp_units q e _ _ v hv
    · simp at hv
  · exact walkDown_units q e _ _ v hv

/-! ### Queries -/

/-- A timestamp has one of its quantum views among the views read iff it lies in the range. -/
theorem C18_views_of_timestamp (q : Quantum) (hq : q ∈ validQuanta) (s e : Civil) (hs : s.valid) (he : e.valid)
    (hy : e.y ≤ 9999) (hse : hourIndex s ≤ hourIndex e)
    (has : alignedTo q s = true) (hae : alignedTo q e = true)
    (ts : Civil) (hts : ts.valid) (htsy : ts.y ≤ 9999) :
    (∃ v ∈ viewsByTimeRange s e q, v ∈ viewsByTime ts q) ↔
      (hourIndex s ≤ hourIndex ts ∧ hourIndex ts < hourIndex e) := by
  have hc := C18_cover q hq s e hs he hy hse has hae
  constructor
  · rintro ⟨v, hv, hvt⟩
    simp only [viewsByTime, List.mem_map] at hvt
    obtain ⟨u, _, rfl⟩ := hvt
    obtain ⟨a, b, hi, h1, h2⟩ := coverChain_mem hc _ hv
    rw [C18_name_denotes ts hts htsy u] at hi
    simp only [Option.some.injEq, Prod.mk.injEq] at hi
    obtain ⟨rfl, rfl⟩ := hi
    have := period_contains (u := u) hts
    omega
  · rintro ⟨h1, h2⟩
    have hcount := coverChain_count hc (hourIndex ts)
    rw [if_pos ⟨h1, h2⟩] at hcount
    obtain ⟨v, hv, a, b, hi, ha, hb⟩ := coverCount_pos (x := hourIndex ts) (vs := viewsByTimeRange s e q) (by rw [hcount]; exact Nat.le_refl 1)
    refine ⟨v, hv, ?_⟩
    unfold interval at hi
    cases hd : denote v with
    | none => simp [hd] at hi
    | some uc =>
      obtain ⟨u, c0⟩ := uc
      simp only [hd, Option.some.injEq, Prod.mk.injEq] at hi
      obtain ⟨rfl, rfl⟩ := hi
      obtain ⟨hvn, hcv, _, hfl⟩ := denote_inv hd
      have hfloor := floor_of_mem hcv hts hfl ha hb
      obtain ⟨u', t', hu', hvn'⟩ := C18_units q s e v hv
      have : u = u' := name_unit (hvn.symm.trans hvn')
      subst this
      simp only [viewsByTime, List.mem_map]
      exact ⟨u, hu', by rw [hvn, ← hfloor, name_floor]⟩

/-- **A time-range Row returns exactly the columns set with a timestamp in the range**: for the
field built by any history of timestamped sets, every valid quantum and every range aligned to
its finest unit. -/
theorem C18_query (q : Quantum) (hq : q ∈ validQuanta) (noStd : Bool) (log : List Ev)
    (hlog : ∀ ev ∈ log, ∀ ts, ev.ts = some ts → ts.valid ∧ ts.y ≤ 9999)
    (s e : Civil) (hs : s.valid) (he : e.valid) (hy : e.y ≤ 9999) (hse : hourIndex s ≤ hourIndex e)
    (has : alignedTo q s = true) (hae : alignedTo q e = true) (r c : Nat) :
    c ∈ (build q noStd log).rowRange r s e ↔ c ∈ Spec.rowRange log r s e := by
  have hq0 : (build q noStd log).q ≠ [] := by
    rw [build_q]; intro h; subst h; simp [validQuanta] at hq
  unfold Field.rowRange
  rw [if_neg hq0, build_q, mem_rowOfViews_iff]
  simp only [Spec.rowRange, mem_spec_sortDedup, List.mem_map, List.mem_filter, Bool.and_eq_true,
    beq_iff_eq]
  constructor
  · rintro ⟨n, hn, hm⟩
    obtain ⟨v, hv, rfl⟩ := hn
    obtain ⟨ev, hev, hr, hc, ts, hts, hvt⟩ := (memIn_build q noStd log v r c).mp hm
    obtain ⟨tv, ty⟩ := hlog ev hev ts hts
    have := (C18_views_of_timestamp q hq s e hs he hy hse has hae ts tv ty).mp ⟨v, hv, hvt⟩
    refine ⟨ev, ⟨hev, hr, ?_⟩, hc⟩
    simp [hts, Spec.inRange, this.1, this.2]
  · rintro ⟨ev, ⟨hev, hr, hin⟩, hc⟩
    cases hts : ev.ts with
    | none => simp [hts] at hin
    | some ts =>
      simp only [hts, Spec.inRange, Bool.and_eq_true, decide_eq_true_eq] at hin
      obtain ⟨tv, ty⟩ := hlog ev hev ts hts
      obtain ⟨v, hv, hvt⟩ := (C18_views_of_timestamp q hq s e hs he hy hse has hae ts tv ty).mpr hin
      exact ⟨.tv v, ⟨v, hv, rfl⟩,
        (memIn_build q noStd log v r c).mpr ⟨ev, hev, hr, hc, ts, hts, hvt⟩⟩


/-! ### Non-vacuity -/

/-- A range across a leap day and a year end, quantum YMDH: 17 hour views, 2 day views, 10 month
views, 1 year view, 2 day views, 4 hour views, in that order; the hypotheses of `C18_cover` hold. -/
example :
    let s : Civil := ⟨2000, 2, 27, 7⟩
    let e : Civil := ⟨2002, 1, 3, 4⟩
    s.valid ∧ e.valid ∧ hourIndex s ≤ hourIndex e ∧ alignedTo [.Y, .M, .D, .H] s = true ∧
    (viewsByTimeRange s e [.Y, .M, .D, .H]).length = 17 + 2 + 10 + 1 + 2 + 4 ∧
    coverChain (hourIndex s) (hourIndex e) (viewsByTimeRange s e [.Y, .M, .D, .H]) = true := by
  decide

example : timeOfView (viewByTimeUnit ⟨2001, 12, 31, 23⟩ .H) true = some ⟨2002, 1, 1, 0⟩ := by decide

/-- `C18_query` on a concrete history (quantum MDH, range 2000-12-31T23 .. 2001-02-01T00): columns
1 and 3 are inside (the first and the last hour of the range), 2 and 4 just outside. -/
example :
    let log : List Ev := [⟨1, 1, some ⟨2000, 12, 31, 23⟩, true⟩, ⟨1, 2, some ⟨2000, 12, 31, 22⟩, true⟩,
      ⟨1, 3, some ⟨2001, 1, 31, 23⟩, true⟩, ⟨1, 4, some ⟨2001, 2, 1, 0⟩, true⟩,
      ⟨2, 5, some ⟨2001, 1, 15, 12⟩, true⟩]
    (build [.M, .D, .H] false log).rowRange 1 ⟨2000, 12, 31, 23⟩ ⟨2001, 2, 1, 0⟩ = [1, 3] ∧
    Spec.rowRange log 1 ⟨2000, 12, 31, 23⟩ ⟨2001, 2, 1, 0⟩ = [1, 3] := by decide

end PV.C18
