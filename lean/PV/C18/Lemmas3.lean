/-
Calendar lemmas for C18, part 3 (core Lean only): order facts about the thresholds TD ≤ TM ≤ TY,
their monotonicity along the steps of the walk, and what alignment gives.
-/
import PV.C18.Lemmas2
namespace PV.C18

theorem dim12 (y m : Nat) : m = 12 → daysIn y m = 31 := by intro e; rw [e]; exact daysIn_12 y
theorem dim1 (y m : Nat) : m = 1 → daysIn y m = 31 := by intro e; rw [e]; exact daysIn_1 y

/-- TD, TM, TY only look at the date. -/
theorem TD_congr {a b : Civil} (h1 : a.y = b.y) (h2 : a.m = b.m) (h3 : a.d = b.d) : TD a = TD b := by
  unfold TD; rw [h1, h2, h3]
theorem TM_congr {a b : Civil} (h1 : a.y = b.y) (h2 : a.m = b.m) (h3 : a.d = b.d) : TM a = TM b := by
  unfold TM; rw [h1, h2, h3]
theorem TY_congr {a b : Civil} (h1 : a.y = b.y) : TY a = TY b := by
  unfold TY; rw [h1]

/-- Case-split every `if` of the goal, then linear arithmetic on the civil fields. -/
macro "cal_split" : tactic =>
  `(tactic| ((repeat' split) <;> (intros; simp only [lexLt] at *; omega)))

/-- `e ≤ t < TD t`. -/
theorem B0 {t e : Civil} (ht : t.valid) (h : ¬ lexLt t e) : lexLt e (TD t) := by
  rcases t with ⟨y, m, d, hh⟩; rcases e with ⟨ey, em, ed, eh⟩
  obtain ⟨h1, h2, h3, h4, h5⟩ := ht
  simp only at h1 h2 h3 h4 h5
  revert h; unfold TD; cal_split

/-- TD t ≤ TM t. -/
theorem B1 {t e : Civil} (ht : t.valid) (h : lexLt e (TD t)) : lexLt e (TM t) := by
  rcases t with ⟨y, m, d, hh⟩; rcases e with ⟨ey, em, ed, eh⟩
  obtain ⟨h1, h2, h3, h4, h5⟩ := ht
  simp only at h1 h2 h3 h4 h5
  revert h; unfold TD TM; cal_split

/-- TM t ≤ TY t. -/
theorem B2 {t e : Civil} (ht : t.valid) (h : lexLt e (TM t)) : lexLt e (TY t) := by
  rcases t with ⟨y, m, d, hh⟩; rcases e with ⟨ey, em, ed, eh⟩
  obtain ⟨h1, h2, h3, h4, h5⟩ := ht
  simp only at h1 h2 h3 h4 h5
  have b := dim12 y (m + 1)
  have b' := daysIn_bounds y m
  revert h; unfold TM TY; cal_split

theorem TY_mono {t t' e : Civil} (hy : t.y ≤ t'.y) (h : lexLt e (TY t)) : lexLt e (TY t') := by
  simp only [TY, lexLt] at *; omega

theorem addDay_y_ge {t : Civil} (ht : t.valid) : t.y ≤ (addDay t).y := by
  rw [addDay_eq ht]; split
  · simp
  · split <;> simp

theorem addHour_y_ge {t : Civil} (ht : t.valid) : t.y ≤ (addHour t).y := by
  unfold addHour; split
  · simp
  · exact addDay_y_ge ht

theorem addMonth_y_ge {t : Civil} (ht : t.valid) (hd : t.d = 1) : t.y ≤ (addMonth t).y := by
  rw [addMonth_aligned ht hd]; split <;> simp

/-- TM is monotone along a day step. -/
theorem TM_addDay {t e : Civil} (ht : t.valid) (h : lexLt e (TM t)) : lexLt e (TM (addDay t)) := by
  rw [addDay_eq ht]
  rcases t with ⟨y, m, d, hh⟩; rcases e with ⟨ey, em, ed, eh⟩
  obtain ⟨h1, h2, h3, h4, h5⟩ := ht
  simp only at h1 h2 h3 h4 h5
  have b0 := daysIn_bounds y m
  have b1 := daysIn_bounds y (m + 1)
  have b2 := daysIn_bounds y (m + 1 + 1)
  have b3 := daysIn_bounds (y + 1) (1 + 1)
  have b4 := dim12 y (m + 1)
  revert h; unfold TM; simp only
  cal_split

/-- The date of `addHour t` is the date of `t` or of `addDay t`. -/
theorem addHour_date {t : Civil} :
    ((addHour t).y = t.y ∧ (addHour t).m = t.m ∧ (addHour t).d = t.d) ∨
    ((addHour t).y = (addDay t).y ∧ (addHour t).m = (addDay t).m ∧ (addHour t).d = (addDay t).d) := by
  unfold addHour; split
  · left; simp
  · right; simp

theorem TM_addHour {t e : Civil} (ht : t.valid) (h : lexLt e (TM t)) : lexLt e (TM (addHour t)) := by
  rcases addHour_date (t := t) with ⟨a, b, c⟩ | ⟨a, b, c⟩
  · rw [TM_congr a b c]; exact h
  · rw [TM_congr a b c]; exact TM_addDay ht h

/-- TD is monotone along an hour step. -/
theorem TD_addHour {t e : Civil} (ht : t.valid) (h : lexLt e (TD t)) : lexLt e (TD (addHour t)) := by
  rcases addHour_date (t := t) with ⟨a, b, c⟩ | ⟨a, b, c⟩
  · rw [TD_congr a b c]; exact h
  · rw [TD_congr a b c]
    have hv := addDay_valid ht
    have : lexLt (addDay t) (TD (addDay t)) := by
      apply B0 hv
      simp only [lexLt]; omega
    have e1 : ¬ lexLt (TD t) (addDay t) ∨ True := Or.inr trivial
    -- TD t = the date of addDay t at hour 0 ≤ addDay t
    have hTD : TD t = ⟨(addDay t).y, (addDay t).m, (addDay t).d, 0⟩ := by
      rw [addDay_eq ht]; unfold TD
      split
      · rfl
      · split <;> rfl
    rw [hTD] at h
    generalize addDay t = n at *
    generalize TD n = x at *
    simp only [lexLt] at *; omega

/-! ### Aligned cursors: the step lands exactly on the threshold -/

theorem addDay_TD {t : Civil} (ht : t.valid) (h0 : t.h = 0) : addDay t = TD t := by
  rw [addDay_eq ht]; unfold TD; rw [h0]

theorem addMonth_TM {t : Civil} (ht : t.valid) (hd : t.d = 1) (h0 : t.h = 0) : addMonth t = TM t := by
  rw [addMonth_aligned ht hd]; unfold TM
  have b1 := daysIn_bounds t.y (t.m + 1)
  have e : ¬ t.d > daysIn t.y (t.m + 1) := by omega
  rw [if_neg e, h0]

theorem addYear_TY {t : Civil} (ht : t.valid) (hm : t.m = 1) (hd : t.d = 1) (h0 : t.h = 0) :
    addYear t = TY t := by
  rw [addYear_aligned ht hm hd]; unfold TY; rw [h0]

/-! ### Both ends aligned to the finest unit: the next period fits -/

theorem fitD {t e : Civil} (ht : t.valid) (he : e.valid) (h0 : t.h = 0) (e0 : e.h = 0)
    (h : lexLt t e) : ¬ lexLt e (TD t) := by
  rcases t with ⟨y, m, d, hh⟩; rcases e with ⟨ey, em, ed, eh⟩
  obtain ⟨h1, h2, h3, h4, h5⟩ := ht
  obtain ⟨e1, e2, e3, e4, e5⟩ := he
  simp only at h1 h2 h3 h4 h5 e1 e2 e3 e4 e5 h0 e0
  subst h0; subst e0
  have key : ey = y → em = m → ed ≤ daysIn y m := by intro a b; subst a; subst b; exact e4
  clear e4
  revert h; unfold TD; cal_split

theorem fitM {t e : Civil} (ht : t.valid) (he : e.valid) (hd : t.d = 1) (h0 : t.h = 0)
    (ed : e.d = 1) (e0 : e.h = 0) (h : lexLt t e) : ¬ lexLt e (TM t) := by
  rcases t with ⟨y, m, d, hh⟩; rcases e with ⟨ey, em, ed', eh⟩
  obtain ⟨h1, h2, h3, h4, h5⟩ := ht
  obtain ⟨e1, e2, e3, e4, e5⟩ := he
  simp only at h1 h2 h3 h4 h5 e1 e2 e3 e4 e5 h0 e0 hd ed
  subst h0; subst e0; subst hd; subst ed
  have b1 := daysIn_bounds y (m + 1)
  clear e4 h4
  revert h; unfold TM; cal_split

theorem fitY {t e : Civil} (hm : t.m = 1) (hd : t.d = 1) (h0 : t.h = 0)
    (em : e.m = 1) (ed : e.d = 1) (e0 : e.h = 0) (h : lexLt t e) : ¬ lexLt e (TY t) := by
  simp only [TY, lexLt] at *; omega

/-- One hour always fits before a later hour. -/
theorem fitH {t e : Civil} (ht : t.valid) (he : e.valid) (h : lexLt t e) : ¬ lexLt e (addHour t) := by
  rw [addHour_eq ht]
  rcases t with ⟨y, m, d, hh⟩; rcases e with ⟨ey, em, ed, eh⟩
  obtain ⟨h1, h2, h3, h4, h5⟩ := ht
  obtain ⟨e1, e2, e3, e4, e5⟩ := he
  simp only at h1 h2 h3 h4 h5 e1 e2 e3 e4 e5
  have key : ey = y → em = m → ed ≤ daysIn y m := by intro a b; subst a; subst b; exact e4
  clear e4
  revert h; simp only; cal_split

end PV.C18
