/-
Model of a time field as far as C18/C19 need it (field.go, view.go, executor.go); core Lean only.

  Field.SetBit                      standard view (unless noStandardView) + one view per unit of the
                                    quantum (`viewsByTime`), views created on first use
  executeRowShard (Row, from/to)    union of row r over the existing views of `viewsByTimeRange`
  executeRowsShard (Rows, from/to)  min/max time view (`minMaxViews`, `timeOfView`), clamping of
                                    from/to, `viewsByTimeRange`, rows present in those views
A view holds a set of (row, column) bits, modelled as a duplicate-free list.  Shards, fragments,
caches are below this model (C07/C12/C16 cover them); the harness keeps columns in two shards.
`Field.ClearBit` is in PV/C19/Model.lean.
-/
import PV.C18.Model
import PV.C18.Spec
namespace PV.C18

structure FView where
  name : VName
  bits : List (Nat × Nat)
deriving Repr, Inhabited, DecidableEq

structure Field where
  q : Quantum
  noStd : Bool
  views : List FView := []
deriving Repr, Inhabited

/-- `createViewIfNotExists(name)` followed by `view.setBit(r, c)`: the new view list and `changed`. -/
def setInViews : List FView → VName → Nat → Nat → List FView × Bool
  | [], n, r, c => ([⟨n, [(r, c)]⟩], true)
  | v :: vs, n, r, c =>
    if v.name = n then
      (if v.bits.contains (r, c) then (v :: vs, false) else (⟨v.name, (r, c) :: v.bits⟩ :: vs, true))
    else
      let res := setInViews vs n r c
      (v :: res.1, res.2)

/-- `Field.SetBit(r, c, t)`: returns the new field and `changed`. -/
def Field.setBit (f : Field) (r c : Nat) (t : Option Civil) : Field × Bool :=
  let s0 : List FView × Bool :=
    if f.noStd then (f.views, false) else setInViews f.views .std r c
  match t with
  | none => ({ f with views := s0.1 }, s0.2)
  | some t =>
    let s1 := (viewsByTime t f.q).foldl
      (fun (acc : List FView × Bool) v =>
        let res := setInViews acc.1 (.tv v) r c
        (res.1, acc.2 || res.2)) s0
    ({ f with views := s1.1 }, s1.2)

/-- `createViewIfNotExists(name)` followed by a clear-`bulkImport` of (r, c) into that view. -/
def clearInViews : List FView → VName → Nat → Nat → List FView
  | [], n, _, _ => [⟨n, []⟩]
  | v :: vs, n, r, c =>
    if v.name = n then ⟨v.name, v.bits.filter (fun b => b != (r, c))⟩ :: vs
    else v :: clearInViews vs n r c

/-- `Field.Import(rowIDs, columnIDs, timestamps, clear)`; `none` = error (nothing written).
Like `SetBit`: a bit without timestamp goes to the standard view only — on a field created with
noStandardView to no view at all (after "fix: Import of a bit without timestamp does not create a
standard view on a NoStandardView field"); a bit with a timestamp goes to the views of its quantum
units and (unless noStandardView) to the standard view.  Clear with timestamps is refused; a clear
import therefore only ever touches the standard view. -/
def Field.importBits (f : Field) (bits : List (Nat × Nat × Option Civil)) (clear : Bool) : Option Field :=
  if bits.any (fun b => b.2.2.isSome) && (f.q == [] || clear) then none
  else
    let views := bits.foldl (fun (vs : List FView) b =>
      let names : List VName := match b.2.2 with
        | none => if f.noStd then [] else [.std]
        | some t => (viewsByTime t f.q).map .tv ++ (if f.noStd then [] else [.std])
      names.foldl (fun vs n =>
        if clear then clearInViews vs n b.1 b.2.1 else (setInViews vs n b.1 b.2.1).1) vs) f.views
    some { f with views := views }

/-- A view created for a peer's CreateViewMessage (`createViewIfNotExistsBase`). -/
def Field.mkView (f : Field) (n : VName) : Field :=
  if f.views.any (fun v => v.name == n) then f else { f with views := f.views ++ [⟨n, []⟩] }

def Field.view? (f : Field) (n : VName) : Option FView := f.views.find? (fun v => v.name == n)

/-- Names of the views whose row `r` contains column `c`. -/
def Field.viewsWithBit (f : Field) (r c : Nat) : List VName :=
  (f.views.filter (fun v => v.bits.contains (r, c))).map (·.name)

def insertNat (x : Nat) : List Nat → List Nat
  | [] => [x]
  | y :: ys => if x < y then x :: y :: ys else if x = y then y :: ys else y :: insertNat x ys

/-- Ascending, duplicate-free. -/
def sortDedup (l : List Nat) : List Nat := l.foldr insertNat []

/-- Columns of row `r` in the union of the existing views among `names`. -/
def Field.rowOfViews (f : Field) (r : Nat) (names : List VName) : List Nat :=
  sortDedup (names.flatMap (fun n =>
    match f.view? n with
    | none => []
    | some v => (v.bits.filter (fun b => b.1 == r)).map (·.2)))

/-- `Row(f=r)` without from/to: the standard view. -/
def Field.rowStd (f : Field) (r : Nat) : List Nat := f.rowOfViews r [.std]

/-- `Row(f=r, from=s, to=e)` (executeRowShard). -/
def Field.rowRange (f : Field) (r : Nat) (s e : Civil) : List Nat :=
  if f.q = [] then [] else f.rowOfViews r ((viewsByTimeRange s e f.q).map .tv)

/-- Row ids present in the existing views among `names`. -/
def Field.rowsOfViews (f : Field) (names : List VName) : List Nat :=
  sortDedup (names.flatMap (fun n =>
    match f.view? n with
    | none => []
    | some v => v.bits.map (·.1)))

/-- `Rows(f, from=, to=)` (executeRowsShard); `none` = error. -/
def Field.rows (f : Field) (frm to : Option Civil) : Option (List Nat) :=
  if frm.isNone && to.isNone && !f.noStd then some (f.rowsOfViews [.std])
  else if f.q = [] then some []
  else
    match minMaxViews (f.views.map (·.name)) f.q with
    | (some (.tv mn), some (.tv mx)) =>
      match timeOfView mn false, timeOfView mx true with
      | some minT, some maxT =>
        let s := match frm with
          | none => minT
          | some t => if before t minT then minT else t
        let e := match to with
          | none => maxT
          | some t => if after t maxT then maxT else t
        some (f.rowsOfViews ((viewsByTimeRange s e f.q).map .tv))
      | _, _ => none
    | (some .std, _) => none     -- timeOfView("standard"): "invalid time format on view"
    | (_, some .std) => none
    | _ => some []

/-- The field a history of timestamped sets builds from an empty field. -/
def build (q : Quantum) (noStd : Bool) (log : List Spec.Ev) : Field :=
  log.foldl (fun f ev => (f.setBit ev.row ev.col ev.ts).1) { q := q, noStd := noStd, views := [] }


end PV.C18
