/-
C18 specification: what a view name denotes, what "the views cover exactly the range" means,
and what a time-range query must return.  Core Lean only, executable.
-/
import PV.C18.Model
namespace PV.C18.Spec
open PV.C18

def yearLen (y : Nat) : Nat := if isLeap y then 366 else 365

/-- The unit and the civil start a view name denotes: YYYY, YYYYMM, YYYYMMDD, YYYYMMDDHH with the
month, day and hour in their calendar ranges. -/
def denote (v : VDigits) : Option (U × Civil) :=
  if v.all (· ≤ 9) then
    match v with
    | [a, b, c, d] => some (.Y, ⟨1000 * a + 100 * b + 10 * c + d, 1, 1, 0⟩)
    | [a, b, c, d, m1, m2] =>
      let t : Civil := ⟨1000 * a + 100 * b + 10 * c + d, 10 * m1 + m2, 1, 0⟩
      if t.valid then some (.M, t) else none
    | [a, b, c, d, m1, m2, d1, d2] =>
      let t : Civil := ⟨1000 * a + 100 * b + 10 * c + d, 10 * m1 + m2, 10 * d1 + d2, 0⟩
      if t.valid then some (.D, t) else none
    | [a, b, c, d, m1, m2, d1, d2, h1, h2] =>
      let t : Civil := ⟨1000 * a + 100 * b + 10 * c + d, 10 * m1 + m2, 10 * d1 + d2, 10 * h1 + h2⟩
      if t.valid then some (.H, t) else none
    | _ => none
  else none

/-- Length in hours of the period of unit `u` starting at `t`. -/
def periodHours (u : U) (t : Civil) : Nat :=
  match u with
  | .Y => 24 * yearLen t.y
  | .M => 24 * daysIn t.y t.m
  | .D => 24
  | .H => 1

/-- The half-open interval of hours `[lo, hi)` a view name denotes. -/
def interval (v : VDigits) : Option (Nat × Nat) :=
  match denote v with
  | none => none
  | some (u, t) => some (hourIndex t, hourIndex t + periodHours u t)

/-- Start of the period of unit `u` containing `t`. -/
def floorU (u : U) (t : Civil) : Civil :=
  match u with
  | .Y => ⟨t.y, 1, 1, 0⟩
  | .M => ⟨t.y, t.m, 1, 0⟩
  | .D => ⟨t.y, t.m, t.d, 0⟩
  | .H => t

/-- Start of the period after the one containing `t`. -/
def nextU (u : U) (t : Civil) : Civil :=
  match u with
  | .Y => ⟨t.y + 1, 1, 1, 0⟩
  | .M => if t.m = 12 then ⟨t.y + 1, 1, 1, 0⟩ else ⟨t.y, t.m + 1, 1, 0⟩
  | .D => if t.d < daysIn t.y t.m then ⟨t.y, t.m, t.d + 1, 0⟩
          else if t.m = 12 then ⟨t.y + 1, 1, 1, 0⟩ else ⟨t.y, t.m + 1, 1, 0⟩
  | .H => if t.h < 23 then { t with h := t.h + 1 }
          else if t.d < daysIn t.y t.m then ⟨t.y, t.m, t.d + 1, 0⟩
          else if t.m = 12 then ⟨t.y + 1, 1, 1, 0⟩ else ⟨t.y, t.m + 1, 1, 0⟩

/-- `t` is aligned to the finest unit of the quantum. -/
def alignedTo (q : Quantum) (t : Civil) : Bool :=
  if q.hasHour then true
  else if q.hasDay then t.h == 0
  else if q.hasMonth then t.d == 1 && t.h == 0
  else t.m == 1 && t.d == 1 && t.h == 0

/-- The periods denoted by the names `vs` are consecutive and non-empty from hour `lo` to hour `hi`:
hence pairwise disjoint and their union is exactly `[lo, hi)` (`coverChain_count` in Props). -/
def coverChain : Nat → Nat → List VDigits → Bool
  | lo, hi, [] => lo == hi
  | lo, hi, v :: r =>
    match interval v with
    | none => false
    | some (a, b) => a == lo && decide (a < b) && coverChain b hi r

/-- The views cover exactly `[s, e)`. An empty or reversed range must read no view. -/
def coverOK (vs : List VDigits) (s e : Civil) : Bool :=
  if hourIndex e ≤ hourIndex s then vs.isEmpty
  else coverChain (hourIndex s) (hourIndex e) vs

/-- Number of the periods denoted by `vs` that contain hour `x`. -/
def coverCount (x : Nat) : List VDigits → Nat
  | [] => 0
  | v :: r =>
    (match interval v with
     | none => 0
     | some (a, b) => if a ≤ x ∧ x < b then 1 else 0) + coverCount x r

/-! ### Query specification over the log of timestamped sets -/

/-- A live set event: row, column, timestamp (`none` = set without timestamp), and whether the
write also went to the standard view (`SetBit`/`Import`: unless the field has none; a
clear-`Import` takes it away again). -/
structure Ev where
  row : Nat
  col : Nat
  ts : Option Civil
  std : Bool := true
deriving Repr, Inhabited, DecidableEq

def inRange (s e : Option Civil) (t : Civil) : Bool :=
  (match s with | none => true | some s => decide (hourIndex s ≤ hourIndex t)) &&
  (match e with | none => true | some e => decide (hourIndex t < hourIndex e))

def insertNat (x : Nat) : List Nat → List Nat
  | [] => [x]
  | y :: ys => if x < y then x :: y :: ys else if x = y then y :: ys else y :: insertNat x ys
def sortDedup (l : List Nat) : List Nat := l.foldr insertNat []

/-- Columns of row `r` set with a timestamp in `[s, e)`. -/
def rowRange (log : List Ev) (r : Nat) (s e : Civil) : List Nat :=
  sortDedup ((log.filter (fun ev => ev.row == r &&
    (match ev.ts with | none => false | some t => inRange (some s) (some e) t))).map (·.col))

/-- Columns of row `r` (standard view). -/
def rowStd (log : List Ev) (r : Nat) : List Nat :=
  sortDedup ((log.filter (fun ev => ev.row == r && ev.std)).map (·.col))

/-- Rows having a column set with a timestamp in the (possibly half-open) range. -/
def rowsRange (log : List Ev) (s e : Option Civil) : List Nat :=
  sortDedup ((log.filter (fun ev =>
    match ev.ts with | none => false | some t => inRange s e t)).map (·.row))

def rowsAll (log : List Ev) : List Nat := sortDedup ((log.filter (·.std)).map (·.row))

/-- The views that must hold (r, c): one per unit of the quantum for every live timestamp, and the
standard view when a live write went there. -/
def viewsWithBit (q : Quantum) (log : List Ev) (r c : Nat) : List VName :=
  let evs := log.filter (fun ev => ev.row == r && ev.col == c)
  let std : List VName := if evs.any (·.std) then [.std] else []
  let tvs : List VName := evs.flatMap (fun ev =>
    match ev.ts with
    | none => []
    | some t => (viewsByTime t q).map .tv)
  (std ++ tvs).eraseDups

/-- Log after a set-`Import` of `bits`: each bit is written like `SetBit` writes it (a bit without
timestamp on a field without standard view is written nowhere). -/
def importSet (noStd : Bool) (log : List Ev) (bits : List (Nat × Nat × Option Civil)) : List Ev :=
  log ++ (bits.filter (fun b => b.2.2.isSome || !noStd)).map (fun b => ⟨b.1, b.2.1, b.2.2, !noStd⟩)

/-- Log after a clear-`Import` of `bits` (no timestamps): it only touches the standard view, so the
listed bits stay live in their time views. -/
def importClear (log : List Ev) (bits : List (Nat × Nat × Option Civil)) : List Ev :=
  (log.map (fun ev => if bits.any (fun b => b.1 == ev.row && b.2.1 == ev.col) then { ev with std := false } else ev)).filter
    (fun ev => ev.std || ev.ts.isSome)

end PV.C18.Spec
