/-
Calendar lemmas for C18, part 2 (core Lean only): explicit forms of the step functions on valid
times, the thresholds behind nextDayGTE / nextMonthGTE / nextYearGTE, and their order facts.
-/
import PV.C18.Lemmas
namespace PV.C18
open Spec (yearLen)

/-! ### Step functions on valid times -/

theorem addDay_eq {t : Civil} (h : t.valid) : addDay t =
    if t.d < daysIn t.y t.m then ⟨t.y, t.m, t.d + 1, t.h⟩
    else if t.m = 12 then ⟨t.y + 1, 1, 1, t.h⟩ else ⟨t.y, t.m + 1, 1, t.h⟩ := by
  obtain ⟨h1, h2, h3, h4, h5⟩ := h
  have hm : ¬ t.m > 12 := by omega
  simp only [addDay, normDate, hm, if_false]
  by_cases hd : t.d < daysIn t.y t.m
  · have : ¬ t.d + 1 > daysIn t.y t.m := by omega
    simp only [this, hd, if_true, if_false]
  · have : t.d + 1 > daysIn t.y t.m := by omega
    have e : t.d + 1 - daysIn t.y t.m = 1 := by omega
    simp only [this, hd, if_true, if_false, e]

theorem addDay_valid {t : Civil} (h : t.valid) : (addDay t).valid := by
  rw [addDay_eq h]
  obtain ⟨h1, h2, h3, h4, h5⟩ := h
  have b1 := daysIn_bounds (t.y + 1) 1
  have b2 := daysIn_bounds t.y (t.m + 1)
  unfold Civil.valid
  split
  · simp only; omega
  · split
    · simp only; omega
    · simp only; omega

theorem addMonthGo_eq {t : Civil} (h : t.valid) : addMonthGo t =
    if t.m = 12 then ⟨t.y + 1, 1, t.d, t.h⟩
    else if t.d > daysIn t.y (t.m + 1) then ⟨t.y, t.m + 2, t.d - daysIn t.y (t.m + 1), t.h⟩
    else ⟨t.y, t.m + 1, t.d, t.h⟩ := by
  rcases t with ⟨y, m, d, hh⟩
  obtain ⟨h1, h2, h3, h4, h5⟩ := h
  simp only at h1 h2 h3 h4 h5
  have b0 := daysIn_bounds y m
  simp only [addMonthGo, normDate]
  by_cases hm : m = 12
  · subst hm
    have e3 : ¬ d > daysIn (y + 1) 1 := by rw [daysIn_1]; omega
    simp [e3]
  · have e1 : ¬ m + 1 > 12 := by omega
    rw [if_neg e1, if_neg e1, if_neg hm]
    by_cases hd : d > daysIn y (m + 1)
    · have e4 : m + 1 ≠ 12 := by
        intro e; rw [e, daysIn_12] at hd; omega
      rw [if_pos hd, if_neg e4, if_pos hd]
    · rw [if_neg hd, if_neg hd]

theorem addMonthGo_valid {t : Civil} (h : t.valid) : (addMonthGo t).valid := by
  rw [addMonthGo_eq h]
  obtain ⟨h1, h2, h3, h4, h5⟩ := h
  have b0 := daysIn_bounds t.y t.m
  have b1 := daysIn_bounds t.y (t.m + 1)
  have b2 := daysIn_bounds t.y (t.m + 2)
  unfold Civil.valid
  split
  · rename_i hm; simp only; rw [daysIn_1]; omega
  · split
    · rename_i hm hd
      have : t.m + 1 ≠ 12 := by intro e; rw [e, daysIn_12] at hd; omega
      simp only; omega
    · simp only; omega

theorem addYear_eq {t : Civil} (h : t.valid) : addYear t =
    if t.d > daysIn (t.y + 1) t.m then ⟨t.y + 1, t.m + 1, t.d - daysIn (t.y + 1) t.m, t.h⟩
    else ⟨t.y + 1, t.m, t.d, t.h⟩ := by
  obtain ⟨h1, h2, h3, h4, h5⟩ := h
  have b0 := daysIn_bounds t.y t.m
  have hm : ¬ t.m > 12 := by omega
  simp only [addYear, normDate, hm, if_false]
  by_cases hd : t.d > daysIn (t.y + 1) t.m
  · have : t.m ≠ 12 := by intro e; rw [e, daysIn_12] at hd; omega
    simp only [hd, this, if_true, if_false]
  · simp only [hd, if_false]

theorem addYear_valid {t : Civil} (h : t.valid) : (addYear t).valid := by
  rw [addYear_eq h]
  obtain ⟨h1, h2, h3, h4, h5⟩ := h
  have b0 := daysIn_bounds t.y t.m
  have b1 := daysIn_bounds (t.y + 1) t.m
  have b2 := daysIn_bounds (t.y + 1) (t.m + 1)
  unfold Civil.valid
  split
  · rename_i hd
    have : t.m ≠ 12 := by intro e; rw [e, daysIn_12] at hd; omega
    simp only; omega
  · simp only; omega

theorem addYear_y {t : Civil} (h : t.valid) : (addYear t).y = t.y + 1 := by
  rw [addYear_eq h]; split <;> rfl

theorem addHour_eq {t : Civil} (h : t.valid) : addHour t =
    if t.h < 23 then ⟨t.y, t.m, t.d, t.h + 1⟩
    else if t.d < daysIn t.y t.m then ⟨t.y, t.m, t.d + 1, 0⟩
    else if t.m = 12 then ⟨t.y + 1, 1, 1, 0⟩ else ⟨t.y, t.m + 1, 1, 0⟩ := by
  unfold addHour
  rw [addDay_eq h]
  by_cases hh : t.h < 23
  · have : t.h + 1 < 24 := by omega
    simp only [this, hh, if_true]
  · have : ¬ t.h + 1 < 24 := by omega
    simp only [this, hh, if_false]
    split
    · rfl
    · split <;> rfl

theorem addHour_valid {t : Civil} (h : t.valid) : (addHour t).valid := by
  unfold addHour
  split
  · obtain ⟨h1, h2, h3, h4, h5⟩ := h
    unfold Civil.valid; simp only; omega
  · have := addDay_valid h
    obtain ⟨h1, h2, h3, h4, h5⟩ := this
    unfold Civil.valid; simp only; omega

/-- pilosa `addMonth` from the first day of a month: the first day of the next month. -/
theorem addMonth_aligned {t : Civil} (h : t.valid) (hd : t.d = 1) : addMonth t =
    if t.m = 12 then ⟨t.y + 1, 1, 1, t.h⟩ else ⟨t.y, t.m + 1, 1, t.h⟩ := by
  have b1 := daysIn_bounds t.y (t.m + 1)
  have e : ¬ t.d > 28 := by omega
  have e2 : ¬ t.d > daysIn t.y (t.m + 1) := by omega
  simp only [addMonth, e, if_false]
  rw [addMonthGo_eq h, if_neg e2, hd]

theorem addYear_aligned {t : Civil} (h : t.valid) (hm : t.m = 1) (hd : t.d = 1) :
    addYear t = ⟨t.y + 1, 1, 1, t.h⟩ := by
  have b1 := daysIn_bounds (t.y + 1) t.m
  have e : ¬ t.d > daysIn (t.y + 1) t.m := by omega
  rw [addYear_eq h, if_neg e, hm, hd]

/-! ### The hour index moves by exactly one period -/

theorem hourIndex_addDay {t : Civil} (h : t.valid) : hourIndex (addDay t) = hourIndex t + 24 := by
  rw [addDay_eq h]
  obtain ⟨h1, h2, h3, h4, h5⟩ := h
  split
  · simp only [hourIndex, dayIndex]; omega
  · rename_i hd
    have hd' : t.d = daysIn t.y t.m := by omega
    split
    · rename_i hm
      have e := dayIndex_year_succ t.y
      have e2 := daysBefore_12 t.y
      simp only [hourIndex]
      have : dayIndex t.y t.m t.d + 1 = dayIndex (t.y + 1) 1 1 := by
        rw [e]; unfold dayIndex; rw [daysBefore_1, hm, hd', hm, daysIn_12]; omega
      omega
    · rename_i hm
      have e := daysBefore_succ t.y t.m h1 (by omega)
      simp only [hourIndex, dayIndex]
      rw [e, hd']; omega

theorem addDay_h {t : Civil} (h : t.valid) : (addDay t).h = t.h := by
  rw [addDay_eq h]; split
  · rfl
  · split <;> rfl

theorem hourIndex_addHour {t : Civil} (h : t.valid) : hourIndex (addHour t) = hourIndex t + 1 := by
  unfold addHour
  split
  · simp only [hourIndex]; omega
  · rename_i hh
    have := hourIndex_addDay h
    have e := addDay_h h
    obtain ⟨h1, h2, h3, h4, h5⟩ := h
    simp only [hourIndex] at this ⊢
    omega

theorem hourIndex_addMonth {t : Civil} (h : t.valid) (hd : t.d = 1) :
    hourIndex (addMonth t) = hourIndex t + 24 * daysIn t.y t.m := by
  rw [addMonth_aligned h hd]
  obtain ⟨h1, h2, h3, h4, h5⟩ := h
  split
  · rename_i hm
    have e := dayIndex_year_succ t.y
    have e2 := daysBefore_12 t.y
    simp only [hourIndex]
    have : dayIndex (t.y + 1) 1 1 = dayIndex t.y t.m t.d + daysIn t.y t.m := by
      rw [e]; unfold dayIndex; rw [daysBefore_1, hm, hd, daysIn_12]; omega
    omega
  · rename_i hm
    have e := daysBefore_succ t.y t.m h1 (by omega)
    simp only [hourIndex, dayIndex]
    rw [e, hd]; omega

theorem hourIndex_addYear {t : Civil} (h : t.valid) (hm : t.m = 1) (hd : t.d = 1) :
    hourIndex (addYear t) = hourIndex t + 24 * yearLen t.y := by
  rw [addYear_aligned h hm hd]
  have e := dayIndex_year_succ t.y
  simp only [hourIndex, hm, hd]
  omega

/-! ### Thresholds -/

/-- Start of the year after `t`'s. -/
def TY (t : Civil) : Civil := ⟨t.y + 1, 1, 1, 0⟩

/-- Start of the month of `t.AddDate(0, 1, 0)`. -/
def TM (t : Civil) : Civil :=
  if t.m = 12 then ⟨t.y + 1, 1, 1, 0⟩
  else if t.d > daysIn t.y (t.m + 1) then ⟨t.y, t.m + 2, 1, 0⟩ else ⟨t.y, t.m + 1, 1, 0⟩

/-- Start of the day after `t`'s. -/
def TD (t : Civil) : Civil :=
  if t.d < daysIn t.y t.m then ⟨t.y, t.m, t.d + 1, 0⟩
  else if t.m = 12 then ⟨t.y + 1, 1, 1, 0⟩ else ⟨t.y, t.m + 1, 1, 0⟩

theorem after_iff {a b : Civil} (ha : a.valid) (hb : b.valid) : after a b = true ↔ lexLt b a := by
  have := before_iff hb ha
  simpa [after, before] using this

theorem nextYearGTE_iff {t e : Civil} (ht : t.valid) (he : e.valid) :
    nextYearGTE t e = true ↔ ¬ lexLt e (TY t) := by
  have hy := addYear_y ht
  have hv := addYear_valid ht
  have ha := after_iff he hv
  obtain ⟨n1, n2, n3, n4, n5⟩ := hv
  obtain ⟨e1, e2, e3, e4, e5⟩ := he
  unfold nextYearGTE
  simp only
  split
  · rename_i h
    simp only [TY, lexLt, true_iff]; omega
  · rename_i h
    rw [ha]
    simp only [TY, lexLt]; omega

theorem nextMonthGTE_iff {t e : Civil} (ht : t.valid) (he : e.valid) :
    nextMonthGTE t e = true ↔ ¬ lexLt e (TM t) := by
  have hv := addMonthGo_valid ht
  have ha := after_iff he hv
  have hTM : TM t = ⟨(addMonthGo t).y, (addMonthGo t).m, 1, 0⟩ := by
    rw [addMonthGo_eq ht]; unfold TM
    split
    · rfl
    · split <;> rfl
  obtain ⟨n1, n2, n3, n4, n5⟩ := hv
  obtain ⟨e1, e2, e3, e4, e5⟩ := he
  unfold nextMonthGTE
  simp only
  rw [hTM]
  split
  · rename_i h
    simp only [lexLt, true_iff]; omega
  · rename_i h
    rw [ha]
    simp only [lexLt]; omega

theorem nextDayGTE_iff {t e : Civil} (ht : t.valid) (he : e.valid) :
    nextDayGTE t e = true ↔ ¬ lexLt e (TD t) := by
  have hv := addDay_valid ht
  have ha := after_iff he hv
  have hTD : TD t = ⟨(addDay t).y, (addDay t).m, (addDay t).d, 0⟩ := by
    rw [addDay_eq ht]; unfold TD
    split
    · rfl
    · split <;> rfl
  obtain ⟨n1, n2, n3, n4, n5⟩ := hv
  obtain ⟨e1, e2, e3, e4, e5⟩ := he
  unfold nextDayGTE
  simp only
  rw [hTD]
  split
  · rename_i h
    simp only [lexLt, true_iff]; omega
  · rename_i h
    rw [ha]
    simp only [lexLt]; omega

end PV.C18
