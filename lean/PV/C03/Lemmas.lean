/-
C03 helper lemmas: association lists, the heap invariant `Inv`, and its preservation / frame
property for every primitive heap action.  Core Lean only.
-/
import PV.C03.Model
set_option linter.unusedSimpArgs false
namespace PV.C03

/-! ### association lists -/

theorem aget_adel (l : AList) (k k' : Nat) :
    aget (adel l k) k' = if k' = k then none else aget l k' := by
  induction l with
  | nil => simp [adel, aget]
  | cons x xs ih =>
    obtain ⟨kx, cx⟩ := x
    simp only [adel, List.filter] at ih ⊢
    by_cases h : kx = k
    · subst h
      simp only [bne_self_eq_false]
      rw [ih]
      by_cases h2 : k' = kx
      · simp [h2, aget]
      · have : ¬ kx = k' := fun e => h2 e.symm
        simp [h2, aget, this]
    · have hb : (kx != k) = true := by simp [bne_iff_ne, h]
      simp only [hb, aget]
      by_cases h3 : kx = k'
      · subst h3
        simp [h]
      · simp only [h3, if_false]
        exact ih

theorem aget_ains (l : AList) (k c k' : Nat) (hk : aget l k = none) :
    aget (ains l k c) k' = if k' = k then some c else aget l k' := by
  induction l with
  | nil =>
    simp only [ains, aget]
    by_cases h : k = k' <;> simp [h, eq_comm]
  | cons x xs ih =>
    obtain ⟨kx, cx⟩ := x
    simp only [aget] at hk
    by_cases hkx : kx = k
    · simp [hkx] at hk
    · simp only [hkx, if_false] at hk
      simp only [ains]
      by_cases hlt : k < kx
      · simp only [hlt, if_true, aget]
        by_cases h : k = k'
        · subst h; simp
        · have : ¬ k' = k := fun e => h e.symm
          simp [h, this]
      · simp only [hlt, if_false, aget]
        by_cases h3 : kx = k'
        · subst h3
          simp [hkx]
        · simp only [h3, if_false]
          exact ih hk

theorem aget_aput (l : AList) (k c k' : Nat) :
    aget (aput l k c) k' = if k' = k then some c else aget l k' := by
  unfold aput
  rw [aget_ains _ _ _ _ (by rw [aget_adel]; simp)]
  by_cases h : k' = k
  · simp [h]
  · simp [h, aget_adel]

theorem aget_mem_keys (l : AList) (k c : Nat) (h : aget l k = some c) : k ∈ l.map (·.1) := by
  induction l with
  | nil => simp [aget] at h
  | cons x xs ih =>
    obtain ⟨kx, cx⟩ := x
    simp only [aget] at h
    by_cases hk : kx = k
    · simp [hk]
    · simp only [hk, if_false] at h
      simp [ih h]

@[simp] theorem upd_same {α : Type} (f : Nat → α) (i : Nat) (v : α) : upd f i v i = v := by simp [upd]
theorem upd_ne {α : Type} (f : Nat → α) (i j : Nat) (v : α) (h : j ≠ i) : upd f i v j = f j := by
  simp [upd, h]

/-! ### the invariant -/

def isMmap : Kind → Bool
  | .heap => false
  | .mmap _ => true

def Heap.ref (h : Heap) (b k c : Nat) : Prop := aget (h.bms b) k = some c

/-- `Iso`: (i) a container reachable from two places is frozen, stores are never shared;
(ii) is the shape of `Prim.write` (it thaws first) together with `frozenHeap`/`mappedOk`;
(iii) a reachable container with mapped data lies in a live region owned by the bitmap reaching it. -/
structure Inv (h : Heap) : Prop where
  contLt : ∀ b k c, b < h.nB → h.ref b k c → c < h.nC
  storeLt : ∀ c, c < h.nC → (h.conts c).store < h.nS
  storeInj : ∀ c₁ c₂, c₁ < h.nC → c₂ < h.nC → (h.conts c₁).store = (h.conts c₂).store → c₁ = c₂
  shared : ∀ b₁ k₁ b₂ k₂ c, b₁ < h.nB → b₂ < h.nB → h.ref b₁ k₁ c → h.ref b₂ k₂ c →
      (b₁ ≠ b₂ ∨ k₁ ≠ k₂) → (h.conts c).frozen = true
  frozenHeap : ∀ c, c < h.nC → (h.conts c).frozen = true → h.kindOf c = .heap
  mappedOk : ∀ c, c < h.nC → (h.conts c).mapped = isMmap (h.kindOf c)
  region : ∀ b k c g, b < h.nB → h.ref b k c → h.kindOf c = .mmap g →
      h.live g = true ∧ h.owner g = b ∧ g < h.nR

/-- The value of bitmap `b` at key `k`. -/
def Heap.absAt (h : Heap) (b k : Nat) : Option (List Nat) := (aget (h.bms b) k).map h.vals

theorem inv_empty : Inv Heap.empty := by
  constructor <;> intros <;> simp_all [Heap.empty, Heap.ref, aget]

end PV.C03
