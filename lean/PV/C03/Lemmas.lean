/-
C03 helper lemmas: association lists, the heap invariant `Inv`, and its preservation / frame
property for every primitive heap action.  Core Lean only.
-/
import PV.C03.Model
set_option linter.unusedSimpArgs false
namespace PV.C03

/-! ### association lists -/

theorem aget_adel (l : AList) (k k' : Nat) :
    aget (adel l k) k' = if k' = k then none else aget l k' := by
  induction l with
  | nil => simp [adel, aget]
  | cons x xs ih =>
    obtain ⟨kx, cx⟩ := x
    simp only [adel, List.filter] at ih ⊢
    by_cases h : kx = k
    · subst h
      simp only [bne_self_eq_false]
      rw [ih]
      by_cases h2 : k' = kx
      · simp [h2, aget]
      · have : ¬ kx = k' := fun e => h2 e.symm
        simp [h2, aget, this]
    · have hb : (kx != k) = true := by simp [bne_iff_ne, h]
      simp only [hb, aget]
      by_cases h3 : kx = k'
      · subst h3
        simp [h]
      · simp only [h3, if_false]
        exact ih

theorem aget_ains (l : AList) (k c k' : Nat) (hk : aget l k = none) :
    aget (ains l k c) k' = if k' = k then some c else aget l k' := by
  induction l with
  | nil =>
    simp only [ains, aget]
    by_cases h : k = k' <;> simp [h, eq_comm]
  | cons x xs ih =>
    obtain ⟨kx, cx⟩ := x
    simp only [aget] at hk
    by_cases hkx : kx = k
    · simp [hkx] at hk
    · simp only [hkx, if_false] at hk
      simp only [ains]
      by_cases hlt : k < kx
      · simp only [hlt, if_true, aget]
        by_cases h : k = k'
        · subst h; simp
        · have : ¬ k' = k := fun e => h e.symm
          simp [h, this]
      · simp only [hlt, if_false, aget]
        by_cases h3 : kx = k'
        · subst h3
          simp [hkx]
        · simp only [h3, if_false]
          exact ih hk

theorem aget_aput (l : AList) (k c k' : Nat) :
    aget (aput l k c) k' = if k' = k then some c else aget l k' := by
  unfold aput
  rw [aget_ains _ _ _ _ (by rw [aget_adel]; simp)]
  by_cases h : k' = k
  · simp [h]
  · simp [h, aget_adel]

theorem aget_mem_keys (l : AList) (k c : Nat) (h : aget l k = some c) : k ∈ l.map (·.1) := by
  induction l with
  | nil => simp [aget] at h
  | cons x xs ih =>
    obtain ⟨kx, cx⟩ := x
    simp only [aget] at h
    by_cases hk : kx = k
    · simp [hk]
    · simp only [hk, if_false] at h
      simp [ih h]

@[simp] theorem upd_same {α : Type} (f : Nat → α) (i : Nat) (v : α) : upd f i v i = v := by simp [upd]
theorem upd_ne {α : Type} (f : Nat → α) (i j : Nat) (v : α) (h : j ≠ i) : upd f i v j = f j := by
  simp [upd, h]

/-! ### the invariant -/

def isMmap : Kind → Bool
  | .heap => false
  | .mmap _ => true

def Heap.ref (h : Heap) (b k c : Nat) : Prop := aget (h.bms b) k = some c

/-- `Iso` (bitmap ids are only an allocation counter: every entry of the bitmap table is covered,
unused ones are empty): (i) a container reachable from two places is frozen, stores are never shared;
(ii) is the shape of `Prim.write` (it thaws first) together with `frozenHeap`/`mappedOk`;
(iii) a reachable container with mapped data lies in a live region owned by the bitmap reaching it. -/
structure Inv (h : Heap) : Prop where
  contLt : ∀ b k c, h.ref b k c → c < h.nC
  storeLt : ∀ c, c < h.nC → (h.conts c).store < h.nS
  storeInj : ∀ c₁ c₂, c₁ < h.nC → c₂ < h.nC → (h.conts c₁).store = (h.conts c₂).store → c₁ = c₂
  shared : ∀ b₁ k₁ b₂ k₂ c, h.ref b₁ k₁ c → h.ref b₂ k₂ c →
      (b₁ ≠ b₂ ∨ k₁ ≠ k₂) → (h.conts c).frozen = true
  frozenHeap : ∀ c, c < h.nC → (h.conts c).frozen = true → h.kindOf c = .heap
  mappedOk : ∀ c, c < h.nC → (h.conts c).mapped = isMmap (h.kindOf c)
  region : ∀ b k c g, h.ref b k c → h.kindOf c = .mmap g →
      h.live g = true ∧ h.owner g = b ∧ g < h.nR

/-- The value of bitmap `b` at key `k`. -/
def Heap.absAt (h : Heap) (b k : Nat) : Option (List Nat) := (aget (h.bms b) k).map h.vals

theorem inv_empty : Inv Heap.empty := by
  constructor <;> intros <;> simp_all [Heap.empty, Heap.ref, aget]


/-- Type A: only the bitmap table changes; every reference of the new table is an old reference
(same bitmap, same key) or goes to a frozen container. -/
theorem inv_bms (h : Heap) (hi : Inv h) (bms' : Nat → AList) (nB' : Nat)
    (H : ∀ b k c, aget (bms' b) k = some c →
        aget (h.bms b) k = some c ∨ (c < h.nC ∧ (h.conts c).frozen = true)) :
    Inv { h with bms := bms', nB := nB' } := by
  obtain ⟨h1, h2, h3, h4, h5, h6, h7⟩ := hi
  refine ⟨?_, h2, h3, ?_, h5, h6, ?_⟩
  · intro b k c hr
    rcases H b k c hr with hr' | ⟨hc, _⟩
    · exact h1 b k c hr'
    · exact hc
  · intro b₁ k₁ b₂ k₂ c hr₁ hr₂ hne
    rcases H b₁ k₁ c hr₁ with hr₁' | ⟨_, hf⟩
    · rcases H b₂ k₂ c hr₂ with hr₂' | ⟨_, hf⟩
      · exact h4 b₁ k₁ b₂ k₂ c hr₁' hr₂' hne
      · exact hf
    · exact hf
  · intro b k c g hr hk
    rcases H b k c hr with hr' | ⟨hc, hf⟩
    · exact h7 b k c g hr' hk
    · have := h5 c hc hf
      simp only [Heap.kindOf] at this hk
      rw [this] at hk
      cases hk



/-- Type B: a new container object with a new store, referenced at (b,k) only. -/
theorem inv_newCont (h : Heap) (hi : Inv h) (b k : Nat) (v : List Nat) (kd : Kind)
    (hk : ∀ g, kd = .mmap g → h.live g = true ∧ h.owner g = b ∧ g < h.nR) :
    Inv { h with stores := upd h.stores h.nS ⟨v, kd⟩, nS := h.nS + 1,
                 conts := upd h.conts h.nC ⟨h.nS, false, isMmap kd⟩, nC := h.nC + 1,
                 bms := upd h.bms b (aput (h.bms b) k h.nC) } := by
  obtain ⟨h1, h2, h3, h4, h5, h6, h7⟩ := hi
  have refOld : ∀ b' k' c', aget (upd h.bms b (aput (h.bms b) k h.nC) b') k' = some c' →
      (b' = b ∧ k' = k ∧ c' = h.nC) ∨ aget (h.bms b') k' = some c' := by
    intro b' k' c' hr
    simp only [upd] at hr
    split at hr
    · rename_i e; subst e
      rw [aget_aput] at hr
      split at hr
      · rename_i e; left; exact ⟨rfl, e, (Option.some.inj hr).symm⟩
      · right; exact hr
    · right; exact hr
  constructor
  · intro b' k' c' hr
    rcases refOld b' k' c' hr with ⟨_, _, e⟩ | hr'
    · simp [e]
    · have := h1 b' k' c' hr'; show c' < h.nC + 1; omega
  · intro c hc
    simp only [upd]
    split
    · simp
    · rename_i e
      have hc' : c < h.nC + 1 := hc
      have := h2 c (by omega)
      show (h.conts c).store < h.nS + 1
      omega
  · intro c₁ c₂ hc₁ hc₂ he
    simp only [upd] at he
    simp only at hc₁ hc₂
    split at he <;> split at he
    · omega
    · rename_i e1 e2
      have := h2 c₂ (by omega); simp only at he; omega
    · rename_i e1 e2
      have := h2 c₁ (by omega); simp only at he; omega
    · exact h3 c₁ c₂ (by omega) (by omega) he
  · intro b₁ k₁ b₂ k₂ c hr₁ hr₂ hne
    rcases refOld b₁ k₁ c hr₁ with ⟨e1, e2, e3⟩ | hr₁'
    · rcases refOld b₂ k₂ c hr₂ with ⟨f1, f2, f3⟩ | hr₂'
      · subst e1 e2 f1 f2; rcases hne with hne | hne <;> exact absurd rfl hne
      · have := h1 b₂ k₂ c hr₂'; omega
    · rcases refOld b₂ k₂ c hr₂ with ⟨f1, f2, f3⟩ | hr₂'
      · have := h1 b₁ k₁ c hr₁'; omega
      · have hc := h1 b₁ k₁ c hr₁'
        have := h4 b₁ k₁ b₂ k₂ c hr₁' hr₂' hne
        simp only [upd]
        split
        · omega
        · exact this
  · intro c hc hf
    simp only [Heap.kindOf, upd] at hf ⊢
    simp only at hc
    split at hf
    · simp at hf
    · rename_i e
      have hc' : c < h.nC := by omega
      have hs := h2 c hc'
      have : ¬ (h.conts c).store = h.nS := by omega
      simp only [e, if_false, this]
      exact h5 c hc' hf
  · intro c hc
    simp only [Heap.kindOf, upd]
    simp only at hc
    split
    · simp
    · rename_i e
      have hc' : c < h.nC := by omega
      have hs := h2 c hc'
      have : ¬ (h.conts c).store = h.nS := by omega
      simp only [this, if_false]
      exact h6 c hc'
  · intro b' k' c' g hr hkd
    rcases refOld b' k' c' hr with ⟨e1, e2, e3⟩ | hr'
    · subst e3
      simp only [Heap.kindOf, upd, if_true] at hkd
      have := hk g hkd
      rw [e1]; exact this
    · have hc' := h1 b' k' c' hr'
      have hs := h2 c' hc'
      simp only [Heap.kindOf, upd] at hkd
      have e : ¬ c' = h.nC := by omega
      have e2 : ¬ (h.conts c').store = h.nS := by omega
      simp only [e, if_false, e2] at hkd
      exact h7 b' k' c' g hr' hkd



/-- Type C: container `c` keeps its identity and gets a new store of kind `kd`. -/
def Heap.moved (h : Heap) (c : Nat) (v : List Nat) (kd : Kind) (fr : Bool) : Heap :=
  { h with stores := upd h.stores h.nS ⟨v, kd⟩, nS := h.nS + 1,
           conts := upd h.conts c ⟨h.nS, fr, isMmap kd⟩ }

theorem moved_kind_same (h : Heap) (c : Nat) (v : List Nat) (kd : Kind) (fr : Bool) :
    (h.moved c v kd fr).kindOf c = kd := by
  simp [Heap.moved, Heap.kindOf, upd]

theorem moved_kind_ne (h : Heap) (hs : ∀ c, c < h.nC → (h.conts c).store < h.nS)
    (c : Nat) (v : List Nat) (kd : Kind) (fr : Bool) (c' : Nat) (hc' : c' < h.nC) (e : c' ≠ c) :
    (h.moved c v kd fr).kindOf c' = h.kindOf c' := by
  have := hs c' hc'
  have e2 : ¬ (h.conts c').store = h.nS := by omega
  simp [Heap.moved, Heap.kindOf, upd, e, e2]

theorem moved_cont_same (h : Heap) (c : Nat) (v : List Nat) (kd : Kind) (fr : Bool) :
    (h.moved c v kd fr).conts c = ⟨h.nS, fr, isMmap kd⟩ := by simp [Heap.moved, upd]

theorem moved_cont_ne (h : Heap) (c : Nat) (v : List Nat) (kd : Kind) (fr : Bool) (c' : Nat) (e : c' ≠ c) :
    (h.moved c v kd fr).conts c' = h.conts c' := by simp [Heap.moved, upd, e]

theorem inv_moveCont (h : Heap) (hi : Inv h) (c : Nat) (hc : c < h.nC) (v : List Nat) (kd : Kind) (fr : Bool)
    (hfr : fr = true → kd = .heap)
    (hfr2 : fr = true ∨ (h.conts c).frozen = false)
    (hk : ∀ g, kd = .mmap g → h.live g = true ∧ g < h.nR ∧
            ∀ b k, aget (h.bms b) k = some c → h.owner g = b) :
    Inv (h.moved c v kd fr) := by
  obtain ⟨h1, h2, h3, h4, h5, h6, h7⟩ := hi
  constructor
  · exact h1
  · intro c' hc'
    by_cases e : c' = c
    · subst e; rw [moved_cont_same]; show h.nS < h.nS + 1; omega
    · rw [moved_cont_ne _ _ _ _ _ _ e]; have := h2 c' hc'; show _ < h.nS + 1; omega
  · intro c₁ c₂ hc₁ hc₂ he
    by_cases e1 : c₁ = c <;> by_cases e2 : c₂ = c
    · rw [e1, e2]
    · subst e1; rw [moved_cont_same, moved_cont_ne _ _ _ _ _ _ e2] at he
      have := h2 c₂ hc₂; simp only at he; omega
    · subst e2; rw [moved_cont_same, moved_cont_ne _ _ _ _ _ _ e1] at he
      have := h2 c₁ hc₁; simp only at he; omega
    · rw [moved_cont_ne _ _ _ _ _ _ e1, moved_cont_ne _ _ _ _ _ _ e2] at he
      exact h3 c₁ c₂ hc₁ hc₂ he
  · intro b₁ k₁ b₂ k₂ c' hr₁ hr₂ hne
    have := h4 b₁ k₁ b₂ k₂ c' hr₁ hr₂ hne
    by_cases e : c' = c
    · subst e; rw [moved_cont_same]
      rcases hfr2 with e | e
      · exact e
      · rw [e] at this; cases this
    · rw [moved_cont_ne _ _ _ _ _ _ e]; exact this
  · intro c' hc' hf
    by_cases e : c' = c
    · subst e; rw [moved_cont_same] at hf; rw [moved_kind_same]; exact hfr hf
    · rw [moved_cont_ne _ _ _ _ _ _ e] at hf
      rw [moved_kind_ne h h2 _ _ _ _ _ hc' e]; exact h5 c' hc' hf
  · intro c' hc'
    by_cases e : c' = c
    · subst e; rw [moved_cont_same, moved_kind_same]
    · rw [moved_cont_ne _ _ _ _ _ _ e, moved_kind_ne h h2 _ _ _ _ _ hc' e]; exact h6 c' hc'
  · intro b' k' c' g hr hkd
    by_cases e : c' = c
    · subst e; rw [moved_kind_same] at hkd
      obtain ⟨a1, a2, a3⟩ := hk g hkd
      exact ⟨a1, a3 b' k' hr, a2⟩
    · have hc'' := h1 b' k' c' hr
      rw [moved_kind_ne h h2 _ _ _ _ _ hc'' e] at hkd
      exact h7 b' k' c' g hr hkd

/-- Type D: only values change (kinds stay). -/
theorem inv_stores (h : Heap) (hi : Inv h) (st' : Nat → Store)
    (H : ∀ s, (st' s).kind = (h.stores s).kind) : Inv { h with stores := st' } := by
  obtain ⟨h1, h2, h3, h4, h5, h6, h7⟩ := hi
  refine ⟨h1, h2, h3, h4, ?_, ?_, ?_⟩
  · intro c hc hf; simp only [Heap.kindOf, H]; exact h5 c hc hf
  · intro c hc; simp only [Heap.kindOf, H]; exact h6 c hc
  · intro b k c g hr hk; simp only [Heap.kindOf, H] at hk; exact h7 b k c g hr hk

/-- Type E1: a new live region. -/
theorem inv_newRegion (h : Heap) (hi : Inv h) (b : Nat) :
    Inv { h with live := upd h.live h.nR true, owner := upd h.owner h.nR b, nR := h.nR + 1 } := by
  obtain ⟨h1, h2, h3, h4, h5, h6, h7⟩ := hi
  refine ⟨h1, h2, h3, h4, h5, h6, ?_⟩
  intro b' k c g hr hk
  obtain ⟨a1, a2, a3⟩ := h7 b' k c g hr hk
  have : ¬ g = h.nR := by omega
  simp only [upd, this, if_false]
  exact ⟨a1, a2, by omega⟩

/-- Type E2: unmapping regions nothing refers to. -/
theorem inv_kill (h : Heap) (hi : Inv h) (live' : Nat → Bool)
    (H : ∀ b k c g, aget (h.bms b) k = some c → h.kindOf c = .mmap g → live' g = h.live g) :
    Inv { h with live := live' } := by
  obtain ⟨h1, h2, h3, h4, h5, h6, h7⟩ := hi
  refine ⟨h1, h2, h3, h4, h5, h6, ?_⟩
  intro b k c g hr hk
  obtain ⟨a1, a2, a3⟩ := h7 b k c g hr hk
  exact ⟨by show live' g = true; rw [H b k c g hr hk]; exact a1, a2, a3⟩


end PV.C03
