/-
C03 helper lemmas for the row / fragment layer (Rows.lean): every operation reaches its new heap
through safe primitive actions only.  Core Lean only.
-/
import PV.C03.Plans
import PV.C03.Rows
set_option linter.unusedSimpArgs false
namespace PV.C03



/-- `h'` is reached from `h` by safe primitives. -/
def Reach (h h' : Heap) : Prop := ∃ ps : List Prim, (∀ p ∈ ps, p.isRaw = false) ∧ h' = h.applyPrims ps

theorem Reach.refl (h : Heap) : Reach h h := ⟨[], by simp, rfl⟩

theorem Reach.trans {h1 h2 h3 : Heap} (a : Reach h1 h2) (b : Reach h2 h3) : Reach h1 h3 := by
  obtain ⟨p1, s1, e1⟩ := a
  obtain ⟨p2, s2, e2⟩ := b
  refine ⟨p1 ++ p2, ?_, ?_⟩
  · intro p hp
    rcases List.mem_append.mp hp with hp | hp
    · exact s1 p hp
    · exact s2 p hp
  · rw [e2, e1]; simp [Heap.applyPrims, List.foldl_append]

theorem reach_stepB (h : Heap) (op : BOp) : Reach h (stepB h op) :=
  ⟨planB h op, fun p hp => (planB_ok h op p hp).1, rfl⟩

theorem reach_prims (h : Heap) (ps : List Prim) (hs : ∀ p ∈ ps, p.isRaw = false) : Reach h (h.applyPrims ps) :=
  ⟨ps, hs, rfl⟩

theorem Reach.inv {h h' : Heap} (r : Reach h h') (hi : Inv h) : Inv h' := by
  obtain ⟨ps, s, e⟩ := r
  rw [e]; exact inv_applyPrims ps h hi s

theorem reach_runB (w : World) (op : BOp) : Reach w.h (w.runB op).h := reach_stepB w.h op

theorem reach_newRowSegs (ss cols : List Nat) : ∀ w : World, Reach w.h (w.newRowSegs ss cols).1.h := by
  induction ss with
  | nil => intro w; exact Reach.refl _
  | cons s rest ih =>
    intro w
    simp only [World.newRowSegs]
    exact Reach.trans (reach_runB w _) (ih _)

theorem reach_segSet (w : World) (seg : Seg) (col : Nat) : Reach w.h (w.segSet seg col).1.h := by
  unfold World.segSet
  split
  · exact reach_runB w _
  · exact Reach.trans (reach_runB w _) (reach_runB _ _)

theorem reach_rowSet (w : World) (segs : List Seg) (col : Nat) : Reach w.h (w.rowSet segs col).1.h := by
  unfold World.rowSet
  simp only
  split
  · exact reach_segSet w _ col
  · exact Reach.trans (reach_runB w _) (reach_segSet _ _ col)

theorem reach_segShared (w : World) (s : Seg) : Reach w.h (w.segShared s).1.h := reach_runB w _

theorem reach_segBin (w : World) (op : BinOp) (a b : Seg) : Reach w.h (w.segBin op a b).1.h := by
  unfold World.segBin
  simp only
  refine Reach.trans (reach_runB w _) (reach_prims _ _ ?_)
  intro p hp
  simp only [List.mem_map] at hp
  obtain ⟨kc, _, e⟩ := hp
  subst e; rfl

theorem reach_takeShared (w : World) (keep : Bool) (s : Seg) : Reach w.h (w.takeShared keep s).1.h := by
  unfold World.takeShared
  split
  · exact reach_segShared w s
  · exact Reach.refl _

theorem reach_rowBin (op : BinOp) (fuel : Nat) : ∀ (w : World) la lb, Reach w.h (w.rowBin op fuel la lb).1.h := by
  induction fuel with
  | zero => intro w la lb; simp only [World.rowBin]; exact Reach.refl _
  | succ n ih =>
    intro w la lb
    cases la with
    | nil =>
      cases lb with
      | nil => simp only [World.rowBin]; exact Reach.refl _
      | cons b rb =>
        simp only [World.rowBin]
        exact Reach.trans (reach_takeShared w _ b) (ih _ _ _)
    | cons a ra =>
      cases lb with
      | nil =>
        simp only [World.rowBin]
        exact Reach.trans (reach_takeShared w _ a) (ih _ _ _)
      | cons b rb =>
        simp only [World.rowBin]
        split
        · exact Reach.trans (reach_takeShared w _ a) (ih _ _ _)
        · split
          · exact Reach.trans (reach_takeShared w _ b) (ih _ _ _)
          · exact Reach.trans (reach_segBin w op a b) (ih _ _ _)

theorem reach_segSet_fold (vs : List Nat) : ∀ (acc : World × Seg),
    Reach acc.1.h (vs.foldl (fun (acc : World × Seg) v => acc.1.segSet acc.2 v) acc).1.h := by
  induction vs with
  | nil => intro acc; exact Reach.refl _
  | cons v rest ih =>
    intro acc
    simp only [List.foldl_cons]
    exact Reach.trans (reach_segSet acc.1 acc.2 v) (ih _)

theorem reach_rowMerge (fuel : Nat) : ∀ (w : World) lx ly, Reach w.h (w.rowMerge fuel lx ly).1.h := by
  induction fuel with
  | zero => intro w lx ly; simp only [World.rowMerge]; exact Reach.refl _
  | succ n ih =>
    intro w lx ly
    cases ly with
    | nil => simp only [World.rowMerge]; exact Reach.refl _
    | cons y ry =>
      cases lx with
      | nil =>
        simp only [World.rowMerge]
        exact Reach.trans (reach_segShared w y) (ih _ _ _)
      | cons x rx =>
        simp only [World.rowMerge]
        split
        · exact ih _ _ _
        · split
          · exact Reach.trans (reach_segShared w y) (ih _ _ _)
          · exact Reach.trans (reach_segSet_fold _ (w, x)) (ih _ _ _)

theorem reach_snapshot (w : World) (f : Frag) : Reach w.h (w.snapshot f).h := by
  unfold World.snapshot
  simp only
  refine Reach.trans (reach_prims _ _ ?_) (reach_prims _ _ ?_)
  · intro p hp
    simp only [List.mem_map] at hp
    obtain ⟨kc, _, e⟩ := hp
    subst e; rfl
  · intro p hp
    simp only [List.mem_singleton] at hp
    subst hp; rfl


theorem reach_delRow (w : World) (st r : Nat) : Reach w.h (w.delRow st r).h := by
  refine reach_prims _ _ ?_
  intro p hp
  simp only [List.mem_map] at hp
  obtain ⟨i, _, e⟩ := hp
  subst e; rfl

theorem reach_putRow (w : World) (f : Frag) (r : Nat) (segs : List Seg) : Reach w.h (w.putRow f r segs).h := by
  refine reach_prims _ _ ?_
  intro p hp
  unfold putRowPlan at hp
  split at hp
  · cases hp
  · simp only [List.mem_map] at hp
    obtain ⟨kc, _, e⟩ := hp
    subst e; rfl

theorem reach_doSetRow (w : World) (f : Frag) (r : Nat) (segs : List Seg) : Reach w.h (w.doSetRow f r segs).h := by
  unfold World.doSetRow
  exact Reach.trans (Reach.trans (reach_delRow w f.storage r) (reach_putRow (w.delRow f.storage r) f r segs))
    (reach_snapshot ((w.delRow f.storage r).putRow f r segs) { f with cache := cacheDel f.cache r })

theorem reach_doClearRow (w : World) (f : Frag) (r : Nat) : Reach w.h (w.doClearRow f r).h := by
  unfold World.doClearRow
  exact Reach.trans (reach_delRow w f.storage r)
    (reach_snapshot (w.delRow f.storage r) { f with cache := cacheDel f.cache r })

/-- Every operation of the row / fragment layer changes the heap through safe primitives only. -/
theorem reach_step (w w' : World) (op : Op) (hs : w.step op = some w') : Reach w.h w'.h := by
  cases op with
  | bnew vals => simp only [World.step] at hs; cases hs; exact reach_runB w _
  | badd b v =>
    simp only [World.step, Option.map_eq_some_iff] at hs
    obtain ⟨i, _, e⟩ := hs; subst e; exact reach_runB w _
  | bremove b v =>
    simp only [World.step, Option.map_eq_some_iff] at hs
    obtain ⟨i, _, e⟩ := hs; subst e; exact reach_runB w _
  | bclone s =>
    simp only [World.step, Option.map_eq_some_iff] at hs
    obtain ⟨i, _, e⟩ := hs; subst e; exact reach_runB w _
  | bfreeze s =>
    simp only [World.step, Option.map_eq_some_iff] at hs
    obtain ⟨i, _, e⟩ := hs; subst e; exact reach_runB w _
  | bbin o a b =>
    simp only [World.step] at hs
    split at hs
    · cases hs; exact reach_runB w _
    · cases hs
  | boffset s off start end_ =>
    simp only [World.step, Option.map_eq_some_iff] at hs
    obtain ⟨i, _, e⟩ := hs; subst e; exact reach_runB w _
  | bmap s =>
    simp only [World.step, Option.map_eq_some_iff] at hs
    obtain ⟨i, _, e⟩ := hs; subst e; exact reach_runB w _
  | bremap b =>
    simp only [World.step] at hs
    split at hs
    · simp only [Option.map_eq_some_iff] at hs
      obtain ⟨i, _, e⟩ := hs; subst e; exact reach_runB w _
    · cases hs
  | bunmap b =>
    simp only [World.step] at hs
    split at hs
    · simp only [Option.map_eq_some_iff] at hs
      obtain ⟨i, _, e⟩ := hs; subst e; exact reach_runB w _
    · cases hs
  | boptimize b =>
    simp only [World.step, Option.map_eq_some_iff] at hs
    obtain ⟨i, _, e⟩ := hs; subst e
    refine reach_prims _ _ ?_
    intro p hp
    simp only [List.mem_map] at hp
    obtain ⟨kc, _, e⟩ := hp
    subst e; rfl
  | rnew cols =>
    simp only [World.step] at hs; cases hs
    exact reach_newRowSegs _ _ w
  | rset x col =>
    simp only [World.step, Option.map_eq_some_iff] at hs
    obtain ⟨segs, _, e⟩ := hs; subst e
    exact reach_rowSet w segs col
  | rbin o a b =>
    simp only [World.step] at hs
    split at hs
    · cases hs; exact reach_rowBin o _ w _ _
    · cases hs
  | rmerge x y =>
    simp only [World.step] at hs
    split at hs
    · cases hs; exact reach_rowMerge _ w _ _
    · cases hs
  | fopen shard =>
    simp only [World.step] at hs
    split at hs
    · cases hs
    · cases hs; exact reach_runB w _
  | fset r c =>
    simp only [World.step] at hs
    split at hs
    · split at hs
      · cases hs; exact reach_runB w _
      · cases hs
    · cases hs
  | fclear r c =>
    simp only [World.step] at hs
    split at hs
    · split at hs
      · cases hs; exact reach_runB w _
      · cases hs
    · cases hs
  | frow r =>
    simp only [World.step] at hs
    split at hs
    · split at hs
      · split at hs
        · cases hs; exact Reach.refl _
        · cases hs; exact reach_runB w _
      · cases hs
    · cases hs
  | fsetrow r y =>
    simp only [World.step] at hs
    split at hs
    · split at hs
      · cases hs
        exact reach_doSetRow w _ _ _
      · cases hs
    · cases hs
  | fclearrow r =>
    simp only [World.step] at hs
    split at hs
    · split at hs
      · cases hs
        exact reach_doClearRow w _ _
      · cases hs
    · cases hs
  | fimport clear vals =>
    simp only [World.step] at hs
    split at hs
    · split at hs
      · cases hs
        refine reach_prims _ _ ?_
        intro p hp
        unfold importPlan at hp
        simp only [List.mem_filterMap] at hp
        obtain ⟨kv, _, e⟩ := hp
        simp only [importOne, Option.map_eq_some_iff] at e
        obtain ⟨v, _, e⟩ := e
        subst e; rfl
      · cases hs
    · cases hs
  | fsnap =>
    simp only [World.step] at hs
    split at hs
    · split at hs
      · cases hs; exact reach_snapshot w _
      · cases hs
    · cases hs
  | fclose =>
    simp only [World.step] at hs
    split at hs
    · split at hs
      · cases hs; exact reach_runB w _
      · cases hs
    · cases hs
  | freopen =>
    simp only [World.step] at hs
    split at hs
    · split at hs
      · cases hs
      · cases hs
        exact reach_prims _ _ (by intro p hp; simp only [List.mem_singleton] at hp; subst hp; rfl)
    · cases hs


end PV.C03
