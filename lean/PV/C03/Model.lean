/-
C03 model: the copy-on-write heap behind roaring bitmaps, pilosa rows and fragment storage.
Core Lean only.

What is modelled (file / function in /repo):
  roaring/container_stash.go   Container.Freeze / Thaw / unmapOrClone / Clone, flags frozen / mapped
  roaring/roaring.go           Bitmap.Clone / Freeze / Add / Remove, Union / Intersect / Difference / Xor
                               (Freeze() of containers present on one side only), OffsetRange,
                               RemapRoaringStorage (halfCopy of frozen containers), UnmarshalBinary (mapped)
  roaring/containers_slice.go  Containers.Freeze (freezes in place, shares), Clone
  row.go                       rowSegment.{Union,Intersect,Difference,Xor} (+ data.Freeze()), shared(),
                               ensureWritable, Row.SetBit/ClearBit/Merge/Union/...
  fragment.go                  rowFromStorage (OffsetRange) + rowCache + unprotectedRow (hands out a
                               non-writable copy), unprotectedSetRow (Put(c.Freeze())), setBit/clearBit,
                               snapshot (write + RemapRoaringStorage(new) + munmap(old)), Close (munmap),
                               Open (mmap + unmarshal)

A container is {store id, frozen, mapped}; a store is {set of low values, heap | mmap region};
regions are live or unmapped.  Bitmaps are association lists key -> container id (containers are
heap objects, so aliasing is visible).  Every model step is a list of primitive heap actions
(`Prim`) computed from the current heap (`plan`) and then applied one by one; the invariant and
frame theorems of Props.lean are proved once per primitive.

Abstractions (stated, not hidden):
  * container encodings (array/bitmap/run), the inline stash and the exact moment `mapped` is
    cleared for stash-sized containers are not modelled: a decoded container is always `mapped`,
    an unfrozen `Freeze()`/`Thaw()` of a mapped container always moves it to a new heap store;
  * no container ever holds all 65536 values (the `fullContainer` short cuts are not modelled);
  * a value set is a duplicate-free ascending `List Nat`.
-/
namespace PV.C03

inductive Kind where
  | heap
  | mmap (r : Nat)
deriving DecidableEq, Repr, Inhabited

structure Cont where
  store : Nat
  frozen : Bool
  mapped : Bool
deriving DecidableEq, Repr, Inhabited

structure Store where
  vals : List Nat
  kind : Kind
deriving DecidableEq, Repr, Inhabited

def upd {α : Type} (f : Nat → α) (i : Nat) (v : α) : Nat → α :=
  fun j => if j = i then v else f j

/-- key ↦ container id, kept ascending by key. -/
abbrev AList := List (Nat × Nat)

def aget : AList → Nat → Option Nat
  | [], _ => none
  | (k', c) :: rest, k => if k' = k then some c else aget rest k

def adel (l : AList) (k : Nat) : AList := l.filter (fun kc => kc.1 != k)

def ains : AList → Nat → Nat → AList
  | [], k, c => [(k, c)]
  | (k', c') :: rest, k, c => if k < k' then (k, c) :: (k', c') :: rest else (k', c') :: ains rest k c

def aput (l : AList) (k c : Nat) : AList := ains (adel l k) k c

structure Heap where
  conts : Nat → Cont
  nC : Nat
  stores : Nat → Store
  nS : Nat
  bms : Nat → AList
  nB : Nat
  live : Nat → Bool
  owner : Nat → Nat
  nR : Nat

def Heap.empty : Heap :=
  { conts := fun _ => default, nC := 0, stores := fun _ => default, nS := 0,
    bms := fun _ => [], nB := 0, live := fun _ => false, owner := fun _ => 0, nR := 0 }

instance : Inhabited Heap := ⟨Heap.empty⟩

def Heap.vals (h : Heap) (c : Nat) : List Nat := (h.stores (h.conts c).store).vals
def Heap.kindOf (h : Heap) (c : Nat) : Kind := (h.stores (h.conts c).store).kind

/-- A container whose store lies in an unmapped region can not be read (SIGSEGV in Go). -/
def Heap.readable (h : Heap) (c : Nat) : Bool :=
  match h.kindOf c with
  | .heap => true
  | .mmap r => h.live r

/-- The value of a bitmap: key ↦ set of low values. -/
def Heap.abs (h : Heap) (b : Nat) : List (Nat × List Nat) :=
  (h.bms b).map (fun kc => (kc.1, h.vals kc.2))

/-! ### container level (container_stash.go) -/

/-- `NewContainer…` / `Clone`: a new container object with its own heap store. -/
def Heap.allocCont (h : Heap) (vals : List Nat) : Heap × Nat :=
  ({ h with stores := upd h.stores h.nS ⟨vals, .heap⟩, nS := h.nS + 1,
            conts := upd h.conts h.nC ⟨h.nS, false, false⟩, nC := h.nC + 1 }, h.nC)

/-- `unmapOrClone` on an unfrozen container: same object, data copied to a new heap store,
`mapped` cleared. -/
def Heap.unmapInPlace (h : Heap) (c : Nat) : Heap :=
  { h with stores := upd h.stores h.nS ⟨h.vals c, .heap⟩, nS := h.nS + 1,
           conts := upd h.conts c ⟨h.nS, (h.conts c).frozen, false⟩ }

/-- `Container.Freeze`: frozen → itself; otherwise `unmapOrClone` in place, then set frozen. -/
def Heap.freezeC (h : Heap) (c : Nat) : Heap :=
  if (h.conts c).frozen then h
  else
    { h with stores := upd h.stores h.nS ⟨h.vals c, .heap⟩, nS := h.nS + 1,
             conts := upd h.conts c ⟨h.nS, true, false⟩ }

/-- `Container.Thaw` for the container `c` stored at key `k` of bitmap `b`, followed by the
`Put` the callers do when the result is a different object.  Returns the writable container. -/
def Heap.thawAt (h : Heap) (b k c : Nat) : Heap × Nat :=
  if (h.conts c).frozen then
    let r := h.allocCont (h.vals c)
    ({ r.1 with bms := upd r.1.bms b (aput (r.1.bms b) k r.2) }, r.2)
  else if (h.conts c).mapped then (h.unmapInPlace c, c)
  else (h, c)

/-! ### primitive heap actions -/

inductive Prim where
  /-- a new, empty bitmap; its id is `nB` -/
  | newBm
  /-- `Put(k, <new container holding vals>)` -/
  | fresh (b k : Nat) (vals : List Nat)
  /-- `Put(k, c.Freeze())` -/
  | share (b k c : Nat)
  /-- `Put(k, c)` without freezing: what `unprotectedSetRow` did before the fix (witness only) -/
  | shareRaw (b k c : Nat)
  /-- a kernel that changes the set at key `k` of `b` to `vals`: get-or-create, `Thaw`, write -/
  | write (b k : Nat) (vals : List Nat)
  /-- `Containers.Remove(k)` -/
  | del (b k : Nat)
  /-- `c.Freeze()` whose result is discarded (`Containers.Freeze()`, `data.Freeze()`): in place -/
  | freezeAt (c : Nat)
  /-- mmap a file image holding `kvs` and decode it into `b` (replaces its containers);
      the region id is `nR` -/
  | load (b : Nat) (kvs : List (Nat × List Nat))
  /-- write `b` to a new file, mmap it (region `nR`), `RemapRoaringStorage(new)`, munmap every
      other region of `b` -/
  | remapNew (b : Nat)
  /-- `RemapRoaringStorage(nil)`, then munmap every region of `b` -/
  | unmapAll (b : Nat)
  /-- the bitmap goes out of use (fragment Close): its regions are unmapped, nothing reaches
      its containers through it any more -/
  | drop (b : Nat)
deriving Repr, Inhabited

/-- One key of `RemapRoaringStorage(data)` (`UpdateEvery`), the file container matching. -/
def Heap.remapKey (h : Heap) (b g k : Nat) : Heap :=
  match aget (h.bms b) k with
  | none => h
  | some c =>
    if (h.conts c).frozen then
      -- halfCopy: a new unfrozen object pointing into the file; the frozen one stays as it is
      { h with stores := upd h.stores h.nS ⟨h.vals c, .mmap g⟩, nS := h.nS + 1,
               conts := upd h.conts h.nC ⟨h.nS, false, true⟩, nC := h.nC + 1,
               bms := upd h.bms b (aput (h.bms b) k h.nC) }
    else
      { h with stores := upd h.stores h.nS ⟨h.vals c, .mmap g⟩, nS := h.nS + 1,
               conts := upd h.conts c ⟨h.nS, false, true⟩ }

/-- One key of `RemapRoaringStorage(nil)`: a mapped container is forcibly unmapped. -/
def Heap.unmapKey (h : Heap) (b k : Nat) : Heap :=
  match aget (h.bms b) k with
  | none => h
  | some c => if (h.conts c).mapped && !(h.conts c).frozen then h.unmapInPlace c else h

/-- munmap every region owned by `b` except `keep`. -/
def Heap.killOwned (h : Heap) (b : Nat) (keep : Option Nat) : Heap :=
  { h with live := fun r => if h.owner r = b ∧ some r ≠ keep then false else h.live r }

def Heap.loadOne (h : Heap) (b g : Nat) (kv : Nat × List Nat) : Heap :=
  { h with stores := upd h.stores h.nS ⟨kv.2, .mmap g⟩, nS := h.nS + 1,
           conts := upd h.conts h.nC ⟨h.nS, false, true⟩, nC := h.nC + 1,
           bms := upd h.bms b (aput (h.bms b) kv.1 h.nC) }

def Heap.applyPrim (h : Heap) : Prim → Heap
  | .newBm => { h with bms := upd h.bms h.nB [], nB := h.nB + 1 }
  | .fresh b k vals =>
      let r := h.allocCont vals
      { r.1 with bms := upd r.1.bms b (aput (r.1.bms b) k r.2) }
  | .share b k c =>
      if c < h.nC then
        let h1 := h.freezeC c
        { h1 with bms := upd h1.bms b (aput (h1.bms b) k c) }
      else h
  | .shareRaw b k c => { h with bms := upd h.bms b (aput (h.bms b) k c) }
  | .write b k vals =>
      match aget (h.bms b) k with
      | none =>
          let r := h.allocCont vals
          { r.1 with bms := upd r.1.bms b (aput (r.1.bms b) k r.2) }
      | some c =>
          if h.vals c = vals then h
          else
            let r := h.thawAt b k c
            { r.1 with stores := upd r.1.stores (r.1.conts r.2).store ⟨vals, .heap⟩ }
  | .del b k => { h with bms := upd h.bms b (adel (h.bms b) k) }
  | .freezeAt c => if c < h.nC then h.freezeC c else h
  | .load b kvs =>
      let g := h.nR
      let h0 : Heap := { h with live := upd h.live g true, owner := upd h.owner g b, nR := h.nR + 1,
                                bms := upd h.bms b [] }
      let h1 := kvs.foldl (fun h kv => h.loadOne b g kv) h0
      h1.killOwned b (some g)
  | .remapNew b =>
      let g := h.nR
      let h0 : Heap := { h with live := upd h.live g true, owner := upd h.owner g b, nR := h.nR + 1 }
      let h1 := ((h0.bms b).map (·.1)).foldl (fun h k => h.remapKey b g k) h0
      h1.killOwned b (some g)
  | .unmapAll b =>
      let h1 := ((h.bms b).map (·.1)).foldl (fun h k => h.unmapKey b k) h
      h1.killOwned b none
  | .drop b =>
      let h1 : Heap := { h with bms := upd h.bms b [] }
      h1.killOwned b none

def Heap.applyPrims (h : Heap) (ps : List Prim) : Heap := ps.foldl Heap.applyPrim h

/-- The bitmap whose value a primitive may change (none: it changes no value at all). -/
def Prim.target : Prim → Option Nat
  | .newBm => none
  | .fresh b _ _ => some b
  | .share b _ _ => some b
  | .shareRaw b _ _ => some b
  | .write b _ _ => some b
  | .del b _ => some b
  | .freezeAt _ => none
  | .load b _ => some b
  | .remapNew _ => none
  | .unmapAll _ => none
  | .drop b => some b

/-! ### value sets -/

def vinsert (x : Nat) : List Nat → List Nat
  | [] => [x]
  | y :: ys => if x < y then x :: y :: ys else if x = y then y :: ys else y :: vinsert x ys

def verase (x : Nat) (l : List Nat) : List Nat := l.filter (· != x)
def vunion (a b : List Nat) : List Nat := b.foldl (fun acc x => vinsert x acc) a
def vinter (a b : List Nat) : List Nat := a.filter (fun x => b.contains x)
def vdiff (a b : List Nat) : List Nat := a.filter (fun x => !b.contains x)
def vxor (a b : List Nat) : List Nat := vunion (vdiff a b) (vdiff b a)
def vofList (l : List Nat) : List Nat := l.foldl (fun acc x => vinsert x acc) []

/-! ### roaring.Bitmap operations as plans (roaring.go) -/

def hi (v : Nat) : Nat := v / 65536
def lo (v : Nat) : Nat := v % 65536

inductive BinOp where
  | union | intersect | difference | xor
deriving DecidableEq, Repr

/-- Container kernels `union/intersect/difference/xor(a, b)` for a key present on both sides:
either a new container or (the short cuts on empty operands) a frozen operand, or nothing. -/
def binBoth (h : Heap) (op : BinOp) (d k ca cb : Nat) : List Prim :=
  let va := h.vals ca
  let vb := h.vals cb
  match op with
  | .union => [.fresh d k (vunion va vb)]
  | .intersect => if va = [] ∨ vb = [] then [] else [.fresh d k (vinter va vb)]
  | .difference =>
      if va = [] then [] else if vb = [] then [.share d k ca] else [.fresh d k (vdiff va vb)]
  | .xor =>
      if va = [] then [.share d k cb] else if vb = [] then [.share d k ca]
      else [.fresh d k (vxor va vb)]

def binLeft (op : BinOp) (d k ca : Nat) : List Prim :=
  match op with
  | .union | .difference | .xor => [.share d k ca]
  | .intersect => []

def binRight (op : BinOp) (d k cb : Nat) : List Prim :=
  match op with
  | .union | .xor => [.share d k cb]
  | .intersect | .difference => []

/-- The merge loop of `Union` (single other) / `Intersect` / `Difference` / `Xor`. -/
def binPlan (h : Heap) (op : BinOp) (d : Nat) : Nat → AList → AList → List Prim
  | 0, _, _ => []
  | _, [], [] => []
  | fuel + 1, (ka, ca) :: ra, [] => binLeft op d ka ca ++ binPlan h op d fuel ra []
  | fuel + 1, [], (kb, cb) :: rb => binRight op d kb cb ++ binPlan h op d fuel [] rb
  | fuel + 1, (ka, ca) :: ra, (kb, cb) :: rb =>
      if ka < kb then binLeft op d ka ca ++ binPlan h op d fuel ra ((kb, cb) :: rb)
      else if kb < ka then binRight op d kb cb ++ binPlan h op d fuel ((ka, ca) :: ra) rb
      else binBoth h op d ka ca cb ++ binPlan h op d fuel ra rb

/-- Steps on bitmaps.  `d` of a deriving step is always the next bitmap id. -/
inductive BOp where
  | new (vals : List Nat)                 -- NewBitmap(vals...)
  | add (b v : Nat)
  | remove (b v : Nat)
  | clone (s : Nat)
  | freeze (s : Nat)
  | bin (op : BinOp) (a b : Nat)
  | offsetRange (s off start end_ : Nat)  -- container keys
  | mapFrom (s : Nat)                     -- serialise s, mmap the bytes, decode into a new bitmap
  | remap (b : Nat)                       -- snapshot-like: new file, remap, munmap old
  | unmap (b : Nat)                       -- RemapRoaringStorage(nil) + munmap
  | drop (b : Nat)
deriving Repr

/-- group values by container key: (key, set of low values), ascending -/
def groupVals (vals : List Nat) : List (Nat × List Nat) :=
  let keys := vofList (vals.map hi)
  keys.map (fun k => (k, vofList ((vals.filter (fun v => hi v = k)).map lo)))

def planB (h : Heap) : BOp → List Prim
  | .new vals => .newBm :: (groupVals vals).map (fun kv => .fresh h.nB kv.1 kv.2)
  | .add b v =>
      let cur := match aget (h.bms b) (hi v) with | some c => h.vals c | none => []
      if cur.contains (lo v) then [] else [.write b (hi v) (vinsert (lo v) cur)]
  | .remove b v =>
      match aget (h.bms b) (hi v) with
      | none => []
      | some c => if (h.vals c).contains (lo v) then [.write b (hi v) (verase (lo v) (h.vals c))] else []
  | .clone s => .newBm :: (h.bms s).map (fun kc => .fresh h.nB kc.1 (h.vals kc.2))
  | .freeze s => .newBm :: (h.bms s).map (fun kc => .share h.nB kc.1 kc.2)
  | .bin op a b =>
      .newBm :: binPlan h op h.nB ((h.bms a).length + (h.bms b).length + 1) (h.bms a) (h.bms b)
  | .offsetRange s off start end_ =>
      .newBm :: ((h.bms s).filter (fun kc => start ≤ kc.1 && kc.1 < end_)).map
        (fun kc => .share h.nB (off + (kc.1 - start)) kc.2)
  | .mapFrom s => [.newBm, .load h.nB (h.abs s)]
  | .remap b => [.remapNew b]
  | .unmap b => [.unmapAll b]
  | .drop b => [.drop b]

/-- The bitmaps whose value a step may change (a deriving step only defines the new bitmap). -/
def BOp.targets (h : Heap) : BOp → List Nat
  | .new _ | .clone _ | .freeze _ | .bin _ _ _ | .offsetRange _ _ _ _ | .mapFrom _ => [h.nB]
  | .add b _ | .remove b _ => [b]
  | .remap _ | .unmap _ => []
  | .drop b => [b]

def stepB (h : Heap) (op : BOp) : Heap := h.applyPrims (planB h op)

/-- Containers a step reads (a read of an unmapped region is the model's `panic useAfterUnmap`). -/
def BOp.reads (h : Heap) : BOp → List Nat
  | .new _ => []
  | .add b v | .remove b v => (match aget (h.bms b) (hi v) with | some c => [c] | none => [])
  | .clone s | .freeze s | .offsetRange s _ _ _ | .mapFrom s | .remap s | .unmap s => (h.bms s).map (·.2)
  | .bin _ a b => (h.bms a).map (·.2) ++ (h.bms b).map (·.2)
  | .drop _ => []

/-! ### runtime check of the invariant (printed by the driver as `iso=ok|bad`) -/

def Heap.allRefs (h : Heap) : List (Nat × Nat × Nat) :=
  (List.range h.nB).flatMap (fun b => (h.bms b).map (fun kc => (b, kc.1, kc.2)))

/-- (i) a container referenced twice is frozen; (iii) every referenced container is readable and a
mapped one belongs to a region owned by the referencing bitmap; frozen containers live on the heap. -/
def Heap.isoCheck (h : Heap) : Bool :=
  let refs := h.allRefs
  refs.all (fun r =>
    h.readable r.2.2 &&
    (match h.kindOf r.2.2 with | .heap => true | .mmap g => h.owner g == r.1) &&
    (!(h.conts r.2.2).frozen || h.kindOf r.2.2 == .heap) &&
    refs.all (fun r' => r' == r || r'.2.2 != r.2.2 || (h.conts r.2.2).frozen))

end PV.C03
