/-
C03 model, second layer: pilosa.Row (row.go), the fragment's storage / rowCache / snapshot / close
(fragment.go), and user-held roaring bitmaps, all on top of the heap of Model.lean.
Every heap change goes through `Heap.applyPrims (planB …)`; this file only adds the handle
structure (which segment of which row points at which bitmap, and whether it is writable).
-/
import PV.C03.Model
namespace PV.C03

/-- 16 containers per shard (ShardWidth = 2^20). -/
def perShard : Nat := 16
def shardWidth : Nat := 1048576

structure Seg where
  shard : Nat
  bm : Nat
  writable : Bool
deriving DecidableEq, Repr, Inhabited

structure Frag where
  isOpen : Bool
  storage : Nat
  shard : Nat
  cache : List (Nat × List Seg)
  image : List (Nat × List Nat)     -- what the file holds while the fragment is closed
deriving Repr, Inhabited

structure World where
  h : Heap := Heap.empty
  bs : List Nat := []               -- user-held roaring bitmaps: handle ↦ bitmap id
  files : List Nat := []            -- handles made by `bmap` (file bitmaps: remap/unmap apply to them only)
  rows : List (List Seg) := []      -- user-held rows: handle ↦ segments (ascending by shard)
  frag : Option Frag := none
  dead : Bool := false              -- a read hit an unmapped region: the process is gone
deriving Inhabited

inductive Op where
  -- roaring bitmaps
  | bnew (vals : List Nat)
  | badd (b v : Nat)
  | bremove (b v : Nat)
  | bclone (s : Nat)
  | bfreeze (s : Nat)
  | bbin (op : BinOp) (a b : Nat)
  | boffset (s off start end_ : Nat)      -- container keys
  | bmap (s : Nat)
  | bremap (b : Nat)
  | bunmap (b : Nat)
  | boptimize (b : Nat)                   -- Bitmap.Optimize(): re-encodes containers in place, drops empty ones
  -- rows
  | rnew (cols : List Nat)
  | rset (x col : Nat)
  | rbin (op : BinOp) (a b : Nat)
  | rmerge (x y : Nat)
  -- fragment
  | fopen (shard : Nat)
  | fset (r c : Nat)
  | fclear (r c : Nat)
  | frow (r : Nat)
  | fsetrow (r y : Nat)
  | fclearrow (r : Nat)
  | fimport (clear : Bool) (vals : List Nat)   -- importRoaring of the given fragment positions
  | fsnap
  | fclose
  | freopen
deriving Repr

def World.runB (w : World) (op : BOp) : World := { w with h := stepB w.h op }

/-- `abs` without empty containers (Optimize drops them; they hold no value). -/
def Heap.absNE (h : Heap) (b : Nat) : List (Nat × List Nat) := (h.abs b).filter (fun kv => kv.2 != [])

def Heap.valuesOf (h : Heap) (b : Nat) : List Nat :=
  (h.absNE b).flatMap (fun kv => kv.2.map (fun v => kv.1 * 65536 + v))

def segInsert (s : Seg) : List Seg → List Seg
  | [] => [s]
  | t :: ts => if s.shard < t.shard then s :: t :: ts
               else if s.shard = t.shard then s :: ts else t :: segInsert s ts

def segFind (l : List Seg) (shard : Nat) : Option Seg := l.find? (fun s => s.shard = shard)

/-- `NewRow(cols...)`: per shard a fresh slice bitmap holding the columns of that shard. -/
def World.newRowSegs (w : World) : List Nat → List Nat → World × List Seg
  | [], _ => (w, [])
  | s :: ss, cols =>
      let d := w.h.nB
      let w1 := w.runB (.new (cols.filter (fun c => c / shardWidth = s)))
      let r := w1.newRowSegs ss cols
      (r.1, ⟨s, d, true⟩ :: r.2)

/-- `rowSegment.ensureWritable` + `data.Add` for one column. -/
def World.segSet (w : World) (seg : Seg) (col : Nat) : World × Seg :=
  if seg.writable then (w.runB (.add seg.bm col), seg)
  else
    let d := w.h.nB
    let w1 := w.runB (.freeze seg.bm)
    (w1.runB (.add d col), ⟨seg.shard, d, true⟩)

def World.rowSet (w : World) (segs : List Seg) (col : Nat) : World × List Seg :=
  let shard := col / shardWidth
  match segFind segs shard with
  | some seg =>
      let r := w.segSet seg col
      (r.1, segInsert r.2 segs)
  | none =>
      let d := w.h.nB
      let w1 := w.runB (.new [])
      let r := w1.segSet ⟨shard, d, true⟩ col
      (r.1, segInsert r.2 segs)

/-- `rowSegment.shared()`: a bitmap of its own, containers frozen and shared. -/
def World.segShared (w : World) (s : Seg) : World × Seg :=
  let d := w.h.nB
  (w.runB (.freeze s.bm), ⟨s.shard, d, true⟩)

/-- `rowSegment.Union/Intersect/Difference/Xor`: the bitmap operation, then `data.Freeze()`
(result discarded: it freezes every container of the new bitmap in place). -/
def World.segBin (w : World) (op : BinOp) (a b : Seg) : World × Seg :=
  let d := w.h.nB
  let w1 := w.runB (.bin op a.bm b.bm)
  let w2 := { w1 with h := w1.h.applyPrims ((w1.h.bms d).map (fun kc => Prim.freezeAt kc.2)) }
  (w2, ⟨a.shard, d, true⟩)

/-- does the operation keep a shard that only the first / only the second row has? -/
def keepLeft : BinOp → Bool
  | .intersect => false
  | _ => true

def keepRight : BinOp → Bool
  | .union => true
  | .xor => true
  | _ => false

def World.takeShared (w : World) (keep : Bool) (s : Seg) : World × List Seg :=
  if keep then ((w.segShared s).1, [(w.segShared s).2]) else (w, [])

/-- `Row.Union/Intersect/Difference/Xor` (two rows): merge over shards. -/
def World.rowBin (w : World) (op : BinOp) : Nat → List Seg → List Seg → World × List Seg
  | 0, _, _ => (w, [])
  | _, [], [] => (w, [])
  | fuel + 1, a :: ra, [] =>
      let r := w.takeShared (keepLeft op) a
      let r2 := r.1.rowBin op fuel ra []
      (r2.1, r.2 ++ r2.2)
  | fuel + 1, [], b :: rb =>
      let r := w.takeShared (keepRight op) b
      let r2 := r.1.rowBin op fuel [] rb
      (r2.1, r.2 ++ r2.2)
  | fuel + 1, a :: ra, b :: rb =>
      if a.shard < b.shard then
        let r := w.takeShared (keepLeft op) a
        let r2 := r.1.rowBin op fuel ra (b :: rb)
        (r2.1, r.2 ++ r2.2)
      else if b.shard < a.shard then
        let r := w.takeShared (keepRight op) b
        let r2 := r.1.rowBin op fuel (a :: ra) rb
        (r2.1, r.2 ++ r2.2)
      else
        let r := w.segBin op a b
        let r2 := r.1.rowBin op fuel ra rb
        (r2.1, r.2 :: r2.2)

/-- `Row.Merge(other)`: other-only shards are taken over as `shared()`; common shards get every
column of the other segment set. -/
def World.rowMerge (w : World) : Nat → List Seg → List Seg → World × List Seg
  | 0, xs, _ => (w, xs)
  | _, xs, [] => (w, xs)
  | fuel + 1, [], y :: ry =>
      let r := w.segShared y
      let r2 := r.1.rowMerge fuel [] ry
      (r2.1, r.2 :: r2.2)
  | fuel + 1, x :: rx, y :: ry =>
      if x.shard < y.shard then
        let r2 := w.rowMerge fuel rx (y :: ry)
        (r2.1, x :: r2.2)
      else if y.shard < x.shard then
        let r := w.segShared y
        let r2 := r.1.rowMerge fuel (x :: rx) ry
        (r2.1, r.2 :: r2.2)
      else
        let r := (w.h.valuesOf y.bm).foldl (fun (acc : World × Seg) v => acc.1.segSet acc.2 v) (w, x)
        let r2 := r.1.rowMerge fuel rx ry
        (r2.1, r.2 :: r2.2)

def listSet {α : Type} (l : List α) (i : Nat) (v : α) : List α :=
  l.mapIdx (fun j x => if j = i then v else x)

def cacheDel (c : List (Nat × List Seg)) (r : Nat) : List (Nat × List Seg) := c.filter (fun e => e.1 != r)

/-- `snapshot`: Optimize drops empty containers, the bitmap is written to a new file, storage is
remapped to it and the old mapping is unmapped. -/
def World.snapshot (w : World) (f : Frag) : World :=
  let empties := (w.h.bms f.storage).filter (fun kc => w.h.vals kc.2 == [])
  let h1 := w.h.applyPrims (empties.map (fun kc => Prim.del f.storage kc.1))
  { w with h := h1.applyPrims [Prim.remapNew f.storage] }

/-- `unprotectedSetRow` / `unprotectedClearRow`: remove every container of row `r`. -/
def World.delRow (w : World) (st r : Nat) : World :=
  { w with h := w.h.applyPrims ((List.range perShard).map (fun i => Prim.del st (r * perShard + i))) }

/-- `unprotectedSetRow`: `Put(key, c.Freeze())` for every container of the source row's segment. -/
def putRowPlan (h : Heap) (f : Frag) (r : Nat) (segs : List Seg) : List Prim :=
  match segFind segs f.shard with
  | none => []
  | some seg => ((h.bms seg.bm).filter (fun kc => f.shard * perShard ≤ kc.1)).map
                  (fun kc => Prim.share f.storage (r * perShard + kc.1 % perShard) kc.2)

def World.putRow (w : World) (f : Frag) (r : Nat) (segs : List Seg) : World :=
  { w with h := w.h.applyPrims (putRowPlan w.h f r segs) }

def World.doSetRow (w : World) (f : Frag) (r : Nat) (segs : List Seg) : World :=
  let w1 := (w.delRow f.storage r).putRow f r segs
  let f1 := { f with cache := cacheDel f.cache r }
  { w1.snapshot f1 with frag := some f1 }

def World.doClearRow (w : World) (f : Frag) (r : Nat) : World :=
  let w1 := w.delRow f.storage r
  let f1 := { f with cache := cacheDel f.cache r }
  { w1.snapshot f1 with frag := some f1 }

/-- `fragment.importRoaring` / `Bitmap.ImportRoaringBits`: per container of the payload the stored
container is united with / reduced by it through the in-place kernels (`Thaw` first) or replaced by
a clone of the payload container; the rows whose bits changed leave the row cache. -/
def importOne (h : Heap) (st : Nat) (clear : Bool) (kv : Nat × List Nat) : Option Prim :=
  let cur := match aget (h.bms st) kv.1 with | some c => h.vals c | none => []
  let new := if clear then vdiff cur kv.2 else vunion cur kv.2
  (if new = cur then none else some new).map (fun v => Prim.write st kv.1 v)

def importPlan (h : Heap) (st : Nat) (clear : Bool) (vals : List Nat) : List Prim :=
  (groupVals vals).filterMap (importOne h st clear)

def World.doImport (w : World) (f : Frag) (clear : Bool) (vals : List Nat) : World :=
  let plan := importPlan w.h f.storage clear vals
  let rows := (plan.filterMap (fun p => match p with | .write _ k _ => some (k / perShard) | _ => none))
  { w with h := w.h.applyPrims plan,
           frag := some { f with cache := f.cache.filter (fun e => !rows.contains e.1) } }

/-- `Bitmap.Optimize`: every container is re-encoded (array / bitmap / run) where that is smaller —
in place when it is not frozen, as a new container otherwise; the set it holds does not change, so
in this model (a container is a set) only the dropping of empty containers is visible. -/
def World.optimize (w : World) (b : Nat) : World :=
  let empties := (w.h.bms b).filter (fun kc => w.h.vals kc.2 == [])
  { w with h := w.h.applyPrims (empties.map (fun kc => Prim.del b kc.1)) }

/-- Containers read by an operation: reading one whose region is unmapped kills the process. -/
def World.reads (w : World) : Op → List Nat
  | .bnew _ | .rnew _ | .fopen _ | .fclose | .freopen => []
  | .badd b v => (match w.bs[b]? with | some i => BOp.reads w.h (.add i v) | none => [])
  | .bremove b v => (match w.bs[b]? with | some i => BOp.reads w.h (.remove i v) | none => [])
  | .bclone s | .bfreeze s | .boffset s _ _ _ | .bmap s | .bremap s | .bunmap s | .boptimize s =>
      (match w.bs[s]? with | some i => (w.h.bms i).map (·.2) | none => [])
  | .bbin _ a b =>
      (match w.bs[a]?, w.bs[b]? with
       | some i, some j => (w.h.bms i).map (·.2) ++ (w.h.bms j).map (·.2)
       | _, _ => [])
  | .rset x _ => (match w.rows[x]? with | some segs => segs.flatMap (fun s => (w.h.bms s.bm).map (·.2)) | none => [])
  | .rbin _ a b | .rmerge a b =>
      (match w.rows[a]?, w.rows[b]? with
       | some sa, some sb => (sa ++ sb).flatMap (fun s => (w.h.bms s.bm).map (·.2))
       | _, _ => [])
  | .fset _ _ | .fclear _ _ | .frow _ | .fclearrow _ | .fsnap | .fimport _ _ =>
      (match w.frag with | some f => if f.isOpen then (w.h.bms f.storage).map (·.2) else [] | none => [])
  | .fsetrow _ y =>
      (match w.frag, w.rows[y]? with
       | some f, some segs => (if f.isOpen then (w.h.bms f.storage).map (·.2) else []) ++
                              segs.flatMap (fun s => (w.h.bms s.bm).map (·.2))
       | _, _ => [])

/-- The result of one step: the new world, or `none` when the operation refers to a handle that
does not exist / a fragment in the wrong state (`bad-ref` on both sides of the tie). -/
def World.step (w : World) (op : Op) : Option World :=
  match op with
  | .bnew vals => some { w.runB (.new vals) with bs := w.bs ++ [w.h.nB] }
  | .badd b v => (w.bs[b]?).map (fun i => w.runB (.add i v))
  | .bremove b v => (w.bs[b]?).map (fun i => w.runB (.remove i v))
  | .bclone s => (w.bs[s]?).map (fun i => { w.runB (.clone i) with bs := w.bs ++ [w.h.nB] })
  | .bfreeze s => (w.bs[s]?).map (fun i => { w.runB (.freeze i) with bs := w.bs ++ [w.h.nB] })
  | .bbin op a b =>
      match w.bs[a]?, w.bs[b]? with
      | some i, some j => some { w.runB (.bin op i j) with bs := w.bs ++ [w.h.nB] }
      | _, _ => none
  | .boffset s off start end_ =>
      (w.bs[s]?).map (fun i => { w.runB (.offsetRange i off start end_) with bs := w.bs ++ [w.h.nB] })
  | .bmap s => (w.bs[s]?).map (fun i => { w.runB (.mapFrom i) with bs := w.bs ++ [w.h.nB], files := w.bs.length :: w.files })
  | .bremap b => if w.files.contains b then (w.bs[b]?).map (fun i => w.runB (.remap i)) else none
  | .bunmap b => if w.files.contains b then (w.bs[b]?).map (fun i => w.runB (.unmap i)) else none
  | .boptimize b => (w.bs[b]?).map (fun i => w.optimize i)
  | .rnew cols =>
      let r := w.newRowSegs (vofList (cols.map (· / shardWidth))) cols
      some { r.1 with rows := r.1.rows ++ [r.2] }
  | .rset x col =>
      (w.rows[x]?).map (fun segs =>
        let r := w.rowSet segs col
        { r.1 with rows := listSet r.1.rows x r.2 })
  | .rbin op a b =>
      match w.rows[a]?, w.rows[b]? with
      | some sa, some sb =>
          let r := w.rowBin op (sa.length + sb.length + 1) sa sb
          some { r.1 with rows := r.1.rows ++ [r.2] }
      | _, _ => none
  | .rmerge x y =>
      match w.rows[x]?, w.rows[y]? with
      | some sx, some sy =>
          let r := w.rowMerge (sx.length + sy.length + 1) sx sy
          some { r.1 with rows := listSet r.1.rows x r.2 }
      | _, _ => none
  | .fopen shard =>
      match w.frag with
      | some _ => none
      | none => some { w.runB (.new []) with frag := some ⟨true, w.h.nB, shard, [], []⟩ }
  | .fset r c =>
      match w.frag with
      | some f =>
          if f.isOpen then
            let pos := r * shardWidth + c % shardWidth
            let changed := !(w.h.valuesOf f.storage).contains pos
            let w1 := w.runB (.add f.storage pos)
            some { w1 with frag := some { f with cache := if changed then cacheDel f.cache r else f.cache } }
          else none
      | none => none
  | .fclear r c =>
      match w.frag with
      | some f =>
          if f.isOpen then
            let pos := r * shardWidth + c % shardWidth
            let changed := (w.h.valuesOf f.storage).contains pos
            let w1 := w.runB (.remove f.storage pos)
            some { w1 with frag := some { f with cache := if changed then cacheDel f.cache r else f.cache } }
          else none
      | none => none
  | .frow r =>
      match w.frag with
      | some f =>
          if f.isOpen then
            match f.cache.find? (fun e => e.1 = r) with
            | some e => some { w with rows := w.rows ++ [e.2.map (fun s => { s with writable := false })] }
            | none =>
                let d := w.h.nB
                let w1 := w.runB (.offsetRange f.storage (f.shard * perShard) (r * perShard) ((r + 1) * perShard))
                let segs : List Seg := [⟨f.shard, d, true⟩]
                some { w1 with frag := some { f with cache := f.cache ++ [(r, segs)] },
                               rows := w1.rows ++ [segs.map (fun s => { s with writable := false })] }
          else none
      | none => none
  | .fsetrow r y =>
      match w.frag, w.rows[y]? with
      | some f, some segs =>
          if f.isOpen then
            some (w.doSetRow f r segs)
          else none
      | _, _ => none
  | .fclearrow r =>
      match w.frag with
      | some f =>
          if f.isOpen then
            some (w.doClearRow f r)
          else none
      | none => none
  | .fimport clear vals =>
      match w.frag with
      | some f => if f.isOpen then some (w.doImport f clear vals) else none
      | none => none
  | .fsnap =>
      match w.frag with
      | some f => if f.isOpen then some (w.snapshot f) else none
      | none => none
  | .fclose =>
      match w.frag with
      | some f =>
          if f.isOpen then
            let img := w.h.absNE f.storage
            some { w.runB (.drop f.storage) with frag := some { f with isOpen := false, cache := [], image := img } }
          else none
      | none => none
  | .freopen =>
      match w.frag with
      | some f =>
          if f.isOpen then none
          else some { w with h := w.h.applyPrims [Prim.load f.storage f.image],
                             frag := some { f with isOpen := true, cache := [] } }
      | none => none

/-- Columns of a row handle, ascending. -/
def World.rowCols (w : World) (segs : List Seg) : List Nat := segs.flatMap (fun s => w.h.valuesOf s.bm)

end PV.C03
