/-
C03: frame property — a primitive heap action changes the value of its target bitmap only.
Core Lean only.
-/
import PV.C03.PrimInv
set_option linter.unusedSimpArgs false
namespace PV.C03

/-- the bitmap a primitive may change, evaluated in the heap it is applied to -/
def Prim.targetIn (h : Heap) : Prim → Option Nat
  | .newBm => some h.nB
  | p => p.target

theorem absAt_congr (h h' : Heap) (b : Nat) (hb : h'.bms b = h.bms b)
    (hv : ∀ k c, aget (h.bms b) k = some c → h'.vals c = h.vals c) :
    ∀ k, h'.absAt b k = h.absAt b k := by
  intro k
  unfold Heap.absAt
  rw [hb]
  cases hr : aget (h.bms b) k with
  | none => rfl
  | some c => simp only [Option.map]; rw [hv k c hr]

theorem vals_newCont_old (h : Heap) (hi : Inv h) (b k : Nat) (v : List Nat) (kd : Kind) (fl : Bool) (c : Nat)
    (hc : c < h.nC) :
    ({ h with stores := upd h.stores h.nS ⟨v, kd⟩, nS := h.nS + 1,
              conts := upd h.conts h.nC ⟨h.nS, false, fl⟩, nC := h.nC + 1,
              bms := upd h.bms b (aput (h.bms b) k h.nC) } : Heap).vals c = h.vals c := by
  have hs := hi.storeLt c hc
  have e1 : ¬ c = h.nC := by omega
  have e2 : ¬ (h.conts c).store = h.nS := by omega
  simp [Heap.vals, upd, e1, e2]

theorem vals_moved (h : Heap) (hi : Inv h) (c : Nat) (kd : Kind) (fr : Bool) (c' : Nat) (hc' : c' < h.nC) :
    (h.moved c (h.vals c) kd fr).vals c' = h.vals c' := by
  by_cases e : c' = c
  · subst e; simp [Heap.moved, Heap.vals, upd]
  · have hs := hi.storeLt c' hc'
    have e2 : ¬ (h.conts c').store = h.nS := by omega
    simp [Heap.moved, Heap.vals, upd, e, e2]

theorem absAt_moved (h : Heap) (hi : Inv h) (c : Nat) (kd : Kind) (fr : Bool) (b k : Nat) :
    (h.moved c (h.vals c) kd fr).absAt b k = h.absAt b k :=
  absAt_congr h (h.moved c (h.vals c) kd fr) b rfl
    (fun k' c' hr => vals_moved h hi c kd fr c' (hi.contLt b k' c' hr)) k

theorem absAt_freezeC (h : Heap) (hi : Inv h) (c b k : Nat) : (h.freezeC c).absAt b k = h.absAt b k := by
  rw [freezeC_eq]; split
  · rfl
  · exact absAt_moved h hi c _ _ b k

theorem absAt_unmapInPlace (h : Heap) (hi : Inv h) (c b k : Nat) :
    (h.unmapInPlace c).absAt b k = h.absAt b k := by
  rw [unmapInPlace_eq]; exact absAt_moved h hi c _ _ b k

/-- changing the table at `b` only -/
theorem absAt_bms_other (h : Heap) (b : Nat) (l : AList) (nB' : Nat) (b' : Nat) (e : b' ≠ b) (k : Nat) :
    ({ h with bms := upd h.bms b l, nB := nB' } : Heap).absAt b' k = h.absAt b' k :=
  absAt_congr h ({ h with bms := upd h.bms b l, nB := nB' } : Heap) b' (by simp [upd, e])
    (fun _ _ _ => rfl) k

theorem absAt_newCont_other (h : Heap) (hi : Inv h) (b k : Nat) (v : List Nat) (kd : Kind) (fl : Bool)
    (b' : Nat) (e : b' ≠ b) (k' : Nat) :
    ({ h with stores := upd h.stores h.nS ⟨v, kd⟩, nS := h.nS + 1,
              conts := upd h.conts h.nC ⟨h.nS, false, fl⟩, nC := h.nC + 1,
              bms := upd h.bms b (aput (h.bms b) k h.nC) } : Heap).absAt b' k' = h.absAt b' k' := by
  refine absAt_congr h _ b' (by simp [upd, e]) ?_ k'
  intro k'' c hr
  exact vals_newCont_old h hi b k v kd fl c (hi.contLt b' k'' c hr)

/-- replacing the frozen container at (b,k) by a mapped copy keeps the value everywhere -/
theorem absAt_halfCopy (h : Heap) (hi : Inv h) (b k c : Nat) (kd : Kind) (fl : Bool)
    (hr : aget (h.bms b) k = some c) (b' k' : Nat) :
    ({ h with stores := upd h.stores h.nS ⟨h.vals c, kd⟩, nS := h.nS + 1,
              conts := upd h.conts h.nC ⟨h.nS, false, fl⟩, nC := h.nC + 1,
              bms := upd h.bms b (aput (h.bms b) k h.nC) } : Heap).absAt b' k' = h.absAt b' k' := by
  by_cases e : b' = b
  · subst e
    unfold Heap.absAt
    simp only [upd, if_true]
    rw [aget_aput]
    split
    · rename_i e2; subst e2
      rw [hr]
      simp [Heap.vals, upd]
    · cases hr' : aget (h.bms b') k' with
      | none => rfl
      | some c' =>
        simp only [Option.map]
        have := vals_newCont_old h hi b' k (h.vals c) kd fl c' (hi.contLt b' k' c' hr')
        simp only [Heap.vals] at this ⊢
        rw [this]
  · exact absAt_newCont_other h hi b k _ kd fl b' e k'

theorem absAt_setVals_other (h : Heap) (s : Nat) (v : List Nat) (b' : Nat)
    (H : ∀ k c, aget (h.bms b') k = some c → (h.conts c).store ≠ s) (k : Nat) :
    ({ h with stores := upd h.stores s ⟨v, .heap⟩ } : Heap).absAt b' k = h.absAt b' k := by
  refine absAt_congr h ({ h with stores := upd h.stores s ⟨v, .heap⟩ } : Heap) b' rfl ?_ k
  intro k' c hr
  have := H k' c hr
  simp [Heap.vals, upd, this]

theorem absAt_live (h : Heap) (lv : Nat → Bool) (ow : Nat → Nat) (nR' : Nat) (b k : Nat) :
    ({ h with live := lv, owner := ow, nR := nR' } : Heap).absAt b k = h.absAt b k := rfl

theorem absAt_killOwned (h : Heap) (b : Nat) (keep : Option Nat) (b' k : Nat) :
    (h.killOwned b keep).absAt b' k = h.absAt b' k := rfl



theorem remapKey_frame (h : Heap) (hi : Inv h) (b g k b' k' : Nat) :
    (h.remapKey b g k).absAt b' k' = h.absAt b' k' := by
  cases hr : aget (h.bms b) k with
  | none => rw [remapKey_none h b g k hr]
  | some c =>
    cases hf : (h.conts c).frozen with
    | true => rw [remapKey_frozen h b g k c hr hf]; exact absAt_halfCopy h hi b k c _ _ hr b' k'
    | false => rw [remapKey_unfrozen h b g k c hr hf]; exact absAt_moved h hi c _ _ b' k'

theorem remap_loop_frame (b g : Nat) (K : List Nat) :
    ∀ h, Inv h → RegOk h b g → (∀ k c, aget (h.bms b) k = some c → k ∈ K ∨ h.kindOf c = .mmap g) →
      ∀ b' k', (K.foldl (fun h k => h.remapKey b g k) h).absAt b' k' = h.absAt b' k' := by
  induction K with
  | nil => intro h _ _ _ b' k'; rfl
  | cons k rest ih =>
    intro h hi hg hq b' k'
    simp only [List.foldl_cons]
    obtain ⟨a1, a2, a3⟩ := remap_step h hi b g k hg rest hq
    rw [ih _ a1 a2 a3 b' k']
    exact remapKey_frame h hi b g k b' k'

theorem unmapKey_frame (h : Heap) (hi : Inv h) (b k b' k' : Nat) :
    (h.unmapKey b k).absAt b' k' = h.absAt b' k' := by
  cases hr : aget (h.bms b) k with
  | none => rw [unmapKey_none h b k hr]
  | some c =>
    rw [unmapKey_some h b k c hr]
    split
    · exact absAt_unmapInPlace h hi c b' k'
    · rfl

theorem unmap_loop_frame (b : Nat) (K : List Nat) :
    ∀ h, Inv h → (∀ k c, aget (h.bms b) k = some c → k ∈ K ∨ h.kindOf c = .heap) →
      ∀ b' k', (K.foldl (fun h k => h.unmapKey b k) h).absAt b' k' = h.absAt b' k' := by
  induction K with
  | nil => intro h _ _ b' k'; rfl
  | cons k rest ih =>
    intro h hi hq b' k'
    simp only [List.foldl_cons]
    obtain ⟨a1, a2⟩ := unmap_step h hi b k rest hq
    rw [ih _ a1 a2 b' k']
    exact unmapKey_frame h hi b k b' k'

theorem load_loop_frame (b g : Nat) (kvs : List (Nat × List Nat)) :
    ∀ h, Inv h → RegOk h b g →
      ∀ b' k', b' ≠ b → (kvs.foldl (fun h kv => h.loadOne b g kv) h).absAt b' k' = h.absAt b' k' := by
  induction kvs with
  | nil => intro h _ _ b' k' _; rfl
  | cons kv rest ih =>
    intro h hi hr b' k' e
    simp only [List.foldl_cons]
    have hi1 : Inv (h.loadOne b g kv) := by
      rw [loadOne_eq]
      exact inv_newCont h hi b kv.1 kv.2 (.mmap g) (fun g' e => by cases e; exact ⟨hr.live, hr.owner, hr.lt⟩)
    have hr1 : RegOk (h.loadOne b g kv) b g := ⟨hr.live, hr.owner, hr.lt⟩
    rw [ih _ hi1 hr1 b' k' e, loadOne_eq]
    exact absAt_newCont_other h hi b kv.1 kv.2 _ _ b' e k'

/-- Frame: a safe primitive changes the value of its target bitmap only. -/
theorem frame_applyPrim (h : Heap) (hi : Inv h) (p : Prim) (hp : p.isRaw = false)
    (b' : Nat) (hb : p.targetIn h ≠ some b') (k' : Nat) :
    (h.applyPrim p).absAt b' k' = h.absAt b' k' := by
  cases p with
  | newBm =>
    have e : b' ≠ h.nB := fun e => hb (by simp [Prim.targetIn, e])
    exact absAt_bms_other h h.nB [] (h.nB + 1) b' e k'
  | fresh b k vals =>
    have e : b' ≠ b := fun e => hb (by simp [Prim.targetIn, Prim.target, e])
    exact absAt_newCont_other h hi b k vals .heap false b' e k'
  | share b k c =>
    have e : b' ≠ b := fun e => hb (by simp [Prim.targetIn, Prim.target, e])
    simp only [Heap.applyPrim]
    split
    · have := absAt_bms_other (h.freezeC c) b (aput ((h.freezeC c).bms b) k c) (h.freezeC c).nB b' e k'
      rw [← absAt_freezeC h hi c b' k']
      exact this
    · rfl
  | shareRaw b k c => simp [Prim.isRaw] at hp
  | write b k vals =>
    have e : b' ≠ b := fun e => hb (by simp [Prim.targetIn, Prim.target, e])
    simp only [Heap.applyPrim]
    split
    · exact absAt_newCont_other h hi b k vals .heap false b' e k'
    · rename_i c hr
      have hc := hi.contLt b k c hr
      split
      · rfl
      · unfold Heap.thawAt
        cases hf : (h.conts c).frozen with
        | true =>
          simp only [if_true]
          have hst : ((h.allocCont (h.vals c)).1.conts (h.allocCont (h.vals c)).2).store = h.nS := by
            simp [Heap.allocCont, upd]
          rw [hst]
          refine Eq.trans (absAt_setVals_other
            ({ h with stores := upd h.stores h.nS ⟨h.vals c, .heap⟩, nS := h.nS + 1,
                      conts := upd h.conts h.nC ⟨h.nS, false, false⟩, nC := h.nC + 1,
                      bms := upd h.bms b (aput (h.bms b) k h.nC) } : Heap) h.nS vals b' ?_ k') ?_
          · intro k'' c'' hr''
            have hr3 : aget (h.bms b') k'' = some c'' := by
              simpa [upd, e] using hr''
            have hc'' := hi.contLt b' k'' c'' hr3
            have hs := hi.storeLt c'' hc''
            have e1 : ¬ c'' = h.nC := by omega
            simp [upd, e1]
            omega
          · exact absAt_newCont_other h hi b k (h.vals c) .heap false b' e k'
        | false =>
          have notref : ∀ k'' c'', aget (h.bms b') k'' = some c'' → c'' ≠ c := by
            intro k'' c'' hr'' ec
            subst ec
            have := hi.shared b' k'' b k c'' hr'' hr (Or.inl e)
            rw [hf] at this; cases this
          cases hm : (h.conts c).mapped with
          | true =>
            simp only [if_true, Bool.false_eq_true, if_false]
            have hst : ((h.unmapInPlace c).conts c).store = h.nS := by
              simp [Heap.unmapInPlace, upd]
            rw [hst]
            refine Eq.trans (absAt_setVals_other (h.unmapInPlace c) h.nS vals b' ?_ k') ?_
            · intro k'' c'' hr''
              have hr3 : aget (h.bms b') k'' = some c'' := hr''
              have hne := notref k'' c'' hr3
              have hc'' := hi.contLt b' k'' c'' hr3
              have hs := hi.storeLt c'' hc''
              simp [Heap.unmapInPlace, upd, hne]
              omega
            · exact absAt_unmapInPlace h hi c b' k'
          | false =>
            simp only [Bool.false_eq_true, if_false]
            apply absAt_setVals_other
            intro k'' c'' hr'' es
            have hc'' := hi.contLt b' k'' c'' hr''
            exact notref k'' c'' hr'' (hi.storeInj c'' c hc'' hc es)
  | del b k =>
    have e : b' ≠ b := fun e => hb (by simp [Prim.targetIn, Prim.target, e])
    exact absAt_bms_other h b _ h.nB b' e k'
  | freezeAt c =>
    simp only [Heap.applyPrim]
    split
    · exact absAt_freezeC h hi c b' k'
    · rfl
  | load b kvs =>
    have e : b' ≠ b := fun e => hb (by simp [Prim.targetIn, Prim.target, e])
    simp only [Heap.applyPrim]
    rw [absAt_killOwned]
    have h0 : Inv ({ h with live := upd h.live h.nR true, owner := upd h.owner h.nR b, nR := h.nR + 1,
                            bms := upd h.bms b [] } : Heap) :=
      inv_clearBm _ (inv_newRegion h hi b) b h.nB
    have hg : RegOk ({ h with live := upd h.live h.nR true, owner := upd h.owner h.nR b, nR := h.nR + 1,
                              bms := upd h.bms b [] } : Heap) b h.nR :=
      ⟨by simp [upd], by simp [upd], by show h.nR < h.nR + 1; omega⟩
    rw [load_loop_frame b h.nR kvs _ h0 hg b' k' e]
    exact absAt_bms_other _ b [] h.nB b' e k'
  | remapNew b =>
    simp only [Heap.applyPrim]
    rw [absAt_killOwned]
    have h0 := inv_newRegion h hi b
    have hg : RegOk ({ h with live := upd h.live h.nR true, owner := upd h.owner h.nR b, nR := h.nR + 1 } : Heap) b h.nR :=
      ⟨by simp [upd], by simp [upd], by show h.nR < h.nR + 1; omega⟩
    rw [remap_loop_frame b h.nR ((h.bms b).map (·.1)) _ h0 hg
      (by intro k c hr; left; exact aget_mem_keys _ k c hr) b' k']
    rfl
  | unmapAll b =>
    simp only [Heap.applyPrim]
    rw [absAt_killOwned]
    exact unmap_loop_frame b ((h.bms b).map (·.1)) h hi
      (by intro k c hr; left; exact aget_mem_keys _ k c hr) b' k'
  | drop b =>
    have e : b' ≠ b := fun e => hb (by simp [Prim.targetIn, Prim.target, e])
    simp only [Heap.applyPrim]
    rw [absAt_killOwned]
    exact absAt_bms_other h b [] h.nB b' e k'


end PV.C03
