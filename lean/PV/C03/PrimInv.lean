/-
C03: every primitive heap action except `shareRaw` preserves `Inv`.  Core Lean only.
-/
import PV.C03.Lemmas
set_option linter.unusedSimpArgs false
namespace PV.C03

def Prim.isRaw : Prim → Bool
  | .shareRaw _ _ _ => true
  | _ => false

@[simp] theorem aget_nil (k : Nat) : aget [] k = none := rfl

/-- `freezeC` as a `moved`. -/
theorem freezeC_eq (h : Heap) (c : Nat) :
    h.freezeC c = if (h.conts c).frozen then h else h.moved c (h.vals c) .heap true := by
  unfold Heap.freezeC Heap.moved
  split <;> rfl

theorem unmapInPlace_eq (h : Heap) (c : Nat) :
    h.unmapInPlace c = h.moved c (h.vals c) .heap (h.conts c).frozen := rfl

theorem inv_freezeC (h : Heap) (hi : Inv h) (c : Nat) (hc : c < h.nC) : Inv (h.freezeC c) := by
  rw [freezeC_eq]
  split
  · exact hi
  · exact inv_moveCont h hi c hc _ _ _ (fun _ => rfl) (Or.inl rfl) (fun g e => by cases e)

theorem freezeC_frozen (h : Heap) (c : Nat) : ((h.freezeC c).conts c).frozen = true := by
  rw [freezeC_eq]
  split
  · assumption
  · rw [moved_cont_same]

theorem freezeC_nC (h : Heap) (c : Nat) : (h.freezeC c).nC = h.nC := by
  rw [freezeC_eq]; split <;> rfl

theorem freezeC_bms (h : Heap) (c : Nat) : (h.freezeC c).bms = h.bms := by
  rw [freezeC_eq]; split <;> rfl

theorem inv_unmapInPlace (h : Heap) (hi : Inv h) (c : Nat) (hc : c < h.nC)
    (hf : (h.conts c).frozen = false) : Inv (h.unmapInPlace c) := by
  rw [unmapInPlace_eq]
  exact inv_moveCont h hi c hc _ _ _ (fun e => rfl) (Or.inr hf) (fun g e => by cases e)

/-- put a frozen container at (b,k) -/
theorem inv_putFrozen (h : Heap) (hi : Inv h) (b k c : Nat) (hc : c < h.nC)
    (hf : (h.conts c).frozen = true) :
    Inv { h with bms := upd h.bms b (aput (h.bms b) k c) } := by
  apply inv_bms h hi
  intro b' k' c' hr
  simp only [upd] at hr
  split at hr
  · rename_i e; subst e
    rw [aget_aput] at hr
    split at hr
    · have := Option.some.inj hr; subst this; right; exact ⟨hc, hf⟩
    · left; exact hr
  · left; exact hr

theorem inv_del (h : Heap) (hi : Inv h) (b k : Nat) :
    Inv { h with bms := upd h.bms b (adel (h.bms b) k) } := by
  apply inv_bms h hi
  intro b' k' c' hr
  simp only [upd] at hr
  split at hr
  · rename_i e; subst e
    rw [aget_adel] at hr
    split at hr
    · cases hr
    · left; exact hr
  · left; exact hr

theorem inv_clearBm (h : Heap) (hi : Inv h) (b nB' : Nat) :
    Inv { h with bms := upd h.bms b [], nB := nB' } := by
  apply inv_bms h hi
  intro b' k' c' hr
  simp only [upd] at hr
  split at hr
  · simp at hr
  · left; exact hr

/-- setting the values of a heap store -/
theorem inv_setVals (h : Heap) (hi : Inv h) (s : Nat) (v : List Nat)
    (hs : (h.stores s).kind = .heap) :
    Inv { h with stores := upd h.stores s ⟨v, .heap⟩ } := by
  apply inv_stores h hi
  intro s'
  simp only [upd]
  split
  · rename_i e; subst e; simp [hs]
  · rfl

theorem kind_heap_of_unmapped (h : Heap) (hi : Inv h) (c : Nat) (hc : c < h.nC)
    (hm : (h.conts c).mapped = false) : h.kindOf c = .heap := by
  have := hi.mappedOk c hc
  rw [hm] at this
  cases hk : h.kindOf c with
  | heap => rfl
  | mmap g => rw [hk] at this; simp [isMmap] at this

/-! ### the loops of `load`, `remapNew`, `unmapAll` -/

/-- facts about the target region that the loops keep -/
structure RegOk (h : Heap) (b g : Nat) : Prop where
  live : h.live g = true
  owner : h.owner g = b
  lt : g < h.nR

theorem loadOne_eq (h : Heap) (b g : Nat) (kv : Nat × List Nat) :
    h.loadOne b g kv =
      { h with stores := upd h.stores h.nS ⟨kv.2, .mmap g⟩, nS := h.nS + 1,
               conts := upd h.conts h.nC ⟨h.nS, false, isMmap (.mmap g)⟩, nC := h.nC + 1,
               bms := upd h.bms b (aput (h.bms b) kv.1 h.nC) } := rfl

/-- kinds of old containers are not touched by adding a new container -/
theorem newCont_kind_old (h : Heap) (hi : Inv h) (b k : Nat) (v : List Nat) (kd : Kind) (c : Nat) (hc : c < h.nC) :
    ({ h with stores := upd h.stores h.nS ⟨v, kd⟩, nS := h.nS + 1,
              conts := upd h.conts h.nC ⟨h.nS, false, isMmap kd⟩, nC := h.nC + 1,
              bms := upd h.bms b (aput (h.bms b) k h.nC) } : Heap).kindOf c = h.kindOf c := by
  have hs := hi.storeLt c hc
  have e1 : ¬ c = h.nC := by omega
  have e2 : ¬ (h.conts c).store = h.nS := by omega
  simp [Heap.kindOf, upd, e1, e2]

theorem newCont_kind_new (h : Heap) (b k : Nat) (v : List Nat) (kd : Kind) :
    ({ h with stores := upd h.stores h.nS ⟨v, kd⟩, nS := h.nS + 1,
              conts := upd h.conts h.nC ⟨h.nS, false, isMmap kd⟩, nC := h.nC + 1,
              bms := upd h.bms b (aput (h.bms b) k h.nC) } : Heap).kindOf h.nC = kd := by
  simp [Heap.kindOf, upd]

theorem load_loop (b g : Nat) (kvs : List (Nat × List Nat)) :
    ∀ h, Inv h → RegOk h b g → (∀ k c, aget (h.bms b) k = some c → h.kindOf c = .mmap g) →
      let h' := kvs.foldl (fun h kv => h.loadOne b g kv) h
      Inv h' ∧ RegOk h' b g ∧ (∀ k c, aget (h'.bms b) k = some c → h'.kindOf c = .mmap g) ∧
        h'.owner = h.owner ∧ h'.live = h.live := by
  induction kvs with
  | nil => intro h hi hr hq; exact ⟨hi, hr, hq, rfl, rfl⟩
  | cons kv rest ih =>
    intro h hi hr hq
    simp only [List.foldl_cons]
    have hi1 : Inv (h.loadOne b g kv) := by
      rw [loadOne_eq]
      exact inv_newCont h hi b kv.1 kv.2 (.mmap g) (fun g' e => by cases e; exact ⟨hr.live, hr.owner, hr.lt⟩)
    have hr1 : RegOk (h.loadOne b g kv) b g := ⟨hr.live, hr.owner, hr.lt⟩
    have hq1 : ∀ k c, aget ((h.loadOne b g kv).bms b) k = some c → (h.loadOne b g kv).kindOf c = .mmap g := by
      intro k c hrf
      rw [loadOne_eq] at hrf ⊢
      simp only [upd, if_true] at hrf
      rw [aget_aput] at hrf
      split at hrf
      · have := Option.some.inj hrf; subst this
        exact newCont_kind_new h b kv.1 kv.2 (.mmap g)
      · rw [newCont_kind_old h hi b kv.1 kv.2 (.mmap g) c (hi.contLt b k c hrf)]
        exact hq k c hrf
    obtain ⟨a1, a2, a3, a4, a5⟩ := ih (h.loadOne b g kv) hi1 hr1 hq1
    exact ⟨a1, a2, a3, a4, a5⟩



theorem remapKey_frozen (h : Heap) (b g k c : Nat) (hr : aget (h.bms b) k = some c)
    (hf : (h.conts c).frozen = true) :
    h.remapKey b g k =
      { h with stores := upd h.stores h.nS ⟨h.vals c, .mmap g⟩, nS := h.nS + 1,
               conts := upd h.conts h.nC ⟨h.nS, false, isMmap (.mmap g)⟩, nC := h.nC + 1,
               bms := upd h.bms b (aput (h.bms b) k h.nC) } := by
  unfold Heap.remapKey; rw [hr]; simp only [hf, if_true]; rfl

theorem remapKey_unfrozen (h : Heap) (b g k c : Nat) (hr : aget (h.bms b) k = some c)
    (hf : (h.conts c).frozen = false) :
    h.remapKey b g k = h.moved c (h.vals c) (.mmap g) false := by
  unfold Heap.remapKey; rw [hr]; simp only [hf]; rfl

theorem remapKey_none (h : Heap) (b g k : Nat) (hr : aget (h.bms b) k = none) :
    h.remapKey b g k = h := by
  unfold Heap.remapKey; rw [hr]

theorem remap_step (h : Heap) (hi : Inv h) (b g k : Nat) (hg : RegOk h b g) (K : List Nat)
    (hq : ∀ k' c, aget (h.bms b) k' = some c → k' ∈ k :: K ∨ h.kindOf c = .mmap g) :
    let h' := h.remapKey b g k
    Inv h' ∧ RegOk h' b g ∧ (∀ k' c, aget (h'.bms b) k' = some c → k' ∈ K ∨ h'.kindOf c = .mmap g) := by
  cases hr : aget (h.bms b) k with
  | none =>
    rw [remapKey_none h b g k hr]
    refine ⟨hi, hg, ?_⟩
    intro k' c hrf
    rcases hq k' c hrf with hm | hk
    · rcases List.mem_cons.mp hm with e | hm
      · subst e; rw [hr] at hrf; cases hrf
      · left; exact hm
    · right; exact hk
  | some c =>
    have hc := hi.contLt b k c hr
    cases hf : (h.conts c).frozen with
    | true =>
      rw [remapKey_frozen h b g k c hr hf]
      refine ⟨inv_newCont h hi b k _ (.mmap g) (fun g' e => by cases e; exact ⟨hg.live, hg.owner, hg.lt⟩),
              ⟨hg.live, hg.owner, hg.lt⟩, ?_⟩
      intro k' c' hrf
      simp only [upd, if_true] at hrf
      rw [aget_aput] at hrf
      split at hrf
      · have := Option.some.inj hrf; subst this
        right; exact newCont_kind_new h b k _ (.mmap g)
      · rename_i e
        rw [newCont_kind_old h hi b k _ (.mmap g) c' (hi.contLt b k' c' hrf)]
        rcases hq k' c' hrf with hm | hk
        · rcases List.mem_cons.mp hm with e' | hm
          · exact absurd e' e
          · left; exact hm
        · right; exact hk
    | false =>
      rw [remapKey_unfrozen h b g k c hr hf]
      have hown : ∀ b' k', aget (h.bms b') k' = some c → h.owner g = b' := by
        intro b' k' hr'
        by_cases e : b' = b
        · rw [e]; exact hg.owner
        · have := hi.shared b' k' b k c hr' hr (Or.inl e)
          rw [hf] at this; cases this
      refine ⟨inv_moveCont h hi c hc _ (.mmap g) false (fun e => by cases e) (Or.inr hf)
                (fun g' e => by cases e; exact ⟨hg.live, hg.lt, hown⟩),
              ⟨hg.live, hg.owner, hg.lt⟩, ?_⟩
      intro k' c' hrf
      have hrf' : aget (h.bms b) k' = some c' := hrf
      by_cases e : c' = c
      · right; rw [e]; exact moved_kind_same h c _ _ _
      · rw [moved_kind_ne h hi.storeLt c _ _ _ c' (hi.contLt b k' c' hrf') e]
        rcases hq k' c' hrf' with hm | hk
        · rcases List.mem_cons.mp hm with e' | hm
          · subst e'; rw [hr] at hrf'; exact absurd (Option.some.inj hrf').symm e
          · left; exact hm
        · right; exact hk

theorem remap_loop (b g : Nat) (K : List Nat) :
    ∀ h, Inv h → RegOk h b g → (∀ k c, aget (h.bms b) k = some c → k ∈ K ∨ h.kindOf c = .mmap g) →
      let h' := K.foldl (fun h k => h.remapKey b g k) h
      Inv h' ∧ RegOk h' b g ∧ (∀ k c, aget (h'.bms b) k = some c → h'.kindOf c = .mmap g) := by
  induction K with
  | nil =>
    intro h hi hg hq
    refine ⟨hi, hg, ?_⟩
    intro k c hr
    rcases hq k c hr with hm | hk
    · cases hm
    · exact hk
  | cons k rest ih =>
    intro h hi hg hq
    simp only [List.foldl_cons]
    obtain ⟨a1, a2, a3⟩ := remap_step h hi b g k hg rest hq
    exact ih _ a1 a2 a3



theorem unmapKey_none (h : Heap) (b k : Nat) (hr : aget (h.bms b) k = none) : h.unmapKey b k = h := by
  unfold Heap.unmapKey; rw [hr]

theorem unmapKey_some (h : Heap) (b k c : Nat) (hr : aget (h.bms b) k = some c) :
    h.unmapKey b k = if ((h.conts c).mapped && !(h.conts c).frozen) = true then h.unmapInPlace c else h := by
  unfold Heap.unmapKey; rw [hr]

theorem unmap_step (h : Heap) (hi : Inv h) (b k : Nat) (K : List Nat)
    (hq : ∀ k' c, aget (h.bms b) k' = some c → k' ∈ k :: K ∨ h.kindOf c = .heap) :
    let h' := h.unmapKey b k
    Inv h' ∧ (∀ k' c, aget (h'.bms b) k' = some c → k' ∈ K ∨ h'.kindOf c = .heap) := by
  cases hr : aget (h.bms b) k with
  | none =>
    rw [unmapKey_none h b k hr]
    refine ⟨hi, ?_⟩
    intro k' c hrf
    rcases hq k' c hrf with hm | hk
    · rcases List.mem_cons.mp hm with e | hm
      · subst e; rw [hr] at hrf; cases hrf
      · left; exact hm
    · right; exact hk
  | some c =>
    have hc := hi.contLt b k c hr
    rw [unmapKey_some h b k c hr]
    by_cases hcond : ((h.conts c).mapped && !(h.conts c).frozen) = true
    · rw [if_pos hcond]
      have hf : (h.conts c).frozen = false := by
        cases hf : (h.conts c).frozen
        · rfl
        · rw [hf] at hcond; simp at hcond
      refine ⟨inv_unmapInPlace h hi c hc hf, ?_⟩
      intro k' c' hrf
      have hrf' : aget (h.bms b) k' = some c' := hrf
      rw [unmapInPlace_eq]
      by_cases e : c' = c
      · right; rw [e]; exact moved_kind_same h c _ _ _
      · rw [moved_kind_ne h hi.storeLt c _ _ _ c' (hi.contLt b k' c' hrf') e]
        rcases hq k' c' hrf' with hm' | hk
        · rcases List.mem_cons.mp hm' with e' | hm'
          · subst e'; rw [hr] at hrf'; exact absurd (Option.some.inj hrf').symm e
          · left; exact hm'
        · right; exact hk
    · rw [if_neg hcond]
      have hkc : h.kindOf c = .heap := by
        cases hm : (h.conts c).mapped
        · exact kind_heap_of_unmapped h hi c hc hm
        · cases hf : (h.conts c).frozen
          · rw [hm, hf] at hcond; simp at hcond
          · exact hi.frozenHeap c hc hf
      refine ⟨hi, ?_⟩
      intro k' c' hrf
      rcases hq k' c' hrf with hm' | hk
      · rcases List.mem_cons.mp hm' with e | hm'
        · subst e; rw [hr] at hrf; have := Option.some.inj hrf; subst this
          right; exact hkc
        · left; exact hm'
      · right; exact hk

theorem unmap_loop (b : Nat) (K : List Nat) :
    ∀ h, Inv h → (∀ k c, aget (h.bms b) k = some c → k ∈ K ∨ h.kindOf c = .heap) →
      let h' := K.foldl (fun h k => h.unmapKey b k) h
      Inv h' ∧ (∀ k c, aget (h'.bms b) k = some c → h'.kindOf c = .heap) := by
  induction K with
  | nil =>
    intro h hi hq
    refine ⟨hi, ?_⟩
    intro k c hr
    rcases hq k c hr with hm | hk
    · cases hm
    · exact hk
  | cons k rest ih =>
    intro h hi hq
    simp only [List.foldl_cons]
    obtain ⟨a1, a2⟩ := unmap_step h hi b k rest hq
    exact ih _ a1 a2

/-- unmapping the regions of `b` other than `keep`, when every container of `b` that is mapped
lies in `keep` -/
theorem inv_killOwned (h : Heap) (hi : Inv h) (b : Nat) (keep : Option Nat)
    (hq : ∀ k c g, aget (h.bms b) k = some c → h.kindOf c = .mmap g → some g = keep) :
    Inv (h.killOwned b keep) := by
  unfold Heap.killOwned
  apply inv_kill h hi
  intro b' k c g hr hk
  obtain ⟨_, ho, _⟩ := hi.region b' k c g hr hk
  by_cases e : b' = b
  · subst e
    have := hq k c g hr hk
    simp [this]
  · have : ¬ h.owner g = b := by rw [ho]; exact e
    simp [this]


/-! ### every safe primitive preserves the invariant -/

theorem inv_write_some (h : Heap) (hi : Inv h) (b k c : Nat) (v : List Nat)
    (hr : aget (h.bms b) k = some c) :
    Inv (let r := h.thawAt b k c
         { r.1 with stores := upd r.1.stores (r.1.conts r.2).store ⟨v, .heap⟩ }) := by
  have hc := hi.contLt b k c hr
  unfold Heap.thawAt
  cases hf : (h.conts c).frozen with
  | true =>
    simp only [if_true]
    have h1 := inv_newCont h hi b k (h.vals c) .heap (fun g e => by cases e)
    refine inv_setVals _ h1 _ v ?_
    simp [Heap.allocCont, upd]
  | false =>
    cases hm : (h.conts c).mapped with
    | true =>
      simp only [if_true, Bool.false_eq_true, if_false]
      have h1 := inv_unmapInPlace h hi c hc hf
      refine inv_setVals _ h1 _ v ?_
      rw [unmapInPlace_eq]
      have := moved_kind_same h c (h.vals c) .heap (h.conts c).frozen
      exact this
    | false =>
      simp only [Bool.false_eq_true, if_false]
      exact inv_setVals h hi _ v (kind_heap_of_unmapped h hi c hc hm)

theorem inv_applyPrim (h : Heap) (hi : Inv h) (p : Prim) (hp : p.isRaw = false) :
    Inv (h.applyPrim p) := by
  cases p with
  | newBm => exact inv_clearBm h hi h.nB (h.nB + 1)
  | fresh b k vals => exact inv_newCont h hi b k vals .heap (fun g e => by cases e)
  | share b k c =>
    simp only [Heap.applyPrim]
    split
    · rename_i hc
      have h1 := inv_freezeC h hi c hc
      exact inv_putFrozen _ h1 b k c (by rw [freezeC_nC]; exact hc) (freezeC_frozen h c)
    · exact hi
  | shareRaw b k c => simp [Prim.isRaw] at hp
  | write b k vals =>
    simp only [Heap.applyPrim]
    split
    · exact inv_newCont h hi b k vals .heap (fun g e => by cases e)
    · rename_i c hr
      split
      · exact hi
      · exact inv_write_some h hi b k c vals hr
  | del b k => exact inv_del h hi b k
  | freezeAt c =>
    simp only [Heap.applyPrim]
    split
    · rename_i hc; exact inv_freezeC h hi c hc
    · exact hi
  | load b kvs =>
    simp only [Heap.applyPrim]
    have h0 : Inv ({ h with live := upd h.live h.nR true, owner := upd h.owner h.nR b, nR := h.nR + 1,
                            bms := upd h.bms b [] } : Heap) :=
      inv_clearBm _ (inv_newRegion h hi b) b h.nB
    have hg : RegOk ({ h with live := upd h.live h.nR true, owner := upd h.owner h.nR b, nR := h.nR + 1,
                              bms := upd h.bms b [] } : Heap) b h.nR :=
      ⟨by simp [upd], by simp [upd], by show h.nR < h.nR + 1; omega⟩
    obtain ⟨a1, a2, a3, _, _⟩ := load_loop b h.nR kvs _ h0 hg (by intro k c hr; simp [upd] at hr)
    apply inv_killOwned _ a1
    intro k c g hr hk
    have := a3 k c hr
    rw [this] at hk
    cases hk; rfl
  | remapNew b =>
    simp only [Heap.applyPrim]
    have h0 := inv_newRegion h hi b
    have hg : RegOk ({ h with live := upd h.live h.nR true, owner := upd h.owner h.nR b, nR := h.nR + 1 } : Heap) b h.nR :=
      ⟨by simp [upd], by simp [upd], by show h.nR < h.nR + 1; omega⟩
    obtain ⟨a1, a2, a3⟩ := remap_loop b h.nR ((h.bms b).map (·.1)) _ h0 hg
      (by intro k c hr; left; exact aget_mem_keys _ k c hr)
    apply inv_killOwned _ a1
    intro k c g hr hk
    have := a3 k c hr
    rw [this] at hk
    cases hk; rfl
  | unmapAll b =>
    simp only [Heap.applyPrim]
    obtain ⟨a1, a2⟩ := unmap_loop b ((h.bms b).map (·.1)) h hi
      (by intro k c hr; left; exact aget_mem_keys _ k c hr)
    apply inv_killOwned _ a1
    intro k c g hr hk
    have := a2 k c hr
    rw [this] at hk
    cases hk
  | drop b =>
    simp only [Heap.applyPrim]
    apply inv_killOwned _ (inv_clearBm h hi b h.nB)
    intro k c g hr hk
    simp [upd] at hr

theorem inv_applyPrims (ps : List Prim) : ∀ h, Inv h → (∀ p ∈ ps, p.isRaw = false) → Inv (h.applyPrims ps) := by
  induction ps with
  | nil => intro h hi _; exact hi
  | cons p rest ih =>
    intro h hi hp
    simp only [Heap.applyPrims, List.foldl_cons]
    exact ih _ (inv_applyPrim h hi p (hp p (by simp))) (fun q hq => hp q (by simp [hq]))

end PV.C03
