/-
C03 property theorems: derived bitmaps, rows and query results are isolated values.

Full-strength statement (over the heap model of Model.lean / Rows.lean):
  * `Iso` (`Inv`, Lemmas.lean): a container reachable from two places is frozen; stores are never
    shared between container objects; frozen data lives on the heap; `mapped` says exactly that the
    data lies in a mapping; a reachable container with mapped data lies in a LIVE region owned by
    the bitmap that reaches it.
  * C03_iso_step     every step preserves Iso (every history starts from the empty heap, which
                     satisfies it: C03_iso_init, C03_iso_history).
  * C03_isolated     under Iso a step changes the value of its target bitmap only: a deriving step
                     (clone, freeze, union, intersect, difference, xor, offset range, decode from a
                     mapping) leaves EVERY existing bitmap unchanged, a mutation changes only the
                     bitmap it is applied to, remap / unmap (snapshot, close) change no value at all.
                     C03_isolated_history lifts it to any later sequence of steps not aimed at the bitmap:
                     a value derived at step i is unchanged by later operations on its sources and
                     the sources by later operations on it.
  * C03_no_use_after_unmap   under Iso no reachable container lies in an unmapped region, so no
                     read panics.
Everything is proved for an arbitrary heap satisfying Iso, i.e. for every history.  Core Lean only.
-/
import PV.C03.Plans
import PV.C03.Rows
import PV.C03.WorldLemmas
set_option linter.unusedSimpArgs false
namespace PV.C03

/-- The heap every history starts from satisfies Iso. -/
theorem C03_iso_init : Inv Heap.empty := inv_empty

/-- Every primitive heap action the steps are made of (all but the raw, unfrozen share that
`unprotectedSetRow` used before the fix) preserves Iso. -/
theorem C03_iso_prim (h : Heap) (hi : Inv h) (p : Prim) (hp : p.isRaw = false) : Inv (h.applyPrim p) :=
  inv_applyPrim h hi p hp

/-- Iso is preserved by every step on bitmaps: create, add, remove, clone, freeze, union,
intersect, difference, xor, offset range, decode from a mapping, remap to a new file (snapshot),
unmap, drop (close). -/
theorem C03_iso_step (h : Heap) (hi : Inv h) (op : BOp) : Inv (stepB h op) :=
  inv_applyPrims (planB h op) h hi (fun p hp => (planB_ok h op p hp).1)

example : Inv (stepB (stepB Heap.empty (.new [1, 2, 70000])) (.freeze 0)) :=
  C03_iso_step _ (C03_iso_step _ C03_iso_init _) _

/-- Isolation, one step: a bitmap that is not a target of the step keeps its value at every key.
For a deriving step the only target is the new bitmap, so sources keep their value. -/
theorem C03_isolated (h : Heap) (hi : Inv h) (op : BOp) (b : Nat) (hb : b < h.nB)
    (hn : b ∉ op.targets h) (k : Nat) : (stepB h op).absAt b k = h.absAt b k := by
  apply frame_applyPrims (planB h op) h hi (fun p hp => (planB_ok h op p hp).1) b hb
  intro p hp ht
  exact hn ((planB_ok h op p hp).2 b ht)

/-- A history (list of steps) run from a heap. -/
def runB (h : Heap) (ops : List BOp) : Heap := ops.foldl stepB h

/-- No step of the history is aimed at bitmap `b` (targets are evaluated where the step runs). -/
def untouched (b : Nat) : Heap → List BOp → Prop
  | _, [] => True
  | h, op :: rest => b ∉ op.targets h ∧ untouched b (stepB h op) rest

theorem C03_iso_history (ops : List BOp) : ∀ h, Inv h → Inv (runB h ops) := by
  induction ops with
  | nil => intro h hi; exact hi
  | cons op rest ih => intro h hi; exact ih _ (C03_iso_step h hi op)

theorem nB_stepB (h : Heap) (op : BOp) : h.nB ≤ (stepB h op).nB := by
  unfold stepB Heap.applyPrims
  generalize planB h op = ps
  induction ps generalizing h with
  | nil => exact Nat.le_refl _
  | cons p rest ih =>
    simp only [List.foldl_cons]
    exact Nat.le_trans (nB_applyPrim h p) (ih _)

/-- Isolation, any history: whatever is done later to other bitmaps — mutation of the sources
or of the derived values, snapshots, remaps, unmaps, closes — bitmap `b` keeps its value. -/
theorem C03_isolated_history (ops : List BOp) :
    ∀ h, Inv h → ∀ b, b < h.nB → untouched b h ops → ∀ k, (runB h ops).absAt b k = h.absAt b k := by
  induction ops with
  | nil => intro h _ b _ _ k; rfl
  | cons op rest ih =>
    intro h hi b hb hu k
    obtain ⟨h1, h2⟩ := hu
    have := ih (stepB h op) (C03_iso_step h hi op) b (Nat.lt_of_lt_of_le hb (nB_stepB h op)) h2 k
    simp only [runB, List.foldl_cons] at this ⊢
    rw [this]
    exact C03_isolated h hi op b hb h1 k

example : untouched 0 (stepB (stepB Heap.empty (.new [1, 2])) (.freeze 0)) [.add 1 5, .remap 1] := by
  simp [untouched, BOp.targets]

/-- Under Iso nothing reachable lies in an unmapped region: no read is a use-after-unmap. -/
theorem C03_no_use_after_unmap (h : Heap) (hi : Inv h) (b k c : Nat)
    (hr : aget (h.bms b) k = some c) : h.readable c = true := by
  unfold Heap.readable
  cases hk : h.kindOf c with
  | heap => rfl
  | mmap g => exact (hi.region b k c g hr hk).1

/-- (ii) of Iso: the only primitive that changes a store (`Prim.write`) does so through
`thawAt` (`Container.Thaw` + `Put`), and what `thawAt` hands back is neither frozen nor mapped:
no kernel writes a store whose container is frozen or mapped. -/
theorem C03_thaw_writable (h : Heap) (b k c : Nat) :
    ((h.thawAt b k c).1.conts (h.thawAt b k c).2).frozen = false ∧
    ((h.thawAt b k c).1.conts (h.thawAt b k c).2).mapped = false := by
  unfold Heap.thawAt
  cases hf : (h.conts c).frozen with
  | true => simp [Heap.allocCont, upd]
  | false =>
    cases hm : (h.conts c).mapped with
    | true => simp [Heap.unmapInPlace, upd, hf]
    | false => simp [hf, hm]

/-! ### rows, fragment storage, rowCache, snapshot, close, reopen (Rows.lean) -/

/-- Iso is preserved by every operation of the row / fragment layer: NewRow, Row.SetBit,
Row.Union/Intersect/Difference/Xor/Merge, fragment open, setBit, clearBit, row (rowFromStorage +
rowCache + the read-only copy handed out), setRow (Put(c.Freeze())), clearRow, snapshot
(drop empties, write, remap, munmap old), Close (munmap), reopen (mmap + decode), and the user-held
bitmap operations. -/
theorem C03_world_iso_step (w w' : World) (op : Op) (hi : Inv w.h) (hs : w.step op = some w') :
    Inv w'.h :=
  (reach_step w w' op hs).inv hi

/-- A history of row / fragment operations (an operation that refers to a missing handle is skipped,
as in the driver). -/
def World.run (w : World) : List Op → World
  | [] => w
  | op :: rest => match w.step op with
      | some w' => w'.run rest
      | none => w.run rest

theorem C03_world_iso_history (ops : List Op) : ∀ w : World, Inv w.h → Inv (w.run ops).h := by
  induction ops with
  | nil => intro w hi; exact hi
  | cons op rest ih =>
    intro w hi
    simp only [World.run]
    split
    · rename_i w' hs; exact ih w' (C03_world_iso_step w w' op hi hs)
    · exact ih w hi

/-- After any history of row / fragment operations from the empty world, nothing that any bitmap
(row segment, cached row, fragment storage, user bitmap) refers to lies in an unmapped region. -/
theorem C03_world_no_use_after_unmap (ops : List Op) (b k c : Nat)
    (hr : aget ((({} : World).run ops).h.bms b) k = some c) :
    (({} : World).run ops).h.readable c = true :=
  C03_no_use_after_unmap _ (C03_world_iso_history ops {} C03_iso_init) b k c hr

example : (({} : World).run [.rnew [1, 2], .fopen 0, .fsetrow 5 0, .rset 0 9, .fclose]).h.isoCheck = true := by
  decide

/-! ### the defect that was repaired: `unprotectedSetRow` stored the caller's container unfrozen -/

/-- Witness (pre-fix behaviour, `Prim.shareRaw`): after putting bitmap 0's container into bitmap 1
without freezing it, adding a value through bitmap 0 changes bitmap 1. -/
def rawHeap : Heap := (stepB (stepB Heap.empty (.new [1])) (.new [])).applyPrim (.shareRaw 1 0 0)

theorem C03_setRow_unfrozen_witness :
    (stepB rawHeap (.add 0 5)).absAt 1 0 = some [1, 5] ∧ rawHeap.absAt 1 0 = some [1] := by
  decide

/-- The same history with the repaired primitive (`share` = `Put(k, c.Freeze())`) is isolated. -/
theorem C03_setRow_frozen_example :
    (stepB ((stepB (stepB Heap.empty (.new [1])) (.new [])).applyPrim (.share 1 0 0)) (.add 0 5)).absAt 1 0
      = some [1] := by
  decide

end PV.C03
