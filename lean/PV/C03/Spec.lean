/-
C03 spec: bitmaps, rows and fragment rows are VALUES.  Deriving copies the value; an operation
changes the value it is applied to and nothing else; snapshot / remap / close / reopen change no
value; nothing ever fails.  Core Lean only.
-/
import PV.C03.Rows
namespace PV.C03.Spec
open PV.C03

structure SFrag where
  isOpen : Bool
  shard : Nat
  bits : List Nat
deriving Repr, Inhabited

structure SWorld where
  bs : List (List Nat) := []
  rows : List (List Nat) := []
  frag : Option SFrag := none
deriving Inhabited

def binV : BinOp → List Nat → List Nat → List Nat
  | .union => vunion
  | .intersect => vinter
  | .difference => vdiff
  | .xor => vxor

def offsetV (vals : List Nat) (off start end_ : Nat) : List Nat :=
  (vals.filter (fun v => start ≤ hi v && hi v < end_)).map (fun v => (off + (hi v - start)) * 65536 + lo v)

def rowOf (f : SFrag) (r : Nat) : List Nat :=
  (f.bits.filter (fun p => p / shardWidth = r)).map (fun p => f.shard * shardWidth + p % shardWidth)

def step (w : SWorld) (op : Op) : Option SWorld :=
  match op with
  | .bnew vals => some { w with bs := w.bs ++ [vofList vals] }
  | .badd b v => (w.bs[b]?).map (fun s => { w with bs := listSet w.bs b (vinsert v s) })
  | .bremove b v => (w.bs[b]?).map (fun s => { w with bs := listSet w.bs b (verase v s) })
  | .bclone s | .bfreeze s | .bmap s => (w.bs[s]?).map (fun v => { w with bs := w.bs ++ [v] })
  | .bbin op a b =>
      match w.bs[a]?, w.bs[b]? with
      | some x, some y => some { w with bs := w.bs ++ [binV op x y] }
      | _, _ => none
  | .boffset s off start end_ => (w.bs[s]?).map (fun v => { w with bs := w.bs ++ [vofList (offsetV v off start end_)] })
  | .bremap b | .bunmap b | .boptimize b => (w.bs[b]?).map (fun _ => w)
  | .rnew cols => some { w with rows := w.rows ++ [vofList cols] }
  | .rset x col => (w.rows[x]?).map (fun s => { w with rows := listSet w.rows x (vinsert col s) })
  | .rbin op a b =>
      match w.rows[a]?, w.rows[b]? with
      | some x, some y => some { w with rows := w.rows ++ [binV op x y] }
      | _, _ => none
  | .rmerge x y =>
      match w.rows[x]?, w.rows[y]? with
      | some a, some b => some { w with rows := listSet w.rows x (vunion a b) }
      | _, _ => none
  | .fopen shard => match w.frag with
      | some _ => none
      | none => some { w with frag := some ⟨true, shard, []⟩ }
  | .fset r c => match w.frag with
      | some f => if f.isOpen then
          some { w with frag := some { f with bits := vinsert (r * shardWidth + c % shardWidth) f.bits } } else none
      | none => none
  | .fclear r c => match w.frag with
      | some f => if f.isOpen then
          some { w with frag := some { f with bits := verase (r * shardWidth + c % shardWidth) f.bits } } else none
      | none => none
  | .frow r => match w.frag with
      | some f => if f.isOpen then some { w with rows := w.rows ++ [rowOf f r] } else none
      | none => none
  | .fsetrow r y => match w.frag, w.rows[y]? with
      | some f, some cols => if f.isOpen then
          let kept := f.bits.filter (fun p => p / shardWidth != r)
          let add := (cols.filter (fun c => c / shardWidth = f.shard)).map (fun c => r * shardWidth + c % shardWidth)
          some { w with frag := some { f with bits := vunion kept add } } else none
      | _, _ => none
  | .fclearrow r => match w.frag with
      | some f => if f.isOpen then
          some { w with frag := some { f with bits := f.bits.filter (fun p => p / shardWidth != r) } } else none
      | none => none
  | .fimport clear vals => match w.frag with
      | some f => if f.isOpen then
          some { w with frag := some { f with bits := if clear then vdiff f.bits (vofList vals) else vunion f.bits (vofList vals) } } else none
      | none => none
  | .fsnap => match w.frag with
      | some f => if f.isOpen then some w else none
      | none => none
  | .fclose => match w.frag with
      | some f => if f.isOpen then some { w with frag := some { f with isOpen := false } } else none
      | none => none
  | .freopen => match w.frag with
      | some f => if f.isOpen then none else some { w with frag := some { f with isOpen := true } }
      | none => none

end PV.C03.Spec
