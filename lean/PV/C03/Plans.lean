/-
C03 helper lemmas: sequences of primitives, and what the plans of the bitmap steps consist of.
Core Lean only.
-/
import PV.C03.Frame
set_option linter.unusedSimpArgs false
namespace PV.C03


theorem fold_nB {α : Type} (f : Heap → α → Heap) (hf : ∀ h a, (f h a).nB = h.nB) (l : List α) :
    ∀ h, (l.foldl f h).nB = h.nB := by
  induction l with
  | nil => intro h; rfl
  | cons a rest ih => intro h; simp only [List.foldl_cons]; rw [ih, hf]

theorem remapKey_nB (h : Heap) (b g k : Nat) : (h.remapKey b g k).nB = h.nB := by
  unfold Heap.remapKey; split
  · rfl
  · split <;> rfl

theorem unmapKey_nB (h : Heap) (b k : Nat) : (h.unmapKey b k).nB = h.nB := by
  unfold Heap.unmapKey; split
  · rfl
  · split <;> rfl

theorem nB_applyPrim (h : Heap) (p : Prim) : h.nB ≤ (h.applyPrim p).nB := by
  cases p with
  | newBm => show h.nB ≤ h.nB + 1; omega
  | fresh b k vals => exact Nat.le_refl _
  | share b k c =>
    simp only [Heap.applyPrim]; split
    · show h.nB ≤ (h.freezeC c).nB
      rw [freezeC_eq]; split <;> exact Nat.le_refl _
    · exact Nat.le_refl _
  | shareRaw b k c => exact Nat.le_refl _
  | write b k vals =>
    simp only [Heap.applyPrim]; split
    · exact Nat.le_refl _
    · split
      · exact Nat.le_refl _
      · unfold Heap.thawAt; split
        · exact Nat.le_refl _
        · split <;> exact Nat.le_refl _
  | del b k => exact Nat.le_refl _
  | freezeAt c =>
    simp only [Heap.applyPrim]; split
    · rw [freezeC_eq]; split <;> exact Nat.le_refl _
    · exact Nat.le_refl _
  | load b kvs =>
    simp only [Heap.applyPrim, Heap.killOwned]
    rw [fold_nB (fun h_1 kv => h_1.loadOne b h.nR kv) (fun h a => rfl)]; exact Nat.le_refl _
  | remapNew b =>
    simp only [Heap.applyPrim, Heap.killOwned]
    rw [fold_nB _ (fun h a => remapKey_nB h b _ a)]; exact Nat.le_refl _
  | unmapAll b =>
    simp only [Heap.applyPrim, Heap.killOwned]
    rw [fold_nB _ (fun h a => unmapKey_nB h b a)]; exact Nat.le_refl _
  | drop b => exact Nat.le_refl _

theorem frame_applyPrims (ps : List Prim) :
    ∀ h, Inv h → (∀ p ∈ ps, p.isRaw = false) → ∀ b', b' < h.nB → (∀ p ∈ ps, p.target ≠ some b') →
      ∀ k, (h.applyPrims ps).absAt b' k = h.absAt b' k := by
  induction ps with
  | nil => intro h _ _ b' _ _ k; rfl
  | cons p rest ih =>
    intro h hi hs b' hb ht k
    simp only [Heap.applyPrims, List.foldl_cons]
    have hp := hs p (by simp)
    have h1 := inv_applyPrim h hi p hp
    have hn := nB_applyPrim h p
    have := ih (h.applyPrim p) h1 (fun q hq => hs q (by simp [hq])) b' (by omega)
      (fun q hq => ht q (by simp [hq])) k
    simp only [Heap.applyPrims] at this
    rw [this]
    apply frame_applyPrim h hi p hp
    have htp := ht p (by simp)
    cases p with
    | newBm => simp [Prim.targetIn]; omega
    | _ => exact htp



/-- a primitive that is not the raw share and that targets `d` (or nothing) -/
def Prim.okFor (d : Nat) (p : Prim) : Prop := p.isRaw = false ∧ (p.target = none ∨ p.target = some d)

theorem okFor_fresh (d k : Nat) (v : List Nat) : (Prim.fresh d k v).okFor d := ⟨rfl, Or.inr rfl⟩
theorem okFor_share (d k c : Nat) : (Prim.share d k c).okFor d := ⟨rfl, Or.inr rfl⟩
theorem okFor_write (d k : Nat) (v : List Nat) : (Prim.write d k v).okFor d := ⟨rfl, Or.inr rfl⟩
theorem okFor_newBm (d : Nat) : Prim.newBm.okFor d := ⟨rfl, Or.inl rfl⟩

theorem binBoth_ok (h : Heap) (op : BinOp) (d k ca cb : Nat) : ∀ p ∈ binBoth h op d k ca cb, p.okFor d := by
  intro p hp
  unfold binBoth at hp
  cases op <;> simp only at hp
  · simp at hp; subst hp; exact okFor_fresh _ _ _
  · split at hp
    · simp at hp
    · simp at hp; subst hp; exact okFor_fresh _ _ _
  · split at hp
    · simp at hp
    · split at hp
      · simp at hp; subst hp; exact okFor_share _ _ _
      · simp at hp; subst hp; exact okFor_fresh _ _ _
  · split at hp
    · simp at hp; subst hp; exact okFor_share _ _ _
    · split at hp
      · simp at hp; subst hp; exact okFor_share _ _ _
      · simp at hp; subst hp; exact okFor_fresh _ _ _

theorem binLeft_ok (op : BinOp) (d k c : Nat) : ∀ p ∈ binLeft op d k c, p.okFor d := by
  intro p hp
  cases op <;> simp [binLeft] at hp <;> (subst hp; exact okFor_share _ _ _)

theorem binRight_ok (op : BinOp) (d k c : Nat) : ∀ p ∈ binRight op d k c, p.okFor d := by
  intro p hp
  cases op <;> simp [binRight] at hp <;> (subst hp; exact okFor_share _ _ _)

theorem binPlan_ok (h : Heap) (op : BinOp) (d : Nat) (fuel : Nat) :
    ∀ la lb, ∀ p ∈ binPlan h op d fuel la lb, p.okFor d := by
  induction fuel with
  | zero => intro la lb p hp; simp [binPlan] at hp
  | succ n ih =>
    intro la lb p hp
    cases la with
    | nil =>
      cases lb with
      | nil => simp [binPlan] at hp
      | cons y rb =>
        obtain ⟨kb, cb⟩ := y
        simp only [binPlan, List.mem_append] at hp
        rcases hp with hp | hp
        · exact binRight_ok op d kb cb p hp
        · exact ih _ _ p hp
    | cons x ra =>
      obtain ⟨ka, ca⟩ := x
      cases lb with
      | nil =>
        simp only [binPlan, List.mem_append] at hp
        rcases hp with hp | hp
        · exact binLeft_ok op d ka ca p hp
        · exact ih _ _ p hp
      | cons y rb =>
        obtain ⟨kb, cb⟩ := y
        simp only [binPlan] at hp
        split at hp
        · simp only [List.mem_append] at hp
          rcases hp with hp | hp
          · exact binLeft_ok op d ka ca p hp
          · exact ih _ _ p hp
        · split at hp
          · simp only [List.mem_append] at hp
            rcases hp with hp | hp
            · exact binRight_ok op d kb cb p hp
            · exact ih _ _ p hp
          · simp only [List.mem_append] at hp
            rcases hp with hp | hp
            · exact binBoth_ok h op d ka ca cb p hp
            · exact ih _ _ p hp

/-- Every primitive of a step's plan is safe and targets one of the step's target bitmaps. -/
theorem planB_ok (h : Heap) (op : BOp) :
    ∀ p ∈ planB h op, p.isRaw = false ∧ ∀ t, p.target = some t → t ∈ op.targets h := by
  intro p hp
  have conv : ∀ d, p.okFor d → d ∈ op.targets h → p.isRaw = false ∧ ∀ t, p.target = some t → t ∈ op.targets h := by
    intro d ⟨h1, h2⟩ hd
    refine ⟨h1, ?_⟩
    intro t ht
    rcases h2 with h2 | h2
    · rw [h2] at ht; cases ht
    · rw [h2] at ht; cases ht; exact hd
  cases op with
  | new vals =>
    simp only [planB, List.mem_cons, List.mem_map] at hp
    rcases hp with hp | ⟨kv, _, hp⟩
    · subst hp; exact conv h.nB (okFor_newBm _) (by simp [BOp.targets])
    · subst hp; exact conv h.nB (okFor_fresh _ _ _) (by simp [BOp.targets])
  | add b v =>
    simp only [planB] at hp
    split at hp <;> simp at hp
    all_goals first
      | (obtain ⟨_, hq⟩ := hp; subst hq; exact conv b (okFor_write _ _ _) (by simp [BOp.targets]))
      | (subst hp; exact conv b (okFor_write _ _ _) (by simp [BOp.targets]))
  | remove b v =>
    simp only [planB] at hp
    split at hp
    · simp at hp
    · split at hp
      · simp at hp; subst hp; exact conv b (okFor_write _ _ _) (by simp [BOp.targets])
      · simp at hp
  | clone s =>
    simp only [planB, List.mem_cons, List.mem_map] at hp
    rcases hp with hp | ⟨kv, _, hp⟩
    · subst hp; exact conv h.nB (okFor_newBm _) (by simp [BOp.targets])
    · subst hp; exact conv h.nB (okFor_fresh _ _ _) (by simp [BOp.targets])
  | freeze s =>
    simp only [planB, List.mem_cons, List.mem_map] at hp
    rcases hp with hp | ⟨kv, _, hp⟩
    · subst hp; exact conv h.nB (okFor_newBm _) (by simp [BOp.targets])
    · subst hp; exact conv h.nB (okFor_share _ _ _) (by simp [BOp.targets])
  | bin o a b =>
    simp only [planB, List.mem_cons] at hp
    rcases hp with hp | hp
    · subst hp; exact conv h.nB (okFor_newBm _) (by simp [BOp.targets])
    · exact conv h.nB (binPlan_ok h o h.nB _ _ _ p hp) (by simp [BOp.targets])
  | offsetRange s off start end_ =>
    simp only [planB, List.mem_cons, List.mem_map] at hp
    rcases hp with hp | ⟨kv, _, hp⟩
    · subst hp; exact conv h.nB (okFor_newBm _) (by simp [BOp.targets])
    · subst hp; exact conv h.nB (okFor_share _ _ _) (by simp [BOp.targets])
  | mapFrom s =>
    simp only [planB, List.mem_cons, List.mem_singleton] at hp
    rcases hp with hp | hp | hp
    · subst hp; exact conv h.nB (okFor_newBm _) (by simp [BOp.targets])
    · subst hp; exact conv h.nB ⟨rfl, Or.inr rfl⟩ (by simp [BOp.targets])
    · cases hp
  | remap b =>
    simp only [planB, List.mem_singleton] at hp
    subst hp; exact ⟨rfl, by intro t ht; simp [Prim.target] at ht⟩
  | unmap b =>
    simp only [planB, List.mem_singleton] at hp
    subst hp; exact ⟨rfl, by intro t ht; simp [Prim.target] at ht⟩
  | drop b =>
    simp only [planB, List.mem_singleton] at hp
    subst hp; exact ⟨rfl, by intro t ht; simp [Prim.target] at ht; subst ht; simp [BOp.targets]⟩


end PV.C03
